import SiaModel.Prim.GoSem
import SiaModel.Prim.Bytes
import SiaModel.Prim.Blake2b
import SiaModel.Prim.Sha256
import SiaModel.Gen.CodeTypes
