import SiaModel.Driver.All
/-!
  Model driver: one op per input line, one canonical answer per output line.
  Core-only (no Mathlib) so that it links as a native executable. The op table
  `Sia.Driver.allOps` is assembled from the handler files in SiaModel/Driver/.
-/
open Sia.Driver

def dispatch (line : String) : String :=
  match (line.splitOn " ").filter (· ≠ "") with
  | op :: rest =>
    match allOps.lookup op with
    | some f => (f rest).replace "\n" " "
    | none => "bad-op"
  | [] => "bad-op"

partial def loop (hin hout : IO.FS.Stream) : IO Unit := do
  let line ← hin.getLine
  if line.isEmpty then return ()
  let l := line.trimAscii.toString
  hout.putStrLn (dispatch l)
  loop hin hout

def main : IO Unit := do
  let hin ← IO.getStdin
  let hout ← IO.getStdout
  loop hin hout
  hout.flush
