import SiaModel.Driver.Cur
/-!
  Model driver: one op per input line, one canonical answer per output line.
  Core-only (no Mathlib) so that it links as a native executable.
-/
open Sia.Driver

def dispatch (line : String) : String :=
  match (line.splitOn " ").filter (· ≠ "") with
  | "cur" :: rest => curOp rest
  | _ => "bad-op"

partial def loop (hin hout : IO.FS.Stream) : IO Unit := do
  let line ← hin.getLine
  if line.isEmpty then return ()
  let l := line.trimAscii.toString
  hout.putStrLn (dispatch l)
  loop hin hout

def main : IO Unit := do
  let hin ← IO.getStdin
  let hout ← IO.getStdout
  loop hin hout
  hout.flush
