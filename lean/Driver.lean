import SiaModel
def main : IO Unit := IO.println "driver"
