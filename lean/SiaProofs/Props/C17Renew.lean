import SiaProofs.Props.C17Revise
/-!
# C17, part 3 — formation, renewal, refresh (partial / full rollover) and their cost functions

Generated definitions: `Gen.Rhp4.NewContract`, `ContractCost`, `RenewContract`,
`RenewalCost`, `RefreshContractPartialRollover`, `RefreshContractFullRollover`,
`RefreshCost`, `Gen.Consensus.State.V2FileContractTax`; hand model of the consensus
side: `Sia.Ledger.validateContract`, `Sia.Ledger.validateRenewal`.
-/
namespace C17
open Gen.Types Gen.Rhp4 C15

/-- The invariant the constructors maintain on top of the consensus rules:
missed host value ≤ total collateral ≤ host output.  (Consensus itself only enforces
both `≤ host output` at formation; `RiskedCollateral()` = total − missed and
`RiskedHostRevenue()` = host − total panic without it.) -/
structure Inv (fc : V2FileContract) : Prop where
  missed_le_total : val fc.MissedHostValue ≤ val fc.TotalCollateral
  total_le_host : val fc.TotalCollateral ≤ val fc.HostOutput.Value

/-- the v2 contract tax as an integer: 4% of both outputs, rounded down -/
def tax (fc : V2FileContract) : Nat := (val fc.RenterOutput.Value + val fc.HostOutput.Value) / 25

theorem div25 {c q : Currency} (hc : WF c) (h : c.Div64 25 = .ok q) : WF q ∧ val q = val c / 25 := by
  obtain ⟨q', r, e, w, v, l⟩ := c15_quoRem64 c 25 hc (by omega) (by omega)
  unfold Currency.Div64 at h
  rw [e] at h
  simp only [bind, Except.bind, pure, Except.pure] at h
  cases h
  exact ⟨w, by omega⟩

theorem tax_inv (cs : Gen.Consensus.State) {fc : V2FileContract} (hr : WF fc.RenterOutput.Value) (hh : WF fc.HostOutput.Value)
    {t : Currency} (h : Gen.Consensus.State.V2FileContractTax cs fc = .ok t) :
    WF t ∧ val t = tax fc ∧ val fc.RenterOutput.Value + val fc.HostOutput.Value < W2 := by
  unfold Gen.Consensus.State.V2FileContractTax at h
  obtain ⟨s, e1, h⟩ := bind_ok h
  obtain ⟨ws, vs, ls⟩ := add_inv hr hh e1
  obtain ⟨w, v⟩ := div25 ws h
  exact ⟨w, by rw [v, vs]; rfl, ls⟩

theorem tax_intro (cs : Gen.Consensus.State) {fc : V2FileContract} (hr : WF fc.RenterOutput.Value) (hh : WF fc.HostOutput.Value)
    (fits : val fc.RenterOutput.Value + val fc.HostOutput.Value < W2) :
    ∃ t, Gen.Consensus.State.V2FileContractTax cs fc = .ok t ∧ WF t ∧ val t = tax fc := by
  obtain ⟨s, e1, ws, vs⟩ := add_intro hr hh fits
  obtain ⟨q, r, e, w, v, l⟩ := c15_quoRem64 s 25 ws (by omega) (by omega)
  refine ⟨q, ?_, w, ?_⟩
  · unfold Gen.Consensus.State.V2FileContractTax Currency.Div64
    simp [e1, e, bind, Except.bind, pure, Except.pure]
  · unfold tax; omega

/-- Sufficient conditions for the consensus contract rules (`validateContract`). -/
theorem validateContract_accepts (ch : Nat) (fc : V2FileContract) (hfc : FCWF fc)
    (h1 : fc.Filesize ≤ fc.Capacity) (h2 : ch ≤ fc.ProofHeight) (h3 : fc.ProofHeight < fc.ExpirationHeight)
    (h4 : val fc.RenterOutput.Value ≠ 0 ∨ val fc.HostOutput.Value ≠ 0)
    (h5 : val fc.MissedHostValue ≤ val fc.HostOutput.Value)
    (h6 : val fc.TotalCollateral ≤ val fc.HostOutput.Value) :
    Sia.Ledger.validateContract ch fc = none := by
  unfold Sia.Ledger.validateContract
  have a1 : ¬ fc.Filesize > fc.Capacity := by omega
  have a2 : ¬ fc.ProofHeight < ch := by omega
  have a3 : ¬ fc.ExpirationHeight ≤ fc.ProofHeight := by omega
  have a4 : (fc.RenterOutput.Value.IsZero && fc.HostOutput.Value.IsZero) = false := by
    cases h4 with
    | inl h =>
      have : fc.RenterOutput.Value.IsZero = false := by
        cases hz : fc.RenterOutput.Value.IsZero
        · rfl
        · exact absurd ((isZero_iff hfc.renter).mp hz) h
      simp [this]
    | inr h =>
      have : fc.HostOutput.Value.IsZero = false := by
        cases hz : fc.HostOutput.Value.IsZero
        · rfl
        · exact absurd ((isZero_iff hfc.host).mp hz) h
      simp [this]
  have a5 : ¬ fc.MissedHostValue.Cmp fc.HostOutput.Value > 0 := by rw [cmp_gt hfc.missed hfc.host]; omega
  have a6 : ¬ fc.TotalCollateral.Cmp fc.HostOutput.Value > 0 := by rw [cmp_gt hfc.total hfc.host]; omega
  simp [a1, a2, a3, a4, a5, a6]

/-- What every renewal/refresh constructor guarantees about its output, relative to the old contract. -/
structure RenewalOK (fc : V2FileContract) (rn : V2FileContractRenewal) : Prop where
  wf_fr : WF rn.FinalRenterOutput.Value
  wf_fh : WF rn.FinalHostOutput.Value
  wf_rr : WF rn.RenterRollover
  wf_hr : WF rn.HostRollover
  wf_nc : FCWF rn.NewContract
  /-- the old contract's value is split exactly, per party -/
  split_renter : val rn.FinalRenterOutput.Value + val rn.RenterRollover = val fc.RenterOutput.Value
  split_host : val rn.FinalHostOutput.Value + val rn.HostRollover = val fc.HostOutput.Value
  /-- never roll over more than the new contract costs (even before tax) -/
  rollover_le : val rn.RenterRollover + val rn.HostRollover
      ≤ val rn.NewContract.RenterOutput.Value + val rn.NewContract.HostOutput.Value
  keys : rn.NewContract.RenterPublicKey = fc.RenterPublicKey ∧ rn.NewContract.HostPublicKey = fc.HostPublicKey
  inv : Inv rn.NewContract
  fresh : rn.NewContract.RevisionNumber = 0 ∧ rn.NewContract.Filesize = fc.Filesize ∧
          rn.NewContract.FileMerkleRoot = fc.FileMerkleRoot ∧ rn.NewContract.Filesize ≤ rn.NewContract.Capacity
  nonzero : val rn.NewContract.RenterOutput.Value ≠ 0

/-- A renewal with the `RenewalOK` facts passes the renewal branch of consensus validation
(signatures aside), provided its proof height is still ahead and the sums consensus adds
up fit in 128 bits (which the transaction-level overflow check guarantees). -/
theorem validateRenewal_accepts (ch : Nat) (fc : V2FileContract) (rn : V2FileContractRenewal)
    (hfc : FCWF fc) (ok : RenewalOK fc rn)
    (hph : ch ≤ rn.NewContract.ProofHeight) (hwin : rn.NewContract.ProofHeight < rn.NewContract.ExpirationHeight)
    (fits_old : val fc.RenterOutput.Value + val fc.HostOutput.Value < W2)
    (fits_new : val rn.NewContract.RenterOutput.Value + val rn.NewContract.HostOutput.Value + tax rn.NewContract < W2) :
    Sia.Ledger.validateRenewal ch fc rn = .ok none := by
  have sr := ok.split_renter
  have sh := ok.split_host
  have rl := ok.rollover_le
  obtain ⟨t1, e1, w1, v1⟩ := add_intro ok.wf_fr ok.wf_rr (by omega)
  obtain ⟨t2, e2, w2, v2⟩ := add_intro w1 ok.wf_fh (by omega)
  obtain ⟨t3, e3, w3, v3⟩ := add_intro w2 ok.wf_hr (by omega)
  obtain ⟨ex, e4, w4, v4⟩ := add_intro hfc.renter hfc.host fits_old
  obtain ⟨s, e5, w5, v5⟩ := add_intro ok.wf_nc.renter ok.wf_nc.host (by omega)
  obtain ⟨tx, e6, w6, v6⟩ := tax_intro {} ok.wf_nc.renter ok.wf_nc.host (by omega)
  obtain ⟨ncc, e7, w7, v7⟩ := add_intro w5 w6 (by omega)
  obtain ⟨ro, e8, w8, v8⟩ := add_intro ok.wf_rr ok.wf_hr (by omega)
  have heq : t3 = ex := val_inj w3 w4 (by omega)
  have hcmp : ¬ ro.Cmp ncc > 0 := by rw [cmp_gt w8 w7]; omega
  have hvc : Sia.Ledger.validateContract ch rn.NewContract = none :=
    validateContract_accepts ch _ ok.wf_nc ok.fresh.2.2.2 hph hwin (Or.inl ok.nonzero)
      (by have := ok.inv.missed_le_total; have := ok.inv.total_le_host; omega) ok.inv.total_le_host
  unfold Sia.Ledger.validateRenewal
  simp only [ok.keys.1, ok.keys.2, ne_eq, not_true_eq_false, ↓reduceIte, e1, e2, e3, e4, e5, e6, e7, e8, heq, hcmp, hvc,
    bind, Except.bind, pure, Except.pure]

/-! ## formation -/

/--
**NewContract yields a consensus-valid contract.**  Hypotheses = what
`RPCFormContractRequest.Validate` guarantees about the numbers: allowance non-zero,
proof height ≥ minProofHeight (> tip, so ≥ every child height until then) and
≤ MaxUint64 − ProofWindow.
-/
theorem c17_new_contract_valid (ch : Nat) (p : HostPrices) (cp : RPCFormContractParams) (hk ha : ByteArray)
    (fc : V2FileContract) (u : Usage)
    (hp : WF p.ContractPrice) (hal : WF cp.Allowance) (hco : WF cp.Collateral)
    (hph : cp.ProofHeight + 144 < W) (hch : ch ≤ cp.ProofHeight) (hnz : val cp.Allowance ≠ 0)
    (h : NewContract p cp hk ha = .ok (fc, u)) :
    Sia.Ledger.validateContract ch fc = none ∧ FCWF fc ∧ Inv fc ∧
    (val fc.RenterOutput.Value + val fc.HostOutput.Value < W2 → Live ch fc) ∧
    fc.ProofHeight = cp.ProofHeight ∧ fc.ExpirationHeight = cp.ProofHeight + 144 ∧
    fc.RenterOutput.Value = cp.Allowance ∧ val fc.HostOutput.Value = val cp.Collateral + val p.ContractPrice ∧
    fc.MissedHostValue = cp.Collateral ∧ fc.TotalCollateral = cp.Collateral ∧
    fc.RenterPublicKey = cp.RenterPublicKey ∧ fc.HostPublicKey = hk ∧
    fc.Filesize = 0 ∧ fc.Capacity = 0 ∧ fc.RevisionNumber = 0 ∧
    u = { RPC := p.ContractPrice } := by
  unfold NewContract at h
  obtain ⟨t1, e1, h⟩ := bind_ok h
  simp only [pure, Except.pure, Except.ok.injEq, Prod.mk.injEq] at h
  obtain ⟨hf, hu⟩ := h
  obtain ⟨w1, v1, _⟩ := add_inv hco hp e1
  have hE : (cp.ProofHeight + 144) % 18446744073709551616 = cp.ProofHeight + 144 := Nat.mod_eq_of_lt hph
  have q1 : fc.Filesize = 0 := by rw [← hf]
  have q2 : fc.Capacity = 0 := by rw [← hf]
  have q3 : fc.ProofHeight = cp.ProofHeight := by rw [← hf]
  have q4 : fc.ExpirationHeight = cp.ProofHeight + 144 := by rw [← hf]; exact hE
  have q5 : fc.RenterOutput.Value = cp.Allowance := by rw [← hf]
  have q6 : fc.HostOutput.Value = t1 := by rw [← hf]
  have q7 : fc.MissedHostValue = cp.Collateral := by rw [← hf]
  have q8 : fc.TotalCollateral = cp.Collateral := by rw [← hf]
  have q9 : fc.RevisionNumber = 0 := by rw [← hf]
  have q10 : fc.RenterPublicKey = cp.RenterPublicKey := by rw [← hf]
  have q11 : fc.HostPublicKey = hk := by rw [← hf]
  have wf : FCWF fc :=
    ⟨by rw [q5]; exact hal, by rw [q6]; exact w1, by rw [q7]; exact hco, by rw [q8]; exact hco,
      by omega, by omega, by omega, by omega, by omega⟩
  refine ⟨?_, wf, ⟨by rw [q7, q8]; exact Nat.le_refl _, by rw [q8, q6]; omega⟩, ?_, q3, q4, q5, by rw [q6]; exact v1,
    q7, q8, q10, q11, q1, q2, q9, hu.symm⟩
  · apply validateContract_accepts ch _ wf
    · omega
    · omega
    · omega
    · exact Or.inl (by rw [q5]; exact hnz)
    · rw [q7, q6]; omega
    · rw [q8, q6]; omega
  · intro fits
    exact ⟨by omega, by rw [q7, q6]; omega, by omega, by omega, by omega, fits⟩

/-- `NewContract` panics only when collateral + contract price overflows 128 bits. -/
theorem c17_new_contract_no_panic (p : HostPrices) (cp : RPCFormContractParams) (hk ha : ByteArray)
    (hp : WF p.ContractPrice) (hco : WF cp.Collateral)
    (fits : val cp.Collateral + val p.ContractPrice < W2) :
    ∃ r, NewContract p cp hk ha = .ok r := by
  obtain ⟨t1, e1, _, _⟩ := add_intro hco hp fits
  unfold NewContract
  simp [e1, bind, Except.bind, pure, Except.pure]

/-- **Formation cost identity**: what `ContractCost` charges the two parties funds
exactly the two outputs, the tax and the miner fee. -/
theorem c17_contract_cost (cs : Gen.Consensus.State) (fc : V2FileContract) (fee r h : Currency)
    (hfc : FCWF fc) (hfee : WF fee)
    (hc : ContractCost cs fc fee = .ok (r, h)) :
    val r + val h = val fc.RenterOutput.Value + val fc.HostOutput.Value + tax fc + val fee ∧
    h = fc.TotalCollateral := by
  unfold ContractCost at hc
  obtain ⟨t1, e1, hc⟩ := bind_ok hc
  obtain ⟨t2, e2, hc⟩ := bind_ok hc
  obtain ⟨t3, e3, hc⟩ := bind_ok hc
  obtain ⟨t4, e4, hc⟩ := bind_ok hc
  obtain ⟨t5, e5, hc⟩ := bind_ok hc
  simp only [pure, Except.pure] at hc
  cases hc
  obtain ⟨w1, v1, _⟩ := sub_inv hfc.host hfc.total e1
  obtain ⟨w2, v2, _⟩ := add_inv hfc.renter w1 e2
  obtain ⟨w3, v3, _⟩ := add_inv w2 hfee e3
  obtain ⟨w4, v4, _⟩ := tax_inv cs hfc.renter hfc.host e4
  obtain ⟨w5, v5, _⟩ := add_inv w3 w4 e5
  exact ⟨by omega, rfl⟩

theorem c17_contract_cost_no_panic (cs : Gen.Consensus.State) (fc : V2FileContract) (fee : Currency)
    (hfc : FCWF fc) (hfee : WF fee) (htc : val fc.TotalCollateral ≤ val fc.HostOutput.Value)
    (fits : val fc.RenterOutput.Value + val fc.HostOutput.Value + tax fc + val fee < W2) :
    ∃ r, ContractCost cs fc fee = .ok r := by
  obtain ⟨t1, e1, w1, v1⟩ := sub_intro hfc.host hfc.total htc
  obtain ⟨t2, e2, w2, v2⟩ := add_intro hfc.renter w1 (by omega)
  obtain ⟨t3, e3, w3, v3⟩ := add_intro w2 hfee (by omega)
  obtain ⟨t4, e4, w4, v4⟩ := tax_intro cs hfc.renter hfc.host (by omega)
  obtain ⟨t5, e5, w5, v5⟩ := add_intro w3 w4 (by omega)
  unfold ContractCost
  simp [e1, e2, e3, e4, e5, bind, Except.bind, pure, Except.pure]

/-! ## cost functions of renewals / refreshes (inversion form: whenever they return) -/

/-- **Renewal cost identity**: renter cost + host cost + both rollovers = new outputs + tax + fee. -/
theorem c17_renewal_cost (cs : Gen.Consensus.State) (rn : V2FileContractRenewal) (fee r h : Currency)
    (wnc : FCWF rn.NewContract) (wrr : WF rn.RenterRollover) (whr : WF rn.HostRollover) (hfee : WF fee)
    (hc : RenewalCost cs rn fee = .ok (r, h)) :
    val r + val h + val rn.RenterRollover + val rn.HostRollover
      = val rn.NewContract.RenterOutput.Value + val rn.NewContract.HostOutput.Value + tax rn.NewContract + val fee := by
  unfold RenewalCost at hc
  obtain ⟨t1, e1, hc⟩ := bind_ok hc
  obtain ⟨t2, e2, hc⟩ := bind_ok hc
  obtain ⟨t3, e3, hc⟩ := bind_ok hc
  obtain ⟨t4, e4, hc⟩ := bind_ok hc
  obtain ⟨t5, e5, hc⟩ := bind_ok hc
  obtain ⟨t6, e6, hc⟩ := bind_ok hc
  obtain ⟨t7, e7, hc⟩ := bind_ok hc
  simp only [pure, Except.pure] at hc
  cases hc
  obtain ⟨w1, v1, _⟩ := sub_inv wnc.host wnc.total e1
  obtain ⟨w2, v2, _⟩ := add_inv wnc.renter w1 e2
  obtain ⟨w3, v3, _⟩ := add_inv w2 hfee e3
  obtain ⟨w4, v4, _⟩ := tax_inv cs wnc.renter wnc.host e4
  obtain ⟨w5, v5, _⟩ := add_inv w3 w4 e5
  obtain ⟨w6, v6, _⟩ := sub_inv w5 wrr e6
  obtain ⟨w7, v7, _⟩ := sub_inv wnc.total whr e7
  omega

/-- **Refresh cost identity**. -/
theorem c17_refresh_cost (cs : Gen.Consensus.State) (p : HostPrices) (rn : V2FileContractRenewal) (fee r h : Currency)
    (wnc : FCWF rn.NewContract) (wrr : WF rn.RenterRollover) (whr : WF rn.HostRollover) (hfee : WF fee)
    (hp : WF p.ContractPrice)
    (hc : RefreshCost cs p rn fee = .ok (r, h)) :
    val r + val h + val rn.RenterRollover + val rn.HostRollover
      = val rn.NewContract.RenterOutput.Value + val rn.NewContract.HostOutput.Value + tax rn.NewContract + val fee := by
  unfold RefreshCost at hc
  obtain ⟨t1, e1, hc⟩ := bind_ok hc
  obtain ⟨t2, e2, hc⟩ := bind_ok hc
  obtain ⟨t3, e3, hc⟩ := bind_ok hc
  obtain ⟨t4, e4, hc⟩ := bind_ok hc
  obtain ⟨t5, e5, hc⟩ := bind_ok hc
  obtain ⟨t6, e6, hc⟩ := bind_ok hc
  obtain ⟨t7, e7, hc⟩ := bind_ok hc
  simp only [pure, Except.pure] at hc
  cases hc
  obtain ⟨w1, v1, _⟩ := add_inv wnc.renter hp e1
  obtain ⟨w2, v2, _⟩ := sub_inv w1 wrr e2
  obtain ⟨w3, v3, _⟩ := add_inv w2 hfee e3
  obtain ⟨w4, v4, _⟩ := tax_inv cs wnc.renter wnc.host e4
  obtain ⟨w5, v5, _⟩ := add_inv w3 w4 e5
  obtain ⟨w6, v6, _⟩ := sub_inv wnc.host hp e6
  obtain ⟨w7, v7, _⟩ := sub_inv w6 whr e7
  omega

/-- `RenewalCost` does not panic when the rollovers are within what the constructor
guarantees (`renter rollover ≤ new renter output`, `host rollover ≤ new total collateral ≤
new host output`) and the sums fit. -/
theorem c17_renewal_cost_no_panic (cs : Gen.Consensus.State) (rn : V2FileContractRenewal) (fee : Currency)
    (wnc : FCWF rn.NewContract) (wrr : WF rn.RenterRollover) (whr : WF rn.HostRollover) (hfee : WF fee)
    (b1 : val rn.NewContract.TotalCollateral ≤ val rn.NewContract.HostOutput.Value)
    (b2 : val rn.RenterRollover ≤ val rn.NewContract.RenterOutput.Value)
    (b3 : val rn.HostRollover ≤ val rn.NewContract.TotalCollateral)
    (fits : val rn.NewContract.RenterOutput.Value + val rn.NewContract.HostOutput.Value + tax rn.NewContract + val fee < W2) :
    ∃ r, RenewalCost cs rn fee = .ok r := by
  obtain ⟨t1, e1, w1, v1⟩ := sub_intro wnc.host wnc.total b1
  obtain ⟨t2, e2, w2, v2⟩ := add_intro wnc.renter w1 (by omega)
  obtain ⟨t3, e3, w3, v3⟩ := add_intro w2 hfee (by omega)
  obtain ⟨t4, e4, w4, v4⟩ := tax_intro cs wnc.renter wnc.host (by omega)
  obtain ⟨t5, e5, w5, v5⟩ := add_intro w3 w4 (by omega)
  obtain ⟨t6, e6, w6, v6⟩ := sub_intro w5 wrr (by omega)
  obtain ⟨t7, e7, w7, v7⟩ := sub_intro wnc.total whr b3
  unfold RenewalCost
  simp [e1, e2, e3, e4, e5, e6, e7, bind, Except.bind, pure, Except.pure]

/-- `RefreshCost` does not panic when `renter rollover ≤ new renter output + contract price`
and `host rollover + contract price ≤ new host output` (both guaranteed by the refresh
constructors) and the sums fit. -/
theorem c17_refresh_cost_no_panic (cs : Gen.Consensus.State) (p : HostPrices) (rn : V2FileContractRenewal) (fee : Currency)
    (wnc : FCWF rn.NewContract) (wrr : WF rn.RenterRollover) (whr : WF rn.HostRollover) (hfee : WF fee)
    (hp : WF p.ContractPrice)
    (b1 : val rn.RenterRollover ≤ val rn.NewContract.RenterOutput.Value + val p.ContractPrice)
    (b2 : val rn.HostRollover + val p.ContractPrice ≤ val rn.NewContract.HostOutput.Value)
    (fits : val rn.NewContract.RenterOutput.Value + val rn.NewContract.HostOutput.Value + tax rn.NewContract
            + val fee + val p.ContractPrice < W2) :
    ∃ r, RefreshCost cs p rn fee = .ok r := by
  obtain ⟨t1, e1, w1, v1⟩ := add_intro wnc.renter hp (by omega)
  obtain ⟨t2, e2, w2, v2⟩ := sub_intro w1 wrr (by omega)
  obtain ⟨t3, e3, w3, v3⟩ := add_intro w2 hfee (by omega)
  obtain ⟨t4, e4, w4, v4⟩ := tax_intro cs wnc.renter wnc.host (by omega)
  obtain ⟨t5, e5, w5, v5⟩ := add_intro w3 w4 (by omega)
  obtain ⟨t6, e6, w6, v6⟩ := sub_intro wnc.host hp (by omega)
  obtain ⟨t7, e7, w7, v7⟩ := sub_intro w6 whr (by omega)
  unfold RefreshCost
  simp [e1, e2, e3, e4, e5, e6, e7, bind, Except.bind, pure, Except.pure]

/-! ## refresh, full rollover -/

theorem wf_ZeroCurrency : WF Gen.Types.ZeroCurrency := wf_zero
theorem val_ZeroCurrency : val Gen.Types.ZeroCurrency = 0 := val_zero

/--
**RefreshContractFullRollover**: everything is rolled over (final outputs zero), the new
contract is the old one plus allowance / collateral / contract price, and all the
`RenewalOK` facts hold.  Hypotheses on the old contract: the constructor invariant `Inv`
and `filesize ≤ capacity`; on the request: allowance non-zero (`Validate`).
-/
theorem c17_refresh_full (fc : V2FileContract) (p : HostPrices) (addr : ByteArray) (rp : RPCRefreshContractParams)
    (rn : V2FileContractRenewal) (u : Usage)
    (hfc : FCWF fc) (hp : PricesWF p) (ha : WF rp.Allowance) (hc : WF rp.Collateral)
    (inv : Inv fc) (hfs : fc.Filesize ≤ fc.Capacity) (hnz : val rp.Allowance ≠ 0)
    (h : RefreshContractFullRollover fc p addr rp = .ok (rn, u)) :
    RenewalOK fc rn ∧
    val rn.FinalRenterOutput.Value = 0 ∧ val rn.FinalHostOutput.Value = 0 ∧
    val rn.NewContract.RenterOutput.Value = val fc.RenterOutput.Value + val rp.Allowance ∧
    val rn.NewContract.HostOutput.Value = val fc.HostOutput.Value + val rp.Collateral + val p.ContractPrice ∧
    val rn.NewContract.MissedHostValue = val fc.MissedHostValue + val rp.Collateral ∧
    val rn.NewContract.TotalCollateral = val fc.TotalCollateral + val rp.Collateral ∧
    rn.NewContract.ProofHeight = fc.ProofHeight ∧ rn.NewContract.ExpirationHeight = fc.ExpirationHeight ∧
    rn.NewContract.Capacity = fc.Capacity ∧
    val rn.RenterRollover ≤ val rn.NewContract.RenterOutput.Value + val p.ContractPrice ∧
    val rn.HostRollover + val p.ContractPrice ≤ val rn.NewContract.HostOutput.Value ∧
    u.RPC = p.ContractPrice ∧ cost u = val p.ContractPrice ∧
    val u.RiskedCollateral + val fc.MissedHostValue = val fc.TotalCollateral := by
  unfold RefreshContractFullRollover at h
  simp only [] at h
  obtain ⟨t1, e1, h⟩ := bind_ok h
  obtain ⟨t2, e2, h⟩ := bind_ok h
  obtain ⟨t3, e3, h⟩ := bind_ok h
  obtain ⟨t4, e4, h⟩ := bind_ok h
  obtain ⟨t5, e5, h⟩ := bind_ok h
  obtain ⟨t6, e6, h⟩ := bind_ok h
  simp only [pure, Except.pure, Except.ok.injEq, Prod.mk.injEq] at h
  obtain ⟨hrn, hu⟩ := h
  obtain ⟨w1, v1, _⟩ := add_inv hfc.renter ha e1
  obtain ⟨w2, v2, _⟩ := add_inv hfc.host hc e2
  obtain ⟨w3, v3, _⟩ := add_inv w2 hp.cp e3
  obtain ⟨w4, v4, _⟩ := add_inv hfc.missed hc e4
  obtain ⟨w5, v5, _⟩ := add_inv hfc.total hc e5
  unfold V2FileContract.RiskedCollateral at e6
  simp only [] at e6
  obtain ⟨w6, v6, _⟩ := sub_inv w5 w4 e6
  have i1 := inv.missed_le_total
  have i2 := inv.total_le_host
  have hrev := hfc.rev; have hcap := hfc.cap; have hfsz := hfc.fsz; have hph := hfc.ph; have heh := hfc.eh
  subst hrn; subst hu
  refine ⟨⟨wf_ZeroCurrency, wf_ZeroCurrency, hfc.renter, hfc.host,
      ⟨w1, w3, w4, w5, by simp only []; omega, hcap, hfsz, hph, heh⟩,
      by simp only [val_ZeroCurrency]; omega, by simp only [val_ZeroCurrency]; omega, by simp only []; omega,
      ⟨rfl, rfl⟩, ⟨by simp only []; omega, by simp only []; omega⟩, ⟨rfl, rfl, rfl, hfs⟩, by simp only []; omega⟩,
    val_ZeroCurrency, val_ZeroCurrency, v1, by simp only []; omega, v4, v5, rfl, rfl, rfl,
    by simp only []; omega, by simp only []; omega, rfl, ?_, by simp only []; omega⟩
  show val p.ContractPrice + val ({} : Currency) + val ({} : Currency) + val ({} : Currency) + val ({} : Currency) = _
  rw [val_zero]; omega


/-! ## refresh, partial rollover -/

theorem add_inv' {a b s : Currency} (ha : WF a) (hb : WF b) (h : a.Add b = .ok s) :
    WF s ∧ val s = val a + val b := ⟨(add_inv ha hb h).1, (add_inv ha hb h).2.1⟩
theorem sub_inv' {a b s : Currency} (ha : WF a) (hb : WF b) (h : a.Sub b = .ok s) :
    WF s ∧ val s + val b = val a := ⟨(sub_inv ha hb h).1, (sub_inv ha hb h).2.1⟩

/--
**RefreshContractPartialRollover**: each party rolls over `min(what it has, what the new
contract needs from it)`; the rest is paid out as final outputs.
-/
theorem c17_refresh_partial (fc : V2FileContract) (p : HostPrices) (addr : ByteArray) (rp : RPCRefreshContractParams)
    (rn : V2FileContractRenewal) (u : Usage)
    (hfc : FCWF fc) (hp : PricesWF p) (ha : WF rp.Allowance) (hc : WF rp.Collateral)
    (hfs : fc.Filesize ≤ fc.Capacity) (hnz : val rp.Allowance ≠ 0)
    (h : RefreshContractPartialRollover fc p addr rp = .ok (rn, u)) :
    RenewalOK fc rn ∧ Inv fc ∧
    rn.NewContract.RenterOutput.Value = rp.Allowance ∧
    val rn.NewContract.HostOutput.Value + val fc.MissedHostValue
      = val fc.HostOutput.Value + val rp.Collateral + val p.ContractPrice ∧
    rn.NewContract.MissedHostValue = rp.Collateral ∧
    val rn.NewContract.TotalCollateral + val fc.MissedHostValue = val fc.TotalCollateral + val rp.Collateral ∧
    rn.NewContract.ProofHeight = fc.ProofHeight ∧ rn.NewContract.ExpirationHeight = fc.ExpirationHeight ∧
    rn.NewContract.Capacity = fc.Capacity ∧
    (val rp.Allowance + val p.ContractPrice < val fc.RenterOutput.Value →
        val rn.RenterRollover = val rp.Allowance + val p.ContractPrice) ∧
    (val fc.RenterOutput.Value ≤ val rp.Allowance + val p.ContractPrice → rn.RenterRollover = fc.RenterOutput.Value) ∧
    (val rn.NewContract.HostOutput.Value < val fc.HostOutput.Value + val p.ContractPrice →
        val rn.HostRollover + val p.ContractPrice = val rn.NewContract.HostOutput.Value) ∧
    (val fc.HostOutput.Value + val p.ContractPrice ≤ val rn.NewContract.HostOutput.Value →
        rn.HostRollover = fc.HostOutput.Value) ∧
    val rn.RenterRollover ≤ val rn.NewContract.RenterOutput.Value + val p.ContractPrice ∧
    val rn.HostRollover + val p.ContractPrice ≤ val rn.NewContract.HostOutput.Value ∧
    u.RPC = p.ContractPrice ∧ cost u = val p.ContractPrice ∧
    val u.RiskedCollateral + val fc.MissedHostValue = val fc.TotalCollateral := by
  unfold RefreshContractPartialRollover at h
  simp only [] at h
  obtain ⟨t1, e1, h⟩ := bind_ok h
  obtain ⟨t2, e2, h⟩ := bind_ok h
  obtain ⟨t3, e3, h⟩ := bind_ok h
  obtain ⟨t4, e4, h⟩ := bind_ok h
  obtain ⟨t5, e5, h⟩ := bind_ok h
  obtain ⟨t6, e6, h⟩ := bind_ok h
  obtain ⟨t7, e7, h⟩ := bind_ok h
  obtain ⟨t8, e8, h⟩ := bind_ok h
  unfold V2FileContract.RiskedHostRevenue at e1
  unfold V2FileContract.RiskedCollateral at e2 e6
  obtain ⟨w1, v1⟩ := sub_inv' hfc.host hfc.total e1
  obtain ⟨w2, v2⟩ := sub_inv' hfc.total hfc.missed e2
  obtain ⟨w3, v3⟩ := add_inv' w1 w2 e3
  obtain ⟨w4, v4⟩ := add_inv' w3 hc e4
  obtain ⟨w5, v5⟩ := add_inv' w4 hp.cp e5
  obtain ⟨w6, v6⟩ := sub_inv' hfc.total hfc.missed e6
  obtain ⟨w7, v7⟩ := add_inv' w6 hc e7
  obtain ⟨w8, v8⟩ := sub_inv' w5 hp.cp e8
  have k1 := cmp_gt hfc.host w8
  have hrev := hfc.rev; have hcap := hfc.cap; have hfsz := hfc.fsz; have hph := hfc.ph; have heh := hfc.eh
  by_cases hc1 : fc.HostOutput.Value.Cmp t8 > 0 <;>
    simp only [hc1, decide_true, decide_false, Bool.false_eq_true, ↓reduceIte] at h <;>
    obtain ⟨t9, e9, h⟩ := bind_ok h <;>
    obtain ⟨t10, e10, h⟩ := bind_ok h <;>
    obtain ⟨w10, v10⟩ := add_inv' ha hp.cp e10 <;>
    have k2 := cmp_gt hfc.renter w10 <;>
    by_cases hc2 : fc.RenterOutput.Value.Cmp t10 > 0 <;>
    simp only [hc2, decide_true, decide_false, Bool.false_eq_true, ↓reduceIte] at h <;>
    obtain ⟨t11, e11, h⟩ := bind_ok h <;>
    obtain ⟨t12, e12, h⟩ := bind_ok h <;>
    unfold V2FileContract.RiskedCollateral at e12 <;>
    simp only [] at e9 e11 e12 <;>
    simp only [pure, Except.pure, Except.ok.injEq, Prod.mk.injEq] at h <;>
    obtain ⟨hrn, hu⟩ := h <;>
    rw [k1] at hc1 <;> rw [k2] at hc2 <;> clear k1 k2 <;>
    obtain ⟨w9, v9⟩ := sub_inv' hfc.host (by first | exact w8 | exact hfc.host) e9 <;>
    obtain ⟨w11, v11⟩ := sub_inv' hfc.renter (by first | exact w10 | exact hfc.renter) e11 <;>
    obtain ⟨w12, v12⟩ := sub_inv' w7 hc e12 <;>
    subst hrn <;> subst hu <;>
    refine ⟨⟨w11, w9, (by first | exact w10 | exact hfc.renter), (by first | exact w8 | exact hfc.host), ⟨ha, w5, hc, w7, by simp only []; omega, hcap, hfsz, hph, heh⟩,
        by simp only []; omega, by simp only []; omega, by simp only []; omega,
        ⟨rfl, rfl⟩, ⟨by simp only []; omega, by simp only []; omega⟩, ⟨rfl, rfl, rfl, hfs⟩, hnz⟩,
      ⟨by omega, by omega⟩, rfl, by simp only []; omega, rfl, by simp only []; omega, rfl, rfl, rfl,
      (by simp only []; intro _; omega), (by intro hx; first | rfl | (exfalso; omega) | (exfalso; simp only [] at hx; omega)),
      (by simp only []; intro _; omega), (by intro hx; first | rfl | (exfalso; omega) | (exfalso; simp only [] at hx; omega)),
      by simp only []; omega, by simp only []; omega, rfl, ?_,
      by simp only []; omega⟩ <;>
    (show val p.ContractPrice + val ({} : Currency) + val ({} : Currency) + val ({} : Currency) + val ({} : Currency) = _
     rw [val_zero]; omega)

/-! ## renewal -/

theorem mul64_inv' {a s : Currency} {n : Nat} (ha : WF a) (hn : n < W) (h : a.Mul64 n = .ok s) :
    WF s ∧ val s = val a * n := ⟨(mul64_inv ha hn h).1, (mul64_inv ha hn h).2.1⟩

/--
**RenewContract**: new contract for the same data with capacity = filesize, proof height
`rp.ProofHeight`, renter output = allowance, total collateral = new collateral + risked
collateral of the existing data over the full new duration, host output = total collateral
+ storage cost of the extension + contract price.  Each party rolls over
`min(what it has locked, what the new contract needs from it)`.

`dur`/`ext` are the `uint64` differences exactly as the Go code computes them;
`RPCRenewContractRequest.Validate` (`ProofHeight ≥ tip + MinContractDuration`,
`ProofHeight > existing.ProofHeight`) and the constructor invariant
`ExpirationHeight = ProofHeight + 144` make them the true differences.
-/
theorem c17_renew (fc : V2FileContract) (p : HostPrices) (addr : ByteArray) (rp : RPCRenewContractParams)
    (rn : V2FileContractRenewal) (u : Usage)
    (hfc : FCWF fc) (hp : PricesWF p) (ha : WF rp.Allowance) (hc : WF rp.Collateral)
    (hph : rp.ProofHeight + 144 < W) (hnz : val rp.Allowance ≠ 0)
    (h : RenewContract fc p addr rp = .ok (rn, u)) :
    ∃ dur ext, dur = (rp.ProofHeight + 144 + W - p.TipHeight) % W ∧
               ext = (rp.ProofHeight + 144 + W - fc.ExpirationHeight) % W ∧
    RenewalOK fc rn ∧
    rn.NewContract.RenterOutput.Value = rp.Allowance ∧
    rn.NewContract.MissedHostValue = rp.Collateral ∧
    val rn.NewContract.TotalCollateral = val rp.Collateral + val p.Collateral * fc.Filesize * dur ∧
    val rn.NewContract.HostOutput.Value
      = val rn.NewContract.TotalCollateral + val p.StoragePrice * fc.Filesize * ext + val p.ContractPrice ∧
    rn.NewContract.ProofHeight = rp.ProofHeight ∧ rn.NewContract.ExpirationHeight = rp.ProofHeight + 144 ∧
    rn.NewContract.Capacity = fc.Filesize ∧
    (val rp.Allowance < val fc.RenterOutput.Value → rn.RenterRollover = rp.Allowance) ∧
    (val fc.RenterOutput.Value ≤ val rp.Allowance → rn.RenterRollover = fc.RenterOutput.Value) ∧
    (val rn.NewContract.TotalCollateral < val fc.TotalCollateral → rn.HostRollover = rn.NewContract.TotalCollateral) ∧
    (val fc.TotalCollateral ≤ val rn.NewContract.TotalCollateral → rn.HostRollover = fc.TotalCollateral) ∧
    val rn.RenterRollover ≤ val rn.NewContract.RenterOutput.Value ∧
    val rn.HostRollover ≤ val rn.NewContract.TotalCollateral ∧
    val rn.HostRollover ≤ val fc.TotalCollateral ∧
    u.RPC = p.ContractPrice ∧
    cost u = val p.ContractPrice + val p.StoragePrice * fc.Filesize * ext ∧
    val u.RiskedCollateral = val p.Collateral * fc.Filesize * dur := by
  refine ⟨_, _, rfl, rfl, ?_⟩
  have hE : (rp.ProofHeight + 144) % 18446744073709551616 = rp.ProofHeight + 144 := Nat.mod_eq_of_lt hph
  unfold RenewContract at h
  simp only [] at h
  simp only [hE] at h
  have hdur : (rp.ProofHeight + 144 + 18446744073709551616 - p.TipHeight) % 18446744073709551616 < W := Nat.mod_lt _ (by omega)
  have hext : (rp.ProofHeight + 144 + 18446744073709551616 - fc.ExpirationHeight) % 18446744073709551616 < W := Nat.mod_lt _ (by omega)
  obtain ⟨t1, e1, h⟩ := bind_ok h
  obtain ⟨t2, e2, h⟩ := bind_ok h
  obtain ⟨t3, e3, h⟩ := bind_ok h
  obtain ⟨t4, e4, h⟩ := bind_ok h
  obtain ⟨t5, e5, h⟩ := bind_ok h
  obtain ⟨t6, e6, h⟩ := bind_ok h
  obtain ⟨t7, e7, h⟩ := bind_ok h
  have hfsz := hfc.fsz
  obtain ⟨w1, v1⟩ := mul64_inv' hp.coll hfsz e1
  obtain ⟨w2, v2⟩ := mul64_inv' w1 hdur e2
  obtain ⟨w3, v3⟩ := add_inv' hc w2 e3
  obtain ⟨w4, v4⟩ := mul64_inv' hp.sp hfsz e4
  obtain ⟨w5, v5⟩ := mul64_inv' w4 hext e5
  obtain ⟨w6, v6⟩ := add_inv' w3 w5 e6
  obtain ⟨w7, v7⟩ := add_inv' w6 hp.cp e7
  have k1 := cmp_gt hfc.total w3
  have k2 := cmp_gt hfc.renter ha
  have hrev := hfc.rev; have hcap := hfc.cap
  by_cases hc1 : fc.TotalCollateral.Cmp t3 > 0 <;>
    simp only [hc1, decide_true, decide_false, Bool.false_eq_true, ↓reduceIte] at h <;>
    obtain ⟨t8, e8, h⟩ := bind_ok h <;>
    by_cases hc2 : fc.RenterOutput.Value.Cmp rp.Allowance > 0 <;>
    simp only [hc2, decide_true, decide_false, Bool.false_eq_true, ↓reduceIte] at h <;>
    obtain ⟨t9, e9, h⟩ := bind_ok h <;>
    obtain ⟨t10, e10, h⟩ := bind_ok h <;>
    obtain ⟨t11, e11, h⟩ := bind_ok h <;>
    obtain ⟨t12, e12, h⟩ := bind_ok h <;>
    unfold V2FileContract.RiskedCollateral at e12 <;>
    simp only [] at e8 e9 e10 e12 <;>
    simp only [pure, Except.pure, Except.ok.injEq, Prod.mk.injEq] at h <;>
    obtain ⟨hrn, hu⟩ := h <;>
    rw [k1] at hc1 <;> rw [k2] at hc2 <;> clear k1 k2 <;>
    obtain ⟨w8, v8⟩ := sub_inv' hfc.host (by first | exact w3 | exact hfc.total) e8 <;>
    obtain ⟨w9, v9⟩ := sub_inv' hfc.renter (by first | exact ha | exact hfc.renter) e9 <;>
    obtain ⟨w10, v10⟩ := sub_inv' w7 w3 e10 <;>
    obtain ⟨w11, v11⟩ := sub_inv' w10 hp.cp e11 <;>
    obtain ⟨w12, v12⟩ := sub_inv' w3 hc e12 <;>
    subst hrn <;> subst hu <;>
    refine ⟨⟨w9, w8, (by first | exact ha | exact hfc.renter), (by first | exact w3 | exact hfc.total),
        ⟨ha, w7, hc, w3, by simp only []; omega, hfsz, hfsz, by simp only []; omega, by simp only []; omega⟩,
        by simp only []; omega, by simp only []; omega, by simp only []; omega,
        ⟨rfl, rfl⟩, ⟨by simp only []; omega, by simp only []; omega⟩, ⟨rfl, rfl, rfl, Nat.le_refl _⟩, hnz⟩,
      rfl, rfl, (by simp only []; rw [v3, v2, v1]), (by simp only []; rw [v7, v6, v5, v4]), rfl, rfl, rfl,
      (by intro hx; first | rfl | (exfalso; omega) | (exfalso; simp only [] at hx; omega)),
      (by intro hx; first | rfl | (exfalso; omega) | (exfalso; simp only [] at hx; omega)),
      (by intro hx; first | rfl | (exfalso; omega) | (exfalso; simp only [] at hx; omega)),
      (by intro hx; first | rfl | (exfalso; omega) | (exfalso; simp only [] at hx; omega)),
      by simp only []; omega, by simp only []; omega, by simp only []; omega, rfl,
      (by show val p.ContractPrice + val t11 + val ({} : Currency) + val ({} : Currency) + val ({} : Currency) = _
          have : val t11 = val t5 := by omega
          rw [val_zero, this, v5, v4]; omega),
      (by simp only []
          have : val t12 = val t2 := by omega
          rw [this, v2, v1])⟩

/-! ## consensus validity of the three renewal constructors

`ch` is the child height at which the renewal transaction is validated.  The height
hypotheses are what the requests' `Validate` guarantees (`rp.ProofHeight ≥ minProofHeight`
for renewals; `existing.ProofHeight > minProofHeight` for refreshes); `fits_*` is what
the transaction-level overflow check of consensus guarantees. -/

theorem c17_renew_valid (ch : Nat) (fc : V2FileContract) (p : HostPrices) (addr : ByteArray) (rp : RPCRenewContractParams)
    (rn : V2FileContractRenewal) (u : Usage)
    (hfc : FCWF fc) (hp : PricesWF p) (ha : WF rp.Allowance) (hc : WF rp.Collateral)
    (hph : rp.ProofHeight + 144 < W) (hnz : val rp.Allowance ≠ 0) (hch : ch ≤ rp.ProofHeight)
    (fits_old : val fc.RenterOutput.Value + val fc.HostOutput.Value < W2)
    (h : RenewContract fc p addr rp = .ok (rn, u))
    (fits_new : val rn.NewContract.RenterOutput.Value + val rn.NewContract.HostOutput.Value + tax rn.NewContract < W2) :
    Sia.Ledger.validateRenewal ch fc rn = .ok none := by
  obtain ⟨_, _, _, _, ok, _, _, _, _, q1, q2, _⟩ := c17_renew fc p addr rp rn u hfc hp ha hc hph hnz h
  exact validateRenewal_accepts ch fc rn hfc ok (by omega) (by omega) fits_old fits_new

theorem c17_refresh_partial_valid (ch : Nat) (fc : V2FileContract) (p : HostPrices) (addr : ByteArray)
    (rp : RPCRefreshContractParams) (rn : V2FileContractRenewal) (u : Usage)
    (hfc : FCWF fc) (hp : PricesWF p) (ha : WF rp.Allowance) (hc : WF rp.Collateral)
    (hfs : fc.Filesize ≤ fc.Capacity) (hnz : val rp.Allowance ≠ 0)
    (hch : ch ≤ fc.ProofHeight) (hwin : fc.ProofHeight < fc.ExpirationHeight)
    (fits_old : val fc.RenterOutput.Value + val fc.HostOutput.Value < W2)
    (h : RefreshContractPartialRollover fc p addr rp = .ok (rn, u))
    (fits_new : val rn.NewContract.RenterOutput.Value + val rn.NewContract.HostOutput.Value + tax rn.NewContract < W2) :
    Sia.Ledger.validateRenewal ch fc rn = .ok none := by
  obtain ⟨ok, _, _, _, _, _, q1, q2, _⟩ := c17_refresh_partial fc p addr rp rn u hfc hp ha hc hfs hnz h
  exact validateRenewal_accepts ch fc rn hfc ok (by omega) (by omega) fits_old fits_new

theorem c17_refresh_full_valid (ch : Nat) (fc : V2FileContract) (p : HostPrices) (addr : ByteArray)
    (rp : RPCRefreshContractParams) (rn : V2FileContractRenewal) (u : Usage)
    (hfc : FCWF fc) (hp : PricesWF p) (ha : WF rp.Allowance) (hc : WF rp.Collateral)
    (inv : Inv fc) (hfs : fc.Filesize ≤ fc.Capacity) (hnz : val rp.Allowance ≠ 0)
    (hch : ch ≤ fc.ProofHeight) (hwin : fc.ProofHeight < fc.ExpirationHeight)
    (fits_old : val fc.RenterOutput.Value + val fc.HostOutput.Value < W2)
    (h : RefreshContractFullRollover fc p addr rp = .ok (rn, u))
    (fits_new : val rn.NewContract.RenterOutput.Value + val rn.NewContract.HostOutput.Value + tax rn.NewContract < W2) :
    Sia.Ledger.validateRenewal ch fc rn = .ok none := by
  obtain ⟨ok, _, _, _, _, _, _, q1, q2, _⟩ := c17_refresh_full fc p addr rp rn u hfc hp ha hc inv hfs hnz h
  exact validateRenewal_accepts ch fc rn hfc ok (by omega) (by omega) fits_old fits_new

end C17
