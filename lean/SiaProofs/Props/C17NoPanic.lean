import SiaProofs.Props.C17Renew
namespace C17
open Gen.Types Gen.Rhp4 C15

/-!
# C17, part 5 — the renewal/refresh constructors do not panic on good contracts when the values fit (`Fits`)

Together with `c17_pay_no_panic`, `c17_new_contract_no_panic`, `c17_contract_cost_no_panic`,
`c17_renewal_cost_no_panic`, `c17_refresh_cost_no_panic`.  Every `Sub` in the refresh
constructors is covered by the constructor invariant `Inv` (missed ≤ total ≤ host output).

`c17_renew_no_panic` covers `RenewContract` (its `Sub`s are `host output − host rollover`
with `host rollover ≤ old total collateral ≤ old host output`, and differences of freshly
built sums).  Proof hygiene: all facts are obtained *before* the generated body is unfolded.
-/

theorem cmp_gt_decide {a b : Currency} (ha : WF a) (hb : WF b) :
    decide (a.Cmp b > 0) = decide (val b < val a) := by
  have := cmp_gt ha hb
  by_cases h : val b < val a
  · simp [h, this.mpr h]
  · have : ¬ a.Cmp b > 0 := fun x => h (this.mp x)
    simp [h, this]

/-- **RefreshContractFullRollover never panics** on a contract satisfying the constructor
invariant when the new values fit in 128 bits. -/
theorem c17_refresh_full_no_panic (fc : V2FileContract) (p : HostPrices) (addr : ByteArray) (rp : RPCRefreshContractParams)
    (hfc : FCWF fc) (hp : PricesWF p) (ha : WF rp.Allowance) (hc : WF rp.Collateral) (inv : Inv fc)
    (fits1 : val fc.RenterOutput.Value + val rp.Allowance < W2)
    (fits2 : val fc.HostOutput.Value + val rp.Collateral + val p.ContractPrice < W2) :
    ∃ r, RefreshContractFullRollover fc p addr rp = .ok r := by
  have i1 := inv.missed_le_total
  have i2 := inv.total_le_host
  obtain ⟨t1, e1, w1, v1⟩ := add_intro hfc.renter ha fits1
  obtain ⟨t2, e2, w2, v2⟩ := add_intro hfc.host hc (by omega)
  obtain ⟨t3, e3, w3, v3⟩ := add_intro w2 hp.cp (by omega)
  obtain ⟨t4, e4, w4, v4⟩ := add_intro hfc.missed hc (by omega)
  obtain ⟨t5, e5, w5, v5⟩ := add_intro hfc.total hc (by omega)
  obtain ⟨t6, e6, w6, v6⟩ := sub_intro w5 w4 (by omega)
  unfold RefreshContractFullRollover
  simp only [e1, e2, e3, e4, e5, bind, Except.bind, V2FileContract.RiskedCollateral, e6, pure, Except.pure]
  exact ⟨_, rfl⟩

/-- **RefreshContractPartialRollover never panics** on a contract satisfying the constructor
invariant when the new values fit. -/
theorem c17_refresh_partial_no_panic (fc : V2FileContract) (p : HostPrices) (addr : ByteArray) (rp : RPCRefreshContractParams)
    (hfc : FCWF fc) (hp : PricesWF p) (ha : WF rp.Allowance) (hc : WF rp.Collateral) (inv : Inv fc)
    (fits1 : val rp.Allowance + val p.ContractPrice < W2)
    (fits2 : val fc.HostOutput.Value + val rp.Collateral + val p.ContractPrice < W2) :
    ∃ r, RefreshContractPartialRollover fc p addr rp = .ok r := by
  have i1 := inv.missed_le_total
  have i2 := inv.total_le_host
  obtain ⟨t1, e1, w1, v1⟩ := sub_intro hfc.host hfc.total i2
  obtain ⟨t2, e2, w2, v2⟩ := sub_intro hfc.total hfc.missed i1
  obtain ⟨t3, e3, w3, v3⟩ := add_intro w1 w2 (by omega)
  obtain ⟨t4, e4, w4, v4⟩ := add_intro w3 hc (by omega)
  obtain ⟨t5, e5, w5, v5⟩ := add_intro w4 hp.cp (by omega)
  obtain ⟨t7, e7, w7, v7⟩ := add_intro w2 hc (by omega)
  obtain ⟨t8, e8, w8, v8⟩ := sub_intro w5 hp.cp (by omega)
  obtain ⟨t10, e10, w10, v10⟩ := add_intro ha hp.cp fits1
  obtain ⟨t12, e12, w12, v12⟩ := sub_intro w7 hc (by omega)
  obtain ⟨t9a, e9a, _, _⟩ := sub_intro hfc.host hfc.host (Nat.le_refl _)
  obtain ⟨t11a, e11a, _, _⟩ := sub_intro hfc.renter hfc.renter (Nat.le_refl _)
  unfold RefreshContractPartialRollover
  simp only [V2FileContract.RiskedHostRevenue, V2FileContract.RiskedCollateral, e1, e2, e3, e4, e5, e7, e8, e10,
    bind, Except.bind]
  have k1 := cmp_gt hfc.host w8
  have k2 := cmp_gt hfc.renter w10
  by_cases c1 : fc.HostOutput.Value.Cmp t8 > 0
  · obtain ⟨t9, e9, _, _⟩ := sub_intro hfc.host w8 (by have := k1.mp c1; clear k1 k2; omega)
    simp only [c1, decide_true, ↓reduceIte, e9]
    by_cases c2 : fc.RenterOutput.Value.Cmp t10 > 0
    · obtain ⟨t11, e11, _, _⟩ := sub_intro hfc.renter w10 (by have := k2.mp c2; clear k1 k2; omega)
      simp only [c2, decide_true, ↓reduceIte, e11, e12, pure, Except.pure]
      exact ⟨_, rfl⟩
    · simp only [c2, decide_false, Bool.false_eq_true, ↓reduceIte, e11a, e12, pure, Except.pure]
      exact ⟨_, rfl⟩
  · simp only [c1, decide_false, Bool.false_eq_true, ↓reduceIte, e9a]
    by_cases c2 : fc.RenterOutput.Value.Cmp t10 > 0
    · obtain ⟨t11, e11, _, _⟩ := sub_intro hfc.renter w10 (by have := k2.mp c2; clear k1 k2; omega)
      simp only [c2, decide_true, ↓reduceIte, e11, e12, pure, Except.pure]
      exact ⟨_, rfl⟩
    · simp only [c2, decide_false, Bool.false_eq_true, ↓reduceIte, e11a, e12, pure, Except.pure]
      exact ⟨_, rfl⟩

/-- **RenewContract never panics** when total collateral ≤ host output (constructor
invariant) and the priced quantities fit in 128 bits (`Fits`: the Go code panics by design
on `Mul64`/`Add` overflow; both the partial products and the full ones are listed because
`Mul64` is applied left to right).  `dur`/`ext` are the `uint64` differences exactly as the
code computes them (`ExpirationHeight − prices.TipHeight`, `… − fc.ExpirationHeight`). -/
theorem c17_renew_no_panic (fc : V2FileContract) (p : HostPrices) (addr : ByteArray) (rp : RPCRenewContractParams)
    (hfc : FCWF fc) (hp : PricesWF p) (ha : WF rp.Allowance) (hc : WF rp.Collateral)
    (hph : rp.ProofHeight + 144 < W)
    (htc : val fc.TotalCollateral ≤ val fc.HostOutput.Value)
    (dur ext : Nat)
    (hdur : (rp.ProofHeight + 144 + W - p.TipHeight) % W = dur)
    (hext : (rp.ProofHeight + 144 + W - fc.ExpirationHeight) % W = ext)
    (fits1 : val p.Collateral * fc.Filesize < W2) (fits2 : val p.Collateral * fc.Filesize * dur < W2)
    (fits3 : val p.StoragePrice * fc.Filesize < W2) (fits4 : val p.StoragePrice * fc.Filesize * ext < W2)
    (fits5 : val rp.Collateral + val p.Collateral * fc.Filesize * dur
              + val p.StoragePrice * fc.Filesize * ext + val p.ContractPrice < W2) :
    ∃ r, RenewContract fc p addr rp = .ok r := by
  have hE : (rp.ProofHeight + 144) % 18446744073709551616 = rp.ProofHeight + 144 := Nat.mod_eq_of_lt hph
  have hdW : dur < W := by rw [← hdur]; exact Nat.mod_lt _ (by omega)
  have heW : ext < W := by rw [← hext]; exact Nat.mod_lt _ (by omega)
  obtain ⟨t1, e1, w1, v1⟩ := mul64_intro hp.coll hfc.fsz fits1
  obtain ⟨t2, e2, w2, v2⟩ := mul64_intro w1 hdW (by rw [v1]; exact fits2)
  rw [v1] at v2
  obtain ⟨t3, e3, w3, v3⟩ := add_intro hc w2 (by rw [v2]; omega)
  obtain ⟨t4, e4, w4, v4⟩ := mul64_intro hp.sp hfc.fsz fits3
  obtain ⟨t5, e5, w5, v5⟩ := mul64_intro w4 heW (by rw [v4]; exact fits4)
  rw [v4] at v5
  obtain ⟨t6, e6, w6, v6⟩ := add_intro w3 w5 (by rw [v3, v2, v5]; omega)
  obtain ⟨t7, e7, w7, v7⟩ := add_intro w6 hp.cp (by rw [v6, v3, v2, v5]; omega)
  obtain ⟨t10, e10, w10, v10⟩ := sub_intro w7 w3 (by omega)
  obtain ⟨t11, e11, w11, v11⟩ := sub_intro w10 hp.cp (by omega)
  obtain ⟨t12, e12, w12, v12⟩ := sub_intro w3 hc (by omega)
  have k1 := cmp_gt hfc.total w3
  have k2 := cmp_gt hfc.renter ha
  have hHR : ∃ t8, fc.HostOutput.Value.Sub (if fc.TotalCollateral.Cmp t3 > 0 then t3 else fc.TotalCollateral) = .ok t8 := by
    by_cases c1 : fc.TotalCollateral.Cmp t3 > 0
    · have := k1.mp c1
      obtain ⟨t8, e8, _, _⟩ := sub_intro hfc.host w3 (by clear k1 k2; omega)
      exact ⟨t8, by simp only [c1, ↓reduceIte]; exact e8⟩
    · obtain ⟨t8, e8, _, _⟩ := sub_intro hfc.host hfc.total htc
      exact ⟨t8, by simp only [c1, ↓reduceIte]; exact e8⟩
  have hRR : ∃ t9, fc.RenterOutput.Value.Sub (if fc.RenterOutput.Value.Cmp rp.Allowance > 0 then rp.Allowance else fc.RenterOutput.Value) = .ok t9 := by
    by_cases c2 : fc.RenterOutput.Value.Cmp rp.Allowance > 0
    · have := k2.mp c2
      obtain ⟨t9, e9, _, _⟩ := sub_intro hfc.renter ha (by clear k1 k2; omega)
      exact ⟨t9, by simp only [c2, ↓reduceIte]; exact e9⟩
    · obtain ⟨t9, e9, _, _⟩ := sub_intro hfc.renter hfc.renter (Nat.le_refl _)
      exact ⟨t9, by simp only [c2, ↓reduceIte]; exact e9⟩
  obtain ⟨t8, e8⟩ := hHR
  obtain ⟨t9, e9⟩ := hRR
  clear k1 k2 hdW heW fits1 fits2 fits3 fits4 fits5 v1 v2 v3 v4 v5 v6 v7 v10 v11 v12 htc
  unfold RenewContract
  simp only [hE, hdur, hext]
  clear hE hdur hext hph
  simp only [e1, e2, e3, e4, e5, e6, e7, bind, Except.bind]
  by_cases c1 : fc.TotalCollateral.Cmp t3 > 0
  · simp only [c1, decide_true, ↓reduceIte] at e8 ⊢
    simp only [e8]
    by_cases c2 : fc.RenterOutput.Value.Cmp rp.Allowance > 0
    · simp only [c2, decide_true, ↓reduceIte] at e9 ⊢
      simp only [e9, e10, e11, V2FileContract.RiskedCollateral, e12, pure, Except.pure]
      exact ⟨_, rfl⟩
    · simp only [c2, decide_false, Bool.false_eq_true, ↓reduceIte] at e9 ⊢
      simp only [e9, e10, e11, V2FileContract.RiskedCollateral, e12, pure, Except.pure]
      exact ⟨_, rfl⟩
  · simp only [c1, decide_false, Bool.false_eq_true, ↓reduceIte] at e8 ⊢
    simp only [e8]
    by_cases c2 : fc.RenterOutput.Value.Cmp rp.Allowance > 0
    · simp only [c2, decide_true, ↓reduceIte] at e9 ⊢
      simp only [e9, e10, e11, V2FileContract.RiskedCollateral, e12, pure, Except.pure]
      exact ⟨_, rfl⟩
    · simp only [c2, decide_false, Bool.false_eq_true, ↓reduceIte] at e9 ⊢
      simp only [e9, e10, e11, V2FileContract.RiskedCollateral, e12, pure, Except.pure]
      exact ⟨_, rfl⟩

end C17
