import SiaProofs.Lemmas.MerkleRhpDiffGen
import SiaProofs.Props.C16
import SiaProofs.Props.C16Tie
/-!
# C16 — diff proofs (rhp/v2 Build/VerifyDiffProof, rhp/v4 Build/VerifyFreeSectorsProof)

`VerifyDiffProof` runs `verifyMulti` twice: once over the old leaf hashes against the old root
and once over the modified leaf hashes against the new root, re-using the same tree hashes.

* per pass (`idx` = sorted duplicate-free changed indices, hypothesis `IdxOK 0 idx n`):
  `c16_diff_old_complete`, `c16_diff_new_complete_partial` (patch form), `c16_diff_size`,
  `c16_diff_old_sound` (for the code as it is now, which checks the leaf count).
* whole verifier, for action lists  swaps ++ [trim k]  (what `convertFreeActions` produces, and
  rhp/v2 swap/trim writes): `c16_diff_complete`, `c16_diff_sound` — the accepted new root IS the
  plain root of `applyActions ls actions`, i.e. `modifyLeaves`/`modifyProofRanges`/`sectorsChanged`
  (the compressed bookkeeping) are tied to the full-list swap-and-trim. `c16_free_complete`,
  `c16_free_sound` specialise to rhp/v4.
* `c16_diff_forged_accepted`: the verifier WITHOUT the leaf-count check (the code before fix
  9e80790, flag = false) accepts a forged instance; with the check it rejects it.

* `c16_diff_complete_general`, `c16_diff_sound_general`: the same for EVERY valid list of Append /
  Swap / Trim actions (`ValidActs`: any order and number; swap indices below the current count, trims
  not exceeding it) — rhp/v2 write batches.

Not modelled: `Update` actions (the Go code panics on them) and counts ≥ 2^64.
-/
set_option linter.unusedVariables false
namespace C16
open Sia.Rhp Sia.Rhp.HashOps

variable {H : Type} [HashOps H]

def r6 (i : Nat) : T := T.lf [UInt8.ofNat i]
/-- six distinct sector roots -/
def six : List T := [r6 0, r6 1, r6 2, r6 3, r6 4, r6 5]
def h0123 : T := T.nd (T.nd (r6 0) (r6 1)) (T.nd (r6 2) (r6 3))

def accepts (r : Except String Bool) : Bool := match r with | .ok true => true | _ => false
/-- `r = .ok x`, as a Bool -/
def isOk {α : Type} [DecidableEq α] (r : Except String α) (x : α) : Bool :=
  match r with | .ok y => decide (y = x) | .error _ => false


/-- old-root pass, completeness: the builder's tree hashes are the gap roots, and together with
the old leaf hashes they are accepted against the plain old root -/
theorem c16_diff_old_complete [DecidableEq H] (cc : Bool) (ls : List H) (idx : List Nat)
    (hok : IdxOK 0 idx ls.length) :
    diffTreeHashes ls idx 0 = .ok (gapHashes ls idx 0 ls.length) ∧
    verifyMultiG cc idx (gapHashes ls idx 0 ls.length) (idx.map (fun j => ls.getD j zero)) ls.length (metaRoot ls)
      = .ok true := by
  refine ⟨diffTreeHashes_eq ls idx 0 hok, ?_⟩
  obtain ⟨a', h1, h2⟩ := verifyMultiLoop_patch ls ls.length (Nat.le_refl _) idx 0 Acc.empty []
    (idx.map (fun j => ls.getD j zero)) [] hok rfl Inv.empty (by simp)
  rw [List.append_nil] at h1
  rw [patchFrom_self ls idx 0 hok] at h2
  unfold verifyMultiG
  rw [h1]
  have hr : a'.root = metaRoot ls := by simpa using h2.root
  have hn' : a'.n = ls.length := by simpa using h2.2
  simp [hr, hn', bind, Except.bind, pure, Except.pure]

example : verifyMultiG true [4, 5] (gapHashes six [4, 5] 0 six.length) ([4, 5].map (fun j => six.getD j zero))
    six.length (metaRoot six) = .ok true :=
  (c16_diff_old_complete true six [4, 5] (by simp [IdxOK, six])).2

/-- new-root pass, completeness in patch form: with the remaining indices `idx'`, ANY modified leaf
hashes `lv` and the new count `n'`, the same gap hashes are accepted against the plain root of
`ls[0:n']` with the positions `idx'` replaced by `lv` -/
theorem c16_diff_new_complete_partial [DecidableEq H] (cc : Bool) (ls : List H) (idx' : List Nat)
    (lv : List H) (n' : Nat)
    (hn : n' ≤ ls.length) (hok : IdxOK 0 idx' n') (hlv : lv.length = idx'.length) :
    verifyMultiG cc idx' (gapHashes ls idx' 0 n') lv n' (metaRoot (patchFrom ls idx' lv 0 n')) = .ok true := by
  obtain ⟨a', h1, h2⟩ := verifyMultiLoop_patch ls n' hn idx' 0 Acc.empty [] lv [] hok rfl Inv.empty hlv
  rw [List.append_nil] at h1
  have hlen : (patchFrom ls idx' lv 0 n').length = n' :=
    (verifyMultiLoop_patch_length ls n' hn idx' 0 lv hok hlv).trans (by omega)
  unfold verifyMultiG
  rw [h1]
  have hr : a'.root = metaRoot (patchFrom ls idx' lv 0 n') := by simpa using h2.root
  have hn' : a'.n = n' := by rw [h2.2]; simpa using hlen
  simp [hr, hn', bind, Except.bind, pure, Except.pure]

example : verifyMultiG true [4, 5] (gapHashes six [4, 5] 0 6) [r6 4, r6 5] 6
    (metaRoot (patchFrom six [4, 5] [r6 4, r6 5] 0 6)) = .ok true :=
  c16_diff_new_complete_partial true six [4, 5] [r6 4, r6 5] 6 (by decide) (by simp [IdxOK]) rfl

/-- number of tree hashes = what `DiffProofSize` counts between the indices -/
theorem c16_diff_size (ls : List H) (n : Nat) (hn : n ≤ ls.length) :
    ∀ (idx : List Nat) (start : Nat), IdxOK start idx n →
      (gapHashes ls idx start n).length = diffTreeCount idx start n := by
  intro idx
  induction idx with
  | nil =>
    intro start h
    simp only [gapHashes, diffTreeCount]
    exact buildRange_length_inner ls n hn _ start rfl
  | cons e es ih =>
    intro start h
    obtain ⟨h1, h2, h3⟩ := h
    simp only [gapHashes, diffTreeCount, List.length_append]
    rw [buildRange_length_inner ls e (by omega) _ start rfl, ih (e + 1) h3]

/-- old-root pass, soundness under the hypothesis `hth` that the number of tree hashes is the honest
one (helper: the leaf-count check of the current code implies `hth`, see `c16_diff_old_sound`) -/
theorem diff_old_sound_of_length [DecidableEq H] (hinj : NodeInj H) (cc : Bool) (ls : List H)
    (idx : List Nat) (th lf : List H) (hok : IdxOK 0 idx ls.length) (hlf : lf.length = idx.length)
    (hth : th.length = (gapHashes ls idx 0 ls.length).length)
    (hacc : verifyMultiG cc idx th lf ls.length (metaRoot ls) = .ok true) :
    th = gapHashes ls idx 0 ls.length ∧ lf = idx.map (fun j => ls.getD j zero) := by
  obtain ⟨a2, h1, h2⟩ := verifyMultiLoop_patch ls ls.length (Nat.le_refl _) idx 0 Acc.empty [] _ []
    hok rfl Inv.empty (by simp : (idx.map (fun j => ls.getD j zero)).length = idx.length)
  rw [patchFrom_self ls idx 0 hok] at h2
  have hth' : th.length = (gapHashes ls idx 0 ls.length ++ []).length := by simpa using hth
  obtain ⟨r1, r2, e1, e2, fn, fl⟩ := verifyMultiLoop_flow idx th (gapHashes ls idx 0 ls.length ++ []) lf
    (idx.map (fun j => ls.getD j zero)) Acc.empty Acc.empty 0 ls.length hth' hlf (by simp) rfl
  rw [h1] at e2
  simp only [Except.ok.injEq] at e2
  subst e2
  unfold verifyMultiG at hacc
  rw [e1] at hacc
  simp only [bind, Except.bind, pure, Except.pure, Except.ok.injEq, Bool.and_eq_true,
    decide_eq_true_eq, beq_iff_eq] at hacc
  obtain ⟨⟨hroot, hrest⟩, _⟩ := hacc
  have hr2 : a2.root = metaRoot ls := by have := h2.root; simpa using this
  have hs := root_inj hinj r1.1 a2 fn (by rw [hroot, hr2])
  have hr : r1.2 = [] := List.eq_nil_of_length_eq_zero hrest
  obtain ⟨_, q1, q2⟩ := verifyMultiLoop_inj hinj ls ls.length (Nat.le_refl _) idx 0 Acc.empty Acc.empty []
    th [] lf _ r1 (a2, []) hok rfl Inv.empty rfl hth' hlf (by simp) e1 h1 hs hr
  exact ⟨by simpa using q1, q2⟩

/-- With the leaf-count check (`checkCount = true`, the proposed one-line fix
`&& acc.numLeaves == numLeaves`; by `c16_diff_old_complete`/`c16_diff_new_complete_partial` it
rejects no honest proof) the old-root pass is sound WITHOUT the length hypothesis: with the true
count and the true old root, acceptance implies the tree hashes and the old leaf hashes are the
honest ones (so an altered index, leaf hash or tree hash, or a shorter/longer proof, is rejected). -/
theorem c16_diff_old_sound_checked [DecidableEq H] (hinj : NodeInj H) (ls : List H) (idx : List Nat)
    (th lf : List H) (hok : IdxOK 0 idx ls.length) (hlf : lf.length = idx.length)
    (hacc : verifyMultiG true idx th lf ls.length (metaRoot ls) = .ok true) :
    th = gapHashes ls idx 0 ls.length ∧ lf = idx.map (fun j => ls.getD j zero) := by
  unfold verifyMultiG at hacc
  cases e1 : verifyMultiLoop Acc.empty th idx lf 0 ls.length with
  | error m => rw [e1] at hacc; simp [bind, Except.bind] at hacc
  | ok r1 =>
    rw [e1] at hacc
    simp only [bind, Except.bind, pure, Except.pure, Except.ok.injEq, Bool.and_eq_true,
      decide_eq_true_eq, beq_iff_eq, Bool.not_true, Bool.false_or] at hacc
    obtain ⟨⟨hroot, hrest⟩, hnum⟩ := hacc
    obtain ⟨c1, c2⟩ := verifyMultiLoop_count idx 0 ls.length Acc.empty th lf r1 hok e1
    have e0 : (Acc.empty : Acc H).n = 0 := rfl
    have hth : th.length = (gapHashes ls idx 0 ls.length).length := by
      rw [c16_diff_size ls ls.length (Nat.le_refl _) idx 0 hok]
      have := c2 (by rw [e0, hnum]; omega)
      omega
    apply diff_old_sound_of_length hinj false ls idx th lf hok hlf hth
    unfold verifyMultiG
    rw [e1]
    simp [hroot, hrest, bind, Except.bind, pure, Except.pure]

example (th lf : List T) (hlf : lf.length = 2)
    (hacc : verifyMultiG true [4, 5] th lf six.length (metaRoot six) = .ok true) :
    lf = [r6 4, r6 5] := by
  have := (c16_diff_old_sound_checked T_nodeInj six [4, 5] th lf (by simp [IdxOK, six]) hlf hacc).2
  simpa [six] using this

/-- Old-root pass, soundness FOR THE CODE AS IT IS (the flag is read from the source and tied
to `true` by `tie_verifyMulti_checks_leaf_count`): with the true count and the true old root,
acceptance implies the tree hashes and the old leaf hashes are the honest ones. -/
theorem c16_diff_old_sound [DecidableEq H] (hinj : NodeInj H) (ls : List H) (idx : List Nat)
    (th lf : List H) (hok : IdxOK 0 idx ls.length) (hlf : lf.length = idx.length)
    (hacc : verifyMultiG codeChecksLeafCount idx th lf ls.length (metaRoot ls) = .ok true) :
    th = gapHashes ls idx 0 ls.length ∧ lf = idx.map (fun j => ls.getD j zero) := by
  rw [tie_verifyMulti_checks_leaf_count.2] at hacc
  exact c16_diff_old_sound_checked hinj ls idx th lf hok hlf hacc

/-! ### the whole verifier on  swaps ++ [trim k] -/

theorem verifyMultiG_root_unique [DecidableEq H] (cc : Bool) (idx : List Nat) (th lv : List H) (n : Nat)
    (r1 r2 : H) (h1 : verifyMultiG cc idx th lv n r1 = .ok true) (h2 : verifyMultiG cc idx th lv n r2 = .ok true) :
    r1 = r2 := by
  unfold verifyMultiG at h1 h2
  cases e : verifyMultiLoop Acc.empty th idx lv 0 n with
  | error m => rw [e] at h1; simp [bind, Except.bind] at h1
  | ok s =>
    rw [e] at h1 h2
    simp only [bind, Except.bind, pure, Except.pure, Except.ok.injEq, Bool.and_eq_true,
      decide_eq_true_eq] at h1 h2
    rw [← h1.1.1, ← h2.1.1]

/-- Completeness: for `actions = swaps ++ [trim k]` (indices in range, `k ≤ n`) the builder's proof
is accepted with the plain old root and the plain root of the list the actions produce. -/
theorem c16_diff_complete [DecidableEq H] (cc : Bool) (ls : List H) (sw : List (Nat × Nat)) (k : Nat)
    (hn : ls.length < 18446744073709551616) (hk : k ≤ ls.length)
    (hsw : ∀ p ∈ sw, p.1 < ls.length ∧ p.2 < ls.length) :
    ∃ th lf ls', buildDiffProof (swapActs sw ++ [Action.trim k]) ls = .ok (th, lf) ∧
      applyActions ls (swapActs sw ++ [Action.trim k]) = .ok ls' ∧
      verifyDiffProofG cc (swapActs sw ++ [Action.trim k]) ls.length th lf (metaRoot ls) (metaRoot ls') = .ok true := by
  obtain ⟨P, l', hSP, hokS, hokP, hl', happ, hag, hml, hmp⟩ := diff_shape ls sw k hn hk hsw
  have hsc := sectorsChanged_shape (H := H) sw k ls.length hk hn hsw
  refine ⟨gapHashes ls (chIdx sw k ls.length) 0 ls.length,
    (chIdx sw k ls.length).map (fun j => ls.getD j zero), l'.take (ls.length - k), ?_, happ, ?_⟩
  · unfold buildDiffProof
    rw [hsc]
    simp only [bind, Except.bind, pure, Except.pure]
    rw [(c16_diff_old_complete cc ls _ hokS).1]
  · unfold verifyDiffProofG
    rw [hsc]
    simp only [List.length_map, ne_eq, not_true_eq_false, if_false]
    rw [(c16_diff_old_complete cc ls _ hokS).2]
    simp only [hml, hmp]
    -- the new pass
    have hlen : ls.length + P.length - (chIdx sw k ls.length).length = ls.length - k := by
      rw [hSP]; simp; omega
    simp only [List.length_map]
    rw [hlen]
    have hth : gapHashes ls (chIdx sw k ls.length) 0 ls.length = gapHashes ls P 0 (ls.length - k) := by
      rw [hSP]
      have := gapHashes_append_range ls (ls.length - k) k P 0 hokP
      have e : ls.length - k + k = ls.length := by omega
      rwa [e] at this
    rw [hth]
    have hpatch := patchFrom_agree ls l' (ls.length - k) (by omega) (by omega) P 0 hokP
      (fun j _ h2 h3 => hag j h2 h3)
    simp only [List.drop_zero, Nat.sub_zero] at hpatch
    rw [← hpatch]
    exact c16_diff_new_complete_partial cc ls P _ (ls.length - k) (by omega) hokP (by simp)

/-- Soundness for the code as it is: with the true count and the true old root, acceptance forces
the new root to be the plain root of the list after the swaps and the trim — and the proof to be
the honest one. Hence any altered index, leaf hash, tree hash or root is rejected. -/
theorem c16_diff_sound [DecidableEq H] (hinj : NodeInj H) (ls : List H) (sw : List (Nat × Nat)) (k : Nat)
    (hn : ls.length < 18446744073709551616) (hk : k ≤ ls.length)
    (hsw : ∀ p ∈ sw, p.1 < ls.length ∧ p.2 < ls.length)
    (th lf : List H) (newRoot : H)
    (hacc : verifyDiffProofG codeChecksLeafCount (swapActs sw ++ [Action.trim k]) ls.length th lf
      (metaRoot ls) newRoot = .ok true) :
    ∃ ls', applyActions ls (swapActs sw ++ [Action.trim k]) = .ok ls' ∧ newRoot = metaRoot ls' ∧
      buildDiffProof (swapActs sw ++ [Action.trim k]) ls = .ok (th, lf) := by
  obtain ⟨th0, lf0, ls', hbuild, happ, hhonest⟩ := c16_diff_complete codeChecksLeafCount ls sw k hn hk hsw
  obtain ⟨P, l', hSP, hokS, hokP, hl', happ', hag, hml, hmp⟩ := diff_shape ls sw k hn hk hsw
  have hsc := sectorsChanged_shape (H := H) sw k ls.length hk hn hsw
  -- what the honest proof is
  have hb : th0 = gapHashes ls (chIdx sw k ls.length) 0 ls.length ∧
      lf0 = (chIdx sw k ls.length).map (fun j => ls.getD j zero) := by
    unfold buildDiffProof at hbuild
    rw [hsc] at hbuild
    simp only [bind, Except.bind, pure, Except.pure] at hbuild
    rw [(c16_diff_old_complete true ls _ hokS).1] at hbuild
    simp only [Except.ok.injEq, Prod.mk.injEq] at hbuild
    exact ⟨hbuild.1.symm, hbuild.2.symm⟩
  -- the old pass pins th and lf
  unfold verifyDiffProofG at hacc hhonest
  rw [hsc] at hacc hhonest
  simp only at hacc hhonest
  by_cases hlen : (chIdx sw k ls.length).length = lf.length
  · simp only [hlen, ne_eq, not_true_eq_false, if_false] at hacc
    cases hold : verifyMultiG codeChecksLeafCount (chIdx sw k ls.length) th lf ls.length (metaRoot ls) with
    | error e => rw [hold] at hacc; simp at hacc
    | ok v =>
      cases v with
      | false => rw [hold] at hacc; simp at hacc
      | true =>
        obtain ⟨hth, hlf⟩ := c16_diff_old_sound hinj ls _ th lf hokS hlen.symm hold
        rw [← hb.1] at hth
        rw [← hb.2] at hlf
        subst hth hlf
        rw [hold] at hacc
        simp only at hacc
        -- same computation as the honest run, which ends in the root of ls'
        have hlen0 : (chIdx sw k ls.length).length = lf.length := hlen
        simp only [hlen0, ne_eq, not_true_eq_false, if_false, hold] at hhonest
        refine ⟨ls', happ, ?_, hbuild⟩
        cases hm : modifyLeaves lf (swapActs sw ++ [Action.trim k]) ls.length with
        | error e => rw [hm] at hacc; simp at hacc
        | ok nl =>
          rw [hm] at hacc hhonest
          simp only at hacc hhonest
          cases hp : modifyProofRanges (chIdx sw k ls.length) (swapActs sw ++ [Action.trim k] : List (Action H)) ls.length with
          | error e => rw [hp] at hacc; simp at hacc
          | ok ni =>
            rw [hp] at hacc hhonest
            simp only at hacc hhonest
            exact verifyMultiG_root_unique _ _ _ _ _ _ _ hacc hhonest
  · simp [hlen] at hacc

/-! ### the whole verifier on EVERY valid list of Append / Swap / Trim actions (rhp/v2 write batches) -/

theorem actionIndices_total : ∀ (acts : List (Action H)) (m : Nat), ValidActs m acts →
    ∃ raw, actionIndices acts m = .ok raw := by
  intro acts
  induction acts with
  | nil => intro m _; exact ⟨[], rfl⟩
  | cons a acts ih =>
    intro m hv
    cases a with
    | other => exact absurd hv (by simp [ValidActs])
    | append r =>
      obtain ⟨raw, hr⟩ := ih (m + 1) hv.2
      exact ⟨m :: raw, by simp [actionIndices, hr, bind, Except.bind, pure, Except.pure]⟩
    | trim k =>
      have ht := (trimIndices_spec k m hv.2.1 hv.1).1
      obtain ⟨raw, hr⟩ := ih (m - k) hv.2.2
      exact ⟨(trimIndices k m).2 ++ raw, by simp [actionIndices, ht, hr, bind, Except.bind, pure, Except.pure]⟩
    | swap a b =>
      obtain ⟨raw, hr⟩ := ih m hv.2.2
      exact ⟨a :: b :: raw, by simp [actionIndices, hr, bind, Except.bind, pure, Except.pure]⟩

theorem below_length_diff (S : List Nat) (hS : Sorted S) (n n' : Nat)
    (hcov : ∀ j, min n n' ≤ j → j < max n n' → j ∈ S) :
    n + (below S n').length - (below S n).length = n' := by
  by_cases hle : n ≤ n'
  · have := below_split S hS n' (n' - n) (by omega) (fun j a b => hcov j (by omega) (by omega))
    have e : n' - (n' - n) = n := by omega
    rw [e] at this
    rw [this]; simp; omega
  · have := below_split S hS n (n - n') (by omega) (fun j a b => hcov j (by omega) (by omega))
    have e : n - (n - n') = n' := by omega
    rw [e] at this
    rw [this]; simp; omega

/-- Completeness for every valid action list (`ValidActs`: Append, Swap with indices below the
current count, Trim not exceeding the current count, in any order and number): the builder's
proof is accepted with the plain old root and the plain root of `applyActions ls actions`. -/
theorem c16_diff_complete_general [DecidableEq H] (cc : Bool) (ls : List H) (acts : List (Action H))
    (hv : ValidActs ls.length acts) :
    ∃ th lf ls', buildDiffProof acts ls = .ok (th, lf) ∧ applyActions ls acts = .ok ls' ∧
      verifyDiffProofG cc acts ls.length th lf (metaRoot ls) (metaRoot ls') = .ok true := by
  obtain ⟨raw, hraw⟩ := actionIndices_total acts ls.length hv
  have hS := sorted_sortDedup raw
  obtain ⟨l', e1, e2, e3, ag, cov, _⟩ := acts_compress (sortDedup raw) hS acts ls raw hv hraw
    (fun x hx => (mem_sortDedup x raw).2 hx)
  have hsc : sectorsChanged acts ls.length = .ok (below (sortDedup raw) ls.length) := by
    unfold sectorsChanged; rw [hraw]; rfl
  have hokS : IdxOK 0 (below (sortDedup raw) ls.length) ls.length :=
    IdxOK_of_sorted _ 0 _ (sorted_below hS _) (fun x hx => ⟨Nat.zero_le _, (mem_below.1 hx).2⟩) (Nat.zero_le _)
  have hokS' : IdxOK 0 (below (sortDedup raw) l'.length) l'.length :=
    IdxOK_of_sorted _ 0 _ (sorted_below hS _) (fun x hx => ⟨Nat.zero_le _, (mem_below.1 hx).2⟩) (Nat.zero_le _)
  refine ⟨gapHashes ls (below (sortDedup raw) ls.length) 0 ls.length,
    (below (sortDedup raw) ls.length).map (fun j => ls.getD j zero), l', ?_, e1, ?_⟩
  · unfold buildDiffProof
    rw [hsc]
    simp only [bind, Except.bind, pure, Except.pure]
    rw [(c16_diff_old_complete cc ls _ hokS).1]
  · unfold verifyDiffProofG
    rw [hsc]
    simp only [List.length_map, ne_eq, not_true_eq_false, if_false]
    rw [(c16_diff_old_complete cc ls _ hokS).2]
    have hml : modifyLeaves ((below (sortDedup raw) ls.length).map (fun j => ls.getD j zero)) acts ls.length
        = .ok ((below (sortDedup raw) l'.length).map (fun j => l'.getD j zero)) := by
      unfold modifyLeaves; rw [hraw]; exact e2
    simp only [hml, e3, List.length_map]
    rw [below_length_diff _ hS ls.length l'.length cov,
      gapHashes_passes _ hS ls l' ag cov]
    have := (c16_diff_old_complete cc l' _ hokS').2
    exact this

/-- Soundness for every valid action list, for the code as it is: with the true count and the true
old root, acceptance forces the new root to be the plain root of `applyActions ls actions` and the
proof to be the builder's. -/
theorem c16_diff_sound_general [DecidableEq H] (hinj : NodeInj H) (ls : List H) (acts : List (Action H))
    (hv : ValidActs ls.length acts) (th lf : List H) (newRoot : H)
    (hacc : verifyDiffProofG codeChecksLeafCount acts ls.length th lf (metaRoot ls) newRoot = .ok true) :
    ∃ ls', applyActions ls acts = .ok ls' ∧ newRoot = metaRoot ls' ∧ buildDiffProof acts ls = .ok (th, lf) := by
  obtain ⟨th0, lf0, ls', hbuild, happ, hhonest⟩ := c16_diff_complete_general codeChecksLeafCount ls acts hv
  obtain ⟨raw, hraw⟩ := actionIndices_total acts ls.length hv
  have hS := sorted_sortDedup raw
  have hsc : sectorsChanged acts ls.length = .ok (below (sortDedup raw) ls.length) := by
    unfold sectorsChanged; rw [hraw]; rfl
  have hokS : IdxOK 0 (below (sortDedup raw) ls.length) ls.length :=
    IdxOK_of_sorted _ 0 _ (sorted_below hS _) (fun x hx => ⟨Nat.zero_le _, (mem_below.1 hx).2⟩) (Nat.zero_le _)
  have hb : th0 = gapHashes ls (below (sortDedup raw) ls.length) 0 ls.length ∧
      lf0 = (below (sortDedup raw) ls.length).map (fun j => ls.getD j zero) := by
    unfold buildDiffProof at hbuild
    rw [hsc] at hbuild
    simp only [bind, Except.bind, pure, Except.pure] at hbuild
    rw [(c16_diff_old_complete true ls _ hokS).1] at hbuild
    simp only [Except.ok.injEq, Prod.mk.injEq] at hbuild
    exact ⟨hbuild.1.symm, hbuild.2.symm⟩
  unfold verifyDiffProofG at hacc hhonest
  rw [hsc] at hacc hhonest
  simp only at hacc hhonest
  by_cases hlen : (below (sortDedup raw) ls.length).length = lf.length
  · simp only [hlen, ne_eq, not_true_eq_false, if_false] at hacc
    cases hold : verifyMultiG codeChecksLeafCount (below (sortDedup raw) ls.length) th lf ls.length (metaRoot ls) with
    | error e => rw [hold] at hacc; simp at hacc
    | ok v =>
      cases v with
      | false => rw [hold] at hacc; simp at hacc
      | true =>
        obtain ⟨hth, hlf⟩ := c16_diff_old_sound hinj ls _ th lf hokS hlen.symm hold
        rw [← hb.1] at hth
        rw [← hb.2] at hlf
        subst hth hlf
        rw [hold] at hacc
        simp only at hacc
        simp only [hlen, ne_eq, not_true_eq_false, if_false, hold] at hhonest
        refine ⟨ls', happ, ?_, hbuild⟩
        cases hm : modifyLeaves lf acts ls.length with
        | error e => rw [hm] at hacc; simp at hacc
        | ok nl =>
          rw [hm] at hacc hhonest
          simp only at hacc hhonest
          cases hp : modifyProofRanges (below (sortDedup raw) ls.length) acts ls.length with
          | error e => rw [hp] at hacc; simp at hacc
          | ok ni =>
            rw [hp] at hacc hhonest
            simp only at hacc hhonest
            exact verifyMultiG_root_unique _ _ _ _ _ _ _ hacc hhonest
  · simp [hlen] at hacc

example : ∃ th lf ls', buildDiffProof [Action.append (r6 9), Action.swap 1 6, Action.trim 2, Action.append (r6 8)] six = .ok (th, lf) ∧
    applyActions six [Action.append (r6 9), Action.swap 1 6, Action.trim 2, Action.append (r6 8)] = .ok ls' ∧
    verifyDiffProofG true [Action.append (r6 9), Action.swap 1 6, Action.trim 2, Action.append (r6 8)] six.length th lf
      (metaRoot six) (metaRoot ls') = .ok true :=
  c16_diff_complete_general true six _ (by simp [ValidActs, six])

/-! ### rhp/v4 free-sectors proofs -/

/-- Completeness of `BuildFreeSectorsProof` / `VerifyFreeSectorsProof`: for in-range indices (any
order; `RPCFreeSectorsRequest.Validate` also makes them distinct) the proof is accepted with the
plain old root and the plain root of the list after "swap freed[i] with n-1-i, then trim". -/
theorem c16_free_complete [DecidableEq H] (cc : Bool) (ls : List H) (freed : List Nat)
    (hn : ls.length < 18446744073709551616) (hk : freed.length ≤ ls.length) (hf : ∀ x ∈ freed, x < ls.length) :
    ∃ th lf ls', buildFreeSectorsProof ls freed = .ok (th, lf) ∧ applyFree ls freed = .ok ls' ∧
      verifyFreeSectorsProofG cc th lf freed ls.length (metaRoot ls) (metaRoot ls') = .ok true := by
  obtain ⟨th, lf, ls', h1, h2, h3⟩ := c16_diff_complete cc ls (freeSwaps freed ls.length) freed.length hn hk
    (freeSwaps_lt freed ls.length hk hf)
  refine ⟨th, lf, ls', ?_, ?_, ?_⟩
  · unfold buildFreeSectorsProof; rw [convertFreeActions_eq freed ls.length hk hn]; exact h1
  · rw [applyFree_eq ls freed hk hn, convertFreeActions_eq freed ls.length hk hn]; exact h2
  · unfold verifyFreeSectorsProofG; rw [convertFreeActions_eq freed ls.length hk hn]; exact h3

example : ∃ th lf ls', buildFreeSectorsProof six [1, 4] = .ok (th, lf) ∧ applyFree six [1, 4] = .ok ls' ∧
    verifyFreeSectorsProofG true th lf [1, 4] six.length (metaRoot six) (metaRoot ls') = .ok true :=
  c16_free_complete true six [1, 4] (by decide) (by decide) (by decide)

/-- Soundness of `VerifyFreeSectorsProof` for the code as it is: with the true sector count and
the true old root, acceptance forces the new root to be the plain root of the list after the
requested swap-and-trim (so the proof of freeing OTHER sectors is rejected), and the proof to be
the one the builder emits. -/
theorem c16_free_sound [DecidableEq H] (hinj : NodeInj H) (ls : List H) (freed : List Nat)
    (hn : ls.length < 18446744073709551616) (hk : freed.length ≤ ls.length) (hf : ∀ x ∈ freed, x < ls.length)
    (th lf : List H) (newRoot : H)
    (hacc : verifyFreeSectorsProof th lf freed ls.length (metaRoot ls) newRoot = .ok true) :
    ∃ ls', applyFree ls freed = .ok ls' ∧ newRoot = metaRoot ls' ∧
      buildFreeSectorsProof ls freed = .ok (th, lf) := by
  unfold verifyFreeSectorsProof verifyFreeSectorsProofG at hacc
  rw [convertFreeActions_eq freed ls.length hk hn] at hacc
  obtain ⟨ls', h1, h2, h3⟩ := c16_diff_sound hinj ls (freeSwaps freed ls.length) freed.length hn hk
    (freeSwaps_lt freed ls.length hk hf) th lf newRoot hacc
  refine ⟨ls', ?_, h2, ?_⟩
  · rw [applyFree_eq ls freed hk hn, convertFreeActions_eq freed ls.length hk hn]; exact h1
  · unfold buildFreeSectorsProof; rw [convertFreeActions_eq freed ls.length hk hn]; exact h3

/-- the forged instance of `c16_diff_forged_accepted` is rejected by the code as it is -/
example : verifyFreeSectorsProof [h0123] [r6 4, r6 5] [3] six.length (metaRoot six) (T.nd h0123 (r6 5)) ≠ .ok true := by
  intro h
  obtain ⟨ls', h1, h2, _⟩ := c16_free_sound T_nodeInj six [3] (by decide) (by decide) (by decide) _ _ _ h
  have : isOk ((applyFree six [3]).map metaRoot) (T.nd h0123 (r6 5)) = true := by
    rw [h1]; simp [Except.map, isOk, h2]
  exact absurd this (by decide +kernel)

/-! ### the gap is real: a forged free-sectors proof the verifier accepts -/

/-- With the TRUE count 6 and the TRUE old root of `six`, the honest proof and new root for
"free sector 4" are accepted for the claim "free sector 3", although the list after freeing
sector 3 has a different root (same behaviour in Go: rhp4.VerifyFreeSectorsProof). With the
leaf-count check the honest claim is still accepted and the forged one rejected. -/
theorem c16_diff_forged_accepted :
    metaRoot six = T.nd h0123 (T.nd (r6 4) (r6 5)) ∧
    isOk (buildFreeSectorsProof six [4]) ([h0123], [r6 4, r6 5]) = true ∧
    accepts (verifyFreeSectorsProofG false [h0123] [r6 4, r6 5] [4] 6 (metaRoot six) (T.nd h0123 (r6 5))) = true ∧
    accepts (verifyFreeSectorsProofG false [h0123] [r6 4, r6 5] [3] 6 (metaRoot six) (T.nd h0123 (r6 5))) = true ∧
    isOk ((applyFree six [3]).map metaRoot) (T.nd h0123 (r6 5)) = false ∧
    accepts (verifyFreeSectorsProofG true [h0123] [r6 4, r6 5] [4] 6 (metaRoot six) (T.nd h0123 (r6 5))) = true ∧
    accepts (verifyFreeSectorsProofG true [h0123] [r6 4, r6 5] [3] 6 (metaRoot six) (T.nd h0123 (r6 5))) = false := by
  refine ⟨by decide +kernel, by decide +kernel, by decide +kernel, by decide +kernel, by decide +kernel,
    by decide +kernel, by decide +kernel⟩

end C16
