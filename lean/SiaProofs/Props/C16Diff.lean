import SiaProofs.Lemmas.MerkleRhpDiff
import SiaProofs.Props.C16
/-!
# C16 — diff proofs (rhp/v2 Build/VerifyDiffProof, rhp/v4 Build/VerifyFreeSectorsProof)

`VerifyDiffProof` runs `verifyMulti` twice: once over the old leaf hashes against the old root
and once over the modified leaf hashes against the new root, re-using the same tree hashes.
`idx` is the sorted, duplicate-free list of changed indices (`sectorsChanged`), stated here as the
hypothesis `IdxOK 0 idx n`.

Proved: completeness of both passes (the second in "patch" form: the accepted new root is the
plain root of the list with the changed positions replaced by the modified leaf hashes), the
proof size, and soundness **under the extra hypothesis that the number of tree hashes is the
honest one**.

GAP (real, found while proving, replayed on the Go code): `verifyMulti` does not check the number
of tree hashes nor that its accumulator ends with `numLeaves` leaves, so without that hypothesis
soundness is FALSE — `c16_diff_forged_accepted` exhibits a forged instance the verifier accepts
with the true count and the true old root. What is not proved (covered by exhaustive
correspondence for `n ≤ 8` only): that `modifyLeaves`/`modifyProofRanges` (the compressed swap
bookkeeping) coincide with swapping and trimming the full list (`applyFree`).
-/
set_option linter.unusedVariables false
namespace C16
open Sia.Rhp Sia.Rhp.HashOps

variable {H : Type} [HashOps H]

def r6 (i : Nat) : T := T.lf [UInt8.ofNat i]
/-- six distinct sector roots -/
def six : List T := [r6 0, r6 1, r6 2, r6 3, r6 4, r6 5]
def h0123 : T := T.nd (T.nd (r6 0) (r6 1)) (T.nd (r6 2) (r6 3))

/-- old-root pass, completeness: the builder's tree hashes are the gap roots, and together with
the old leaf hashes they are accepted against the plain old root -/
theorem c16_diff_old_complete [DecidableEq H] (cc : Bool) (ls : List H) (idx : List Nat)
    (hok : IdxOK 0 idx ls.length) :
    diffTreeHashes ls idx 0 = .ok (gapHashes ls idx 0 ls.length) ∧
    verifyMultiG cc idx (gapHashes ls idx 0 ls.length) (idx.map (fun j => ls.getD j zero)) ls.length (metaRoot ls)
      = .ok true := by
  refine ⟨diffTreeHashes_eq ls idx 0 hok, ?_⟩
  obtain ⟨a', h1, h2⟩ := verifyMultiLoop_patch ls ls.length (Nat.le_refl _) idx 0 Acc.empty []
    (idx.map (fun j => ls.getD j zero)) [] hok rfl Inv.empty (by simp)
  rw [List.append_nil] at h1
  rw [patchFrom_self ls idx 0 hok] at h2
  unfold verifyMultiG
  rw [h1]
  have hr : a'.root = metaRoot ls := by simpa using h2.root
  have hn' : a'.n = ls.length := by simpa using h2.2
  simp [hr, hn', bind, Except.bind, pure, Except.pure]

example : verifyMultiG true [4, 5] (gapHashes six [4, 5] 0 six.length) ([4, 5].map (fun j => six.getD j zero))
    six.length (metaRoot six) = .ok true :=
  (c16_diff_old_complete true six [4, 5] (by simp [IdxOK, six])).2

/-- new-root pass, completeness in patch form: with the remaining indices `idx'`, ANY modified leaf
hashes `lv` and the new count `n'`, the same gap hashes are accepted against the plain root of
`ls[0:n']` with the positions `idx'` replaced by `lv` -/
theorem c16_diff_new_complete_partial [DecidableEq H] (cc : Bool) (ls : List H) (idx' : List Nat)
    (lv : List H) (n' : Nat)
    (hn : n' ≤ ls.length) (hok : IdxOK 0 idx' n') (hlv : lv.length = idx'.length) :
    verifyMultiG cc idx' (gapHashes ls idx' 0 n') lv n' (metaRoot (patchFrom ls idx' lv 0 n')) = .ok true := by
  obtain ⟨a', h1, h2⟩ := verifyMultiLoop_patch ls n' hn idx' 0 Acc.empty [] lv [] hok rfl Inv.empty hlv
  rw [List.append_nil] at h1
  have hlen : (patchFrom ls idx' lv 0 n').length = n' :=
    (verifyMultiLoop_patch_length ls n' hn idx' 0 lv hok hlv).trans (by omega)
  unfold verifyMultiG
  rw [h1]
  have hr : a'.root = metaRoot (patchFrom ls idx' lv 0 n') := by simpa using h2.root
  have hn' : a'.n = n' := by rw [h2.2]; simpa using hlen
  simp [hr, hn', bind, Except.bind, pure, Except.pure]

example : verifyMultiG true [4, 5] (gapHashes six [4, 5] 0 6) [r6 4, r6 5] 6
    (metaRoot (patchFrom six [4, 5] [r6 4, r6 5] 0 6)) = .ok true :=
  c16_diff_new_complete_partial true six [4, 5] [r6 4, r6 5] 6 (by decide) (by simp [IdxOK]) rfl

/-- number of tree hashes = what `DiffProofSize` counts between the indices -/
theorem c16_diff_size (ls : List H) (n : Nat) (hn : n ≤ ls.length) :
    ∀ (idx : List Nat) (start : Nat), IdxOK start idx n →
      (gapHashes ls idx start n).length = diffTreeCount idx start n := by
  intro idx
  induction idx with
  | nil =>
    intro start h
    simp only [gapHashes, diffTreeCount]
    exact buildRange_length_inner ls n hn _ start rfl
  | cons e es ih =>
    intro start h
    obtain ⟨h1, h2, h3⟩ := h
    simp only [gapHashes, diffTreeCount, List.length_append]
    rw [buildRange_length_inner ls e (by omega) _ start rfl, ih (e + 1) h3]

/-- old-root pass, soundness — PARTIAL: needs the hypothesis `hth` that the number of tree hashes
is the honest one, which the Go verifier does not check (see `c16_diff_forged_accepted`).
Full statement (false for the code as it is): acceptance with the true count and old root
implies `th` and `lf` are the honest ones. -/
theorem c16_diff_old_sound_partial [DecidableEq H] (hinj : NodeInj H) (cc : Bool) (ls : List H)
    (idx : List Nat) (th lf : List H) (hok : IdxOK 0 idx ls.length) (hlf : lf.length = idx.length)
    (hth : th.length = (gapHashes ls idx 0 ls.length).length)
    (hacc : verifyMultiG cc idx th lf ls.length (metaRoot ls) = .ok true) :
    th = gapHashes ls idx 0 ls.length ∧ lf = idx.map (fun j => ls.getD j zero) := by
  obtain ⟨a2, h1, h2⟩ := verifyMultiLoop_patch ls ls.length (Nat.le_refl _) idx 0 Acc.empty [] _ []
    hok rfl Inv.empty (by simp : (idx.map (fun j => ls.getD j zero)).length = idx.length)
  rw [patchFrom_self ls idx 0 hok] at h2
  have hth' : th.length = (gapHashes ls idx 0 ls.length ++ []).length := by simpa using hth
  obtain ⟨r1, r2, e1, e2, fn, fl⟩ := verifyMultiLoop_flow idx th (gapHashes ls idx 0 ls.length ++ []) lf
    (idx.map (fun j => ls.getD j zero)) Acc.empty Acc.empty 0 ls.length hth' hlf (by simp) rfl
  rw [h1] at e2
  simp only [Except.ok.injEq] at e2
  subst e2
  unfold verifyMultiG at hacc
  rw [e1] at hacc
  simp only [bind, Except.bind, pure, Except.pure, Except.ok.injEq, Bool.and_eq_true,
    decide_eq_true_eq, beq_iff_eq] at hacc
  obtain ⟨⟨hroot, hrest⟩, _⟩ := hacc
  have hr2 : a2.root = metaRoot ls := by have := h2.root; simpa using this
  have hs := root_inj hinj r1.1 a2 fn (by rw [hroot, hr2])
  have hr : r1.2 = [] := List.eq_nil_of_length_eq_zero hrest
  obtain ⟨_, q1, q2⟩ := verifyMultiLoop_inj hinj ls ls.length (Nat.le_refl _) idx 0 Acc.empty Acc.empty []
    th [] lf _ r1 (a2, []) hok rfl Inv.empty rfl hth' hlf (by simp) e1 h1 hs hr
  exact ⟨by simpa using q1, q2⟩

/-- With the leaf-count check (`checkCount = true`, the proposed one-line fix
`&& acc.numLeaves == numLeaves`; by `c16_diff_old_complete`/`c16_diff_new_complete_partial` it
rejects no honest proof) the old-root pass is sound WITHOUT the length hypothesis: with the true
count and the true old root, acceptance implies the tree hashes and the old leaf hashes are the
honest ones (so an altered index, leaf hash or tree hash, or a shorter/longer proof, is rejected). -/
theorem c16_diff_fixed_sound [DecidableEq H] (hinj : NodeInj H) (ls : List H) (idx : List Nat)
    (th lf : List H) (hok : IdxOK 0 idx ls.length) (hlf : lf.length = idx.length)
    (hacc : verifyMultiG true idx th lf ls.length (metaRoot ls) = .ok true) :
    th = gapHashes ls idx 0 ls.length ∧ lf = idx.map (fun j => ls.getD j zero) := by
  unfold verifyMultiG at hacc
  cases e1 : verifyMultiLoop Acc.empty th idx lf 0 ls.length with
  | error m => rw [e1] at hacc; simp [bind, Except.bind] at hacc
  | ok r1 =>
    rw [e1] at hacc
    simp only [bind, Except.bind, pure, Except.pure, Except.ok.injEq, Bool.and_eq_true,
      decide_eq_true_eq, beq_iff_eq, Bool.not_true, Bool.false_or] at hacc
    obtain ⟨⟨hroot, hrest⟩, hnum⟩ := hacc
    obtain ⟨c1, c2⟩ := verifyMultiLoop_count idx 0 ls.length Acc.empty th lf r1 hok e1
    have e0 : (Acc.empty : Acc H).n = 0 := rfl
    have hth : th.length = (gapHashes ls idx 0 ls.length).length := by
      rw [c16_diff_size ls ls.length (Nat.le_refl _) idx 0 hok]
      have := c2 (by rw [e0, hnum]; omega)
      omega
    apply c16_diff_old_sound_partial hinj false ls idx th lf hok hlf hth
    unfold verifyMultiG
    rw [e1]
    simp [hroot, hrest, bind, Except.bind, pure, Except.pure]

example (th lf : List T) (hlf : lf.length = 2)
    (hacc : verifyMultiG true [4, 5] th lf six.length (metaRoot six) = .ok true) :
    lf = [r6 4, r6 5] := by
  have := (c16_diff_fixed_sound T_nodeInj six [4, 5] th lf (by simp [IdxOK, six]) hlf hacc).2
  simpa [six] using this

/-! ### the gap is real: a forged free-sectors proof the verifier accepts -/

def accepts (r : Except String Bool) : Bool := match r with | .ok true => true | _ => false
/-- `r = .ok x`, as a Bool -/
def isOk {α : Type} [DecidableEq α] (r : Except String α) (x : α) : Bool :=
  match r with | .ok y => decide (y = x) | .error _ => false


/-- With the TRUE count 6 and the TRUE old root of `six`, the honest proof and new root for
"free sector 4" are accepted for the claim "free sector 3", although the list after freeing
sector 3 has a different root (same behaviour in Go: rhp4.VerifyFreeSectorsProof). With the
leaf-count check the honest claim is still accepted and the forged one rejected. -/
theorem c16_diff_forged_accepted :
    metaRoot six = T.nd h0123 (T.nd (r6 4) (r6 5)) ∧
    isOk (buildFreeSectorsProof six [4]) ([h0123], [r6 4, r6 5]) = true ∧
    accepts (verifyFreeSectorsProofG false [h0123] [r6 4, r6 5] [4] 6 (metaRoot six) (T.nd h0123 (r6 5))) = true ∧
    accepts (verifyFreeSectorsProofG false [h0123] [r6 4, r6 5] [3] 6 (metaRoot six) (T.nd h0123 (r6 5))) = true ∧
    isOk ((applyFree six [3]).map metaRoot) (T.nd h0123 (r6 5)) = false ∧
    accepts (verifyFreeSectorsProofG true [h0123] [r6 4, r6 5] [4] 6 (metaRoot six) (T.nd h0123 (r6 5))) = true ∧
    accepts (verifyFreeSectorsProofG true [h0123] [r6 4, r6 5] [3] 6 (metaRoot six) (T.nd h0123 (r6 5))) = false := by
  refine ⟨by decide +kernel, by decide +kernel, by decide +kernel, by decide +kernel, by decide +kernel,
    by decide +kernel, by decide +kernel⟩

end C16
