import SiaProofs.Lemmas.MerkleRhpSector
import SiaProofs.Props.C16
/-!
# C16 — the 4-lane `sectorAccumulator` (SectorRoot, ReaderRoot, MetaRoot, BuildProof's subtree roots)

`SecAcc` models the algorithm of the SIMD code: rows of four subtree roots per height merged
eight-at-a-time (`SumNodes`), a four-node buffer, and `root()` folding the rows. `SInv sa ls` says
that the accumulator holds exactly the nodes `ls`. The AVX2 kernel itself, the `unsafe` casts and
the goroutine fan-out are compared by the harness, not modelled.
-/
set_option linter.unusedVariables false
set_option linter.unusedSectionVars false
namespace C16
open Sia.Rhp Sia.Rhp.HashOps

variable {H : Type} [HashOps H]

/-- any number of `appendNode` calls, then `root()`: the plain root -/
theorem c16_sector_accumulator_root (ls : List H) :
    (ls.foldl SecAcc.appendNode SecAcc.empty).root = metaRoot ls := by
  have := (SInv.empty (H := H)).foldl_appendNode ls
  simpa using this.root

example : (([T.lf [1], T.lf [2], T.lf [3], T.lf [4], T.lf [5]] : List T).foldl SecAcc.appendNode SecAcc.empty).root
    = metaRoot ([T.lf [1], T.lf [2], T.lf [3], T.lf [4], T.lf [5]] : List T) :=
  c16_sector_accumulator_root _

/-- any split of the input into `appendLeaves` / `appendNode` calls keeps the accumulator equal to
the plain tree, provided `appendLeaves` gets four or more leaves only when the count is a multiple
of four (the precondition every caller in core satisfies; without it the code overwrites its
buffer — the model reproduces that too, see the `rhp-saleaves` correspondence op) -/
theorem c16_sector_accumulator_split (sa : SecAcc H) (ls hs : List H) (h : H) (hi : SInv sa ls) :
    sa.root = metaRoot ls ∧
    SInv (sa.appendNode h) (ls ++ [h]) ∧
    ((sa.numLeaves % 4 = 0 ∨ hs.length < 4) → SInv (sa.appendLeafHashes hs) (ls ++ hs)) :=
  ⟨hi.root, hi.appendNode h, fun hp => SInv.appendLeafHashes hs.length hs sa ls rfl hi hp⟩

example : SInv (SecAcc.empty : SecAcc T) [] := SInv.empty

/-- `appendLeaves` of a whole buffer from the empty accumulator (ReaderRoot's and SectorRoot's
inner loop, BuildProof's `subtreeRoot`) -/
theorem c16_sector_accumulator_leaves (hs : List H) :
    ((SecAcc.empty : SecAcc H).appendLeafHashes hs).root = metaRoot hs := by
  have := SInv.appendLeafHashes hs.length hs SecAcc.empty [] rfl SInv.empty (Or.inl rfl)
  simpa using this.root

/-- Go's `MetaRoot` (sector accumulator up to `LeavesPerSector` roots, recursion above) is the
plain root, for every number of roots -/
theorem c16_go_metaroot (ls : List H) : goMetaRootSA ls = metaRoot ls :=
  c16_metaroot_split leavesPerSector _ (fun l _ => c16_sector_accumulator_root l) ls

/-- `SectorRoot` / `ReadSectorRoot` / `CachedSectorSubtrees`+`MetaRoot`: hashing `2^a`-leaf chunks
separately (one goroutine each) and taking `MetaRoot` of the chunk roots gives the plain root of
the whole sector -/
theorem c16_sector_root_parallel (a : Nat) (chunks : List (List H)) (hc : ∀ c ∈ chunks, c.length = 2 ^ a) :
    goMetaRootSA (chunks.map (fun c => ((SecAcc.empty : SecAcc H).appendLeafHashes c).root))
      = metaRoot chunks.flatten := by
  rw [c16_go_metaroot]
  have : chunks.map (fun c => ((SecAcc.empty : SecAcc H).appendLeafHashes c).root) = chunks.map metaRoot := by
    apply List.map_congr_left
    intro c _
    exact c16_sector_accumulator_leaves c
  rw [this]
  exact c16_metaroot_chunks a chunks hc

example : goMetaRootSA ([[T.lf [0], T.lf [1]], [T.lf [2], T.lf [3]]].map
      (fun c => ((SecAcc.empty : SecAcc T).appendLeafHashes c).root))
    = metaRoot ([T.lf [0], T.lf [1], T.lf [2], T.lf [3]] : List T) :=
  c16_sector_root_parallel 1 _ (by simp)

end C16
