import SiaProofs.Lemmas.TextJsonUpdate
import SiaProofs.Props.C20
/-!
# C20 — the JSON layer at tree level

`encoding/json` (bytes ↔ tree) is trusted.  Proved here, about `SiaModel/Text/JsonTree.lean`
and `JsonUpdate.lean`: every hand-written marshaler reads back what it writes
(`c20_json_tree_roundtrip_*`), the byte splice of `V2FileContractElementDiff` is the
tree operation "append one `type` field" (`c20_diff_splice`), and an update that went
through its tree refreshes proofs exactly as the original (`c20_update_json_equiv`) —
which is false for the encoding before repair fcf35a3 (`c20_update_json_old_cex`).
-/
namespace C20
open Sia.Text Sia.Text.Json Sia.ElemAcc

/-! ## ties: the JSON shapes the tree model is written for -/

/-- field names (and `omitempty`) of the leaf form and of the two update forms -/
theorem tie_update_json_fields :
    Gen.FactsText.elementLeafJSONTags = ["leafIndex", "merkleProof,omitempty", "elementHash", "spent"]
    ∧ Gen.FactsText.applyUpdateJSONTags = ["siacoinElements", "siafundElementDiffs", "fileContractElementDiffs",
        "v2FileContractElementDiffs", "attestationElements", "chainIndexElement",
        "updatedLeaves", "treeGrowth", "oldNumLeaves", "numLeaves"]
    ∧ Gen.FactsText.revertUpdateJSONTags = ["siacoinElements", "siafundElementDiffs", "fileContractElementDiffs",
        "v2FileContractElementDiffs", "attestationElements", "chainIndexElement", "updatedLeaves", "numLeaves"]
    ∧ Gen.FactsText.elementLeafCustomJSON = true := by decide

/-- `MarshalJSON` writes entry `i` of the `[64]` arrays under map key `i`, and `UnmarshalJSON`
    files every map entry under ITS KEY (`updated[i] = els`, `treeGrowth[i] = els`) — not by
    any property of the decoded leaves.  (`mapToTree` / `fileEntries` of the model.) -/
theorem tie_update_json_files_by_key :
    Gen.FactsText.applyUpdateWritesLeavesByIndex = true ∧ Gen.FactsText.applyUpdateWritesGrowthByIndex = true
    ∧ Gen.FactsText.revertUpdateWritesLeavesByIndex = true
    ∧ Gen.FactsText.applyUpdateFilesLeavesByKey = true ∧ Gen.FactsText.applyUpdateFilesGrowthByKey = true
    ∧ Gen.FactsText.revertUpdateFilesLeavesByKey = true := by decide

/-- the resolution kinds' `type` strings, and no resolution has a field called `type` of its
    own (so the splice adds the only one) -/
theorem tie_diff_no_type_field :
    Gen.FactsText.resolutionTags = ["renewal", "storageProof", "expiration"]
    ∧ "type" ∉ Gen.FactsText.renewalJSONTags ∧ "type" ∉ Gen.FactsText.v2StorageProofJSONTags
    ∧ Gen.FactsText.renewalJSONTags ≠ [] ∧ Gen.FactsText.v2StorageProofJSONTags ≠ [] := by decide

/-! ## ApplyUpdate / RevertUpdate -/

section
variable {H : Type} (encH : H → Json) (decH : Json → Option H) (zero : H)

theorem applyOfTree_obj (fs : List (Txt × Json)) : applyOfTree decH zero (.obj fs) =
    match fieldOr fs (key! "updatedLeaves") (fun _ => []) (mapOfTree (leafOfTree decH zero)),
          fieldOr fs (key! "treeGrowth") (fun _ => []) (mapOfTree decH),
          fieldOr fs (key! "oldNumLeaves") 0 (toNatBits 64), fieldOr fs (key! "numLeaves") 0 (toNatBits 64) with
    | some upd, some g, some o, some n => some ⟨upd, g, o, n⟩
    | _, _, _, _ => none := rfl

theorem revertOfTree_obj (fs : List (Txt × Json)) : revertOfTree decH zero (.obj fs) =
    match fieldOr fs (key! "updatedLeaves") (fun _ => []) (mapOfTree (leafOfTree decH zero)),
          fieldOr fs (key! "numLeaves") 0 (toNatBits 64) with
    | some upd, some n => some ⟨upd, n⟩
    | _, _ => none := rfl

/-- what Go's `[64]` arrays and `uint64` counters guarantee of an update -/
structure ApplyWF (u : ApplyUpdate H) : Prop where
  upd64 : ∀ k, 64 ≤ k → u.updated k = []
  growth64 : ∀ k, 64 ≤ k → u.growth k = []
  idx : ∀ k, ∀ l ∈ u.updated k, l.index < 2 ^ 64
  old : u.oldNumLeaves < 2 ^ 64
  new : u.numLeaves < 2 ^ 64

structure RevertWF (u : RevertUpdate H) : Prop where
  upd64 : ∀ k, 64 ≤ k → u.updated k = []
  idx : ∀ k, ∀ l ∈ u.updated k, l.index < 2 ^ 64
  new : u.numLeaves < 2 ^ 64

theorem mapToTree_ne_null {α : Type} (enc : α → Json) (f : Nat → List α) : mapToTree enc f ≠ .null := by
  simp [mapToTree]

/-- `ApplyUpdate`: UnmarshalJSON (MarshalJSON u) = u — the leaves come back WITH element
    hash, spent flag, index and proof, under the height they were filed at, and so do
    treeGrowth and both leaf counts.  The element diffs `diffs` are irrelevant. -/
theorem c20_json_tree_roundtrip_ApplyUpdate (hc : HashCodec encH decH) (diffs : List (Txt × Json))
    (u : ApplyUpdate H) (hwf : ApplyWF u) :
    applyOfTree decH zero (applyToTree encH diffs u) = some u := by
  obtain ⟨gU, hU, hUk⟩ := mapOfTree_mapToTree (leafToTree encH) (leafOfTree decH zero) u.updated
    (fun k l hl => leafOfTree_leafToTree encH decH zero hc l (hwf.idx k l hl))
  obtain ⟨gG, hG, hGk⟩ := mapOfTree_mapToTree encH decH u.growth (fun _ a _ => hc.law a)
  have eU : gU = u.updated := by
    funext k; rw [hUk k]; by_cases hk : k < 64
    · simp [hk]
    · simp [hk, hwf.upd64 k (by omega)]
  have eG : gG = u.growth := by
    funext k; rw [hGk k]; by_cases hk : k < 64
    · simp [hk]
    · simp [hk, hwf.growth64 k (by omega)]
  unfold applyToTree applyToTreeWith
  rw [applyOfTree_obj]
  rw [fieldOr_hit _ (key! "updatedLeaves") _ _ (mapToTree (leafToTree encH) u.updated) (getF_append_right (by simp [getF])) (mapToTree_ne_null _ _),
    fieldOr_hit _ (key! "treeGrowth") _ _ (mapToTree encH u.growth) (getF_append_right (by simp [getF])) (mapToTree_ne_null _ _),
    fieldOr_hit _ (key! "oldNumLeaves") _ _ (ofNat u.oldNumLeaves) (getF_append_right (by simp [getF])) (by simp [ofNat]),
    fieldOr_hit _ (key! "numLeaves") _ _ (ofNat u.numLeaves) (getF_append_right (by simp [getF])) (by simp [ofNat])]
  rw [hU, hG, toNatBits_ofNat 64 _ hwf.old, toNatBits_ofNat 64 _ hwf.new, eU, eG]

theorem c20_json_tree_roundtrip_RevertUpdate (hc : HashCodec encH decH) (diffs : List (Txt × Json))
    (u : RevertUpdate H) (hwf : RevertWF u) :
    revertOfTree decH zero (revertToTree encH diffs u) = some u := by
  obtain ⟨gU, hU, hUk⟩ := mapOfTree_mapToTree (leafToTree encH) (leafOfTree decH zero) u.updated
    (fun k l hl => leafOfTree_leafToTree encH decH zero hc l (hwf.idx k l hl))
  have eU : gU = u.updated := by
    funext k; rw [hUk k]; by_cases hk : k < 64
    · simp [hk]
    · simp [hk, hwf.upd64 k (by omega)]
  unfold revertToTree revertToTreeWith
  rw [revertOfTree_obj]
  rw [fieldOr_hit _ (key! "updatedLeaves") _ _ (mapToTree (leafToTree encH) u.updated) (getF_append_right (by simp [getF])) (mapToTree_ne_null _ _),
    fieldOr_hit _ (key! "numLeaves") _ _ (ofNat u.numLeaves) (getF_append_right (by simp [getF])) (by simp [ofNat])]
  rw [hU, toNatBits_ofNat 64 _ hwf.new, eU]

/-- The encoding BEFORE repair fcf35a3 (only the embedded StateElement of each leaf is
    written): what comes back is the update with every updated leaf's element hash zeroed
    and its spent flag cleared. -/
theorem c20_json_tree_old_ApplyUpdate (hc : HashCodec encH decH) (diffs : List (Txt × Json))
    (u : ApplyUpdate H) (hwf : ApplyWF u) :
    applyOfTree decH zero (applyToTreeOld encH diffs u)
      = some { u with updated := fun k => (u.updated k).map (fun l => { l with elem := zero, spent := false }) } := by
  obtain ⟨gU, hU, hUk⟩ := mapOfTree_mapToTree_gen (leafToTreeOld encH) (leafOfTree decH zero)
    (fun l => { l with elem := zero, spent := false }) u.updated
    (fun k l hl => leafOfTree_leafToTreeOld encH decH zero hc l (hwf.idx k l hl))
  obtain ⟨gG, hG, hGk⟩ := mapOfTree_mapToTree encH decH u.growth (fun _ a _ => hc.law a)
  have eU : gU = fun k => (u.updated k).map (fun l => { l with elem := zero, spent := false }) := by
    funext k; rw [hUk k]; by_cases hk : k < 64
    · simp [hk]
    · simp [hk, hwf.upd64 k (by omega)]
  have eG : gG = u.growth := by
    funext k; rw [hGk k]; by_cases hk : k < 64
    · simp [hk]
    · simp [hk, hwf.growth64 k (by omega)]
  unfold applyToTreeOld applyToTreeWith
  rw [applyOfTree_obj]
  rw [fieldOr_hit _ (key! "updatedLeaves") _ _ (mapToTree (leafToTreeOld encH) u.updated) (getF_append_right (by simp [getF])) (mapToTree_ne_null _ _),
    fieldOr_hit _ (key! "treeGrowth") _ _ (mapToTree encH u.growth) (getF_append_right (by simp [getF])) (mapToTree_ne_null _ _),
    fieldOr_hit _ (key! "oldNumLeaves") _ _ (ofNat u.oldNumLeaves) (getF_append_right (by simp [getF])) (by simp [ofNat]),
    fieldOr_hit _ (key! "numLeaves") _ _ (ofNat u.numLeaves) (getF_append_right (by simp [getF])) (by simp [ofNat])]
  rw [hU, hG, toNatBits_ofNat 64 _ hwf.old, toNatBits_ofNat 64 _ hwf.new, eU, eG]

variable [Hasher H]

/-- An `ApplyUpdate` that has been through its JSON tree refreshes every element proof
    exactly as the original does (`elementApplyUpdate.updateElementProof` of the
    accumulator model), for every tracked element `(idx, proof)`. -/
theorem c20_update_json_equiv (hc : HashCodec encH decH) (diffs : List (Txt × Json)) (u : ApplyUpdate H)
    (hwf : ApplyWF u) (idx : Nat) (proof : List H) :
    (applyOfTree decH zero (applyToTree encH diffs u)).map (fun u' => u'.updateElementProof idx proof)
      = some (u.updateElementProof idx proof) := by
  rw [c20_json_tree_roundtrip_ApplyUpdate encH decH zero hc diffs u hwf]
  rfl

/-- the same for a `RevertUpdate` -/
theorem c20_update_json_equiv_revert (hc : HashCodec encH decH) (diffs : List (Txt × Json)) (u : RevertUpdate H)
    (hwf : RevertWF u) (idx : Nat) (proof : List H) :
    (revertOfTree decH zero (revertToTree encH diffs u)).map (fun u' => u'.updateElementProof idx proof)
      = some (u.updateElementProof idx proof) := by
  rw [c20_json_tree_roundtrip_RevertUpdate encH decH zero hc diffs u hwf]
  rfl

end

/-! ### the guard for repair fcf35a3 -/

def okOf {α : Type} : Except String α → Option α
  | .ok x => some x
  | .error _ => none

theorem mh01 : mergeHeight 0 1 = 1 := by decide
theorem mh31 : mergeHeight 3 0 = 2 := by decide

section
variable {H : Type} [Hasher H] (encH : H → Json) (decH : Json → Option H) (zero : H)

/-- three leaves; leaf 1 (element hash `e`) is spent by the block, its proof is `[p]` -/
def uWit (e p : H) : ApplyUpdate H :=
  { updated := fun k => if k = 1 then [⟨e, true, 1, [p]⟩] else []
    growth := fun _ => [], oldNumLeaves := 3, numLeaves := 3 }

omit [Hasher H] in
theorem uWit_wf (e p : H) : ApplyWF (uWit e p) := by
  refine ⟨?_, ?_, ?_, by simp [uWit], by simp [uWit]⟩
  · intro k hk; simp [uWit]; omega
  · intro k _; rfl
  · intro k l hl
    simp only [uWit] at hl
    split at hl
    · simp at hl; subst hl; simp
    · simp at hl

/-- **Counter-theorem for the encoding before repair fcf35a3.**  A tracked element at leaf 0
    (proof `[x]`), refreshed by the ORIGINAL update, gets the hash of the spent leaf 1 —
    `leaf e 1 true` — as its sibling; refreshed by the update that went through the OLD
    JSON form (leaf index and proof only) it gets `leaf zero 1 false`, computed from a zero
    element hash and a cleared spent flag.  The two differ as soon as the leaf hash
    distinguishes them (any collision-free hash), so the refreshed proof cannot verify. -/
theorem c20_update_json_old_cex (hc : HashCodec encH decH) (e p x : H) :
    (applyOfTree decH zero (applyToTreeOld encH [] (uWit e p))).bind (fun u' => okOf (u'.updateElementProof 0 [x]))
      = some [Hasher.leaf zero 1 false]
    ∧ okOf ((uWit e p).updateElementProof 0 [x]) = some [Hasher.leaf e 1 true]
    ∧ (applyOfTree decH zero (applyToTree encH [] (uWit e p))).bind (fun u' => okOf (u'.updateElementProof 0 [x]))
      = some [Hasher.leaf e 1 true] := by
  have horig : okOf ((uWit e p).updateElementProof 0 [x]) = some [Hasher.leaf e 1 true] := by
    simp [uWit, ApplyUpdate.updateElementProof, updateProof, unassignedLeafIndex, mh01, mh31, okOf,
      Leaf.hash, Sia.ElemAcc.proofRoot, proofRootFrom, copyInto]
  refine ⟨?_, horig, ?_⟩
  · rw [c20_json_tree_old_ApplyUpdate encH decH zero hc [] (uWit e p) (uWit_wf e p)]
    simp [uWit, ApplyUpdate.updateElementProof, updateProof, unassignedLeafIndex, mh01, mh31, okOf,
      Leaf.hash, Sia.ElemAcc.proofRoot, proofRootFrom, copyInto]
  · rw [c20_json_tree_roundtrip_ApplyUpdate encH decH zero hc [] (uWit e p) (uWit_wf e p)]
    exact horig

end

/-- the hypotheses are satisfiable: natural numbers as hashes, written as JSON numbers -/
example : HashCodec (fun n : Nat => Json.num n) (fun j => match j with | .num i => some i.toNat | _ => none) :=
  ⟨fun h => by simp, fun h => by simp⟩

/-! ## the smaller hand-written forms -/

theorem ciOfTree_obj (fs : List (Txt × Json)) : ciOfTree (.obj fs) =
    match fieldOr fs (key! "height") 0 (toNatBits 64), fieldOr fs (key! "id") (List.replicate 32 0) (toHex 32) with
    | some h, some id => some ⟨h, id⟩
    | _, _ => none := rfl

/-- `types.ChainIndex` (object form) -/
theorem c20_json_tree_roundtrip_ChainIndex (ci : ChainIndex) (hh : ci.height < 2 ^ 64) (hid : ci.id.length = 32) :
    ciOfTree (ciToTree ci) = some ci := by
  unfold ciToTree
  rw [ciOfTree_obj,
    fieldOr_hit _ (key! "height") _ _ (ofNat ci.height) (by simp [getF]) (by simp [ofNat]),
    fieldOr_hit _ (key! "id") _ _ (ofHex ci.id) (by simp [getF]) (by simp [ofHex]),
    toNatBits_ofNat 64 _ hh, toHex_ofHex 32 _ hid]

/-- `consensus.Work` -/
theorem c20_json_tree_roundtrip_Work (n : Nat) (h : n < 2 ^ 256) : workOfTree (workToTree n) = some n := by
  simp [workOfTree, workToTree, c20_work_roundtrip n h]

/-- rhp/v4 `ProtocolVersion`: the string form, and the legacy array form denotes the same value -/
theorem c20_json_tree_roundtrip_ProtocolVersion (a b c : Nat) (ha : a < 256) (hb : b < 256) (hc : c < 256) :
    versionOfTree (versionToTree a b c) = some (a, b, c)
    ∧ versionOfTree (.arr [ofNat a, ofNat b, ofNat c]) = some (a, b, c) := by
  constructor
  · simp [versionOfTree, versionToTree, c20_version_roundtrip a b c ha hb hc]
  · simp [versionOfTree, toNatBits_ofNat 8 a (by omega), toNatBits_ofNat 8 b (by omega), toNatBits_ofNat 8 c (by omega)]

theorem spOfTree_obj (fs : List (Txt × Json)) : spOfTree (.obj fs) =
    match fieldOr fs (key! "parentID") (List.replicate 32 0) (toHex 32),
          fieldOr fs (key! "leaf") [] (fun j => match j with | .str s => some s | _ => none),
          fieldOr fs (key! "proof") none (toSlice (toHex 32)) with
    | some pid, some leaf, some proof =>
      if leaf.length ≠ 128 then none
      else match hexDec leaf with
        | some l => some ⟨pid, l, proof⟩
        | none => none
    | _, _, _ => none := rfl

/-- `types.StorageProof` (leaf as a 128-character hex string; a nil proof is null) -/
theorem c20_json_tree_roundtrip_StorageProof (sp : StorageProofV) (hp : sp.parentID.length = 32)
    (hl : sp.leaf.length = 64) (hpr : ∀ l, sp.proof = some l → ∀ h ∈ l, h.length = 32) :
    spOfTree (spToTree sp) = some sp := by
  obtain ⟨pid, leaf, proof⟩ := sp
  have hslice : toSlice (toHex 32) (ofSlice ofHex proof) = some proof :=
    toSlice_ofSlice ofHex (toHex 32) proof (fun l hl' a ha => toHex_ofHex 32 a (hpr l hl' a ha))
  unfold spToTree
  rw [spOfTree_obj,
    fieldOr_hit _ (key! "parentID") _ _ (ofHex pid) (by simp [getF]) (by simp [ofHex]),
    fieldOr_hit _ (key! "leaf") _ _ (.str (hexEnc leaf)) (by simp [getF]) (by simp)]
  cases proof with
  | none =>
    rw [fieldOr_null _ (key! "proof") _ _ (by simp [getF, ofSlice]), toHex_ofHex 32 _ hp]
    simp at hl
    simp [hexEnc_length, hl, hexDec_hexEnc]
  | some l =>
    rw [fieldOr_hit _ (key! "proof") _ _ (ofSlice ofHex (some l)) (by simp [getF]) (by simp [ofSlice]),
      toHex_ofHex 32 _ hp, hslice]
    simp at hl
    simp [hexEnc_length, hl, hexDec_hexEnc]

/-! ### ElementAccumulator: the `trees` list holds exactly the occupied slots -/

theorem assignTrees_map {H : Type} (zero : H) (t : Nat → H) : ∀ (is : List Nat), is.Nodup →
    ∀ j, assignTrees zero is (is.map t) j = if j ∈ is then t j else zero := by
  intro is
  induction is with
  | nil => intro _ j; simp [assignTrees]
  | cons i is ih =>
    intro hnd j
    have hi : i ∉ is := (List.nodup_cons.mp hnd).1
    simp only [List.map, assignTrees]
    by_cases hj : j = i
    · subst hj; simp
    · rw [if_neg hj, ih (List.nodup_cons.mp hnd).2 j]
      simp [hj]

theorem occupied_nodup (n : Nat) : (occupied n).Nodup := by
  unfold occupied
  exact List.Nodup.sublist List.filter_sublist List.nodup_range

theorem accOfTree_obj {H : Type} (zero : H) (decH : Json → Option H) (fs : List (Txt × Json)) :
    accOfTree zero decH (.obj fs) =
    match fieldOr fs (key! "numLeaves") 0 (toNatBits 64), fieldOr fs (key! "trees") none (toSlice decH) with
    | some n, some ts =>
      let roots := ts.getD []
      if roots.length ≠ (occupied n).length then none
      else some (n, assignTrees zero (occupied n) roots)
    | _, _ => none := rfl

/-- `consensus.ElementAccumulator`: reading back the written form gives the same leaf count
    and, at every height where the accumulator has a tree (bit set in `numLeaves`), the same
    root; the other 64 − popcount slots — stale in Go, never encoded — come back zero. -/
theorem c20_json_tree_roundtrip_ElementAccumulator {H : Type} (encH : H → Json) (decH : Json → Option H) (zero : H)
    (hc : HashCodec encH decH) (n : Nat) (hn : n < 2 ^ 64) (trees : Nat → H) :
    ∃ g, accOfTree zero decH (accToTree encH n trees) = some (n, g)
      ∧ ∀ i, g i = if i < 64 ∧ n.testBit i then trees i else zero := by
  refine ⟨assignTrees zero (occupied n) ((occupied n).map trees), ?_, ?_⟩
  · unfold accToTree
    have hdl : decList decH (((occupied n).map (fun i => encH (trees i)))) = some ((occupied n).map trees) := by
      have := decList_map_gen (fun i => encH (trees i)) decH trees (occupied n) (fun a _ => hc.law (trees a))
      exact this
    rw [accOfTree_obj,
      fieldOr_hit _ (key! "numLeaves") _ _ (ofNat n) (by simp [getF]) (by simp [ofNat]),
      fieldOr_hit _ (key! "trees") _ _ (.arr ((occupied n).map (fun i => encH (trees i)))) (by simp [getF]) (by simp),
      toNatBits_ofNat 64 n hn, toSlice, hdl]
    simp
  · intro i
    rw [assignTrees_map zero trees (occupied n) (occupied_nodup n) i]
    simp [occupied]

/-! ## SpendPolicy (object form) and SatisfiedPolicy -/

section
variable (Hh : List UInt8 → List UInt8) (hi : Nat → Bool)

theorem keysOfTree_keysToTree (ks : List UnlockKey) (h : ∀ k ∈ ks, k.alg.length = 16) :
    keysOfTree (keysToTree hi ks) = some ks := by
  cases ks with
  | nil => rfl
  | cons k ks =>
    simp only [keysToTree, keysOfTree]
    exact decList_map (ukToTree hi) ukOfTree (k :: ks) (fun a ha => by
      simp [ukToTree, ukOfTree, parseUk_ukText hi 16 a (h a ha)])

theorem ucOfFields_def (fs : List (Txt × Json)) : ucOfFields fs =
    match fieldOr fs (key! "timelock") 0 (toNatBits 64), fieldOr fs (key! "publicKeys") [] keysOfTree,
          fieldOr fs (key! "signaturesRequired") 0 (toNatBits 64) with
    | some tl, some ks, some sg => some (tl, ks, sg)
    | _, _, _ => none := rfl

theorem ucOfFields_ucFields (tl sg : Nat) (ks : List UnlockKey) (htl : tl < 2 ^ 64) (hsg : sg < 2 ^ 64)
    (h : ∀ k ∈ ks, k.alg.length = 16) : ucOfFields (ucFields hi tl ks sg) = some (tl, ks, sg) := by
  cases ks with
  | nil =>
    have e : ucFields hi tl [] sg = [(key! "timelock", ofNat tl), (key! "publicKeys", keysToTree hi []),
        (key! "signaturesRequired", ofNat sg)] := rfl
    rw [e, ucOfFields_def]
    rw [fieldOr_hit _ (key! "timelock") _ _ (ofNat tl) (by simp [getF]) (by simp [ofNat]),
      fieldOr_hit _ (key! "signaturesRequired") _ _ (ofNat sg) (by simp [getF]) (by simp [ofNat]),
      toNatBits_ofNat 64 _ htl, toNatBits_ofNat 64 _ hsg]
    rw [fieldOr_null _ (key! "publicKeys") _ _ (by simp [getF, keysToTree])]
  | cons k ks =>
    have hk := keysOfTree_keysToTree hi (k :: ks) h
    have e : ucFields hi tl (k :: ks) sg = [(key! "timelock", ofNat tl), (key! "publicKeys", keysToTree hi (k :: ks)),
        (key! "signaturesRequired", ofNat sg)] := rfl
    rw [e, ucOfFields_def]
    rw [fieldOr_hit _ (key! "timelock") _ _ (ofNat tl) (by simp [getF]) (by simp [ofNat]),
      fieldOr_hit _ (key! "signaturesRequired") _ _ (ofNat sg) (by simp [getF]) (by simp [ofNat]),
      toNatBits_ofNat 64 _ htl, toNatBits_ofNat 64 _ hsg]
    rw [fieldOr_hit _ (key! "publicKeys") _ _ (keysToTree hi (k :: ks)) (by simp [getF]) (by simp [keysToTree]), hk]

theorem ucOfTree_obj (fs : List (Txt × Json)) : ucOfTree (.obj fs) = ucOfFields fs := rfl

theorem policyOfTree_obj (f : Nat) (fs : List (Txt × Json)) : policyOfTree Hh (f + 1) (.obj fs) =
    match getF (key! "type") fs with
    | some (.str typ) =>
      match getF (key! "policy") fs with
      | some body => policyBody Hh (policyListOfTree Hh f) typ body
      | none => none
    | _ => none := by
  rfl

theorem policyOfTree_two (f : Nat) (typ : Txt) (body : Json) :
    policyOfTree Hh (f + 1) (.obj [(key! "type", .str typ), (key! "policy", body)])
      = policyBody Hh (policyListOfTree Hh f) typ body := by
  rw [policyOfTree_obj]
  have h1 : getF (key! "type") [(key! "type", Json.str typ), (key! "policy", body)] = some (.str typ) := by simp [getF]
  have h2 : getF (key! "policy") [(key! "type", Json.str typ), (key! "policy", body)] = some body := by simp [getF]
  rw [h1]
  simp only [h2]

theorem pk_prefix_eq : Gen.FactsText.pkPrefixBytes = Gen.FactsText.pkAlgBytes ++ [58] := by decide

mutual
  theorem policyOfTree_policyToTree (hH : ∀ x, 6 ≤ (Hh x).length) : ∀ (p : Policy) (f : Nat), p.WF → p.size ≤ f →
      policyOfTree Hh f (policyToTree Hh hi p) = some p
    | .above h, f, hwf, hf => by
      obtain ⟨f', rfl⟩ : ∃ k, f = k + 1 := ⟨f - 1, by simp [Policy.size] at hf; omega⟩
      simp only [policyToTree]
      rw [policyOfTree_two]
      unfold policyBody
      simp [toNatBits_ofNat 64 h hwf]
    | .after t, f, hwf, hf => by
      obtain ⟨f', rfl⟩ : ∃ k, f = k + 1 := ⟨f - 1, by simp [Policy.size] at hf; omega⟩
      simp only [policyToTree]
      rw [policyOfTree_two]
      unfold policyBody
      simp only [kw_ne.1, if_false, if_true]
      have : -(2 ^ 63 : Int) ≤ t ∧ t < 2 ^ 63 := hwf
      rw [if_pos this]
    | .pk k, f, hwf, hf => by
      obtain ⟨f', rfl⟩ : ∃ k, f = k + 1 := ⟨f - 1, by simp [Policy.size] at hf; omega⟩
      simp only [policyToTree]
      rw [policyOfTree_two]
      unfold policyBody
      simp only [kw_ne.2.1, kw_ne.2.2.1, if_false, if_true]
      rw [pk_prefix_eq, (c20_pk_prefix Gen.FactsText.pkAlgBytes 32 alg_no_colon).1 k hwf]
      rfl
    | .hash k, f, hwf, hf => by
      obtain ⟨f', rfl⟩ : ∃ k, f = k + 1 := ⟨f - 1, by simp [Policy.size] at hf; omega⟩
      simp only [policyToTree]
      rw [policyOfTree_two]
      unfold policyBody
      simp only [kw_ne.2.2.2.1, kw_ne.2.2.2.2.1, kw_ne.2.2.2.2.2.1, if_false, if_true,
        toHex_ofHex 32 k hwf]
      rfl
    | .opaque a, f, hwf, hf => by
      obtain ⟨f', rfl⟩ : ∃ k, f = k + 1 := ⟨f - 1, by simp [Policy.size] at hf; omega⟩
      have n := kw_ne.2.2.2.2.2.2.2.2.2.2
      simp only [policyToTree]
      rw [policyOfTree_two]
      unfold policyBody
      simp only [n.1, n.2.1, n.2.2.1, n.2.2.2.1, n.2.2.2.2.1, if_false, if_true,
        c20_address_roundtrip Hh 32 6 hH a hwf]
      rfl
    | .uc tl ks sg, f, hwf, hf => by
      obtain ⟨f', rfl⟩ : ∃ k, f = k + 1 := ⟨f - 1, by simp [Policy.size] at hf; omega⟩
      have n := kw_ne.2.2.2.2.2.2.2.2.2.2.2.2.2.2.2
      simp only [policyToTree]
      rw [policyOfTree_two]
      unfold policyBody
      simp only [n.1, n.2.1, n.2.2.1, n.2.2.2.1, n.2.2.2.2.1, n.2.2.2.2.2, if_false, if_true,
        ucOfFields_ucFields hi tl sg ks hwf.1 hwf.2.1 hwf.2.2]
      rfl
    | .thresh n ps, f, hwf, hf => by
      obtain ⟨f', rfl⟩ : ∃ k, f = k + 1 := ⟨f - 1, by simp [Policy.size] at hf; omega⟩
      have hn := kw_ne.2.2.2.2.2.2
      simp only [policyToTree]
      rw [policyOfTree_two]
      unfold policyBody
      simp only [hn.1, hn.2.1, hn.2.2.1, hn.2.2.2.1, if_false, if_true]
      rw [fieldOr_hit _ (key! "n") _ _ (ofNat n) (by simp [getF]) (by simp [ofNat]), toNatBits_ofNat 8 n hwf.1]
      match ps, hwf.2, hf with
      | .nil, _, _ =>
        have : getF (key! "of") [(key! "n", ofNat n), (key! "of", policyListToTree Hh hi .nil)] = some .null := by
          simp [getF, policyListToTree]
        rw [this]
      | .cons p ps', hw2, hf2 =>
        have : getF (key! "of") [(key! "n", ofNat n), (key! "of", policyListToTree Hh hi (.cons p ps'))]
            = some (.arr (policyItems Hh hi (.cons p ps'))) := by
          simp [getF, policyListToTree, policyItems]
        rw [this]
        simp only []
        rw [policyItems_roundtrip hH (.cons p ps') f' hw2 (by simp [Policy.size] at hf2; omega)]
        rfl
  theorem policyItems_roundtrip (hH : ∀ x, 6 ≤ (Hh x).length) : ∀ (ps : PolicyList) (f : Nat), ps.WF → ps.size ≤ f →
      policyListOfTree Hh f (policyItems Hh hi ps) = some ps
    | .nil, f, _, hf => by
      obtain ⟨f', rfl⟩ : ∃ k, f = k + 1 := ⟨f - 1, by simp [PolicyList.size] at hf; omega⟩
      simp [policyItems, policyListOfTree]
    | .cons p ps, f, hwf, hf => by
      obtain ⟨f', rfl⟩ : ∃ k, f = k + 1 := ⟨f - 1, by simp [PolicyList.size] at hf; omega⟩
      simp only [policyItems, policyListOfTree]
      rw [policyOfTree_policyToTree hH p f' hwf.1 (by simp [PolicyList.size] at hf; omega),
        policyItems_roundtrip hH ps f' hwf.2 (by simp [PolicyList.size] at hf; omega)]
end

/-- `types.SpendPolicy`, object form `{"type","policy"}`: every kind, nested thresholds, `uc`
    with any keys; `Hh` is the address checksum hash (any function with ≥ 6 bytes of output) -/
theorem c20_json_tree_roundtrip_SpendPolicy (hH : ∀ x, 6 ≤ (Hh x).length) (p : Policy) (hwf : p.WF) :
    policyOfTree Hh p.size (policyToTree Hh hi p) = some p :=
  policyOfTree_policyToTree Hh hi hH p p.size hwf (Nat.le_refl _)

end

/-! ## outputs, revisions, inputs -/

section
variable (Hh : List UInt8 → List UInt8) (hi : Nat → Bool)

theorem outputOfFields_def (fs : List (Txt × Json)) : outputOfFields Hh fs =
    match fieldOr fs (key! "value") 0 toCurrency, fieldOr fs (key! "address") (List.replicate 32 0) (addrOfTree Hh) with
    | some v, some a => some ⟨v, a⟩
    | _, _ => none := rfl

theorem addrOfTree_str (hH : ∀ x, 6 ≤ (Hh x).length) (a : List UInt8) (ha : a.length = 32) :
    addrOfTree Hh (.str (addrStringH Hh 6 a)) = some a := by
  simp [addrOfTree, c20_address_roundtrip Hh 32 6 hH a ha]

/-- `SiacoinOutput` (default form), also with an extra leading `id` field as
    Transaction.MarshalJSON writes it -/
theorem outputOfTree_outputToTree (hH : ∀ x, 6 ≤ (Hh x).length) (o : OutputV) (hv : o.value < 2 ^ 128)
    (ha : o.address.length = 32) :
    outputOfTree Hh (outputToTree Hh o) = some o
    ∧ ∀ idv, outputOfTree Hh (withField (key! "id") idv (outputToTree Hh o)) = some o := by
  obtain ⟨v, a⟩ := o
  have e : outputFields Hh ⟨v, a⟩ = [(key! "value", ofCurrency v), (key! "address", .str (addrStringH Hh 6 a))] := rfl
  constructor
  · show outputOfFields Hh (outputFields Hh ⟨v, a⟩) = _
    rw [e, outputOfFields_def,
      fieldOr_hit _ (key! "value") _ _ (ofCurrency v) (by simp [getF]) (by simp [ofCurrency]),
      fieldOr_hit _ (key! "address") _ _ (.str (addrStringH Hh 6 a)) (by simp [getF]) (by simp),
      toCurrency_ofCurrency v hv, addrOfTree_str Hh hH a ha]
  · intro idv
    show outputOfFields Hh ((key! "id", idv) :: outputFields Hh ⟨v, a⟩) = _
    rw [e, outputOfFields_def,
      fieldOr_hit _ (key! "value") _ _ (ofCurrency v) (by simp [getF]) (by simp [ofCurrency]),
      fieldOr_hit _ (key! "address") _ _ (.str (addrStringH Hh 6 a)) (by simp [getF]) (by simp),
      toCurrency_ofCurrency v hv, addrOfTree_str Hh hH a ha]

theorem revisionOfTree_obj (fs : List (Txt × Json)) : revisionOfTree Hh (.obj fs) =
    (match fieldOr fs (key! "parentID") (List.replicate 32 0) (toHex 32),
          fieldOr fs (key! "unlockConditions") (0, [], 0) ucOfTree,
          fieldOr fs (key! "filesize") 0 (toNatBits 64), fieldOr fs (key! "fileMerkleRoot") (List.replicate 32 0) (toHex 32),
          fieldOr fs (key! "windowStart") 0 (toNatBits 64), fieldOr fs (key! "windowEnd") 0 (toNatBits 64),
          fieldOr fs (key! "validProofOutputs") none (toSlice (outputOfTree Hh)),
          fieldOr fs (key! "missedProofOutputs") none (toSlice (outputOfTree Hh)),
          fieldOr fs (key! "unlockHash") (List.replicate 32 0) (addrOfTree Hh), fieldOr fs (key! "revisionNumber") 0 (toNatBits 64) with
    | some pid, some (tl, ks, sg), some fsz, some root, some ws, some we, some vo, some mo, some uh, some rn =>
      some ⟨pid, tl, ks, sg, fsz, root, ws, we, payoutSentinel, vo, mo, uh, rn⟩
    | _, _, _, _, _, _, _, _, _, _ => none) := rfl

/-- the values a revision can hold -/
structure RevisionWF (r : RevisionV) : Prop where
  pid : r.parentID.length = 32
  tl : r.timelock < 2 ^ 64
  keys : ∀ k ∈ r.keys, k.alg.length = 16
  sg : r.sigsRequired < 2 ^ 64
  fsz : r.filesize < 2 ^ 64
  root : r.fileMerkleRoot.length = 32
  ws : r.windowStart < 2 ^ 64
  we : r.windowEnd < 2 ^ 64
  vo : ∀ l, r.validOutputs = some l → ∀ o ∈ l, o.value < 2 ^ 128 ∧ o.address.length = 32
  mo : ∀ l, r.missedOutputs = some l → ∀ o ∈ l, o.value < 2 ^ 128 ∧ o.address.length = 32
  uh : r.unlockHash.length = 32
  rn : r.revisionNumber < 2 ^ 64

theorem slice_field {α : Type} (enc : α → Json) (dec : Json → Option α) (fs : List (Txt × Json)) (k : Txt)
    (s : Option (List α)) (hget : getF k fs = some (ofSlice enc s))
    (hlaw : ∀ l, s = some l → ∀ a ∈ l, dec (enc a) = some a) :
    fieldOr fs k none (toSlice dec) = some s := by
  cases s with
  | none => exact fieldOr_null fs k none _ (by simpa [ofSlice] using hget)
  | some l =>
    rw [fieldOr_hit fs k none _ (ofSlice enc (some l)) hget (by simp [ofSlice])]
    exact toSlice_ofSlice enc dec (some l) hlaw

/-- `types.FileContractRevision`: the payout is not written; whatever it was, it reads back
    as the sentinel `2^128 − 1` — every other field is preserved.  (So the round trip is the
    identity exactly on revisions whose payout already is the sentinel, which is what the
    decoders — binary and JSON — always produce.) -/
theorem c20_json_tree_roundtrip_FileContractRevision (hH : ∀ x, 6 ≤ (Hh x).length) (r : RevisionV) (hwf : RevisionWF r) :
    revisionOfTree Hh (revisionToTree Hh hi r) = some { r with payout := payoutSentinel } := by
  obtain ⟨pid, tl, ks, sg, fsz, root, ws, we, payout, vo, mo, uh, rn⟩ := r
  have hvo := slice_field (outputToTree Hh) (outputOfTree Hh)
  unfold revisionToTree
  rw [revisionOfTree_obj]
  rw [fieldOr_hit _ (key! "parentID") _ _ (ofHex pid) (by simp [getF]) (by simp [ofHex]),
    fieldOr_hit _ (key! "unlockConditions") _ _ (.obj (ucFields hi tl ks sg)) (by simp [getF]) (by simp),
    fieldOr_hit _ (key! "filesize") _ _ (ofNat fsz) (by simp [getF]) (by simp [ofNat]),
    fieldOr_hit _ (key! "fileMerkleRoot") _ _ (ofHex root) (by simp [getF]) (by simp [ofHex]),
    fieldOr_hit _ (key! "windowStart") _ _ (ofNat ws) (by simp [getF]) (by simp [ofNat]),
    fieldOr_hit _ (key! "windowEnd") _ _ (ofNat we) (by simp [getF]) (by simp [ofNat]),
    hvo _ (key! "validProofOutputs") vo (by simp [getF])
      (fun l hl o ho => (outputOfTree_outputToTree Hh hH o (hwf.vo l hl o ho).1 (hwf.vo l hl o ho).2).1),
    hvo _ (key! "missedProofOutputs") mo (by simp [getF])
      (fun l hl o ho => (outputOfTree_outputToTree Hh hH o (hwf.mo l hl o ho).1 (hwf.mo l hl o ho).2).1),
    fieldOr_hit _ (key! "unlockHash") _ _ (.str (addrStringH Hh 6 uh)) (by simp [getF]) (by simp),
    fieldOr_hit _ (key! "revisionNumber") _ _ (ofNat rn) (by simp [getF]) (by simp [ofNat])]
  rw [toHex_ofHex 32 _ hwf.pid, ucOfTree_obj, ucOfFields_ucFields hi tl sg ks hwf.tl hwf.sg hwf.keys,
    toNatBits_ofNat 64 _ hwf.fsz, toHex_ofHex 32 _ hwf.root, toNatBits_ofNat 64 _ hwf.ws,
    toNatBits_ofNat 64 _ hwf.we, addrOfTree_str Hh hH uh hwf.uh, toNatBits_ofNat 64 _ hwf.rn]

theorem inputOfTree_obj (fs : List (Txt × Json)) : inputOfTree (.obj fs) =
    match fieldOr fs (key! "parentID") (List.replicate 32 0) (toHex 32),
          fieldOr fs (key! "unlockConditions") (0, [], 0) ucOfTree with
    | some pid, some (tl, ks, sg) => some ⟨pid, tl, ks, sg⟩
    | _, _ => none := rfl

/-- `SiacoinInput` / `SiafundInput`: the extra `address` field (whatever `unlockHash`
    computes) is written and ignored on input -/
theorem c20_json_tree_roundtrip_SiacoinInput (unlockHash : InputV → List UInt8) (i : InputV)
    (hp : i.parentID.length = 32) (htl : i.timelock < 2 ^ 64) (hsg : i.sigsRequired < 2 ^ 64)
    (hk : ∀ k ∈ i.keys, k.alg.length = 16) :
    inputOfTree (inputToTree Hh hi unlockHash i) = some i := by
  obtain ⟨pid, tl, ks, sg⟩ := i
  unfold inputToTree
  rw [inputOfTree_obj,
    fieldOr_hit _ (key! "parentID") _ _ (ofHex pid) (by simp [getF]) (by simp [ofHex]),
    fieldOr_hit _ (key! "unlockConditions") _ _ (.obj (ucFields hi tl ks sg)) (by simp [getF]) (by simp)]
  rw [toHex_ofHex 32 _ hp, ucOfTree_obj, ucOfFields_ucFields hi tl sg ks htl hsg hk]

end

/-! ## SatisfiedPolicy -/

section
variable (Hh : List UInt8 → List UInt8) (hi : Nat → Bool)

theorem satisfiedOfTree_obj (fuel : Nat) (fs : List (Txt × Json)) : satisfiedOfTree Hh fuel (.obj fs) =
    match (getF (key! "policy") fs).bind (policyOfTree Hh fuel),
          fieldOr fs (key! "signatures") [] (fun j => (toSlice (toHex 64) j).map (·.getD [])),
          fieldOr fs (key! "preimages") [] (fun j => (toSlice (toHexStrict 32) j).map (·.getD [])) with
    | some p, some sigs, some pre => some ⟨p, sigs, pre⟩
    | _, _, _ => none := rfl

theorem hexList (n : Nat) (l : List (List UInt8)) (h : ∀ x ∈ l, x.length = n) :
    Option.map (fun x => x.getD []) (toSlice (toHex n) (Json.arr (l.map ofHex))) = some l := by
  rw [toSlice, decList_map ofHex (toHex n) l (fun a ha => toHex_ofHex n a (h a ha))]
  rfl

theorem hexListStrict (n : Nat) (l : List (List UInt8)) (h : ∀ x ∈ l, x.length = n) :
    Option.map (fun x => x.getD []) (toSlice (toHexStrict n) (Json.arr (l.map ofHex))) = some l := by
  rw [toSlice, decList_map ofHex (toHexStrict n) l (fun a ha => toHex_ofHex n a (h a ha))]
  rfl

/-- `types.SatisfiedPolicy`: preimages as hex strings; empty signature / preimage lists are
    omitted and read back as empty -/
theorem c20_json_tree_roundtrip_SatisfiedPolicy (hH : ∀ x, 6 ≤ (Hh x).length) (sp : SatisfiedV) (hwf : sp.policy.WF)
    (hs : ∀ x ∈ sp.signatures, x.length = 64) (hp : ∀ x ∈ sp.preimages, x.length = 32) :
    satisfiedOfTree Hh sp.policy.size (satisfiedToTree Hh hi sp) = some sp := by
  obtain ⟨pol, sigs, pre⟩ := sp
  have hpol := c20_json_tree_roundtrip_SpendPolicy Hh hi hH pol hwf
  cases sigs with
  | nil =>
    cases pre with
    | nil =>
      have e : satisfiedToTree Hh hi ⟨pol, [], []⟩ = .obj [(key! "policy", policyToTree Hh hi pol)] := by
        simp [satisfiedToTree, omitEmpty]
      rw [e, satisfiedOfTree_obj,
        fieldOr_miss _ (key! "signatures") _ _ (by simp [getF]), fieldOr_miss _ (key! "preimages") _ _ (by simp [getF])]
      have : getF (key! "policy") [(key! "policy", policyToTree Hh hi pol)] = some (policyToTree Hh hi pol) := by simp [getF]
      rw [this, Option.bind_some, hpol]
    | cons q qs =>
      have e : satisfiedToTree Hh hi ⟨pol, [], q :: qs⟩ = .obj [(key! "policy", policyToTree Hh hi pol),
          (key! "preimages", .arr ((q :: qs).map ofHex))] := by
        simp [satisfiedToTree, omitEmpty]
      rw [e, satisfiedOfTree_obj,
        fieldOr_miss _ (key! "signatures") _ _ (by simp [getF]),
        fieldOr_hit _ (key! "preimages") _ _ (.arr ((q :: qs).map ofHex)) (by simp [getF]) (by simp)]
      have : getF (key! "policy") [(key! "policy", policyToTree Hh hi pol), (key! "preimages", .arr ((q :: qs).map ofHex))]
          = some (policyToTree Hh hi pol) := by simp [getF]
      rw [this, Option.bind_some, hpol, hexListStrict 32 _ hp]
  | cons g gs =>
    cases pre with
    | nil =>
      have e : satisfiedToTree Hh hi ⟨pol, g :: gs, []⟩ = .obj [(key! "policy", policyToTree Hh hi pol),
          (key! "signatures", .arr ((g :: gs).map ofHex))] := by
        simp [satisfiedToTree, omitEmpty]
      rw [e, satisfiedOfTree_obj,
        fieldOr_hit _ (key! "signatures") _ _ (.arr ((g :: gs).map ofHex)) (by simp [getF]) (by simp),
        fieldOr_miss _ (key! "preimages") _ _ (by simp [getF])]
      have : getF (key! "policy") [(key! "policy", policyToTree Hh hi pol), (key! "signatures", .arr ((g :: gs).map ofHex))]
          = some (policyToTree Hh hi pol) := by simp [getF]
      rw [this, Option.bind_some, hpol, hexList 64 _ hs]
    | cons q qs =>
      have e : satisfiedToTree Hh hi ⟨pol, g :: gs, q :: qs⟩ = .obj [(key! "policy", policyToTree Hh hi pol),
          (key! "signatures", .arr ((g :: gs).map ofHex)), (key! "preimages", .arr ((q :: qs).map ofHex))] := by
        simp [satisfiedToTree, omitEmpty]
      rw [e, satisfiedOfTree_obj,
        fieldOr_hit _ (key! "signatures") _ _ (.arr ((g :: gs).map ofHex)) (by simp [getF]) (by simp),
        fieldOr_hit _ (key! "preimages") _ _ (.arr ((q :: qs).map ofHex)) (by simp [getF]) (by simp)]
      have : getF (key! "policy") [(key! "policy", policyToTree Hh hi pol), (key! "signatures", .arr ((g :: gs).map ofHex)),
          (key! "preimages", .arr ((q :: qs).map ofHex))] = some (policyToTree Hh hi pol) := by simp [getF]
      rw [this, Option.bind_some, hpol, hexList 64 _ hs, hexListStrict 32 _ hp]

end

/-! ## Transaction / V2Transaction: the emitted `id` fields are ignored on input -/

/-- a decoder of a field list that does not look at field `k` -/
def IgnoresFront {ρ : Type} (dec : List (Txt × Json) → Option ρ) (k : Txt) : Prop :=
  ∀ v fs, dec ((k, v) :: fs) = dec fs

theorem outs_field {α : Type} (enc : α → Json) (dec : Json → Option α) (l : List (Json × α))
    (hid : ∀ idv a, a ∈ l.map (·.2) → dec (withField (key! "id") idv (enc a)) = some a) :
    Option.map (fun x => x.getD [])
      (toSlice dec (Json.arr ((l.map (fun (x : Json × α) => (x.1, enc x.2))).map (fun (x : Json × Json) => withField (key! "id") x.1 x.2))))
      = some (l.map (·.2)) := by
  rw [toSlice]
  have : decList dec ((l.map (fun (x : Json × α) => (x.1, enc x.2))).map (fun (x : Json × Json) => withField (key! "id") x.1 x.2))
      = some (l.map (·.2)) := by
    induction l with
    | nil => rfl
    | cons x xs ih =>
      simp only [List.map, decList]
      rw [hid x.1 x.2 (by simp), ih (fun idv a ha => hid idv a (by simp at ha ⊢; right; exact ha))]
  rw [this]
  rfl

/-- `Transaction.MarshalJSON` / `V2Transaction.MarshalJSON` (v2: the two output lists are always
    written): reading the tree back gives the outputs and the remaining fields — the
    transaction `id` and every output `id` are ignored.  Stated for any lawful encodings of an
    output and of the remaining fields, as long as their decoders look fields up by name
    (ignore an `id` in front; the rest-decoder also ignores the two output lists) and the
    remaining fields do not themselves use those three names. -/
theorem c20_json_tree_roundtrip_Transaction {α β ρ : Type} (omitE : Bool) (idT : Json)
    (encA : α → Json) (decA : Json → Option α) (encB : β → Json) (decB : Json → Option β)
    (encR : ρ → List (Txt × Json)) (decR : List (Txt × Json) → Option ρ)
    (scos : List (Json × α)) (sfos : List (Json × β)) (r : ρ)
    (hA : ∀ idv a, a ∈ scos.map (·.2) → decA (withField (key! "id") idv (encA a)) = some a)
    (hB : ∀ idv b, b ∈ sfos.map (·.2) → decB (withField (key! "id") idv (encB b)) = some b)
    (hR : decR (encR r) = some r)
    (hi1 : IgnoresFront decR (key! "id")) (hi2 : IgnoresFront decR (key! "siacoinOutputs"))
    (hi3 : IgnoresFront decR (key! "siafundOutputs"))
    (hn1 : getF (key! "siacoinOutputs") (encR r) = none) (hn2 : getF (key! "siafundOutputs") (encR r) = none) :
    txnOfTree decA decB decR
      (txnToTree omitE idT (scos.map (fun x => (x.1, encA x.2))) (sfos.map (fun x => (x.1, encB x.2))) (encR r))
      = some (scos.map (·.2), sfos.map (·.2), r) := by
  have hA' := outs_field encA decA scos hA
  have hB' := outs_field encB decB sfos hB
  have key_ne : (key! "siafundOutputs" : Txt) ≠ key! "siacoinOutputs" := by decide
  have key_ne' : (key! "siacoinOutputs" : Txt) ≠ key! "siafundOutputs" := by decide
  have id1 : (key! "id" : Txt) ≠ key! "siacoinOutputs" := by decide
  have id2 : (key! "id" : Txt) ≠ key! "siafundOutputs" := by decide
  have cases_of : ∀ {γ : Type} (enc : γ → Json) (k : Txt) (l : List (Json × γ)),
      (outsField omitE k (l.map (fun x => (x.1, enc x.2))) = [] ∧ l = []) ∨
      outsField omitE k (l.map (fun x => (x.1, enc x.2)))
        = [(k, .arr ((l.map (fun (x : Json × γ) => (x.1, enc x.2))).map (fun (x : Json × Json) => withField (key! "id") x.1 x.2)))] := by
    intro γ enc k l
    unfold outsField
    by_cases h : (omitE = true ∧ (l.map (fun x => (x.1, enc x.2))).isEmpty = true)
    · left; exact ⟨if_pos h, by simpa using h.2⟩
    · right; exact if_neg h
  unfold txnToTree
  rcases cases_of encA (key! "siacoinOutputs") scos with ⟨ea, rfl⟩ | ea <;>
  rcases cases_of encB (key! "siafundOutputs") sfos with ⟨eb, rfl⟩ | eb <;>
  rw [ea, eb] <;> simp only [List.nil_append, List.cons_append, List.map] <;> simp only [txnOfTree]
  · rw [fieldOr_miss _ (key! "siacoinOutputs") _ _ (by rw [getF_cons_ne id1]; exact hn1),
      fieldOr_miss _ (key! "siafundOutputs") _ _ (by rw [getF_cons_ne id2]; exact hn2), hi1, hR]
  · rw [fieldOr_miss _ (key! "siacoinOutputs") _ _ (by rw [getF_cons_ne id1, getF_cons_ne key_ne]; exact hn1),
      fieldOr_hit _ (key! "siafundOutputs") _ _ _ (by rw [getF_cons_ne id2]; exact getF_cons_self hn2) (by simp),
      hi1, hi3, hR, hB']
  · rw [fieldOr_hit _ (key! "siacoinOutputs") _ _ _ (by rw [getF_cons_ne id1]; exact getF_cons_self hn1) (by simp),
      fieldOr_miss _ (key! "siafundOutputs") _ _ (by rw [getF_cons_ne id2, getF_cons_ne key_ne']; exact hn2),
      hi1, hi2, hR, hA']
  · rw [fieldOr_hit _ (key! "siacoinOutputs") _ _ _ (by
          rw [getF_cons_ne id1]
          exact getF_cons_self (by rw [getF_cons_ne key_ne]; exact hn1)) (by simp),
      fieldOr_hit _ (key! "siafundOutputs") _ _ _ (by
          rw [getF_cons_ne id2, getF_cons_ne key_ne']; exact getF_cons_self hn2) (by simp),
      hi1, hi2, hi3, hR, hA', hB']

/-! ## V2FileContractResolution (the `type` tag) and the diff's byte splice -/

theorem ofTag_tag (k : ResKind) : ResKind.ofTag k.tag = some k := by
  cases k <;> decide

/-- `types.V2FileContractResolution`: `{"parent","type","resolution"}`; the tag written for a
    resolution kind selects the same kind when read back.  Stated for any lawful encodings of
    the parent element and of the three resolution bodies. -/
theorem c20_json_tree_roundtrip_V2FileContractResolution {P R : Type}
    (encP : P → Json) (decP : Json → Option P) (encB : ResKind → R → Json) (decB : ResKind → Json → Option R)
    (p : P) (k : ResKind) (r : R) (hP : decP (encP p) = some p) (hB : decB k (encB k r) = some r) :
    resolutionOfTree decP decB (resolutionToTree (encP p) k (encB k r)) = some (p, k, r) := by
  have h1 : getF (key! "parent") [(key! "parent", encP p), (key! "type", Json.str k.tag), (key! "resolution", encB k r)]
      = some (encP p) := by simp [getF]
  have h2 : getF (key! "type") [(key! "parent", encP p), (key! "type", Json.str k.tag), (key! "resolution", encB k r)]
      = some (.str k.tag) := by simp [getF]
  have h3 : getF (key! "resolution") [(key! "parent", encP p), (key! "type", Json.str k.tag), (key! "resolution", encB k r)]
      = some (encB k r) := by simp [getF]
  simp only [resolutionToTree, resolutionOfTree, h1, h2, h3, Option.bind_some, hP, ofTag_tag, Option.getD_some, hB]

theorem renderFields_snoc (k2 : Txt) (v2 : Json) : ∀ (fs : List (Txt × Json)), fs ≠ [] →
    renderFields (fs ++ [(k2, v2)]) = renderFields fs ++ 44 :: (quoteJ k2 ++ 58 :: render v2) := by
  intro fs
  induction fs with
  | nil => intro h; exact absurd rfl h
  | cons x xs ih =>
    intro _
    obtain ⟨k, v⟩ := x
    cases xs with
    | nil => simp [renderFields]
    | cons y ys =>
      have := ih (by simp)
      simp only [List.cons_append] at this ⊢
      simp only [renderFields]
      rw [this]
      simp

theorem dropLast_brace (X : Txt) : (123 :: (X ++ [125])).dropLast = 123 :: X := by
  have : (123 :: (X ++ [125]) : Txt) = (123 :: X) ++ [125] := by simp
  rw [this, List.dropLast_concat]

theorem quote_type : quoteJ (key! "type") = key! "\"type\"" := by decide

theorem tags_plain (k : ResKind) : quoteJ k.tag = 34 :: (k.tag ++ [34]) := by
  cases k <;> decide

/-- **The byte splice of `V2FileContractElementDiff.MarshalJSON`.**  For a renewal or a
    storage proof (whose JSON is a non-empty object) cutting the closing brace off the
    resolution's own JSON and appending `,"type":"<kind>"}` gives exactly the rendering of the
    same object with one more field `type`; for an expiration the literal is the rendering of
    `{"type":"expiration"}`.  So the spliced text is always a well-formed object, and (when
    the resolution has no field called `type` of its own — `tie_diff_no_type_field`) it has
    exactly one `type` field. -/
theorem c20_diff_splice (k : ResKind) (fs : List (Txt × Json)) (hfs : fs ≠ []) :
    diffResolutionText k (if k = .expiration then .obj [] else .obj fs)
      = render (diffResolutionTree k (if k = .expiration then .obj [] else .obj fs))
    ∧ ((∀ f ∈ fs, f.1 ≠ key! "type") →
        ∀ fs', diffResolutionTree k (if k = .expiration then .obj [] else .obj fs) = .obj fs' →
          (fs'.filter (fun f => f.1 == key! "type")).length = 1) := by
  have snoc := renderFields_snoc (key! "type") (.str k.tag) fs hfs
  constructor
  · cases k with
    | expiration =>
      simp only [if_true]
      decide
    | renewal =>
      simp only [reduceCtorEq, if_false, diffResolutionText, diffResolutionTree, spliceType, render]
      rw [snoc, dropLast_brace, quote_type]
      simp only [render, tags_plain]
      simp [ResKind.tag]
    | storageProof =>
      simp only [reduceCtorEq, if_false, diffResolutionText, diffResolutionTree, spliceType, render]
      rw [snoc, dropLast_brace, quote_type]
      simp only [render, tags_plain]
      simp [ResKind.tag]
  · intro hno fs' hfs'
    have hfil : fs.filter (fun f => f.1 == key! "type") = [] := by
      rw [List.filter_eq_nil_iff]
      intro f hf
      simpa using hno f hf
    cases k with
    | expiration =>
      simp [diffResolutionTree] at hfs'
      subst hfs'
      rfl
    | renewal =>
      simp [diffResolutionTree] at hfs'
      subst hfs'
      simp [List.filter_append, hfil]
    | storageProof =>
      simp [diffResolutionTree] at hfs'
      subst hfs'
      simp [List.filter_append, hfil]

/-- reading the spliced object back: the `type` field selects the kind, and the same object
    (the extra `type` field is not a field of the resolution) is decoded as that kind -/
theorem c20_diff_splice_decode {R : Type} (decB : ResKind → Json → Option R) (k : ResKind) (hk : k ≠ .expiration)
    (fs : List (Txt × Json)) :
    diffResolutionOfTree decB (diffResolutionTree k (.obj fs))
      = (decB k (.obj (fs ++ [(key! "type", .str k.tag)]))).map (fun r => (k, r)) := by
  have hget : getF (key! "type") (fs ++ [(key! "type", Json.str k.tag)]) = some (.str k.tag) :=
    getF_append_right (by simp [getF])
  cases k with
  | expiration => exact absurd rfl hk
  | renewal => simp only [diffResolutionTree, diffResolutionOfTree, hget, ofTag_tag]
  | storageProof => simp only [diffResolutionTree, diffResolutionOfTree, hget, ofTag_tag]

/-- why regrouping the decoded leaves by proof length (instead of filing them under their
    map key) is wrong for an ApplyUpdate: `applyBlock` extends the proofs of the updated
    leaves by the tree growth AFTER grouping them by height, so a leaf filed under height 1
    can carry a proof of length 2 — regrouped, bucket 1 is empty and the leaf sits in
    bucket 2, where `updateProof` (which looks in `updated[len(e.MerkleProof)]` with the
    element's pre-growth proof) does not find it -/
theorem c20_update_json_regroup_cex :
    let f : Nat → List (Leaf Nat) := fun k => if k = 1 then [⟨7, true, 1, [5, 6]⟩] else []
    (f 1).length = 1 ∧ (regroupByProofLength f 1).length = 0 ∧ (regroupByProofLength f 2).length = 1 := by
  decide

end C20
