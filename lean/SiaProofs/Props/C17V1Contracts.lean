import SiaProofs.Props.C17V1
import SiaProofs.Lemmas.C17Arith
import SiaModel.Rhp.V1Contracts
import SiaModel.Ledger.Model
/-!
# C17, v1 era — formation / renewal payouts and `PayByContract`

* `Gen.Rhp2.CalculateHostPayouts` (generated from rhp/v2/contracts.go): theorem
  `c17_v1_host_payouts`.
* `Sia.Rhp.V1.prepareFormation`, `prepareRenewalV2`, `renewalCostsV3`, `hostPayoutsV3`,
  `prepareRenewalV3`, `payByContract`: hand models (SiaModel/Rhp/V1Contracts.lean) of the
  Go functions outside the T-code subset, tied by the correspondence ops `rhp1c …`.
* the consensus side is `Sia.Ledger.fileContractTax` / the checks of
  `Sia.Ledger.validateFileContracts` (valid sum = missed sum; payout = valid sum + tax).
-/
namespace C17
open Sia.Rhp.V1

/-- post-hardfork `State.FileContractTax` of the ledger model = the `tax` the payout
inversion is proved against -/
theorem tie_v1_tax (L : Sia.Ledger.Ledger) (p : Nat) (hf : L.P.hfTax ≤ L.child)
    (hp : p < 340282366920938463463374607431768211456) : Sia.Ledger.fileContractTax L p = tax p := by
  unfold Sia.Ledger.fileContractTax tax siafundCount Sia.Ledger.curLimit
  have : ¬ L.child < L.P.hfTax := by omega
  simp only [this, ↓reduceIte]
  have h1 : p * 39 / 1000 - p * 39 / 1000 % 10000 < 340282366920938463463374607431768211456 := by omega
  exact Nat.mod_eq_of_lt h1

theorem obind {α β : Type} {x : Option α} {f : α → Option β} {b : β} (h : (x >>= f) = some b) :
    ∃ a, x = some a ∧ f a = some b := by
  cases x with
  | none => simp at h
  | some a => exact ⟨a, rfl, h⟩

theorem add?_inv {a b s : Nat} (h : add? a b = some s) : s = a + b ∧ a + b < 340282366920938463463374607431768211456 := by
  unfold add? lim at h
  split at h
  · cases h; exact ⟨rfl, by assumption⟩
  · cases h

theorem sub?_inv {a b s : Nat} (h : sub? a b = some s) : s + b = a := by
  unfold sub? at h
  split at h
  · cases h; omega
  · cases h

theorem mul64?_inv {a n s : Nat} (h : mul64? a n = some s) : s = a * n := by
  unfold mul64? at h
  split at h
  · cases h; rfl
  · cases h

/-- whenever `taxAdjustedPayout` returns, the result solves the consensus tax equation and
is a 128-bit value -/
theorem payout_inv {t p : Nat} (h : taxAdjustedPayout t = some p) :
    p = t + tax p ∧ p < 340282366920938463463374607431768211456 := by
  by_cases hlt : t * 1000 < 340282366920938463463374607431768211456
  · obtain ⟨p', e, h1, h2⟩ := c17_tax_adjusted_payout t hlt
    rw [e] at h; cases h
    exact ⟨h1, by omega⟩
  · rw [c17_tax_adjusted_payout_overflow t (by omega)] at h; cases h

/--
**v1 formation is consensus-valid** (rhp/v2 `PrepareContractFormation`): the valid and
missed outputs have the same sum (renter payout + contract price + host collateral) and
the payout is that sum plus the consensus tax *of the payout* — the two value checks of
`validateFileContracts` (post tax-hardfork) — and the contract starts at revision 0 with
the requested window.
-/
theorem c17_v1_formation_valid (rp hc cp e ws : Nat) (fc : Contract)
    (h : prepareFormation rp hc cp e ws = some fc) :
    fc.valid.sum = fc.missed.sum ∧ fc.valid.sum = rp + cp + hc ∧
    fc.payout = fc.valid.sum + tax fc.payout ∧
    (∀ L : Sia.Ledger.Ledger, L.P.hfTax ≤ L.child → fc.payout = fc.valid.sum + Sia.Ledger.fileContractTax L fc.payout) ∧
    fc.windowStart = e ∧ fc.windowEnd = (e + ws) % 18446744073709551616 ∧ fc.revNum = 0 ∧ fc.filesize = 0 := by
  unfold prepareFormation at h
  obtain ⟨hp, e1, h⟩ := obind h
  obtain ⟨t, e2, h⟩ := obind h
  obtain ⟨p, e3, h⟩ := obind h
  simp only [pure, Option.some.injEq] at h
  subst h
  obtain ⟨a1, _⟩ := add?_inv e1
  obtain ⟨a2, _⟩ := add?_inv e2
  obtain ⟨a3, a4⟩ := payout_inv e3
  have s1 : [rp, hp].sum = rp + cp + hc := by simp only [List.sum_cons, List.sum_nil, Nat.add_zero]; omega
  have s2 : [rp, hp, 0].sum = rp + cp + hc := by simp only [List.sum_cons, List.sum_nil, Nat.add_zero]; omega
  refine ⟨by simp only []; rw [s1, s2], s1, ?_, ?_, rfl, rfl, rfl, rfl⟩
  · show p = [rp, hp].sum + tax p
    rw [s1]; omega
  · intro L hL
    show p = [rp, hp].sum + Sia.Ledger.fileContractTax L p
    rw [tie_v1_tax L p hL a4, s1]; omega

/-- … and it does not panic when `1000 · (renter payout + contract price + collateral)`
fits in 128 bits (`Fits`). -/
theorem c17_v1_formation_no_panic (rp hc cp e ws : Nat)
    (fits : (rp + cp + hc) * 1000 < 340282366920938463463374607431768211456) :
    ∃ fc, prepareFormation rp hc cp e ws = some fc := by
  obtain ⟨p, e3, _⟩ := c17_tax_adjusted_payout (rp + (cp + hc)) (by rw [← Nat.add_assoc]; exact fits)
  have l1 : cp + hc < 340282366920938463463374607431768211456 := by omega
  have l2 : rp + (cp + hc) < 340282366920938463463374607431768211456 := by omega
  have e1 : add? cp hc = some (cp + hc) := by simp only [add?, lim, l1, ↓reduceIte]
  have e2 : add? rp (cp + hc) = some (rp + (cp + hc)) := by simp only [add?, lim, l2, ↓reduceIte]
  unfold prepareFormation
  simp only [e1, e2, e3, bind, Option.bind, pure]
  exact ⟨_, rfl⟩

/-! ## the generated rhp/v2 `CalculateHostPayouts` -/

open Gen.Types C15 in
/--
**Host payouts of a v2 renewal** (generated code): whenever the function returns, the
missed host payout plus the void payout equals the valid host payout, the valid payout is
contract price + void payout (base price + base collateral) + new collateral, and the base
price is part of the void payout.
-/
theorem c17_v1_host_payouts (fc : FileContract) (nc : Currency) (s : Gen.Rhp2.HostSettings) (e : Nat)
    (hv hm vm bp : Currency)
    (wnc : WF nc) (wcp : WF s.ContractPrice) (wsp : WF s.StoragePrice) (wco : WF s.Collateral)
    (wfs : fc.Filesize < W)
    (h : Gen.Rhp2.CalculateHostPayouts fc nc s e = .ok (hv, hm, vm, bp)) :
    WF hv ∧ WF hm ∧ WF vm ∧ WF bp ∧
    val hm + val vm = val hv ∧ val hv = val s.ContractPrice + val vm + val nc ∧ val bp ≤ val vm := by
  unfold Gen.Rhp2.CalculateHostPayouts at h
  simp only [] at h
  by_cases hc : (e + s.WindowSize) % 18446744073709551616 > fc.WindowEnd
  · simp only [hc, decide_true, if_true] at h
    obtain ⟨t1, e1, h⟩ := bind_ok h
    obtain ⟨t2, e2, h⟩ := bind_ok h
    obtain ⟨t3, e3, h⟩ := bind_ok h
    obtain ⟨t4, e4, h⟩ := bind_ok h
    obtain ⟨t5, e5, h⟩ := bind_ok h
    obtain ⟨t6, e6, h⟩ := bind_ok h
    obtain ⟨t7, e7, h⟩ := bind_ok h
    obtain ⟨t8, e8, h⟩ := bind_ok h
    have hte : ((e + s.WindowSize) % 18446744073709551616 + 18446744073709551616 - fc.WindowEnd) % 18446744073709551616 < W :=
      Nat.mod_lt _ (by omega)
    obtain ⟨w1, _, _⟩ := mul64_inv wsp wfs e1
    obtain ⟨w2, _, _⟩ := mul64_inv w1 hte e2
    obtain ⟨w3, _, _⟩ := mul64_inv wco wfs e3
    obtain ⟨w4, _, _⟩ := mul64_inv w3 hte e4
    obtain ⟨w5, v5, _⟩ := add_inv wcp w2 e5
    obtain ⟨w6, v6, _⟩ := add_inv w5 w4 e6
    obtain ⟨w7, v7, _⟩ := add_inv w6 wnc e7
    obtain ⟨w8, v8, _⟩ := add_inv w2 w4 e8
    split at h
    · simp [throw, throwThe, MonadExceptOf.throw] at h
    · rename_i hcmp; clear hcmp
      obtain ⟨t9, e9, h⟩ := bind_ok h
      simp only [pure, Except.pure, Except.ok.injEq, Prod.mk.injEq] at h
      obtain ⟨rfl, rfl, rfl, rfl⟩ := h
      obtain ⟨w9, v9, _⟩ := sub_inv w7 w8 e9
      exact ⟨w7, w9, w8, w2, by omega, by omega, by omega⟩
  · simp only [hc, decide_false, Bool.false_eq_true, if_false] at h
    obtain ⟨t10, e10, h⟩ := bind_ok h
    obtain ⟨t11, e11, h⟩ := bind_ok h
    obtain ⟨t12, e12, h⟩ := bind_ok h
    obtain ⟨t13, e13, h⟩ := bind_ok h
    obtain ⟨w10, v10, _⟩ := add_inv wcp wf_zero e10
    obtain ⟨w11, v11, _⟩ := add_inv w10 wf_zero e11
    obtain ⟨w12, v12, _⟩ := add_inv w11 wnc e12
    obtain ⟨w13, v13, _⟩ := add_inv wf_zero wf_zero e13
    rw [val_zero] at v10 v11 v13
    split at h
    · simp [throw, throwThe, MonadExceptOf.throw] at h
    · rename_i hcmp; clear hcmp
      obtain ⟨t14, e14, h⟩ := bind_ok h
      simp only [pure, Except.pure, Except.ok.injEq, Prod.mk.injEq] at h
      obtain ⟨rfl, rfl, rfl, rfl⟩ := h
      obtain ⟨w14, v14, _⟩ := sub_inv w12 w13 e14
      refine ⟨w12, w14, w13, wf_zero, by omega, by omega, ?_⟩
      rw [val_zero]; omega

theorem cv_eq_val (c : Gen.Types.Currency) : cv c = C15.val c := rfl

theorem sum2 (a b : Nat) : [a, b].sum = a + b := by simp [List.sum_cons]
theorem sum3 (a b c : Nat) : [a, b, c].sum = a + b + c := by simp [List.sum_cons]; omega

open Gen.Types C15 in
/--
**v1 renewal (rhp/v2 `PrepareContractRenewal`) is consensus-valid**: valid outputs
(renter, host) and missed outputs (renter, host missed, void) have the same sum and the
payout is that sum plus the consensus tax of the payout.
-/
theorem c17_v1_renewal_valid (cur : FileContract) (rp : Nat) (nc : Currency) (s : Gen.Rhp2.HostSettings) (e : Nat)
    (fc : Contract) (bp : Nat)
    (wnc : WF nc) (wcp : WF s.ContractPrice) (wsp : WF s.StoragePrice) (wco : WF s.Collateral)
    (wfs : cur.Filesize < W)
    (h : prepareRenewalV2 cur rp nc s e = some (fc, bp)) :
    fc.valid.sum = fc.missed.sum ∧ fc.payout = fc.valid.sum + tax fc.payout ∧
    (∀ L : Sia.Ledger.Ledger, L.P.hfTax ≤ L.child → fc.payout = fc.valid.sum + Sia.Ledger.fileContractTax L fc.payout) ∧
    fc.filesize = cur.Filesize ∧ fc.windowStart = e ∧ fc.revNum = 0 ∧ fc.valid.length = 2 ∧ fc.missed.length = 3 := by
  unfold prepareRenewalV2 at h
  cases hres : Gen.Rhp2.CalculateHostPayouts cur nc s e with
  | error err => rw [hres] at h; cases h
  | ok r =>
    obtain ⟨hv, hm, vm, b⟩ := r
    rw [hres] at h
    simp only [] at h
    obtain ⟨_, _, _, _, q1, _, _⟩ := c17_v1_host_payouts cur nc s e hv hm vm b wnc wcp wsp wco wfs hres
    obtain ⟨t, e2, h⟩ := obind h
    obtain ⟨p, e3, h⟩ := obind h
    simp only [pure, Option.some.injEq, Prod.mk.injEq] at h
    obtain ⟨rfl, rfl⟩ := h
    obtain ⟨a2, _⟩ := add?_inv e2
    obtain ⟨a3, a4⟩ := payout_inv e3
    have q1' : cv hm + cv vm = cv hv := by rw [cv_eq_val, cv_eq_val, cv_eq_val]; exact q1
    clear q1 hres wnc wcp wsp wco
    generalize cv hv = HV at *
    generalize cv hm = HM at *
    generalize cv vm = VM at *
    refine ⟨by simp only []; rw [sum2, sum3]; omega, ?_, ?_, rfl, rfl, rfl, rfl, rfl⟩
    · show p = [rp, HV].sum + tax p
      rw [sum2]; omega
    · intro L hL
      show p = [rp, HV].sum + Sia.Ledger.fileContractTax L p
      rw [tie_v1_tax L p hL a4, sum2]; omega

/-! ## rhp/v3 -/

/-- rhp/v3 `CalculateHostPayouts` (hand model): missed + void = valid, valid = contract price
+ void + new collateral ≥ …, new collateral respects the requested minimum. -/
theorem c17_v1_host_payouts_v3 (fs wst wend minNC : Nat) (pt : PriceTable) (ens e : Nat) (hv hm vm bp : Nat)
    (h : hostPayoutsV3 fs wst wend minNC pt ens e = some (some (hv, hm, vm, bp))) :
    hm + vm = hv ∧ bp ≤ vm ∧ pt.contractPrice + vm + minNC ≤ hv ∧ wst ≤ e ∧ pt.hostBlockHeight ≤ e := by
  unfold hostPayoutsV3 at h
  split at h
  · cases h
  · split at h
    · cases h
    · obtain ⟨⟨b, bc, nc⟩, e1, h⟩ := obind h
      simp only [] at h
      split at h
      · cases h
      · obtain ⟨t1, e2, h⟩ := obind h
        obtain ⟨t2, e3, h⟩ := obind h
        obtain ⟨t3, e4, h⟩ := obind h
        obtain ⟨t4, e5, h⟩ := obind h
        split at h
        · cases h
        · obtain ⟨t5, e6, h⟩ := obind h
          simp only [pure, Option.some.injEq, Prod.mk.injEq] at h
          obtain ⟨rfl, rfl, rfl, rfl⟩ := h
          obtain ⟨a2, _⟩ := add?_inv e2
          obtain ⟨a3, _⟩ := add?_inv e3
          obtain ⟨a4, _⟩ := add?_inv e4
          obtain ⟨a5, _⟩ := add?_inv e5
          have a6 := sub?_inv e6
          omega

/-- **v1 renewal (rhp/v3 `PrepareContractRenewal`) is consensus-valid.** -/
theorem c17_v1_renewal_v3_valid (fs wst wend rp minNC : Nat) (pt : PriceTable) (ens e : Nat) (fc : Contract) (bp : Nat)
    (h : prepareRenewalV3 fs wst wend rp minNC pt ens e = some (some (fc, bp))) :
    fc.valid.sum = fc.missed.sum ∧ fc.payout = fc.valid.sum + tax fc.payout ∧
    (∀ L : Sia.Ledger.Ledger, L.P.hfTax ≤ L.child → fc.payout = fc.valid.sum + Sia.Ledger.fileContractTax L fc.payout) ∧
    fc.filesize = fs ∧ fc.windowStart = e ∧ wst ≤ e ∧ fc.revNum = 0 ∧ fc.valid.length = 2 ∧ fc.missed.length = 3 := by
  unfold prepareRenewalV3 at h
  cases hres : hostPayoutsV3 fs wst wend minNC pt ens e with
  | none => rw [hres] at h; cases h
  | some r =>
    cases r with
    | none => rw [hres] at h; cases h
    | some q =>
      obtain ⟨hv, hm, vm, b⟩ := q
      rw [hres] at h
      simp only [] at h
      obtain ⟨q1, _, _, q4, _⟩ := c17_v1_host_payouts_v3 fs wst wend minNC pt ens e hv hm vm b hres
      obtain ⟨t, e2, h⟩ := obind h
      obtain ⟨p, e3, h⟩ := obind h
      simp only [pure, Option.some.injEq, Prod.mk.injEq] at h
      obtain ⟨rfl, rfl⟩ := h
      obtain ⟨a2, _⟩ := add?_inv e2
      obtain ⟨a3, a4⟩ := payout_inv e3
      have s1 : [rp, hv].sum = rp + hv := by simp only [List.sum_cons, List.sum_nil, Nat.add_zero]
      have s2 : [rp, hm, vm].sum = rp + hv := by simp only [List.sum_cons, List.sum_nil, Nat.add_zero]; omega
      refine ⟨by simp only []; rw [s1, s2], ?_, ?_, rfl, rfl, q4, rfl, rfl, rfl⟩
      · show p = [rp, hv].sum + tax p
        rw [s1]; omega
      · intro L hL
        show p = [rp, hv].sum + Sia.Ledger.fileContractTax L p
        rw [tie_v1_tax L p hL a4, s1]; omega

/--
**rhp/v3 `PayByContract`** moves `amount` from the renter's to the host's output in both
the valid and the missed outputs: both sums are preserved (the two sum checks of a v1
revision in `validateFileContracts`), the revision number goes up by one (so the revision
is newer than its parent unless the number was already 2^64−1), nothing else changes; it
refuses — leaving the revision untouched — exactly when the valid or the missed renter
output is below the amount.
-/
theorem c17_pay_by_contract (valid missed : List Nat) (rev amount : Nat)
    (r : Option (List Nat × List Nat × Nat))
    (h : payByContract valid missed rev amount = some r) :
    ∃ vr vrest, valid = vr :: vrest ∧
      (r = none ↔ (vr < amount ∨ ∃ mr mrest, missed = mr :: mrest ∧ mr < amount)) ∧
      ∀ v' m' r', r = some (v', m', r') →
        ∃ vh vt mr mh mt, vrest = vh :: vt ∧ missed = mr :: mh :: mt ∧ amount ≤ vr ∧ amount ≤ mr ∧
          v' = (vr - amount) :: (vh + amount) :: vt ∧ m' = (mr - amount) :: (mh + amount) :: mt ∧
          v'.sum = valid.sum ∧ m'.sum = missed.sum ∧ v'.length = valid.length ∧ m'.length = missed.length ∧
          r' = (rev + 1) % 18446744073709551616 ∧ (rev + 1 < 18446744073709551616 → rev < r') := by
  unfold payByContract at h
  cases valid with
  | nil => cases h
  | cons vr vrest =>
    refine ⟨vr, vrest, rfl, ?_⟩
    simp only [] at h
    by_cases c1 : vr < amount
    · simp only [c1, if_true, Option.some.injEq] at h
      subst h
      exact ⟨⟨fun _ => Or.inl c1, fun _ => rfl⟩, fun _ _ _ x => by cases x⟩
    · simp only [c1, if_false] at h
      cases missed with
      | nil => cases h
      | cons mr mrest =>
        simp only [] at h
        by_cases c2 : mr < amount
        · simp only [c2, if_true, Option.some.injEq] at h
          subst h
          exact ⟨⟨fun _ => Or.inr ⟨mr, mrest, rfl, c2⟩, fun _ => rfl⟩, fun _ _ _ x => by cases x⟩
        · simp only [c2, if_false] at h
          cases vrest with
          | nil => cases h
          | cons vh vt =>
            cases mrest with
            | nil => cases h
            | cons mh mt =>
              simp only [] at h
              obtain ⟨vh', e1, h⟩ := obind h
              obtain ⟨mh', e2, h⟩ := obind h
              simp only [pure, Option.some.injEq] at h
              subst h
              obtain ⟨a1, _⟩ := add?_inv e1
              obtain ⟨a2, _⟩ := add?_inv e2
              subst a1; subst a2
              refine ⟨⟨(fun x => by cases x), fun x => ?_⟩, ?_⟩
              · rcases x with x | ⟨mr', mrest', e, x⟩
                · exact absurd x c1
                · cases e; exact absurd x c2
              · intro v' m' r' e
                simp only [Option.some.injEq, Prod.mk.injEq] at e
                obtain ⟨rfl, rfl, rfl⟩ := e
                refine ⟨vh, vt, mr, mh, mt, rfl, rfl, by omega, by omega, rfl, rfl, ?_, ?_, rfl, rfl, rfl, ?_⟩
                · simp only [List.sum_cons]; omega
                · simp only [List.sum_cons]; omega
                · intro hlt; show rev < (rev + 1) % 18446744073709551616; rw [Nat.mod_eq_of_lt hlt]; omega

def examplePT : PriceTable := { contractPrice := 5, collateralCost := 2, writeStoreCost := 3, maxCollateral := 100000, renewContractCost := 9, windowSize := 10, hostBlockHeight := 190 }

/-- satisfiability: the numbers of the doc comment in contracts.go, a renewal, and payments -/
example : (prepareFormation 87654321 0 0 100 10).map (·.payout) = some 91204321 := by decide
example : (prepareRenewalV3 1000 100 150 5000 0 examplePT 50 200).map (·.isSome) = some true := by decide
example : payByContract [100, 50] [100, 40, 10] 7 30 = some (some ([70, 80], [70, 70, 10], 8)) := by decide
example : payByContract [100, 50] [100, 40, 10] 7 101 = some none := by decide

end C17
