import SiaModel.Gen.FactsSchema
import SiaModel.Codec.Spec
import SiaProofs.Props.C11
/-!
# C11 ties — the generated schemas (what the code says now) against the model's assumptions

`SiaModel/Gen/FactsSchema.lean` is regenerated from the `EncodeTo`/`DecodeFrom` bodies on every
run. For every regular codec type: `tie_symmetric_T` (encoder schema = decoder schema),
`tie_fields_complete_T` (every declared struct field is transmitted, minus the committed
allow-list `nonTransmitted`), and for consensus-critical objects `tie_wire_T` (= the
hand-written layout of `Codec/Spec.lean`). The `tie_all_*` theorems quantify over the
generated tables, so a codec type added later is covered without editing this file.
(Per-type part printed by extract/gen_c11tie.py; allow-list and wire table are hand-maintained.)
-/
namespace C11
open Sia.Codec Sia.Codec.Gen

/-- Documented fields that are deliberately NOT transmitted. `missingFields` (generated: the
declared struct fields of each codec type that no encoder label mentions) must be exactly this. -/
def nonTransmitted : List (String × List String) := [
  ("Consensus_State", ["Network"]),  -- network parameters are not encoded (struct comment)
  ("Rhp3_InstrReadRegistryNoVersion", ["Version"]),  -- pre-1.5.7 form: version implied (decoder sets 1)
  ("Rhp3_InstrUpdateRegistryNoType", ["EntryType"]),  -- pre-1.5.7 form: entry type implied (decoder sets arbitrary)
  ("Types_FileContractRevision.FileContract", ["Payout"]),  -- a revision cannot change the payout; decoder sets the sentinel
  ("Types_StateElement", ["shared"]),  -- in-memory aliasing guard, never on the wire
  ("Types_V1Block", ["V2"])  -- V1Block is the v1 (pre-hardfork) encoding of a Block; V2Block adds the v2 part
]

/-! ## list-wide ties (cover every codec the extractor finds, now or later) -/

theorem tie_all_symmetric : (allSchemas.all fun t => t.2.1 == t.2.2) = true := by decide +kernel

/-- slice elements occupy ≥ 1 byte and nothing allocates from an unchecked prefix, so the
hypotheses `wf`/`guarded` of the generic theorems hold for every generated schema -/
theorem tie_all_wf_guarded :
    (allSchemas.all fun t => t.2.1.wf Env.default && t.2.1.guarded Env.default) = true := by decide +kernel

/-- **field completeness**: every declared field of every codec type is transmitted,
except exactly the documented ones -/
theorem tie_all_fields_complete : missingFields = nonTransmitted := rfl

/-- the decoder sets exactly these fields without reading the stream (all allow-listed above) -/
theorem tie_decoder_constants : decoderConstants = [
    ("Rhp3_InstrReadRegistryNoVersion", ["Version"]),
    ("Rhp3_InstrUpdateRegistryNoType", ["EntryType"]),
    ("Types_FileContractRevision", ["FileContract.Payout"])] := rfl

/-- the codecs that are not regular are exactly the committed list (hand-modelled / oracle-only) -/
theorem tie_irregular_list : irregularCodecs = [
    "Gateway_V2BlockOutline",
    "Rhp2_RPCReadResponse",
    "Rhp2_loopKeyExchangeRequest",
    "Rhp2_rpcResponse",
    "Rhp3_Account",
    "Rhp3_RPCExecuteProgramRequest",
    "Rhp3_RPCExecuteProgramResponse",
    "Rhp3_rpcResponse",
    "Types_SpendPolicy",
    "Types_V1Currency",
    "Types_V2FileContractResolution",
    "Types_V2Transaction",
    "Types_V2TransactionSemantics",
    "Types_V2TransactionsMultiproof"
  ] := rfl

/-- number of regular codecs at the pinned commit (a removed codec shows up here) -/
theorem tie_regular_count : allSchemas.length = 174 := by decide +kernel

/-! ## the generic theorems instantiated: they apply to every generated schema -/

/-- every generated schema satisfies the hypotheses of `c11_roundtrip` & co. -/
theorem tie_generic_applies (n : String) (e d : Sch) (h : (n, e, d) ∈ allSchemas) :
    e = d ∧ e.wf Env.default = true ∧ e.guarded Env.default = true := by
  have h1 := List.all_eq_true.mp tie_all_symmetric _ h
  have h2 := List.all_eq_true.mp tie_all_wf_guarded _ h
  simp only [Bool.and_eq_true] at h2
  exact ⟨by simpa using h1, h2.1, h2.2⟩

/-! ## wire layout of consensus-critical objects -/

theorem tie_wire_Types_Hash256 : encSchema_Types_Hash256 = Spec.hash32 := rfl
theorem tie_wire_Types_BlockID : encSchema_Types_BlockID = Spec.hash32 := rfl
theorem tie_wire_Types_TransactionID : encSchema_Types_TransactionID = Spec.hash32 := rfl
theorem tie_wire_Types_Address : encSchema_Types_Address = Spec.hash32 := rfl
theorem tie_wire_Types_PublicKey : encSchema_Types_PublicKey = Spec.hash32 := rfl
theorem tie_wire_Types_SiacoinOutputID : encSchema_Types_SiacoinOutputID = Spec.hash32 := rfl
theorem tie_wire_Types_SiafundOutputID : encSchema_Types_SiafundOutputID = Spec.hash32 := rfl
theorem tie_wire_Types_FileContractID : encSchema_Types_FileContractID = Spec.hash32 := rfl
theorem tie_wire_Types_AttestationID : encSchema_Types_AttestationID = Spec.hash32 := rfl
theorem tie_wire_Types_Signature : encSchema_Types_Signature = Spec.signature := rfl
theorem tie_wire_Types_Specifier : encSchema_Types_Specifier = Spec.specifier := rfl
theorem tie_wire_Types_V2Currency : encSchema_Types_V2Currency = Spec.v2Currency := rfl
theorem tie_wire_Types_ChainIndex : encSchema_Types_ChainIndex = Spec.chainIndex := rfl
theorem tie_wire_Types_UnlockKey : encSchema_Types_UnlockKey = Spec.unlockKey := rfl
theorem tie_wire_Types_UnlockConditions : encSchema_Types_UnlockConditions = Spec.unlockConditions := rfl
theorem tie_wire_Types_V1SiacoinOutput : encSchema_Types_V1SiacoinOutput = Spec.v1SiacoinOutput := rfl
theorem tie_wire_Types_V1SiafundOutput : encSchema_Types_V1SiafundOutput = Spec.v1SiafundOutput := rfl
theorem tie_wire_Types_SiacoinInput : encSchema_Types_SiacoinInput = Spec.siacoinInput := rfl
theorem tie_wire_Types_SiafundInput : encSchema_Types_SiafundInput = Spec.siafundInput := rfl
theorem tie_wire_Types_FileContract : encSchema_Types_FileContract = Spec.fileContract := rfl
theorem tie_wire_Types_FileContractRevision : encSchema_Types_FileContractRevision = Spec.fileContractRevision := rfl
theorem tie_wire_Types_StorageProof : encSchema_Types_StorageProof = Spec.storageProof := rfl
theorem tie_wire_Types_FoundationAddressUpdate : encSchema_Types_FoundationAddressUpdate = Spec.foundationAddressUpdate := rfl
theorem tie_wire_Types_CoveredFields : encSchema_Types_CoveredFields = Spec.coveredFields := rfl
theorem tie_wire_Types_TransactionSignature : encSchema_Types_TransactionSignature = Spec.transactionSignature := rfl
theorem tie_wire_Types_Transaction : encSchema_Types_Transaction = Spec.transaction := rfl
theorem tie_wire_Types_BlockHeader : encSchema_Types_BlockHeader = Spec.blockHeader := rfl
theorem tie_wire_Types_V1Block : encSchema_Types_V1Block = Spec.v1Block := rfl
theorem tie_wire_Types_V2BlockData : encSchema_Types_V2BlockData = Spec.v2BlockData := rfl
theorem tie_wire_Types_V2Block : encSchema_Types_V2Block = Spec.v2Block := rfl
theorem tie_wire_Types_V2SiacoinOutput : encSchema_Types_V2SiacoinOutput = Spec.v2SiacoinOutput := rfl
theorem tie_wire_Types_V2SiafundOutput : encSchema_Types_V2SiafundOutput = Spec.v2SiafundOutput := rfl
theorem tie_wire_Types_StateElement : encSchema_Types_StateElement = Spec.stateElement := rfl
theorem tie_wire_Types_ChainIndexElement : encSchema_Types_ChainIndexElement = Spec.chainIndexElement := rfl
theorem tie_wire_Types_SiacoinElement : encSchema_Types_SiacoinElement = Spec.siacoinElement := rfl
theorem tie_wire_Types_SiafundElement : encSchema_Types_SiafundElement = Spec.siafundElement := rfl
theorem tie_wire_Types_FileContractElement : encSchema_Types_FileContractElement = Spec.fileContractElement := rfl
theorem tie_wire_Types_V2FileContract : encSchema_Types_V2FileContract = Spec.v2FileContract := rfl
theorem tie_wire_Types_V2FileContractElement : encSchema_Types_V2FileContractElement = Spec.v2FileContractElement := rfl
theorem tie_wire_Types_SatisfiedPolicy : encSchema_Types_SatisfiedPolicy = Spec.satisfiedPolicy := rfl
theorem tie_wire_Types_V2SiacoinInput : encSchema_Types_V2SiacoinInput = Spec.v2SiacoinInput := rfl
theorem tie_wire_Types_V2SiafundInput : encSchema_Types_V2SiafundInput = Spec.v2SiafundInput := rfl
theorem tie_wire_Types_V2FileContractRevision : encSchema_Types_V2FileContractRevision = Spec.v2FileContractRevision := rfl
theorem tie_wire_Types_V2FileContractRenewal : encSchema_Types_V2FileContractRenewal = Spec.v2FileContractRenewal := rfl
theorem tie_wire_Types_V2StorageProof : encSchema_Types_V2StorageProof = Spec.v2StorageProof := rfl
theorem tie_wire_Types_V2FileContractExpiration : encSchema_Types_V2FileContractExpiration = Spec.v2FileContractExpiration := rfl
theorem tie_wire_Types_Attestation : encSchema_Types_Attestation = Spec.attestation := rfl
theorem tie_wire_Consensus_Work : encSchema_Consensus_Work = Spec.work := rfl
theorem tie_wire_Consensus_V1StorageProofSupplement : encSchema_Consensus_V1StorageProofSupplement = Spec.v1StorageProofSupplement := rfl
theorem tie_wire_Consensus_V1TransactionSupplement : encSchema_Consensus_V1TransactionSupplement = Spec.v1TransactionSupplement := rfl
theorem tie_wire_Consensus_V1BlockSupplement : encSchema_Consensus_V1BlockSupplement = Spec.v1BlockSupplement := rfl
theorem tie_wire_Consensus_ElementAccumulator : encSchema_Consensus_ElementAccumulator = Spec.elementAccumulator := rfl
theorem tie_wire_Consensus_State : encSchema_Consensus_State = Spec.state := rfl

/-! ## per type: encoder/decoder symmetry and field completeness -/

theorem tie_symmetric_Consensus_ElementAccumulator : encSchema_Consensus_ElementAccumulator = decSchema_Consensus_ElementAccumulator := rfl
theorem tie_symmetric_Consensus_State : encSchema_Consensus_State = decSchema_Consensus_State := rfl
theorem tie_symmetric_Consensus_V1BlockSupplement : encSchema_Consensus_V1BlockSupplement = decSchema_Consensus_V1BlockSupplement := rfl
theorem tie_symmetric_Consensus_V1StorageProofSupplement : encSchema_Consensus_V1StorageProofSupplement = decSchema_Consensus_V1StorageProofSupplement := rfl
theorem tie_symmetric_Consensus_V1TransactionSupplement : encSchema_Consensus_V1TransactionSupplement = decSchema_Consensus_V1TransactionSupplement := rfl
theorem tie_symmetric_Consensus_Work : encSchema_Consensus_Work = decSchema_Consensus_Work := rfl
theorem tie_symmetric_Gateway_Header : encSchema_Gateway_Header = decSchema_Gateway_Header := rfl
theorem tie_symmetric_Gateway_RPCDiscoverIP_Response : encSchema_Gateway_RPCDiscoverIP_Response = decSchema_Gateway_RPCDiscoverIP_Response := rfl
theorem tie_symmetric_Gateway_RPCRelayV2BlockOutline_Request : encSchema_Gateway_RPCRelayV2BlockOutline_Request = decSchema_Gateway_RPCRelayV2BlockOutline_Request := rfl
theorem tie_symmetric_Gateway_RPCRelayV2Header_Request : encSchema_Gateway_RPCRelayV2Header_Request = decSchema_Gateway_RPCRelayV2Header_Request := rfl
theorem tie_symmetric_Gateway_RPCRelayV2TransactionSet_Request : encSchema_Gateway_RPCRelayV2TransactionSet_Request = decSchema_Gateway_RPCRelayV2TransactionSet_Request := rfl
theorem tie_symmetric_Gateway_RPCSendCheckpoint_Request : encSchema_Gateway_RPCSendCheckpoint_Request = decSchema_Gateway_RPCSendCheckpoint_Request := rfl
theorem tie_symmetric_Gateway_RPCSendCheckpoint_Response : encSchema_Gateway_RPCSendCheckpoint_Response = decSchema_Gateway_RPCSendCheckpoint_Response := rfl
theorem tie_symmetric_Gateway_RPCSendHeaders_Request : encSchema_Gateway_RPCSendHeaders_Request = decSchema_Gateway_RPCSendHeaders_Request := rfl
theorem tie_symmetric_Gateway_RPCSendHeaders_Response : encSchema_Gateway_RPCSendHeaders_Response = decSchema_Gateway_RPCSendHeaders_Response := rfl
theorem tie_symmetric_Gateway_RPCSendTransactions_Request : encSchema_Gateway_RPCSendTransactions_Request = decSchema_Gateway_RPCSendTransactions_Request := rfl
theorem tie_symmetric_Gateway_RPCSendTransactions_Response : encSchema_Gateway_RPCSendTransactions_Response = decSchema_Gateway_RPCSendTransactions_Response := rfl
theorem tie_symmetric_Gateway_RPCSendV2Blocks_Request : encSchema_Gateway_RPCSendV2Blocks_Request = decSchema_Gateway_RPCSendV2Blocks_Request := rfl
theorem tie_symmetric_Gateway_RPCSendV2Blocks_Response : encSchema_Gateway_RPCSendV2Blocks_Response = decSchema_Gateway_RPCSendV2Blocks_Response := rfl
theorem tie_symmetric_Gateway_RPCShareNodes_Response : encSchema_Gateway_RPCShareNodes_Response = decSchema_Gateway_RPCShareNodes_Response := rfl
theorem tie_symmetric_Gateway_emptyRequest_Request : encSchema_Gateway_emptyRequest_Request = decSchema_Gateway_emptyRequest_Request := rfl
theorem tie_symmetric_Gateway_emptyResponse_Response : encSchema_Gateway_emptyResponse_Response = decSchema_Gateway_emptyResponse_Response := rfl
theorem tie_symmetric_Rhp2_Challenge : encSchema_Rhp2_Challenge = decSchema_Rhp2_Challenge := rfl
theorem tie_symmetric_Rhp2_RPCError : encSchema_Rhp2_RPCError = decSchema_Rhp2_RPCError := rfl
theorem tie_symmetric_Rhp2_RPCFormContractAdditions : encSchema_Rhp2_RPCFormContractAdditions = decSchema_Rhp2_RPCFormContractAdditions := rfl
theorem tie_symmetric_Rhp2_RPCFormContractRequest : encSchema_Rhp2_RPCFormContractRequest = decSchema_Rhp2_RPCFormContractRequest := rfl
theorem tie_symmetric_Rhp2_RPCFormContractSignatures : encSchema_Rhp2_RPCFormContractSignatures = decSchema_Rhp2_RPCFormContractSignatures := rfl
theorem tie_symmetric_Rhp2_RPCLockRequest : encSchema_Rhp2_RPCLockRequest = decSchema_Rhp2_RPCLockRequest := rfl
theorem tie_symmetric_Rhp2_RPCLockResponse : encSchema_Rhp2_RPCLockResponse = decSchema_Rhp2_RPCLockResponse := rfl
theorem tie_symmetric_Rhp2_RPCReadRequest : encSchema_Rhp2_RPCReadRequest = decSchema_Rhp2_RPCReadRequest := rfl
theorem tie_symmetric_Rhp2_RPCRenewAndClearContractRequest : encSchema_Rhp2_RPCRenewAndClearContractRequest = decSchema_Rhp2_RPCRenewAndClearContractRequest := rfl
theorem tie_symmetric_Rhp2_RPCRenewAndClearContractSignatures : encSchema_Rhp2_RPCRenewAndClearContractSignatures = decSchema_Rhp2_RPCRenewAndClearContractSignatures := rfl
theorem tie_symmetric_Rhp2_RPCSectorRootsRequest : encSchema_Rhp2_RPCSectorRootsRequest = decSchema_Rhp2_RPCSectorRootsRequest := rfl
theorem tie_symmetric_Rhp2_RPCSectorRootsResponse : encSchema_Rhp2_RPCSectorRootsResponse = decSchema_Rhp2_RPCSectorRootsResponse := rfl
theorem tie_symmetric_Rhp2_RPCSettingsResponse : encSchema_Rhp2_RPCSettingsResponse = decSchema_Rhp2_RPCSettingsResponse := rfl
theorem tie_symmetric_Rhp2_RPCWriteMerkleProof : encSchema_Rhp2_RPCWriteMerkleProof = decSchema_Rhp2_RPCWriteMerkleProof := rfl
theorem tie_symmetric_Rhp2_RPCWriteRequest : encSchema_Rhp2_RPCWriteRequest = decSchema_Rhp2_RPCWriteRequest := rfl
theorem tie_symmetric_Rhp2_RPCWriteResponse : encSchema_Rhp2_RPCWriteResponse = decSchema_Rhp2_RPCWriteResponse := rfl
theorem tie_symmetric_Rhp2_loopKeyExchangeResponse : encSchema_Rhp2_loopKeyExchangeResponse = decSchema_Rhp2_loopKeyExchangeResponse := rfl
theorem tie_symmetric_Rhp3_FundAccountReceipt : encSchema_Rhp3_FundAccountReceipt = decSchema_Rhp3_FundAccountReceipt := rfl
theorem tie_symmetric_Rhp3_InstrAppendSector : encSchema_Rhp3_InstrAppendSector = decSchema_Rhp3_InstrAppendSector := rfl
theorem tie_symmetric_Rhp3_InstrAppendSectorRoot : encSchema_Rhp3_InstrAppendSectorRoot = decSchema_Rhp3_InstrAppendSectorRoot := rfl
theorem tie_symmetric_Rhp3_InstrDropSectors : encSchema_Rhp3_InstrDropSectors = decSchema_Rhp3_InstrDropSectors := rfl
theorem tie_symmetric_Rhp3_InstrHasSector : encSchema_Rhp3_InstrHasSector = decSchema_Rhp3_InstrHasSector := rfl
theorem tie_symmetric_Rhp3_InstrReadOffset : encSchema_Rhp3_InstrReadOffset = decSchema_Rhp3_InstrReadOffset := rfl
theorem tie_symmetric_Rhp3_InstrReadRegistry : encSchema_Rhp3_InstrReadRegistry = decSchema_Rhp3_InstrReadRegistry := rfl
theorem tie_symmetric_Rhp3_InstrReadRegistryNoVersion : encSchema_Rhp3_InstrReadRegistryNoVersion = decSchema_Rhp3_InstrReadRegistryNoVersion := rfl
theorem tie_symmetric_Rhp3_InstrReadSector : encSchema_Rhp3_InstrReadSector = decSchema_Rhp3_InstrReadSector := rfl
theorem tie_symmetric_Rhp3_InstrRevision : encSchema_Rhp3_InstrRevision = decSchema_Rhp3_InstrRevision := rfl
theorem tie_symmetric_Rhp3_InstrStoreSector : encSchema_Rhp3_InstrStoreSector = decSchema_Rhp3_InstrStoreSector := rfl
theorem tie_symmetric_Rhp3_InstrSwapSector : encSchema_Rhp3_InstrSwapSector = decSchema_Rhp3_InstrSwapSector := rfl
theorem tie_symmetric_Rhp3_InstrUpdateRegistry : encSchema_Rhp3_InstrUpdateRegistry = decSchema_Rhp3_InstrUpdateRegistry := rfl
theorem tie_symmetric_Rhp3_InstrUpdateRegistryNoType : encSchema_Rhp3_InstrUpdateRegistryNoType = decSchema_Rhp3_InstrUpdateRegistryNoType := rfl
theorem tie_symmetric_Rhp3_InstrUpdateSector : encSchema_Rhp3_InstrUpdateSector = decSchema_Rhp3_InstrUpdateSector := rfl
theorem tie_symmetric_Rhp3_PayByContractRequest : encSchema_Rhp3_PayByContractRequest = decSchema_Rhp3_PayByContractRequest := rfl
theorem tie_symmetric_Rhp3_PayByEphemeralAccountRequest : encSchema_Rhp3_PayByEphemeralAccountRequest = decSchema_Rhp3_PayByEphemeralAccountRequest := rfl
theorem tie_symmetric_Rhp3_PaymentResponse : encSchema_Rhp3_PaymentResponse = decSchema_Rhp3_PaymentResponse := rfl
theorem tie_symmetric_Rhp3_RPCAccountBalanceRequest : encSchema_Rhp3_RPCAccountBalanceRequest = decSchema_Rhp3_RPCAccountBalanceRequest := rfl
theorem tie_symmetric_Rhp3_RPCAccountBalanceResponse : encSchema_Rhp3_RPCAccountBalanceResponse = decSchema_Rhp3_RPCAccountBalanceResponse := rfl
theorem tie_symmetric_Rhp3_RPCError : encSchema_Rhp3_RPCError = decSchema_Rhp3_RPCError := rfl
theorem tie_symmetric_Rhp3_RPCFinalizeProgramRequest : encSchema_Rhp3_RPCFinalizeProgramRequest = decSchema_Rhp3_RPCFinalizeProgramRequest := rfl
theorem tie_symmetric_Rhp3_RPCFinalizeProgramResponse : encSchema_Rhp3_RPCFinalizeProgramResponse = decSchema_Rhp3_RPCFinalizeProgramResponse := rfl
theorem tie_symmetric_Rhp3_RPCFundAccountRequest : encSchema_Rhp3_RPCFundAccountRequest = decSchema_Rhp3_RPCFundAccountRequest := rfl
theorem tie_symmetric_Rhp3_RPCFundAccountResponse : encSchema_Rhp3_RPCFundAccountResponse = decSchema_Rhp3_RPCFundAccountResponse := rfl
theorem tie_symmetric_Rhp3_RPCLatestRevisionRequest : encSchema_Rhp3_RPCLatestRevisionRequest = decSchema_Rhp3_RPCLatestRevisionRequest := rfl
theorem tie_symmetric_Rhp3_RPCLatestRevisionResponse : encSchema_Rhp3_RPCLatestRevisionResponse = decSchema_Rhp3_RPCLatestRevisionResponse := rfl
theorem tie_symmetric_Rhp3_RPCPriceTableResponse : encSchema_Rhp3_RPCPriceTableResponse = decSchema_Rhp3_RPCPriceTableResponse := rfl
theorem tie_symmetric_Rhp3_RPCRenewContractHostAdditions : encSchema_Rhp3_RPCRenewContractHostAdditions = decSchema_Rhp3_RPCRenewContractHostAdditions := rfl
theorem tie_symmetric_Rhp3_RPCRenewContractRequest : encSchema_Rhp3_RPCRenewContractRequest = decSchema_Rhp3_RPCRenewContractRequest := rfl
theorem tie_symmetric_Rhp3_RPCRenewSignatures : encSchema_Rhp3_RPCRenewSignatures = decSchema_Rhp3_RPCRenewSignatures := rfl
theorem tie_symmetric_Rhp3_RPCUpdatePriceTableResponse : encSchema_Rhp3_RPCUpdatePriceTableResponse = decSchema_Rhp3_RPCUpdatePriceTableResponse := rfl
theorem tie_symmetric_Rhp3_SettingsID : encSchema_Rhp3_SettingsID = decSchema_Rhp3_SettingsID := rfl
theorem tie_symmetric_Rhp4_Account : encSchema_Rhp4_Account = decSchema_Rhp4_Account := rfl
theorem tie_symmetric_Rhp4_AccountDeposit : encSchema_Rhp4_AccountDeposit = decSchema_Rhp4_AccountDeposit := rfl
theorem tie_symmetric_Rhp4_AccountToken : encSchema_Rhp4_AccountToken = decSchema_Rhp4_AccountToken := rfl
theorem tie_symmetric_Rhp4_HostPrices : encSchema_Rhp4_HostPrices = decSchema_Rhp4_HostPrices := rfl
theorem tie_symmetric_Rhp4_HostSettings : encSchema_Rhp4_HostSettings = decSchema_Rhp4_HostSettings := rfl
theorem tie_symmetric_Rhp4_PoolAttachment : encSchema_Rhp4_PoolAttachment = decSchema_Rhp4_PoolAttachment := rfl
theorem tie_symmetric_Rhp4_PoolDetachment : encSchema_Rhp4_PoolDetachment = decSchema_Rhp4_PoolDetachment := rfl
theorem tie_symmetric_Rhp4_RPCAccountBalanceRequest : encSchema_Rhp4_RPCAccountBalanceRequest = decSchema_Rhp4_RPCAccountBalanceRequest := rfl
theorem tie_symmetric_Rhp4_RPCAccountBalanceResponse : encSchema_Rhp4_RPCAccountBalanceResponse = decSchema_Rhp4_RPCAccountBalanceResponse := rfl
theorem tie_symmetric_Rhp4_RPCAppendSectorsRequest : encSchema_Rhp4_RPCAppendSectorsRequest = decSchema_Rhp4_RPCAppendSectorsRequest := rfl
theorem tie_symmetric_Rhp4_RPCAppendSectorsResponse : encSchema_Rhp4_RPCAppendSectorsResponse = decSchema_Rhp4_RPCAppendSectorsResponse := rfl
theorem tie_symmetric_Rhp4_RPCAppendSectorsSecondResponse : encSchema_Rhp4_RPCAppendSectorsSecondResponse = decSchema_Rhp4_RPCAppendSectorsSecondResponse := rfl
theorem tie_symmetric_Rhp4_RPCAppendSectorsThirdResponse : encSchema_Rhp4_RPCAppendSectorsThirdResponse = decSchema_Rhp4_RPCAppendSectorsThirdResponse := rfl
theorem tie_symmetric_Rhp4_RPCAttachPoolsRequest : encSchema_Rhp4_RPCAttachPoolsRequest = decSchema_Rhp4_RPCAttachPoolsRequest := rfl
theorem tie_symmetric_Rhp4_RPCAttachPoolsResponse : encSchema_Rhp4_RPCAttachPoolsResponse = decSchema_Rhp4_RPCAttachPoolsResponse := rfl
theorem tie_symmetric_Rhp4_RPCDetachPoolsRequest : encSchema_Rhp4_RPCDetachPoolsRequest = decSchema_Rhp4_RPCDetachPoolsRequest := rfl
theorem tie_symmetric_Rhp4_RPCDetachPoolsResponse : encSchema_Rhp4_RPCDetachPoolsResponse = decSchema_Rhp4_RPCDetachPoolsResponse := rfl
theorem tie_symmetric_Rhp4_RPCError : encSchema_Rhp4_RPCError = decSchema_Rhp4_RPCError := rfl
theorem tie_symmetric_Rhp4_RPCFormContractParams : encSchema_Rhp4_RPCFormContractParams = decSchema_Rhp4_RPCFormContractParams := rfl
theorem tie_symmetric_Rhp4_RPCFormContractRequest : encSchema_Rhp4_RPCFormContractRequest = decSchema_Rhp4_RPCFormContractRequest := rfl
theorem tie_symmetric_Rhp4_RPCFormContractResponse : encSchema_Rhp4_RPCFormContractResponse = decSchema_Rhp4_RPCFormContractResponse := rfl
theorem tie_symmetric_Rhp4_RPCFormContractSecondResponse : encSchema_Rhp4_RPCFormContractSecondResponse = decSchema_Rhp4_RPCFormContractSecondResponse := rfl
theorem tie_symmetric_Rhp4_RPCFormContractThirdResponse : encSchema_Rhp4_RPCFormContractThirdResponse = decSchema_Rhp4_RPCFormContractThirdResponse := rfl
theorem tie_symmetric_Rhp4_RPCFreeSectorsRequest : encSchema_Rhp4_RPCFreeSectorsRequest = decSchema_Rhp4_RPCFreeSectorsRequest := rfl
theorem tie_symmetric_Rhp4_RPCFreeSectorsResponse : encSchema_Rhp4_RPCFreeSectorsResponse = decSchema_Rhp4_RPCFreeSectorsResponse := rfl
theorem tie_symmetric_Rhp4_RPCFreeSectorsSecondResponse : encSchema_Rhp4_RPCFreeSectorsSecondResponse = decSchema_Rhp4_RPCFreeSectorsSecondResponse := rfl
theorem tie_symmetric_Rhp4_RPCFreeSectorsThirdResponse : encSchema_Rhp4_RPCFreeSectorsThirdResponse = decSchema_Rhp4_RPCFreeSectorsThirdResponse := rfl
theorem tie_symmetric_Rhp4_RPCFundAccountsRequest : encSchema_Rhp4_RPCFundAccountsRequest = decSchema_Rhp4_RPCFundAccountsRequest := rfl
theorem tie_symmetric_Rhp4_RPCFundAccountsResponse : encSchema_Rhp4_RPCFundAccountsResponse = decSchema_Rhp4_RPCFundAccountsResponse := rfl
theorem tie_symmetric_Rhp4_RPCLatestRevisionRequest : encSchema_Rhp4_RPCLatestRevisionRequest = decSchema_Rhp4_RPCLatestRevisionRequest := rfl
theorem tie_symmetric_Rhp4_RPCLatestRevisionResponse : encSchema_Rhp4_RPCLatestRevisionResponse = decSchema_Rhp4_RPCLatestRevisionResponse := rfl
theorem tie_symmetric_Rhp4_RPCReadSectorRequest : encSchema_Rhp4_RPCReadSectorRequest = decSchema_Rhp4_RPCReadSectorRequest := rfl
theorem tie_symmetric_Rhp4_RPCReadSectorResponse : encSchema_Rhp4_RPCReadSectorResponse = decSchema_Rhp4_RPCReadSectorResponse := rfl
theorem tie_symmetric_Rhp4_RPCRefreshContractParams : encSchema_Rhp4_RPCRefreshContractParams = decSchema_Rhp4_RPCRefreshContractParams := rfl
theorem tie_symmetric_Rhp4_RPCRefreshContractRequest : encSchema_Rhp4_RPCRefreshContractRequest = decSchema_Rhp4_RPCRefreshContractRequest := rfl
theorem tie_symmetric_Rhp4_RPCRefreshContractResponse : encSchema_Rhp4_RPCRefreshContractResponse = decSchema_Rhp4_RPCRefreshContractResponse := rfl
theorem tie_symmetric_Rhp4_RPCRefreshContractSecondResponse : encSchema_Rhp4_RPCRefreshContractSecondResponse = decSchema_Rhp4_RPCRefreshContractSecondResponse := rfl
theorem tie_symmetric_Rhp4_RPCRefreshContractThirdResponse : encSchema_Rhp4_RPCRefreshContractThirdResponse = decSchema_Rhp4_RPCRefreshContractThirdResponse := rfl
theorem tie_symmetric_Rhp4_RPCRenewContractParams : encSchema_Rhp4_RPCRenewContractParams = decSchema_Rhp4_RPCRenewContractParams := rfl
theorem tie_symmetric_Rhp4_RPCRenewContractRequest : encSchema_Rhp4_RPCRenewContractRequest = decSchema_Rhp4_RPCRenewContractRequest := rfl
theorem tie_symmetric_Rhp4_RPCRenewContractResponse : encSchema_Rhp4_RPCRenewContractResponse = decSchema_Rhp4_RPCRenewContractResponse := rfl
theorem tie_symmetric_Rhp4_RPCRenewContractSecondResponse : encSchema_Rhp4_RPCRenewContractSecondResponse = decSchema_Rhp4_RPCRenewContractSecondResponse := rfl
theorem tie_symmetric_Rhp4_RPCRenewContractThirdResponse : encSchema_Rhp4_RPCRenewContractThirdResponse = decSchema_Rhp4_RPCRenewContractThirdResponse := rfl
theorem tie_symmetric_Rhp4_RPCReplenishAccountsRequest : encSchema_Rhp4_RPCReplenishAccountsRequest = decSchema_Rhp4_RPCReplenishAccountsRequest := rfl
theorem tie_symmetric_Rhp4_RPCReplenishAccountsResponse : encSchema_Rhp4_RPCReplenishAccountsResponse = decSchema_Rhp4_RPCReplenishAccountsResponse := rfl
theorem tie_symmetric_Rhp4_RPCReplenishAccountsSecondResponse : encSchema_Rhp4_RPCReplenishAccountsSecondResponse = decSchema_Rhp4_RPCReplenishAccountsSecondResponse := rfl
theorem tie_symmetric_Rhp4_RPCReplenishAccountsThirdResponse : encSchema_Rhp4_RPCReplenishAccountsThirdResponse = decSchema_Rhp4_RPCReplenishAccountsThirdResponse := rfl
theorem tie_symmetric_Rhp4_RPCSectorRootsRequest : encSchema_Rhp4_RPCSectorRootsRequest = decSchema_Rhp4_RPCSectorRootsRequest := rfl
theorem tie_symmetric_Rhp4_RPCSectorRootsResponse : encSchema_Rhp4_RPCSectorRootsResponse = decSchema_Rhp4_RPCSectorRootsResponse := rfl
theorem tie_symmetric_Rhp4_RPCSettingsRequest : encSchema_Rhp4_RPCSettingsRequest = decSchema_Rhp4_RPCSettingsRequest := rfl
theorem tie_symmetric_Rhp4_RPCSettingsResponse : encSchema_Rhp4_RPCSettingsResponse = decSchema_Rhp4_RPCSettingsResponse := rfl
theorem tie_symmetric_Rhp4_RPCVerifySectorRequest : encSchema_Rhp4_RPCVerifySectorRequest = decSchema_Rhp4_RPCVerifySectorRequest := rfl
theorem tie_symmetric_Rhp4_RPCVerifySectorResponse : encSchema_Rhp4_RPCVerifySectorResponse = decSchema_Rhp4_RPCVerifySectorResponse := rfl
theorem tie_symmetric_Rhp4_RPCWriteSectorRequest : encSchema_Rhp4_RPCWriteSectorRequest = decSchema_Rhp4_RPCWriteSectorRequest := rfl
theorem tie_symmetric_Rhp4_RPCWriteSectorResponse : encSchema_Rhp4_RPCWriteSectorResponse = decSchema_Rhp4_RPCWriteSectorResponse := rfl
theorem tie_symmetric_Types_Address : encSchema_Types_Address = decSchema_Types_Address := rfl
theorem tie_symmetric_Types_Attestation : encSchema_Types_Attestation = decSchema_Types_Attestation := rfl
theorem tie_symmetric_Types_AttestationID : encSchema_Types_AttestationID = decSchema_Types_AttestationID := rfl
theorem tie_symmetric_Types_BlockHeader : encSchema_Types_BlockHeader = decSchema_Types_BlockHeader := rfl
theorem tie_symmetric_Types_BlockID : encSchema_Types_BlockID = decSchema_Types_BlockID := rfl
theorem tie_symmetric_Types_ChainIndex : encSchema_Types_ChainIndex = decSchema_Types_ChainIndex := rfl
theorem tie_symmetric_Types_ChainIndexElement : encSchema_Types_ChainIndexElement = decSchema_Types_ChainIndexElement := rfl
theorem tie_symmetric_Types_CoveredFields : encSchema_Types_CoveredFields = decSchema_Types_CoveredFields := rfl
theorem tie_symmetric_Types_FileContract : encSchema_Types_FileContract = decSchema_Types_FileContract := rfl
theorem tie_symmetric_Types_FileContractElement : encSchema_Types_FileContractElement = decSchema_Types_FileContractElement := rfl
theorem tie_symmetric_Types_FileContractID : encSchema_Types_FileContractID = decSchema_Types_FileContractID := rfl
theorem tie_symmetric_Types_FileContractRevision : encSchema_Types_FileContractRevision = decSchema_Types_FileContractRevision := rfl
theorem tie_symmetric_Types_FoundationAddressUpdate : encSchema_Types_FoundationAddressUpdate = decSchema_Types_FoundationAddressUpdate := rfl
theorem tie_symmetric_Types_Hash256 : encSchema_Types_Hash256 = decSchema_Types_Hash256 := rfl
theorem tie_symmetric_Types_PublicKey : encSchema_Types_PublicKey = decSchema_Types_PublicKey := rfl
theorem tie_symmetric_Types_SatisfiedPolicy : encSchema_Types_SatisfiedPolicy = decSchema_Types_SatisfiedPolicy := rfl
theorem tie_symmetric_Types_SiacoinElement : encSchema_Types_SiacoinElement = decSchema_Types_SiacoinElement := rfl
theorem tie_symmetric_Types_SiacoinInput : encSchema_Types_SiacoinInput = decSchema_Types_SiacoinInput := rfl
theorem tie_symmetric_Types_SiacoinOutputID : encSchema_Types_SiacoinOutputID = decSchema_Types_SiacoinOutputID := rfl
theorem tie_symmetric_Types_SiafundElement : encSchema_Types_SiafundElement = decSchema_Types_SiafundElement := rfl
theorem tie_symmetric_Types_SiafundInput : encSchema_Types_SiafundInput = decSchema_Types_SiafundInput := rfl
theorem tie_symmetric_Types_SiafundOutputID : encSchema_Types_SiafundOutputID = decSchema_Types_SiafundOutputID := rfl
theorem tie_symmetric_Types_Signature : encSchema_Types_Signature = decSchema_Types_Signature := rfl
theorem tie_symmetric_Types_Specifier : encSchema_Types_Specifier = decSchema_Types_Specifier := rfl
theorem tie_symmetric_Types_StateElement : encSchema_Types_StateElement = decSchema_Types_StateElement := rfl
theorem tie_symmetric_Types_StorageProof : encSchema_Types_StorageProof = decSchema_Types_StorageProof := rfl
theorem tie_symmetric_Types_Transaction : encSchema_Types_Transaction = decSchema_Types_Transaction := rfl
theorem tie_symmetric_Types_TransactionID : encSchema_Types_TransactionID = decSchema_Types_TransactionID := rfl
theorem tie_symmetric_Types_TransactionSignature : encSchema_Types_TransactionSignature = decSchema_Types_TransactionSignature := rfl
theorem tie_symmetric_Types_UnlockConditions : encSchema_Types_UnlockConditions = decSchema_Types_UnlockConditions := rfl
theorem tie_symmetric_Types_UnlockKey : encSchema_Types_UnlockKey = decSchema_Types_UnlockKey := rfl
theorem tie_symmetric_Types_V1Block : encSchema_Types_V1Block = decSchema_Types_V1Block := rfl
theorem tie_symmetric_Types_V1SiacoinOutput : encSchema_Types_V1SiacoinOutput = decSchema_Types_V1SiacoinOutput := rfl
theorem tie_symmetric_Types_V1SiafundOutput : encSchema_Types_V1SiafundOutput = decSchema_Types_V1SiafundOutput := rfl
theorem tie_symmetric_Types_V2Block : encSchema_Types_V2Block = decSchema_Types_V2Block := rfl
theorem tie_symmetric_Types_V2BlockData : encSchema_Types_V2BlockData = decSchema_Types_V2BlockData := rfl
theorem tie_symmetric_Types_V2Currency : encSchema_Types_V2Currency = decSchema_Types_V2Currency := rfl
theorem tie_symmetric_Types_V2FileContract : encSchema_Types_V2FileContract = decSchema_Types_V2FileContract := rfl
theorem tie_symmetric_Types_V2FileContractElement : encSchema_Types_V2FileContractElement = decSchema_Types_V2FileContractElement := rfl
theorem tie_symmetric_Types_V2FileContractExpiration : encSchema_Types_V2FileContractExpiration = decSchema_Types_V2FileContractExpiration := rfl
theorem tie_symmetric_Types_V2FileContractRenewal : encSchema_Types_V2FileContractRenewal = decSchema_Types_V2FileContractRenewal := rfl
theorem tie_symmetric_Types_V2FileContractRevision : encSchema_Types_V2FileContractRevision = decSchema_Types_V2FileContractRevision := rfl
theorem tie_symmetric_Types_V2SiacoinInput : encSchema_Types_V2SiacoinInput = decSchema_Types_V2SiacoinInput := rfl
theorem tie_symmetric_Types_V2SiacoinOutput : encSchema_Types_V2SiacoinOutput = decSchema_Types_V2SiacoinOutput := rfl
theorem tie_symmetric_Types_V2SiafundInput : encSchema_Types_V2SiafundInput = decSchema_Types_V2SiafundInput := rfl
theorem tie_symmetric_Types_V2SiafundOutput : encSchema_Types_V2SiafundOutput = decSchema_Types_V2SiafundOutput := rfl
theorem tie_symmetric_Types_V2StorageProof : encSchema_Types_V2StorageProof = decSchema_Types_V2StorageProof := rfl

theorem tie_fields_complete_Consensus_ElementAccumulator : missing_Consensus_ElementAccumulator = [] := rfl
theorem tie_fields_complete_Consensus_State : missing_Consensus_State = ["Network"] := rfl
theorem tie_fields_complete_Consensus_V1BlockSupplement : missing_Consensus_V1BlockSupplement = [] := rfl
theorem tie_fields_complete_Consensus_V1StorageProofSupplement : missing_Consensus_V1StorageProofSupplement = [] := rfl
theorem tie_fields_complete_Consensus_V1TransactionSupplement : missing_Consensus_V1TransactionSupplement = [] := rfl
theorem tie_fields_complete_Consensus_Work : missing_Consensus_Work = [] := rfl
theorem tie_fields_complete_Gateway_Header : missing_Gateway_Header = [] := rfl
theorem tie_fields_complete_Gateway_RPCDiscoverIP : missing_Gateway_RPCDiscoverIP = [] := rfl
theorem tie_fields_complete_Gateway_RPCRelayV2BlockOutline : missing_Gateway_RPCRelayV2BlockOutline = [] := rfl
theorem tie_fields_complete_Gateway_RPCRelayV2Header : missing_Gateway_RPCRelayV2Header = [] := rfl
theorem tie_fields_complete_Gateway_RPCRelayV2TransactionSet : missing_Gateway_RPCRelayV2TransactionSet = [] := rfl
theorem tie_fields_complete_Gateway_RPCSendCheckpoint : missing_Gateway_RPCSendCheckpoint = [] := rfl
theorem tie_fields_complete_Gateway_RPCSendHeaders : missing_Gateway_RPCSendHeaders = [] := rfl
theorem tie_fields_complete_Gateway_RPCSendTransactions : missing_Gateway_RPCSendTransactions = [] := rfl
theorem tie_fields_complete_Gateway_RPCSendV2Blocks : missing_Gateway_RPCSendV2Blocks = [] := rfl
theorem tie_fields_complete_Gateway_RPCShareNodes : missing_Gateway_RPCShareNodes = [] := rfl
theorem tie_fields_complete_Gateway_emptyRequest : missing_Gateway_emptyRequest = [] := rfl
theorem tie_fields_complete_Gateway_emptyResponse : missing_Gateway_emptyResponse = [] := rfl
theorem tie_fields_complete_Rhp2_Challenge : missing_Rhp2_Challenge = [] := rfl
theorem tie_fields_complete_Rhp2_RPCError : missing_Rhp2_RPCError = [] := rfl
theorem tie_fields_complete_Rhp2_RPCFormContractAdditions : missing_Rhp2_RPCFormContractAdditions = [] := rfl
theorem tie_fields_complete_Rhp2_RPCFormContractRequest : missing_Rhp2_RPCFormContractRequest = [] := rfl
theorem tie_fields_complete_Rhp2_RPCFormContractSignatures : missing_Rhp2_RPCFormContractSignatures = [] := rfl
theorem tie_fields_complete_Rhp2_RPCLockRequest : missing_Rhp2_RPCLockRequest = [] := rfl
theorem tie_fields_complete_Rhp2_RPCLockResponse : missing_Rhp2_RPCLockResponse = [] := rfl
theorem tie_fields_complete_Rhp2_RPCReadRequest : missing_Rhp2_RPCReadRequest = [] := rfl
theorem tie_fields_complete_Rhp2_RPCRenewAndClearContractRequest : missing_Rhp2_RPCRenewAndClearContractRequest = [] := rfl
theorem tie_fields_complete_Rhp2_RPCRenewAndClearContractSignatures : missing_Rhp2_RPCRenewAndClearContractSignatures = [] := rfl
theorem tie_fields_complete_Rhp2_RPCSectorRootsRequest : missing_Rhp2_RPCSectorRootsRequest = [] := rfl
theorem tie_fields_complete_Rhp2_RPCSectorRootsResponse : missing_Rhp2_RPCSectorRootsResponse = [] := rfl
theorem tie_fields_complete_Rhp2_RPCSettingsResponse : missing_Rhp2_RPCSettingsResponse = [] := rfl
theorem tie_fields_complete_Rhp2_RPCWriteMerkleProof : missing_Rhp2_RPCWriteMerkleProof = [] := rfl
theorem tie_fields_complete_Rhp2_RPCWriteRequest : missing_Rhp2_RPCWriteRequest = [] := rfl
theorem tie_fields_complete_Rhp2_RPCWriteResponse : missing_Rhp2_RPCWriteResponse = [] := rfl
theorem tie_fields_complete_Rhp2_loopKeyExchangeResponse : missing_Rhp2_loopKeyExchangeResponse = [] := rfl
theorem tie_fields_complete_Rhp3_FundAccountReceipt : missing_Rhp3_FundAccountReceipt = [] := rfl
theorem tie_fields_complete_Rhp3_InstrAppendSector : missing_Rhp3_InstrAppendSector = [] := rfl
theorem tie_fields_complete_Rhp3_InstrAppendSectorRoot : missing_Rhp3_InstrAppendSectorRoot = [] := rfl
theorem tie_fields_complete_Rhp3_InstrDropSectors : missing_Rhp3_InstrDropSectors = [] := rfl
theorem tie_fields_complete_Rhp3_InstrHasSector : missing_Rhp3_InstrHasSector = [] := rfl
theorem tie_fields_complete_Rhp3_InstrReadOffset : missing_Rhp3_InstrReadOffset = [] := rfl
theorem tie_fields_complete_Rhp3_InstrReadRegistry : missing_Rhp3_InstrReadRegistry = [] := rfl
theorem tie_fields_complete_Rhp3_InstrReadRegistryNoVersion : missing_Rhp3_InstrReadRegistryNoVersion = ["Version"] := rfl
theorem tie_fields_complete_Rhp3_InstrReadSector : missing_Rhp3_InstrReadSector = [] := rfl
theorem tie_fields_complete_Rhp3_InstrRevision : missing_Rhp3_InstrRevision = [] := rfl
theorem tie_fields_complete_Rhp3_InstrStoreSector : missing_Rhp3_InstrStoreSector = [] := rfl
theorem tie_fields_complete_Rhp3_InstrSwapSector : missing_Rhp3_InstrSwapSector = [] := rfl
theorem tie_fields_complete_Rhp3_InstrUpdateRegistry : missing_Rhp3_InstrUpdateRegistry = [] := rfl
theorem tie_fields_complete_Rhp3_InstrUpdateRegistryNoType : missing_Rhp3_InstrUpdateRegistryNoType = ["EntryType"] := rfl
theorem tie_fields_complete_Rhp3_InstrUpdateSector : missing_Rhp3_InstrUpdateSector = [] := rfl
theorem tie_fields_complete_Rhp3_PayByContractRequest : missing_Rhp3_PayByContractRequest = [] := rfl
theorem tie_fields_complete_Rhp3_PayByEphemeralAccountRequest : missing_Rhp3_PayByEphemeralAccountRequest = [] := rfl
theorem tie_fields_complete_Rhp3_PaymentResponse : missing_Rhp3_PaymentResponse = [] := rfl
theorem tie_fields_complete_Rhp3_RPCAccountBalanceRequest : missing_Rhp3_RPCAccountBalanceRequest = [] := rfl
theorem tie_fields_complete_Rhp3_RPCAccountBalanceResponse : missing_Rhp3_RPCAccountBalanceResponse = [] := rfl
theorem tie_fields_complete_Rhp3_RPCError : missing_Rhp3_RPCError = [] := rfl
theorem tie_fields_complete_Rhp3_RPCFinalizeProgramRequest : missing_Rhp3_RPCFinalizeProgramRequest = [] := rfl
theorem tie_fields_complete_Rhp3_RPCFinalizeProgramResponse : missing_Rhp3_RPCFinalizeProgramResponse = [] := rfl
theorem tie_fields_complete_Rhp3_RPCFundAccountRequest : missing_Rhp3_RPCFundAccountRequest = [] := rfl
theorem tie_fields_complete_Rhp3_RPCFundAccountResponse : missing_Rhp3_RPCFundAccountResponse = [] := rfl
theorem tie_fields_complete_Rhp3_RPCLatestRevisionRequest : missing_Rhp3_RPCLatestRevisionRequest = [] := rfl
theorem tie_fields_complete_Rhp3_RPCLatestRevisionResponse : missing_Rhp3_RPCLatestRevisionResponse = [] := rfl
theorem tie_fields_complete_Rhp3_RPCPriceTableResponse : missing_Rhp3_RPCPriceTableResponse = [] := rfl
theorem tie_fields_complete_Rhp3_RPCRenewContractHostAdditions : missing_Rhp3_RPCRenewContractHostAdditions = [] := rfl
theorem tie_fields_complete_Rhp3_RPCRenewContractRequest : missing_Rhp3_RPCRenewContractRequest = [] := rfl
theorem tie_fields_complete_Rhp3_RPCRenewSignatures : missing_Rhp3_RPCRenewSignatures = [] := rfl
theorem tie_fields_complete_Rhp3_RPCUpdatePriceTableResponse : missing_Rhp3_RPCUpdatePriceTableResponse = [] := rfl
theorem tie_fields_complete_Rhp3_SettingsID : missing_Rhp3_SettingsID = [] := rfl
theorem tie_fields_complete_Rhp4_Account : missing_Rhp4_Account = [] := rfl
theorem tie_fields_complete_Rhp4_AccountDeposit : missing_Rhp4_AccountDeposit = [] := rfl
theorem tie_fields_complete_Rhp4_AccountToken : missing_Rhp4_AccountToken = [] := rfl
theorem tie_fields_complete_Rhp4_HostPrices : missing_Rhp4_HostPrices = [] := rfl
theorem tie_fields_complete_Rhp4_HostSettings : missing_Rhp4_HostSettings = [] := rfl
theorem tie_fields_complete_Rhp4_PoolAttachment : missing_Rhp4_PoolAttachment = [] := rfl
theorem tie_fields_complete_Rhp4_PoolDetachment : missing_Rhp4_PoolDetachment = [] := rfl
theorem tie_fields_complete_Rhp4_RPCAccountBalanceRequest : missing_Rhp4_RPCAccountBalanceRequest = [] := rfl
theorem tie_fields_complete_Rhp4_RPCAccountBalanceResponse : missing_Rhp4_RPCAccountBalanceResponse = [] := rfl
theorem tie_fields_complete_Rhp4_RPCAppendSectorsRequest : missing_Rhp4_RPCAppendSectorsRequest = [] := rfl
theorem tie_fields_complete_Rhp4_RPCAppendSectorsResponse : missing_Rhp4_RPCAppendSectorsResponse = [] := rfl
theorem tie_fields_complete_Rhp4_RPCAppendSectorsSecondResponse : missing_Rhp4_RPCAppendSectorsSecondResponse = [] := rfl
theorem tie_fields_complete_Rhp4_RPCAppendSectorsThirdResponse : missing_Rhp4_RPCAppendSectorsThirdResponse = [] := rfl
theorem tie_fields_complete_Rhp4_RPCAttachPoolsRequest : missing_Rhp4_RPCAttachPoolsRequest = [] := rfl
theorem tie_fields_complete_Rhp4_RPCAttachPoolsResponse : missing_Rhp4_RPCAttachPoolsResponse = [] := rfl
theorem tie_fields_complete_Rhp4_RPCDetachPoolsRequest : missing_Rhp4_RPCDetachPoolsRequest = [] := rfl
theorem tie_fields_complete_Rhp4_RPCDetachPoolsResponse : missing_Rhp4_RPCDetachPoolsResponse = [] := rfl
theorem tie_fields_complete_Rhp4_RPCError : missing_Rhp4_RPCError = [] := rfl
theorem tie_fields_complete_Rhp4_RPCFormContractParams : missing_Rhp4_RPCFormContractParams = [] := rfl
theorem tie_fields_complete_Rhp4_RPCFormContractRequest : missing_Rhp4_RPCFormContractRequest = [] := rfl
theorem tie_fields_complete_Rhp4_RPCFormContractResponse : missing_Rhp4_RPCFormContractResponse = [] := rfl
theorem tie_fields_complete_Rhp4_RPCFormContractSecondResponse : missing_Rhp4_RPCFormContractSecondResponse = [] := rfl
theorem tie_fields_complete_Rhp4_RPCFormContractThirdResponse : missing_Rhp4_RPCFormContractThirdResponse = [] := rfl
theorem tie_fields_complete_Rhp4_RPCFreeSectorsRequest : missing_Rhp4_RPCFreeSectorsRequest = [] := rfl
theorem tie_fields_complete_Rhp4_RPCFreeSectorsResponse : missing_Rhp4_RPCFreeSectorsResponse = [] := rfl
theorem tie_fields_complete_Rhp4_RPCFreeSectorsSecondResponse : missing_Rhp4_RPCFreeSectorsSecondResponse = [] := rfl
theorem tie_fields_complete_Rhp4_RPCFreeSectorsThirdResponse : missing_Rhp4_RPCFreeSectorsThirdResponse = [] := rfl
theorem tie_fields_complete_Rhp4_RPCFundAccountsRequest : missing_Rhp4_RPCFundAccountsRequest = [] := rfl
theorem tie_fields_complete_Rhp4_RPCFundAccountsResponse : missing_Rhp4_RPCFundAccountsResponse = [] := rfl
theorem tie_fields_complete_Rhp4_RPCLatestRevisionRequest : missing_Rhp4_RPCLatestRevisionRequest = [] := rfl
theorem tie_fields_complete_Rhp4_RPCLatestRevisionResponse : missing_Rhp4_RPCLatestRevisionResponse = [] := rfl
theorem tie_fields_complete_Rhp4_RPCReadSectorRequest : missing_Rhp4_RPCReadSectorRequest = [] := rfl
theorem tie_fields_complete_Rhp4_RPCReadSectorResponse : missing_Rhp4_RPCReadSectorResponse = [] := rfl
theorem tie_fields_complete_Rhp4_RPCRefreshContractParams : missing_Rhp4_RPCRefreshContractParams = [] := rfl
theorem tie_fields_complete_Rhp4_RPCRefreshContractRequest : missing_Rhp4_RPCRefreshContractRequest = [] := rfl
theorem tie_fields_complete_Rhp4_RPCRefreshContractResponse : missing_Rhp4_RPCRefreshContractResponse = [] := rfl
theorem tie_fields_complete_Rhp4_RPCRefreshContractSecondResponse : missing_Rhp4_RPCRefreshContractSecondResponse = [] := rfl
theorem tie_fields_complete_Rhp4_RPCRefreshContractThirdResponse : missing_Rhp4_RPCRefreshContractThirdResponse = [] := rfl
theorem tie_fields_complete_Rhp4_RPCRenewContractParams : missing_Rhp4_RPCRenewContractParams = [] := rfl
theorem tie_fields_complete_Rhp4_RPCRenewContractRequest : missing_Rhp4_RPCRenewContractRequest = [] := rfl
theorem tie_fields_complete_Rhp4_RPCRenewContractResponse : missing_Rhp4_RPCRenewContractResponse = [] := rfl
theorem tie_fields_complete_Rhp4_RPCRenewContractSecondResponse : missing_Rhp4_RPCRenewContractSecondResponse = [] := rfl
theorem tie_fields_complete_Rhp4_RPCRenewContractThirdResponse : missing_Rhp4_RPCRenewContractThirdResponse = [] := rfl
theorem tie_fields_complete_Rhp4_RPCReplenishAccountsRequest : missing_Rhp4_RPCReplenishAccountsRequest = [] := rfl
theorem tie_fields_complete_Rhp4_RPCReplenishAccountsResponse : missing_Rhp4_RPCReplenishAccountsResponse = [] := rfl
theorem tie_fields_complete_Rhp4_RPCReplenishAccountsSecondResponse : missing_Rhp4_RPCReplenishAccountsSecondResponse = [] := rfl
theorem tie_fields_complete_Rhp4_RPCReplenishAccountsThirdResponse : missing_Rhp4_RPCReplenishAccountsThirdResponse = [] := rfl
theorem tie_fields_complete_Rhp4_RPCSectorRootsRequest : missing_Rhp4_RPCSectorRootsRequest = [] := rfl
theorem tie_fields_complete_Rhp4_RPCSectorRootsResponse : missing_Rhp4_RPCSectorRootsResponse = [] := rfl
theorem tie_fields_complete_Rhp4_RPCSettingsRequest : missing_Rhp4_RPCSettingsRequest = [] := rfl
theorem tie_fields_complete_Rhp4_RPCSettingsResponse : missing_Rhp4_RPCSettingsResponse = [] := rfl
theorem tie_fields_complete_Rhp4_RPCVerifySectorRequest : missing_Rhp4_RPCVerifySectorRequest = [] := rfl
theorem tie_fields_complete_Rhp4_RPCVerifySectorResponse : missing_Rhp4_RPCVerifySectorResponse = [] := rfl
theorem tie_fields_complete_Rhp4_RPCWriteSectorRequest : missing_Rhp4_RPCWriteSectorRequest = [] := rfl
theorem tie_fields_complete_Rhp4_RPCWriteSectorResponse : missing_Rhp4_RPCWriteSectorResponse = [] := rfl
theorem tie_fields_complete_Types_Address : missing_Types_Address = [] := rfl
theorem tie_fields_complete_Types_Attestation : missing_Types_Attestation = [] := rfl
theorem tie_fields_complete_Types_AttestationID : missing_Types_AttestationID = [] := rfl
theorem tie_fields_complete_Types_BlockHeader : missing_Types_BlockHeader = [] := rfl
theorem tie_fields_complete_Types_BlockID : missing_Types_BlockID = [] := rfl
theorem tie_fields_complete_Types_ChainIndex : missing_Types_ChainIndex = [] := rfl
theorem tie_fields_complete_Types_ChainIndexElement : missing_Types_ChainIndexElement = [] := rfl
theorem tie_fields_complete_Types_CoveredFields : missing_Types_CoveredFields = [] := rfl
theorem tie_fields_complete_Types_FileContract : missing_Types_FileContract = [] := rfl
theorem tie_fields_complete_Types_FileContractElement : missing_Types_FileContractElement = [] := rfl
theorem tie_fields_complete_Types_FileContractID : missing_Types_FileContractID = [] := rfl
theorem tie_fields_complete_Types_FileContractRevision : missing_Types_FileContractRevision = [] := rfl
theorem tie_fields_complete_Types_FoundationAddressUpdate : missing_Types_FoundationAddressUpdate = [] := rfl
theorem tie_fields_complete_Types_Hash256 : missing_Types_Hash256 = [] := rfl
theorem tie_fields_complete_Types_PublicKey : missing_Types_PublicKey = [] := rfl
theorem tie_fields_complete_Types_SatisfiedPolicy : missing_Types_SatisfiedPolicy = [] := rfl
theorem tie_fields_complete_Types_SiacoinElement : missing_Types_SiacoinElement = [] := rfl
theorem tie_fields_complete_Types_SiacoinInput : missing_Types_SiacoinInput = [] := rfl
theorem tie_fields_complete_Types_SiacoinOutputID : missing_Types_SiacoinOutputID = [] := rfl
theorem tie_fields_complete_Types_SiafundElement : missing_Types_SiafundElement = [] := rfl
theorem tie_fields_complete_Types_SiafundInput : missing_Types_SiafundInput = [] := rfl
theorem tie_fields_complete_Types_SiafundOutputID : missing_Types_SiafundOutputID = [] := rfl
theorem tie_fields_complete_Types_Signature : missing_Types_Signature = [] := rfl
theorem tie_fields_complete_Types_Specifier : missing_Types_Specifier = [] := rfl
theorem tie_fields_complete_Types_StateElement : missing_Types_StateElement = ["shared"] := rfl
theorem tie_fields_complete_Types_StorageProof : missing_Types_StorageProof = [] := rfl
theorem tie_fields_complete_Types_Transaction : missing_Types_Transaction = [] := rfl
theorem tie_fields_complete_Types_TransactionID : missing_Types_TransactionID = [] := rfl
theorem tie_fields_complete_Types_TransactionSignature : missing_Types_TransactionSignature = [] := rfl
theorem tie_fields_complete_Types_UnlockConditions : missing_Types_UnlockConditions = [] := rfl
theorem tie_fields_complete_Types_UnlockKey : missing_Types_UnlockKey = [] := rfl
theorem tie_fields_complete_Types_V1Block : missing_Types_V1Block = ["V2"] := rfl
theorem tie_fields_complete_Types_V1SiacoinOutput : missing_Types_V1SiacoinOutput = [] := rfl
theorem tie_fields_complete_Types_V1SiafundOutput : missing_Types_V1SiafundOutput = [] := rfl
theorem tie_fields_complete_Types_V2Block : missing_Types_V2Block = [] := rfl
theorem tie_fields_complete_Types_V2BlockData : missing_Types_V2BlockData = [] := rfl
theorem tie_fields_complete_Types_V2Currency : missing_Types_V2Currency = [] := rfl
theorem tie_fields_complete_Types_V2FileContract : missing_Types_V2FileContract = [] := rfl
theorem tie_fields_complete_Types_V2FileContractElement : missing_Types_V2FileContractElement = [] := rfl
theorem tie_fields_complete_Types_V2FileContractExpiration : missing_Types_V2FileContractExpiration = [] := rfl
theorem tie_fields_complete_Types_V2FileContractRenewal : missing_Types_V2FileContractRenewal = [] := rfl
theorem tie_fields_complete_Types_V2FileContractRevision : missing_Types_V2FileContractRevision = [] := rfl
theorem tie_fields_complete_Types_V2SiacoinInput : missing_Types_V2SiacoinInput = [] := rfl
theorem tie_fields_complete_Types_V2SiacoinOutput : missing_Types_V2SiacoinOutput = [] := rfl
theorem tie_fields_complete_Types_V2SiafundInput : missing_Types_V2SiafundInput = [] := rfl
theorem tie_fields_complete_Types_V2SiafundOutput : missing_Types_V2SiafundOutput = [] := rfl
theorem tie_fields_complete_Types_V2StorageProof : missing_Types_V2StorageProof = [] := rfl

end C11
