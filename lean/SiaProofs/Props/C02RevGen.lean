import SiaProofs.Props.C02LoopGen
/-!
# C02 / C07 — the revision loop of `validateV2FileContracts`, on REGENERATED code

The loop over `txn.FileContractRevisions` — the closure `validateParent` (block-wide `ext.spent`, the transaction's
`revised` and `resolved` maps, accumulator membership), the proof-height test, the whole closure `validateRevision`
and the bookkeeping write `revised[id] = i` — is translated as one definition.

`c02_v2_revisions_gen`: if it accepts, no contract is revised twice by the transaction (`List.Nodup` of the revised
parent ids, none of them already in `revised`), and every revision individually: its contract was not resolved or
revised earlier in the block (`ext.spent`), is not resolved by this transaction (`resolved`), is an UNRESOLVED member
of the accumulator, has not reached its proof height, and passes `validateRevision` (`C07RevGen`: judged against the
latest in-block revision, signed by the current keys).
-/
namespace C02
open Gen.Types Gen.Consensus GoLoops

structure RevisionOk (ext : Ext) (ms : MidState) (resolved : List (ByteArray × Int)) (fcr : V2FileContractRevision) : Prop where
  notSpentInBlock : (ext.spent ms fcr.Parent.ID).2 = false
  notResolvedHere : (Go.mapGet resolved fcr.Parent.ID (0 : Int)).2 = false
  unresolvedMember : ext.containsUnresolvedV2FileContractElement ms.base.Elements (V2FileContractElement.Share fcr.Parent) = true
  beforeProofHeight : State.childHeight ms.base ≤ fcr.Parent.V2FileContract.ProofHeight
  rules : validateV2FileContracts_validateRevision ext ms (V2FileContractElement.Share fcr.Parent) fcr.Revision = .ok none

def RevStep (ext : Ext) (ms : MidState) (resolved : List (ByteArray × Int)) (fcr : V2FileContractRevision)
    (st st' : List (ByteArray × Int)) : Prop :=
  (Go.mapGet st fcr.Parent.ID (0 : Int)).2 = false ∧ (∃ j, st' = (fcr.Parent.ID, j) :: st) ∧ RevisionOk ext ms resolved fcr

theorem share_id (fce : V2FileContractElement) : (V2FileContractElement.Share fce).ID = fce.ID := by
  unfold V2FileContractElement.Share; rfl

theorem share_share (fce : V2FileContractElement) :
    V2FileContractElement.Share (V2FileContractElement.Share fce) = V2FileContractElement.Share fce := by
  unfold V2FileContractElement.Share StateElement.Share; rfl

theorem c02_v2_revisions_gen (ext : Ext) (ms : MidState) (txn : V2Transaction) (revised resolved : List (ByteArray × Int))
    (h : validateV2FileContracts_revisions ext txn ms revised resolved = .ok none) :
    (txn.FileContractRevisions.map (fun r => r.Parent.ID)).Nodup ∧
    (∀ fcr ∈ txn.FileContractRevisions, fcr.Parent.ID ∉ revised.map Prod.fst ∧ RevisionOk ext ms resolved fcr) := by
  unfold validateV2FileContracts_revisions at h
  simp only [bind, Except.bind] at h
  split at h
  · cases h
  rename_i v hv
  obtain ⟨r, st'⟩ := v
  cases r with
  | some q =>
    simp [pure, Except.pure] at h; subst h; exfalso
    have := forRange_some (P := fun r : Option String => r ≠ none) ?_ txn.FileContractRevisions _ none st' hv
    · exact this rfl
    intro i x st r st1 hx
    repeat' (split at hx)
    all_goals (simp [pure, Except.pure] at hx)
    all_goals (try (rw [← hx.1]; simp))
  | none =>
    have c : Chain (RevStep ext ms resolved) txn.FileContractRevisions revised st' := by
      refine forRange_none (R := RevStep ext ms resolved) ?_ txn.FileContractRevisions _ _ hv
      intro i x st st1 hx
      unfold RevStep
      cases hp : validateV2FileContracts_validateParent ext ms st resolved (V2FileContractElement.Share x.Parent) with
      | some e => simp [hp, pure, Except.pure] at hx
      | none =>
        simp only [hp] at hx
        by_cases hph : x.Parent.V2FileContract.ProofHeight < State.childHeight ms.base
        · simp [hph, pure, Except.pure] at hx
        simp only [hph, decide_false, Bool.false_eq_true, if_false, ne_eq, not_true_eq_false] at hx
        cases hr : validateV2FileContracts_validateRevision ext ms (V2FileContractElement.Share x.Parent) x.Revision with
        | error e => simp [hr] at hx
        | ok rr =>
          cases rr with
          | some e => simp [hr, pure, Except.pure] at hx
          | none =>
            simp [hr, pure, Except.pure] at hx
            -- unpack validateParent = none
            unfold validateV2FileContracts_validateParent at hp
            rw [share_id, share_share] at hp
            cases h1 : (ext.spent ms x.Parent.ID).2
            case true => simp [h1] at hp
            cases h2 : (Go.mapGet st x.Parent.ID (0 : Int)).2
            case true => simp [h1, h2] at hp
            cases h3 : (Go.mapGet resolved x.Parent.ID (0 : Int)).2
            case true => simp [h1, h2, h3] at hp
            cases h4 : ext.containsUnresolvedV2FileContractElement ms.base.Elements (V2FileContractElement.Share x.Parent)
            case false =>
              cases h5 : ext.containsResolvedV2FileContractElement ms.base.Elements (V2FileContractElement.Share x.Parent) <;>
                simp [h1, h2, h3, h4, h5] at hp
            exact ⟨rfl, ⟨i, hx.symm⟩, ⟨h1, h3, h4, by omega, hr⟩⟩
    obtain ⟨nd, fresh⟩ := fresh_keys_nodup (fun r : V2FileContractRevision => r.Parent.ID)
      (fun x st st' r => ⟨mapGet_false r.1, r.2.1⟩) txn.FileContractRevisions revised st' c
    exact ⟨nd, fun fcr hf => ⟨fresh fcr hf, Chain.all (Q := RevisionOk ext ms resolved) (fun _ _ _ r => r.2.2) _ _ _ c fcr hf⟩⟩

end C02
