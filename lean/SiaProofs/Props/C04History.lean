/-
# C04 (continued) — membership along any history of applies and reverts

Combines `C04.c04_member_iff` with C05's invariant (`C05.c05_history`): in every state a
chain-following client can reach, the accumulator accepts a leaf exactly when that leaf —
that element hash, that index, that spent flag — is what currently sits at that position
of the list of all leaves ever added on the current branch, and the proof is the tracked
one. An element spent or rewritten since (the list holds its new hash), taken from a
reverted branch (the list no longer has it), or never created, is rejected.
-/
import SiaProofs.Props.C05
namespace C04
open Sia.ElemAcc C05

section
variable {H : Type} [Hasher H] [Inhabited H] [DecidableEq H]

omit [DecidableEq H] in
theorem indexCommitted_set (ls : List H) (hwf : IndexCommitted ls) (l : Leaf H) :
    IndexCommitted (ls.set l.index l.hash) := by
  intro j hj
  by_cases e : l.index = j
  · subst e
    refine ⟨l.elem, l.spent, ?_⟩
    have : l.index < ls.length := by simpa using hj
    simp [List.getD, List.getElem?_set_self this, Leaf.hash]
  · obtain ⟨e', s', h⟩ := hwf j (by simpa using hj)
    exact ⟨e', s', by simpa [List.getD, List.getElem?_set_ne e] using h⟩

omit [DecidableEq H] in
theorem indexCommitted_write (updated : List (Leaf H)) : ∀ (ls : List H), IndexCommitted ls →
    IndexCommitted (writeLeaves ls updated) := by
  induction updated with
  | nil => intro ls h; exact h
  | cons a rest ih =>
    intro ls h
    simp only [writeLeaves, List.foldl_cons]
    exact ih _ (indexCommitted_set ls h a)

omit [DecidableEq H] in
/-- the index commitment is preserved by every block: rewritten and added leaves hash
    their own `LeafIndex` -/
theorem c04_index_committed_step (ls : List H) (hwf : IndexCommitted ls) (updated added : List (Leaf H)) :
    IndexCommitted (writeLeaves ls updated ++ hashesFrom ls.length added) := by
  have h1 := indexCommitted_write updated ls hwf
  have hlen : (writeLeaves ls updated).length = ls.length := writeLeaves_length _ _
  intro j hj
  rw [List.length_append, hlen, hashesFrom_length] at hj
  rcases Nat.lt_or_ge j ls.length with hlt | hge
  · obtain ⟨e, s, h⟩ := h1 j (by omega)
    refine ⟨e, s, ?_⟩
    rw [← h]
    simp [List.getD, List.getElem?_append_left (show j < (writeLeaves ls updated).length by omega)]
  · have hk : j - ls.length < added.length := by omega
    refine ⟨added[j - ls.length].elem, added[j - ls.length].spent, ?_⟩
    have : (writeLeaves ls updated ++ hashesFrom ls.length added)[j]? =
        some (Hasher.leaf added[j - ls.length].elem j added[j - ls.length].spent) := by
      rw [List.getElem?_append_right (by omega), hlen, hashesFrom_get, List.getElem?_eq_getElem hk]
      simp only [Option.map_some]
      congr 2; omega
    simp [List.getD, this]

/-- **Membership along any history.** In every reachable state (`C05.Hist`), with
    `ls` the leaves ever added on the current branch (index-committed) and `π` the
    tracked proofs: `containsLeaf l` holds iff `l` is the leaf currently at `l.index` and
    carries the tracked proof. -/
theorem c04_live_iff_member (hi : HashInj H) (acc : Acc H) (ls : List H) (π : Nat → List H)
    (h : Hist acc ls π) (hwf : IndexCommitted ls) (l : Leaf H) :
    acc.containsLeaf l = true ↔
      (l.index < ls.length ∧ ls.getD l.index default = l.hash ∧ l.proof = π l.index) := by
  obtain ⟨h1, h2⟩ := c05_history acc ls π h
  rw [c04_member_iff hi acc ls h1 hwf l]
  constructor
  · rintro ⟨a, b, c⟩; exact ⟨a, b, by rw [h2 _ a]; exact c⟩
  · rintro ⟨a, b, c⟩; exact ⟨a, b, by rw [← h2 _ a]; exact c⟩

/-- In particular a leaf that has been spent is no longer accepted as unspent, in any
    reachable state, with any proof. -/
theorem c04_spent_rejected (hi : HashInj H) (acc : Acc H) (ls : List H) (π : Nat → List H)
    (h : Hist acc ls π) (hwf : IndexCommitted ls)
    (e : H) (i : Nat) (hleaf : ls.getD i default = Hasher.leaf e i true) (proof : List H) :
    acc.containsLeaf { elem := e, spent := false, index := i, proof := proof } = false :=
  c04_rejects_wrong_spent_flag hi acc ls (c05_history acc ls π h).1 hwf e i true hleaf proof

/-- … and an element beyond the current branch's leaves (created only on a reverted
    branch, or never) is rejected. -/
theorem c04_reverted_rejected (hi : HashInj H) (acc : Acc H) (ls : List H) (π : Nat → List H)
    (h : Hist acc ls π) (hwf : IndexCommitted ls) (l : Leaf H) (hge : ls.length ≤ l.index) :
    acc.containsLeaf l = false :=
  c04_rejects_beyond hi acc ls (c05_history acc ls π h).1 hwf l hge

end

/-- non-vacuous: a reachable, index-committed state in the term model -/
example : Hist acc3 ls3 (fun j => path ls3 j) ∧ IndexCommitted ls3 :=
  ⟨Hist.init _ _ _ acc3_forest (fun _ _ => rfl),
   c04_index_committed_step [] (fun j hj => by simp at hj) [] ex3⟩

end C04
