import SiaProofs.Props.C17
/-!
# C17, part 2 — the `ReviseFor*` family

Each `ReviseFor*` is `PayWithContract` applied to a contract whose data fields
(filesize, capacity, Merkle root) were adjusted, with the usage priced by the
host's price table.  The theorems lift `c17_pay_with_contract` /
`c17_pay_revision_valid`, and settle the `uint64` arithmetic of filesize and
capacity under the request-validity hypotheses that `RPC*Request.Validate`
guarantees (stated explicitly in each theorem).
-/
namespace C17
open Gen.Types Gen.Rhp4 C15

theorem round4KiB_lt (n : Nat) : round4KiB n < W := by
  unfold round4KiB Go.andNot
  have : (n + 4095) % 18446744073709551616 &&& (2 ^ 64 - 1 - 4095 % 2 ^ 64) ≤ 2 ^ 64 - 1 - 4095 % 2 ^ 64 :=
    Nat.and_le_right
  omega

/-- all prices are genuine 128-bit values, the tip height a genuine uint64 -/
structure PricesWF (p : HostPrices) : Prop where
  cp : WF p.ContractPrice
  coll : WF p.Collateral
  sp : WF p.StoragePrice
  ip : WF p.IngressPrice
  ep : WF p.EgressPrice
  fp : WF p.FreeSectorPrice
  tip : p.TipHeight < W

theorem usageWF_funding {a : Currency} (ha : WF a) : UsageWF ({ AccountFunding := a } : Usage) :=
  ⟨wf_zero, wf_zero, wf_zero, wf_zero, ha, wf_zero⟩

/-- What a successful revision means, in one place: the payment facts of
`c17_pay_with_contract` relative to the usage `u`, consensus acceptance of `fc'` as a
revision of `fc`, and preservation of the live-contract invariants. -/
structure Revised (ch eph : Nat) (fc fc' : V2FileContract) (u : Usage) : Prop where
  wf : FCWF fc'
  renter : val fc'.RenterOutput.Value + cost u = val fc.RenterOutput.Value
  host : val fc'.HostOutput.Value = val fc.HostOutput.Value + cost u
  total : val fc'.RenterOutput.Value + val fc'.HostOutput.Value
        = val fc.RenterOutput.Value + val fc.HostOutput.Value
  missed : val fc'.MissedHostValue + val u.RiskedCollateral = val fc.MissedHostValue
  collateral : fc'.TotalCollateral = fc.TotalCollateral
  revnum : fc'.RevisionNumber = fc.RevisionNumber + 1
  heights : fc'.ProofHeight = fc.ProofHeight ∧ fc'.ExpirationHeight = fc.ExpirationHeight
  parties : fc'.RenterPublicKey = fc.RenterPublicKey ∧ fc'.HostPublicKey = fc.HostPublicKey ∧
            fc'.RenterOutput.Address = fc.RenterOutput.Address ∧ fc'.HostOutput.Address = fc.HostOutput.Address
  accepted : Sia.Ledger.validateRevision ch eph fc fc' = .ok none
  live : fc'.RevisionNumber + 1 < W → Live ch fc'

/-- Generic lift: `mid` is `fc` with only data fields changed (capacity not lowered,
filesize within capacity); paying on `mid` gives `paid`; `fc'` is `paid` up to the
Merkle root.  Then `fc'` is a consensus-valid revision of `fc`. -/
theorem revised_of_pay (ch eph : Nat) (fc mid paid fc' : V2FileContract) (u : Usage)
    (hfc : FCWF fc) (hu : UsageWF u) (live : Live ch fc)
    (m1 : mid.RenterOutput = fc.RenterOutput) (m2 : mid.HostOutput = fc.HostOutput)
    (m3 : mid.MissedHostValue = fc.MissedHostValue) (m4 : mid.TotalCollateral = fc.TotalCollateral)
    (m5 : mid.RevisionNumber = fc.RevisionNumber) (m6 : mid.ProofHeight = fc.ProofHeight)
    (m7 : mid.ExpirationHeight = fc.ExpirationHeight)
    (m8 : mid.RenterPublicKey = fc.RenterPublicKey) (m9 : mid.HostPublicKey = fc.HostPublicKey)
    (mcap : fc.Capacity ≤ mid.Capacity) (mfs : mid.Filesize ≤ mid.Capacity) (mcw : mid.Capacity < W) (mfw : mid.Filesize < W)
    (hpay : PayWithContract mid u = .ok (paid, none))
    (f1 : fc'.Capacity = paid.Capacity) (f2 : fc'.Filesize = paid.Filesize)
    (f3 : fc'.ProofHeight = paid.ProofHeight) (f4 : fc'.ExpirationHeight = paid.ExpirationHeight)
    (f5 : fc'.RenterOutput = paid.RenterOutput) (f6 : fc'.HostOutput = paid.HostOutput)
    (f7 : fc'.MissedHostValue = paid.MissedHostValue) (f8 : fc'.TotalCollateral = paid.TotalCollateral)
    (f9 : fc'.RevisionNumber = paid.RevisionNumber)
    (f10 : fc'.RenterPublicKey = paid.RenterPublicKey) (f11 : fc'.HostPublicKey = paid.HostPublicKey) :
    Revised ch eph fc fc' u := by
  have hmid : FCWF mid := ⟨by rw [m1]; exact hfc.renter, by rw [m2]; exact hfc.host, by rw [m3]; exact hfc.missed,
    by rw [m4]; exact hfc.total, by rw [m5]; exact hfc.rev, mcw, mfw, by rw [m6]; exact hfc.ph, by rw [m7]; exact hfc.eh⟩
  obtain ⟨_, _, _, hok⟩ := c17_pay_with_contract mid paid u none hmid hu hpay
  obtain ⟨wfp, hr, hh, hs, hm, hrev, _, _, same⟩ := hok rfl
  obtain ⟨s1, s2, s3, s4, s5, s6, s7, s8, s9, s10⟩ := same
  rw [m1] at hr hs; rw [m2] at hh hs; rw [m3] at hm
  have hrev' : paid.RevisionNumber = fc.RevisionNumber + 1 := by
    rw [hrev, m5]; exact Nat.mod_eq_of_lt live.revisable
  have wf' : FCWF fc' := ⟨by rw [f5]; exact wfp.renter, by rw [f6]; exact wfp.host, by rw [f7]; exact wfp.missed,
    by rw [f8]; exact wfp.total, by rw [f9]; exact wfp.rev, by rw [f1]; exact wfp.cap, by rw [f2]; exact wfp.fsz,
    by rw [f3]; exact wfp.ph, by rw [f4]; exact wfp.eh⟩
  have hml := live.missed_le_host
  have acc : Sia.Ledger.validateRevision ch eph fc fc' = .ok none := by
    apply validateRevision_accepts ch eph fc fc' hfc wf' live.sum_fits
    · rw [f1, s1]; exact mcap
    · rw [f1, f2, s1, s2]; exact mfs
    · exact live.not_in_window
    · rw [f9]; omega
    · rw [f5, f6]; exact hs
    · rw [f7]; omega
    · rw [f7, f6]; omega
    · rw [f8, s8, m4]
    · rw [f3, s4, m6]; exact live.not_in_window
    · rw [f3, f4, s4, s5, m6, m7]; exact live.window
  refine ⟨wf', by rw [f5]; exact hr, by rw [f6]; exact hh, by rw [f5, f6]; exact hs, by rw [f7]; exact hm,
    by rw [f8, s8, m4], by rw [f9]; exact hrev', ⟨by rw [f3, s4, m6], by rw [f4, s5, m7]⟩,
    ⟨by rw [f10, s9, m8], by rw [f11, s10, m9], by rw [f5, s6, m1], by rw [f6, s7, m2]⟩, acc, fun last => ?_⟩
  have hsf := live.sum_fits
  refine ⟨by rw [f1, f2, s1, s2]; exact mfs, by rw [f7, f6]; omega, by rw [f3, s4, m6]; exact live.not_in_window,
    by rw [f3, f4, s4, s5, m6, m7]; exact live.window, last, by rw [f5, f6]; omega⟩

/-- What a failed revision means: an error is reported only when funds are short, and the
returned contract's funds (output values, missed host value, total collateral, revision
number) are those of the input contract. -/
structure Refused (fc fc' : V2FileContract) : Prop where
  renter : fc'.RenterOutput = fc.RenterOutput
  host : fc'.HostOutput = fc.HostOutput
  missed : fc'.MissedHostValue = fc.MissedHostValue
  collateral : fc'.TotalCollateral = fc.TotalCollateral
  revnum : fc'.RevisionNumber = fc.RevisionNumber

/-! ## fund accounts / replenish / sector roots: no data field changes -/

theorem c17_revise_fund (ch eph : Nat) (fc fc' : V2FileContract) (a : Currency) (u : Usage) (err : Option String)
    (hfc : FCWF fc) (ha : WF a) (live : Live ch fc)
    (h : ReviseForFundAccounts fc a = .ok (fc', u, err)) :
    u = { AccountFunding := a } ∧ cost u = val a ∧
    (err ≠ none ↔ val fc.RenterOutput.Value < val a) ∧
    (err ≠ none → fc' = fc) ∧
    (err = none → Revised ch eph fc fc' u) := by
  unfold ReviseForFundAccounts at h
  obtain ⟨⟨x, e⟩, e1, h⟩ := bind_ok h
  simp only [pure, Except.pure] at h
  cases h
  have hu := usageWF_funding ha
  have hc : cost ({ AccountFunding := a } : Usage) = val a := by simp [cost, val]
  obtain ⟨_, hiff, hfail, _⟩ := c17_pay_with_contract fc fc' _ err hfc hu e1
  refine ⟨rfl, hc, ?_, hfail, ?_⟩
  · rw [hiff, hc]; simp [val]
  · intro he; subst he
    exact revised_of_pay ch eph fc fc fc' fc' _ hfc hu live rfl rfl rfl rfl rfl rfl rfl rfl rfl
      (Nat.le_refl _) live.fsz_le_cap hfc.cap hfc.fsz e1 rfl rfl rfl rfl rfl rfl rfl rfl rfl rfl rfl

theorem c17_revise_replenish (ch eph : Nat) (fc fc' : V2FileContract) (a : Currency) (u : Usage) (err : Option String)
    (hfc : FCWF fc) (ha : WF a) (live : Live ch fc)
    (h : ReviseForReplenish fc a = .ok (fc', u, err)) :
    u = { AccountFunding := a } ∧ cost u = val a ∧
    (err ≠ none ↔ val fc.RenterOutput.Value < val a) ∧
    (err ≠ none → fc' = fc) ∧
    (err = none → Revised ch eph fc fc' u) :=
  c17_revise_fund ch eph fc fc' a u err hfc ha live h

theorem sectorRootsCost_inv {p : HostPrices} (hp : PricesWF p) {n : Nat} {u : Usage}
    (h : p.RPCSectorRootsCost n = .ok u) :
    UsageWF u ∧ cost u = val p.EgressPrice * round4KiB ((32 * n) % W) ∧ val u.RiskedCollateral = 0 := by
  unfold HostPrices.RPCSectorRootsCost at h
  obtain ⟨t1, e1, h⟩ := bind_ok h
  cases h
  obtain ⟨w1, v1, _⟩ := mul64_inv hp.ep (round4KiB_lt _) e1
  refine ⟨⟨wf_zero, wf_zero, w1, wf_zero, wf_zero, wf_zero⟩, ?_, by simp [val]⟩
  simp only [cost]; rw [v1]; simp [val]

theorem c17_revise_roots (ch eph : Nat) (fc fc' : V2FileContract) (p : HostPrices) (n : Nat) (u : Usage) (err : Option String)
    (hfc : FCWF fc) (hp : PricesWF p) (live : Live ch fc)
    (h : ReviseForSectorRoots fc p n = .ok (fc', u, err)) :
    cost u = val p.EgressPrice * round4KiB ((32 * n) % W) ∧ val u.RiskedCollateral = 0 ∧
    (err ≠ none ↔ val fc.RenterOutput.Value < cost u) ∧
    (err ≠ none → fc' = fc) ∧
    (err = none → Revised ch eph fc fc' u) := by
  unfold ReviseForSectorRoots at h
  obtain ⟨u', eu, h⟩ := bind_ok h
  obtain ⟨⟨x, e⟩, e1, h⟩ := bind_ok h
  simp only [pure, Except.pure] at h
  cases h
  obtain ⟨hu, hc, hz⟩ := sectorRootsCost_inv hp eu
  obtain ⟨_, hiff, hfail, _⟩ := c17_pay_with_contract fc fc' _ err hfc hu e1
  refine ⟨hc, hz, ?_, hfail, ?_⟩
  · rw [hiff, hz]; simp
  · intro he; subst he
    exact revised_of_pay ch eph fc fc fc' fc' _ hfc hu live rfl rfl rfl rfl rfl rfl rfl rfl rfl
      (Nat.le_refl _) live.fsz_le_cap hfc.cap hfc.fsz e1 rfl rfl rfl rfl rfl rfl rfl rfl rfl rfl rfl

/-! ## free sectors: the filesize shrinks by whole sectors, no wrap-around -/

theorem toNat_ofNat_mod (n : Nat) : Int.toNat ((Int.ofNat n) % 18446744073709551616) = n % W := by
  have : (Int.ofNat n) % 18446744073709551616 = Int.ofNat (n % 18446744073709551616) := by
    simp only [Int.ofNat_eq_natCast]; omega
  rw [this]; rfl

theorem freeSectorsCost_inv {p : HostPrices} (hp : PricesWF p) {n : Nat} (hn : n < W) {u : Usage}
    (h : p.RPCFreeSectorsCost (Int.ofNat n) = .ok u) :
    UsageWF u ∧ cost u = val p.FreeSectorPrice * n ∧ val u.RiskedCollateral = 0 := by
  unfold HostPrices.RPCFreeSectorsCost at h
  rw [toNat_ofNat_mod, Nat.mod_eq_of_lt hn] at h
  obtain ⟨t1, e1, h⟩ := bind_ok h
  cases h
  obtain ⟨w1, v1, _⟩ := mul64_inv hp.fp hn e1
  refine ⟨⟨w1, wf_zero, wf_zero, wf_zero, wf_zero, wf_zero⟩, ?_, by simp [val]⟩
  simp only [cost]; rw [v1]; simp [val]

/-- `RPCFreeSectorsRequest.Validate` accepts only duplicate-free index lists whose entries
are below the contract's sector count; hence the number of deletions times the sector
size is at most the filesize and `fc.Filesize -= SectorSize * deletions` cannot wrap
(see `c17_free_no_wrap` for the counting step). -/
theorem c17_revise_free (ch eph : Nat) (fc fc' : V2FileContract) (p : HostPrices) (root : ByteArray) (n : Nat)
    (u : Usage) (err : Option String)
    (hfc : FCWF fc) (hp : PricesWF p) (live : Live ch fc)
    (hn : 4194304 * n ≤ fc.Filesize)
    (h : ReviseForFreeSectors fc p root (Int.ofNat n) = .ok (fc', u, err)) :
    (err ≠ none ↔ val fc.RenterOutput.Value < val p.FreeSectorPrice * n) ∧
    (err ≠ none → u = {} ∧ Refused fc fc') ∧
    (err = none →
      cost u = val p.FreeSectorPrice * n ∧ val u.RiskedCollateral = 0 ∧
      fc'.Filesize + 4194304 * n = fc.Filesize ∧ fc'.Capacity = fc.Capacity ∧ fc'.FileMerkleRoot = root ∧
      Revised ch eph fc fc' u) := by
  have hfs := hfc.fsz
  have hnW : n < W := by omega
  unfold ReviseForFreeSectors at h
  rw [toNat_ofNat_mod, Nat.mod_eq_of_lt hnW] at h
  obtain ⟨u', eu, h⟩ := bind_ok h
  obtain ⟨⟨paid, e⟩, e1, h⟩ := bind_ok h
  obtain ⟨hu, hc, hz⟩ := freeSectorsCost_inv hp hnW eu
  have hfsz : (fc.Filesize + 18446744073709551616 - 4194304 * n % 18446744073709551616) % 18446744073709551616
      = fc.Filesize - 4194304 * n := by omega
  rw [hfsz] at e1
  have hcap := hfc.cap
  have hle := live.fsz_le_cap
  have hmid : FCWF { fc with Filesize := fc.Filesize - 4194304 * n } :=
    ⟨hfc.renter, hfc.host, hfc.missed, hfc.total, hfc.rev, hfc.cap, by simp only []; omega, hfc.ph, hfc.eh⟩
  obtain ⟨_, hiff, hfail, _⟩ := c17_pay_with_contract _ paid u' e hmid hu e1
  simp only [] at hiff
  by_cases he : e = none
  · subst he
    simp only [ne_eq, not_true_eq_false, decide_false, Bool.false_eq_true, if_false, pure, Except.pure] at h
    cases h
    refine ⟨?_, fun x => absurd rfl x, fun _ => ⟨hc, hz, ?_, ?_, rfl, ?_⟩⟩
    · have := hiff; rw [hc, hz] at this; simp at this; simp; omega
    · obtain ⟨_, _, _, hok⟩ := c17_pay_with_contract _ paid u none hmid hu e1
      obtain ⟨_, _, _, _, _, _, _, _, same⟩ := hok rfl
      have := same.2.1
      simp only [] at this ⊢
      omega
    · obtain ⟨_, _, _, hok⟩ := c17_pay_with_contract _ paid u none hmid hu e1
      obtain ⟨_, _, _, _, _, _, _, _, same⟩ := hok rfl
      exact same.1
    · exact revised_of_pay ch eph fc { fc with Filesize := fc.Filesize - 4194304 * n } paid _ u hfc hu live
        rfl rfl rfl rfl rfl rfl rfl rfl rfl (Nat.le_refl _) (by simp only []; omega) hfc.cap (by simp only []; omega) e1
        rfl rfl rfl rfl rfl rfl rfl rfl rfl rfl rfl
  · simp only [ne_eq, he, not_false_eq_true, decide_true, if_true, pure, Except.pure] at h
    cases h
    have hp' := hfail he
    refine ⟨?_, fun _ => ⟨rfl, ?_⟩, fun x => absurd x he⟩
    · have := hiff; rw [hc, hz] at this; simp at this
      constructor
      · intro _; exact this.mp he
      · intro _; exact he
    · rw [hp']; exact ⟨rfl, rfl, rfl, rfl, rfl⟩

/-! ## append sectors: filesize grows, capacity grows by the missing whole sectors -/

theorem appendSectorsCost_inv {p : HostPrices} (hp : PricesWF p) {g d : Nat} (hg : g < W) (hd : d < W) {u : Usage}
    (h : p.RPCAppendSectorsCost g d = .ok u) :
    UsageWF u ∧
    cost u = val p.StoragePrice * 4194304 * g * d + val p.IngressPrice * round4KiB ((32 * g) % W) ∧
    val u.RiskedCollateral = val p.Collateral * 4194304 * g * d := by
  unfold HostPrices.RPCAppendSectorsCost at h
  obtain ⟨t1, e1, h⟩ := bind_ok h
  obtain ⟨t2, e2, h⟩ := bind_ok h
  obtain ⟨t3, e3, h⟩ := bind_ok h
  obtain ⟨t4, e4, h⟩ := bind_ok h
  obtain ⟨t5, e5, h⟩ := bind_ok h
  obtain ⟨t6, e6, h⟩ := bind_ok h
  obtain ⟨t7, e7, h⟩ := bind_ok h
  cases h
  obtain ⟨w1, v1, _⟩ := mul64_inv hp.sp (by omega) e1
  obtain ⟨w2, v2, _⟩ := mul64_inv w1 hg e2
  obtain ⟨w3, v3, _⟩ := mul64_inv w2 hd e3
  obtain ⟨w4, v4, _⟩ := mul64_inv hp.ip (round4KiB_lt _) e4
  obtain ⟨w5, v5, _⟩ := mul64_inv hp.coll (by omega) e5
  obtain ⟨w6, v6, _⟩ := mul64_inv w5 hg e6
  obtain ⟨w7, v7, _⟩ := mul64_inv w6 hd e7
  refine ⟨⟨wf_zero, w3, wf_zero, w4, wf_zero, w7⟩, ?_, ?_⟩
  · show val ({} : Currency) + val t3 + val ({} : Currency) + val t4 + val ({} : Currency) = _
    rw [val_zero, v3, v2, v1, v4]; omega
  · show val t7 = _
    rw [v7, v6, v5]

/-- Request validity for `RPCAppendSectors`: `RPCAppendSectorsRequest.Validate` bounds the
batch (`n ≤ MaxSectorBatchSize = 2^18`); that the contract cannot reach 2^64 bytes
(`nowrap`) is guaranteed by the host's storage, not by core — it is the hypothesis that
excludes `uint64` wrap-around of `fc.Filesize += …` / `fc.Capacity += …`. -/
theorem c17_revise_append (ch eph : Nat) (fc fc' : V2FileContract) (p : HostPrices) (root : ByteArray) (n : Nat)
    (u : Usage) (err : Option String)
    (hfc : FCWF fc) (hp : PricesWF p) (live : Live ch fc)
    (nowrap : fc.Capacity + 4194304 * n < W)
    (h : ReviseForAppendSectors fc p root n = .ok (fc', u, err)) :
    ∃ growth dur, growth = n - min n ((fc.Capacity - fc.Filesize) / 4194304) ∧
      dur = (fc.ExpirationHeight + W - p.TipHeight) % W ∧
    (err ≠ none ↔ (val fc.RenterOutput.Value <
          val p.StoragePrice * 4194304 * growth * dur + val p.IngressPrice * round4KiB ((32 * growth) % W)
        ∨ val fc.MissedHostValue < val p.Collateral * 4194304 * growth * dur)) ∧
    (err ≠ none → u = {} ∧ Refused fc fc') ∧
    (err = none →
      cost u = val p.StoragePrice * 4194304 * growth * dur + val p.IngressPrice * round4KiB ((32 * growth) % W) ∧
      val u.RiskedCollateral = val p.Collateral * 4194304 * growth * dur ∧
      fc'.Filesize = fc.Filesize + 4194304 * n ∧
      fc'.Capacity = fc.Capacity + 4194304 * growth ∧
      fc'.Filesize ≤ fc'.Capacity ∧
      (fc.Filesize + 4194304 * n ≤ fc.Capacity → fc'.Capacity = fc.Capacity) ∧
      (fc.Capacity < fc.Filesize + 4194304 * n → fc'.Capacity < fc'.Filesize + 4194304) ∧
      fc'.FileMerkleRoot = root ∧
      Revised ch eph fc fc' u) := by
  have hcap := hfc.cap
  have hle := live.fsz_le_cap
  refine ⟨_, _, rfl, rfl, ?_⟩
  unfold ReviseForAppendSectors at h
  have hg : (n + 18446744073709551616 - min n ((fc.Capacity + 18446744073709551616 - fc.Filesize) % 18446744073709551616 / 4194304)) % 18446744073709551616
      = n - min n ((fc.Capacity - fc.Filesize) / 4194304) := by omega
  simp only [] at h
  rw [hg] at h
  generalize hgr : n - min n ((fc.Capacity - fc.Filesize) / 4194304) = growth at h ⊢
  have hf1 : (fc.Filesize + 4194304 * n % 18446744073709551616) % 18446744073709551616 = fc.Filesize + 4194304 * n := by omega
  have hc1 : (fc.Capacity + 4194304 * growth % 18446744073709551616) % 18446744073709551616 = fc.Capacity + 4194304 * growth := by omega
  rw [hf1, hc1] at h
  obtain ⟨u', eu, h⟩ := bind_ok h
  obtain ⟨⟨paid, e⟩, e1, h⟩ := bind_ok h
  have hgW : growth < W := by omega
  obtain ⟨hu, hc, hr⟩ := appendSectorsCost_inv hp hgW (Nat.mod_lt _ (by omega)) eu
  have hmid : FCWF { fc with Filesize := fc.Filesize + 4194304 * n, Capacity := fc.Capacity + 4194304 * growth, FileMerkleRoot := root } :=
    ⟨hfc.renter, hfc.host, hfc.missed, hfc.total, hfc.rev, by simp only []; omega, by simp only []; omega, hfc.ph, hfc.eh⟩
  obtain ⟨_, hiff, hfail, _⟩ := c17_pay_with_contract _ paid u' e hmid hu e1
  simp only [] at hiff
  rw [hc, hr] at hiff
  by_cases he : e = none
  · subst he
    simp only [ne_eq, not_true_eq_false, decide_false, Bool.false_eq_true, if_false, pure, Except.pure] at h
    cases h
    obtain ⟨_, _, _, hok⟩ := c17_pay_with_contract _ fc' u none hmid hu e1
    obtain ⟨_, _, _, _, _, _, _, _, same⟩ := hok rfl
    obtain ⟨s1, s2, s3, _⟩ := same
    simp only [] at s1 s2 s3
    refine ⟨hiff, fun x => absurd rfl x, fun _ => ⟨hc, hr, s2, s1, by omega, by omega, by omega, s3, ?_⟩⟩
    exact revised_of_pay ch eph fc
      { fc with Filesize := fc.Filesize + 4194304 * n, Capacity := fc.Capacity + 4194304 * growth, FileMerkleRoot := root }
      fc' fc' u hfc hu live
      rfl rfl rfl rfl rfl rfl rfl rfl rfl (by simp only []; omega) (by simp only []; omega) (by simp only []; omega)
      (by simp only []; omega) e1 rfl rfl rfl rfl rfl rfl rfl rfl rfl rfl rfl
  · simp only [ne_eq, he, not_false_eq_true, decide_true, if_true, pure, Except.pure] at h
    cases h
    have hp' := hfail he
    refine ⟨⟨fun _ => hiff.mp he, fun _ => he⟩, fun _ => ⟨rfl, ?_⟩, fun x => absurd x he⟩
    rw [hp']; exact ⟨rfl, rfl, rfl, rfl, rfl⟩

end C17
