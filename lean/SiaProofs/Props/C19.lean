import SiaProofs.Lemmas.Framing
import SiaProofs.Props.C11Irregular
/-!
# C19 — RPC framing admits all valid messages and bounds reads; transports are faithful

Model: `SiaModel/Rhp4/Framing.lean` (bounded reads through `io.LimitedReader`, rhp/v4
request/response framing with the error flag, gateway v1/v2 framing and handshake
decision, rhp/v2 encrypted frames with a symbolic AEAD, rhp/v3 length prefix), over the
schema codec of C11 and the GENERATED limits of `SiaModel/Gen/FactsFraming.lean`.
The per-type `c19_fits_T` theorems are in `C19Fits.lean`.
-/
namespace C19
open Sia.Codec Sia.Codec.Gen Sia.Framing

/-- **size s v = |enc s v|** (the size function of `Codec/Size.lean`) -/
theorem c19_size_eq (E : Env) (s : Sch) (v : Val) : size E s v = (enc E s v).length := size_eq E s v

/-! ## bounded reads (any schema, any environment of lawful leaf codecs) -/

/-- **c19_roundtrip_within_limit**: a canonical message whose encoding fits the limit is
decoded to the same object, pulling exactly its own bytes from the stream. -/
theorem c19_roundtrip_within_limit {E : Env} (hE : EnvOK E) (s : Sch) (hwf : s.wf E = true)
    (N : Nat) (v : Val) (rest : Bytes) (hc : Canon E s v) (hfit : (enc E s v).length ≤ N) :
    readLimited E N s (enc E s v ++ rest) = .ok (v, (enc E s v).length) :=
  readLimitedC_roundtrip (ofSch_ok hE s hwf) N v rest hc hfit

/-- **c19_read_bounded**: whatever the peer sends, a read through a reader limited to `N`
pulls at most `N` bytes, its outcome depends on the first `N` bytes only, and (with
`c10_decode_alloc_bounded`) allocates at most `depth·N`. -/
theorem c19_read_bounded (E : Env) (s : Sch) (N : Nat) :
    (∀ stream v n, readLimited E N s stream = .ok (v, n) → n ≤ N ∧ n ≤ stream.length) ∧
    (∀ a x y : Bytes, N ≤ a.length → readLimited E N s (a ++ x) = readLimited E N s (a ++ y)) :=
  ⟨fun stream v n h => readLimitedC_bounded N stream v n h,
   fun a x y h => readLimitedC_prefix_only _ N a x y h⟩

theorem c19_read_alloc_bounded {E : Env} (hE : EnvOK E) (s : Sch) (hwf : s.wf E = true)
    (hg : s.guarded E = true) (N : Nat) (stream : Bytes) :
    allocOf E (N - (stream.take N).length) s (stream.take N) ≤ s.depth E * N := by
  have h := C10D.c10_decode_alloc_bounded hE (N - (stream.take N).length) s hwf hg (stream.take N)
  have hl : (stream.take N).length ≤ N := by simp; omega
  rw [← Nat.mul_add] at h
  rw [show (stream.take N).length + (N - (stream.take N).length) = N by omega] at h
  exact h

/-- **c19_overlimit_rejected**: a message larger than the limit is refused with an error —
the receiver neither reads past the limit nor returns a partial object. -/
theorem c19_overlimit_rejected {E : Env} (hE : EnvOK E) (s : Sch) (hwf : s.wf E = true)
    (N : Nat) (v : Val) (rest : Bytes) (hc : Canon E s v) (hbig : N < (enc E s v).length) :
    ∃ e, readLimited E N s (enc E s v ++ rest) = .error e :=
  readLimitedC_overlimit (ofSch_ok hE s hwf) N v rest hc hbig

example : readLimited Irregular.env 100 C11.exS (enc Irregular.env C11.exS C11.exV ++ [9, 9]) =
    .ok (C11.exV, 46) :=
  c19_roundtrip_within_limit C11.c11_env_ok C11.exS (by decide) 100 C11.exV [9, 9] (by decide) (by decide)
example : ∃ e, readLimited Irregular.env 45 C11.exS (enc Irregular.env C11.exS C11.exV ++ [9, 9]) = .error e :=
  c19_overlimit_rejected C11.c11_env_ok C11.exS (by decide) 45 C11.exV [9, 9] (by decide) (by decide)

/-! ## rhp/v4 requests and responses -/

/-- size bound from the per-field limits, as a Bool the kernel can evaluate -/
def fitsB (B : Limits) (s : Sch) (extra lim : Nat) : Bool :=
  match maxSize B s with
  | some m => decide (m + extra ≤ lim)
  | none => false

theorem fits_request {E : Env} (B : Limits) (s : Sch) (lim : Nat) (h : fitsB B s 0 lim = true)
    (v : Val) (hc : Canon E s v) (hw : within B s v = true) : (enc E s v).length ≤ lim := by
  unfold fitsB at h
  split at h
  · rename_i m hm
    have := maxSize_bound E B s m v hm hc hw
    simp at h; omega
  · cases h

theorem respObj_length (E : Env) (s : Sch) (v : Val) :
    (rhp4WriteResponse E s (respObj v)).length = 1 + (enc E s v).length := by
  simp [rhp4WriteResponse, rhp4RespCodec, respObj, Codec.tagged, findTag, Codec.ofSch, leBytes_length]

theorem respErr_length (E : Env) (s : Sch) (e : Val) :
    (rhp4WriteResponse E s (respErr e)).length = 1 + (enc E rhp4ErrSch e).length := by
  simp [rhp4WriteResponse, rhp4RespCodec, respErr, Codec.tagged, findTag, Codec.ofSch, leBytes_length]

theorem fits_response {E : Env} (B : Limits) (s : Sch) (maxLen : Nat)
    (h : fitsB B s 1 (rhp4RespLimit maxLen) = true)
    (v : Val) (hc : Canon E s v) (hw : within B s v = true) :
    (rhp4WriteResponse E s (respObj v)).length ≤ rhp4RespLimit maxLen := by
  rw [respObj_length]
  unfold fitsB at h
  split at h
  · rename_i m hm
    have := maxSize_bound E B s m v hm hc hw
    simp at h; omega
  · cases h

theorem rhp4ErrSch_wf (E : Env) : rhp4ErrSch.wf E = true := by
  simp [rhp4ErrSch, encSchema_Rhp4_RPCError, Sch.wf]

theorem rhp4RespCodec_ok {E : Env} (hE : EnvOK E) (s : Sch) (hwf : s.wf E = true) :
    CodecOK (rhp4RespCodec E s) := by
  apply tagged_ok
  intro t c h
  simp only [findTag] at h
  split at h
  · injection h with h; subst h; exact ofSch_ok hE s hwf
  · split at h
    · injection h with h; subst h; exact ofSch_ok hE _ (rhp4ErrSch_wf E)
    · cases h

/-- a response object that fits `RPCError.maxLen() + o.maxLen()` (flag byte included) is
read back as that object -/
theorem c19_response_roundtrip {E : Env} (hE : EnvOK E) (s : Sch) (hwf : s.wf E = true)
    (maxLen : Nat) (v : Val) (rest : Bytes) (hc : Canon E s v)
    (hfit : 1 + (enc E s v).length ≤ rhp4RespLimit maxLen) :
    rhp4ReadResponse E s maxLen (rhp4WriteResponse E s (respObj v) ++ rest) =
      .ok (respObj v, 1 + (enc E s v).length) := by
  have hcan : (rhp4RespCodec E s).canon (respObj v) = true := by
    simp [rhp4RespCodec, respObj, Codec.tagged, findTag, Codec.ofSch]; exact hc
  have h := readLimitedC_roundtrip (rhp4RespCodec_ok hE s hwf) (rhp4RespLimit maxLen) (respObj v) rest hcan
    (by rw [← respObj_length] at hfit; exact hfit)
  rw [← respObj_length]; exact h

theorem rpcError_enc_length (E : Env) (code : Nat) (desc : Bytes) :
    (enc E rhp4ErrSch (rpcError code desc)).length = 9 + desc.length := by
  simp [rhp4ErrSch, encSchema_Rhp4_RPCError, rpcError, enc, Atom.codec, leBytes_length, u64le_length]
  omega

theorem rpcError_canon (E : Env) (code : Nat) (desc : Bytes) (hcode : code < 256) (hd : desc.length < W64) :
    Canon E rhp4ErrSch (rpcError code desc) := by
  simp [Canon, rhp4ErrSch, encSchema_Rhp4_RPCError, rpcError, canon, Atom.codec, isNat, isBytes, hcode, hd]

/-- **c19_error_delivered**: an `RPCError` written as a response is read back as exactly that
error — for EVERY response type — provided `10 + |description| ≤ 1024 + o.maxLen()` (flag,
code, 8-byte length prefix, text): at most 1014 description bytes when the expected response
is empty, more otherwise. -/
theorem c19_error_delivered {E : Env} (hE : EnvOK E) (s : Sch) (hwf : s.wf E = true) (maxLen : Nat)
    (code : Nat) (desc rest : Bytes) (hcode : code < 256) (hd : desc.length < W64)
    (hfit : 10 + desc.length ≤ rhp4RespLimit maxLen) :
    rhp4ReadResponse E s maxLen (rhp4WriteResponse E s (respErr (rpcError code desc)) ++ rest) =
      .ok (respErr (rpcError code desc), 10 + desc.length) := by
  have hcan : (rhp4RespCodec E s).canon (respErr (rpcError code desc)) = true := by
    simp [rhp4RespCodec, respErr, Codec.tagged, findTag, Codec.ofSch]
    exact rpcError_canon E code desc hcode hd
  have hlen : (rhp4WriteResponse E s (respErr (rpcError code desc))).length = 10 + desc.length := by
    rw [respErr_length, rpcError_enc_length]; omega
  have h := readLimitedC_roundtrip (rhp4RespCodec_ok hE s hwf) (rhp4RespLimit maxLen)
    (respErr (rpcError code desc)) rest hcan (by rw [← hlen] at hfit; exact hfit)
  rw [← hlen]; exact h

/-- the bound of `c19_error_delivered` is exact: one byte more and the error is lost (the
caller sees a decoding error instead of the host's error) -/
theorem c19_error_bound_exact {E : Env} (hE : EnvOK E) (s : Sch) (hwf : s.wf E = true) (maxLen : Nat)
    (code : Nat) (desc rest : Bytes) (hcode : code < 256) (hd : desc.length < W64)
    (hbig : rhp4RespLimit maxLen < 10 + desc.length) :
    ∃ e, rhp4ReadResponse E s maxLen (rhp4WriteResponse E s (respErr (rpcError code desc)) ++ rest) = .error e := by
  have hcan : (rhp4RespCodec E s).canon (respErr (rpcError code desc)) = true := by
    simp [rhp4RespCodec, respErr, Codec.tagged, findTag, Codec.ofSch]
    exact rpcError_canon E code desc hcode hd
  have hlen : (rhp4WriteResponse E s (respErr (rpcError code desc))).length = 10 + desc.length := by
    rw [respErr_length, rpcError_enc_length]; omega
  exact readLimitedC_overlimit (rhp4RespCodec_ok hE s hwf) (rhp4RespLimit maxLen) _ rest hcan
    (by rw [← hlen] at hbig; exact hbig)

/-- 1014 description bytes reach the caller even when the expected response is empty -/
example (desc : Bytes) (h : desc.length ≤ 1014) : 10 + desc.length ≤ rhp4RespLimit 0 := by
  simp [rhp4RespLimit, Framing.rhp4_maxLen_RPCError]; omega

/-! ### `RPCFreeSectorsResponse` (candidate F12): exact size, and when it stops fitting -/

/-- a response with `a` old subtree hashes and `b` old leaf hashes -/
def freeSectorsResp (a b : List Val) (root : Val) : Val :=
  .pair (.list a) (.pair (.list b) (.pair root .unit))

theorem encList_const_length {g : Val → Bytes} {k : Nat} (vs : List Val)
    (h : ∀ v ∈ vs, (g v).length = k) : (encList g vs).length = k * vs.length := by
  induction vs with
  | nil => simp [encList]
  | cons v vs ih =>
    simp only [encList, List.length_append, List.length_cons, h v (by simp),
      ih (fun w hw => h w (by simp [hw])), Nat.mul_succ]
    omega

theorem fixed_enc_length (lim n : Nat) (v : Val) (h : (Atom.codec lim (.fixed n)).canon v = true) :
    ((Atom.codec lim (.fixed n)).enc v).length = n := by
  cases v <;> simp [Atom.codec, isBytes] at h
  simp [Atom.codec, h]

/-- **c19_size_RPCFreeSectorsResponse**: the message is exactly `32·(a + b) + 48` bytes
(`a + b` = `DiffProofSize` hashes + freed leaves), 49 with the response flag. -/
theorem c19_size_RPCFreeSectorsResponse (E : Env) (a b : List Val) (root : Val)
    (hc : Canon E encSchema_Rhp4_RPCFreeSectorsResponse (freeSectorsResp a b root)) :
    (enc E encSchema_Rhp4_RPCFreeSectorsResponse (freeSectorsResp a b root)).length =
      32 * (a.length + b.length) + 48 := by
  simp only [Canon, encSchema_Rhp4_RPCFreeSectorsResponse, encSchema_Types_Hash256, freeSectorsResp, canon,
    Bool.and_eq_true, decide_eq_true_eq, List.all_eq_true] at hc
  obtain ⟨⟨_, ha⟩, ⟨_, hb⟩, hr, _⟩ := hc
  simp only [encSchema_Rhp4_RPCFreeSectorsResponse, encSchema_Types_Hash256, freeSectorsResp, enc,
    List.length_append, u64le_length, List.length_nil]
  rw [encList_const_length a (fun v hv => fixed_enc_length E.lim 32 v (ha v hv)),
    encList_const_length b (fun v hv => fixed_enc_length E.lim 32 v (hb v hv)),
    fixed_enc_length E.lim 32 root hr]
  omega

/-- **c19_fits_RPCFreeSectorsResponse_iff**: it fits what `ReadResponse` allows
(`1024 + 20 MiB`) exactly when `a + b ≤ 655 390`; beyond that the renter's `ReadResponse`
fails (`c19_overlimit_rejected`). A request that `Validate` accepts frees up to
`MaxSectorBatchSize = 262 144` sectors, for which a contract of 4 TiB with scattered indices
already needs more hashes than that (harness: `c19-maxlen-too-small:rhp4.RPCFreeSectorsResponse`). -/
theorem c19_fits_RPCFreeSectorsResponse_iff (E : Env) (a b : List Val) (root : Val)
    (hc : Canon E encSchema_Rhp4_RPCFreeSectorsResponse (freeSectorsResp a b root)) :
    (rhp4WriteResponse E encSchema_Rhp4_RPCFreeSectorsResponse (respObj (freeSectorsResp a b root))).length
        ≤ rhp4RespLimit Framing.rhp4_maxLen_RPCFreeSectorsResponse
      ↔ a.length + b.length ≤ 655390 := by
  rw [respObj_length, c19_size_RPCFreeSectorsResponse E a b root hc]
  simp only [rhp4RespLimit, Framing.rhp4_maxLen_RPCError, Framing.rhp4_maxLen_RPCFreeSectorsResponse]
  omega

/-! ## gateway -/

/-- `RPCSendHeaders` response: with at most `Max` headers (what was asked for) it fits the
limit computed from the request, `8 + Max·80 + 8`, exactly -/
theorem c19_gateway_fits_RPCSendHeaders_Response (rMax : Nat) (v : Val)
    (hc : Canon Irregular.env encSchema_Gateway_RPCSendHeaders_Response v)
    (hw : within [("Headers", some rMax), ("Remaining", none)] encSchema_Gateway_RPCSendHeaders_Response v = true) :
    (enc Irregular.env encSchema_Gateway_RPCSendHeaders_Response v).length ≤ Framing.gw_maxLen_RPCSendHeaders_Response rMax := by
  have hm : maxSize [("Headers", some rMax), ("Remaining", none)] encSchema_Gateway_RPCSendHeaders_Response
      = some (8 + rMax * 80 + (8 + 0)) := by
    simp [maxSize, maxSizeIn, optAdd, optMul, encSchema_Gateway_RPCSendHeaders_Response, encSchema_Types_BlockHeader,
      encSchema_Types_BlockID, encSchema_Types_Hash256]
  have := maxSize_bound Irregular.env _ _ _ v hm hc hw
  simp only [Framing.gw_maxLen_RPCSendHeaders_Response]; omega

/-- a zero limit reads nothing (`ReadRequest`/`ReadResponse` return at once) -/
theorem c19_gateway_empty_reads_nothing (E : Env) (s : Sch) (stream : Bytes) :
    gwRead E s 0 stream = .ok (.unit, 0) := rfl

/-- the v1 framing of the handshake: the 8-byte prefix is written, read and ignored; a payload
within `maxLen` is read back, pulling `8 + |payload|` bytes -/
theorem c19_gateway_v1_roundtrip {E : Env} (hE : EnvOK E) (s : Sch) (hwf : s.wf E = true)
    (maxLen : Nat) (v : Val) (rest : Bytes) (hc : Canon E s v) (hl : (enc E s v).length < W64)
    (hfit : (enc E s v).length ≤ maxLen) :
    gwV1Read E s maxLen (gwV1Write (enc E s v) ++ rest) =
      .ok (.pair (.nat (enc E s v).length) (.pair v .unit), 8 + (enc E s v).length) := by
  have hwf' : (Sch.cons "prefix" .u64 (.cons "payload" s .nil)).wf E = true := by simp [Sch.wf, hwf]
  have hc' : Canon E (.cons "prefix" .u64 (.cons "payload" s .nil)) (.pair (.nat (enc E s v).length) (.pair v .unit)) := by
    simp [Canon, canon, Atom.codec, isNat, hl]; exact hc
  have he : enc E (.cons "prefix" .u64 (.cons "payload" s .nil)) (.pair (.nat (enc E s v).length) (.pair v .unit))
      = gwV1Write (enc E s v) := by simp [enc, Atom.codec, gwV1Write]
  have h := c19_roundtrip_within_limit hE _ hwf' (8 + maxLen) _ rest hc' (by rw [he]; simp [gwV1Write, u64le_length]; omega)
  rw [he] at h
  simp only [gwV1Read]; rw [h]; simp [gwV1Write, u64le_length]

/-- the conditions of the model's `validateHeader` are the ones in the code -/
theorem tie_gateway_validateHeader : Framing.gw_validateHeader =
    [("theirs.GenesisID != ours.GenesisID", "peer has different genesis block"),
     ("theirs.UniqueID == ours.UniqueID", "peer has same unique ID as us")] := rfl

/-- **c19_handshake_rejects_mismatch**: the handshake succeeds on both sides iff the genesis
ids agree and the unique ids differ; otherwise BOTH sides fail (the acceptor tells the
dialer why). -/
theorem c19_handshake_rejects_mismatch (d a : Header) :
    (handshake d a = (.accept, .accept) ↔ (d.genesis = a.genesis ∧ d.unique ≠ a.unique)) ∧
    (¬ (d.genesis = a.genesis ∧ d.unique ≠ a.unique) →
      (handshake d a).1 ≠ .accept ∧ (handshake d a).2 ≠ .accept) := by
  by_cases hg : d.genesis = a.genesis <;> by_cases hu : d.unique = a.unique <;>
    simp [handshake, validateHeader, hg, hu, eq_comm]
  all_goals first | (intro h; simp_all) | skip
  all_goals (try simp_all [eq_comm])

example : handshake ⟨[1], [7], []⟩ ⟨[1], [8], []⟩ = (.accept, .accept) := by decide
example : (handshake ⟨[1], [7], []⟩ ⟨[2], [8], []⟩).2 = .reject "peer has different genesis block" := by decide
example : (handshake ⟨[1], [7], []⟩ ⟨[1], [7], []⟩).1 =
    .reject "peer rejected our header: peer has same unique ID as us" := by decide

/-! ## rhp/v2 encrypted frames (symbolic AEAD) -/

/-- correctness of the AEAD (what `chacha20poly1305` guarantees functionally) -/
structure AEADOK (A : AEAD) : Prop where
  open_seal : ∀ n m, A.openF n (A.sealF n m) = some m
  seal_len : ∀ n m, (A.sealF n m).length = m.length + tagSize

/-- symbolic authenticity (a hypothesis, like `HashInj`): the only (nonce, ciphertext) pairs
that open are the ones honestly sealed in this session -/
def NoForgery (A : AEAD) (honest : List (Bytes × Bytes)) : Prop :=
  ∀ n c, A.openF n c ≠ none → (n, c) ∈ honest

/-- **c19_rhp2_frame_roundtrip**: whatever object one side writes (padded to `minMessageSize`
with arbitrary bytes) is exactly what the other side reads, and the session stays open. -/
theorem c19_rhp2_frame_roundtrip {A : AEAD} (hA : AEADOK A) {E : Env} (hE : EnvOK E) (s : Sch)
    (hwf : s.wf E = true) (v : Val) (hc : Canon E s v) (nonce padding rest : Bytes) (maxLen : Nat)
    (hn : nonce.length = nonceSize)
    (hfit : nonceSize + ((enc E s v).length + padding.length) + tagSize ≤ max maxLen Framing.rhp2_minMessageSize)
    (h64 : nonceSize + ((enc E s v).length + padding.length) + tagSize < W64) :
    rhp2ReadMessage A E s none maxLen (rhp2Frame A nonce (enc E s v) padding ++ rest) = (.ok (v, rest), none) := by
  have hbody : (nonce ++ A.sealF nonce (enc E s v ++ padding)).length =
      nonceSize + ((enc E s v).length + padding.length) + tagSize := by
    simp [hA.seal_len, hn]; omega
  simp only [rhp2ReadMessage, rhp2ReadFrame, rhp2Frame, List.append_assoc]
  rw [readU64_append (by rw [hbody]; exact h64)]
  simp only
  rw [if_neg (by rw [hbody]; omega), if_neg (by rw [hbody]; omega)]
  rw [show nonce ++ (A.sealF nonce (enc E s v ++ padding) ++ rest) =
      (nonce ++ A.sealF nonce (enc E s v ++ padding)) ++ rest by simp, takeN_append]
  simp only
  rw [show (nonce ++ A.sealF nonce (enc E s v ++ padding)).take nonceSize = nonce by
        rw [← hn]; simp,
      show (nonce ++ A.sealF nonce (enc E s v ++ padding)).drop nonceSize = A.sealF nonce (enc E s v ++ padding) by
        rw [← hn]; simp,
      hA.open_seal]
  simp only
  rw [C11.c11_roundtrip hE 0 s hwf v padding hc]

/-- the padding rule: a frame is padded up to `minMessageSize` and never truncated — its total
size is `max(4096, 8 + 12 + |payload| + 16)`; in particular for unsealed sizes 4081…4095
(payloads of 4061…4075 bytes) the padding is 0 and the frame is 4097…4111 bytes, with the
WHOLE payload sealed (`c19_rhp2_frame_roundtrip` holds for every size). -/
theorem c19_rhp2_frame_size {A : AEAD} (hA : AEADOK A) (nonce payload : Bytes) (hn : nonce.length = nonceSize) :
    (rhp2Frame A nonce payload (List.replicate (rhp2PadLen payload.length) 0)).length =
      max Framing.rhp2_minMessageSize (8 + nonceSize + payload.length + tagSize) := by
  simp only [rhp2Frame, List.length_append, u64le_length, hA.seal_len, hn, List.length_replicate, rhp2PadLen,
    Framing.rhp2_minMessageSize, nonceSize, tagSize]
  omega

example : rhp2PadLen 4060 = 0 ∧ rhp2PadLen 4061 = 0 ∧ rhp2PadLen 4075 = 0 ∧ rhp2PadLen 4059 = 1 ∧ rhp2PadLen 100 = 3960 := by decide

/-- **c19_rhp2_tamper_detected**: if a read delivers a message at all, the bytes on the wire
were exactly a genuine frame of this session — so ANY modification of length, nonce,
ciphertext or tag of a frame in transit makes the read fail. -/
theorem c19_rhp2_tamper_detected {A : AEAD} (hA : AEADOK A) (nonce payload padding : Bytes)
    (hforge : NoForgery A [(nonce, A.sealF nonce (payload ++ padding))])
    (hn : nonce.length = nonceSize)
    (st : Rhp2State) (maxLen : Nat) (stream pt rest : Bytes) (st' : Rhp2State)
    (h : rhp2ReadFrame A st maxLen stream = (.msg pt rest, st')) :
    stream = rhp2Frame A nonce payload padding ++ rest ∧ pt = payload ++ padding ∧ st = none ∧ st' = none := by
  unfold rhp2ReadFrame at h
  split at h
  · simp at h
  · simp only at h
    split at h
    · simp at h
    · rename_i n r h1
      obtain ⟨hb, hn64⟩ := readU64_ok h1
      split at h
      · simp at h
      · split at h
        · simp at h
        · split at h
          · simp at h
          · rename_i body rest' h2
            obtain ⟨hb2, hl⟩ := takeN_ok h2
            split at h
            · simp at h
            · rename_i pt' h3
              have hmem := hforge (body.take nonceSize) (body.drop nonceSize) (by rw [h3]; simp)
              simp only [List.mem_singleton, Prod.mk.injEq] at hmem
              have hbody : body = nonce ++ A.sealF nonce (payload ++ padding) := by
                rw [← List.take_append_drop nonceSize body, hmem.1, hmem.2]
              rw [hmem.1, hmem.2, hA.open_seal] at h3
              injection h3 with h3
              simp only [Prod.mk.injEq, Rhp2Out.msg.injEq] at h
              obtain ⟨⟨hpt, hrest⟩, hst⟩ := h
              refine ⟨?_, by rw [← hpt, ← h3], rfl, hst.symm⟩
              rw [hb, hb2, ← hl, hbody, ← hrest]
              simp [rhp2Frame]

/-- after an authentication failure the session is closed for good: the sticky error is set
and every later read (and write, in the code) fails without touching the stream -/
theorem c19_rhp2_sticky (A : AEAD) (e : DecErr) (maxLen : Nat) (stream : Bytes) :
    rhp2ReadFrame A (some e) maxLen stream = (.fail false, some e) := rfl

/-- which failures close the session: an AEAD failure does (`setErr`), a refused length or a
short read does not set the sticky error (the caller is expected to drop the connection) -/
theorem c19_rhp2_fatal_iff_sticky (A : AEAD) (maxLen : Nat) (stream : Bytes) (fatal : Bool) (st' : Rhp2State)
    (h : rhp2ReadFrame A none maxLen stream = (.fail fatal, st')) :
    (fatal = true ↔ st' ≠ none) := by
  unfold rhp2ReadFrame at h
  simp only at h
  split at h
  · simp at h; obtain ⟨h1, h2⟩ := h; subst h1; subst h2; simp
  · split at h
    · simp at h; obtain ⟨h1, h2⟩ := h; subst h1; subst h2; simp
    · split at h
      · simp at h; obtain ⟨h1, h2⟩ := h; subst h1; subst h2; simp
      · split at h
        · simp at h; obtain ⟨h1, h2⟩ := h; subst h1; subst h2; simp
        · split at h
          · simp at h; obtain ⟨h1, h2⟩ := h; subst h1; subst h2; simp
          · simp at h

/-- a model of the hypotheses: the "identity cipher with a 16-byte zero tag" satisfies `AEADOK`
(authenticity is a hypothesis about the real cipher and has, of course, no such toy model) -/
def toyAEAD : AEAD :=
  { sealF := fun _ m => m ++ List.replicate 16 0
    openF := fun _ c => if c.length < 16 then none else some (c.take (c.length - 16)) }
example : AEADOK toyAEAD := by
  constructor
  · intro n m; simp [toyAEAD]
  · intro n m; simp [toyAEAD, tagSize]

/-! ## rhp/v3 objects -/

/-- **c19_rhp3_length_accounting_partial**: for every object sent whole (`tail = 0`) the
length `writeObject` announces is the number of bytes that follow, and `readObject` with limit
`maxLen + 1024` reads it back when `8 + that ≤ maxLen + 1024`.
GAP (why `_partial`): the `ExecuteProgram` exception (`ProgramData` / `Output` are sent outside
the announced length and read by separate calls) and the subscription-response prefix are not
modelled; the transport below (`mux`) is exercised by the harness only. -/
theorem c19_rhp3_length_accounting_partial {E : Env} (hE : EnvOK E) (s : Sch) (hwf : s.wf E = true)
    (maxLen : Nat) (r : Val) (rest : Bytes) (hc : (rhp4RespCodec E s).canon r = true)
    (hfit : 8 + ((rhp4RespCodec E s).enc r).length ≤ rhp3Limit maxLen)
    (hlen : ((rhp4RespCodec E s).enc r).length < W64) :
    (rhp3WriteObject E s r 0).take 8 = u64le ((rhp4RespCodec E s).enc r).length ∧
    rhp3ReadObject E s maxLen (rhp3WriteObject E s r 0 ++ rest) =
      .ok (r, 8 + ((rhp4RespCodec E s).enc r).length) := by
  constructor
  · simp only [rhp3WriteObject, Nat.sub_zero]
    rw [← u64le_length ((rhp4RespCodec E s).enc r).length]
    simp
  · have hw : (rhp3WriteObject E s r 0).length = 8 + ((rhp4RespCodec E s).enc r).length := by
      simp [rhp3WriteObject, u64le_length]
    simp only [rhp3ReadObject]
    rw [take_append_le (by rw [hw]; exact hfit)]
    simp only [rhp3WriteObject, Nat.sub_zero, List.append_assoc]
    rw [readU64_append hlen]
    simp only
    rw [if_neg (by omega)]
    rw [(rhp4RespCodec_ok hE s hwf).roundtrip false _ r _ hc]
    simp [u64le_length]; omega

/-- one RPC (subscription frame, id, request) written by `WriteRequest` is read back by the
host's `ReadID` + `ReadRequest`, leaving exactly the rest of the stream -/
theorem rhp3_rpc_roundtrip {E : Env} (hE : EnvOK E) (s : Sch) (hwf : s.wf E = true) (maxLen : Nat)
    (id req : Val) (rest : Bytes) (hid : Canon E rhp3IdSch id) (hreq : Canon E s req)
    (hfit : 9 + (enc E s req).length ≤ rhp3Limit maxLen) (hlen : 1 + (enc E s req).length < W64) :
    rhp3HostReadRPC E s maxLen (rhp3WriteRPC E s id req ++ rest) = .ok ((id, req), rest) := by
  -- the subscription frame
  have hsubv : Canon E rhp3SubSch (.pair (.nat (8 + rhp3Subscriber.length)) (.pair (.bytes rhp3Subscriber) .unit)) := by
    simp [Canon, rhp3SubSch, canon, Atom.codec, isNat, isBytes, rhp3Subscriber, W64]
  have hsube : enc E rhp3SubSch (.pair (.nat (8 + rhp3Subscriber.length)) (.pair (.bytes rhp3Subscriber) .unit)) = rhp3SubFrame := by
    simp [rhp3SubSch, enc, Atom.codec, rhp3SubFrame]
  have hsubl : rhp3SubFrame.length = 20 := by decide
  have hsub := c19_roundtrip_within_limit hE rhp3SubSch (by simp [rhp3SubSch, Sch.wf]) Framing.rhp3_minMessageSize _
    (rhp3WriteObject E rhp3IdSch (respObj id) 0 ++ rhp3WriteObject E s (respObj req) 0 ++ rest) hsubv
    (by rw [hsube, hsubl]; decide)
  rw [hsube, hsubl] at hsub
  -- the id object
  have hidc : (rhp4RespCodec E rhp3IdSch).canon (respObj id) = true := by
    simp [rhp4RespCodec, respObj, Codec.tagged, findTag, Codec.ofSch]; exact hid
  have hidl : ((rhp4RespCodec E rhp3IdSch).enc (respObj id)).length = 17 := by
    have := respObj_length E rhp3IdSch id
    simp only [rhp4WriteResponse] at this
    rw [this]
    cases id <;> simp [Canon, rhp3IdSch, canon, Atom.codec, isBytes] at hid
    simp [rhp3IdSch, enc, Atom.codec, hid]
  have hidr := (c19_rhp3_length_accounting_partial hE rhp3IdSch rfl 16 (respObj id)
    (rhp3WriteObject E s (respObj req) 0 ++ rest) hidc (by rw [hidl]; decide) (by rw [hidl]; decide)).2
  rw [hidl] at hidr
  have hidw : (rhp3WriteObject E rhp3IdSch (respObj id) 0).length = 25 := by
    simp [rhp3WriteObject, u64le_length, hidl]
  -- the request object
  have hrc : (rhp4RespCodec E s).canon (respObj req) = true := by
    simp [rhp4RespCodec, respObj, Codec.tagged, findTag, Codec.ofSch]; exact hreq
  have hrl : ((rhp4RespCodec E s).enc (respObj req)).length = 1 + (enc E s req).length := by
    have := respObj_length E s req
    simp only [rhp4WriteResponse] at this; exact this
  have hrr := (c19_rhp3_length_accounting_partial hE s hwf maxLen (respObj req) rest hrc
    (by rw [hrl]; omega) (by rw [hrl]; exact hlen)).2
  have hrw : (rhp3WriteObject E s (respObj req) 0).length = 8 + ((rhp4RespCodec E s).enc (respObj req)).length := by
    simp [rhp3WriteObject, u64le_length]
  -- assemble
  simp only [respObj] at hidr hidw hrr hrw
  simp only [rhp3HostReadRPC, rhp3WriteRPC, List.append_assoc, respObj] at hsub ⊢
  rw [hsub]
  dsimp only
  rw [if_neg (by simp)]
  rw [show (rhp3SubFrame ++ (rhp3WriteObject E rhp3IdSch (Val.pair (Val.nat 0) id) 0 ++
        (rhp3WriteObject E s (Val.pair (Val.nat 0) req) 0 ++ rest))).drop 20
      = rhp3WriteObject E rhp3IdSch (Val.pair (Val.nat 0) id) 0 ++ (rhp3WriteObject E s (Val.pair (Val.nat 0) req) 0 ++ rest) by
    rw [← hsubl]; simp]
  rw [hidr]
  simp only []
  rw [show (rhp3WriteObject E rhp3IdSch (Val.pair (Val.nat 0) id) 0 ++
        (rhp3WriteObject E s (Val.pair (Val.nat 0) req) 0 ++ rest)).drop (8 + 17)
      = rhp3WriteObject E s (Val.pair (Val.nat 0) req) 0 ++ rest by
    rw [show 8 + 17 = 25 from rfl, ← hidw]; simp]
  rw [hrr]
  simp only []
  rw [← hrw]
  simp

/-- **c19_rhp3_sequence_roundtrip**: `k` RPCs written one after the other on ONE rhp/v3 stream
(each with its own subscription frame, as `WriteRequest` does) are read back by the host as the
same `k` (id, request) pairs, in order, leaving the rest of the stream — over a symbolic mux
(an ordered, lossless byte stream). A writer that sent the subscription frame only once would
not satisfy this: the host's `ReadID` expects one before EVERY id. -/
theorem c19_rhp3_sequence_roundtrip {E : Env} (hE : EnvOK E) (s : Sch) (hwf : s.wf E = true) (maxLen : Nat)
    (rpcs : List (Val × Val)) (rest : Bytes)
    (h : ∀ r ∈ rpcs, Canon E rhp3IdSch r.1 ∧ Canon E s r.2 ∧
      9 + (enc E s r.2).length ≤ rhp3Limit maxLen ∧ 1 + (enc E s r.2).length < W64) :
    rhp3HostReadSeq E s maxLen rpcs.length (rhp3WriteSeq E s rpcs ++ rest) = .ok (rpcs, rest) := by
  induction rpcs with
  | nil => rfl
  | cons r rs ih =>
    obtain ⟨id, req⟩ := r
    obtain ⟨h1, h2, h3, h4⟩ := h (id, req) (by simp)
    simp only [List.length_cons, rhp3HostReadSeq, rhp3WriteSeq, List.append_assoc]
    rw [rhp3_rpc_roundtrip hE s hwf maxLen id req _ h1 h2 h3 h4]
    simp only
    rw [ih (fun r hr => h r (by simp [hr]))]

/-- the second RPC of a stream without its own subscription frame is NOT read back: the host
takes the id object's length prefix for the subscription frame (model of the seeded defect) -/
example : rhp3HostReadRPC Env.default (.fixed 1) 100
    (rhp3WriteObject Env.default rhp3IdSch (respObj (.bytes (List.replicate 16 7))) 0 ++
      rhp3WriteObject Env.default (.fixed 1) (respObj (.bytes [9])) 0) = .error .invalid := rfl

/-! ## ties: the constants and limit expressions the model uses are the ones in the code -/

theorem tie_rhp4_read_limits :
    Framing.rhp4_ReadRequestLimit = "o.maxLen()" ∧
    Framing.rhp4_ReadResponseLimit = "(*RPCError)(nil).maxLen() + o.maxLen()" := by constructor <;> rfl

/-- the protocol limits `ValidLimits` refers to are the ones `Validate` enforces -/
theorem tie_rhp4_validate_bounds : Framing.rhp4_validateBounds = [
    ("RPCAppendSectorsRequest", "uint64(len(req.Sectors))", "MaxSectorBatchSize"),
    ("RPCAttachPoolsRequest", "uint64(len(req.Attachments))", "MaxAccountBatchSize"),
    ("RPCDetachPoolsRequest", "uint64(len(req.Detachments))", "MaxAccountBatchSize"),
    ("RPCFreeSectorsRequest", "uint64(len(req.Indices))", "MaxSectorBatchSize"),
    ("RPCFundAccountsRequest", "len(req.Deposits)", "MaxAccountBatchSize"),
    ("RPCReadSectorRequest", "req.Offset", "SectorSize"),
    ("RPCReplenishAccountsRequest", "len(req.Accounts)", "MaxAccountBatchSize"),
    ("RPCSectorRootsRequest", "req.Length", "MaxSectorBatchSize"),
    ("RPCWriteSectorRequest", "req.DataLength", "SectorSize")] := rfl

theorem tie_rhp4_constants :
    Framing.rhp4_SectorSize = 4194304 ∧ Framing.rhp4_MaxSectorBatchSize = 262144 ∧
    Framing.rhp4_MaxAccountBatchSize = 1000 ∧ Framing.rhp4_maxLen_RPCError = 1024 ∧
    Framing.rhp4_reasonableObjectSize = 10240 ∧ Framing.rhp4_reasonableTransactionSetSize = 102400 := by decide

/-- `sizeof(T{})` of the code = size of the zero value under the generated schema -/
theorem tie_rhp4_sizeof :
    Framing.rhp4_sizeofCurrency = 16 ∧ Framing.rhp4_sizeofHash = 32 ∧ Framing.rhp4_sizeofSignature = 64 ∧
    Framing.rhp4_sizeofContract = 392 ∧ Framing.rhp4_sizeofPrices = 176 ∧ Framing.rhp4_sizeofAccount = 32 ∧
    Framing.rhp4_sizeofAccountToken = 136 ∧ Framing.rhp4_sizeofAccountDeposit = 48 ∧
    Framing.rhp4_sizeofPoolAttachment = 136 ∧ Framing.rhp4_sizeofPoolDetachment = 136 := by decide +kernel

theorem tie_gateway_handshake_limits :
    Framing.gw_handshakeLimits = [("writeHeader", 128), ("readHeader", 168), ("Dial", 128), ("Accept", 128)] := rfl

theorem tie_min_message_sizes : Framing.rhp2_minMessageSize = 4096 ∧ Framing.rhp3_minMessageSize = 1024 := by decide

theorem tie_rhp2_read_checks : Framing.rhp2_readMessageChecks =
    ["msgSize > maxLen", "msgSize < uint64(t.aead.NonceSize()+t.aead.Overhead())"] := rfl

theorem tie_rhp3_read_checks : Framing.rhp3_readObjectChecks = ["maxLen += minMessageSize", "uint64(l) > maxLen"] := rfl

end C19
