import SiaProofs.Props.C08
import SiaProofs.Props.C12
import SiaProofs.Lemmas.LedgerC03Fnd
/-!
# C03 — Spends, revisions, renewals, attestations need content-binding authorisation

Two layers.

* **Ledger model** (`SiaModel/Ledger/Model.lean`, tied to `ValidateBlock` by the `ledger-block`
  correspondence op): signatures enter as verdict bits computed by the harness with the real
  `VerifyHash` / `SpendPolicy.Verify` over the real sighashes.  `c03_accept_requires_auth` states
  which bits an accepted block forces to be true, for every transaction of the block;
  `c03_foundation_update_authorised` that the Foundation addresses only move through a transaction
  that passed the Foundation checks.
* **Id model** (`SiaModel/Ids`): `c03_sighash_binds` — equal sighash ⇒ equal covered content, per
  sighash kind (from C11's encoder injectivity and the hypothesis `HashInj`).

Which keys the code hands to signature verification is a generated fact, tied below: a revision is
verified under the keys of `cur` (the contract as it currently stands, in-block revision included),
a renewal under the keys of the parent element's contract (pre-block; DESIGN F8 — the harness
reports the corner "renewal after an in-block key rotation" under the stable key
`c03-renewal-after-inblock-key-rotation`).
-/
namespace C03
open Sia.Ledger

/-! ## ties -/

/-- a formation is verified under the contract's own keys; a revision under the keys of `cur` -/
theorem tie_revision_keys :
    Gen.FactsIds.formationSigArgs = [["fc", "fc.RenterPublicKey", "fc.HostPublicKey"]] ∧
    Gen.FactsIds.revisionSigArgs = [["rev", "cur.RenterPublicKey", "cur.HostPublicKey"]] ∧
    Gen.FactsIds.revisionCurDefs = ["cur := fce.V2FileContract",
      "if i, ok := ms.elements[fce.ID]; ok && ms.v2fces[i].Revision != nil", "cur = *ms.v2fces[i].Revision"] := by
  refine ⟨by rfl, by rfl, by rfl⟩

/-- the contract signature check: both signatures over `ContractSigHash(fc)` -/
theorem tie_contract_sig_check :
    Gen.FactsIds.contractSigCheckParams = Sia.Ids.Spec.contractSigCheckParams ∧
    Gen.FactsIds.contractSigCheckBody = Sia.Ids.Spec.contractSigCheckBody := by
  constructor <;> rfl

/-- a renewal is verified under the keys of the parent element's contract, over `RenewalSigHash`;
its new contract is validated like a formation -/
theorem tie_renewal_keys :
    Gen.FactsIds.renewalVerifyCalls = [["fc.RenterPublicKey", "renewalHash", "renewal.RenterSignature"],
      ["fc.HostPublicKey", "renewalHash", "renewal.HostSignature"]] ∧
    Gen.FactsIds.renewalDefs = ["renewal := *r", "renewalHash := ms.base.RenewalSigHash(renewal)"] ∧
    Gen.FactsIds.resolutionFcDefs = ["fc := fcr.Parent.V2FileContract"] ∧
    Gen.FactsIds.renewalContractCalls = [["renewal.NewContract"]] := by
  refine ⟨by rfl, by rfl, by rfl, by rfl⟩

theorem tie_attestation_check : Gen.FactsIds.validateAttestationsBody = Sia.Ids.Spec.validateAttestationsBody := by rfl

theorem tie_foundation_checks :
    Gen.FactsIds.validateFoundationUpdateBody = Sia.Ids.Spec.validateFoundationUpdateBody ∧
    Gen.FactsIds.foundationSignedCheck = Sia.Ids.Spec.foundationSignedCheck := by
  constructor <;> rfl

/-- inputs: the revealed policy must hash to the parent's address and be satisfied over
`InputSigHash(txn)`; v1 signatures are verified over `WholeSigHash` / `PartialSigHash` -/
theorem tie_input_auth :
    Gen.FactsIds.validateV2SpendPolicyBody = Sia.Ids.Spec.validateV2SpendPolicyBody ∧
    Gen.FactsIds.validateV2SiacoinsAuth = Sia.Ids.Spec.validateV2SiacoinsAuth ∧
    Gen.FactsIds.validateV2SiafundsAuth = Sia.Ids.Spec.validateV2SiafundsAuth ∧
    Gen.FactsIds.v1SigVerify = Sia.Ids.Spec.v1SigVerify := by
  refine ⟨by rfl, by rfl, by rfl, by rfl⟩

/-! ## an accepted block forces every authorisation bit -/

/-- what acceptance forces for a v1 transaction: valid signatures, and every revealed unlock
conditions hash to the address committed in the parent -/
structure V1Auth (L : Ledger) (t : Txn1) : Prop where
  sigsOk : t.sigsOk = true
  scAddr : ∀ sci ∈ t.scIns, ∃ s : Mid, s.base = L ∧ ∃ p, s.scElement t.supp sci.parent = some p ∧ sci.ucAddr = p.addr
  sfAddr : ∀ sfi ∈ t.sfIns, ∃ s : Mid, s.base = L ∧ ∃ p, s.sfElement t.supp sfi.parent = some p ∧
    (sfi.ucAddr = p.addr ∨ (L.child ≥ L.P.hfDevAddr ∧ p.addr = L.P.devOldAddr ∧ sfi.ucAddr = L.P.devNewAddr))
  revAddr : ∀ r ∈ t.revs, ∃ s : Mid, s.base = L ∧ ∃ p, s.fc1Element t.supp r.parent = some p ∧ r.ucAddr = p.fc.unlockHash
  foundation : L.child ≥ L.P.hfFoundation → ∀ u signed, t.foundation = some (u, signed) → signed = true

/-- what acceptance forces for a v2 transaction -/
structure V2Auth (L : Ledger) (t : Txn2) : Prop where
  scIns : ∀ sci ∈ t.scIns, sci.addrOk = true ∧ sci.authOk = true
  sfIns : ∀ sfi ∈ t.sfIns, sfi.addrOk = true ∧ sfi.authOk = true
  formations : ∀ x ∈ t.fcs, x.2.2 = true
  revisions : ∀ r ∈ t.revs, r.sigCurOk = true
  renewals : ∀ r ∈ t.ress, ∀ rn, r.res = .renewal rn →
    rn.newSigOk = true ∧ rn.sigOk = true ∧
      r.parent.fc.renterKey = rn.newContract.renterKey ∧ r.parent.fc.hostKey = rn.newContract.hostKey
  attestations : t.attsOk = true
  foundation : ∀ a, t.newFoundation = some a → ∃ sci ∈ t.scIns, sci.parent.addr = L.fFailsafe ∧ sci.addrOk = true ∧ sci.authOk = true

theorem renewalCheck_ok {ms : Mid} {fc : Fc2} {rn : Renewal} (h : renewalCheck ms fc rn = .ok ()) :
    rn.newSigOk = true ∧ rn.sigOk = true ∧ fc.renterKey = rn.newContract.renterKey ∧ fc.hostKey = rn.newContract.hostKey := by
  unfold renewalCheck at h
  split at h
  · exact absurd h (reject_ne_ok _ _)
  rename_i hk1
  split at h
  · exact absurd h (reject_ne_ok _ _)
  rename_i hk2
  obtain ⟨a, _, h⟩ := bind_ok_iff.1 h
  obtain ⟨b, _, h⟩ := bind_ok_iff.1 h
  obtain ⟨c, _, h⟩ := bind_ok_iff.1 h
  obtain ⟨d, _, h⟩ := bind_ok_iff.1 h
  split at h
  · exact absurd h (reject_ne_ok _ _)
  obtain ⟨e, _, h⟩ := bind_ok_iff.1 h
  obtain ⟨f, _, h⟩ := bind_ok_iff.1 h
  obtain ⟨g, _, h⟩ := bind_ok_iff.1 h
  obtain ⟨i, _, h⟩ := bind_ok_iff.1 h
  split at h
  · exact absurd h (reject_ne_ok _ _)
  obtain ⟨hc, h⟩ := bind_unit_ok_iff.1 h
  have hs := ((validateContract2_ok_iff ms rn.newContract rn.newSigOk).1 hc).sig
  split at h
  · rename_i hsig
    exact ⟨hs, hsig, Decidable.not_not.1 hk1, Decidable.not_not.1 hk2⟩
  · exact absurd h (reject_ne_ok _ _)

theorem validateArbitraryData_ok {ms : Mid} {t : Txn1} (h : validateArbitraryData ms t = .ok ())
    (hf : ms.base.child ≥ ms.base.P.hfFoundation) : ∀ u signed, t.foundation = some (u, signed) → signed = true := by
  intro u signed ht
  unfold validateArbitraryData at h
  rw [if_neg (by omega), ht] at h
  cases u with
  | none => exact absurd h (reject_ne_ok _ _)
  | some pf =>
    obtain ⟨p, f⟩ := pf
    simp only at h
    split at h
    · exact absurd h (reject_ne_ok _ _)
    · split at h
      · assumption
      · exact absurd h (reject_ne_ok _ _)

theorem validateFoundationUpdate_ok {ms : Mid} {t : Txn2} (h : validateFoundationUpdate ms t = .ok ()) :
    ∀ a, t.newFoundation = some a → ∃ sci ∈ t.scIns, sci.parent.addr = ms.base.fFailsafe := by
  intro a ha
  unfold validateFoundationUpdate at h
  rw [ha] at h
  simp only at h
  split at h
  · rename_i hany
    obtain ⟨sci, hm, hp⟩ := List.any_eq_true.1 hany
    exact ⟨sci, hm, by simpa using hp⟩
  · exact absurd h (reject_ne_ok _ _)

/-- **c03_accept_requires_auth**: a block is accepted only if every v1 transaction carries valid
signatures (`sigsOk`: the verdict of `validateSignatures` over the whole/partial sighashes) and
every revealed unlock conditions hash to the parent's address; every v2 input reveals a policy
that hashes to the parent's address (`addrOk`) and is satisfied over the input sighash
(`authOk`); every v2 formation is signed by its own keys, every revision by the keys of the
contract as it currently stands (`sigCurOk`), every renewal by the keys of its parent (`sigOk`)
with a validly signed new contract (`newSigOk`) that keeps both keys; every attestation is signed
by its key (`attsOk`); a Foundation address change needs the v1 signed check resp. an
(authorised) input from the management address. -/
theorem c03_accept_requires_auth (L : Ledger) (b : Block) (pid : Id) (ms : Mid) (h : validateBlock L b pid = .ok ms) :
    (∀ t ∈ b.txns1, V1Auth L t) ∧ (∀ t ∈ b.txns2, V2Auth L t) := by
  obtain ⟨h1, h2⟩ := C08.c08_block_txns_validated L b pid ms h
  constructor
  · intro t ht
    obtain ⟨s, hb, hv⟩ := h1 t ht
    obtain ⟨_, _, _, _, hsc, hsf, hfc, harb, hsig⟩ := (validateTransaction_ok_iff s t pid b.maxWeight).1 hv
    refine ⟨((validateSignatures_ok_iff t).1 hsig).2, ?_, ?_, ?_, ?_⟩
    · intro sci hm
      obtain ⟨p, hp, hr⟩ := validateSiacoins_ok_rules hsc sci hm
      exact ⟨s, hb, p, hp, hr.addr⟩
    · intro sfi hm
      obtain ⟨p, hp, hr⟩ := ((validateSiafunds_ok_iff s t).1 hsf).1 sfi hm
      refine ⟨s, hb, p, hp, ?_⟩
      have := hr.addr
      rwa [hb] at this
    · intro r hm
      obtain ⟨p, hp, hr⟩ := ((validateFileContracts_ok_iff s t pid).1 hfc).2.1 r hm
      exact ⟨s, hb, p, hp, hr.addr⟩
    · intro hf
      exact validateArbitraryData_ok harb (by rw [hb]; exact hf)
  · intro t ht
    obtain ⟨s, hb, hv⟩ := h2 t ht
    obtain ⟨_, _, _, _, hsc, hsf, hfc, hatt, hfu⟩ := (validateV2Transaction_ok_iff s t b.maxWeight).1 hv
    obtain ⟨isc, _, _⟩ := (validateV2Siacoins_ok_iff s t).1 hsc
    obtain ⟨isf, _, _⟩ := (validateV2Siafunds_ok_iff s t).1 hsf
    obtain ⟨f0, f1, _, f2, _⟩ := (validateV2FileContracts_ok_iff s t).1 hfc
    refine ⟨fun sci hm => ⟨(isc sci hm).addrOk, (isc sci hm).authOk⟩, fun sfi hm => ⟨(isf sfi hm).addrOk, (isf sfi hm).authOk⟩,
      fun x hm => (f0 x hm).sig, fun r hm => (f1 r hm).revision.sig, ?_, hatt, ?_⟩
    · intro r hm rn hr
      have hk := (f2 r hm).kind
      unfold Res2KindRules at hk
      rw [hr] at hk
      exact renewalCheck_ok hk
    · intro a ha
      obtain ⟨sci, hm, hp⟩ := validateFoundationUpdate_ok hfu a ha
      exact ⟨sci, hm, by rw [← hb]; exact hp, (isc sci hm).addrOk, (isc sci hm).authOk⟩

/-- non-vacuity: a block with one v2 transaction spending `e0` with valid witness bits is accepted,
the same transaction with `authOk := false` is rejected -/
example : ∃ ms, validateV2Transaction (C08.Ex.M 10) (C08.tSpend2 C08.Ex.e0) 100 = .ok ms := ⟨(), by decide⟩
example : validateV2Transaction (C08.Ex.M 10)
    { C08.tSpend2 C08.Ex.e0 with scIns := [{ parent := C08.Ex.e0, addrOk := true, authOk := false }] } 100 =
    .error (.reject "failed to satisfy spend policy") := by decide

/-! ## the Foundation addresses only move through an authorised transaction -/

/-- a v1 transaction that carries a decodable Foundation update which passed the "signed by a current
Foundation key" check of `validateArbitraryData` -/
def V1FoundationAuth (t : Txn1) : Prop := ∃ u, t.foundation = some (u, true)

/-- a v2 transaction that names a new Foundation address and spends (with an address-matching, satisfied
policy) an input controlled by the management address of the parent state -/
def V2FoundationAuth (L : Ledger) (t : Txn2) : Prop :=
  ∃ a, t.newFoundation = some a ∧ ∃ sci ∈ t.scIns, sci.parent.addr = L.fFailsafe ∧ sci.addrOk = true ∧ sci.authOk = true

theorem a1Final_fnd (s : Mid) (t : Txn1) :
    (a1Final s t).fnd = s.fnd ∨ (s.base.child ≥ s.base.P.hfFoundation + 1 ∧ ∃ x, t.foundation = some x) := by
  unfold a1Final
  split
  · rename_i hc
    split
    · exact Or.inr ⟨hc, _, by assumption⟩
    · exact Or.inr ⟨hc, _, by assumption⟩
    · exact Or.inl rfl
  · exact Or.inl rfl

theorem a2Final_fnd (s : Mid) (t : Txn2) : (a2Final s t).fnd = s.fnd ∨ ∃ a, t.newFoundation = some a := by
  unfold a2Final
  simp only []
  split
  · exact Or.inr ⟨_, by assumption⟩
  · exact Or.inl rfl

theorem vb1Step_fnd {L : Ledger} {pid mw : Nat} {s s' : Mid} {t : Txn1} (hb : s.base = L) (h : vb1Step pid mw s t = .ok s') :
    s'.fnd = s.fnd ∨ V1FoundationAuth t := by
  unfold vb1Step at h
  obtain ⟨_, hv, ha⟩ := bind_ok_iff.1 h
  obtain ⟨s0, hf, hb0, rfl⟩ := applyTransaction_fnd ha
  rcases a1Final_fnd s0 t with hk | ⟨hc, x, hx⟩
  · exact Or.inl (by rw [hk, hf])
  · right
    obtain ⟨_, _, _, _, _, _, _, harb, _⟩ := (validateTransaction_ok_iff s t pid mw).1 hv
    obtain ⟨u, signed⟩ := x
    have := validateArbitraryData_ok harb (by rw [← hb0]; omega) u signed hx
    subst this
    exact ⟨u, hx⟩

theorem vb2Step_fnd {L : Ledger} {mw : Nat} {s s' : Mid} {t : Txn2} (hb : s.base = L) (h : vb2Step mw s t = .ok s') :
    s'.fnd = s.fnd ∨ V2FoundationAuth L t := by
  unfold vb2Step at h
  obtain ⟨_, hv, ha⟩ := bind_ok_iff.1 h
  obtain ⟨s0, hf, _, rfl⟩ := applyV2Transaction_fnd ha
  rcases a2Final_fnd s0 t with hk | ⟨a, hx⟩
  · exact Or.inl (by rw [hk, hf])
  · right
    obtain ⟨_, _, _, _, hsc, _, _, _, hfu⟩ := (validateV2Transaction_ok_iff s t mw).1 hv
    obtain ⟨isc, _, _⟩ := (validateV2Siacoins_ok_iff s t).1 hsc
    obtain ⟨sci, hm, hp⟩ := validateFoundationUpdate_ok hfu a hx
    exact ⟨a, hx, sci, hm, by rw [← hb]; exact hp, (isc sci hm).addrOk, (isc sci hm).authOk⟩

/-- a fold over steps that keep `base` and either keep the Foundation addresses or are authorised -/
theorem foldlM_fnd_base {α} {f : Mid → α → VM Mid} (L : Ledger) (P : α → Prop)
    (hbase : ∀ s x s', f s x = .ok s' → s'.base = s.base)
    (hstep : ∀ s x s', s.base = L → f s x = .ok s' → s'.fnd = s.fnd ∨ P x)
    (l : List α) (s s' : Mid) (hs : s.base = L) (h : l.foldlM f s = .ok s') :
    s'.base = L ∧ (s'.fnd = s.fnd ∨ ∃ x ∈ l, P x) := by
  induction l generalizing s with
  | nil => simp at h; subst h; exact ⟨hs, Or.inl rfl⟩
  | cons a l ih =>
    rw [List.foldlM_cons] at h
    obtain ⟨s1, h1, h2⟩ := bind_ok_iff.1 h
    have hs1 : s1.base = L := by rw [hbase s a s1 h1, hs]
    obtain ⟨hb', hr⟩ := ih s1 hs1 h2
    refine ⟨hb', ?_⟩
    rcases hr with hk | ⟨x, hx, hp⟩
    · rcases hstep s a s1 hs h1 with hs' | hp
      · exact Or.inl (by rw [hk, hs'])
      · exact Or.inr ⟨a, List.mem_cons_self, hp⟩
    · exact Or.inr ⟨x, List.mem_cons_of_mem _ hx, hp⟩

/-- **c03_foundation_update_authorised**: if validating a block moves the Foundation subsidy or
management address away from the parent state's, then the block contains a v1 transaction whose
Foundation update passed the signed-by-a-current-Foundation-key check, or a v2 transaction that names a
new Foundation address and spends an authorised input controlled by the parent state's management
address. -/
theorem c03_foundation_update_authorised (L : Ledger) (b : Block) (pid : Id) (ms : Mid)
    (h : validateBlock L b pid = .ok ms) (hne : (ms.fPrimary, ms.fFailsafe) ≠ (L.fPrimary, L.fFailsafe)) :
    (∃ t ∈ b.txns1, V1FoundationAuth t) ∨ (∃ t ∈ b.txns2, V2FoundationAuth L t) := by
  rw [validateBlock_eq] at h
  obtain ⟨_, _, h⟩ := bind_ok_iff.1 h
  obtain ⟨_, _, h⟩ := bind_ok_iff.1 h
  split at h
  · exact absurd h (reject_ne_ok _ _)
  obtain ⟨s0, h1, h2⟩ := bind_ok_iff.1 h
  obtain ⟨hb0, r1⟩ := foldlM_fnd_base L V1FoundationAuth
    (fun s x s' hs => by
      unfold vb1Step at hs
      obtain ⟨_, _, ha⟩ := bind_ok_iff.1 hs
      exact applyTransaction_base ha)
    (fun s x s' hb hs => vb1Step_fnd hb hs) b.txns1 (newMid L) s0 rfl h1
  obtain ⟨_, r2⟩ := foldlM_fnd_base L (V2FoundationAuth L)
    (fun s x s' hs => by
      unfold vb2Step at hs
      obtain ⟨_, _, ha⟩ := bind_ok_iff.1 hs
      exact applyV2Transaction_base ha)
    (fun s x s' hb hs => vb2Step_fnd hb hs) b.txns2 s0 ms hb0 h2
  rcases r1 with k1 | a1
  · rcases r2 with k2 | a2
    · exfalso
      apply hne
      have : ms.fnd = (newMid L).fnd := by rw [k2, k1]
      exact this
    · exact Or.inr a2
  · exact Or.inl a1

/-- non-vacuity: a v2 transaction that sets a new Foundation address without spending from the
management address is rejected; with an input from it (address 7 = `fFailsafe`) it is accepted -/
example : validateFoundationUpdate (C08.Ex.M 10) { C08.tSpend2 C08.Ex.e0 with newFoundation := some 5 } =
    .error (.reject "transaction changes Foundation address, but does not spend an input controlled by current address") := by decide
example : validateFoundationUpdate (newMid { C08.Ex.L 10 with fFailsafe := 7 }) { C08.tSpend2 C08.Ex.e0 with newFoundation := some 5 } = .ok () := by
  decide

/-! ## sighashes bind the covered content (id model) -/

open Sia.Codec Sia.Ids in
/-- **c03_sighash_binds**: under `HashInj`, per sighash kind, equal sighashes ⇒ equal covered content:
* input sighash: the effect-bearing content of the transaction as far as the code binds it
  (`stripCode`: everything in `strip` except — finding — the siafund claim addresses), among
  transactions with the same resolution kinds (finding: the kind tag is not written);
* contract sighash: the whole contract except its two signatures;
* renewal sighash: the whole renewal (final outputs, rollovers, new contract) except the four signatures;
* attestation sighash: public key, key, value.
Every preimage also contains the purpose distinguisher and the replay prefix
(`C12.c12_sighash_binds_era_and_purpose`). -/
theorem c03_sighash_binds (H : List UInt8 → List UInt8) (hH : HashInj H) :
    (∀ t t' : V2Txn, WFG codeBindsClaimAddress t → WFG codeBindsClaimAddress t' → t.kinds = t'.kinds →
      H (inputSigPre t) = H (inputSigPre t') → stripCode codeBindsClaimAddress t = stripCode codeBindsClaimAddress t') ∧
    (∀ fc fc' : V2FileContract, Canon Env.default Spec.v2FileContract (fcVal fc.nilSigs) →
      Canon Env.default Spec.v2FileContract (fcVal fc'.nilSigs) →
      H (contractSigPre fc) = H (contractSigPre fc') → fc.nilSigs = fc'.nilSigs) ∧
    (∀ r r' : V2Renewal, Canon Env.default Spec.v2FileContractRenewal (renewalVal r.nilSigs) →
      Canon Env.default Spec.v2FileContractRenewal (renewalVal r'.nilSigs) →
      H (renewalSigPre r) = H (renewalSigPre r') → r.nilSigs = r'.nilSigs) ∧
    (∀ a a' : Attestation, Canon Env.default Spec.attestation (attVal a.nilSig) →
      Canon Env.default Spec.attestation (attVal a'.nilSig) →
      H (attestationSigPre a) = H (attestationSigPre a') → a.nilSig = a'.nilSig) := by
  refine ⟨?_, ?_, ?_, ?_⟩
  · intro t t' hw hw' hk h
    have := hH _ _ h
    simp only [inputSigPre, inputSigPreG, List.append_assoc] at this
    exact semEncodeG_inj _ hw hw' hk (List.append_cancel_left (List.append_cancel_left this))
  · intro fc fc' hc hc' h
    have := hH _ _ h
    simp only [contractSigPre, List.append_assoc] at this
    exact fcVal_inj (C11.c11_injective Env.default_ok _ (by decide +kernel) _ _ hc hc'
      (List.append_cancel_left (List.append_cancel_left this)))
  · intro r r' hc hc' h
    have := hH _ _ h
    simp only [renewalSigPre, List.append_assoc] at this
    exact renewalVal_inj (C11.c11_injective Env.default_ok _ (by decide +kernel) _ _ hc hc'
      (List.append_cancel_left (List.append_cancel_left this)))
  · intro a a' hc hc' h
    have := hH _ _ h
    simp only [attestationSigPre, List.append_assoc] at this
    exact attVal_inj (C11.c11_injective Env.default_ok _ (by decide +kernel) _ _ hc hc'
      (List.append_cancel_left (List.append_cancel_left this)))

/-- non-vacuity: the contract of the C12 witnesses is canonical; changing its revision number changes
the covered content -/
example : Sia.Codec.Canon Sia.Codec.Env.default Sia.Codec.Spec.v2FileContract (Sia.Ids.fcVal C12.fc0.nilSigs) ∧
    C12.fc0.nilSigs ≠ ({ C12.fc0 with revisionNumber := 1 } : Sia.Ids.V2FileContract).nilSigs := by
  constructor <;> decide +kernel

/-! ## tampering with signed content invalidates the signature (symbolic unforgeability) -/

/-- symbolic unforgeability, as far as it is needed here: one signature does not verify (under one key)
for two different hashes.  A HYPOTHESIS on the verification function; satisfiable, e.g. by the term
model "a signature is the pair (key, hash)". -/
def SigBinding (verify : List UInt8 → List UInt8 → List UInt8 → Bool) : Prop :=
  ∀ k h h' s, verify k h s = true → verify k h' s = true → h = h'

example : SigBinding (fun k h s => decide (s = k ++ h)) := by
  intro k h h' s h1 h2
  simp only [decide_eq_true_eq] at h1 h2
  exact List.append_cancel_left (h1.symm.trans h2)

open Sia.Codec Sia.Ids in
/-- **c03_tamper_rejected**: a signature that verifies over the sighash of `t` (resp. of a contract, a
renewal, an attestation) does not verify over the sighash of an object whose covered content differs —
changing any signed content after signing invalidates the signature.  (For v1 partial-coverage
signatures the covered content is what `CoveredFields` names; not modelled.)  The input-sighash clause
carries the two exclusions of C12: same resolution kinds; claim addresses are not covered. -/
theorem c03_tamper_rejected (verify : List UInt8 → List UInt8 → List UInt8 → Bool) (hU : SigBinding verify)
    (H : List UInt8 → List UInt8) (hH : HashInj H) (k s : List UInt8) :
    (∀ t t' : V2Txn, WFG codeBindsClaimAddress t → WFG codeBindsClaimAddress t' → t.kinds = t'.kinds →
      stripCode codeBindsClaimAddress t ≠ stripCode codeBindsClaimAddress t' →
      verify k (H (inputSigPre t)) s = true → verify k (H (inputSigPre t')) s = false) ∧
    (∀ fc fc' : V2FileContract, Canon Env.default Spec.v2FileContract (fcVal fc.nilSigs) →
      Canon Env.default Spec.v2FileContract (fcVal fc'.nilSigs) → fc.nilSigs ≠ fc'.nilSigs →
      verify k (H (contractSigPre fc)) s = true → verify k (H (contractSigPre fc')) s = false) ∧
    (∀ r r' : V2Renewal, Canon Env.default Spec.v2FileContractRenewal (renewalVal r.nilSigs) →
      Canon Env.default Spec.v2FileContractRenewal (renewalVal r'.nilSigs) → r.nilSigs ≠ r'.nilSigs →
      verify k (H (renewalSigPre r)) s = true → verify k (H (renewalSigPre r')) s = false) ∧
    (∀ a a' : Attestation, Canon Env.default Spec.attestation (attVal a.nilSig) →
      Canon Env.default Spec.attestation (attVal a'.nilSig) → a.nilSig ≠ a'.nilSig →
      verify k (H (attestationSigPre a)) s = true → verify k (H (attestationSigPre a')) s = false) := by
  obtain ⟨b1, b2, b3, b4⟩ := c03_sighash_binds H hH
  refine ⟨?_, ?_, ?_, ?_⟩
  · intro t t' hw hw' hk hne hv
    cases hv' : verify k (H (inputSigPre t')) s
    · rfl
    · exact absurd (b1 t t' hw hw' hk (hU _ _ _ _ hv hv')) hne
  · intro fc fc' hc hc' hne hv
    cases hv' : verify k (H (contractSigPre fc')) s
    · rfl
    · exact absurd (b2 fc fc' hc hc' (hU _ _ _ _ hv hv')) hne
  · intro r r' hc hc' hne hv
    cases hv' : verify k (H (renewalSigPre r')) s
    · rfl
    · exact absurd (b3 r r' hc hc' (hU _ _ _ _ hv hv')) hne
  · intro a a' hc hc' hne hv
    cases hv' : verify k (H (attestationSigPre a')) s
    · rfl
    · exact absurd (b4 a a' hc hc' (hU _ _ _ _ hv hv')) hne

end C03
