import SiaProofs.Props.C08
import SiaProofs.Props.C12
/-!
# C03 — Spends, revisions, renewals, attestations need content-binding authorisation

Two layers.

* **Ledger model** (`SiaModel/Ledger/Model.lean`, tied to `ValidateBlock` by the `ledger-block`
  correspondence op): signatures enter as verdict bits computed by the harness with the real
  `VerifyHash` / `SpendPolicy.Verify` over the real sighashes.  `c03_accept_requires_auth` states
  which bits an accepted block forces to be true, for every transaction of the block;
  `c03_foundation_update_authorised` that the Foundation addresses only move through a transaction
  that passed the Foundation checks.
* **Id model** (`SiaModel/Ids`): `c03_sighash_binds` — equal sighash ⇒ equal covered content, per
  sighash kind (from C11's encoder injectivity and the hypothesis `HashInj`).

Which keys the code hands to signature verification is a generated fact, tied below: a revision is
verified under the keys of `cur` (the contract as it currently stands, in-block revision included),
a renewal under the keys of the parent element's contract (pre-block; DESIGN F8 — the harness
reports the corner "renewal after an in-block key rotation" under the stable key
`c03-renewal-after-inblock-key-rotation`).
-/
namespace C03
open Sia.Ledger

/-! ## ties -/

/-- a formation is verified under the contract's own keys; a revision under the keys of `cur` -/
theorem tie_revision_keys :
    Gen.FactsIds.formationSigArgs = [["fc", "fc.RenterPublicKey", "fc.HostPublicKey"]] ∧
    Gen.FactsIds.revisionSigArgs = [["rev", "cur.RenterPublicKey", "cur.HostPublicKey"]] ∧
    Gen.FactsIds.revisionCurDefs = ["cur := fce.V2FileContract",
      "if i, ok := ms.elements[fce.ID]; ok && ms.v2fces[i].Revision != nil", "cur = *ms.v2fces[i].Revision"] := by
  refine ⟨by rfl, by rfl, by rfl⟩

/-- the contract signature check: both signatures over `ContractSigHash(fc)` -/
theorem tie_contract_sig_check :
    Gen.FactsIds.contractSigCheckParams = Sia.Ids.Spec.contractSigCheckParams ∧
    Gen.FactsIds.contractSigCheckBody = Sia.Ids.Spec.contractSigCheckBody := by
  constructor <;> rfl

/-- a renewal is verified under the keys of the parent element's contract, over `RenewalSigHash`;
its new contract is validated like a formation -/
theorem tie_renewal_keys :
    Gen.FactsIds.renewalVerifyCalls = [["fc.RenterPublicKey", "renewalHash", "renewal.RenterSignature"],
      ["fc.HostPublicKey", "renewalHash", "renewal.HostSignature"]] ∧
    Gen.FactsIds.renewalDefs = ["renewal := *r", "renewalHash := ms.base.RenewalSigHash(renewal)"] ∧
    Gen.FactsIds.resolutionFcDefs = ["fc := fcr.Parent.V2FileContract"] ∧
    Gen.FactsIds.renewalContractCalls = [["renewal.NewContract"]] := by
  refine ⟨by rfl, by rfl, by rfl, by rfl⟩

theorem tie_attestation_check : Gen.FactsIds.validateAttestationsBody = Sia.Ids.Spec.validateAttestationsBody := by rfl

theorem tie_foundation_checks :
    Gen.FactsIds.validateFoundationUpdateBody = Sia.Ids.Spec.validateFoundationUpdateBody ∧
    Gen.FactsIds.foundationSignedCheck = Sia.Ids.Spec.foundationSignedCheck := by
  constructor <;> rfl

/-- inputs: the revealed policy must hash to the parent's address and be satisfied over
`InputSigHash(txn)`; v1 signatures are verified over `WholeSigHash` / `PartialSigHash` -/
theorem tie_input_auth :
    Gen.FactsIds.validateV2SpendPolicyBody = Sia.Ids.Spec.validateV2SpendPolicyBody ∧
    Gen.FactsIds.validateV2SiacoinsAuth = Sia.Ids.Spec.validateV2SiacoinsAuth ∧
    Gen.FactsIds.validateV2SiafundsAuth = Sia.Ids.Spec.validateV2SiafundsAuth ∧
    Gen.FactsIds.v1SigVerify = Sia.Ids.Spec.v1SigVerify := by
  refine ⟨by rfl, by rfl, by rfl, by rfl⟩

/-! ## an accepted block forces every authorisation bit -/

/-- what acceptance forces for a v1 transaction: valid signatures, and every revealed unlock
conditions hash to the address committed in the parent -/
structure V1Auth (L : Ledger) (t : Txn1) : Prop where
  sigsOk : t.sigsOk = true
  scAddr : ∀ sci ∈ t.scIns, ∃ s : Mid, s.base = L ∧ ∃ p, s.scElement t.supp sci.parent = some p ∧ sci.ucAddr = p.addr
  sfAddr : ∀ sfi ∈ t.sfIns, ∃ s : Mid, s.base = L ∧ ∃ p, s.sfElement t.supp sfi.parent = some p ∧
    (sfi.ucAddr = p.addr ∨ (L.child ≥ L.P.hfDevAddr ∧ p.addr = L.P.devOldAddr ∧ sfi.ucAddr = L.P.devNewAddr))
  revAddr : ∀ r ∈ t.revs, ∃ s : Mid, s.base = L ∧ ∃ p, s.fc1Element t.supp r.parent = some p ∧ r.ucAddr = p.fc.unlockHash
  foundation : L.child ≥ L.P.hfFoundation → ∀ u signed, t.foundation = some (u, signed) → signed = true

/-- what acceptance forces for a v2 transaction -/
structure V2Auth (L : Ledger) (t : Txn2) : Prop where
  scIns : ∀ sci ∈ t.scIns, sci.addrOk = true ∧ sci.authOk = true
  sfIns : ∀ sfi ∈ t.sfIns, sfi.addrOk = true ∧ sfi.authOk = true
  formations : ∀ x ∈ t.fcs, x.2.2 = true
  revisions : ∀ r ∈ t.revs, r.sigCurOk = true
  renewals : ∀ r ∈ t.ress, ∀ rn, r.res = .renewal rn →
    rn.newSigOk = true ∧ rn.sigOk = true ∧
      r.parent.fc.renterKey = rn.newContract.renterKey ∧ r.parent.fc.hostKey = rn.newContract.hostKey
  attestations : t.attsOk = true
  foundation : ∀ a, t.newFoundation = some a → ∃ sci ∈ t.scIns, sci.parent.addr = L.fFailsafe ∧ sci.addrOk = true ∧ sci.authOk = true

theorem renewalCheck_ok {ms : Mid} {fc : Fc2} {rn : Renewal} (h : renewalCheck ms fc rn = .ok ()) :
    rn.newSigOk = true ∧ rn.sigOk = true ∧ fc.renterKey = rn.newContract.renterKey ∧ fc.hostKey = rn.newContract.hostKey := by
  unfold renewalCheck at h
  split at h
  · exact absurd h (reject_ne_ok _ _)
  rename_i hk1
  split at h
  · exact absurd h (reject_ne_ok _ _)
  rename_i hk2
  obtain ⟨a, _, h⟩ := bind_ok_iff.1 h
  obtain ⟨b, _, h⟩ := bind_ok_iff.1 h
  obtain ⟨c, _, h⟩ := bind_ok_iff.1 h
  obtain ⟨d, _, h⟩ := bind_ok_iff.1 h
  split at h
  · exact absurd h (reject_ne_ok _ _)
  obtain ⟨e, _, h⟩ := bind_ok_iff.1 h
  obtain ⟨f, _, h⟩ := bind_ok_iff.1 h
  obtain ⟨g, _, h⟩ := bind_ok_iff.1 h
  obtain ⟨i, _, h⟩ := bind_ok_iff.1 h
  split at h
  · exact absurd h (reject_ne_ok _ _)
  obtain ⟨hc, h⟩ := bind_unit_ok_iff.1 h
  have hs := ((validateContract2_ok_iff ms rn.newContract rn.newSigOk).1 hc).sig
  split at h
  · rename_i hsig
    exact ⟨hs, hsig, Decidable.not_not.1 hk1, Decidable.not_not.1 hk2⟩
  · exact absurd h (reject_ne_ok _ _)

theorem validateArbitraryData_ok {ms : Mid} {t : Txn1} (h : validateArbitraryData ms t = .ok ())
    (hf : ms.base.child ≥ ms.base.P.hfFoundation) : ∀ u signed, t.foundation = some (u, signed) → signed = true := by
  intro u signed ht
  unfold validateArbitraryData at h
  rw [if_neg (by omega), ht] at h
  cases u with
  | none => exact absurd h (reject_ne_ok _ _)
  | some pf =>
    obtain ⟨p, f⟩ := pf
    simp only at h
    split at h
    · exact absurd h (reject_ne_ok _ _)
    · split at h
      · assumption
      · exact absurd h (reject_ne_ok _ _)

theorem validateFoundationUpdate_ok {ms : Mid} {t : Txn2} (h : validateFoundationUpdate ms t = .ok ()) :
    ∀ a, t.newFoundation = some a → ∃ sci ∈ t.scIns, sci.parent.addr = ms.base.fFailsafe := by
  intro a ha
  unfold validateFoundationUpdate at h
  rw [ha] at h
  simp only at h
  split at h
  · rename_i hany
    obtain ⟨sci, hm, hp⟩ := List.any_eq_true.1 hany
    exact ⟨sci, hm, by simpa using hp⟩
  · exact absurd h (reject_ne_ok _ _)

/-- **c03_accept_requires_auth**: a block is accepted only if every v1 transaction carries valid
signatures (`sigsOk`: the verdict of `validateSignatures` over the whole/partial sighashes) and
every revealed unlock conditions hash to the parent's address; every v2 input reveals a policy
that hashes to the parent's address (`addrOk`) and is satisfied over the input sighash
(`authOk`); every v2 formation is signed by its own keys, every revision by the keys of the
contract as it currently stands (`sigCurOk`), every renewal by the keys of its parent (`sigOk`)
with a validly signed new contract (`newSigOk`) that keeps both keys; every attestation is signed
by its key (`attsOk`); a Foundation address change needs the v1 signed check resp. an
(authorised) input from the management address. -/
theorem c03_accept_requires_auth (L : Ledger) (b : Block) (pid : Id) (ms : Mid) (h : validateBlock L b pid = .ok ms) :
    (∀ t ∈ b.txns1, V1Auth L t) ∧ (∀ t ∈ b.txns2, V2Auth L t) := by
  obtain ⟨h1, h2⟩ := C08.c08_block_txns_validated L b pid ms h
  constructor
  · intro t ht
    obtain ⟨s, hb, hv⟩ := h1 t ht
    obtain ⟨_, _, _, _, hsc, hsf, hfc, harb, hsig⟩ := (validateTransaction_ok_iff s t pid b.maxWeight).1 hv
    refine ⟨((validateSignatures_ok_iff t).1 hsig).2, ?_, ?_, ?_, ?_⟩
    · intro sci hm
      obtain ⟨p, hp, hr⟩ := validateSiacoins_ok_rules hsc sci hm
      exact ⟨s, hb, p, hp, hr.addr⟩
    · intro sfi hm
      obtain ⟨p, hp, hr⟩ := ((validateSiafunds_ok_iff s t).1 hsf).1 sfi hm
      refine ⟨s, hb, p, hp, ?_⟩
      have := hr.addr
      rwa [hb] at this
    · intro r hm
      obtain ⟨p, hp, hr⟩ := ((validateFileContracts_ok_iff s t pid).1 hfc).2.1 r hm
      exact ⟨s, hb, p, hp, hr.addr⟩
    · intro hf
      exact validateArbitraryData_ok harb (by rw [hb]; exact hf)
  · intro t ht
    obtain ⟨s, hb, hv⟩ := h2 t ht
    obtain ⟨_, _, _, _, hsc, hsf, hfc, hatt, hfu⟩ := (validateV2Transaction_ok_iff s t b.maxWeight).1 hv
    obtain ⟨isc, _, _⟩ := (validateV2Siacoins_ok_iff s t).1 hsc
    obtain ⟨isf, _, _⟩ := (validateV2Siafunds_ok_iff s t).1 hsf
    obtain ⟨f0, f1, _, f2, _⟩ := (validateV2FileContracts_ok_iff s t).1 hfc
    refine ⟨fun sci hm => ⟨(isc sci hm).addrOk, (isc sci hm).authOk⟩, fun sfi hm => ⟨(isf sfi hm).addrOk, (isf sfi hm).authOk⟩,
      fun x hm => (f0 x hm).sig, fun r hm => (f1 r hm).revision.sig, ?_, hatt, ?_⟩
    · intro r hm rn hr
      have hk := (f2 r hm).kind
      unfold Res2KindRules at hk
      rw [hr] at hk
      exact renewalCheck_ok hk
    · intro a ha
      obtain ⟨sci, hm, hp⟩ := validateFoundationUpdate_ok hfu a ha
      exact ⟨sci, hm, by rw [← hb]; exact hp, (isc sci hm).addrOk, (isc sci hm).authOk⟩

/-- non-vacuity: a block with one v2 transaction spending `e0` with valid witness bits is accepted,
the same transaction with `authOk := false` is rejected -/
example : ∃ ms, validateV2Transaction (C08.Ex.M 10) (C08.tSpend2 C08.Ex.e0) 100 = .ok ms := ⟨(), by decide⟩
example : validateV2Transaction (C08.Ex.M 10)
    { C08.tSpend2 C08.Ex.e0 with scIns := [{ parent := C08.Ex.e0, addrOk := true, authOk := false }] } 100 =
    .error (.reject "failed to satisfy spend policy") := by decide

end C03
