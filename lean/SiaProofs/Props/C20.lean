import SiaModel.Text.Policy
import SiaModel.Text.Ident
import SiaProofs.Lemmas.TextBasic
import SiaProofs.Lemmas.TextQuote
import SiaProofs.Lemmas.TextPolicy
/-!
# C20 — Text and JSON forms round-trip and reject corrupted identifiers

Theorems about the hand-written text model `SiaModel/Text/*` (tied to the Go code by
the generated facts `SiaModel.Gen.FactsText` — `tie_*` below — and by the
correspondence run of `harness/props/c20.go`).  Texts are byte lists.

Proved here (text layer):
* plain hex identifiers: round trip; only exact-length, all-hex texts are accepted;
* PublicKey / Account prefix forms; Address with checksum: round trip, exact length,
  and every alteration of a checksum character to another hex value is rejected
  (a body alteration is rejected unless the 48-bit checksum collides: harness sweep);
* Specifier (strconv.Quote/Unquote with UTF-8 decoding, all 2^128 values), UnlockKey,
  ChainIndex, ProtocolVersion, Work: round trip;
* SpendPolicy.String → ParseSpendPolicy: `c20_policy_string_roundtrip`, for every policy
  value, now that the source has both repairs (`tie_policy_repairs`); the defects F2 / F3 of
  the parser as first found are kept as statements about those parser variants
  (`c20_policy_string_cex_sigcount`, `c20_policy_string_cex_specifier`), and
  `c20_policy_string_roundtrip_partial` is the form that holds for every variant.

Not proved here: the JSON layer (custom marshalers, the ApplyUpdate/RevertUpdate form —
finding F1 — and the resolution `type` splice).  It is checked on the real code by the
statement-level oracle of the harness only; no JSON-tree model exists yet.
-/
namespace C20
open Sia.Text

/-! ## ties: generated facts = what the model assumes -/

theorem tie_pk_prefix :
    Gen.FactsText.pkPrefixBytes = Gen.FactsText.pkAlgBytes ++ [UInt8.ofNat Gen.FactsText.pkSep]
    ∧ Gen.FactsText.pkPrefix = "ed25519:" ∧ Gen.FactsText.pkSep = 58 := by decide

theorem tie_account_prefix :
    Gen.FactsText.account4PrefixBytes = Gen.FactsText.account4TrimPrefixBytes
    ∧ Gen.FactsText.account4Prefix = "ed25519:" := by decide

theorem tie_address_layout :
    Gen.FactsText.addrChecksumLenPrint = Gen.FactsText.addrChecksumLenParse
    ∧ Gen.FactsText.addrBufLen = Gen.FactsText.addrBodyLen + Gen.FactsText.addrChecksumLenParse
    ∧ Gen.FactsText.addrBodyLen = 32 ∧ Gen.FactsText.addrChecksumLenParse = 6 := by decide

theorem tie_id_sizes :
    Gen.FactsText.idSizes = [("Hash256", 32), ("BlockID", 32), ("TransactionID", 32), ("AttestationID", 32),
      ("SiacoinOutputID", 32), ("SiafundOutputID", 32), ("FileContractID", 32), ("Address", 32),
      ("PublicKey", 32), ("Signature", 64), ("Specifier", 16)]
    ∧ Gen.FactsText.rhp4AccountSize = 32 ∧ Gen.FactsText.rhp4ProtocolVersionSize = 3 := by decide

/-- the tokenizer of ParseSpendPolicy is the one the model was written for -/
theorem tie_policy_tokenizer :
    Gen.FactsText.nextTokenCalls = ["strings.IndexAny", "strings.TrimSpace", "strings.TrimSpace"]
    ∧ Gen.FactsText.tokenDelimsBytes = [40, 41, 44, 91, 93]
    ∧ Gen.FactsText.policyHexTokenLen = 66 ∧ Gen.FactsText.policyHexPrefixBytes = [48, 120] := by decide

theorem tie_policy_keywords :
    Gen.FactsText.policyKeywords = ["above", "after", "pk", "h", "thresh", "opaque", "uc"]
    ∧ Gen.FactsText.policyPrintLiterals =
      ["0x", "above(", "after(", "pk(", "h(", "thresh(", ",[", "])", "opaque(", "uc(", ",[", "],"] := by decide

/-- bit sizes the parser uses for heights, thresholds, timelocks and times; the
    signature count is NOT pinned here: the model reads it from the source
    (`goCfg`), it may be 8 (as found) or 64 (printer width). -/
theorem tie_policy_bits :
    Gen.FactsText.aboveBits = 64 ∧ Gen.FactsText.threshBits = 8 ∧ Gen.FactsText.ucTimelockBits = 64
    ∧ Gen.FactsText.afterBits = 64
    ∧ Gen.FactsText.threshNFieldBits = 8 ∧ Gen.FactsText.ucTimelockFieldBits = 64
    ∧ Gen.FactsText.ucSigFieldBits = 64
    ∧ (Gen.FactsText.ucSigBits = 8 ∨ Gen.FactsText.ucSigBits = 64) := by decide

/-! ## plain hex identifiers (Hash256, BlockID, TransactionID, …, Signature) -/

/-- parse (print v) = v for an identifier of `n` bytes -/
theorem c20_hex_roundtrip (n : Nat) (v : List UInt8) (h : v.length = n) :
    unmarshalHex n (hexEnc v) = some v := by
  simp [unmarshalHex, hexEnc_length, hexDec_hexEnc, h]

example : unmarshalHex 2 (hexEnc [0xab, 0x07]) = some [0xab, 0x07] := by decide

/-- anything accepted has exactly 2n characters, all of them hex digits, and
    denotes n bytes: wrong length or a non-hex character is rejected -/
theorem c20_hex_rejects (n : Nat) (t : Txt) (v : List UInt8) (h : unmarshalHex n t = some v) :
    t.length = 2 * n ∧ (∀ c ∈ t, isHex c = true) ∧ v.length = n := by
  unfold unmarshalHex at h
  split at h
  · simp at h
  · rename_i hlen
    split at h
    · rename_i bs hdec
      split at h
      · simp at h
      · rename_i hn
        simp at h; subst h
        obtain ⟨h1, h2⟩ := hexDec_some hdec
        refine ⟨by omega, h2, by omega⟩
    · simp at h

example : unmarshalHex 2 (ofString "ab0") = none ∧ unmarshalHex 2 (ofString "ab0g") = none
    ∧ unmarshalHex 2 (ofString "ab0700") = none := by decide

/-! ## PublicKey / Account: "ed25519:" prefix forms -/

theorem alg_no_colon : ∀ x ∈ Gen.FactsText.pkAlgBytes, x ≠ 58 := by decide

/-- `PublicKey` (and rhp/v3 `Account`): round trip, and anything accepted is the
    exact prefix followed by a valid hex body — a missing or different prefix is rejected.
    (`alg` is the algorithm name, without ':' in it — true of the extracted one: `alg_no_colon`.) -/
theorem c20_pk_prefix (alg : Txt) (n : Nat) (halg : ∀ x ∈ alg, x ≠ 58) :
    (∀ k : List UInt8, k.length = n → parsePk alg n (pkString (alg ++ [58]) k) = some k) ∧
    (∀ t k, parsePk alg n t = some k → ∃ body, t = alg ++ 58 :: body ∧ unmarshalHex n body = some k) := by
  constructor
  · intro k hk
    have : pkString (alg ++ [58]) k = alg ++ 58 :: hexEnc k := by simp [pkString]
    rw [this]
    simp [parsePk, splitFirst_append 58 alg (hexEnc k) halg, c20_hex_roundtrip n k hk]
  · intro t k h
    unfold parsePk at h
    split at h
    · simp at h
    · rename_i a rest hs
      split at h
      · rename_i ha
        obtain ⟨h1, _⟩ := splitFirst_some hs
        exact ⟨rest, by rw [h1, ha], h⟩
      · simp at h

example : parsePk Gen.FactsText.pkAlgBytes 2 (ofString "ed25519:ab07") = some [0xab, 0x07]
    ∧ parsePk Gen.FactsText.pkAlgBytes 2 (ofString "ab07") = none
    ∧ parsePk Gen.FactsText.pkAlgBytes 2 (ofString "ed25518:ab07") = none
    ∧ parsePk Gen.FactsText.pkAlgBytes 2 (ofString "ed25519:ab0700") = none := by decide

/-- rhp/v4 `Account`: parse (print a) = a -/
theorem c20_account_roundtrip (guard : Bool) (pfx : Txt) (n : Nat) (k : List UInt8) (hk : k.length = n) :
    parseAccount4 guard pfx n (pkString pfx k) = .ok k := by
  simp [parseAccount4, pkString, stripPrefix_append, hexDecodeInto_hexEnc k n [] (by omega), hk]

example : parseAccount4 false Gen.FactsText.account4TrimPrefixBytes 2 (ofString "ed25519:ab07") = .ok [0xab, 0x07] := by decide
/-- the code as found: an over-long account text is a run-time panic, not a rejection
    (reported by the harness as `c20-ident-panic:rhp4.Account`) -/
example : parseAccount4 false Gen.FactsText.account4TrimPrefixBytes 2 (ofString "ed25519:ab0700") = .panic
    ∧ parseAccount4 true Gen.FactsText.account4TrimPrefixBytes 2 (ofString "ed25519:ab0700") = .err := by decide

/-! ## Address: hex(addr ‖ checksum) -/

/-- parse (print a) = a, for any hash function with at least `ck` bytes of output -/
theorem c20_address_roundtrip (H : List UInt8 → List UInt8) (n ck : Nat) (hH : ∀ x, ck ≤ (H x).length)
    (a : List UInt8) (ha : a.length = n) : parseAddrH H n ck (addrStringH H ck a) = some a := by
  have hck : ((H a).take ck).length = ck := by simp [List.length_take]; exact Nat.min_eq_left (hH a)
  have hlen : (a ++ (H a).take ck).length = n + ck := by simp [ha, hck]
  unfold parseAddrH addrStringH
  rw [hexEnc_length, hexDec_hexEnc, hlen]
  have e1 : (a ++ (H a).take ck).take n = a := by rw [← ha]; simp
  have e2 : (a ++ (H a).take ck).drop n = (H a).take ck := by rw [← ha]; simp
  simp [e1, e2]
  have := hH a
  omega

/-- anything accepted has exactly 2·(n+ck) hex characters and denotes `n` bytes whose
    checksum matches: wrong length and wrong alphabet are rejected -/
theorem c20_address_length (H : List UInt8 → List UInt8) (n ck : Nat) (t : Txt) (a : List UInt8)
    (h : parseAddrH H n ck t = some a) :
    t.length = 2 * (n + ck) ∧ (∀ c ∈ t, isHex c = true) ∧ a.length = n
    ∧ ∃ w, hexDec t = some w ∧ a = w.take n ∧ (H a).take ck = w.drop n := by
  unfold parseAddrH at h
  split at h
  · simp at h
  · rename_i hlen
    split at h
    · simp at h
    · rename_i w hw
      split at h
      · simp at h
      · rename_i hwl
        split at h
        · rename_i hck
          simp at h; subst h
          obtain ⟨h1, h2⟩ := hexDec_some hw
          simp at hlen hwl
          refine ⟨by omega, h2, by simp [List.length_take]; omega, w, hw, rfl, hck⟩
        · simp at h

/-- Altering any one of the 2·ck checksum characters to a character with a different
    hex value (or to a non-hex character) is rejected — always, for every hash `H`.
    (Altering a character of the body is rejected unless the truncated hash collides;
    that part is covered by the exhaustive sweep of the harness, not by a theorem.) -/
theorem c20_address_checksum_part (H : List UInt8 → List UInt8) (n ck : Nat)
    (a : List UInt8) (ha : a.length = n) (j : Nat) (old c' : UInt8)
    (hj : (hexEnc ((H a).take ck))[j]? = some old) (hne : hexVal c' ≠ hexVal old) :
    parseAddrH H n ck ((addrStringH H ck a).set (2 * n + j) c') = none := by
  have hsplit : (addrStringH H ck a).set (2 * n + j) c' = hexEnc a ++ (hexEnc ((H a).take ck)).set j c' := by
    unfold addrStringH
    rw [hexEnc_append, List.set_append]
    have : ¬ (2 * n + j < (hexEnc a).length) := by rw [hexEnc_length, ha]; omega
    simp only [this, if_false]
    rw [hexEnc_length, ha]
    congr 2
    omega
  cases hp : parseAddrH H n ck ((addrStringH H ck a).set (2 * n + j) c') with
  | none => rfl
  | some a' =>
    exfalso
    obtain ⟨_, _, ha', w, hw, hwa, hck⟩ := c20_address_length H n ck _ a' hp
    rw [hsplit, hexDec_append_enc] at hw
    cases hy : hexDec ((hexEnc ((H a).take ck)).set j c') with
    | none => rw [hy] at hw; simp at hw
    | some y =>
      rw [hy] at hw
      simp at hw
      subst hw
      have e1 : (a ++ y).take n = a := by rw [← ha]; simp
      have e2 : (a ++ y).drop n = y := by rw [← ha]; simp
      rw [e1] at hwa
      subst hwa
      rw [e2] at hck
      exact hexDec_set_ne _ _ (hexDec_hexEnc _) j old c' hj hne (by rw [hy, hck])

example : addrStringH (fun _ => [1, 2, 3]) 2 [0xab] = ofString "ab0102"
    ∧ parseAddrH (fun _ => [1, 2, 3]) 1 2 ((addrStringH (fun _ => [1, 2, 3]) 2 [0xab]).set (2 * 1 + 3) 51) = none :=
  ⟨by decide, c20_address_checksum_part _ 1 2 [0xab] rfl 3 50 51 (by decide) (by decide)⟩

/-- the extracted layout with the real BLAKE2b: all three address theorems apply -/
theorem blake2b256_size (d : ByteArray) : (Sia.blake2b256 d).size = 32 := by
  simp only [Sia.blake2b256, Sia.Blake2b.pushLe64, ByteArray.size_push, ByteArray.emptyWithCapacity]
  rfl

theorem hashBytes_length (x : List UInt8) : (hashBytes x).length = 32 := by
  unfold hashBytes
  have := blake2b256_size ⟨x.toArray⟩
  rw [ByteArray.size] at this
  rw [Array.length_toList]
  exact this

/-- hypotheses of the address theorems are satisfiable: the real hash and layout -/
example (a : List UInt8) (ha : a.length = 32) :
    parseAddrH hashBytes Gen.FactsText.addrBodyLen Gen.FactsText.addrChecksumLenParse
      (addrStringH hashBytes Gen.FactsText.addrChecksumLenPrint a) = some a :=
  c20_address_roundtrip hashBytes 32 6 (fun x => by rw [hashBytes_length]; decide) a ha

example : parseAddrH (fun _ => [1, 2, 3]) 1 2 (addrStringH (fun _ => [1, 2, 3]) 2 [0xab]) = some [0xab]
    ∧ addrStringH (fun _ => [1, 2, 3]) 2 [0xab] = ofString "ab0102"
    ∧ parseAddrH (fun _ => [1, 2, 3]) 1 2 (ofString "ab0103") = none
    ∧ parseAddrH (fun _ => [1, 2, 3]) 1 2 (ofString "ab010") = none := by decide

/-! ## ChainIndex, ProtocolVersion, Work -/

theorem digits_ne_colon (n : Nat) : ∀ x ∈ natToDec n, x ≠ 58 := by
  intro x hx
  have := isDigit_range (natToDec_digits n x hx)
  exact ne_of_toNat_ne (by simp; omega)

theorem hex_ne_colon (b : List UInt8) : ∀ x ∈ hexEnc b, x ≠ 58 := by
  intro x hx
  have := isHex_range (hexEnc_isHex b x hx)
  exact ne_of_toNat_ne (by simp; omega)

/-- `ChainIndex`: parse (MarshalText ci) = ci -/
theorem c20_chainindex_roundtrip (guard : Bool) (n : Nat) (ci : ChainIndex) (hh : ci.height < 2 ^ 64) (hid : ci.id.length = n) :
    parseCi guard n (ciText ci) = .ok ci := by
  unfold parseCi ciText
  have : natToDec ci.height ++ [58, 58] ++ hexEnc ci.id = natToDec ci.height ++ 58 :: 58 :: hexEnc ci.id := by simp
  rw [this, splitSep_append _ _ (digits_ne_colon _)]
  simp only [splitSep_none _ (hex_ne_colon _), parseUint_natToDec 64 _ hh]
  rw [hexDecodeInto_hexEnc _ n [] (by omega)]
  simp [hid]

example : parseCi false 2 (ciText ⟨300, [0xab, 0x07]⟩) = .ok ⟨300, [0xab, 0x07]⟩
    ∧ ciText ⟨300, [0xab, 0x07]⟩ = ofString "300::ab07" := by decide
/-- the code as found: an over-long id is a run-time panic, not a rejection
    (reported by the harness as `c20-ident-panic:types.ChainIndex`) -/
example : parseCi false 2 (ofString "300::ab0700") = .panic ∧ parseCi true 2 (ofString "300::ab0700") = .err := by decide

theorem scanU8_natToDec (a : Nat) (ha : a < 256) (rest : Txt)
    (hr : rest = [] ∨ ∃ c r, rest = c :: r ∧ isDigit c = false) :
    scanU8 (natToDec a ++ rest) = some (a, rest) := by
  have hne := natToDec_ne_nil a
  have hd := natToDec_digits a
  unfold scanU8
  match hq : natToDec a with
  | [] => exact absurd hq hne
  | c :: cs =>
    have hc : isDigit c = true := hd c (by simp [hq])
    simp only [List.cons_append, scanSkip_digit c _ hc]
    have : c :: (cs ++ rest) = natToDec a ++ rest := by rw [hq]; rfl
    rw [this, takeNum_append _ _ hd hr]
    simp [parseUint_natToDec 64 a (by omega), ha]

/-- rhp/v4 `ProtocolVersion`: parse (print v) = v for every three bytes -/
theorem c20_version_roundtrip (a b c : Nat) (ha : a < 256) (hb : b < 256) (hc : c < 256) :
    parseVersion (versionText a b c) = some (a, b, c) := by
  have dot : isDigit 46 = false := by decide
  unfold parseVersion versionText
  simp only [expect, beq_self_eq_true, if_true]
  rw [scanU8_natToDec a ha _ (Or.inr ⟨46, _, rfl, dot⟩)]
  simp only [beq_self_eq_true, if_true]
  rw [scanU8_natToDec b hb _ (Or.inr ⟨46, _, rfl, dot⟩)]
  simp only [beq_self_eq_true, if_true]
  have : natToDec c = natToDec c ++ [] := by simp
  rw [this, scanU8_natToDec c hc [] (Or.inl rfl)]

example : parseVersion (versionText 1 22 255) = some (1, 22, 255)
    ∧ versionText 1 22 255 = ofString "v1.22.255" ∧ parseVersion (ofString "v1.22.256") = none := by decide

/-- `consensus.Work`: parse (print w) = w for every 256-bit value -/
theorem c20_work_roundtrip (n : Nat) (h : n < 2 ^ 256) : parseWork (workText n) = some n := by
  simp [parseWork, workText, natToDec_ne_nil, parseDigits_natToDec, h]

example : parseWork (workText (2 ^ 255 + 12345)) = some (2 ^ 255 + 12345) :=
  c20_work_roundtrip _ (by decide)

/-! ## Specifier (quoting rule) and UnlockKey -/

/-- `Specifier`: parse (print s) = s for ALL 2^128 values — non-alphanumeric bytes,
    interior zero bytes, quotes, backslashes, control characters, valid and invalid
    UTF-8 — and for every IsPrint table `hi` (see Quote.lean). -/
theorem c20_specifier_roundtrip (hi : Nat → Bool) (n : Nat) (s : List UInt8) (hs : s.length = n) :
    parseSpec n (specString hi s) = some s :=
  parseSpec_specString hi n s hs

/-- the underlying library fact: `strconv.Unquote (strconv.Quote b) = b` for every byte string -/
theorem c20_unquote_quote (hi : Nat → Bool) (b : Txt) : unquote (quote hi b) = some b :=
  unquote_quote hi b

example : specString (fun _ => false) [97, 34, 0, 255, 10, 0xc3, 0xa9, 0, 0] = ofString "\"a\\\"\\x00\\xff\\né\""
    ∧ parseSpec 9 (specString (fun _ => false) [97, 34, 0, 255, 10, 0xc3, 0xa9, 0, 0]) = some [97, 34, 0, 255, 10, 0xc3, 0xa9, 0, 0]
    ∧ specString (fun _ => false) [101, 100, 0, 0] = ofString "ed"
    ∧ parseSpec 4 (ofString "\"toolong\"") = none := by decide

/-- `UnlockKey`: parse (print k) = k, for any key length and any algorithm specifier -/
theorem c20_unlockkey_roundtrip (hi : Nat → Bool) (n : Nat) (uk : UnlockKey) (h : uk.alg.length = n) :
    parseUk n (ukText hi uk) = some uk :=
  parseUk_ukText hi n uk h

example : ukText (fun _ => false) ⟨[97, 58, 98, 0], [0xab]⟩ = ofString "\"a:b\":ab"
    ∧ parseUk 4 (ukText (fun _ => false) ⟨[97, 58, 98, 0], [0xab]⟩) = some ⟨[97, 58, 98, 0], [0xab]⟩ := by decide

/-! ## SpendPolicy.String / ParseSpendPolicy -/

/-- no rune above U+00FF is printable: enough for texts without such runes -/
def hi0 : Nat → Bool := fun _ => false

/-- the parser configuration read from the source has the shape the proofs are written for
    (delimiter set "(),[]", 64-bit heights and timelocks, 8-bit thresholds, 16-byte
    specifiers); signature-count width and the quoted-key step are left to the source -/
theorem tie_policy_cfg (hi : Nat → Bool) : CfgStd (goCfg hi) :=
  ⟨rfl, rfl, rfl, rfl, rfl⟩

/-- the unlock-key reader is the one the model was written for -/
theorem tie_policy_unlockkey_shape :
    (Gen.FactsText.ukQuotedPrefix = true ∧ Gen.FactsText.parseUnlockKeyCalls =
      ["len", "nextToken", "strconv.QuotedPrefix", "strings.HasPrefix", "strings.TrimSpace", "uk.UnmarshalText"])
    ∨ (Gen.FactsText.ukQuotedPrefix = false ∧ Gen.FactsText.parseUnlockKeyCalls = ["nextToken", "uk.UnmarshalText"]) := by
  decide

/-- BOTH repairs are in the source: the `uc` signature count is read with the printer's 64
    bits (F2) and a quoted key specifier is lifted off the input before tokenizing (F3).
    A regression of either breaks this tie (and with it `c20_policy_string_roundtrip`). -/
theorem tie_policy_repairs : Gen.FactsText.ucSigBits = 64 ∧ Gen.FactsText.ukQuotedPrefix = true := by decide

/-- `ParseSpendPolicy(p.String()) = p` for EVERY policy value: all seven kinds, nested
    thresholds, 64-bit counts, and `uc` keys with any algorithm specifier (quoted,
    with delimiters, quotes, backslashes, arbitrary bytes) and any key length.
    (`After` times are Unix seconds; `hi` is the IsPrint table, arbitrary.) -/
theorem c20_policy_string_roundtrip (hi : Nat → Bool) (p : Policy) (hwf : p.WF) :
    parsePolicy (goCfg hi) (Policy.str hi p) = some p := by
  have hsig : p.SigFits (goCfg hi).ucSigBits := by
    show p.SigFits Gen.FactsText.ucSigBits
    rw [tie_policy_repairs.1]; exact sigFits_of_wf p hwf
  exact parsePolicy_str (tie_policy_cfg hi) hi p hwf hsig (Or.inl tie_policy_repairs.2)

/-- The same for any configuration of the standard shape, with the weakest side
    conditions: (F2) every `uc` count fits the bit size the parser uses; (F3) the parser
    has the quoted-key step OR no key text contains a delimiter.  This is the form that
    remains true of the parser as first found (8 bits, no quoted-key step). -/
theorem c20_policy_string_roundtrip_partial (cfg : Cfg) (hc : CfgStd cfg) (hi : Nat → Bool) (p : Policy)
    (hwf : p.WF) (hsig : p.SigFits cfg.ucSigBits) (hkeys : cfg.quotedKeys = true ∨ p.KeysSafe hi) :
    parsePolicy cfg (Policy.str hi p) = some p :=
  parsePolicy_str hc hi p hwf hsig hkeys

/-- 64 bits make exclusion F2 vacuous -/
theorem c20_policy_string_sigfits_64 (p : Policy) (hwf : p.WF) : p.SigFits 64 := sigFits_of_wf p hwf

/-- exclusion F3 only bites for quoted specifiers: alphanumeric algorithm names are always safe -/
theorem c20_policy_string_keys_safe_alnum (hi : Nat → Bool) (tl sg : Nat) (ks : List UnlockKey)
    (h : ∀ k ∈ ks, (trimZeros k.alg).all isAlnum = true) : (Policy.uc tl ks sg).KeysSafe hi := by
  intro k hk
  exact ukText_safe_of_alnum hi k (h k hk)

/-! ### the two defects, kept as statements about the parser variants that had them -/

/-- `uc(0,[],300)`: 300 signatures required -/
def polSig300 : Policy := .uc 0 [] 300

/-- `uc(0,["a,b":01],1)`: a key whose algorithm specifier is "a,b" -/
def polSpecComma : Policy := .uc 0 [⟨[97, 44, 98, 0, 0, 0, 0, 0, 0, 0, 0, 0, 0, 0, 0, 0], [1]⟩] 1

theorem polSig300_str : Policy.str hi0 polSig300 = ofString "uc(0,[],300)" := by decide
theorem polSpecComma_str : Policy.str hi0 polSpecComma = ofString "uc(0,[\"a,b\":01],1)" := by decide

theorem cex_sigcount_8 (q : Bool) : (parsePolicy (goCfgWith 8 q hi0) (Policy.str hi0 polSig300)).isNone = true := by
  cases q <;> decide

/-- F2. Whenever the parser reads the `uc` signature count with 8 bits (the generated
    fact), the printed form of a policy requiring 300 signatures is refused.  Conditional
    on the fact: vacuous now that the source says 64. -/
theorem c20_policy_string_cex_sigcount (h : Gen.FactsText.ucSigBits = 8) :
    (parsePolicy (goCfg hi0) (Policy.str hi0 polSig300)).isNone = true := by
  unfold goCfg
  rw [h]
  exact cex_sigcount_8 _

/-- F3. Without the quoted-key step the tokenizer (cut at the first of "(),[]", unaware of
    quotes) splits inside the quoted specifier "a,b" and the parser refuses its own output,
    whatever the signature-count width; with the step it reads it back. -/
theorem c20_policy_string_cex_specifier :
    (parsePolicy (goCfgWith 8 false hi0) (Policy.str hi0 polSpecComma)).isNone = true
    ∧ (parsePolicy (goCfgWith 64 false hi0) (Policy.str hi0 polSpecComma)).isNone = true
    ∧ (parsePolicy (goCfgWith 64 true hi0) (Policy.str hi0 polSpecComma)).isSome = true := by decide

/-- … and conditional on the generated fact, about the parser as the source has it -/
theorem c20_policy_string_cex_specifier_src (h : Gen.FactsText.ukQuotedPrefix = false) :
    (parsePolicy (goCfg hi0) (Policy.str hi0 polSpecComma)).isNone = true := by
  unfold goCfg
  rw [h]
  rcases tie_policy_bits.2.2.2.2.2.2.2 with h8 | h64
  · rw [h8]; exact c20_policy_string_cex_specifier.1
  · rw [h64]; exact c20_policy_string_cex_specifier.2.1

/-- hypotheses are satisfiable by a non-trivial policy: a threshold over every kind,
    including a `uc` with 2^40 required signatures, a quoted specifier containing
    delimiters, a quote and a space, and an empty key -/
def polDemo : Policy :=
  .thresh 2 (.cons (.above 100) (.cons (.after (-5)) (.cons (.pk (List.replicate 32 7))
    (.cons (.uc 9 [⟨[101, 100, 50, 53, 53, 49, 57, 0, 0, 0, 0, 0, 0, 0, 0, 0], [1, 2]⟩,
                    ⟨[97, 32, 34, 98, 44, 40, 93, 0, 0, 0, 0, 0, 0, 0, 0, 0], []⟩] 1099511627776)
      (.cons (.thresh 0 .nil) .nil)))))

theorem polDemo_wf : polDemo.WF := by
  simp [polDemo, Policy.WF, PolicyList.WF]

example : parsePolicy (goCfg hi0) (Policy.str hi0 polDemo) = some polDemo :=
  c20_policy_string_roundtrip hi0 polDemo polDemo_wf

end C20
