import SiaProofs.Props.C11Irregular
import SiaModel.Codec.PolicyBridge
import SiaModel.Gen.FactsPolicyCodec
/-!
# C11 for the `SpendPolicy` / `SatisfiedPolicy` binary codec

Model: `SiaModel/Codec/Policy.lean` (version byte, opcode, payload; thresholds with a one-byte
child count; depth 0…32), assembled from the lawful combinators, hence itself lawful
(`Policy.codec_ok`) and plugged into `Irregular.env` as `Types.SpendPolicy` — so every generic
theorem of C11 / C10-decode now also covers v2 transactions WITH inputs (`c11_v2txn_*`),
`SatisfiedPolicy`, `V2SiacoinInput`, ….

`SatisfiedPolicy.EncodeTo/DecodeFrom` are a plain record (policy, signatures, preimages): the
witnesses are NOT interleaved with the policy walk on the wire; any number of signatures and
preimages round-trips, and matching them to the policy (surplus / missing witnesses) is the
business of `Verify` (C14), not of the codec.
-/
namespace C11
open Sia.Codec Sia.Codec.Gen

/-- the schema of a policy (an `ext` leaf resolved by `Irregular.env`) -/
def policySch : Sch := .ext "Types.SpendPolicy"

/-- **the decoder's limits**, as a decidable predicate on policy values: version 1; known
opcodes; above/after < 2^64; keys, hashes, addresses of 32 bytes; a threshold has `n < 256` and
fewer than 256 sub-policies, each within the limits one level deeper; nodes at depths 0…32
only; unlock conditions canonical for their (generated) schema. -/
def PolicyWithinLimits (v : Val) : Bool := (Policy.codec Env.default).canon v

theorem policy_canon_eq (v : Val) : canon Irregular.env policySch v = PolicyWithinLimits v := by
  simp [policySch, canon, Irregular.env, Irregular.env2, Irregular.env1, Irregular.envP, Env.with, PolicyWithinLimits]

/-! explicit form of the limits, opcode by opcode (`f` = levels that may still follow) -/

theorem limits_version (n : Val) : PolicyWithinLimits (.pair (.nat 1) n) = (Policy.node Env.default Policy.maxDepth).canon n := by
  simp [PolicyWithinLimits, Policy.codec, Codec.tagged, findTag, Policy.version]

theorem limits_above (f h : Nat) : (Policy.node Env.default f).canon (.pair (.nat 1) (.nat h)) = decide (h < W64) := by
  cases f <;> simp [Policy.node, Codec.tagged, findTag, Policy.opAbove, Codec.ofSch, canon, Atom.codec, isNat]

theorem limits_hash (f : Nat) (b : Bytes) : (Policy.node Env.default f).canon (.pair (.nat 4) (.bytes b)) = (b.length == 32) := by
  cases f <;> simp [Policy.node, Codec.tagged, findTag, Policy.opAbove, Policy.opAfter, Policy.opPublicKey, Policy.opHash,
    Codec.ofSch, canon, Atom.codec, isBytes]

theorem limits_threshold_leaf (n : Nat) (cs : List Val) :
    (Policy.node Env.default 0).canon (.pair (.nat 5) (.pair (.nat n) (.pair (.list cs) .unit))) =
      (decide (n < 256) && cs.isEmpty) := by
  cases cs <;> simp [Policy.node, Codec.tagged, findTag, Policy.opAbove, Policy.opAfter, Policy.opPublicKey, Policy.opHash,
    Policy.opThreshold, Codec.ofSch, canon, Atom.codec, isNat, Policy.threshSch, Sch.seq, Policy.childEnv, Env.with,
    Codec.list8, Codec.fail]

theorem limits_threshold (f n : Nat) (cs : List Val) :
    (Policy.node Env.default (f + 1)).canon (.pair (.nat 5) (.pair (.nat n) (.pair (.list cs) .unit))) =
      (decide (n < 256) && (decide (cs.length < 256) && cs.all (Policy.node Env.default f).canon)) := by
  simp [Policy.node, Codec.tagged, findTag, Policy.opAbove, Policy.opAfter, Policy.opPublicKey, Policy.opHash,
    Policy.opThreshold, Codec.ofSch, canon, Atom.codec, isNat, Policy.threshSch, Sch.seq, Policy.childEnv, Env.with,
    Codec.list8]

/-- **c11_policy_roundtrip**: every policy within the decoder's limits decodes back from its
encoding (followed by anything) -/
theorem c11_policy_roundtrip (k : Nat) (v : Val) (rest : Bytes) (h : PolicyWithinLimits v = true) :
    dec Irregular.env k policySch (enc Irregular.env policySch v ++ rest) = .ok (v, rest) :=
  c11_roundtrip c11_env_ok k policySch rfl v rest (by rw [Canon, policy_canon_eq]; exact h)

/-- whatever the decoder returns is within the limits (the predicate is exact) -/
theorem c11_policy_decoded_within_limits (k : Nat) (bs : Bytes) (v : Val) (rest : Bytes)
    (h : dec Irregular.env k policySch bs = .ok (v, rest)) : PolicyWithinLimits v = true := by
  have := (c11_decode_canon c11_env_ok false k policySch bs v rest h).1
  rw [Canon, policy_canon_eq] at this; exact this

/-- **c11_policy_injective** -/
theorem c11_policy_injective (v w : Val) (hv : PolicyWithinLimits v = true) (hw : PolicyWithinLimits w = true)
    (h : enc Irregular.env policySch v = enc Irregular.env policySch w) : v = w :=
  c11_injective c11_env_ok policySch rfl v w (by rw [Canon, policy_canon_eq]; exact hv)
    (by rw [Canon, policy_canon_eq]; exact hw) h

/-- **c11_policy_prefix_free** -/
theorem c11_policy_prefix_free (v w : Val) (hv : PolicyWithinLimits v = true) (hw : PolicyWithinLimits w = true)
    (t : Bytes) (h : enc Irregular.env policySch v ++ t = enc Irregular.env policySch w) : v = w ∧ t = [] :=
  c11_prefix_free c11_env_ok policySch rfl v w (by rw [Canon, policy_canon_eq]; exact hv)
    (by rw [Canon, policy_canon_eq]; exact hw) t h

/-- every proper prefix of a policy encoding is refused -/
theorem c11_policy_truncation (k : Nat) (v : Val) (hv : PolicyWithinLimits v = true) (p q : Bytes)
    (h : p ++ q = enc Irregular.env policySch v) (hq : q ≠ []) : ∃ e, dec Irregular.env k policySch p = .error e :=
  c11_truncation_fails c11_env_ok false k policySch rfl v (by rw [Canon, policy_canon_eq]; exact hv) p q h hq

/-- the policy decoder accepts only canonical input: re-encoding gives back the bytes consumed -/
theorem c11_policy_reencode (k : Nat) (bs : Bytes) (v : Val) (rest : Bytes)
    (h : dec Irregular.env k policySch bs = .ok (v, rest)) :
    (enc Irregular.env policySch v ++ rest = bs ↔ decStrict Irregular.env k policySch bs = .ok (v, rest)) :=
  c11_reencode c11_env_ok k policySch rfl bs v rest h

/-- **c11_policy_decode_total**: on ANY bytes the decoder returns a value or an ordinary error —
it is a total function (recursion on the 33 depth levels of `Policy.node`, the explicit fuel; the
one-byte child count bounds every loop by 255) — it never panics, and it allocates at most
`depth·(|input| + slack)` slots (256 per nesting level: `make([]SpendPolicy, d.ReadUint8())`). -/
theorem c11_policy_decode_total (k : Nat) (bs : Bytes) :
    dec Irregular.env k policySch bs ≠ .error .panic ∧
    allocOf Irregular.env k policySch bs ≤ policySch.depth Irregular.env * bs.length + policySch.depth Irregular.env * k :=
  ⟨C10D.c10_decode_total c11_env_ok false k policySch (env_fine.grd _) bs,
   C10D.c10_decode_alloc_bounded c11_env_ok k policySch rfl (env_fine.grd _) bs⟩

/-- **c11_satisfied_policy_roundtrip**: policy, then ANY number of signatures and of preimages
(the counts are transmitted, not derived from the policy walk) -/
theorem c11_satisfied_policy_roundtrip (k : Nat) (v : Val) (rest : Bytes)
    (h : Canon Irregular.env encSchema_Types_SatisfiedPolicy v) :
    dec Irregular.env k encSchema_Types_SatisfiedPolicy (enc Irregular.env encSchema_Types_SatisfiedPolicy v ++ rest) = .ok (v, rest) :=
  c11_roundtrip c11_env_ok k _ (wf_of_default env_fine _ (by decide +kernel)) v rest h

/-! ### the policy tree type of the semantics model (C14), embedded -/

/-- a policy of the semantics model within the limits round-trips through the codec -/
theorem c11_policy_roundtrip_tree (k : Nat) (p : Sia.Policy.Policy) (rest : Bytes)
    (h : PolicyWithinLimits (Policy.ofPolicy p) = true) :
    dec Irregular.env k policySch (enc Irregular.env policySch (Policy.ofPolicy p) ++ rest) = .ok (Policy.ofPolicy p, rest) :=
  c11_policy_roundtrip k _ rest h

/-! ### non-vacuity and the limits in action -/

def exLeaf : Val := .pair (.nat 1) (.nat 7)                             -- above(7)
def exThresh : Val := .pair (.nat 5) (.pair (.nat 2) (.pair (.list [exLeaf, .pair (.nat 4) (.bytes (List.replicate 32 9))]) .unit))
def exPolicy : Val := .pair (.nat 1) exThresh
/-- `d` thresholds around a leaf -/
def nested : Nat → Val
  | 0 => exLeaf
  | d + 1 => .pair (.nat 5) (.pair (.nat 1) (.pair (.list [nested d]) .unit))

example : PolicyWithinLimits exPolicy = true := by decide +kernel
example : enc Irregular.env policySch exPolicy =
    [1, 5, 2, 2, 1, 7,0,0,0,0,0,0,0, 4] ++ List.replicate 32 9 := by decide +kernel
example : PolicyWithinLimits (.pair (.nat 1) (nested 32)) = true := by decide +kernel
example : PolicyWithinLimits (.pair (.nat 1) (nested 33)) = false := by decide +kernel
example : PolicyWithinLimits (.pair (.nat 2) exLeaf) = false := by decide +kernel   -- wrong version
example : PolicyWithinLimits (.pair (.nat 1) (.pair (.nat 8) (.nat 0))) = false := by decide +kernel   -- unknown opcode
/-- `n > len(of)` is accepted by the codec (it is `Verify` that can never satisfy it) -/
example : PolicyWithinLimits (.pair (.nat 1) (.pair (.nat 5) (.pair (.nat 200) (.pair (.list []) .unit)))) = true := by
  decide +kernel
example : dec Irregular.env 0 policySch [2, 1, 7,0,0,0,0,0,0,0] = .error .invalid := rfl
example : dec Irregular.env 0 policySch [1, 0] = .error .invalid := rfl

/-! ### ties -/

/-- the opcodes of the model are the ones in the code — in the encoder AND in the decoder (two
separate constant blocks) -/
theorem tie_policy_opcodes :
    PolicyCodec.opcodesEnc = PolicyCodec.opcodesDec ∧
    PolicyCodec.opcodesEnc = [("opInvalid", 0), ("opAbove", Policy.opAbove), ("opAfter", Policy.opAfter),
      ("opPublicKey", Policy.opPublicKey), ("opHash", Policy.opHash), ("opThreshold", Policy.opThreshold),
      ("opOpaque", Policy.opOpaque), ("opUnlockConditions", Policy.opUnlockConditions)] ∧
    PolicyCodec.versionEnc = Policy.version ∧ PolicyCodec.versionDec = Policy.version := by
  refine ⟨rfl, rfl, rfl, rfl⟩

/-- the limits: `maxPolicyDepth`, the check `depth > maxPolicyDepth` with the root at depth 0 and
children one deeper, and the ONE-BYTE child count that sizes the slice -/
theorem tie_policy_limits :
    PolicyCodec.maxPolicyDepth = Policy.maxDepth ∧
    PolicyCodec.depthChecks = ["depth > maxPolicyDepth"] ∧
    PolicyCodec.readPolicyCalls = ["readPolicy(depth + 1)", "readPolicy(0)"] ∧
    PolicyCodec.thresholdAlloc = ["make([]SpendPolicy, d.ReadUint8())"] := by
  refine ⟨rfl, rfl, rfl, rfl⟩

/-- the payload of `opUnlockConditions` is the generated `UnlockConditions` codec, and a satisfied
policy is the generated record around the policy leaf -/
theorem tie_policy_payload_schemas :
    encSchema_Types_UnlockConditions = Spec.unlockConditions ∧
    encSchema_Types_SatisfiedPolicy = Spec.satisfiedPolicy := ⟨rfl, rfl⟩

end C11
