import SiaProofs.Props.C07Gen
/-!
# C07 / C03 — `validateRevision` as a WHOLE closure, on REGENERATED code: which contract a revision is judged against

`validateRevision` first selects the contract "as it currently stands": if the block's element table knows the
contract (`ms.elements[fce.ID]`) and the recorded diff carries an in-block revision, that revision; otherwise the
contract of the parent element the transaction supplies.  Then it runs the rule chain (`C07Gen.tie_validateRevision_gen`
relates that chain to the hand-written rules).  The whole closure — map lookup, slice index, nil test and pointer
dereference included — is translated on every run.

* `currentContract` is that selection, written once;
* `tie_validateRevision_whole_gen`: the regenerated closure IS "select `currentContract`, then the regenerated rule
  chain on it" (and it panics exactly when the element table points outside the diff list);
* `c07_revision_judged_against_current_gen`: consequently a revision is accepted exactly when the hand-written rules
  accept it AGAINST THE CURRENT CONTRACT and it is signed by the current contract's keys.
-/
namespace C07
open Gen.Types Gen.Consensus

/-- the contract a revision of `fce` is judged against -/
def currentContract (ms : MidState) (fce : V2FileContractElement) : Except String V2FileContract :=
  match Go.mapGet ms.elements fce.ID (0 : Int) with
  | (i, true) =>
    match Go.sliceGet ms.v2fces i with
    | .error e => .error e
    | .ok d =>
      match d.Revision with
      | some r => .ok r
      | none => .ok fce.V2FileContract
  | (_, false) => .ok fce.V2FileContract

theorem tie_validateRevision_whole_gen (ext : Ext) (ms : MidState) (fce : V2FileContractElement) (rev : V2FileContract) :
    validateV2FileContracts_validateRevision ext ms fce rev =
      (match currentContract ms fce with
       | .error e => .error e
       | .ok cur => validateV2FileContracts_validateRevisionRules ext cur rev ms) := by
  unfold validateV2FileContracts_validateRevision currentContract validateV2FileContracts_validateRevisionRules
  cases hm : Go.mapGet ms.elements fce.ID (0 : Int) with
  | mk i ok =>
    cases ok with
    | false => simp [bind, Except.bind, pure, Except.pure]
    | true =>
      cases hs : Go.sliceGet ms.v2fces i with
      | error e => simp [hs, bind, Except.bind, pure, Except.pure]
      | ok d =>
        cases hr : d.Revision with
        | none => simp [hs, hr, bind, Except.bind, pure, Except.pure]
        | some r => simp [hs, hr, bind, Except.bind, pure, Except.pure, Go.deref]

/-- A revision is accepted exactly when the hand-written rules accept it against the CURRENT contract (the latest
in-block revision if any) and it carries valid signatures of the CURRENT contract's keys. -/
theorem c07_revision_judged_against_current_gen (ext : Ext) (ms : MidState) (fce : V2FileContractElement)
    (rev cur : V2FileContract) (hc : currentContract ms fce = .ok cur) :
    validateV2FileContracts_validateRevision ext ms fce rev = .ok none ↔
      (Sia.Ledger.validateRevision (chOf ms) (ephOf ms) cur rev = .ok none ∧
       validateV2FileContracts_validateSignatures ext ms rev cur.RenterPublicKey cur.HostPublicKey = none) := by
  rw [tie_validateRevision_whole_gen, hc]
  exact (tie_validateRevision_gen ext ms cur rev).1

/-! ### non-vacuity: an in-block revision is what later revisions are judged against -/

def msWithRevision : MidState :=
  { elements := [(⟨#[9]⟩, 0)],
    v2fces := [{ Revision := some { sampleContract with RevisionNumber := 5 } }] }

example : currentContract msWithRevision { ID := ⟨#[9]⟩, V2FileContract := sampleContract }
    = .ok { sampleContract with RevisionNumber := 5 } := by rfl
example : currentContract msWithRevision { ID := ⟨#[8]⟩, V2FileContract := sampleContract } = .ok sampleContract := by rfl
-- revision number 3 is fine against the parent element (1) but not against the in-block revision (5)
example : validateV2FileContracts_validateRevision extAllOk msWithRevision { ID := ⟨#[9]⟩, V2FileContract := sampleContract }
    { sampleContract with RevisionNumber := 3 } = .ok (some "does not increase revision number (%v -> %v)") := by rfl
example : validateV2FileContracts_validateRevision extAllOk msWithRevision { ID := ⟨#[8]⟩, V2FileContract := sampleContract }
    { sampleContract with RevisionNumber := 3 } = .ok none := by rfl
-- an element table pointing outside the diff list is a panic, in the closure and in the selection alike
example : ∃ m, validateV2FileContracts_validateRevision extAllOk { elements := [(⟨#[9]⟩, 4)] } { ID := ⟨#[9]⟩ } {} = .error m := ⟨_, rfl⟩

end C07
