import SiaProofs.Props.C17Renew
/-!
# C17, part 4 — sequences of constructor calls

`Good ch fc` collects everything the constructors maintain: machine well-formedness, the
live-contract facts consensus enforces, and the constructor invariant `Inv`.  Every
successful `ReviseFor*` step maps a good contract to a good contract that consensus
accepts as a revision of its predecessor; `NewContract`, `RenewContract` and both
refreshes produce good contracts.  Hence (`c17_sequence`) along any sequence of
constructor calls starting from `NewContract` every consecutive pair is accepted.
-/
namespace C17
open Gen.Types Gen.Rhp4 C15

structure Good (ch : Nat) (fc : V2FileContract) : Prop where
  wf : FCWF fc
  live : Live ch fc
  inv : Inv fc

/-- one successful revision step with a request that is valid in the sense of the RPC's
own `Validate` (see the hypotheses of the `c17_revise_*` theorems) -/
inductive Step : V2FileContract → V2FileContract → Prop
  | fund (fc fc' : V2FileContract) (a : Currency) (u : Usage) :
      WF a → ReviseForFundAccounts fc a = .ok (fc', u, none) → Step fc fc'
  | replenish (fc fc' : V2FileContract) (a : Currency) (u : Usage) :
      WF a → ReviseForReplenish fc a = .ok (fc', u, none) → Step fc fc'
  | roots (fc fc' : V2FileContract) (p : HostPrices) (n : Nat) (u : Usage) :
      PricesWF p → ReviseForSectorRoots fc p n = .ok (fc', u, none) → Step fc fc'
  | free (fc fc' : V2FileContract) (p : HostPrices) (root : ByteArray) (n : Nat) (u : Usage) :
      PricesWF p → 4194304 * n ≤ fc.Filesize →
      ReviseForFreeSectors fc p root (Int.ofNat n) = .ok (fc', u, none) → Step fc fc'
  | append (fc fc' : V2FileContract) (p : HostPrices) (root : ByteArray) (n : Nat) (u : Usage) :
      PricesWF p → fc.Capacity + 4194304 * n < W →
      ReviseForAppendSectors fc p root n = .ok (fc', u, none) → Step fc fc'

theorem good_of_revised {ch eph : Nat} {fc fc' : V2FileContract} {u : Usage} (g : Good ch fc)
    (r : Revised ch eph fc fc' u) (room : fc'.RevisionNumber + 1 < W) : Good ch fc' := by
  have i1 := g.inv.missed_le_total
  have i2 := g.inv.total_le_host
  have h1 := r.host
  have h2 := r.missed
  refine ⟨r.wf, r.live room, ⟨?_, ?_⟩⟩
  · rw [r.collateral]; omega
  · rw [r.collateral]; omega

/-- **One step**: consensus accepts the result as a revision of its input, and the result is
good again (as long as the revision number has room to grow). -/
theorem c17_step (ch eph : Nat) (fc fc' : V2FileContract) (g : Good ch fc) (s : Step fc fc') :
    Sia.Ledger.validateRevision ch eph fc fc' = .ok none ∧ (fc'.RevisionNumber + 1 < W → Good ch fc') := by
  cases s with
  | fund a u ha h =>
    have r := (c17_revise_fund ch eph fc fc' a u none g.wf ha g.live h).2.2.2.2 rfl
    exact ⟨r.accepted, good_of_revised g r⟩
  | replenish a u ha h =>
    have r := (c17_revise_replenish ch eph fc fc' a u none g.wf ha g.live h).2.2.2.2 rfl
    exact ⟨r.accepted, good_of_revised g r⟩
  | roots p n u hp h =>
    have r := (c17_revise_roots ch eph fc fc' p n u none g.wf hp g.live h).2.2.2.2 rfl
    exact ⟨r.accepted, good_of_revised g r⟩
  | free p root n u hp hn h =>
    have r := ((c17_revise_free ch eph fc fc' p root n u none g.wf hp g.live hn h).2.2 rfl).2.2.2.2.2
    exact ⟨r.accepted, good_of_revised g r⟩
  | append p root n u hp hn h =>
    obtain ⟨_, _, _, _, _, _, hok⟩ := c17_revise_append ch eph fc fc' p root n u none g.wf hp g.live hn h
    have r := (hok rfl).2.2.2.2.2.2.2.2
    exact ⟨r.accepted, good_of_revised g r⟩

/-- a sequence of steps in which the revision number never reaches 2^64 − 1 -/
inductive Chain : V2FileContract → V2FileContract → Prop
  | nil (fc : V2FileContract) : Chain fc fc
  | cons (a b c : V2FileContract) : Step a b → b.RevisionNumber + 1 < W → Chain b c → Chain a c

/-- every consecutive pair is accepted by the consensus revision rules -/
inductive RevChain (ch eph : Nat) : V2FileContract → V2FileContract → Prop
  | nil (fc : V2FileContract) : RevChain ch eph fc fc
  | cons (a b c : V2FileContract) : Sia.Ledger.validateRevision ch eph a b = .ok none → RevChain ch eph b c → RevChain ch eph a c

/-- **Sequences** (induction over constructor call sequences). -/
theorem c17_sequence (ch eph : Nat) (fc fc' : V2FileContract) (g : Good ch fc) (c : Chain fc fc') :
    RevChain ch eph fc fc' ∧ Good ch fc' := by
  induction c with
  | nil fc => exact ⟨RevChain.nil fc, g⟩
  | cons a b c s room _ ih =>
    obtain ⟨acc, gb⟩ := c17_step ch eph a b g s
    obtain ⟨rc, gc⟩ := ih (gb room)
    exact ⟨RevChain.cons a b c acc rc, gc⟩

/-- The starting point: `NewContract` from a request that passed `Validate` is good. -/
theorem c17_new_contract_good (ch : Nat) (p : HostPrices) (cp : RPCFormContractParams) (hk ha : ByteArray)
    (fc : V2FileContract) (u : Usage)
    (hp : WF p.ContractPrice) (hal : WF cp.Allowance) (hco : WF cp.Collateral)
    (hph : cp.ProofHeight + 144 < W) (hch : ch ≤ cp.ProofHeight) (hnz : val cp.Allowance ≠ 0)
    (h : NewContract p cp hk ha = .ok (fc, u))
    (fits : val fc.RenterOutput.Value + val fc.HostOutput.Value < W2) : Good ch fc := by
  obtain ⟨_, wf, inv, live, _⟩ := c17_new_contract_valid ch p cp hk ha fc u hp hal hco hph hch hnz h
  exact ⟨wf, live fits, inv⟩

/-- … and so is the new contract of any renewal/refresh with the `RenewalOK` facts. -/
theorem c17_renewal_good (ch : Nat) (fc : V2FileContract) (rn : V2FileContractRenewal) (ok : RenewalOK fc rn)
    (hph : ch ≤ rn.NewContract.ProofHeight) (hwin : rn.NewContract.ProofHeight < rn.NewContract.ExpirationHeight)
    (fits : val rn.NewContract.RenterOutput.Value + val rn.NewContract.HostOutput.Value < W2) :
    Good ch rn.NewContract := by
  have i1 := ok.inv.missed_le_total
  have i2 := ok.inv.total_le_host
  refine ⟨ok.wf_nc, ⟨ok.fresh.2.2.2, by omega, hph, hwin, ?_, fits⟩, ok.inv⟩
  rw [ok.fresh.1]; omega

end C17
