import SiaModel.Ledger.Model
import SiaProofs.Lemmas.LedgerC01Fees
import SiaProofs.Lemmas.LedgerC01PoolSolv
/-! # C01 — value conservation (see DESIGN.md §6 C01)

The ledger model is `SiaModel/Ledger/Model.lean`; helper lemmas are in
`SiaProofs/Lemmas/LedgerC01*.lean`. -/
namespace C01
open Sia.Ledger

/-- the block reward never falls below the configured minimum -/
theorem c01_reward_ge_minimum (L : Ledger) : L.P.minimumCoinbase ≤ blockReward L := by
  unfold blockReward
  simp only []
  split
  · exact Nat.le_refl _
  · split
    · exact Nat.le_refl _
    · rename_i h; exact Nat.le_of_not_lt h

/-! ## 1. Miner fees reappear exactly in the miner payout -/

/-- An accepted block pays its miner(s) exactly the block reward plus every v1 miner fee plus
every v2 miner fee (sums over `Nat`, i.e. exact: `sumChecked` cannot wrap). -/
theorem c01_fees_in_payout {L : Ledger} {b : Block} {pid : Id} {ms : Mid}
    (h : validateBlock L b pid = .ok ms) :
    (b.payouts.map (·.2.value)).sum = blockReward L + b.fees1.sum + b.fees2.sum :=
  validateMinerPayouts_ok (validateOrphan_ok (validateBlock_ok h).1)

/-- hypotheses are satisfiable: a block with one v1 fee and one v2 fee -/
example : ∃ (L : Ledger) (b : Block),
    validateMinerPayouts L b = .ok () ∧ b.fees1 = [7] ∧ b.fees2 = [5] := by
  let t1 : Txn1 := { (default : Txn1) with fees := [7] }
  let t2 : Txn2 := { (default : Txn2) with fee := 5 }
  let L : Ledger := { (default : Ledger) with P := { (default : Params) with initialCoinbase := 100, minimumCoinbase := 30 } }
  refine ⟨L, { (default : Block) with txns1 := [t1], v2 := some (0, true, [t2]), payouts := [(1, { value := 112, addr := 0 })] }, ?_, rfl, rfl⟩
  rfl

/-! ## Element lookups check the element kind (regression guard for the v1 aliasing fix) -/

theorem c01_lookup_checks_kind {ms : Mid} {ts : Supp1} {id : Id} {e : ScElem}
    (h : ms.scElement ts id = some e) : e.id = id := by
  unfold Mid.scElement at h
  split at h
  · rename_i d hd
    cases h
    unfold Mid.scDiff? at hd
    split at hd
    · split at hd
      · rename_i hc; cases hd; exact hc.2
      · cases hd
    · cases hd
  · have := List.find?_some h
    simpa using this

theorem c01_lookup_checks_kind_sf {ms : Mid} {ts : Supp1} {id : Id} {e : SfElem}
    (h : ms.sfElement ts id = some e) : e.id = id := by
  unfold Mid.sfElement at h
  split at h
  · rename_i d hd
    cases h
    unfold Mid.sfDiff? at hd
    split at hd
    · split at hd
      · rename_i hc; cases hd; exact hc.2
      · cases hd
    · cases hd
  · have := List.find?_some h
    simpa using this

theorem c01_lookup_checks_kind_fc1 {ms : Mid} {ts : Supp1} {id : Id} {e : Fc1Elem}
    (h : ms.fc1Element ts id = some e) : e.id = id := by
  unfold Mid.fc1Element at h
  split at h
  · rename_i d hd
    cases h
    unfold Mid.fc1Diff? at hd
    split at hd
    · split at hd
      · rename_i hc; cases hd
        unfold Fc1Diff.current; split <;> exact hc.2
      · cases hd
    · cases hd
  · split at h
    · rename_i e' he'
      cases h
      have := List.find?_some he'
      simpa using this
    · rw [Option.map_eq_some_iff] at h
      obtain ⟨p, hp, rfl⟩ := h
      have := List.find?_some hp
      simpa using this

/-! ## 4. Siafund claims are exact -/

/-- `claimPortion` returns exactly `⌊(pool − claimStart) / 10000⌋ · value` and returns at all only
when neither the subtraction underflows nor the product overflows 128 bits. -/
theorem c01_claim_exact {pool cs : Cur} {v : Nat} {c : Cur} :
    claimPortion pool cs v = .ok c ↔
      (cs ≤ pool ∧ (pool - cs) / 10000 * v < curLimit ∧ c = (pool - cs) / 10000 * v) :=
  claimPortion_ok

/-! ## 2. Conservation of value, block level

`V L` (`Sia.Ledger.V`) = Σ unspent siacoin outputs + Σ valid-output totals of unresolved v1 contracts +
Σ (renter + host) of unresolved v2 contracts + the siafund tax pool.

Hypotheses (all explicit premises of the theorems):
* `WF L` — ids of live elements pairwise distinct across kinds; every v1 contract has equal valid/missed totals;
  every v2 contract has `missedHost ≤ host.value`; siafund supply < 2^64; parameters for which
  `FoundationSubsidy` cannot panic.  Preserved by every accepted block (`c01_wf_preserved`).
* `FreshIds L b` — hash-collision freedom: the ids the block creates are pairwise distinct and new.
* `L.child ≥ L.P.ephemeralFix` — the legacy window of the ephemeral-output fix is closed.
* `SfNoWrap b` — per-transaction siafund output sums do not wrap a uint64 (in Go: block weight limit).
* `IdListsCover L b pid` — the finite lists standing for `ValidOutputID(i)` / `MissedOutputID(i)` are long enough
  (a modelling artefact: in Go the id exists for every index).

Ghost quantities: `b.claims L` — sum over all spent siafund inputs of
`⌊(pool at spend − claimStart)/10000⌋ · value` (`Sia.Ledger.claimVal`); `b.forfeits` — Σ over v2 expirations of
`host.value − missedHost`; `subsidyVal L` — the value `foundationSubsidy L` schedules (0 if none). -/

/-- No value is created or destroyed by an accepted block. -/
theorem c01_block_conserves {L : Ledger} {b : Block} {pid : Id} {msv : Mid}
    (hw : WF L) (hf : FreshIds L b) (hfix : L.child ≥ L.P.ephemeralFix) (hnw : SfNoWrap b)
    (hcov : IdListsCover L b pid) (hv : validateBlock L b pid = .ok msv) :
    ∃ L' ms, applyBlock L b = .ok (L', ms) ∧
      V L' + b.forfeits = V L + blockReward L + subsidyVal L + b.claims L := by
  obtain ⟨ms, hm, _, _, hP, _⟩ := block_conserves hw hf hfix hnw hcov hv
  refine ⟨ms.commit b.blockId, ms, ?_, ?_⟩
  · unfold applyBlock; rw [hm]; rfl
  · rw [V_commit]; exact hP

/-- The number of siafunds in unspent outputs never changes. -/
theorem c01_siafunds_constant {L : Ledger} {b : Block} {pid : Id} {msv : Mid}
    (hw : WF L) (hf : FreshIds L b) (hfix : L.child ≥ L.P.ephemeralFix) (hnw : SfNoWrap b)
    (hcov : IdListsCover L b pid) (hv : validateBlock L b pid = .ok msv) :
    ∀ L' ms, applyBlock L b = .ok (L', ms) → SFtot L' = SFtot L := by
  obtain ⟨ms, hm, _, _, _, hS, _⟩ := block_conserves hw hf hfix hnw hcov hv
  intro L' ms' h
  unfold applyBlock at h; rw [hm] at h; cases h
  rw [SF_commit]; exact hS

/-- Well-formedness (and with it every hypothesis on the ledger) is preserved by an accepted block. -/
theorem c01_wf_preserved {L : Ledger} {b : Block} {pid : Id} {msv : Mid}
    (hw : WF L) (hf : FreshIds L b) (hfix : L.child ≥ L.P.ephemeralFix) (hnw : SfNoWrap b)
    (hcov : IdListsCover L b pid) (hv : validateBlock L b pid = .ok msv) :
    ∀ L' ms, applyBlock L b = .ok (L', ms) → WF L' ∧ L'.child = L.child + 1 ∧ L'.P = L.P := by
  obtain ⟨ms, hm, hI, hb, _, hS, _⟩ := block_conserves hw hf hfix hnw hcov hv
  intro L' ms' h
  unfold applyBlock at h; rw [hm] at h; cases h
  have hc : Ctx (Tb L b) ms.base := by rw [hb]; exact ctx_of_wf hw hf
  refine ⟨wf_commit hc (by rw [hb]; exact hw) hI (by rw [hS, hb]) b.blockId, ?_, ?_⟩
  · show ms.base.child + 1 = L.child + 1; rw [hb]
  · show ms.base.P = L.P; rw [hb]

/-! ## Chains

A chain is a list of `(block, parent block id, relabel)`; `relabel` is what the accumulator does between two
blocks: it may change `leaf` fields only (`LeafEq`), e.g. assign leaf indices to the elements the block created. -/

/-- what is assumed of one block relative to the ledger it extends -/
structure BlockHyps (L : Ledger) (b : Block) (pid : Id) : Prop where
  fresh : FreshIds L b
  nowrap : SfNoWrap b
  cover : IdListsCover L b pid
  valid : ∃ ms, validateBlock L b pid = .ok ms

/-- apply a chain -/
def runChain : Ledger → List (Block × Id × (Ledger → Ledger)) → Option Ledger
  | L, [] => some L
  | L, (b, _, r) :: rest =>
    match applyBlock L b with
    | .ok (L', _) => runChain (r L') rest
    | .error _ => none

/-- every block of the chain is accepted by validation and satisfies the per-block hypotheses -/
def ChainHyps : Ledger → List (Block × Id × (Ledger → Ledger)) → Prop
  | _, [] => True
  | L, (b, pid, r) :: rest =>
    BlockHyps L b pid ∧ ∀ L' ms, applyBlock L b = .ok (L', ms) → LeafEq L' (r L') ∧ ChainHyps (r L') rest

/-- scheduled issuance plus siafund claims along a chain -/
def chainMinted : Ledger → List (Block × Id × (Ledger → Ledger)) → Nat
  | _, [] => 0
  | L, (b, _, r) :: rest =>
    blockReward L + subsidyVal L + b.claims L +
    (match applyBlock L b with
      | .ok (L', _) => chainMinted (r L') rest
      | .error _ => 0)

/-- value forfeited by missed v2 expirations along a chain -/
def chainForfeits : Ledger → List (Block × Id × (Ledger → Ledger)) → Nat
  | _, [] => 0
  | L, (b, _, r) :: rest =>
    b.forfeits +
    (match applyBlock L b with
      | .ok (L', _) => chainForfeits (r L') rest
      | .error _ => 0)

/-- Supply conservation along any accepted chain (hence for every prefix of it): the value function equals the
starting allocation plus every scheduled subsidy plus claims paid, minus forfeits; siafunds are constant; the
final ledger is well-formed again. -/
theorem c01_chain_conserves (bs : List (Block × Id × (Ledger → Ledger))) : ∀ (L0 : Ledger), WF L0 →
    L0.child ≥ L0.P.ephemeralFix → ChainHyps L0 bs →
    ∃ L, runChain L0 bs = some L ∧ WF L ∧
      V L + chainForfeits L0 bs = V L0 + chainMinted L0 bs ∧ SFtot L = SFtot L0 := by
  induction bs with
  | nil => intro L0 hw _ _; exact ⟨L0, rfl, hw, rfl, rfl⟩
  | cons x rest ih =>
    intro L0 hw hfix hch
    obtain ⟨b, pid, r⟩ := x
    obtain ⟨⟨hf, hnw, hcov, msv, hv⟩, hnext⟩ := hch
    obtain ⟨L', ms, ha, hV⟩ := c01_block_conserves hw hf hfix hnw hcov hv
    obtain ⟨hw', hch', hP'⟩ := c01_wf_preserved hw hf hfix hnw hcov hv L' ms ha
    have hS := c01_siafunds_constant hw hf hfix hnw hcov hv L' ms ha
    obtain ⟨hle, hrest⟩ := hnext L' ms ha
    have hfix' : (r L').child ≥ (r L').P.ephemeralFix := by rw [hle.child, hle.P, hch', hP']; omega
    obtain ⟨L, hr, hwL, hVL, hSL⟩ := ih (r L') (hle.wf hw') hfix' hrest
    refine ⟨L, ?_, hwL, ?_, ?_⟩
    · unfold runChain; rw [ha]; exact hr
    · unfold chainForfeits chainMinted; rw [ha]; simp only []
      have := hle.V
      omega
    · rw [hSL, hle.SFtot, hS]

/-! ## 4 (continued). Every claim output carries exactly the holder's share -/

/-- v2: the step that spends siafund input `sfi` creates the claim output `sfi.claimId` with value
`⌊(pool − claimStart)/10000⌋ · value`, the pool being the one in force when the input is spent. -/
theorem c01_claim_exact_v2 {ms ms' : Mid} {sfi : SfIn2} (h : stepSfIn2 ms sfi = .ok ms') :
    sfi.parent.claimStart ≤ ms.pool ∧
    ms' = (ms.spendSf sfi.parent).createImmatureSc sfi.claimId
      { value := (ms.pool - sfi.parent.claimStart) / 10000 * sfi.parent.value, addr := sfi.claimAddr } := by
  unfold stepSfIn2 at h
  rw [bind_eq_ok] at h; obtain ⟨c, hc, h⟩ := h
  cases h
  have hp : (ms.spendSf sfi.parent).pool = ms.pool := by
    unfold Mid.spendSf; exact putSf_pool _ _ _
  rw [hp, claimPortion_ok] at hc
  exact ⟨hc.1, by rw [hc.2.2]⟩

/-- v1: same statement, for the siafund element `e` the input's parent id resolves to. -/
theorem c01_claim_exact_v1 {ms ms' : Mid} {supp : Supp1} {sfi : SfIn1} (h : stepSfIn1 supp ms sfi = .ok ms') :
    ∃ e, ms.sfElement supp sfi.parent = some e ∧ e.id = sfi.parent ∧ e.claimStart ≤ ms.pool ∧
    ms' = (ms.spendSf e).createImmatureSc sfi.claimId
      { value := (ms.pool - e.claimStart) / 10000 * e.value, addr := sfi.claimAddr } := by
  unfold stepSfIn1 at h
  cases he : ms.sfElement supp sfi.parent with
  | none => rw [he] at h; cases h
  | some e =>
    rw [he] at h; simp only [] at h
    rw [bind_eq_ok] at h; obtain ⟨c, hc, h⟩ := h
    cases h
    rw [claimPortion_ok] at hc
    exact ⟨e, rfl, c01_lookup_checks_kind_sf he, hc.1, by rw [hc.2.2]⟩

/-! ## 4 (continued). The pool stays solvent

`PsiL L` = Σ over live siafund outputs of `value · (pool − claimStart)`, i.e. 10000 × what could still be claimed
before floor division; `CsOkL L` = every live output has `claimStart ≤ pool` (so no later claim can underflow). -/

/-- total of the siafund claims paid along a chain -/
def chainClaims : Ledger → List (Block × Id × (Ledger → Ledger)) → Nat
  | _, [] => 0
  | L, (b, _, r) :: rest =>
    b.claims L +
    (match applyBlock L b with
      | .ok (L', _) => chainClaims (r L') rest
      | .error _ => 0)

/-- One block: what was claimed plus what remains claimable grows by at most the tax the block collected
(times the siafund supply); `claimStart ≤ pool` is preserved. -/
theorem c01_pool_solvent_block {L : Ledger} {b : Block} {pid : Id} {msv : Mid}
    (hw : WF L) (hcs : CsOkL L) (hf : FreshIds L b) (hfix : L.child ≥ L.P.ephemeralFix) (hnw : SfNoWrap b)
    (hcov : IdListsCover L b pid) (hv : validateBlock L b pid = .ok msv) :
    ∀ L' ms, applyBlock L b = .ok (L', ms) →
      CsOkL L' ∧ L.pool ≤ L'.pool ∧ PsiL L' + 10000 * b.claims L ≤ PsiL L + (L'.pool - L.pool) * SFtot L :=
  pool_solvent_block hw hcs hf hfix hnw hcov hv

theorem chain_solvent_aux (bs : List (Block × Id × (Ledger → Ledger))) : ∀ (L0 : Ledger), WF L0 → CsOkL L0 →
    L0.child ≥ L0.P.ephemeralFix → ChainHyps L0 bs →
    ∃ L, runChain L0 bs = some L ∧ CsOkL L ∧ L0.pool ≤ L.pool ∧
      PsiL L + 10000 * chainClaims L0 bs ≤ PsiL L0 + (L.pool - L0.pool) * SFtot L0 := by
  induction bs with
  | nil => intro L0 _ hcs _ _; exact ⟨L0, rfl, hcs, Nat.le_refl _, by simp [chainClaims]⟩
  | cons x rest ih =>
    intro L0 hw hcs hfix hch
    obtain ⟨b, pid, r⟩ := x
    obtain ⟨⟨hf, hnw, hcov, msv, hv⟩, hnext⟩ := hch
    obtain ⟨L', ms, ha, _⟩ := c01_block_conserves hw hf hfix hnw hcov hv
    obtain ⟨hw', hch', hP'⟩ := c01_wf_preserved hw hf hfix hnw hcov hv L' ms ha
    have hS := c01_siafunds_constant hw hf hfix hnw hcov hv L' ms ha
    obtain ⟨hcs', hpl', hq'⟩ := pool_solvent_block hw hcs hf hfix hnw hcov hv L' ms ha
    obtain ⟨hle, hrest⟩ := hnext L' ms ha
    have hfix' : (r L').child ≥ (r L').P.ephemeralFix := by rw [hle.child, hle.P, hch', hP']; omega
    obtain ⟨L, hr, hcsL, hplL, hqL⟩ := ih (r L') (hle.wf hw') (hle.csOkL hcs') hfix' hrest
    rw [hle.PsiL, hle.pool, hle.SFtot, hS] at hqL
    rw [hle.pool] at hplL
    refine ⟨L, ?_, hcsL, Nat.le_trans hpl' hplL, ?_⟩
    · unfold runChain; rw [ha]; exact hr
    · unfold chainClaims; rw [ha]; simp only []
      have hsplit : (L.pool - L0.pool) * SFtot L0 = (L.pool - L'.pool) * SFtot L0 + (L'.pool - L0.pool) * SFtot L0 := by
        rw [← Nat.add_mul]; congr 1; unfold Cur at *; omega
      rw [hsplit]; omega

/-- Along any accepted chain, 10000 × (claims ever paid) plus what the live siafund outputs can still claim never
exceeds (siafund supply) × pool — despite per-output floor division; with the real supply of 10000 siafunds this is
`10000·claimsPaid + Σ value·(pool − claimStart) ≤ 10000·pool`. -/
theorem c01_pool_solvent (bs : List (Block × Id × (Ledger → Ledger))) (L0 : Ledger) (hw : WF L0) (hcs : CsOkL L0)
    (hfix : L0.child ≥ L0.P.ephemeralFix) (hch : ChainHyps L0 bs) :
    ∃ L, runChain L0 bs = some L ∧ CsOkL L ∧
      10000 * chainClaims L0 bs + PsiL L ≤ SFtot L0 * L.pool ∧
      (SFtot L0 ≤ 10000 → 10000 * chainClaims L0 bs + PsiL L ≤ 10000 * L.pool) := by
  obtain ⟨L, hr, hcsL, hpl, hq⟩ := chain_solvent_aux bs L0 hw hcs hfix hch
  have h0 := PsiL_le L0
  have key : 10000 * chainClaims L0 bs + PsiL L ≤ SFtot L0 * L.pool := by
    have hsplit : SFtot L0 * L.pool = (L.pool - L0.pool) * SFtot L0 + SFtot L0 * L0.pool := by
      rw [Nat.mul_comm (SFtot L0) L0.pool, ← Nat.add_mul, Nat.mul_comm]; congr 1; unfold Cur at *; omega
    rw [hsplit]; omega
  refine ⟨L, hr, hcsL, key, fun hS => ?_⟩
  exact Nat.le_trans key (Nat.mul_le_mul_right _ hS)

/-! ## Per-transaction conservation

`Phi ms` (`Sia.Ledger.Phi`) is the value of the ledger the mid-state `ms` would commit to (`V_commit`).
`Inv T ms`, `Ctx T L`, `Fresh T ms R` are the mid-state invariant, the static context and the freshness of the ids
still to be created (see `Lemmas/LedgerC01Inv.lean`); the block theorem discharges them. -/

/-- One accepted v2 transaction: potential + fee + forfeits = potential before + claims, where every claim is
`⌊(pool at the start of the transaction − claimStart)/10000⌋ · value`; siafunds unchanged; invariant kept. -/
theorem c01_v2txn_conserves {T} {ms ms' : Mid} {t : Txn2} {mw : Nat} {R : List (Kind × Id)}
    (hc : Ctx T ms.base) (hfix : ms.base.child ≥ ms.base.P.ephemeralFix) (hI : Inv T ms)
    (hm2 : ∀ e ∈ ms.base.fc2, e.fc.missedHost ≤ e.fc.host.value)
    (hF : Fresh T ms (t.created ++ R))
    (hnw : (t.sfOuts.map (·.2.1)).sum < u64Limit) (hsfb : sfTot ms < u64Limit)
    (hv : validateV2Transaction ms t mw = .ok ()) (ha : applyV2Transaction ms t = .ok ms') :
    Inv T ms' ∧ Fresh T ms' R ∧ ms'.base = ms.base ∧
    Phi ms' + t.fee + t.forfeits = Phi ms + t.claims ms.pool ∧ sfTot ms' = sfTot ms ∧ ms.pool ≤ ms'.pool ∧
    (CsOk ms → CsOk ms' ∧ Psi ms' + 10000 * t.claims ms.pool ≤ Psi ms + (ms'.pool - ms.pool) * sfTot ms) ∧
    ms'.pool = ms.pool + t.taxes ∧
    (1 ≤ ms.base.P.maturityDelay → scW (wImm ms.base.child) ms + t.claims ms.pool ≤ scW (wImm ms.base.child) ms') :=
  v2txn_conserves hc hfix hI hm2 hF hnw hsfb hv ha

/-- One accepted v1 transaction: potential + fees = potential before + claims; siafunds unchanged. -/
theorem c01_v1txn_conserves {T} {ms ms' : Mid} {t : Txn1} {pid : Id} {mw : Nat} {R : List (Kind × Id)}
    (hc : Ctx T ms.base) (hI : Inv T ms) (hsupp : SuppOk ms.base t.supp)
    (hF : Fresh T ms (t.created ++ R))
    (hlen : ∀ sp ∈ t.proofs, ∀ e, ms.fc1Element t.supp sp.parent = some e → e.fc.valid.length ≤ sp.outIds.length)
    (hnw : (t.sfOuts.map (·.2.1)).sum < u64Limit) (hsfb : sfTot ms < u64Limit)
    (hv : validateTransaction ms t pid mw = .ok ()) (ha : applyTransaction ms t = .ok ms') :
    Inv T ms' ∧ Fresh T ms' R ∧ ms'.base = ms.base ∧
    Phi ms' + t.fees.sum = Phi ms + t.claims ms ∧ sfTot ms' = sfTot ms ∧ ms.pool ≤ ms'.pool ∧
    (CsOk ms → CsOk ms' ∧ Psi ms' + 10000 * t.claims ms ≤ Psi ms + (ms'.pool - ms.pool) * sfTot ms) ∧
    ms'.pool = ms.pool + t.taxes ms.base ∧
    (1 ≤ ms.base.P.maturityDelay → scW (wImm ms.base.child) ms + t.claims ms ≤ scW (wImm ms.base.child) ms') :=
  v1txn_conserves hc hI hsupp hF hlen hnw hsfb hv ha

/-! ## 5. Non-vacuity: a concrete two-block chain satisfying every hypothesis -/

theorem exists_ok_of_isOk {α : Type} {x : VM α}
    (h : (match x with | .ok _ => true | .error _ => false) = true) : ∃ a, x = .ok a := by
  cases x with
  | ok a => exact ⟨a, rfl⟩
  | error e => cases h

def exP : Params :=
  { initialCoinbase := 300000, minimumCoinbase := 30, maturityDelay := 1, blocksPerYear := 52560, hfDevAddr := 0,
    devOldAddr := 900, devNewAddr := 901, hfTax := 0, hfStorageProof := 0, hfFoundation := 1000, v2Allow := 0,
    v2Require := 1000, ephemeralFix := 0, voidAddr := 0 }

def exSc1 : ScElem := { id := 1, value := 1000, addr := 7, maturity := 0, leaf := some 0 }
def exSc3 : ScElem := { id := 3, value := 200, addr := 7, maturity := 0, leaf := some 2 }
def exSf2 : SfElem := { id := 2, value := 10000, addr := 8, claimStart := 0, leaf := some 1 }
/-- a v1 contract whose proof window is open -/
def exFc4c : Fc1 :=
  { filesize := 0, root := 0, windowStart := 4, windowEnd := 10, payout := 62,
    valid := [{ value := 40, addr := 7 }, { value := 20, addr := 9 }], missed := [{ value := 60, addr := 0 }],
    unlockHash := 5, revNum := 1 }
def exFc4 : Fc1Elem := { id := 4, fc := exFc4c, leaf := some 3 }
/-- a v1 contract that expires in this block -/
def exFc5c : Fc1 :=
  { filesize := 0, root := 0, windowStart := 2, windowEnd := 5, payout := 26,
    valid := [{ value := 25, addr := 7 }], missed := [{ value := 15, addr := 7 }, { value := 10, addr := 0 }],
    unlockHash := 5, revNum := 1 }
def exFc5 : Fc1Elem := { id := 5, fc := exFc5c, leaf := some 4 }
/-- a v2 contract past its expiration height; a miss forfeits 200 -/
def exFc6c : Fc2 :=
  { capacity := 10, filesize := 0, root := 0, proofHeight := 2, expHeight := 3,
    renter := { value := 100, addr := 7 }, host := { value := 300, addr := 9 }, missedHost := 100,
    totalCollateral := 0, renterKey := 1, hostKey := 2, revNum := 0 }
def exFc6 : Fc2Elem := { id := 6, fc := exFc6c, leaf := some 5 }

def exL : Ledger :=
  { P := exP, child := 5, sc := [exSc1, exSc3], sf := [exSf2], fc1 := [exFc4, exFc5], fc2 := [exFc6], pool := 50000,
    fPrimary := 0, fFailsafe := 0, chain := [] }

def exFc : Fc2 :=
  { capacity := 10, filesize := 0, root := 0, proofHeight := 5, expHeight := 20,
    renter := { value := 500, addr := 7 }, host := { value := 375, addr := 9 }, missedHost := 375,
    totalCollateral := 0, renterKey := 1, hostKey := 2, revNum := 0 }

/-- v1: a plain payment with a fee -/
def exT1 : Txn1 :=
  { scIns := [{ parent := 3, timelock := 0, ucAddr := 7 }], scOuts := [(30, { value := 150, addr := 9 })],
    fcs := [], revs := [], proofs := [], sfIns := [], sfOuts := [], fees := [50], foundation := none,
    sigsOk := true, weight := 1, supp := { scIns := [exSc3], sfIns := [], revised := [], proofs := [] } }

/-- v1: a storage proof -/
def exT3 : Txn1 :=
  { scIns := [], scOuts := [], fcs := [], revs := [], proofs := [{ parent := 4, proofOk := true, outIds := [40, 41] }],
    sfIns := [], sfOuts := [], fees := [], foundation := none, sigsOk := true, weight := 1,
    supp := { scIns := [], sfIns := [], revised := [], proofs := [(exFc4, 97)] } }

/-- v2: a payment, a contract formation, a siafund transfer with a claim, a missed expiration -/
def exT2 : Txn2 :=
  { scIns := [{ parent := exSc1, addrOk := true, authOk := true }], scOuts := [(10, { value := 80, addr := 9 })],
    sfIns := [{ parent := exSf2, claimAddr := 8, claimId := 12, addrOk := true, authOk := true }],
    sfOuts := [(13, 10000, 8)], fcs := [(11, exFc, true)], revs := [],
    ress := [{ parent := exFc6, res := .expiration, renterOutId := 14, hostOutId := 15 }], natts := 0, attsOk := true,
    newFoundation := none, fee := 10, weight := 1 }

def exB : Block :=
  { txns1 := [exT1, exT3], v2 := some (5, true, [exT2]), payouts := [(20, { value := 90, addr := 9 })],
    foundationOutId := 21, expiring := [(exFc5, [50, 51])], headerOk := true, blockId := 99, maxWeight := 100 }

theorem ex_wf : WF exL := by
  refine ⟨by decide, by decide, by decide, by decide, by unfold ParamsOk; decide⟩
theorem ex_fresh : FreshIds exL exB := by
  refine ⟨by decide, ?_⟩
  intro p hp k
  cases k <;> revert p <;> decide
theorem ex_nowrap : SfNoWrap exB := by
  constructor <;> decide
theorem ex_cover : IdListsCover exL exB 98 := ⟨by decide, by decide⟩
theorem ex_valid : ∃ ms, validateBlock exL exB 98 = .ok ms := exists_ok_of_isOk (by decide)

/-- every hypothesis of `c01_block_conserves` holds of the concrete block, and its conclusion reads
`101515 + 200 = 51685 + 30 + 0 + 50000` -/
example : ∃ L' ms, applyBlock exL exB = .ok (L', ms) ∧
    V L' + exB.forfeits = V exL + blockReward exL + subsidyVal exL + exB.claims exL := by
  obtain ⟨ms, hv⟩ := ex_valid
  exact c01_block_conserves ex_wf ex_fresh (by decide) ex_nowrap ex_cover hv

example : V exL = 51685 ∧ exB.forfeits = 200 ∧ blockReward exL = 30 ∧ subsidyVal exL = 0 ∧ exB.claims exL = 50000 := by
  decide

/-- what the accumulator does between the two blocks: assign leaf indices -/
def exRelabel (L : Ledger) : Ledger :=
  { L with sc := L.sc.map (fun e => { e with leaf := some 0 }), sf := L.sf.map (fun e => { e with leaf := some 0 }),
           fc1 := L.fc1.map (fun e => { e with leaf := some 0 }), fc2 := L.fc2.map (fun e => { e with leaf := some 0 }) }

theorem exRelabel_leafEq (L : Ledger) : LeafEq L (exRelabel L) := by
  unfold LeafEq Ledger.eraseLeaves exRelabel
  simp only [List.map_map]
  rfl

/-- second block: spends an output created by the first block and resolves the new v2 contract by storage proof -/
def exT4 : Txn2 :=
  { scIns := [{ parent := { id := 10, value := 80, addr := 9, maturity := 0, leaf := some 0 }, addrOk := true, authOk := true }],
    scOuts := [(60, { value := 75, addr := 7 })], sfIns := [], sfOuts := [], fcs := [], revs := [],
    ress := [{ parent := { id := 11, fc := exFc, leaf := some 0 }, res := .proof 5 99 true true,
               renterOutId := 61, hostOutId := 62 }],
    natts := 0, attsOk := true, newFoundation := none, fee := 5, weight := 1 }

def exB2 : Block :=
  { txns1 := [], v2 := some (6, true, [exT4]), payouts := [(70, { value := 35, addr := 9 })],
    foundationOutId := 71, expiring := [], headerOk := true, blockId := 100, maxWeight := 100 }

/-- the ledger after the first block (computed) -/
def exR1 : Ledger × Mid :=
  match applyBlock exL exB with
  | .ok r => r
  | .error _ => default

theorem ex_apply1 : applyBlock exL exB = .ok exR1 := by rfl

theorem ex_hyps2 : BlockHyps (exRelabel exR1.1) exB2 99 := by
  refine ⟨⟨by decide, ?_⟩, by constructor <;> decide, ⟨by decide, by decide⟩, exists_ok_of_isOk (by decide)⟩
  intro p hp k
  cases k <;> revert p <;> decide

theorem ex_chain : ChainHyps exL [(exB, 98, exRelabel), (exB2, 99, id)] := by
  refine ⟨⟨ex_fresh, ex_nowrap, ex_cover, ex_valid⟩, ?_⟩
  intro L' ms h
  rw [ex_apply1] at h
  have : exR1 = (L', ms) := Except.ok.inj h
  have hL : L' = exR1.1 := by rw [this]
  rw [hL]
  refine ⟨exRelabel_leafEq _, ex_hyps2, ?_⟩
  intro L'' ms'' _
  exact ⟨LeafEq.refl _, trivial⟩

/-- the chain theorem applies to the concrete two-block chain -/
example : ∃ L, runChain exL [(exB, 98, exRelabel), (exB2, 99, id)] = some L ∧ WF L ∧
    V L + chainForfeits exL [(exB, 98, exRelabel), (exB2, 99, id)] =
      V exL + chainMinted exL [(exB, 98, exRelabel), (exB2, 99, id)] ∧ SFtot L = SFtot exL :=
  c01_chain_conserves _ exL ex_wf (by decide) ex_chain

theorem ex_csok : CsOkL exL := by unfold CsOkL; decide

/-- pool solvency applies to the concrete chain -/
example : ∃ L, runChain exL [(exB, 98, exRelabel), (exB2, 99, id)] = some L ∧ CsOkL L ∧
    10000 * chainClaims exL [(exB, 98, exRelabel), (exB2, 99, id)] + PsiL L ≤ SFtot exL * L.pool ∧
    (SFtot exL ≤ 10000 → 10000 * chainClaims exL [(exB, 98, exRelabel), (exB2, 99, id)] + PsiL L ≤ 10000 * L.pool) :=
  c01_pool_solvent _ exL ex_wf ex_csok (by decide) ex_chain

/-! ## The legacy-window hypothesis is necessary

Below `EphemeralOutputHeight` the claimed record of an ephemeral parent is not checked against the output that was
actually created; the property statement excludes that window, and the model shows why. -/

/-- legacy window open: the fix height lies in the future -/
def lgP : Params := { exP with ephemeralFix := 100 }
def lgL : Ledger := { exL with P := lgP, fc1 := [], fc2 := [] }
/-- creates output 10 with value 1000 ... -/
def lgT1 : Txn2 :=
  { scIns := [{ parent := exSc1, addrOk := true, authOk := true }], scOuts := [(10, { value := 1000, addr := 9 })],
    sfIns := [], sfOuts := [], fcs := [], revs := [], ress := [], natts := 0, attsOk := true,
    newFoundation := none, fee := 0, weight := 1 }
/-- ... and spends "it" as an ephemeral parent claiming value 5000 -/
def lgT2 : Txn2 :=
  { scIns := [{ parent := { id := 10, value := 5000, addr := 9, maturity := 0, leaf := none }, addrOk := true, authOk := true }],
    scOuts := [(11, { value := 5000, addr := 9 })],
    sfIns := [], sfOuts := [], fcs := [], revs := [], ress := [], natts := 0, attsOk := true,
    newFoundation := none, fee := 0, weight := 1 }
def lgB : Block :=
  { txns1 := [], v2 := some (5, true, [lgT1, lgT2]), payouts := [(20, { value := 30, addr := 9 })],
    foundationOutId := 21, expiring := [], headerOk := true, blockId := 99, maxWeight := 100 }

/-- Every hypothesis of `c01_block_conserves` except `L.child ≥ L.P.ephemeralFix` holds, the block is accepted, and
4000 units appear from nowhere. -/
theorem c01_legacy_counterexample :
    WF lgL ∧ FreshIds lgL lgB ∧ SfNoWrap lgB ∧ IdListsCover lgL lgB 98 ∧ ¬ lgL.child ≥ lgL.P.ephemeralFix ∧
    (∃ ms, validateBlock lgL lgB 98 = .ok ms) ∧
    ∃ L' ms, applyBlock lgL lgB = .ok (L', ms) ∧
      V L' + lgB.forfeits = V lgL + blockReward lgL + subsidyVal lgL + lgB.claims lgL + 4000 := by
  refine ⟨⟨by decide, by decide, by decide, by decide, by unfold ParamsOk; decide⟩, ⟨by decide, ?_⟩,
    by constructor <;> decide, ⟨by decide, by decide⟩, by decide, exists_ok_of_isOk (by decide), ?_⟩
  · intro p hp k
    cases k <;> revert p <;> decide
  · obtain ⟨r, hr⟩ : ∃ r, applyBlock lgL lgB = .ok r := exists_ok_of_isOk (by decide)
    refine ⟨r.1, r.2, hr, ?_⟩
    have : (match applyBlock lgL lgB with
        | .ok r => decide (V r.1 + lgB.forfeits = V lgL + blockReward lgL + subsidyVal lgL + lgB.claims lgL + 4000)
        | .error _ => false) = true := by decide
    rw [hr] at this
    simpa using this


end C01
