import SiaModel.Ledger.Model
import SiaProofs.Lemmas.LedgerC01Fees
/-! # C01 — value conservation (see DESIGN.md §6 C01)

The ledger model is `SiaModel/Ledger/Model.lean`; helper lemmas are in
`SiaProofs/Lemmas/LedgerC01*.lean`. -/
namespace C01
open Sia.Ledger

/-- the block reward never falls below the configured minimum -/
theorem c01_reward_ge_minimum (L : Ledger) : L.P.minimumCoinbase ≤ blockReward L := by
  unfold blockReward
  simp only []
  split
  · exact Nat.le_refl _
  · split
    · exact Nat.le_refl _
    · rename_i h; exact Nat.le_of_not_lt h

/-! ## 1. Miner fees reappear exactly in the miner payout -/

/-- An accepted block pays its miner(s) exactly the block reward plus every v1 miner fee plus
every v2 miner fee (sums over `Nat`, i.e. exact: `sumChecked` cannot wrap). -/
theorem c01_fees_in_payout {L : Ledger} {b : Block} {pid : Id} {ms : Mid}
    (h : validateBlock L b pid = .ok ms) :
    (b.payouts.map (·.2.value)).sum = blockReward L + b.fees1.sum + b.fees2.sum :=
  validateMinerPayouts_ok (validateOrphan_ok (validateBlock_ok h).1)

/-- hypotheses are satisfiable: a block with one v1 fee and one v2 fee -/
example : ∃ (L : Ledger) (b : Block),
    validateMinerPayouts L b = .ok () ∧ b.fees1 = [7] ∧ b.fees2 = [5] := by
  let t1 : Txn1 := { (default : Txn1) with fees := [7] }
  let t2 : Txn2 := { (default : Txn2) with fee := 5 }
  let L : Ledger := { (default : Ledger) with P := { (default : Params) with initialCoinbase := 100, minimumCoinbase := 30 } }
  refine ⟨L, { (default : Block) with txns1 := [t1], v2 := some (0, true, [t2]), payouts := [(1, { value := 112, addr := 0 })] }, ?_, rfl, rfl⟩
  rfl

/-! ## Element lookups check the element kind (regression guard for the v1 aliasing fix) -/

theorem c01_lookup_checks_kind {ms : Mid} {ts : Supp1} {id : Id} {e : ScElem}
    (h : ms.scElement ts id = some e) : e.id = id := by
  unfold Mid.scElement at h
  split at h
  · rename_i d hd
    cases h
    unfold Mid.scDiff? at hd
    split at hd
    · split at hd
      · rename_i hc; cases hd; exact hc.2
      · cases hd
    · cases hd
  · have := List.find?_some h
    simpa using this

theorem c01_lookup_checks_kind_sf {ms : Mid} {ts : Supp1} {id : Id} {e : SfElem}
    (h : ms.sfElement ts id = some e) : e.id = id := by
  unfold Mid.sfElement at h
  split at h
  · rename_i d hd
    cases h
    unfold Mid.sfDiff? at hd
    split at hd
    · split at hd
      · rename_i hc; cases hd; exact hc.2
      · cases hd
    · cases hd
  · have := List.find?_some h
    simpa using this

theorem c01_lookup_checks_kind_fc1 {ms : Mid} {ts : Supp1} {id : Id} {e : Fc1Elem}
    (h : ms.fc1Element ts id = some e) : e.id = id := by
  unfold Mid.fc1Element at h
  split at h
  · rename_i d hd
    cases h
    unfold Mid.fc1Diff? at hd
    split at hd
    · split at hd
      · rename_i hc; cases hd
        unfold Fc1Diff.current; split <;> exact hc.2
      · cases hd
    · cases hd
  · split at h
    · rename_i e' he'
      cases h
      have := List.find?_some he'
      simpa using this
    · rw [Option.map_eq_some_iff] at h
      obtain ⟨p, hp, rfl⟩ := h
      have := List.find?_some hp
      simpa using this

/-! ## 4. Siafund claims are exact -/

/-- `claimPortion` returns exactly `⌊(pool − claimStart) / 10000⌋ · value` and returns at all only
when neither the subtraction underflows nor the product overflows 128 bits. -/
theorem c01_claim_exact {pool cs : Cur} {v : Nat} {c : Cur} :
    claimPortion pool cs v = .ok c ↔
      (cs ≤ pool ∧ (pool - cs) / 10000 * v < curLimit ∧ c = (pool - cs) / 10000 * v) :=
  claimPortion_ok

end C01
