import SiaModel.Ledger.Model
/-! # C01 — value conservation (theorems being developed; see DESIGN.md §6 C01) -/
namespace C01
open Sia.Ledger

/-- the block reward never falls below the configured minimum -/
theorem c01_reward_ge_minimum (L : Ledger) : L.P.minimumCoinbase ≤ blockReward L := by
  unfold blockReward
  simp only []
  split
  · exact Nat.le_refl _
  · split
    · exact Nat.le_refl _
    · rename_i h; exact Nat.le_of_not_lt h

end C01
