import SiaModel.Ledger.Model
import SiaProofs.Lemmas.LedgerC01Fees
import SiaProofs.Lemmas.LedgerC01WF
/-! # C01 — value conservation (see DESIGN.md §6 C01)

The ledger model is `SiaModel/Ledger/Model.lean`; helper lemmas are in
`SiaProofs/Lemmas/LedgerC01*.lean`. -/
namespace C01
open Sia.Ledger

/-- the block reward never falls below the configured minimum -/
theorem c01_reward_ge_minimum (L : Ledger) : L.P.minimumCoinbase ≤ blockReward L := by
  unfold blockReward
  simp only []
  split
  · exact Nat.le_refl _
  · split
    · exact Nat.le_refl _
    · rename_i h; exact Nat.le_of_not_lt h

/-! ## 1. Miner fees reappear exactly in the miner payout -/

/-- An accepted block pays its miner(s) exactly the block reward plus every v1 miner fee plus
every v2 miner fee (sums over `Nat`, i.e. exact: `sumChecked` cannot wrap). -/
theorem c01_fees_in_payout {L : Ledger} {b : Block} {pid : Id} {ms : Mid}
    (h : validateBlock L b pid = .ok ms) :
    (b.payouts.map (·.2.value)).sum = blockReward L + b.fees1.sum + b.fees2.sum :=
  validateMinerPayouts_ok (validateOrphan_ok (validateBlock_ok h).1)

/-- hypotheses are satisfiable: a block with one v1 fee and one v2 fee -/
example : ∃ (L : Ledger) (b : Block),
    validateMinerPayouts L b = .ok () ∧ b.fees1 = [7] ∧ b.fees2 = [5] := by
  let t1 : Txn1 := { (default : Txn1) with fees := [7] }
  let t2 : Txn2 := { (default : Txn2) with fee := 5 }
  let L : Ledger := { (default : Ledger) with P := { (default : Params) with initialCoinbase := 100, minimumCoinbase := 30 } }
  refine ⟨L, { (default : Block) with txns1 := [t1], v2 := some (0, true, [t2]), payouts := [(1, { value := 112, addr := 0 })] }, ?_, rfl, rfl⟩
  rfl

/-! ## Element lookups check the element kind (regression guard for the v1 aliasing fix) -/

theorem c01_lookup_checks_kind {ms : Mid} {ts : Supp1} {id : Id} {e : ScElem}
    (h : ms.scElement ts id = some e) : e.id = id := by
  unfold Mid.scElement at h
  split at h
  · rename_i d hd
    cases h
    unfold Mid.scDiff? at hd
    split at hd
    · split at hd
      · rename_i hc; cases hd; exact hc.2
      · cases hd
    · cases hd
  · have := List.find?_some h
    simpa using this

theorem c01_lookup_checks_kind_sf {ms : Mid} {ts : Supp1} {id : Id} {e : SfElem}
    (h : ms.sfElement ts id = some e) : e.id = id := by
  unfold Mid.sfElement at h
  split at h
  · rename_i d hd
    cases h
    unfold Mid.sfDiff? at hd
    split at hd
    · split at hd
      · rename_i hc; cases hd; exact hc.2
      · cases hd
    · cases hd
  · have := List.find?_some h
    simpa using this

theorem c01_lookup_checks_kind_fc1 {ms : Mid} {ts : Supp1} {id : Id} {e : Fc1Elem}
    (h : ms.fc1Element ts id = some e) : e.id = id := by
  unfold Mid.fc1Element at h
  split at h
  · rename_i d hd
    cases h
    unfold Mid.fc1Diff? at hd
    split at hd
    · split at hd
      · rename_i hc; cases hd
        unfold Fc1Diff.current; split <;> exact hc.2
      · cases hd
    · cases hd
  · split at h
    · rename_i e' he'
      cases h
      have := List.find?_some he'
      simpa using this
    · rw [Option.map_eq_some_iff] at h
      obtain ⟨p, hp, rfl⟩ := h
      have := List.find?_some hp
      simpa using this

/-! ## 4. Siafund claims are exact -/

/-- `claimPortion` returns exactly `⌊(pool − claimStart) / 10000⌋ · value` and returns at all only
when neither the subtraction underflows nor the product overflows 128 bits. -/
theorem c01_claim_exact {pool cs : Cur} {v : Nat} {c : Cur} :
    claimPortion pool cs v = .ok c ↔
      (cs ≤ pool ∧ (pool - cs) / 10000 * v < curLimit ∧ c = (pool - cs) / 10000 * v) :=
  claimPortion_ok

/-! ## 2. Conservation of value, block level

`V L` (`Sia.Ledger.V`) = Σ unspent siacoin outputs + Σ valid-output totals of unresolved v1 contracts +
Σ (renter + host) of unresolved v2 contracts + the siafund tax pool.

Hypotheses (all explicit, none an axiom):
* `WF L` — ids of live elements pairwise distinct across kinds; every v1 contract has equal valid/missed totals;
  every v2 contract has `missedHost ≤ host.value`; siafund supply < 2^64; parameters for which
  `FoundationSubsidy` cannot panic.  Preserved by every accepted block (`c01_wf_preserved`).
* `FreshIds L b` — hash-collision freedom: the ids the block creates are pairwise distinct and new.
* `L.child ≥ L.P.ephemeralFix` — the legacy window of the ephemeral-output fix is closed.
* `SfNoWrap b` — per-transaction siafund output sums do not wrap a uint64 (in Go: block weight limit).
* `IdListsCover L b pid` — the finite lists standing for `ValidOutputID(i)` / `MissedOutputID(i)` are long enough
  (a modelling artefact: in Go the id exists for every index).

Ghost quantities: `b.claims L` — sum over all spent siafund inputs of
`⌊(pool at spend − claimStart)/10000⌋ · value` (`Sia.Ledger.claimVal`); `b.forfeits` — Σ over v2 expirations of
`host.value − missedHost`; `subsidyVal L` — the value `foundationSubsidy L` schedules (0 if none). -/

/-- No value is created or destroyed by an accepted block. -/
theorem c01_block_conserves {L : Ledger} {b : Block} {pid : Id} {msv : Mid}
    (hw : WF L) (hf : FreshIds L b) (hfix : L.child ≥ L.P.ephemeralFix) (hnw : SfNoWrap b)
    (hcov : IdListsCover L b pid) (hv : validateBlock L b pid = .ok msv) :
    ∃ L' ms, applyBlock L b = .ok (L', ms) ∧
      V L' + b.forfeits = V L + blockReward L + subsidyVal L + b.claims L := by
  obtain ⟨ms, hm, _, _, hP, _⟩ := block_conserves hw hf hfix hnw hcov hv
  refine ⟨ms.commit b.blockId, ms, ?_, ?_⟩
  · unfold applyBlock; rw [hm]; rfl
  · rw [V_commit]; exact hP

/-- The number of siafunds in unspent outputs never changes. -/
theorem c01_siafunds_constant {L : Ledger} {b : Block} {pid : Id} {msv : Mid}
    (hw : WF L) (hf : FreshIds L b) (hfix : L.child ≥ L.P.ephemeralFix) (hnw : SfNoWrap b)
    (hcov : IdListsCover L b pid) (hv : validateBlock L b pid = .ok msv) :
    ∀ L' ms, applyBlock L b = .ok (L', ms) → SFtot L' = SFtot L := by
  obtain ⟨ms, hm, _, _, _, hS⟩ := block_conserves hw hf hfix hnw hcov hv
  intro L' ms' h
  unfold applyBlock at h; rw [hm] at h; cases h
  rw [SF_commit]; exact hS

/-- Well-formedness (and with it every hypothesis on the ledger) is preserved by an accepted block. -/
theorem c01_wf_preserved {L : Ledger} {b : Block} {pid : Id} {msv : Mid}
    (hw : WF L) (hf : FreshIds L b) (hfix : L.child ≥ L.P.ephemeralFix) (hnw : SfNoWrap b)
    (hcov : IdListsCover L b pid) (hv : validateBlock L b pid = .ok msv) :
    ∀ L' ms, applyBlock L b = .ok (L', ms) → WF L' ∧ L'.child = L.child + 1 ∧ L'.P = L.P := by
  obtain ⟨ms, hm, hI, hb, _, hS⟩ := block_conserves hw hf hfix hnw hcov hv
  intro L' ms' h
  unfold applyBlock at h; rw [hm] at h; cases h
  have hc : Ctx (Tb L b) ms.base := by rw [hb]; exact ctx_of_wf hw hf
  refine ⟨wf_commit hc (by rw [hb]; exact hw) hI (by rw [hS, hb]) b.blockId, ?_, ?_⟩
  · show ms.base.child + 1 = L.child + 1; rw [hb]
  · show ms.base.P = L.P; rw [hb]

/-! ## Chains -/

/-- what is assumed of one block relative to the ledger it extends -/
structure BlockHyps (L : Ledger) (b : Block) (pid : Id) : Prop where
  fresh : FreshIds L b
  nowrap : SfNoWrap b
  cover : IdListsCover L b pid
  valid : ∃ ms, validateBlock L b pid = .ok ms

/-- apply a list of (block, parent block id) pairs -/
def runChain : Ledger → List (Block × Id) → Option Ledger
  | L, [] => some L
  | L, (b, _) :: rest =>
    match applyBlock L b with
    | .ok (L', _) => runChain L' rest
    | .error _ => none

/-- every block of the chain is accepted by validation and satisfies the per-block hypotheses -/
def ChainHyps : Ledger → List (Block × Id) → Prop
  | _, [] => True
  | L, (b, pid) :: rest => BlockHyps L b pid ∧ ∀ L' ms, applyBlock L b = .ok (L', ms) → ChainHyps L' rest

/-- scheduled issuance plus siafund claims along a chain -/
def chainMinted : Ledger → List (Block × Id) → Nat
  | _, [] => 0
  | L, (b, _) :: rest =>
    blockReward L + subsidyVal L + b.claims L +
    (match applyBlock L b with
      | .ok (L', _) => chainMinted L' rest
      | .error _ => 0)

/-- value forfeited by missed v2 expirations along a chain -/
def chainForfeits : Ledger → List (Block × Id) → Nat
  | _, [] => 0
  | L, (b, _) :: rest =>
    b.forfeits +
    (match applyBlock L b with
      | .ok (L', _) => chainForfeits L' rest
      | .error _ => 0)

/-- Supply conservation along any accepted chain (hence for every prefix of it): the value function equals the
starting allocation plus every scheduled subsidy plus claims paid, minus forfeits; siafunds are constant; the
final ledger is well-formed again. -/
theorem c01_chain_conserves (bs : List (Block × Id)) : ∀ (L0 : Ledger), WF L0 → L0.child ≥ L0.P.ephemeralFix →
    ChainHyps L0 bs →
    ∃ L, runChain L0 bs = some L ∧ WF L ∧
      V L + chainForfeits L0 bs = V L0 + chainMinted L0 bs ∧ SFtot L = SFtot L0 := by
  induction bs with
  | nil => intro L0 hw _ _; exact ⟨L0, rfl, hw, rfl, rfl⟩
  | cons x rest ih =>
    intro L0 hw hfix hch
    obtain ⟨b, pid⟩ := x
    obtain ⟨⟨hf, hnw, hcov, msv, hv⟩, hnext⟩ := hch
    obtain ⟨L', ms, ha, hV⟩ := c01_block_conserves hw hf hfix hnw hcov hv
    obtain ⟨hw', hch', hP'⟩ := c01_wf_preserved hw hf hfix hnw hcov hv L' ms ha
    have hS := c01_siafunds_constant hw hf hfix hnw hcov hv L' ms ha
    have hfix' : L'.child ≥ L'.P.ephemeralFix := by rw [hch', hP']; omega
    obtain ⟨L, hr, hwL, hVL, hSL⟩ := ih L' hw' hfix' (hnext L' ms ha)
    refine ⟨L, ?_, hwL, ?_, hSL.trans hS⟩
    · unfold runChain; rw [ha]; exact hr
    · unfold chainForfeits chainMinted; rw [ha]; simp only []
      omega

/-! ## 4 (continued). Every claim output carries exactly the holder's share -/

/-- v2: the step that spends siafund input `sfi` creates the claim output `sfi.claimId` with value
`⌊(pool − claimStart)/10000⌋ · value`, the pool being the one in force when the input is spent. -/
theorem c01_claim_exact_v2 {ms ms' : Mid} {sfi : SfIn2} (h : stepSfIn2 ms sfi = .ok ms') :
    sfi.parent.claimStart ≤ ms.pool ∧
    ms' = (ms.spendSf sfi.parent).createImmatureSc sfi.claimId
      { value := (ms.pool - sfi.parent.claimStart) / 10000 * sfi.parent.value, addr := sfi.claimAddr } := by
  unfold stepSfIn2 at h
  rw [bind_eq_ok] at h; obtain ⟨c, hc, h⟩ := h
  cases h
  have hp : (ms.spendSf sfi.parent).pool = ms.pool := by
    unfold Mid.spendSf; exact putSf_pool _ _ _
  rw [hp, claimPortion_ok] at hc
  exact ⟨hc.1, by rw [hc.2.2]⟩

/-- v1: same statement, for the siafund element `e` the input's parent id resolves to. -/
theorem c01_claim_exact_v1 {ms ms' : Mid} {supp : Supp1} {sfi : SfIn1} (h : stepSfIn1 supp ms sfi = .ok ms') :
    ∃ e, ms.sfElement supp sfi.parent = some e ∧ e.id = sfi.parent ∧ e.claimStart ≤ ms.pool ∧
    ms' = (ms.spendSf e).createImmatureSc sfi.claimId
      { value := (ms.pool - e.claimStart) / 10000 * e.value, addr := sfi.claimAddr } := by
  unfold stepSfIn1 at h
  cases he : ms.sfElement supp sfi.parent with
  | none => rw [he] at h; cases h
  | some e =>
    rw [he] at h; simp only [] at h
    rw [bind_eq_ok] at h; obtain ⟨c, hc, h⟩ := h
    cases h
    rw [claimPortion_ok] at hc
    exact ⟨e, rfl, c01_lookup_checks_kind_sf he, hc.1, by rw [hc.2.2]⟩

/-- the siafund-input loops never move the pool, so "pool at spend" is the pool at the start of the transaction -/
theorem c01_claim_pool_fixed {T} {ms ms' : Mid} {t : Txn2} {mw : Nat} {R : List (Kind × Id)}
    (hc : Ctx T ms.base) (hfix : ms.base.child ≥ ms.base.P.ephemeralFix) (hI : Inv T ms)
    (hF : Fresh T ms (t.created ++ R))
    (hnw : (t.sfOuts.map (·.2.1)).sum < u64Limit) (hsfb : sfTot ms < u64Limit)
    (hv : validateV2Transaction ms t mw = .ok ()) (ha : applyV2Transaction ms t = .ok ms') :
    Phi ms' + t.fee + t.forfeits = Phi ms + t.claims ms.pool :=
  (v2txn_conserves hc hfix hI hF hnw hsfb hv ha).2.2.2.1

end C01
