import SiaModel.Gen.CodeConsensus
/-!
# C04 / C03 — what validation establishes about ONE v2 input, on REGENERATED code

The second half of the loop bodies of `validateV2Siacoins` / `validateV2Siafunds` (accumulator membership or the
ephemeral check) and `validateV2SpendPolicy` are translated from `consensus/validation.go` on every run.  The
accumulator tests, the ephemeral-parent check, the policy's address and the policy verifier are external parameters
(`ext`; their own properties are C04's accumulator theorems, C10's ledger theorems and C14).

* `c04_v2_siacoin_input_member_gen` / `c04_v2_siafund_input_member_gen`: the input is accepted exactly when its
  parent is either marked ephemeral (unassigned leaf index) and passes the ephemeral check, or is an UNSPENT member
  of the state's accumulator — there is no third way in.
* `c03_v2_spend_policy_gen`: the spend is authorised exactly when the revealed policy hashes to the parent's address
  AND verifies for the transaction's sighash at the parent state's height and median timestamp.
-/
namespace C04
open Gen.Types Gen.Consensus

theorem c04_v2_siacoin_input_member_gen (ext : Ext) (ms : MidState) (sci : V2SiacoinInput) (i : Int) :
    validateV2Siacoins_inputMember ext sci ms i = none ↔
      (if sci.Parent.StateElement.LeafIndex = 10101010101010101010
       then ext.validateEphemeralSiacoinElement ms sci = none
       else ext.containsUnspentSiacoinElement ms.base.Elements (SiacoinElement.Share sci.Parent) = true) := by
  unfold validateV2Siacoins_inputMember
  by_cases h : sci.Parent.StateElement.LeafIndex = 10101010101010101010
  · simp only [h, decide_true, if_true]
    cases he : ext.validateEphemeralSiacoinElement ms sci <;> simp
  · simp only [h, decide_false, Bool.false_eq_true, if_false]
    cases hm : ext.containsUnspentSiacoinElement ms.base.Elements (SiacoinElement.Share sci.Parent) <;>
    cases hs : ext.containsSpentSiacoinElement ms.base.Elements (SiacoinElement.Share sci.Parent) <;> simp

theorem c04_v2_siafund_input_member_gen (ext : Ext) (ms : MidState) (sfi : V2SiafundInput) (i : Int) :
    validateV2Siafunds_inputMember ext sfi ms i = none ↔
      (if sfi.Parent.StateElement.LeafIndex = 10101010101010101010
       then ext.validateEphemeralSiafundElement ms sfi = none
       else ext.containsUnspentSiafundElement ms.base.Elements (SiafundElement.Share sfi.Parent) = true) := by
  unfold validateV2Siafunds_inputMember
  by_cases h : sfi.Parent.StateElement.LeafIndex = 10101010101010101010
  · simp only [h, decide_true, if_true]
    cases he : ext.validateEphemeralSiafundElement ms sfi <;> simp
  · simp only [h, decide_false, Bool.false_eq_true, if_false]
    cases hm : ext.containsUnspentSiafundElement ms.base.Elements (SiafundElement.Share sfi.Parent) <;>
    cases hs : ext.containsSpentSiafundElement ms.base.Elements (SiafundElement.Share sfi.Parent) <;> simp

theorem c03_v2_spend_policy_gen (ext : Ext) (ms : MidState) (sigHash : ByteArray) (sp : SatisfiedPolicy)
    (parentAddress parentID : ByteArray) :
    validateV2SpendPolicy ext ms sigHash sp parentAddress parentID = none ↔
      (ext.PolicyAddress sp.Policy = parentAddress ∧
       ext.PolicyVerify sp.Policy ms.base.Index.Height (ext.medianTimestamp ms.base) sigHash sp.Signatures sp.Preimages = none) := by
  unfold validateV2SpendPolicy
  by_cases h : ext.PolicyAddress sp.Policy = parentAddress
  · simp only [h, ne_eq, not_true_eq_false, decide_false, Bool.false_eq_true, if_false, true_and]
    cases hv : ext.PolicyVerify sp.Policy ms.base.Index.Height (ext.medianTimestamp ms.base) sigHash sp.Signatures sp.Preimages <;> simp
  · simp [h]

example : validateV2Siacoins_inputMember { Ext.trivial with containsUnspentSiacoinElement := fun _ _ => true } {} {} 0 = none := by rfl
example : validateV2Siacoins_inputMember Ext.trivial {} {} 0
    = some "siacoin input %v spends output (%v) not present in the accumulator" := by rfl
example : validateV2SpendPolicy Ext.trivial {} ByteArray.empty {} (Go.zeros 32) ByteArray.empty = none := by rfl
example : validateV2SpendPolicy Ext.trivial {} ByteArray.empty {} (Go.zeros 31) ByteArray.empty
    = some "claims incorrect policy for parent address" := by decide

end C04
