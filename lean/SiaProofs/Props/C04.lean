/-
# C04 — Accumulator membership is sound

`containsLeaf` (consensus/merkle.go) accepts a leaf only if exactly that leaf — that
element hash, that spent flag, that leaf index — sits at that position of the naive
Merkle forest over all leaves ever added, and then the proof is the naive path; and
the genuine leaf with the naive path is accepted.

Model: `SiaModel/Merkle/Accumulator.lean` (transliteration of merkle.go),
specification: `SiaModel/Merkle/Forest.lean`. Hash injectivity is a hypothesis
(`HashInj`), never an axiom; a model of it is exhibited below (`T`, the free term
algebra).  Disjointness of leaf and node hashes is NOT needed: `containsLeaf` fixes the
proof length to the height of an existing tree, so a leaf can never be confused with
an interior node.
-/
import SiaProofs.Lemmas.Forest
import SiaProofs.Lemmas.TermHash
namespace C04
open Sia.ElemAcc

/-- BLAKE2b collision freedom in symbolic form, for the two hash shapes the
    accumulator uses: `node l r = H(0x01‖l‖r)` and
    `leaf e i s = H(0x00‖e‖le64 i‖s)`. -/
structure HashInj (H : Type) [Hasher H] : Prop where
  node_inj : ∀ a b c d : H, node a b = node c d → a = c ∧ b = d
  leaf_inj : ∀ (e e' : H) (i i' : Nat) (s s' : Bool),
    (Hasher.leaf e i s : H) = Hasher.leaf e' i' s' → e = e' ∧ i = i' ∧ s = s'

section
variable {H : Type} [Hasher H] [Inhabited H] [DecidableEq H]

/-- every leaf of the forest commits to its own position (true of every leaf list
    produced by `addLeaves`/`updateLeaves`, which hash `LeafIndex` into the leaf) -/
def IndexCommitted (ls : List H) : Prop :=
  ∀ j, j < ls.length → ∃ e s, ls.getD j default = Hasher.leaf e j s

/-- Soundness without the index commitment: an accepted leaf hash is the leaf at the
    position selected by the low bits of the claimed index, inside the tree selected
    by the proof length, and the proof is the naive path of that position. -/
theorem c04_contains_sound_raw (inj : NodeInj H) (acc : Acc H) (ls : List H)
    (hacc : acc.toForest = forestOf ls) (l : Leaf H) (hc : acc.containsLeaf l = true) :
    let p := treeStart ls.length l.proof.length + l.index % 2 ^ l.proof.length
    p < ls.length ∧ ls.getD p default = l.hash ∧ l.proof = path ls p := by
  intro p
  obtain ⟨hn, htrees⟩ := (toForest_eq_iff acc ls).1 hacc
  simp only [Acc.containsLeaf, Acc.hasTreeAtHeight, hasTree, Bool.and_eq_true, decide_eq_true_eq, hn] at hc
  obtain ⟨hbit, hroot⟩ := hc
  rw [htrees _ hbit] at hroot
  have hS : 2 ^ l.proof.length ∣ treeStart ls.length l.proof.length := dvd_of_dvd_succ (treeStart_dvd _ _)
  have hs := proofRoot_sound inj ls l.index l.hash l.proof.length _ l.proof rfl hS hroot.symm
  have hlt : l.index % 2 ^ l.proof.length < 2 ^ l.proof.length := Nat.mod_lt _ (Nat.two_pow_pos _)
  have hin : InTree ls.length l.proof.length p := ⟨hbit, by omega, by omega⟩
  refine ⟨inTree_lt hin, hs.1.symm, ?_⟩
  unfold path
  rw [treeHeight_unique hin]
  exact hs.2

/-- **Soundness.** If the accumulator is the naive forest of `ls` and accepts `l`, then
    `l.index` is a position of the forest, the leaf there is exactly `l`'s hash (hence,
    by `c04_leaf_commits`, exactly that element hash, index and spent flag) and the
    proof is the naive Merkle path. -/
theorem c04_contains_sound (hi : HashInj H) (acc : Acc H) (ls : List H)
    (hacc : acc.toForest = forestOf ls) (hwf : IndexCommitted ls)
    (l : Leaf H) (hc : acc.containsLeaf l = true) :
    l.index < ls.length ∧ ls.getD l.index default = l.hash ∧ l.proof = path ls l.index := by
  have h := c04_contains_sound_raw hi.node_inj acc ls hacc l hc
  simp only at h
  generalize treeStart ls.length l.proof.length + l.index % 2 ^ l.proof.length = p at h
  obtain ⟨hlt, hleaf, hpath⟩ := h
  obtain ⟨e, s, he⟩ := hwf _ hlt
  have hleaf' := hleaf
  rw [he] at hleaf'
  have hpi : p = l.index := (hi.leaf_inj _ _ _ _ _ _ hleaf').2.1
  subst hpi
  exact ⟨hlt, hleaf, hpath⟩

/-- Constructive reading: either the conclusion holds or BLAKE2b has a collision of one
    of the two shapes. (Classical contrapositive of `c04_contains_sound`.) -/
theorem c04_contains_sound_or_collision (acc : Acc H) (ls : List H)
    (hacc : acc.toForest = forestOf ls) (hwf : IndexCommitted ls)
    (l : Leaf H) (hc : acc.containsLeaf l = true) :
    (l.index < ls.length ∧ ls.getD l.index default = l.hash ∧ l.proof = path ls l.index) ∨
    (∃ a b c d : H, node a b = node c d ∧ ¬ (a = c ∧ b = d)) ∨
    (∃ (e e' : H) (i i' : Nat) (s s' : Bool), (Hasher.leaf e i s : H) = Hasher.leaf e' i' s' ∧ ¬ (e = e' ∧ i = i' ∧ s = s')) := by
  by_cases h1 : ∃ a b c d : H, node a b = node c d ∧ ¬ (a = c ∧ b = d)
  · exact Or.inr (Or.inl h1)
  by_cases h2 : ∃ (e e' : H) (i i' : Nat) (s s' : Bool), (Hasher.leaf e i s : H) = Hasher.leaf e' i' s' ∧ ¬ (e = e' ∧ i = i' ∧ s = s')
  · exact Or.inr (Or.inr h2)
  · left
    refine c04_contains_sound ⟨?_, ?_⟩ acc ls hacc hwf l hc
    · intro a b c d h
      exact Classical.byContradiction fun hn => h1 ⟨a, b, c, d, h, hn⟩
    · intro e e' i i' s s' h
      exact Classical.byContradiction fun hn => h2 ⟨e, e', i, i', s, s', h, hn⟩

/-- **Completeness.** The genuine leaf with the naive path is accepted. -/
theorem c04_contains_complete (acc : Acc H) (ls : List H) (hacc : acc.toForest = forestOf ls)
    (l : Leaf H) (hlt : l.index < ls.length) (hleaf : ls.getD l.index default = l.hash)
    (hproof : l.proof = path ls l.index) : acc.containsLeaf l = true := by
  obtain ⟨hn, htrees⟩ := (toForest_eq_iff acc ls).1 hacc
  have hin := treeHeight_spec hlt
  have hlen : l.proof.length = treeHeight ls.length l.index := by
    rw [hproof]; unfold path; simp [subPath_length]
  simp only [Acc.containsLeaf, Acc.hasTreeAtHeight, hasTree, Bool.and_eq_true, decide_eq_true_eq, hn, hlen]
  refine ⟨hin.1, ?_⟩
  rw [htrees _ hin.1]
  unfold Leaf.proofRoot
  rw [← hleaf, hproof]
  unfold path
  exact (proofRoot_path_block ls (dvd_of_dvd_succ (treeStart_dvd _ _)) hin.2.1 hin.2.2).symm

/-- Membership is exactly "this leaf is at this position of the forest, with the naive
    path". With C05's invariant (`acc.toForest = forestOf ls` after every apply and
    revert, `ls` = all leaves ever added with spent ones rewritten) this is
    `c04_live_iff_member` of the design at accumulator level. -/
theorem c04_member_iff (hi : HashInj H) (acc : Acc H) (ls : List H)
    (hacc : acc.toForest = forestOf ls) (hwf : IndexCommitted ls) (l : Leaf H) :
    acc.containsLeaf l = true ↔
      (l.index < ls.length ∧ ls.getD l.index default = l.hash ∧ l.proof = path ls l.index) :=
  ⟨c04_contains_sound hi acc ls hacc hwf l, fun ⟨h1, h2, h3⟩ => c04_contains_complete acc ls hacc l h1 h2 h3⟩

omit [Inhabited H] [DecidableEq H] in
/-- The leaf hash commits to the element hash, the leaf index and the spent flag: two
    leaves with the same hash agree on all three. -/
theorem c04_leaf_commits (hi : HashInj H) (l l' : Leaf H) (h : l.hash = l'.hash) :
    l.elem = l'.elem ∧ l.index = l'.index ∧ l.spent = l'.spent :=
  hi.leaf_inj _ _ _ _ _ _ h

/-- A leaf altered in element hash, index or spent flag (so that it is no longer the
    leaf stored at its claimed position) is rejected, whatever proof accompanies it. -/
theorem c04_rejects_altered (hi : HashInj H) (acc : Acc H) (ls : List H)
    (hacc : acc.toForest = forestOf ls) (hwf : IndexCommitted ls) (l : Leaf H)
    (hne : l.index < ls.length → ls.getD l.index default ≠ l.hash) : acc.containsLeaf l = false := by
  cases hc : acc.containsLeaf l with
  | false => rfl
  | true =>
    have := c04_contains_sound hi acc ls hacc hwf l hc
    exact absurd this.2.1 (hne this.1)

/-- A spent leaf is not accepted as unspent (and vice versa), with any proof. -/
theorem c04_rejects_wrong_spent_flag (hi : HashInj H) (acc : Acc H) (ls : List H)
    (hacc : acc.toForest = forestOf ls) (hwf : IndexCommitted ls)
    (e : H) (i : Nat) (s : Bool) (hleaf : ls.getD i default = Hasher.leaf e i s) (proof : List H) :
    acc.containsLeaf { elem := e, spent := !s, index := i, proof := proof } = false := by
  apply c04_rejects_altered hi acc ls hacc hwf
  intro _ h
  simp only [Leaf.hash] at h
  rw [hleaf] at h
  have := (hi.leaf_inj _ _ _ _ _ _ h).2.2
  cases s <;> simp at this

/-- An index beyond the leaves ever added (a leaf of a reverted branch, or one never
    created) is rejected. -/
theorem c04_rejects_beyond (hi : HashInj H) (acc : Acc H) (ls : List H)
    (hacc : acc.toForest = forestOf ls) (hwf : IndexCommitted ls) (l : Leaf H)
    (hge : ls.length ≤ l.index) : acc.containsLeaf l = false :=
  c04_rejects_altered hi acc ls hacc hwf l (fun h => absurd h (by omega))

end

/-! ### The hypotheses are satisfiable: the free term algebra -/

theorem T.hashInj : HashInj T where
  node_inj := T.node_inj
  leaf_inj := T.leaf_inj

/-- three leaves (the third one spent) -/
def exLeaves : List T := [T.leaf (.atom 10) 0 false, T.leaf (.atom 11) 1 false, T.leaf (.atom 12) 2 true]

/-- the accumulator obtained by running the transliterated `addLeaves` from empty -/
def exAcc : Acc T :=
  (emptyAcc.addLeaves [freshLeaf 10, freshLeaf 11, freshLeaf 12 true]).1

example : exAcc.numLeaves = 3 := by decide
example : exAcc.toForest.trees 0 = (forestOf exLeaves).trees 0 ∧ exAcc.toForest.trees 1 = (forestOf exLeaves).trees 1 := by decide
example : IndexCommitted exLeaves := by
  intro j hj
  have : j = 0 ∨ j = 1 ∨ j = 2 := by simp [exLeaves] at hj; omega
  rcases this with rfl | rfl | rfl
  · exact ⟨.atom 10, false, rfl⟩
  · exact ⟨.atom 11, false, rfl⟩
  · exact ⟨.atom 12, true, rfl⟩
/-- the genuine leaf 1 with its naive path is accepted … -/
example : exAcc.containsLeaf ⟨.atom 11, false, 1, path exLeaves 1⟩ = true := by decide
/-- … and is rejected with the spent flag flipped, at another index, or with another proof -/
example : exAcc.containsLeaf ⟨.atom 11, true, 1, path exLeaves 1⟩ = false := by decide
example : exAcc.containsLeaf ⟨.atom 11, false, 0, path exLeaves 1⟩ = false := by decide
example : exAcc.containsLeaf ⟨.atom 11, false, 1, path exLeaves 0⟩ = false := by decide
example : exAcc.containsLeaf ⟨.atom 12, false, 2, path exLeaves 2⟩ = false := by decide

end C04
