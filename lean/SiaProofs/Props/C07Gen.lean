import SiaModel.Gen.CodeConsensus
import SiaModel.Ledger.ContractRules
/-!
# C07 / C17 — the v2 file-contract rules as REGENERATED from `consensus/validation.go`

`extract` translates the closures of `validateV2FileContracts` (`validateSignatures`,
`validateContract`, the rule chain of `validateRevision`) and the per-resolution case bodies
(renewal, storage proof, expiration) statement by statement on every run
(`Gen.Consensus.validateV2FileContracts_*`; external calls — signature verification, sighashes,
accumulator membership, storage-proof roots — are fields of the parameter `ext`).

The theorems below relate those generated definitions to the hand-written rules of
`SiaModel/Ledger/ContractRules.lean`, over which the C07 revision invariants and the C17
"constructor output is consensus-valid" theorems are stated: the hand-written rules accept
exactly when the generated code does (given that the signatures verify), and panic exactly when
it does.  A change of a rule in `validation.go` changes the generated definition and one of
these proofs no longer checks.
-/
namespace C07
open Gen.Types Gen.Consensus

/-- child height and fix height as the regenerated code reads them from the validation context -/
abbrev chOf (ms : MidState) : Nat := State.childHeight ms.base
abbrev ephOf (ms : MidState) : Nat := ms.base.Network.HardforkV2.EphemeralOutputHeight

/-- `validateContract` (regenerated) accepts iff the hand-written rule chain accepts and both
signatures verify under the contract's own keys. -/
theorem tie_validateContract_gen (ext : Ext) (ms : MidState) (fc : V2FileContract) :
    validateV2FileContracts_validateContract ext ms fc = none ↔
      (Sia.Ledger.validateContract (chOf ms) fc = none ∧
       validateV2FileContracts_validateSignatures ext ms fc fc.RenterPublicKey fc.HostPublicKey = none) := by
  unfold validateV2FileContracts_validateContract Sia.Ledger.validateContract chOf
  by_cases h1 : fc.Filesize > fc.Capacity <;>
  by_cases h2 : fc.ProofHeight < State.childHeight ms.base <;>
  by_cases h3 : fc.ExpirationHeight ≤ fc.ProofHeight <;>
  by_cases h4a : fc.RenterOutput.Value.IsZero = true <;>
  by_cases h4b : fc.HostOutput.Value.IsZero = true <;>
  by_cases h5 : fc.MissedHostValue.Cmp fc.HostOutput.Value > 0 <;>
  by_cases h6 : fc.TotalCollateral.Cmp fc.HostOutput.Value > 0 <;>
  simp [h1, h2, h3, h4a, h4b, h5, h6]

/-- The rule chain of `validateRevision` (regenerated, from the point where the current contract
has been selected): it accepts iff the hand-written chain accepts and the revision is signed by
the CURRENT keys; it panics (unchecked `Add` of an output sum) iff the hand-written one does. -/
theorem tie_validateRevision_gen (ext : Ext) (ms : MidState) (cur rev : V2FileContract) :
    (validateV2FileContracts_validateRevisionRules ext cur rev ms = .ok none ↔
      (Sia.Ledger.validateRevision (chOf ms) (ephOf ms) cur rev = .ok none ∧
       validateV2FileContracts_validateSignatures ext ms rev cur.RenterPublicKey cur.HostPublicKey = none)) ∧
    ((∃ m, validateV2FileContracts_validateRevisionRules ext cur rev ms = .error m) ↔
      (∃ m, Sia.Ledger.validateRevision (chOf ms) (ephOf ms) cur rev = .error m)) := by
  unfold validateV2FileContracts_validateRevisionRules Sia.Ledger.validateRevision chOf ephOf
  cases e1 : cur.RenterOutput.Value.Add cur.HostOutput.Value with
  | error m => simp [bind, Except.bind]
  | ok s1 =>
    cases e2 : rev.RenterOutput.Value.Add rev.HostOutput.Value with
    | error m => simp [bind, Except.bind]
    | ok s2 =>
      simp only [bind, Except.bind, pure, Except.pure]
      by_cases h1 : rev.Capacity < cur.Capacity
      · simp [h1]
      by_cases h2 : rev.Filesize > rev.Capacity
      · simp [h1, h2]
      by_cases h3 : cur.ProofHeight < State.childHeight ms.base
      · simp [h1, h2, h3]
      by_cases h4 : rev.RevisionNumber ≤ cur.RevisionNumber
      · simp [h1, h2, h3, h4]
      by_cases h5 : (!s2.Equals s1) = true
      · simp [h1, h2, h3, h4, h5]
      by_cases h6 : rev.MissedHostValue.Cmp cur.MissedHostValue > 0
      · simp [h1, h2, h3, h4, h5, h6]
      by_cases h7 : (State.childHeight ms.base ≥ ms.base.Network.HardforkV2.EphemeralOutputHeight ∧ rev.MissedHostValue.Cmp rev.HostOutput.Value > 0)
      · simp [h1, h2, h3, h4, h5, h6, h7]
      by_cases h8 : rev.TotalCollateral ≠ cur.TotalCollateral
      · simp [h1, h2, h3, h4, h5, h6, h7, h8]
      by_cases h9 : rev.ProofHeight < State.childHeight ms.base
      · simp [h1, h2, h3, h4, h5, h6, h7, h8, h9]
      by_cases h10 : rev.ExpirationHeight ≤ rev.ProofHeight
      · simp [h1, h2, h3, h4, h5, h6, h7, h8, h9, h10]
      simp [h1, h2, h3, h4, h5, h6, h7, h8, h9, h10]

/-- the v2 contract tax does not read the state (the hand-written renewal rule passes a default one) -/
theorem v2tax_state_irrelevant (s s' : State) (fc : V2FileContract) :
    State.V2FileContractTax s fc = State.V2FileContractTax s' fc := by
  unfold State.V2FileContractTax; rfl

/-- The renewal case of `validateV2FileContracts` (regenerated): it accepts iff the hand-written
renewal rules accept, the new contract is signed by its own keys, and the renewal is signed by the
keys of the contract being renewed; it panics iff the hand-written rules do. -/
theorem tie_renewal_gen (ext : Ext) (ms : MidState) (fc : V2FileContract) (r : V2FileContractRenewal) (i : Int) :
    (validateV2FileContracts_renewalRules ext r fc i ms = .ok none ↔
      (Sia.Ledger.validateRenewal (chOf ms) fc r = .ok none ∧
       validateV2FileContracts_validateSignatures ext ms r.NewContract r.NewContract.RenterPublicKey r.NewContract.HostPublicKey = none ∧
       ext.VerifyHash fc.RenterPublicKey (ext.RenewalSigHash ms.base r) r.RenterSignature = true ∧
       ext.VerifyHash fc.HostPublicKey (ext.RenewalSigHash ms.base r) r.HostSignature = true)) ∧
    ((∃ m, validateV2FileContracts_renewalRules ext r fc i ms = .error m) ↔
      (∃ m, Sia.Ledger.validateRenewal (chOf ms) fc r = .error m)) := by
  unfold validateV2FileContracts_renewalRules Sia.Ledger.validateRenewal
  simp only [v2tax_state_irrelevant ms.base {}]
  by_cases k1 : fc.RenterPublicKey ≠ r.NewContract.RenterPublicKey
  · simp [k1, pure, Except.pure]
  by_cases k2 : fc.HostPublicKey ≠ r.NewContract.HostPublicKey
  · simp [k1, k2, pure, Except.pure]
  simp only [k1, k2, decide_false, decide_true, Bool.false_eq_true, if_false, ite_false]
  cases e1 : r.FinalRenterOutput.Value.Add r.RenterRollover with
  | error m => simp [e1, bind, Except.bind]
  | ok t1 =>
  simp only [e1, bind, Except.bind]
  cases e2 : t1.Add r.FinalHostOutput.Value with
  | error m => simp [e2, bind, Except.bind]
  | ok t2 =>
  simp only [e2, bind, Except.bind]
  cases e3 : t2.Add r.HostRollover with
  | error m => simp [e3, bind, Except.bind]
  | ok t3 =>
  simp only [e3, bind, Except.bind]
  cases e4 : fc.RenterOutput.Value.Add fc.HostOutput.Value with
  | error m => simp [e4, bind, Except.bind]
  | ok t4 =>
  simp only [e4, bind, Except.bind]
  simp only [bind, Except.bind, pure, Except.pure]
  by_cases k3 : t3 ≠ t4
  · simp [k3]
  simp only [k3, decide_false, decide_true, Bool.false_eq_true, if_false, ite_false]
  cases e5 : r.NewContract.RenterOutput.Value.Add r.NewContract.HostOutput.Value with
  | error m => simp [e5, bind, Except.bind]
  | ok t5 =>
  simp only [e5, bind, Except.bind]
  cases e6 : State.V2FileContractTax {} r.NewContract with
  | error m => simp [e6, bind, Except.bind]
  | ok t6 =>
  simp only [e6, bind, Except.bind]
  cases e7 : t5.Add t6 with
  | error m => simp [e7, bind, Except.bind]
  | ok t7 =>
  simp only [e7, bind, Except.bind]
  cases e8 : r.RenterRollover.Add r.HostRollover with
  | error m => simp [e8, bind, Except.bind]
  | ok t8 =>
  simp only [e8, bind, Except.bind]
  by_cases k4 : t8.Cmp t7 > 0
  · simp [k4]
  simp only [k4, decide_false, Bool.false_eq_true, if_false, ite_false]
  have T := tie_validateContract_gen ext ms r.NewContract
  unfold chOf at T ⊢
  cases hv : validateV2FileContracts_validateContract ext ms r.NewContract with
  | some e =>
    have : ¬ (Sia.Ledger.validateContract (State.childHeight ms.base) r.NewContract = none ∧
       validateV2FileContracts_validateSignatures ext ms r.NewContract r.NewContract.RenterPublicKey r.NewContract.HostPublicKey = none) := by
      intro h; rw [← T, hv] at h; cases h
    cases hh : Sia.Ledger.validateContract (State.childHeight ms.base) r.NewContract with
    | some e' => simp
    | none => simp [hh] at this; simp [this]
  | none =>
    obtain ⟨a, b⟩ := T.mp hv
    cases v1 : ext.VerifyHash fc.RenterPublicKey (ext.RenewalSigHash ms.base r) r.RenterSignature <;>
    cases v2 : ext.VerifyHash fc.HostPublicKey (ext.RenewalSigHash ms.base r) r.HostSignature <;>
    simp [a, b]

/-- The expiration case (regenerated): accepted exactly strictly after the expiration height. -/
theorem c07_expiration_gen (ms : MidState) (fc : V2FileContract) (i : Int) :
    validateV2FileContracts_expirationRules ms fc i = none ↔ fc.ExpirationHeight < chOf ms := by
  unfold validateV2FileContracts_expirationRules chOf
  by_cases h : State.childHeight ms.base ≤ fc.ExpirationHeight <;> simp [h] <;> omega

/-- The storage-proof case (regenerated): accepted exactly when the window has opened, the proof
index is the contract's proof height and a member of the accumulator, the proof is long enough for
a non-empty file, and the recomputed root is the contract's Merkle root — with the leaf index the
chain derives (`StorageProofLeafIndex` of the file size, the proof-index block id and the contract id). -/
theorem c07_storage_proof_gen (ext : Ext) (ms : MidState) (fc : V2FileContract) (sp : V2StorageProof)
    (fcr : V2FileContractResolution) (i : Int) :
    validateV2FileContracts_storageProofRules ext sp ms fc i fcr = none ↔
      (fc.ProofHeight ≤ chOf ms ∧ sp.ProofIndex.ChainIndex.Height = fc.ProofHeight ∧
       ext.containsChainIndex ms.base.Elements (ChainIndexElement.Share sp.ProofIndex) = true ∧
       (fc.Filesize > 0 →
          ext.storageProofSubtreeHeight
            (ext.StorageProofLeafIndex ms.base fc.Filesize sp.ProofIndex.ChainIndex.ID fcr.Parent.ID) fc.Filesize
            ≤ (sp.Proof.length : Int)) ∧
       ext.storageProofRoot (ext.StorageProofLeafHash ms.base sp.Leaf)
          (ext.StorageProofLeafIndex ms.base fc.Filesize sp.ProofIndex.ChainIndex.ID fcr.Parent.ID)
          fc.Filesize sp.Proof = fc.FileMerkleRoot) := by
  unfold validateV2FileContracts_storageProofRules chOf
  by_cases h1 : State.childHeight ms.base < fc.ProofHeight
  · simp [h1]; omega
  by_cases h2 : sp.ProofIndex.ChainIndex.Height ≠ fc.ProofHeight
  · simp [h1, h2]
  by_cases h3 : ext.containsChainIndex ms.base.Elements (ChainIndexElement.Share sp.ProofIndex) = true
  case neg => simp [h1, h2, h3]
  have g1 : fc.ProofHeight ≤ State.childHeight ms.base := by omega
  have g2 : sp.ProofIndex.ChainIndex.Height = fc.ProofHeight := by
    cases Nat.decEq sp.ProofIndex.ChainIndex.Height fc.ProofHeight with
    | isTrue h => exact h
    | isFalse h => exact absurd h h2
  by_cases h4 : fc.Filesize > 0
  · by_cases h5 : (sp.Proof.length : Int) < ext.storageProofSubtreeHeight
            (ext.StorageProofLeafIndex ms.base fc.Filesize sp.ProofIndex.ChainIndex.ID fcr.Parent.ID) fc.Filesize
    · simp only [Int.ofNat_eq_natCast]
      simp [h1, h2, h3, h4, h5]
      intro _ _ hc; exact absurd hc (by omega)
    · by_cases h6 : ext.storageProofRoot (ext.StorageProofLeafHash ms.base sp.Leaf)
          (ext.StorageProofLeafIndex ms.base fc.Filesize sp.ProofIndex.ChainIndex.ID fcr.Parent.ID)
          fc.Filesize sp.Proof = fc.FileMerkleRoot
      · simp only [Int.ofNat_eq_natCast]
        simp [h1, h2, h3, h4, h5, h6, g1, g2]; omega
      · simp only [Int.ofNat_eq_natCast]
        simp [h1, h2, h3, h4, h5, h6]
  · by_cases h6 : ext.storageProofRoot (ext.StorageProofLeafHash ms.base sp.Leaf)
          (ext.StorageProofLeafIndex ms.base fc.Filesize sp.ProofIndex.ChainIndex.ID fcr.Parent.ID)
          fc.Filesize sp.Proof = fc.FileMerkleRoot
    · simp [h1, h2, h3, h4, h6, g1, g2]
    · simp [h1, h2, h3, h4, h6]

/-! ### non-vacuity: the regenerated rules accept and reject concrete contracts -/

/-- an environment in which every signature verifies and every element is a member -/
def extAllOk : Ext :=
  { Ext.trivial with VerifyHash := fun _ _ _ => true, containsChainIndex := fun _ _ => true }

/-- an environment in which no signature verifies -/
def extNoSig : Ext := { extAllOk with VerifyHash := fun _ _ _ => false }

def sampleContract : V2FileContract :=
  { Capacity := 4096, Filesize := 4096, ProofHeight := 10, ExpirationHeight := 20,
    RenterOutput := { Value := { Lo := 5 } }, HostOutput := { Value := { Lo := 7 } },
    MissedHostValue := { Lo := 3 }, TotalCollateral := { Lo := 3 }, RevisionNumber := 1 }

example : validateV2FileContracts_validateContract extAllOk {} sampleContract = none := by decide
example : validateV2FileContracts_validateContract extNoSig {} sampleContract = some "has invalid renter signature" := by decide
example : validateV2FileContracts_validateContract extAllOk {} { sampleContract with MissedHostValue := { Lo := 8 } }
    = some "has missed host value (%v) exceeding valid host value (%v)" := by decide
example : validateV2FileContracts_validateRevisionRules extAllOk sampleContract
    { sampleContract with RevisionNumber := 2, RenterOutput := { Value := { Lo := 4 } }, HostOutput := { Value := { Lo := 8 } } } {}
    = .ok none := by rfl
example : validateV2FileContracts_validateRevisionRules extAllOk sampleContract
    { sampleContract with RevisionNumber := 2, RenterOutput := { Value := { Lo := 4 } } } {}
    = .ok (some "modifies output sum (%v -> %v)") := by rfl
example : ∃ m, validateV2FileContracts_validateRevisionRules extAllOk
    { sampleContract with RenterOutput := { Value := { Lo := 1, Hi := 18446744073709551615 } }, HostOutput := { Value := { Hi := 1 } } }
    sampleContract {} = .error m := ⟨_, rfl⟩
example : validateV2FileContracts_expirationRules {} sampleContract 0
    = some "file contract expiration %v cannot be submitted until after expiration height (%v) " := by decide

end C07
