import SiaProofs.Lemmas.MerkleRhpConvert
import SiaProofs.Props.C16
/-!
# C16 — range proofs inside one sector (rhp/v2 `RangeProofVerifier`, rhp/v4 `VerifyLeafProof`)

The streaming verifier first reduces the covered leaves to the roots of the subtrees that
`nextSubtreeSize` cuts `[start, end)` into (`ReadFrom`, via `ReaderRoot`), then runs the same
accumulator walk as the sector-roots verifier with the fixed leaf count `n = 2^k`
(`LeavesPerSector = 2^16` in Go). `ls` are the leaf hashes of the whole sector.
-/
set_option linter.unusedVariables false
namespace C16
open Sia.Rhp Sia.Rhp.HashOps

variable {H : Type} [HashOps H]

/-- the eight-leaf tree used by the examples -/
def ex8 : List T := [T.lf [0], T.lf [1], T.lf [2], T.lf [3], T.lf [4], T.lf [5], T.lf [6], T.lf [7]]

/-- `BuildProof` (recursive halving over the sector; also the shape of rhp/v4 `BuildSectorProof`)
emits exactly the left-to-right proof of `BuildSectorRangeProof` over the leaf hashes -/
theorem c16_buildproof_eq (ls : List H) (k : Nat) (hlen : ls.length = 2 ^ k) (hk : k ≤ 30)
    (s e : Nat) (hse : s < e) (hen : e ≤ ls.length) :
    buildProof ls s e = .ok (honestProof ls s e) := by
  have hn30 : ls.length ≤ 2 ^ 30 := by rw [hlen]; exact Nat.pow_le_pow_right (by omega) hk
  unfold buildProof honestProof
  have hg : ¬ (e > ls.length ∨ s > e ∨ s = e) := by omega
  simp only [hg, if_false]
  have h := buildProofRec_eq ls s e hse k 0 (Nat.dvd_zero _) (by omega)
  simp only [Nat.zero_add] at h
  rw [hlen, Nat.log2_two_pow, h, ← hlen]
  rw [Nat.min_eq_left (by omega), Nat.max_eq_left (Nat.zero_le _)]
  rw [buildRange_bound_pow2 ls k hlen maxInt32 (by unfold maxInt32; omega) _ e rfl (by omega)]

example : buildProof ex8 2 5 = .ok (honestProof ex8 2 5) :=
  c16_buildproof_eq ex8 3 rfl (by decide) 2 5 (by decide) (by decide)

/-- Completeness: the left-to-right proof for `[s, e)` and the honest leaves are accepted with
the plain sector root. -/
theorem c16_leaf_range_complete [DecidableEq H] (ls : List H) (k : Nat) (hlen : ls.length = 2 ^ k)
    (hk : k ≤ 30) (s e : Nat) (hse : s < e) (hen : e ≤ ls.length) :
    rangeProofVerify (2 ^ k) (honestProof ls s e) ((ls.drop s).take (e - s)) s e (metaRoot ls) = true := by
  have hn30 : ls.length ≤ 2 ^ 30 := by rw [hlen]; exact Nat.pow_le_pow_right (by omega) hk
  have hsz := c16_range_size ls s e hse hen hn30
  rw [hlen] at hsz
  rw [rpv_eq _ _ _ s e _ hsz]
  obtain ⟨_, _, _, _, _, hC⟩ := leafAcc_honest ls k hlen hk s e hse hen
  have := hC.root
  simp only [honestProof]
  simp [this]


example : rangeProofVerify (2 ^ 3) (honestProof ex8 2 5) [T.lf [2], T.lf [3], T.lf [4]] 2 5 (metaRoot ex8) = true :=
  c16_leaf_range_complete ex8 3 rfl (by decide) 2 5 (by decide) (by decide)

/-- Soundness: with the true sector root, acceptance of `e - s` leaf hashes implies that they are
the sector's leaf hashes `ls[s:e]` and that the proof is the honest one; so any altered proof
hash, leaf, index or root is rejected. -/
theorem c16_leaf_range_sound [DecidableEq H] (hinj : NodeInj H) (ls : List H) (k : Nat)
    (hlen : ls.length = 2 ^ k) (hk : k ≤ 30) (proof leaves : List H) (s e : Nat)
    (hse : s < e) (hen : e ≤ ls.length) (hlv : leaves.length = e - s)
    (hacc : rangeProofVerify (2 ^ k) proof leaves s e (metaRoot ls) = true) :
    leaves = (ls.drop s).take (e - s) ∧ proof = honestProof ls s e := by
  have hn30 : ls.length ≤ 2 ^ 30 := by rw [hlen]; exact Nat.pow_le_pow_right (by omega) hk
  have hsz := c16_range_size ls s e hse hen hn30
  rw [hlen] at hsz
  have hl : proof.length = rangeProofSize (2 ^ k) s e := by
    by_cases h : proof.length = rangeProofSize (2 ^ k) s e
    · exact h
    · unfold rangeProofVerify at hacc; simp [h] at hacc
  rw [rpv_eq _ proof leaves s e _ hl] at hacc
  have hroot : (leafAcc (2 ^ k) proof leaves s e).1.root = metaRoot ls := by simpa using hacc
  obtain ⟨hP1n, hP1r, hP2n, hP2r, hP3r, hC⟩ := leafAcc_honest ls k hlen hk s e hse hen
  have hlenP : proof.length = (honestProof ls s e).length := by rw [hl, hsz]
  have hlenD : leaves.length = ((ls.drop s).take (e - s)).length := by
    rw [hlv]; simp [List.length_take, List.length_drop]; omega
  have hlenR : (rangeSubtreeRoots leaves s e).length
      = (rangeSubtreeRoots ((ls.drop s).take (e - s)) s e).length := by
    rw [rangeSubtreeRoots_length _ (e - s) s e rfl, rangeSubtreeRoots_length _ (e - s) s e rfl]
  have f1 := insertRange_same_flow proof (honestProof ls s e) Acc.empty Acc.empty 0 s hlenP rfl
  have hroot' : (leafAcc (2 ^ k) proof leaves s e).1.root
      = (leafAcc (2 ^ k) (honestProof ls s e) ((ls.drop s).take (e - s)) s e).1.root := by
    rw [hroot]; exact hC.root.symm
  unfold leafAcc at hroot' hP3r
  simp only at hroot' hP3r
  simp only [honestProof] at f1 hroot' hlenP ⊢
  generalize hA1 : insertRange Acc.empty proof 0 s = A1 at *
  generalize hB1 : insertRange Acc.empty (buildRange ls 0 s ++ buildRange ls e maxInt32) 0 s = B1 at *
  have f2 := insertRange_same_flow (rangeSubtreeRoots leaves s e)
    (rangeSubtreeRoots ((ls.drop s).take (e - s)) s e) A1.1 B1.1 s e hlenR f1.1
  generalize hA2 : insertRange A1.1 (rangeSubtreeRoots leaves s e) s e = A2 at *
  generalize hB2 : insertRange B1.1 (rangeSubtreeRoots ((ls.drop s).take (e - s)) s e) s e = B2 at *
  have f3 := insertRange_same_flow A1.2 B1.2 A2.1 B2.1 e (2 ^ k) f1.2 f2.1
  generalize hA3 : insertRange A2.1 A1.2 e (2 ^ k) = A3 at *
  generalize hB3 : insertRange B2.1 B1.2 e (2 ^ k) = B3 at *
  have s3 : A3.1.stack = B3.1.stack := root_inj hinj _ _ f3.1 hroot'
  have r3 : A3.2 = B3.2 := by
    have : A3.2.length = 0 := by rw [f3.2, hP3r]; rfl
    rw [hP3r]; exact List.eq_nil_of_length_eq_zero this
  rw [← hA3, ← hB3] at s3 r3
  obtain ⟨s2, p2⟩ := insertRange_inj hinj A1.2 B1.2 _ _ e (2 ^ k) f1.2 (by rw [f2.1, hP2n]) hP2n s3 r3
  have r2 : A2.2 = B2.2 := by
    have : A2.2.length = 0 := by rw [f2.2, hP2r]; rfl
    rw [hP2r]; exact List.eq_nil_of_length_eq_zero this
  rw [← hA2, ← hB2] at s2 r2
  obtain ⟨s1, hroots⟩ := insertRange_inj hinj _ _ A1.1 B1.1 s e hlenR (by rw [f1.1, hP1n]) hP1n s2 r2
  rw [← hA1, ← hB1] at s1 p2
  obtain ⟨_, hproof⟩ := insertRange_inj hinj proof _ Acc.empty Acc.empty 0 s hlenP rfl rfl s1 p2
  refine ⟨?_, hproof⟩
  exact rangeSubtreeRoots_inj hinj (e - s) s e _ _ rfl hlv (by rw [← hlenD, hlv]) hroots

example : rangeProofVerify (2 ^ 3) (honestProof ex8 2 5) [T.lf [2], T.lf [9], T.lf [4]] 2 5 (metaRoot ex8) ≠ true := by
  intro h
  have := (c16_leaf_range_sound T_nodeInj ex8 3 rfl (by decide) _ _ 2 5 (by decide) (by decide) rfl h).1
  exact absurd this (by decide)

/-- at the byte level: accepted leaf data are the sector's leaves `start … end-1`
(leaf-hash injectivity) -/
theorem c16_leaf_range_sound_data [DecidableEq H] (hinj : HashInj H) (sector data : ByteArray) (k : Nat)
    (hlen : (leafChunks sector).length = 2 ^ k) (hk : k ≤ 30) (proof : List H) (s e : Nat)
    (hse : s < e) (hen : e ≤ (leafChunks sector).length) (hlv : (leafChunks data).length = e - s)
    (hacc : rangeProofVerify (2 ^ k) proof (leafHashes data) s e (sectorRoot sector : H) = true) :
    leafChunks data = ((leafChunks sector).drop s).take (e - s) := by
  have h := (c16_leaf_range_sound hinj.nodeInj (leafHashes sector) k (by simpa [leafHashes] using hlen) hk
    proof (leafHashes data) s e hse (by simpa [leafHashes] using hen) (by simpa [leafHashes] using hlv) hacc).1
  unfold leafHashes at h
  rw [← List.map_drop, ← List.map_take] at h
  exact (List.map_inj_right (fun x y hxy => hinj.leaf_inj x y hxy)).1 h

/-- a proof whose length differs from `RangeProofSize(n, s, e)` is rejected -/
theorem c16_leaf_range_length_fixed [DecidableEq H] (n : Nat) (proof leaves : List H) (s e : Nat) (root : H)
    (hl : proof.length ≠ rangeProofSize n s e) :
    rangeProofVerify n proof leaves s e root = false := by
  unfold rangeProofVerify; simp [hl]


/-! ## ConvertProofOrdering -/

/-- `ConvertProofOrdering` turns the single-leaf proof (lefts high-to-low, then rights low-to-high)
into the leaf-to-root sibling path that consensus storage-proof verification folds: folding it
from the leaf hash with the index bits gives the plain sector root. -/
theorem c16_convert_ordering (ls : List H) (k : Nat) (hlen : ls.length = 2 ^ k) (hk : k ≤ 30)
    (i : Nat) (hi : i < ls.length) :
    ∃ path, convertProofOrdering (honestProof ls i (i + 1)) i = .ok path ∧
      leafToRoot ls[i] i path = metaRoot ls := by
  have hi' : i < 0 + 2 ^ k := by omega
  -- the proof is lefts ++ rights
  have hP : honestProof ls i (i + 1) = (lrOf ls i k 0).1 ++ (lrOf ls i k 0).2 := by
    have h1 := c16_buildproof_eq ls k hlen hk i (i + 1) (by omega) (by omega)
    unfold buildProof at h1
    have hg : ¬ (i + 1 > ls.length ∨ i > i + 1 ∨ i = i + 1) := by omega
    simp only [hg, if_false, Except.ok.injEq] at h1
    rw [← h1, hlen, Nat.log2_two_pow]
    have := buildProofRec_single ls i k 0 (Nat.zero_le _) hi'
    simpa using this
  have hL : (lrOf ls i k 0).1.length = popcount i := by
    have := lrOf_left_length ls i k 0 (Nat.zero_le _) hi'
    simpa using this
  have hT := lrOf_total_length ls i k 0
  refine ⟨pathOf ls i k 0, ?_, ?_⟩
  · unfold convertProofOrdering
    rw [hP]
    have hg : ¬ (popcount i > ((lrOf ls i k 0).1 ++ (lrOf ls i k 0).2).length) := by
      simp only [List.length_append]; omega
    simp only [hg, if_false]
    rw [← hL, List.take_left' rfl, List.drop_left' rfl]
    have e : i = (i - 0) + 2 ^ k * 0 := by simp
    have hb := convertLoop_block ls i k 0 0 (((lrOf ls i k 0).1 ++ (lrOf ls i k 0).2).length + 64) [] []
      (Nat.zero_le _) hi' (by simp only [List.length_append]; omega)
    simp only [List.nil_append, List.append_nil] at hb
    rw [← e] at hb
    rw [hb, convertLoop_nil]
    simp [Except.map]
  · have := leafToRoot_path ls i hi k 0 0 [] (Nat.zero_le _) hi' (by omega)
    simp only [List.append_nil, Nat.sub_zero, Nat.mul_zero, Nat.add_zero, List.drop_zero, leafToRoot] at this
    rw [this, ← hlen, List.take_of_length_le (Nat.le_refl _)]

example : ∃ path, convertProofOrdering (honestProof ex8 5 6) 5 = .ok path ∧
    leafToRoot (T.lf [5]) 5 path = metaRoot ex8 :=
  c16_convert_ordering ex8 3 rfl (by decide) 5 (by decide)

end C16
