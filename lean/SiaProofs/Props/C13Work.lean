import SiaProofs.Lemmas.Pow
/-!
# C13, `c13_work_ops_exact`: the four limb loops of `Work` are exact 256-bit arithmetic

`Limbs.add/sub/mul64/div64` (SiaModel/Pow/Work.lean) mirror the Go loops over four
big-endian `uint64` limbs with `math/bits`. Each is proved equal — result value, and the
exact condition under which it panics — to the `Nat` operation (`wadd`, `wsub`, `wmul64`,
`wdiv64`) that the rest of the model and all other C13 theorems use.
-/
namespace C13
open Sia.Pow

/-- the limb representation used by the driver is faithful -/
theorem c13_limbs_ofNat (n : Nat) (h : n < W256) : (Limbs.ofNat n).WF ∧ (Limbs.ofNat n).val = n := by
  unfold Limbs.ofNat Limbs.WF Limbs.val
  dsimp only
  refine ⟨by omega, by omega⟩

theorem addCarry_spec (w v : Limbs) (hw : w.WF) (hv : v.WF) :
    (Limbs.addCarry w v).1.WF ∧ (Limbs.addCarry w v).2 ≤ 1 ∧
    (Limbs.addCarry w v).1.val + (Limbs.addCarry w v).2 * W256 = w.val + v.val := by
  obtain ⟨a0, a1, a2, a3⟩ := hw
  obtain ⟨b0, b1, b2, b3⟩ := hv
  unfold Limbs.addCarry Limbs.val Limbs.WF
  simp only [Go.bits_Add64]
  refine ⟨by omega, by omega, by omega⟩

theorem c13_work_ops_exact_add (w v : Limbs) (hw : w.WF) (hv : v.WF) :
    (Limbs.add w v).map Limbs.val = wadd w.val v.val ∧ ∀ r, Limbs.add w v = .ok r → r.WF := by
  obtain ⟨h1, h2, h3⟩ := addCarry_spec w v hw hv
  have hlt : (Limbs.addCarry w v).1.val < W256 := by
    have := h1; unfold Limbs.WF at this; unfold Limbs.val; omega
  unfold Limbs.add wadd
  by_cases hc : (Limbs.addCarry w v).2 > 0
  · have hn : ¬ (w.val + v.val < W256) := by omega
    rw [if_pos hc, if_neg hn]
    exact ⟨rfl, fun r h => by cases h⟩
  · have hc0 : (Limbs.addCarry w v).2 = 0 := by clear h3 hlt; omega
    rw [hc0, Nat.zero_mul, Nat.add_zero] at h3
    have hp : w.val + v.val < W256 := by rw [← h3]; exact hlt
    rw [if_neg hc, if_pos hp]
    refine ⟨?_, fun r h => ?_⟩
    · simp only [Except.map, h3]
    · simp only [Except.ok.injEq] at h; subst h; exact h1

theorem subBorrow_spec (w v : Limbs) (hw : w.WF) (hv : v.WF) :
    (Limbs.subBorrow w v).1.WF ∧ (Limbs.subBorrow w v).2 ≤ 1 ∧
    (Limbs.subBorrow w v).1.val + v.val = w.val + (Limbs.subBorrow w v).2 * W256 := by
  obtain ⟨a0, a1, a2, a3⟩ := hw
  obtain ⟨b0, b1, b2, b3⟩ := hv
  unfold Limbs.subBorrow Limbs.val Limbs.WF
  simp only [Go.bits_Sub64]
  refine ⟨by omega, ?_, ?_⟩
  · repeat' split
    all_goals omega
  · repeat' split
    all_goals omega

theorem c13_work_ops_exact_sub (w v : Limbs) (hw : w.WF) (hv : v.WF) :
    (Limbs.sub w v).map Limbs.val = wsub w.val v.val ∧ ∀ r, Limbs.sub w v = .ok r → r.WF := by
  obtain ⟨h1, h2, h3⟩ := subBorrow_spec w v hw hv
  have hlt : (Limbs.subBorrow w v).1.val < W256 := by
    have := h1; unfold Limbs.WF at this; unfold Limbs.val; omega
  have hv' : v.val < W256 := by unfold Limbs.WF at hv; unfold Limbs.val; omega
  have hw' : w.val < W256 := by unfold Limbs.WF at hw; unfold Limbs.val; omega
  unfold Limbs.sub wsub
  by_cases hc : (Limbs.subBorrow w v).2 > 0
  · have hn : ¬ (v.val ≤ w.val) := by omega
    rw [if_pos hc, if_neg hn]
    exact ⟨rfl, fun r h => by cases h⟩
  · have hc0 : (Limbs.subBorrow w v).2 = 0 := by clear h3 hlt hv' hw'; omega
    rw [hc0, Nat.zero_mul, Nat.add_zero] at h3
    have hp : v.val ≤ w.val := by rw [← h3]; exact Nat.le_add_left _ _
    rw [if_neg hc, if_pos hp]
    refine ⟨?_, fun r h => ?_⟩
    · have e : (Limbs.subBorrow w v).1.val = w.val - v.val := by rw [← h3, Nat.add_sub_cancel]
      simp only [Except.map, e]
    · simp only [Except.ok.injEq] at h; subst h; exact h1
theorem mulCarry_spec (w : Limbs) (v : Nat) (hw : w.WF) (hv : v < W64) :
    (Limbs.mulCarry w v).1.WF ∧
    (Limbs.mulCarry w v).1.val + (Limbs.mulCarry w v).2 * W256 = w.val * v := by
  obtain ⟨a0, a1, a2, a3⟩ := hw
  have e : w.val * v = w.l0 * v * 6277101735386680763835789423207666416102355444464034512896 +
      w.l1 * v * 340282366920938463463374607431768211456 + w.l2 * v * 18446744073709551616 + w.l3 * v := by
    unfold Limbs.val
    simp only [Nat.add_mul, Nat.mul_right_comm]
  rw [e]
  have p0 : w.l0 * v ≤ 18446744073709551615 * 18446744073709551615 := Nat.mul_le_mul (by omega) (by omega)
  have p1 : w.l1 * v ≤ 18446744073709551615 * 18446744073709551615 := Nat.mul_le_mul (by omega) (by omega)
  have p2 : w.l2 * v ≤ 18446744073709551615 * 18446744073709551615 := Nat.mul_le_mul (by omega) (by omega)
  have p3 : w.l3 * v ≤ 18446744073709551615 * 18446744073709551615 := Nat.mul_le_mul (by omega) (by omega)
  unfold Limbs.mulCarry mulStep Limbs.val Limbs.WF
  simp only [Go.bits_Mul64, Go.bits_Add64]
  generalize w.l0 * v = q0 at p0 ⊢
  generalize w.l1 * v = q1 at p1 ⊢
  generalize w.l2 * v = q2 at p2 ⊢
  generalize w.l3 * v = q3 at p3 ⊢
  clear a0 a1 a2 a3 hv e
  refine ⟨by omega, by omega⟩

theorem c13_work_ops_exact_mul64 (w : Limbs) (v : Nat) (hw : w.WF) (hv : v < W64) :
    (Limbs.mul64 w v).map Limbs.val = wmul64 w.val v ∧ ∀ r, Limbs.mul64 w v = .ok r → r.WF := by
  obtain ⟨h1, h3⟩ := mulCarry_spec w v hw hv
  have hlt : (Limbs.mulCarry w v).1.val < W256 := by
    have := h1; unfold Limbs.WF at this; unfold Limbs.val; omega
  unfold Limbs.mul64 wmul64
  by_cases hc : (Limbs.mulCarry w v).2 > 0
  · have hn : ¬ (w.val * v < W256) := by
      rw [← h3]
      have : 1 * W256 ≤ (Limbs.mulCarry w v).2 * W256 := Nat.mul_le_mul_right _ hc
      omega
    rw [if_pos hc, if_neg hn]
    exact ⟨rfl, fun r h => by cases h⟩
  · have hc0 : (Limbs.mulCarry w v).2 = 0 := by clear h3 hlt; omega
    rw [hc0, Nat.zero_mul, Nat.add_zero] at h3
    have hp : w.val * v < W256 := by rw [← h3]; exact hlt
    rw [if_neg hc, if_pos hp]
    refine ⟨?_, fun r h => ?_⟩
    · simp only [Except.map, h3]
    · simp only [Except.ok.injEq] at h; subst h; exact h1

/-- one step of the long division: `bits.Div64(rem, wi, v)` with `rem < v` -/
theorem div64_step {r l v : Nat} (hv : v ≠ 0) (hr : r < v) (hl : l < W64) :
    Go.bits_Div64 r l v = .ok ((r * 18446744073709551616 + l) / v, (r * 18446744073709551616 + l) % v) ∧
    (r * 18446744073709551616 + l) / v < W64 ∧ (r * 18446744073709551616 + l) % v < v := by
  refine ⟨?_, ?_, Nat.mod_lt _ (Nat.pos_of_ne_zero hv)⟩
  · unfold Go.bits_Div64
    rw [if_neg hv, if_neg (by omega)]
  · rw [Nat.div_lt_iff_lt_mul (Nat.pos_of_ne_zero hv)]
    have : (r + 1) * 18446744073709551616 ≤ v * 18446744073709551616 := Nat.mul_le_mul_right _ hr
    rw [Nat.mul_comm 18446744073709551616 v]
    omega

theorem long_div_lin (l0 l1 l2 l3 m0 m1 m2 m3 r0 r1 r2 r3 : Nat)
    (d0 : m0 + r0 = l0) (d1 : m1 + r1 = r0 * 18446744073709551616 + l1)
    (d2 : m2 + r2 = r1 * 18446744073709551616 + l2) (d3 : m3 + r3 = r2 * 18446744073709551616 + l3) :
    l0 * 6277101735386680763835789423207666416102355444464034512896 +
      l1 * 340282366920938463463374607431768211456 + l2 * 18446744073709551616 + l3 =
    m0 * 6277101735386680763835789423207666416102355444464034512896 +
      m1 * 340282366920938463463374607431768211456 + m2 * 18446744073709551616 + m3 + r3 := by
  omega

theorem long_div (l0 l1 l2 l3 q0 q1 q2 q3 r0 r1 r2 r3 v : Nat)
    (d0 : v * q0 + r0 = l0) (d1 : v * q1 + r1 = r0 * 18446744073709551616 + l1)
    (d2 : v * q2 + r2 = r1 * 18446744073709551616 + l2) (d3 : v * q3 + r3 = r2 * 18446744073709551616 + l3)
    (hr : r3 < v) :
    (l0 * 6277101735386680763835789423207666416102355444464034512896 +
      l1 * 340282366920938463463374607431768211456 + l2 * 18446744073709551616 + l3) / v =
    q0 * 6277101735386680763835789423207666416102355444464034512896 +
      q1 * 340282366920938463463374607431768211456 + q2 * 18446744073709551616 + q3 := by
  have key := long_div_lin l0 l1 l2 l3 (v * q0) (v * q1) (v * q2) (v * q3) r0 r1 r2 r3 d0 d1 d2 d3
  have e : v * q0 * 6277101735386680763835789423207666416102355444464034512896 +
      v * q1 * 340282366920938463463374607431768211456 + v * q2 * 18446744073709551616 + v * q3 =
      v * (q0 * 6277101735386680763835789423207666416102355444464034512896 +
      q1 * 340282366920938463463374607431768211456 + q2 * 18446744073709551616 + q3) := by
    simp only [Nat.mul_add, Nat.mul_assoc]
  rw [key, e]
  rw [Nat.mul_add_div (by omega), Nat.div_eq_of_lt hr, Nat.add_zero]
theorem c13_work_ops_exact_div64 (w : Limbs) (v : Nat) (hw : w.WF) (_hv : v < W64) :
    (Limbs.div64 w v).map Limbs.val = wdiv64 w.val v ∧ ∀ r, Limbs.div64 w v = .ok r → r.WF := by
  obtain ⟨a0, a1, a2, a3⟩ := hw
  unfold Limbs.div64 wdiv64
  by_cases h0 : v = 0
  · rw [if_pos h0, if_pos h0]
    exact ⟨rfl, fun r h => by cases h⟩
  · rw [if_neg h0, if_neg h0]
    have vpos : 0 < v := Nat.pos_of_ne_zero h0
    obtain ⟨e0, q0lt, r0lt⟩ := div64_step (r := 0) (l := w.l0) h0 vpos a0
    generalize hq0 : (0 * 18446744073709551616 + w.l0) / v = q0 at e0 q0lt
    generalize hr0 : (0 * 18446744073709551616 + w.l0) % v = r0 at e0 r0lt
    obtain ⟨e1, q1lt, r1lt⟩ := div64_step (l := w.l1) h0 r0lt a1
    generalize hq1 : (r0 * 18446744073709551616 + w.l1) / v = q1 at e1 q1lt
    generalize hr1 : (r0 * 18446744073709551616 + w.l1) % v = r1 at e1 r1lt
    obtain ⟨e2, q2lt, r2lt⟩ := div64_step (l := w.l2) h0 r1lt a2
    generalize hq2 : (r1 * 18446744073709551616 + w.l2) / v = q2 at e2 q2lt
    generalize hr2 : (r1 * 18446744073709551616 + w.l2) % v = r2 at e2 r2lt
    obtain ⟨e3, q3lt, r3lt⟩ := div64_step (l := w.l3) h0 r2lt a3
    generalize hq3 : (r2 * 18446744073709551616 + w.l3) / v = q3 at e3 q3lt
    generalize hr3 : (r2 * 18446744073709551616 + w.l3) % v = r3 at e3 r3lt
    rw [e0]; simp only [bind, Except.bind]
    rw [e1]; simp only []
    rw [e2]; simp only []
    rw [e3]; simp only [pure, Except.pure]
    refine ⟨?_, fun r h => ?_⟩
    · simp only [Except.map]
      congr 1
      -- v * q_i + r_i = r_{i-1} * 2^64 + l_i
      have d0 := Nat.div_add_mod (0 * 18446744073709551616 + w.l0) v
      have d1 := Nat.div_add_mod (r0 * 18446744073709551616 + w.l1) v
      have d2 := Nat.div_add_mod (r1 * 18446744073709551616 + w.l2) v
      have d3 := Nat.div_add_mod (r2 * 18446744073709551616 + w.l3) v
      rw [hq0, hr0] at d0; rw [hq1, hr1] at d1; rw [hq2, hr2] at d2; rw [hq3, hr3] at d3
      rw [Nat.zero_mul, Nat.zero_add] at d0
      exact (long_div w.l0 w.l1 w.l2 w.l3 q0 q1 q2 q3 r0 r1 r2 r3 v d0 d1 d2 d3 r3lt).symm
    · simp only [Except.ok.injEq] at h; subst h
      exact ⟨q0lt, q1lt, q2lt, q3lt⟩

/-- satisfiable and non-trivial: a carry chain through all four limbs -/
example : (Limbs.add ⟨0, 18446744073709551615, 18446744073709551615, 18446744073709551615⟩ ⟨0, 0, 0, 1⟩).map Limbs.val
    = .ok 6277101735386680763835789423207666416102355444464034512896 := by rfl
example : (Limbs.div64 ⟨1, 2, 3, 4⟩ 7).map Limbs.val = wdiv64 (Limbs.val ⟨1, 2, 3, 4⟩) 7 := by rfl

end C13
