import SiaProofs.Props.C17NoPanic
import SiaProofs.Props.C17Seq
/-!
# C17 — the hypotheses of the main theorems are satisfiable

Concrete, non-trivial instances (evaluated by the kernel on the generated definitions).
-/
namespace C17.Examples
open Gen.Types Gen.Rhp4 C15 C17

def k (b : UInt8) : ByteArray := ⟨Array.replicate 32 b⟩

/-- a live contract: 2 sectors stored, capacity 3 sectors, proof at height 100 -/
def fc0 : V2FileContract :=
  { Capacity := 3 * 4194304, Filesize := 2 * 4194304, ProofHeight := 100, ExpirationHeight := 244,
    RenterOutput := { Value := { Lo := 1000000, Hi := 3 } }, HostOutput := { Value := { Lo := 500000, Hi := 1 } },
    MissedHostValue := { Lo := 300000, Hi := 1 }, TotalCollateral := { Lo := 400000, Hi := 1 },
    RenterPublicKey := k 1, HostPublicKey := k 2, RevisionNumber := 7 }

def prices : HostPrices :=
  { ContractPrice := { Lo := 1000 }, Collateral := { Lo := 2 }, StoragePrice := { Lo := 3 }, IngressPrice := { Lo := 5 },
    EgressPrice := { Lo := 7 }, FreeSectorPrice := { Lo := 11 }, TipHeight := 50 }

def usage : Usage := { RPC := { Lo := 10 }, Storage := { Lo := 20, Hi := 1 }, Egress := { Lo := 30 }, RiskedCollateral := { Lo := 99 } }

theorem fc0_wf : FCWF fc0 := by
  refine ⟨?_, ?_, ?_, ?_, ?_, ?_, ?_, ?_, ?_⟩ <;> simp [fc0, WF]
theorem usage_wf : UsageWF usage := by
  refine ⟨?_, ?_, ?_, ?_, ?_, ?_⟩ <;> simp [usage, WF]
theorem prices_wf : PricesWF prices := by
  refine ⟨?_, ?_, ?_, ?_, ?_, ?_, ?_⟩ <;> simp [prices, WF]
theorem fc0_live : Live 60 fc0 := by
  refine ⟨?_, ?_, ?_, ?_, ?_, ?_⟩ <;> simp [fc0, val]
theorem fc0_inv : Inv fc0 := by
  refine ⟨?_, ?_⟩ <;> simp [fc0, val]
theorem fc0_good : Good 60 fc0 := ⟨fc0_wf, fc0_live, fc0_inv⟩

def okPay (r : Except String (V2FileContract × Option String)) : Bool :=
  match r with | .ok (_, none) => true | _ => false
def refusedPay (r : Except String (V2FileContract × Option String)) (fc : V2FileContract) : Bool :=
  match r with | .ok (fc', some _) => decide (fc' = fc) | _ => false
def okRev (r : Except String (V2FileContract × Usage × Option String)) (fsz cap : Nat) : Bool :=
  match r with | .ok (fc', _, none) => fc'.Filesize == fsz && fc'.Capacity == cap | _ => false
def refusedRev (r : Except String (V2FileContract × Usage × Option String)) : Bool :=
  match r with | .ok (_, _, some _) => true | _ => false
def okRen (r : Except String (V2FileContractRenewal × Usage)) : Bool :=
  match r with | .ok _ => true | _ => false

def formParams : RPCFormContractParams := { Allowance := { Lo := 5000 }, Collateral := { Lo := 700 }, ProofHeight := 100, RenterPublicKey := k 1 }
def renewParams : RPCRenewContractParams := { Allowance := { Lo := 5000 }, Collateral := { Lo := 700 }, ProofHeight := 200 }
def refreshParams : RPCRefreshContractParams := { Allowance := { Lo := 5000 }, Collateral := { Lo := 700 } }
def tooRisky : Usage := { RPC := { Lo := 10 }, RiskedCollateral := { Lo := 300001, Hi := 1 } }

/-- c17_pay_with_contract / c17_pay_revision_valid: a successful payment … -/
example : okPay (PayWithContract fc0 usage) = true := by decide +kernel
/-- … and a refused one (risked collateral above the missed host value), contract unmodified -/
example : refusedPay (PayWithContract fc0 tooRisky) fc0 = true := by decide +kernel
/-- c17_revise_append: 3 sectors appended, one fits the spare capacity, capacity grows by 2 -/
example : okRev (ReviseForAppendSectors fc0 prices (k 9) 3) (5 * 4194304) (5 * 4194304) = true := by decide +kernel
example : fc0.Capacity + 4194304 * 3 < W := by decide
/-- c17_revise_free (2 ≤ sector count) -/
example : okRev (ReviseForFreeSectors fc0 prices (k 9) (Int.ofNat 2)) 0 (3 * 4194304) = true := by decide +kernel
/-- c17_revise_roots / fund (exact balance) / replenish (one hasting short: refused) -/
example : okRev (ReviseForSectorRoots fc0 prices 2) (2 * 4194304) (3 * 4194304) = true := by decide +kernel
example : okRev (ReviseForFundAccounts fc0 { Lo := 1000000, Hi := 3 }) (2 * 4194304) (3 * 4194304) = true := by decide +kernel
example : refusedRev (ReviseForReplenish fc0 { Lo := 1000001, Hi := 3 }) = true := by decide +kernel
/-- c17_new_contract_valid, c17_renew, c17_refresh_partial, c17_refresh_full -/
example : (match NewContract prices formParams (k 2) (k 0) with | .ok _ => true | _ => false) = true := by decide +kernel
example : okRen (RenewContract fc0 prices (k 0) renewParams) = true := by decide +kernel
example : okRen (RefreshContractPartialRollover fc0 prices (k 0) refreshParams) = true := by decide +kernel
example : okRen (RefreshContractFullRollover fc0 prices (k 0) refreshParams) = true := by decide +kernel

end C17.Examples
