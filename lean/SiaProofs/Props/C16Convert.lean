import SiaProofs.Lemmas.MerkleRhpConvertGen
import SiaProofs.Props.C16
import SiaProofs.Props.C07Proof
/-!
# C16/C07 — the library prover composed with the consensus verifier accepts

A host builds a consensus storage proof with `BuildProof` (inside the sector), 
`BuildSectorRangeProof` (over the sector roots) and `ConvertProofOrdering`. This file proves, for a
tree over ANY number `n` of roots (the unbalanced shape of `metaRoot`, `n ≤ 2^30`) and any `i < n`:
`ConvertProofOrdering (BuildSectorRangeProof roots i (i+1)) i` is the honest leaf-to-root path
`spPath`, and the consensus fold (v1 loop with the merge-height rule, v2 `storageProofRoot`) takes it
to the plain root. `c16_convert_ordering` (Props/C16Leaf) was the balanced special case.
-/
set_option linter.unusedVariables false
set_option linter.unusedSectionVars false
namespace C16
open Sia Sia.Rhp Sia.Rhp.HashOps Sia.SP

variable {H : Type} [HashOps H]

/-- library prover ∘ consensus verifier = accept, on one level of the tree, for every `n` and `i < n`:
the converted range proof is the leaf-to-root sibling list, it passes the "too few proof hashes"
guard, and both consensus folds take it to the plain root. `fs` is any file size whose last leaf
index is `n - 1`. -/
theorem c16_convert_ordering_correct (ls : List H) (i fs : Nat) (hi : i < ls.length) (hn : ls.length ≤ 2 ^ 30)
    (hlast : lastLeafIndex fs = ls.length - 1) :
    buildSectorRangeProof ls i (i + 1) = .ok (honestProof ls i (i + 1)) ∧
    convertProofOrdering (honestProof ls i (i + 1)) i = .ok (spPath ls i) ∧
    SP.bitLen (i ^^^ lastLeafIndex fs) ≤ (spPath ls i).length ∧
    spLoop i (SP.bitLen (i ^^^ lastLeafIndex fs)) 0 (ls.getD i zero) (spPath ls i) = metaRoot ls ∧
    storageProofRoot (ls.getD i zero) i fs (spPath ls i) = metaRoot ls := by
  have hc := C07.c07_proof_complete ls i fs hi hlast
  exact ⟨buildSectorRangeProof_eq ls i (i + 1) (by omega) (by omega),
    convertProofOrdering_spPath ls i hi hn, hc.2.2, hc.2.1, hc.1⟩

/-- an unbalanced instance: the last of three roots (the seeded `for i := range proof` bug drops
the root-side hash here) -/
example : convertProofOrdering (honestProof [T.lf [0], T.lf [1], T.lf [2]] 2 3) 2
    = .ok [metaRoot ([T.lf [0], T.lf [1]] : List T)] := by
  have h := (c16_convert_ordering_correct ([T.lf [0], T.lf [1], T.lf [2]] : List T) 2 (3 * 64) (by decide) (by decide) (by decide)).2.1
  rw [h]
  congr 1
  decide +kernel


/-! ## two levels: segments inside sectors, sectors inside the file -/

theorem flatten_take_pow (p : Nat) : ∀ (chunks : List (List H)) (K : Nat), (∀ c ∈ chunks, c.length = p) →
    chunks.flatten.take (K * p) = (chunks.take K).flatten ∧ chunks.flatten.drop (K * p) = (chunks.drop K).flatten := by
  intro chunks
  induction chunks with
  | nil => intro K _; simp
  | cons c cs ih =>
    intro K hc
    cases K with
    | zero => simp
    | succ K =>
      have hcl := hc c List.mem_cons_self
      obtain ⟨h1, h2⟩ := ih K (fun c' hc' => hc c' (List.mem_cons_of_mem _ hc'))
      have e : (K + 1) * p = p + K * p := by rw [Nat.add_mul]; omega
      simp only [List.flatten_cons, List.take_succ_cons, List.drop_succ_cons]
      rw [e]
      constructor
      · rw [List.take_add, List.take_left' hcl, List.drop_left' hcl, h1]
      · rw [← List.drop_drop, List.drop_left' hcl, h2]

theorem splitPoint_mul_pow (m a : Nat) (hm : 2 ≤ m) : splitPoint (m * 2 ^ a) = splitPoint m * 2 ^ a := by
  have hlo := Nat.log2_self_le (n := m - 1) (by omega)
  have hhi := @Nat.lt_log2_self (m - 1)
  have hpa := Nat.two_pow_pos a
  have hpt := Nat.two_pow_pos (m - 1).log2
  unfold splitPoint
  rw [← Nat.pow_add]
  have : (m * 2 ^ a - 1).log2 = (m - 1).log2 + a := by
    rw [Nat.log2_eq_iff (by have := Nat.mul_le_mul_right (2 ^ a) hm; omega)]
    constructor
    · rw [Nat.pow_add]
      have h1 : 2 ^ (m - 1).log2 + 1 ≤ m := by omega
      have := Nat.mul_le_mul_right (2 ^ a) h1
      rw [Nat.add_mul] at this
      omega
    · have e : (m - 1).log2 + a + 1 = ((m - 1).log2 + 1) + a := by omega
      rw [e, Nat.pow_add]
      have h1 : m ≤ 2 ^ ((m - 1).log2 + 1) := by omega
      have := Nat.mul_le_mul_right (2 ^ a) h1
      have hpos : 0 < m * 2 ^ a := Nat.mul_pos (by omega) hpa
      exact Nat.lt_of_lt_of_le (Nat.sub_lt hpos (by omega)) this
  rw [this]

/-- the leaf-to-root path of segment `seg` of chunk `i` in the tree over all segments is its path
inside the chunk followed by the path of the chunk's root among the chunk roots -/
theorem spPath_chunks (a : Nat) : ∀ (m : Nat) (chunks : List (List H)), chunks.length = m →
    (∀ c ∈ chunks, c.length = 2 ^ a) → ∀ (i seg : Nat), i < m → seg < 2 ^ a →
    spPath chunks.flatten (i * 2 ^ a + seg) = spPath (chunks.getD i []) seg ++ spPath (chunks.map metaRoot) i := by
  intro m
  induction m using Nat.strongRecOn with
  | _ m ih =>
    intro chunks hm hc i seg hi hseg
    have hpa := Nat.two_pow_pos a
    by_cases h1 : m = 1
    · subst h1
      obtain ⟨c, rfl⟩ := List.length_eq_one_iff.1 hm
      have hi0 : i = 0 := by omega
      subst hi0
      simp [spPath_small]
    · have h2 : 2 ≤ chunks.length := by omega
      have hfl := flatten_length_pow a chunks hc
      have hsp := splitPoint_mul_pow chunks.length a h2
      have hlt := splitPoint_lt h2
      have hpos := splitPoint_pos chunks.length
      have hmap2 : 2 ≤ (chunks.map metaRoot).length := by simpa using h2
      have hfl2 : 2 ≤ chunks.flatten.length := by
        rw [hfl]; have := Nat.mul_le_mul_right (2 ^ a) h2; omega
      obtain ⟨ft, fd⟩ := flatten_take_pow (2 ^ a) chunks (splitPoint chunks.length) hc
      by_cases hik : i < splitPoint chunks.length
      · have hg : i * 2 ^ a + seg < splitPoint chunks.flatten.length := by
          rw [hfl, hsp]
          have : (i + 1) * 2 ^ a ≤ splitPoint chunks.length * 2 ^ a := Nat.mul_le_mul_right _ (by omega)
          rw [Nat.add_mul] at this; omega
        rw [spPath_left _ _ hfl2 hg, spPath_left _ _ hmap2 (by simpa using hik)]
        rw [hfl, hsp, ft, fd]
        simp only [List.length_map, ← List.map_take, ← List.map_drop]
        rw [ih _ (by rw [← hm]; simp [List.length_take]; omega) (chunks.take (splitPoint chunks.length)) rfl
          (fun c h => hc c (List.mem_of_mem_take h)) i seg (by simp [List.length_take]; omega) hseg]
        rw [c16_metaroot_chunks a _ (fun c h => hc c (List.mem_of_mem_drop h))]
        have hget : (chunks.take (splitPoint chunks.length)).getD i [] = chunks.getD i [] := by
          simp [List.getD_eq_getElem?_getD, List.getElem?_take, hik]
        rw [hget, List.append_assoc]
      · have hg : ¬ (i * 2 ^ a + seg < splitPoint chunks.flatten.length) := by
          rw [hfl, hsp]
          have : splitPoint chunks.length * 2 ^ a ≤ i * 2 ^ a := Nat.mul_le_mul_right _ (by omega)
          omega
        rw [spPath_right _ _ hfl2 hg, spPath_right _ _ hmap2 (by simpa using hik)]
        rw [hfl, hsp, ft, fd]
        simp only [List.length_map, ← List.map_take, ← List.map_drop]
        have eidx : i * 2 ^ a + seg - splitPoint chunks.length * 2 ^ a = (i - splitPoint chunks.length) * 2 ^ a + seg := by
          rw [Nat.sub_mul]
          have : splitPoint chunks.length * 2 ^ a ≤ i * 2 ^ a := Nat.mul_le_mul_right _ (by omega)
          omega
        rw [eidx]
        rw [ih _ (by rw [← hm]; simp [List.length_drop]; omega) (chunks.drop (splitPoint chunks.length)) rfl
          (fun c h => hc c (List.mem_of_mem_drop h)) (i - splitPoint chunks.length) seg
          (by simp [List.length_drop]; omega) hseg]
        rw [c16_metaroot_chunks a _ (fun c h => hc c (List.mem_of_mem_take h))]
        have hget : (chunks.drop (splitPoint chunks.length)).getD (i - splitPoint chunks.length) [] = chunks.getD i [] := by
          simp only [List.getD_eq_getElem?_getD, List.getElem?_drop]
          congr 2; omega
        rw [hget, List.append_assoc]

/-- The host's storage proof of segment `seg` of sector `i` of a file of `s` sectors of `2^a` segments
(any `s ≤ 2^30`, `a ≤ 30`): convert the in-sector proof and the sector-roots proof separately and
append them. The result is the leaf-to-root path of the global leaf `i*2^a + seg` in the tree over
all segments, whose root is the `MetaRoot` of the sector roots — so the consensus folds accept it
(`c07_proof_complete` applied to `chunks.flatten`). -/
theorem c16_prover_path_multisector (a : Nat) (ha : a ≤ 30) (chunks : List (List H))
    (hc : ∀ c ∈ chunks, c.length = 2 ^ a) (hs : chunks.length ≤ 2 ^ 30) (i seg : Nat)
    (hi : i < chunks.length) (hseg : seg < 2 ^ a) :
    ∃ p1 p2,
      convertProofOrdering (honestProof (chunks.getD i []) seg (seg + 1)) seg = .ok p1 ∧
      convertProofOrdering (honestProof (chunks.map metaRoot) i (i + 1)) i = .ok p2 ∧
      p1 ++ p2 = spPath chunks.flatten (i * 2 ^ a + seg) ∧
      metaRoot chunks.flatten = metaRoot (chunks.map metaRoot) := by
  have hci : (chunks.getD i []).length = 2 ^ a := by
    have : chunks.getD i [] = chunks[i] := by simp [List.getD_eq_getElem?_getD, List.getElem?_eq_getElem hi]
    rw [this]; exact hc _ (List.getElem_mem hi)
  refine ⟨spPath (chunks.getD i []) seg, spPath (chunks.map metaRoot) i, ?_, ?_, ?_, ?_⟩
  · exact convertProofOrdering_spPath _ seg (by rw [hci]; exact hseg)
      (by rw [hci]; exact Nat.pow_le_pow_right (by omega) ha)
  · exact convertProofOrdering_spPath _ i (by simpa using hi) (by simpa using hs)
  · exact (spPath_chunks a chunks.length chunks rfl hc i seg hi hseg).symm
  · exact (c16_metaroot_chunks a chunks hc).symm

end C16
