import SiaModel.Gen.CodeTypes
/-!
# C15 — Currency arithmetic is exact 128-bit arithmetic

Every theorem here is stated about the definitions in `SiaModel/Gen/CodeTypes.lean`,
which are regenerated from `types/currency.go` on every run.
-/
namespace C15
open Gen.Types

/-- 2^64 and 2^128, as notation so that `omega` sees literals -/
scoped notation "W" => (18446744073709551616 : Nat)
scoped notation "W2" => (340282366920938463463374607431768211456 : Nat)

/-- the integer a Currency denotes -/
def val (c : Currency) : Nat := c.Hi * W + c.Lo

/-- both limbs are genuine uint64 values -/
def WF (c : Currency) : Prop := c.Lo < W ∧ c.Hi < W

theorem val_lt {c : Currency} (h : WF c) : val c < W2 := by
  unfold val WF at *; omega

theorem val_inj {a b : Currency} (ha : WF a) (hb : WF b) (h : val a = val b) : a = b := by
  cases a; cases b; simp only [val, WF] at *; simp; omega

/-- `AddWithOverflow` returns the sum mod 2^128 and reports overflow exactly when the true sum does not fit. -/
theorem c15_add (c v : Currency) (hc : WF c) (hv : WF v) :
    WF (c.AddWithOverflow v).1 ∧
    val (c.AddWithOverflow v).1 = (val c + val v) % W2 ∧
    ((c.AddWithOverflow v).2 = true ↔ W2 ≤ val c + val v) := by
  simp only [Currency.AddWithOverflow, Go.bits_Add64, val, WF] at *
  refine ⟨by omega, by omega, ?_⟩
  simp; omega

/-- `SubWithUnderflow` returns the difference mod 2^128 and reports underflow exactly when `c < v`. -/
theorem c15_sub (c v : Currency) (hc : WF c) (hv : WF v) :
    WF (c.SubWithUnderflow v).1 ∧
    val (c.SubWithUnderflow v).1 = (val c + W2 - val v) % W2 ∧
    ((c.SubWithUnderflow v).2 = true ↔ val c < val v) := by
  simp only [Currency.SubWithUnderflow, Go.bits_Sub64, val, WF] at *
  split <;> simp <;> omega


theorem c15_mul64 (c : Currency) (v : Nat) (hc : WF c) (hv : v < W) :
    WF (c.Mul64WithOverflow v).1 ∧
    val (c.Mul64WithOverflow v).1 = (val c * v) % W2 ∧
    ((c.Mul64WithOverflow v).2 = true ↔ W2 ≤ val c * v) := by
  obtain ⟨hlo, hhi⟩ := hc
  have h1 : c.Lo * v < W * W := Nat.mul_lt_mul'' hlo hv
  have h2 : c.Hi * v < W * W := Nat.mul_lt_mul'' hhi hv
  have e : (c.Hi * W + c.Lo) * v = c.Hi * v * W + c.Lo * v := by
    rw [Nat.add_mul, Nat.mul_assoc, Nat.mul_comm W v, ← Nat.mul_assoc]
  simp only [Currency.Mul64WithOverflow, Go.bits_Mul64, Go.bits_Add64, val, WF]
  rw [e]
  refine ⟨by omega, by omega, ?_⟩
  simp; omega

theorem c15_mul (c v : Currency) (hc : WF c) (hv : WF v) :
    WF (c.MulWithOverflow v).1 ∧
    val (c.MulWithOverflow v).1 = (val c * val v) % W2 ∧
    ((c.MulWithOverflow v).2 = true ↔ W2 ≤ val c * val v) := by
  obtain ⟨hlo, hhi⟩ := hc
  obtain ⟨vlo, vhi⟩ := hv
  have hA : c.Lo * v.Lo < W * W := Nat.mul_lt_mul'' hlo vlo
  have hB : c.Hi * v.Lo < W * W := Nat.mul_lt_mul'' hhi vlo
  have hC : c.Lo * v.Hi < W * W := Nat.mul_lt_mul'' hlo vhi
  have hD0 : c.Hi * v.Hi = 0 ↔ (c.Hi = 0 ∨ v.Hi = 0) := Nat.mul_eq_zero
  have e : (c.Hi * W + c.Lo) * (v.Hi * W + v.Lo)
      = c.Hi * v.Hi * (W * W) + (c.Hi * v.Lo + c.Lo * v.Hi) * W + c.Lo * v.Lo := by
    simp only [Nat.add_mul, Nat.mul_add, Nat.mul_assoc, Nat.mul_comm, Nat.mul_left_comm, Nat.add_assoc]
    omega
  simp only [Currency.MulWithOverflow, Go.bits_Mul64, Go.bits_Add64, val, WF]
  rw [e]
  refine ⟨by omega, by omega, ?_⟩
  simp
  omega

theorem div64_ok {hi lo y : Nat} (h0 : y ≠ 0) (h1 : hi < y) :
    Go.bits_Div64 hi lo y = .ok ((hi * W + lo) / y, (hi * W + lo) % y) := by
  unfold Go.bits_Div64
  have : ¬ y ≤ hi := by omega
  simp [h0, this]

theorem lt_succ_mul (a b : Nat) (hb : b < W) : a * W + b < (a + 1) * W := by
  omega

theorem c15_quoRem64 (c : Currency) (v : Nat) (hc : WF c) (hv : v < W) (hv0 : v ≠ 0) :
    ∃ q r, c.quoRem64 v = .ok (q, r) ∧ WF q ∧ val q * v + r = val c ∧ r < v := by
  obtain ⟨hlo, hhi⟩ := hc
  have vpos : 0 < v := Nat.pos_of_ne_zero hv0
  unfold Currency.quoRem64
  by_cases h : c.Hi < v
  · simp only [h, decide_true, if_true]
    rw [div64_ok hv0 h]
    refine ⟨_, _, rfl, ?_, ?_, Nat.mod_lt _ vpos⟩
    · constructor
      · show (c.Hi * W + c.Lo) / v < W
        rw [Nat.div_lt_iff_lt_mul vpos]
        rw [Nat.mul_comm W v]
        exact Nat.lt_of_lt_of_le (lt_succ_mul c.Hi c.Lo hlo) (Nat.mul_le_mul_right _ h)
      · show (0:Nat) < W
        omega
    · show (0 * W + (c.Hi * W + c.Lo) / v) * v + (c.Hi * W + c.Lo) % v = c.Hi * W + c.Lo
      rw [Nat.zero_mul, Nat.zero_add, Nat.mul_comm]
      exact Nat.div_add_mod _ _
  · simp only [h, decide_false]
    have h0 : (0:Nat) < v := vpos
    rw [div64_ok hv0 h0]
    have hr : (0 * W + c.Hi) % v < v := Nat.mod_lt _ vpos
    simp only [Bool.false_eq_true, if_false, bind, Except.bind]
    rw [div64_ok hv0 hr]
    refine ⟨_, _, rfl, ?_, ?_, Nat.mod_lt _ vpos⟩
    · constructor
      · show ((0 * W + c.Hi) % v * W + c.Lo) / v < W
        rw [Nat.div_lt_iff_lt_mul vpos]
        rw [Nat.mul_comm W v]
        exact Nat.lt_of_lt_of_le (lt_succ_mul _ c.Lo hlo) (Nat.mul_le_mul_right _ hr)
      · show (0 * W + c.Hi) / v < W
        have : (0 * W + c.Hi) / v ≤ 0 * W + c.Hi := Nat.div_le_self _ _
        omega
    · show ((0 * W + c.Hi) / v * W + ((0 * W + c.Hi) % v * W + c.Lo) / v) * v + ((0 * W + c.Hi) % v * W + c.Lo) % v = c.Hi * W + c.Lo
      simp only [Nat.zero_mul, Nat.zero_add]
      have e1 := Nat.div_add_mod c.Hi v
      have e2 := Nat.div_add_mod (c.Hi % v * W + c.Lo) v
      rw [Nat.add_mul, Nat.mul_right_comm, Nat.mul_comm (c.Hi / v) v, Nat.mul_comm _ v]
      have : v * (c.Hi / v) * W + c.Hi % v * W = c.Hi * W := by rw [← Nat.add_mul, e1]
      rw [Nat.add_assoc, e2, ← Nat.add_assoc, this]

theorem c15_quoRem64_zero (c : Currency) : ∃ e, c.quoRem64 0 = .error e := by
  unfold Currency.quoRem64
  simp [Go.bits_Div64, bind, Except.bind]


theorem c15_cmp (c v : Currency) (hc : WF c) (hv : WF v) :
    (c.Cmp v = -1 ↔ val c < val v) ∧ (c.Cmp v = 0 ↔ val c = val v) ∧ (c.Cmp v = 1 ↔ val v < val c) := by
  unfold Currency.Cmp
  by_cases h : c = v
  · subst h; simp
  · have hne : val c ≠ val v := fun e => h (val_inj hc hv e)
    simp only [h, decide_false, Bool.false_eq_true, if_false]
    obtain ⟨h1, h2⟩ := hc
    obtain ⟨h3, h4⟩ := hv
    unfold val at *
    by_cases h5 : c.Hi < v.Hi
    · simp [h5]; omega
    · by_cases h6 : c.Hi = v.Hi
      · by_cases h7 : c.Lo < v.Lo
        · simp [h6, h7]; omega
        · simp [h6, h7]; omega
      · simp [h5, h6]; omega

theorem c15_add_panics_iff (c v : Currency) (hc : WF c) (hv : WF v) :
    (val c + val v < W2 → ∃ s, c.Add v = .ok s ∧ WF s ∧ val s = val c + val v) ∧
    (W2 ≤ val c + val v → ∃ e, c.Add v = .error e) := by
  obtain ⟨h1, h2, h3⟩ := c15_add c v hc hv
  unfold Currency.Add
  constructor
  · intro h
    have : (c.AddWithOverflow v).2 = false := by
      cases hb : (c.AddWithOverflow v).2
      · rfl
      · have := h3.mp hb; omega
    refine ⟨(c.AddWithOverflow v).1, ?_, h1, ?_⟩
    · simp [this, pure, Except.pure]
    · rw [h2]; exact Nat.mod_eq_of_lt h
  · intro h
    have : (c.AddWithOverflow v).2 = true := h3.mpr h
    simp [this, throw, throwThe, MonadExceptOf.throw]

theorem c15_sub_panics_iff (c v : Currency) (hc : WF c) (hv : WF v) :
    (val v ≤ val c → ∃ s, c.Sub v = .ok s ∧ WF s ∧ val s = val c - val v) ∧
    (val c < val v → ∃ e, c.Sub v = .error e) := by
  obtain ⟨h1, h2, h3⟩ := c15_sub c v hc hv
  have hcl := val_lt hc
  have hvl := val_lt hv
  unfold Currency.Sub
  constructor
  · intro h
    have : (c.SubWithUnderflow v).2 = false := by
      cases hb : (c.SubWithUnderflow v).2
      · rfl
      · have := h3.mp hb; omega
    refine ⟨(c.SubWithUnderflow v).1, ?_, h1, ?_⟩
    · simp [this, pure, Except.pure]
    · rw [h2]; omega
  · intro h
    have : (c.SubWithUnderflow v).2 = true := h3.mpr h
    simp [this, throw, throwThe, MonadExceptOf.throw]

theorem c15_mul64_panics_iff (c : Currency) (v : Nat) (hc : WF c) (hv : v < W) :
    (val c * v < W2 → ∃ s, c.Mul64 v = .ok s ∧ WF s ∧ val s = val c * v) ∧
    (W2 ≤ val c * v → ∃ e, c.Mul64 v = .error e) := by
  obtain ⟨h1, h2, h3⟩ := c15_mul64 c v hc hv
  unfold Currency.Mul64
  constructor
  · intro h
    have : (c.Mul64WithOverflow v).2 = false := by
      cases hb : (c.Mul64WithOverflow v).2
      · rfl
      · have := h3.mp hb; omega
    refine ⟨(c.Mul64WithOverflow v).1, ?_, h1, ?_⟩
    · simp [this, pure, Except.pure]
    · rw [h2]; exact Nat.mod_eq_of_lt h
  · intro h
    have : (c.Mul64WithOverflow v).2 = true := h3.mpr h
    simp [this, throw, throwThe, MonadExceptOf.throw]

theorem c15_mul_panics_iff (c v : Currency) (hc : WF c) (hv : WF v) :
    (val c * val v < W2 → ∃ s, c.Mul v = .ok s ∧ WF s ∧ val s = val c * val v) ∧
    (W2 ≤ val c * val v → ∃ e, c.Mul v = .error e) := by
  obtain ⟨h1, h2, h3⟩ := c15_mul c v hc hv
  unfold Currency.Mul
  constructor
  · intro h
    have : (c.MulWithOverflow v).2 = false := by
      cases hb : (c.MulWithOverflow v).2
      · rfl
      · have := h3.mp hb; omega
    refine ⟨(c.MulWithOverflow v).1, ?_, h1, ?_⟩
    · simp [this, pure, Except.pure]
    · rw [h2]; exact Nat.mod_eq_of_lt h
  · intro h
    have : (c.MulWithOverflow v).2 = true := h3.mpr h
    simp [this, throw, throwThe, MonadExceptOf.throw]


end C15
