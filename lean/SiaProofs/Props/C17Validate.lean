import SiaProofs.Props.C17Free
import SiaProofs.Props.C17Renew
import SiaModel.Rhp.V4Validate
import SiaModel.Gen.FactsC17
/-!
# C17 — from the RPC's own `Validate` to the constructor

The `c17_revise_*` / `c17_new_contract_valid` theorems take the numeric consequences of
request validity as hypotheses.  Here those hypotheses are *discharged from the Validate
methods themselves*:

* `tie_validate_*`: the skeleton of each rhp/v4 `Validate` method, regenerated from
  rhp/v4/validation.go on every run (`SiaModel.Gen.FactsC17`), is exactly the text the hand
  model `Sia.Rhp.V4.*Validate` was transcribed from — any change of a bound, a comparison
  operator or the order of the checks breaks a tie;
* `c17_free_validated_no_wrap`, `c17_append_validated`, `c17_form_validated`: a request the
  model of `Validate` accepts makes the generated constructor produce a consensus-valid
  result without `uint64` wrap-around.
-/
namespace C17
open Gen.Types Gen.Rhp4 C15 Sia.Rhp.V4

/-! ## ties: the Validate skeletons the model was written from -/

theorem tie_validate_freeSectors : Gen.FactsC17.freeSectors = [
  "if err := req.Prices.Validate(pk); err != nil",
  "return error",
  "else",
  "if uint64(len(req.Indices)) > MaxSectorBatchSize",
  "return error",
  "seen := make(map[uint64]bool)",
  "sectors := fc.Filesize / SectorSize",
  "for _, index := range req.Indices",
  "if index >= sectors",
  "return error",
  "else",
  "if seen[index]",
  "return error",
  "seen[index] = true",
  "end for",
  "return nil"] := rfl

theorem tie_validate_appendSectors : Gen.FactsC17.appendSectors = [
  "if err := req.Prices.Validate(pk); err != nil",
  "return error",
  "else",
  "if len(req.Sectors) == 0",
  "return error",
  "else",
  "if uint64(len(req.Sectors)) > MaxSectorBatchSize",
  "return error",
  "return nil"] := rfl

theorem tie_validate_sectorRoots : Gen.FactsC17.sectorRoots = [
  "if err := req.Prices.Validate(pk); err != nil",
  "return error",
  "contractSectors := fc.Filesize / SectorSize",
  "switch",
  "case req.Length == 0",
  "return error",
  "case req.Offset > contractSectors || req.Length > (contractSectors-req.Offset)",
  "return error",
  "case req.Length > MaxSectorBatchSize",
  "return error",
  "return nil"] := rfl

theorem tie_validate_fundAccounts : Gen.FactsC17.fundAccounts = [
  "switch",
  "case req.ContractID == (types.FileContractID{})",
  "return error",
  "case req.RenterSignature == (types.Signature{})",
  "return error",
  "case len(req.Deposits) == 0",
  "return error",
  "case len(req.Deposits) > MaxAccountBatchSize",
  "return error",
  "for i, deposit := range req.Deposits",
  "switch",
  "case deposit.Account == (Account{})",
  "return error",
  "case deposit.Amount.IsZero()",
  "return error",
  "end for",
  "return nil"] := rfl

theorem tie_validate_replenishAccounts : Gen.FactsC17.replenishAccounts = [
  "switch",
  "case req.ContractID == (types.FileContractID{})",
  "return error",
  "case req.ChallengeSignature == (types.Signature{})",
  "return error",
  "case len(req.Accounts) == 0",
  "return error",
  "case len(req.Accounts) > MaxAccountBatchSize",
  "return error",
  "case req.Target.IsZero()",
  "return error",
  "for i, account := range req.Accounts",
  "if account == (Account{})",
  "return error",
  "end for",
  "return nil"] := rfl

theorem tie_validate_formContract : Gen.FactsC17.formContract = [
  "if err := req.Prices.Validate(pk); err != nil",
  "return error",
  "minProofHeight := minProofHeight(tip, req.Prices)",
  "switch",
  "case req.MinerFee.IsZero()",
  "return error",
  "case req.Basis == (types.ChainIndex{})",
  "return error",
  "case len(req.RenterInputs) == 0",
  "return error",
  "case req.Contract.ProofHeight < minProofHeight",
  "return error",
  "case req.Contract.ProofHeight > math.MaxUint64-ProofWindow",
  "return error",
  "case req.Contract.ProofHeight+ProofWindow-req.Prices.TipHeight > maxDuration",
  "return error",
  "hp := req.Prices",
  "minRenterAllowance := MinRenterAllowance(hp, req.Contract.Collateral)",
  "switch",
  "case req.Contract.Allowance.IsZero()",
  "return error",
  "case req.Contract.Collateral.Cmp(maxCollateral) > 0",
  "return error",
  "case req.Contract.Allowance.Cmp(minRenterAllowance) < 0",
  "return error",
  "default",
  "return nil"] := rfl

theorem tie_validate_renewContract : Gen.FactsC17.renewContract = [
  "if err := req.Prices.Validate(pk); err != nil",
  "return error",
  "minProofHeight := minProofHeight(tip, req.Prices)",
  "switch",
  "case req.MinerFee.IsZero()",
  "return error",
  "case req.Basis == (types.ChainIndex{})",
  "return error",
  "case req.Renewal.ProofHeight <= existing.ProofHeight",
  "return error",
  "case req.Renewal.ProofHeight < minProofHeight",
  "return error",
  "case req.Renewal.ProofHeight > math.MaxUint64-ProofWindow",
  "return error",
  "case req.Renewal.ProofHeight+ProofWindow-req.Prices.TipHeight > maxDuration",
  "return error",
  "hp := req.Prices",
  "duration := req.Renewal.ProofHeight + ProofWindow - hp.TipHeight",
  "minRenterAllowance := MinRenterAllowance(hp, req.Renewal.Collateral)",
  "riskedCollateral := req.Prices.Collateral.Mul64(existing.Filesize).Mul64(duration)",
  "totalCollateral := req.Renewal.Collateral.Add(riskedCollateral)",
  "switch",
  "case req.Renewal.Allowance.IsZero()",
  "return error",
  "case totalCollateral.Cmp(maxCollateral) > 0",
  "return error",
  "case req.Renewal.Allowance.Cmp(minRenterAllowance) < 0",
  "return error",
  "default",
  "return nil"] := rfl

theorem tie_validate_refreshContract : Gen.FactsC17.refreshContract = [
  "if err := req.Prices.Validate(pk); err != nil",
  "return error",
  "minProofHeight := minProofHeight(tip, req.Prices)",
  "switch",
  "case req.MinerFee.IsZero()",
  "return error",
  "case req.Basis == (types.ChainIndex{})",
  "return error",
  "case existing.ProofHeight <= minProofHeight",
  "return error",
  "hp := req.Prices",
  "minRenterAllowance := MinRenterAllowance(hp, req.Refresh.Collateral)",
  "var totalHostCollateral types.Currency",
  "if partial",
  "totalHostCollateral = existing.RiskedCollateral().Add(req.Refresh.Collateral)",
  "else",
  "totalHostCollateral = existing.TotalCollateral.Add(req.Refresh.Collateral)",
  "switch",
  "case req.Refresh.Allowance.IsZero()",
  "return error",
  "case req.Refresh.Allowance.Cmp(minRenterAllowance) < 0",
  "return error",
  "case totalHostCollateral.Cmp(maxCollateral) > 0",
  "return error",
  "default",
  "return nil"] := rfl

theorem tie_validate_readSector : Gen.FactsC17.readSector = [
  "if err := req.Prices.Validate(hostKey); err != nil",
  "return error",
  "else",
  "if err := req.Token.Validate(hostKey); err != nil",
  "return error",
  "switch",
  "case req.Length == 0",
  "return error",
  "case req.Offset > SectorSize || req.Length > (SectorSize-req.Offset)",
  "return error",
  "case (req.Offset+req.Length)%LeafSize != 0",
  "return error",
  "return nil"] := rfl

theorem tie_validate_writeSector : Gen.FactsC17.writeSector = [
  "if err := req.Prices.Validate(hostKey); err != nil",
  "return error",
  "else",
  "if err := req.Token.Validate(hostKey); err != nil",
  "return error",
  "switch",
  "case req.DataLength == 0",
  "return error",
  "case req.DataLength%LeafSize != 0",
  "return error",
  "case req.DataLength > SectorSize",
  "return error",
  "return nil"] := rfl

theorem tie_validate_constants :
    Gen.FactsC17.constSectorSize = 4194304 ∧
    Gen.FactsC17.constMaxSectorBatchSize = 262144 ∧
    Gen.FactsC17.constMaxAccountBatchSize = 1000 ∧
    Gen.FactsC17.constProofWindow = 144 ∧
    Gen.FactsC17.constMinContractDuration = 18 ∧
    Gen.FactsC17.constLeafSize = 64 := by decide


/-! ## free sectors -/

theorem freeLoop_spec (sectors : Nat) (l seen : List Nat) (h : freeLoop sectors l seen = true) :
    (∀ i ∈ l, i < sectors) ∧ l.Nodup ∧ (∀ i ∈ l, i ∉ seen) := by
  induction l generalizing seen with
  | nil => simp
  | cons a rest ih =>
    unfold freeLoop at h
    by_cases h1 : a ≥ sectors
    · simp [h1] at h
    · simp only [h1, if_false] at h
      by_cases ha : a ∈ seen
      · have hc : seen.contains a = true := List.contains_iff_mem.mpr ha
        rw [hc] at h
        simp at h
      · have hc : seen.contains a = false := by
          cases hcc : seen.contains a
          · rfl
          · exact absurd (List.contains_iff_mem.mp hcc) ha
        rw [hc] at h
        simp only [Bool.false_eq_true, if_false] at h
        obtain ⟨q1, q2, q3⟩ := ih (a :: seen) h
        refine ⟨?_, ?_, ?_⟩
        · intro i hi
          rcases List.mem_cons.mp hi with rfl | hi
          · omega
          · exact q1 i hi
        · refine List.nodup_cons.mpr ⟨?_, q2⟩
          intro hm; exact (q3 a hm) (List.mem_cons_self)
        · intro i hi
          rcases List.mem_cons.mp hi with rfl | hi
          · exact ha
          · intro hm; exact (q3 i hi) (List.mem_cons_of_mem _ hm)

/-- what `RPCFreeSectorsRequest.Validate` establishes -/
theorem freeSectorsValidate_spec (filesize : Nat) (indices : List Nat) (h : freeSectorsValidate filesize indices = true) :
    indices.length ≤ 262144 ∧ indices.Nodup ∧ (∀ i ∈ indices, i < filesize / 4194304) ∧
    4194304 * indices.length ≤ filesize := by
  unfold freeSectorsValidate maxSectorBatch sectorSize at h
  by_cases h1 : indices.length > 262144
  · simp [h1] at h
  · simp only [h1, if_false] at h
    obtain ⟨q1, q2, _⟩ := freeLoop_spec _ _ _ h
    exact ⟨by omega, q2, q1, c17_free_no_wrap filesize indices q2 q1⟩

/--
**A validated free-sectors request cannot wrap the filesize.**  If the (model of the)
request's own `Validate` accepts the index list against the contract, then
`ReviseForFreeSectors` with `deletions = len(indices)` — whenever it returns — has the
stated error behaviour, and on success the new filesize is the old one minus one sector per
index (for a whole-sector filesize: `(sectors − |indices|)·SectorSize`), stays within the
capacity, and the revision is accepted by consensus.
-/
theorem c17_free_validated_no_wrap (ch eph : Nat) (fc fc' : V2FileContract) (p : HostPrices) (root : ByteArray)
    (indices : List Nat) (u : Usage) (err : Option String)
    (hfc : FCWF fc) (hp : PricesWF p) (live : Live ch fc)
    (hv : freeSectorsValidate fc.Filesize indices = true)
    (h : ReviseForFreeSectors fc p root (Int.ofNat indices.length) = .ok (fc', u, err)) :
    indices.length ≤ fc.Filesize / 4194304 ∧
    (err ≠ none ↔ val fc.RenterOutput.Value < val p.FreeSectorPrice * indices.length) ∧
    (err ≠ none → u = {} ∧ Refused fc fc') ∧
    (err = none →
      fc'.Filesize + 4194304 * indices.length = fc.Filesize ∧
      (fc.Filesize = 4194304 * (fc.Filesize / 4194304) →
        fc'.Filesize = 4194304 * (fc.Filesize / 4194304 - indices.length)) ∧
      fc'.Filesize ≤ fc'.Capacity ∧ fc'.Capacity = fc.Capacity ∧
      Revised ch eph fc fc' u) := by
  obtain ⟨_, _, _, hn⟩ := freeSectorsValidate_spec _ _ hv
  obtain ⟨r1, r2, r3⟩ := c17_revise_free ch eph fc fc' p root indices.length u err hfc hp live hn h
  refine ⟨by omega, r1, r2, fun he => ?_⟩
  obtain ⟨_, _, f1, f2, _, rv⟩ := r3 he
  have := live.fsz_le_cap
  exact ⟨f1, fun hw => by omega, by omega, f2, rv⟩

/-! ## append sectors -/

/--
**A validated append request** (`1 ≤ n ≤ MaxSectorBatchSize`) on a contract whose capacity
is at least one maximal batch (2^40 bytes) below 2^64 cannot wrap filesize or capacity; on
success the filesize grows by `n` sectors, the capacity by the missing whole sectors, and
the revision is accepted by consensus.
-/
theorem c17_append_validated (ch eph : Nat) (fc fc' : V2FileContract) (p : HostPrices) (root : ByteArray) (n : Nat)
    (u : Usage) (err : Option String)
    (hfc : FCWF fc) (hp : PricesWF p) (live : Live ch fc)
    (hv : appendSectorsValidate n = true)
    (hcap : fc.Capacity + 1099511627776 < W)
    (h : ReviseForAppendSectors fc p root n = .ok (fc', u, err)) :
    1 ≤ n ∧ n ≤ 262144 ∧
    (err ≠ none → u = {} ∧ Refused fc fc') ∧
    (err = none →
      fc'.Filesize = fc.Filesize + 4194304 * n ∧ fc'.Filesize ≤ fc'.Capacity ∧ fc.Capacity ≤ fc'.Capacity ∧
      (fc.Filesize + 4194304 * n ≤ fc.Capacity → fc'.Capacity = fc.Capacity) ∧
      (fc.Capacity < fc.Filesize + 4194304 * n → fc'.Capacity < fc'.Filesize + 4194304) ∧
      Revised ch eph fc fc' u) := by
  unfold appendSectorsValidate maxSectorBatch at hv
  have h1 : n ≠ 0 := by intro e; simp [e] at hv
  have h2 : ¬ n > 262144 := by intro e; simp [h1, e] at hv
  obtain ⟨g, d, hg, _, _, r2, r3⟩ := c17_revise_append ch eph fc fc' p root n u err hfc hp live (by omega) h
  refine ⟨by omega, by omega, r2, fun he => ?_⟩
  obtain ⟨_, _, f1, f2, f3, f4, f5, _, rv⟩ := r3 he
  exact ⟨f1, f3, by omega, f4, f5, rv⟩

/-! ## form contract -/

/--
**A validated formation request yields a consensus-valid contract**: if the model of
`RPCFormContractRequest.Validate` accepts (at chain tip `tipHeight`), `NewContract` — whenever
it returns — passes `validateContract` at the next block (and at every child height up to
the proof height).
-/
theorem c17_form_validated (tipHeight : Nat) (p : HostPrices) (feeZero basisZero : Bool) (nInputs : Nat)
    (cp : RPCFormContractParams) (maxCollateral : Currency) (maxDuration : Nat) (hk ha : ByteArray)
    (fc : V2FileContract) (u : Usage)
    (hp : PricesWF p) (hal : WF cp.Allowance) (hco : WF cp.Collateral) (htip : tipHeight < W)
    (hv : formContractValidate tipHeight p feeZero basisZero nInputs cp.Allowance cp.Collateral cp.ProofHeight
            maxCollateral maxDuration = .ok true)
    (h : NewContract p cp hk ha = .ok (fc, u)) :
    feeZero = false ∧ basisZero = false ∧ nInputs ≠ 0 ∧ tipHeight + 18 ≤ cp.ProofHeight ∧
    Sia.Ledger.validateContract (tipHeight + 1) fc = none ∧ FCWF fc ∧ Inv fc ∧
    fc.ExpirationHeight = fc.ProofHeight + 144 := by
  unfold formContractValidate at hv
  simp only [] at hv
  by_cases a1 : feeZero = true
  · simp [a1, pure, Except.pure] at hv
  by_cases a2 : basisZero = true
  · simp [a1, a2, pure, Except.pure] at hv
  by_cases a3 : nInputs = 0
  · simp [a1, a2, a3, pure, Except.pure] at hv
  by_cases a4 : cp.ProofHeight < minProofHeight { Height := tipHeight } p
  · simp [a1, a2, a3, a4, pure, Except.pure] at hv
  by_cases a5 : cp.ProofHeight > w64 - 1 - 144
  · simp [a1, a2, a3, a4, a5, pure, Except.pure] at hv
  simp only [a1, a2, a3, a4, a5, Bool.false_eq_true, if_false] at hv
  split at hv
  · simp [pure, Except.pure] at hv
  · obtain ⟨mra, _, hv⟩ := bind_ok hv
    by_cases a6 : cp.Allowance.IsZero = true
    · simp [a6, pure, Except.pure] at hv
    · have hnz : val cp.Allowance ≠ 0 := fun e => a6 ((isZero_iff hal).mpr e)
      have hph : cp.ProofHeight + 144 < W := by unfold w64 at a5; omega
      have hmin : tipHeight + 18 ≤ cp.ProofHeight := by
        unfold minProofHeight at a4
        simp only [] at a4
        have := hp.tip
        have hm : tipHeight ≤ max tipHeight p.TipHeight := Nat.le_max_left _ _
        generalize max tipHeight p.TipHeight = M at *
        by_cases hM : M > 18446744073709551597
        · simp only [hM, decide_true, if_true] at a4; unfold w64 at a5; omega
        · simp only [hM, decide_false, Bool.false_eq_true, if_false] at a4; omega
      obtain ⟨vc, wf, inv, _, q1, q2, _⟩ :=
        c17_new_contract_valid (tipHeight + 1) p cp hk ha fc u hp.cp hal hco hph (by omega) hnz h
      refine ⟨by simpa using a1, by simpa using a2, a3, hmin, vc, wf, inv, by rw [q2, q1]⟩

end C17
