import SiaModel.Gen.CodeConsensus
import SiaProofs.Lemmas.GoLoops
/-!
# C10 — the range check of v1 covered fields, on REGENERATED code (guard of fix 14c9be0)

`WholeSigHash` / `PartialSigHash` index the transaction with the numbers a v1 signature's covered fields carry and
would panic on an index out of range; `validCoveredFields` is what stands in front of them.  Its closure `inRange`
and its body are translated from `consensus/validation.go` on every run.  The theorem: the regenerated check never
panics, and whenever it answers `true`, every index the sighash functions will use is in range — for every
transaction and every covered-fields value.
-/
namespace C10
open Gen.Types Gen.Consensus

theorem inRange_loop (m : Nat) : ∀ (xs : List Nat) (k : Int),
    Go.forRangeFrom (fun (_ : Int) (i : Nat) (_ : Unit) =>
        if (decide (i ≥ m)) = true then (Except.ok (some false, ()) : Except String (Option Bool × Unit)) else Except.ok (none, ())) xs k ()
      = .ok (if ∀ i ∈ xs, i < m then (none, ()) else (some false, ())) := by
  intro xs
  induction xs with
  | nil => intro k; simp [Go.forRangeFrom]
  | cons x xs ih =>
    intro k
    unfold Go.forRangeFrom
    by_cases hx : x ≥ m
    · have : ¬ (∀ i ∈ x :: xs, i < m) := fun h => absurd (h x List.mem_cons_self) (by omega)
      rw [if_neg this]
      simp [hx]
    · simp only [hx, decide_false, Bool.false_eq_true, if_false]
      rw [ih (k + 1)]
      have hx' : x < m := by omega
      by_cases hall : ∀ i ∈ xs, i < m
      · have : ∀ i ∈ x :: xs, i < m := by
          intro i hi; cases hi with
          | head => exact hx'
          | tail _ h => exact hall i h
        rw [if_pos hall, if_pos this]
      · have : ¬ (∀ i ∈ x :: xs, i < m) := fun h => hall (fun i hi => h i (List.mem_cons_of_mem _ hi))
        rw [if_neg hall, if_neg this]

/-- `inRange` never panics and answers `true` exactly when every index is below `n`. -/
theorem inRange_spec (indices : List Nat) (n : Nat) (hn : n < 18446744073709551616) :
    validCoveredFields_inRange indices (Int.ofNat n) = .ok (decide (∀ i ∈ indices, i < n)) := by
  unfold validCoveredFields_inRange Go.forRange
  have e : Int.toNat ((Int.ofNat n) % 18446744073709551616) = n := by
    have : (Int.ofNat n) % 18446744073709551616 = Int.ofNat n := Int.emod_eq_of_lt (by simp) (by simp; omega)
    rw [this]; simp
  simp only [e, bind, Except.bind, pure, Except.pure]
  rw [inRange_loop n indices 0]
  by_cases h : ∀ i ∈ indices, i < n
  · rw [if_pos h]; simp; exact h
  · rw [if_neg h]; simp [h]

/-- list lengths as Go sees them (`len` is an `int`; every slice is shorter than 2^63) -/
structure LensOk (txn : Transaction) : Prop where
  sci : txn.SiacoinInputs.length < 18446744073709551616
  sco : txn.SiacoinOutputs.length < 18446744073709551616
  fc : txn.FileContracts.length < 18446744073709551616
  fcr : txn.FileContractRevisions.length < 18446744073709551616
  sp : txn.StorageProofs.length < 18446744073709551616
  sfi : txn.SiafundInputs.length < 18446744073709551616
  sfo : txn.SiafundOutputs.length < 18446744073709551616
  fees : txn.MinerFees.length < 18446744073709551616
  arb : txn.ArbitraryData.length < 18446744073709551616
  sigs : txn.Signatures.length < 18446744073709551616

/-- every index of every list of `cf` that the sighash functions use is in range -/
def CoveredInRange (txn : Transaction) (cf : CoveredFields) : Prop :=
  if cf.WholeTransaction then ∀ i ∈ cf.Signatures, i < txn.Signatures.length
  else
    (∀ i ∈ cf.SiacoinInputs, i < txn.SiacoinInputs.length) ∧ (∀ i ∈ cf.SiacoinOutputs, i < txn.SiacoinOutputs.length) ∧
    (∀ i ∈ cf.FileContracts, i < txn.FileContracts.length) ∧ (∀ i ∈ cf.FileContractRevisions, i < txn.FileContractRevisions.length) ∧
    (∀ i ∈ cf.StorageProofs, i < txn.StorageProofs.length) ∧ (∀ i ∈ cf.SiafundInputs, i < txn.SiafundInputs.length) ∧
    (∀ i ∈ cf.SiafundOutputs, i < txn.SiafundOutputs.length) ∧ (∀ i ∈ cf.MinerFees, i < txn.MinerFees.length) ∧
    (∀ i ∈ cf.ArbitraryData, i < txn.ArbitraryData.length) ∧ (∀ i ∈ cf.Signatures, i < txn.Signatures.length)

instance (txn : Transaction) (cf : CoveredFields) : Decidable (CoveredInRange txn cf) := by
  unfold CoveredInRange; infer_instance

/--
**The covered-fields check is total and exact** (about `consensus.validCoveredFields` as regenerated from the source):
it never panics, and it answers `true` exactly when every index the v1 sighash functions will use is in range.
-/
theorem c10_covered_fields_in_range_gen (txn : Transaction) (cf : CoveredFields) (hl : LensOk txn) :
    validCoveredFields_body cf txn = .ok (decide (CoveredInRange txn cf)) := by
  unfold validCoveredFields_body CoveredInRange
  by_cases hw : cf.WholeTransaction = true
  · simp only [hw, if_true, bind, Except.bind, inRange_spec _ _ hl.sigs, pure, Except.pure]
  · have hw' : cf.WholeTransaction = false := by simpa using hw
    simp only [hw', Bool.false_eq_true, if_false, bind, Except.bind, pure, Except.pure,
      inRange_spec _ _ hl.sci, inRange_spec _ _ hl.sco, inRange_spec _ _ hl.fc, inRange_spec _ _ hl.fcr,
      inRange_spec _ _ hl.sp, inRange_spec _ _ hl.sfi, inRange_spec _ _ hl.sfo, inRange_spec _ _ hl.fees,
      inRange_spec _ _ hl.arb, inRange_spec _ _ hl.sigs]
    simp only [Bool.decide_and]
    generalize decide (∀ i ∈ cf.SiacoinInputs, i < txn.SiacoinInputs.length) = b1
    generalize decide (∀ i ∈ cf.SiacoinOutputs, i < txn.SiacoinOutputs.length) = b2
    generalize decide (∀ i ∈ cf.FileContracts, i < txn.FileContracts.length) = b3
    generalize decide (∀ i ∈ cf.FileContractRevisions, i < txn.FileContractRevisions.length) = b4
    generalize decide (∀ i ∈ cf.StorageProofs, i < txn.StorageProofs.length) = b5
    generalize decide (∀ i ∈ cf.SiafundInputs, i < txn.SiafundInputs.length) = b6
    generalize decide (∀ i ∈ cf.SiafundOutputs, i < txn.SiafundOutputs.length) = b7
    generalize decide (∀ i ∈ cf.MinerFees, i < txn.MinerFees.length) = b8
    generalize decide (∀ i ∈ cf.ArbitraryData, i < txn.ArbitraryData.length) = b9
    generalize decide (∀ i ∈ cf.Signatures, i < txn.Signatures.length) = b10
    cases b1 <;> cases b2 <;> cases b3 <;> cases b4 <;> cases b5 <;> cases b6 <;> cases b7 <;> cases b8 <;> cases b9 <;> cases b10 <;> rfl

end C10
