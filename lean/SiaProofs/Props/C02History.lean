import SiaProofs.Props.C02
import SiaProofs.Props.C01
/-!
# C02 across the whole history: no id is consumed twice, consumed contracts stay dead

Chains have the shape of `C01.c01_chain_conserves`: a list of `(block, parent id, relabel)` where `relabel`
may only change accumulator leaf indices (`LeafEq`), every block is accepted and satisfies the per-block
hypotheses (`C01.ChainHyps`: `FreshIds`, `SfNoWrap`, `IdListsCover`).  `FreshIds` only says that the ids a block
creates are new *relative to the ledger it extends*; over a history one needs the same for everything seen so
far, i.e. hash-collision freedom across blocks: `HistFresh` (all ids of the start ledger and all ids created
by the blocks of the chain are pairwise distinct).

The consumed ids of a block are `ms.spends` of the mid-state `applyBlock` commits: siacoin and siafund spends,
v1 storage proofs, v1 expirations, v2 resolutions of every kind.
-/
namespace C02
open Sia.Ledger C01

/-- ids of all live elements -/
def allIds (L : Ledger) : List Id := baseIds L .sc ++ baseIds L .sf ++ baseIds L .fc1 ++ baseIds L .fc2

theorem mem_allIds {L : Ledger} {id : Id} : id ∈ allIds L ↔ ∃ k, id ∈ baseIds L k := by
  unfold allIds
  simp only [List.mem_append]
  constructor
  · rintro (((h | h) | h) | h)
    · exact ⟨.sc, h⟩
    · exact ⟨.sf, h⟩
    · exact ⟨.fc1, h⟩
    · exact ⟨.fc2, h⟩
  · rintro ⟨k, h⟩
    cases k
    · exact Or.inl (Or.inl (Or.inl h))
    · exact Or.inl (Or.inl (Or.inr h))
    · exact Or.inl (Or.inr h)
    · exact Or.inr h
    · cases h

/-- ids created by the blocks of a chain -/
def createdAll (bs : List (Block × Id × (Ledger → Ledger))) : List Id := bs.flatMap (fun x => x.1.created.map (·.2))

/-- hash-collision freedom over the history -/
def HistFresh (L0 : Ledger) (bs : List (Block × Id × (Ledger → Ledger))) : Prop := (allIds L0 ++ createdAll bs).Nodup

/-- ids consumed along a chain -/
def chainConsumed : Ledger → List (Block × Id × (Ledger → Ledger)) → List Id
  | _, [] => []
  | L, (b, _, r) :: rest =>
    match applyBlock L b with
    | .ok (L', ms) => ms.spends ++ chainConsumed (r L') rest
    | .error _ => []

-- ================================================================= one block

theorem allIds_leafEq {L L' : Ledger} (h : LeafEq L L') : allIds L' = allIds L := by
  unfold allIds
  have hids : ∀ k, baseIds L' k = baseIds L k := fun k => by
    rw [← baseIds_eraseLeaves L' k, ← baseIds_eraseLeaves L k, h]
  simp only [hids]

/-- the facts about one applied block the history argument needs -/
theorem block_history_facts {L : Ledger} {b : Block} {pid : Id} {msv : Mid}
    (hw : WF L) (hf : FreshIds L b) (hfix : L.child ≥ L.P.ephemeralFix) (hnw : SfNoWrap b)
    (hcov : IdListsCover L b pid) (hv : validateBlock L b pid = .ok msv) :
    ∀ L' ms, applyBlock L b = .ok (L', ms) →
      ms.spends.Nodup ∧
      (∀ id ∈ ms.spends, id ∈ allIds L ∨ id ∈ b.created.map (·.2)) ∧
      (∀ id ∈ ms.spends, id ∉ allIds L') ∧
      (∀ id ∈ allIds L', id ∈ allIds L ∨ id ∈ b.created.map (·.2)) ∧
      (∀ k, ∀ id ∈ ms.idsOf k, id ∈ allIds L ∨ id ∈ b.created.map (·.2)) := by
  obtain ⟨ms, hm, hI, hb, _⟩ := block_conserves hw hf hfix hnw hcov hv
  intro L' ms' h
  unfold applyBlock at h; rw [hm] at h; cases h
  have hc : Ctx (Tb L b) ms.base := by rw [hb]; exact ctx_of_wf hw hf
  have typed_in : ∀ k id, Tb L b k id → id ∈ allIds L ∨ id ∈ b.created.map (·.2) := by
    intro k id ht
    rcases ht with h | h
    · exact Or.inl (mem_allIds.mpr ⟨k, h⟩)
    · exact Or.inr (List.mem_map.mpr ⟨(k, id), h, rfl⟩)
  have spent_kind : ∀ id ∈ ms.spends, ∃ k, Tb L b k id := by
    intro id hid
    rcases hI.spent id hid with ⟨d, hv, _⟩ | ⟨d, hv, _⟩ | ⟨d, hv, _⟩ | ⟨d, hv, _⟩
    · exact ⟨_, hI.kind_of_sc hv⟩
    · exact ⟨_, hI.kind_of_sf hv⟩
    · exact ⟨_, hI.kind_of_fc1 hv⟩
    · exact ⟨_, hI.kind_of_fc2 hv⟩
  -- ids of the committed ledger, kind by kind
  have k1 := commit_ids_kind ms.base.sc (·.id) ms.sces (·.e.id) (fun d => ¬ d.spent) (·.e) (fun _ => rfl)
    (hc.nodup Kind.sc) (hI.struct.nodup_ids Kind.sc)
  have k2 := commit_ids_kind ms.base.sf (·.id) ms.sfes (·.e.id) (fun d => ¬ d.spent) (·.e) (fun _ => rfl)
    (hc.nodup Kind.sf) (hI.struct.nodup_ids Kind.sf)
  have k3 := commit_ids_kind ms.base.fc1 (·.id) ms.fces (·.e.id) (fun d => ¬ d.resolved) (·.current) Sia.Ledger.Fc1Diff.current_id
    (hc.nodup Kind.fc1) (hI.struct.nodup_ids Kind.fc1)
  have k4 := commit_ids_kind ms.base.fc2 (·.id) ms.v2fces (·.e.id) (fun d => d.resolution.isNone) (·.current) Fc2Diff.current_id
    (hc.nodup Kind.fc2) (hI.struct.nodup_ids Kind.fc2)
  have live_typed : ∀ k id, id ∈ baseIds (ms.commit b.blockId) k → Tb L b k id := by
    intro k id hid
    cases k
    · unfold baseIds at hid; simp only [] at hid; rw [commit_sc] at hid
      rcases k1.2 id hid with h | h
      · exact hc.base Kind.sc id h
      · exact hI.struct.typed Kind.sc id h
    · unfold baseIds at hid; simp only [] at hid; rw [commit_sf] at hid
      rcases k2.2 id hid with h | h
      · exact hc.base Kind.sf id h
      · exact hI.struct.typed Kind.sf id h
    · unfold baseIds at hid; simp only [] at hid; rw [commit_fc1] at hid
      rcases k3.2 id hid with h | h
      · exact hc.base Kind.fc1 id h
      · exact hI.struct.typed Kind.fc1 id h
    · unfold baseIds at hid; simp only [] at hid; rw [commit_fc2] at hid
      rcases k4.2 id hid with h | h
      · exact hc.base Kind.fc2 id h
      · exact hI.struct.typed Kind.fc2 id h
    · cases hid
  have hu : DiffIdsUnique ms := ⟨hI.struct.nodup_ids Kind.sc, hI.struct.nodup_ids Kind.sf,
    hI.struct.nodup_ids Kind.fc1, hI.struct.nodup_ids Kind.fc2⟩
  obtain ⟨r1, r2, r3, r4⟩ := commit_removes_spent_of_unique ms b.blockId hu
  refine ⟨hI.nodup, ?_, ?_, ?_, ?_⟩
  · intro id hid
    obtain ⟨k, hk⟩ := spent_kind id hid
    exact typed_in k id hk
  · intro id hid hlive
    obtain ⟨k', hk'⟩ := mem_allIds.mp hlive
    have ht' := live_typed k' id hk'
    rcases hI.spent id hid with ⟨d, hv, hs⟩ | ⟨d, hv, hs⟩ | ⟨d, hv, hs⟩ | ⟨d, hv, hs⟩
    · have := hc.disj _ _ _ ht' (hI.kind_of_sc hv); subst this
      obtain ⟨e, he, heid⟩ := List.mem_map.mp hk'
      exact r1 d (scDiff?_mem hv).1 hs e he (heid.trans (scDiff?_mem hv).2.symm)
    · have := hc.disj _ _ _ ht' (hI.kind_of_sf hv); subst this
      obtain ⟨e, he, heid⟩ := List.mem_map.mp hk'
      exact r2 d (sfDiff?_mem hv).1 hs e he (heid.trans (sfDiff?_mem hv).2.symm)
    · have := hc.disj _ _ _ ht' (hI.kind_of_fc1 hv); subst this
      obtain ⟨e, he, heid⟩ := List.mem_map.mp hk'
      exact r3 d (fc1Diff?_mem hv).1 hs e he (heid.trans (fc1Diff?_mem hv).2.symm)
    · have := hc.disj _ _ _ ht' (hI.kind_of_fc2 hv); subst this
      obtain ⟨e, he, heid⟩ := List.mem_map.mp hk'
      exact r4 d (fc2Diff?_mem hv).1 hs e he (heid.trans (fc2Diff?_mem hv).2.symm)
  · intro id hlive
    obtain ⟨k', hk'⟩ := mem_allIds.mp hlive
    exact typed_in k' id (live_typed k' id hk')
  · intro k id hid
    exact typed_in k id (hI.struct.typed k id hid)

-- ================================================================= chains

/-- ids in `D` are not live and are touched by no diff of any kind in any block of the chain; the ids each block
consumes join `D` for the blocks after it -/
def NoTouch : Ledger → List (Block × Id × (Ledger → Ledger)) → List Id → Prop
  | _, [], _ => True
  | L, (b, _, r) :: rest, D =>
    (∀ id ∈ D, id ∉ allIds L) ∧
    (match applyBlock L b with
      | .ok (L', ms) => (∀ id ∈ D, ∀ k, id ∉ ms.idsOf k) ∧ NoTouch (r L') rest (D ++ ms.spends)
      | .error _ => True)

theorem history_aux (bs : List (Block × Id × (Ledger → Ledger))) : ∀ (L : Ledger) (D : List Id), WF L →
    L.child ≥ L.P.ephemeralFix → ChainHyps L bs →
    (∀ id ∈ D, id ∉ allIds L) → (∀ id ∈ D, id ∉ createdAll bs) → (∀ id ∈ allIds L, id ∉ createdAll bs) →
    (createdAll bs).Nodup →
    (chainConsumed L bs).Nodup ∧ (∀ id ∈ chainConsumed L bs, id ∉ D) ∧ NoTouch L bs D := by
  induction bs with
  | nil => intro L D _ _ _ _ _ _ _; exact ⟨List.nodup_nil, fun id h => by simp [chainConsumed] at h, trivial⟩
  | cons x rest ih =>
    intro L D hw hfix hch hD1 hD2 hL hnd
    obtain ⟨b, pid, r⟩ := x
    obtain ⟨⟨hf, hnw, hcov, msv, hv⟩, hnext⟩ := hch
    obtain ⟨L', ms, ha, _⟩ := c01_block_conserves hw hf hfix hnw hcov hv
    obtain ⟨hw', hch', hP'⟩ := c01_wf_preserved hw hf hfix hnw hcov hv L' ms ha
    obtain ⟨f1, f2, f3, f4, f5⟩ := block_history_facts hw hf hfix hnw hcov hv L' ms ha
    obtain ⟨hle, hrest⟩ := hnext L' ms ha
    have hfix' : (r L').child ≥ (r L').P.ephemeralFix := by rw [hle.child, hle.P, hch', hP']; omega
    have hall : allIds (r L') = allIds L' := allIds_leafEq hle
    -- split the creation list
    have hca : createdAll ((b, pid, r) :: rest) = b.created.map (·.2) ++ createdAll rest := by
      unfold createdAll; simp
    rw [hca] at hD2 hL hnd
    rw [List.nodup_append] at hnd
    obtain ⟨_, hndr, hdisj⟩ := hnd
    have hD2b : ∀ id ∈ D, id ∉ b.created.map (·.2) := fun id h hm => hD2 id h (List.mem_append_left _ hm)
    have hD2r : ∀ id ∈ D, id ∉ createdAll rest := fun id h hm => hD2 id h (List.mem_append_right _ hm)
    -- the new dead set
    have hD1' : ∀ id ∈ D ++ ms.spends, id ∉ allIds (r L') := by
      intro id hid; rw [hall]
      rcases List.mem_append.mp hid with h | h
      · intro hl
        rcases f4 id hl with h1 | h1
        · exact hD1 id h h1
        · exact hD2b id h h1
      · exact f3 id h
    have hD2' : ∀ id ∈ D ++ ms.spends, id ∉ createdAll rest := by
      intro id hid
      rcases List.mem_append.mp hid with h | h
      · exact hD2r id h
      · intro hm
        rcases f2 id h with h1 | h1
        · exact hL id h1 (List.mem_append_right _ hm)
        · exact hdisj id h1 id hm rfl
    have hL' : ∀ id ∈ allIds (r L'), id ∉ createdAll rest := by
      intro id hid hm; rw [hall] at hid
      rcases f4 id hid with h1 | h1
      · exact hL id h1 (List.mem_append_right _ hm)
      · exact hdisj id h1 id hm rfl
    obtain ⟨i1, i2, i3⟩ := ih (r L') (D ++ ms.spends) (hle.wf hw') hfix' hrest hD1' hD2' hL' hndr
    have hcc : chainConsumed L ((b, pid, r) :: rest) = ms.spends ++ chainConsumed (r L') rest := by
      rw [chainConsumed, ha]
    refine ⟨?_, ?_, ?_⟩
    · rw [hcc, List.nodup_append]
      exact ⟨f1, i1, fun a ha' c hc' hac => i2 c hc' (hac ▸ List.mem_append_right _ ha')⟩
    · intro id hid hd; rw [hcc] at hid
      rcases List.mem_append.mp hid with h | h
      · rcases f2 id h with h1 | h1
        · exact hD1 id hd h1
        · exact hD2b id hd h1
      · exact i2 id h (List.mem_append_left _ hd)
    · unfold NoTouch; rw [ha]; simp only []
      refine ⟨hD1, ?_, i3⟩
      intro id hd k hk
      rcases f5 k id hk with h1 | h1
      · exact hD1 id hd h1
      · exact hD2b id hd h1

/-- Over a whole accepted history no id is consumed twice: the list of all siacoin spends, siafund spends,
v1 storage proofs and expirations and v2 resolutions, block after block, has no duplicates. -/
theorem c02_history_no_repeats (bs : List (Block × Id × (Ledger → Ledger))) (L0 : Ledger) (hw : WF L0)
    (hfix : L0.child ≥ L0.P.ephemeralFix) (hch : ChainHyps L0 bs) (hfresh : HistFresh L0 bs) :
    (chainConsumed L0 bs).Nodup := by
  unfold HistFresh at hfresh
  rw [List.nodup_append] at hfresh
  obtain ⟨_, h2, h3⟩ := hfresh
  exact (history_aux bs L0 [] hw hfix hch (fun _ h => by cases h) (fun _ h => by cases h)
    (fun id h hm => h3 id h id hm rfl) h2).1

/-- Once an id is consumed it stays dead: in every later block of the history it is not live in the ledger the
block extends, and the block's mid-state holds no diff of any kind under that id — so it is not spent, revised,
resolved or re-created (every such action records a diff under the id; cf. `c02_spent_in_earlier_block_rejected`
for the way validation rejects the attempt). -/
theorem c02_resolved_not_revisable (bs : List (Block × Id × (Ledger → Ledger))) (L0 : Ledger) (hw : WF L0)
    (hfix : L0.child ≥ L0.P.ephemeralFix) (hch : ChainHyps L0 bs) (hfresh : HistFresh L0 bs) :
    NoTouch L0 bs [] := by
  unfold HistFresh at hfresh
  rw [List.nodup_append] at hfresh
  obtain ⟨_, h2, h3⟩ := hfresh
  exact (history_aux bs L0 [] hw hfix hch (fun _ h => by cases h) (fun _ h => by cases h)
    (fun id h hm => h3 id h id hm rfl) h2).2.2

/-- the two-block chain of `C01` satisfies every hypothesis -/
example : (chainConsumed exL [(exB, 98, exRelabel), (exB2, 99, id)]).Nodup ∧
    NoTouch exL [(exB, 98, exRelabel), (exB2, 99, id)] [] :=
  ⟨c02_history_no_repeats _ exL ex_wf (by decide) ex_chain (by unfold HistFresh; decide),
   c02_resolved_not_revisable _ exL ex_wf (by decide) ex_chain (by unfold HistFresh; decide)⟩

example : chainConsumed exL [(exB, 98, exRelabel), (exB2, 99, id)] = [5, 6, 2, 1, 4, 3, 11, 10] := by decide

end C02
