import SiaProofs.Lemmas.Alias
/-!
# C09 — aliasing theorems (model `SiaModel/Ledger/Alias.lean`)

`base` below is always the bump pointer of the heap a call starts from: everything the
caller owns (block, supplement, state, proofs of tracked elements) lives at addresses
`< base`; "allocated during the call" is `base ≤ a`.
-/
namespace C09
open Sia.Alias

/-! ## helper lemmas about the accumulator steps -/

theorem moveGuards_ok {l : List Diff} (h : ∀ d ∈ l, d.elem.shared = false) : moveGuards l = .ok () := by
  induction l with
  | nil => rfl
  | cons d rest ih =>
    have hd := h d (List.mem_cons_self)
    simp only [moveGuards, StateElement.move, hd, bind, Except.bind]
    exact ih (fun x hx => h x (List.mem_cons_of_mem _ hx))

theorem updateLeaves_good {base : Nat} {s0 : St} (o : Oracle) (l : List Diff) :
    ∀ {s : St}, Good base s0 s → (∀ d ∈ l, Fresh base d.elem) →
      Good base s0 (l.foldl (fun s d => updateLeavesStep o d s) s) := by
  induction l with
  | nil => intro s hg _; exact hg
  | cons d rest ih =>
    intro s hg hf
    simp only [List.foldl_cons]
    apply ih _ (fun x hx => hf x (List.mem_cons_of_mem _ hx))
    have fd := hf d List.mem_cons_self
    unfold updateLeavesStep
    split
    · rename_i a hi hp
      exact hg.write (fd.2 a hp) _
    · exact hg

theorem appendProof_good {base : Nat} {s0 s : St} (o : Oracle) {e : StateElement}
    (hg : Good base s0 s) (hf : Fresh base e) :
    Good base s0 (appendProof o e s).2 ∧ Fresh base (appendProof o e s).1 := by
  unfold appendProof
  dsimp only
  split
  · exact ⟨hg, hf⟩
  · cases hp : e.proof with
    | none =>
      obtain ⟨g, hb⟩ := hg.alloc (o.suffix e)
      exact ⟨g, hf.1, fun x hx => by
        have : x = (s.alloc (o.suffix e)).1 := by simpa using hx.symm
        rw [this]; exact hb⟩
    | some a =>
      dsimp only
      split
      · obtain ⟨g, hb⟩ := hg.alloc (s.read a ++ o.suffix e)
        exact ⟨g, hf.1, fun x hx => by
          have : x = (s.alloc (s.read a ++ o.suffix e)).1 := by simpa using hx.symm
          rw [this]; exact hb⟩
      · exact ⟨hg.write (hf.2 a hp) _, hf⟩

theorem growAll_good {base : Nat} {s0 : St} (o : Oracle) (l : List Diff) :
    ∀ {s : St} (n : Nat), Good base s0 s → (∀ d ∈ l, Fresh base d.elem) →
      Good base s0 (growAll o n l s).2 ∧ (∀ d ∈ (growAll o n l s).1, Fresh base d.elem) := by
  induction l with
  | nil => intro s n hg _; exact ⟨hg, fun d hd => by simp [growAll] at hd⟩
  | cons d rest ih =>
    intro s n hg hf
    have fd := hf d List.mem_cons_self
    have fe : Fresh base (match d.elem.leafIndex with
        | none => { d.elem with leafIndex := some (o.newIndex n) }
        | some _ => d.elem) := by
      split
      · exact ⟨fd.1, fd.2⟩
      · exact fd
    obtain ⟨g1, f1⟩ := appendProof_good o hg fe
    obtain ⟨g2, f2⟩ := ih (n + 1) g1 (fun x hx => hf x (List.mem_cons_of_mem _ hx))
    simp only [growAll, growStep]
    refine ⟨g2, fun x hx => ?_⟩
    rcases List.mem_cons.1 hx with rfl | hx
    · exact f1
    · exact f2 x hx

theorem mem_appliedOrder {ms : Mid} {d : Diff} (h : d ∈ appliedOrder ms) : d ∈ ms := by
  simp only [appliedOrder, List.mem_append, List.mem_filter] at h
  rcases h with ((((h | h) | h) | h) | h) | h <;> exact h.1

theorem mem_revertedOrder {ms : Mid} {d : Diff} (h : d ∈ revertedOrder ms) : d ∈ ms := by
  simp only [revertedOrder, List.mem_append, List.mem_filter] at h
  rcases h with ((h | h) | h) | h <;> exact h.1

theorem midFresh_nil (base : Nat) : MidFresh base [] := fun _ h => by cases h

/-- what a successful `applyBlock` / `revertBlock` leaves behind -/
theorem applyBlock_good {o : Oracle} {s s' : St} {ops : List Op} {bid : Nat} {ds : List Diff}
    (h : applyBlock o s ops bid = .ok (ds, s')) :
    Good s.heap.next s s' ∧ ∀ d ∈ ds, Fresh s.heap.next d.elem := by
  simp only [applyBlock, bind, Except.bind] at h
  split at h
  · cases h
  · rename_i r hr
    obtain ⟨ms, s1⟩ := r
    obtain ⟨g1, m1⟩ := applyOps_inv _ (Good.refl (Nat.le_refl _)) (midFresh_nil _) hr
    have hl : ∀ d ∈ appliedOrder ms, Fresh s.heap.next d.elem := fun d hd => m1 d (mem_appliedOrder hd)
    rw [moveGuards_ok (fun d hd => (hl d hd).1)] at h
    simp only [pure, Except.pure, Except.ok.injEq] at h
    have g2 := updateLeaves_good o (appliedOrder ms) g1 hl
    obtain ⟨g3, f3⟩ := growAll_good o (appliedOrder ms) 0 g2 hl
    rw [h] at g3 f3
    exact ⟨g3, f3⟩

theorem revertBlock_good {o : Oracle} {s s' : St} {ops : List Op} {bid : Nat} {ds : List Diff}
    (h : revertBlock o s ops bid = .ok (ds, s')) :
    Good s.heap.next s s' ∧ ∀ d ∈ ds, Fresh s.heap.next d.elem := by
  simp only [revertBlock, bind, Except.bind] at h
  split at h
  · cases h
  · rename_i r hr
    obtain ⟨ms, s1⟩ := r
    obtain ⟨g1, m1⟩ := applyOps_inv _ (Good.refl (Nat.le_refl _)) (midFresh_nil _) hr
    have hl : ∀ d ∈ revertedOrder ms, Fresh s.heap.next d.elem := fun d hd => m1 d (mem_revertedOrder hd)
    rw [moveGuards_ok (fun d hd => (hl d hd).1)] at h
    rw [moveGuards_ok (fun d hd => (hl d (List.mem_filter.1 hd).1).1)] at h
    simp only [pure, Except.pure, Except.ok.injEq, Prod.mk.injEq] at h
    obtain ⟨rfl, rfl⟩ := h
    exact ⟨updateLeaves_good o (revertedOrder ms) g1 hl, hl⟩

/-! ## the theorems -/

/-- **Every address written through during `ApplyBlock` / `RevertBlock` was allocated during
    the call** (the log may also contain what was in it before the call). Holds for every
    oracle, i.e. whatever the Merkle arithmetic computes and wherever `append` reallocates,
    and for every input: elements passed shared or not, with or without proofs. -/
theorem c09_apply_writes_only_fresh (o : Oracle) (s s' : St) (ops : List Op) (bid : Nat) (ds : List Diff) :
    (applyBlock o s ops bid = .ok (ds, s') ∨ revertBlock o s ops bid = .ok (ds, s')) →
    ∀ a ∈ s'.written, a ∈ s.written ∨ s.heap.next ≤ a := by
  rintro (h | h)
  · exact (applyBlock_good h).1.2.2
  · exact (revertBlock_good h).1.2.2

/-- … hence **the block, the supplement, the state and every proof held by the caller are
    unchanged**: every backing array that existed before the call has the same contents
    after it. -/
theorem c09_inputs_unchanged (o : Oracle) (s s' : St) (ops : List Op) (bid : Nat) (ds : List Diff) :
    (applyBlock o s ops bid = .ok (ds, s') ∨ revertBlock o s ops bid = .ok (ds, s')) →
    ∀ a, a < s.heap.next → s'.heap.cells a = s.heap.cells a := by
  rintro (h | h)
  · exact (applyBlock_good h).1.2.1
  · exact (revertBlock_good h).1.2.1

/-- The elements of the returned update own their proofs: none of them points into the
    caller's memory and none is marked shared (so the caller may `Move()` them). -/
theorem c09_update_elements_fresh (o : Oracle) (s s' : St) (ops : List Op) (bid : Nat) (ds : List Diff) :
    (applyBlock o s ops bid = .ok (ds, s') ∨ revertBlock o s ops bid = .ok (ds, s')) →
    ∀ d ∈ ds, d.elem.shared = false ∧ ∀ a, d.elem.proof = some a → s.heap.next ≤ a := by
  rintro (h | h)
  · exact (applyBlock_good h).2
  · exact (revertBlock_good h).2

theorem source_ne_moveShared (ms : Mid) (k : Kind) (id : Nat) (src : Src) :
    ms.source k id src ≠ .error .moveShared := by
  cases src with
  | given e => simp [Mid.source]
  | lookup supp =>
    simp only [Mid.source]
    split
    · simp
    · split <;> simp

theorem applyOp_ne_moveShared (ms : Mid) (s : St) (op : Op) : applyOp ms s op ≠ .error .moveShared := by
  intro h
  cases op with
  | create k id => simp [applyOp, pure, Except.pure] at h
  | spend k id src =>
    simp only [applyOp, bind, Except.bind, pure, Except.pure] at h
    split at h
    · rename_i hs; simp only [Except.error.injEq] at h; subst h; exact source_ne_moveShared _ _ _ _ hs
    · cases h
  | revise k id src =>
    simp only [applyOp, bind, Except.bind, pure, Except.pure] at h
    split at h
    · rename_i hs; simp only [Except.error.injEq] at h; subst h; exact source_ne_moveShared _ _ _ _ hs
    · split at h
      · split at h <;> cases h
      · cases h
  | resolveV1 id src =>
    simp only [applyOp, bind, Except.bind, pure, Except.pure] at h
    split at h
    · rename_i hs; simp only [Except.error.injEq] at h; subst h; exact source_ne_moveShared _ _ _ _ hs
    · split at h
      · split at h <;> cases h
      · cases h
  | resolveV2 id src =>
    simp only [applyOp, bind, Except.bind, pure, Except.pure] at h
    split at h
    · rename_i hs; simp only [Except.error.injEq] at h; subst h; exact source_ne_moveShared _ _ _ _ hs
    · split at h
      · simp [throw, throwThe, MonadExceptOf.throw] at h
      · cases h

theorem applyOps_ne_moveShared (ops : List Op) : ∀ (ms : Mid) (s : St), applyOps ms s ops ≠ .error .moveShared := by
  induction ops with
  | nil => intro ms s; simp [applyOps]
  | cons op rest ih =>
    intro ms s h
    simp only [applyOps, bind, Except.bind] at h
    split at h
    · rename_i hs; simp only [Except.error.injEq] at h; subst h; exact applyOp_ne_moveShared _ _ _ hs
    · rename_i r _; exact ih r.1 r.2 h

/-- **The `Move()` guards never fire**: whatever hand-offs the block contains and however
    the elements passed in are flagged (shared or not), neither `ApplyBlock` nor
    `RevertBlock` panics with "Move called on shared StateElement" — every recorded element
    went through `Share()` → `Copy()` (which clears the flag) or is a fresh literal. -/
theorem c09_no_move_of_shared (o : Oracle) (s : St) (ops : List Op) (bid : Nat) :
    applyBlock o s ops bid ≠ .error .moveShared ∧ revertBlock o s ops bid ≠ .error .moveShared := by
  constructor
  · intro h
    simp only [applyBlock, bind, Except.bind] at h
    split at h
    · rename_i hs; simp only [Except.error.injEq] at h; subst h; exact applyOps_ne_moveShared _ _ _ hs
    · rename_i r hr
      obtain ⟨ms, s1⟩ := r
      obtain ⟨-, m1⟩ := applyOps_inv (base := s.heap.next) _ (Good.refl (Nat.le_refl _)) (midFresh_nil _) hr
      rw [moveGuards_ok (fun d hd => (m1 d (mem_appliedOrder hd)).1)] at h
      cases h
  · intro h
    simp only [revertBlock, bind, Except.bind] at h
    split at h
    · rename_i hs; simp only [Except.error.injEq] at h; subst h; exact applyOps_ne_moveShared _ _ _ hs
    · rename_i r hr
      obtain ⟨ms, s1⟩ := r
      obtain ⟨-, m1⟩ := applyOps_inv (base := s.heap.next) _ (Good.refl (Nat.le_refl _)) (midFresh_nil _) hr
      rw [moveGuards_ok (fun d hd => (m1 d (mem_revertedOrder hd)).1)] at h
      rw [moveGuards_ok (fun d hd => (m1 d (mem_revertedOrder (List.mem_filter.1 hd).1)).1)] at h
      cases h

/-- The guard itself is meaningful: `Move` on a shared element panics, on an unshared one it
    is the identity; `Share` sets the flag and nothing else. -/
theorem c09_move_share_spec (e : StateElement) :
    e.share.move = .error .moveShared ∧ ({ e with shared := false } : StateElement).move = .ok { e with shared := false } ∧
    e.share.proof = e.proof ∧ e.share.leafIndex = e.leafIndex := by
  simp [StateElement.share, StateElement.move]

/-- `UpdateElementProof` is the one operation meant to modify the element passed in: it
    panics on a shared element, and otherwise writes only through that element's own proof
    buffer or into memory it allocates. -/
theorem c09_update_proof_target_only (o : Oracle) (e e' : StateElement) (s s' : St)
    (h : updateElementProof o e s = .ok (e', s')) :
    e.shared = false ∧ (∀ a, a < s.heap.next → e.proof ≠ some a → s'.heap.cells a = s.heap.cells a) := by
  simp only [updateElementProof, StateElement.move, bind, Except.bind] at h
  by_cases hs : e.shared = true
  · simp [hs] at h
  · have hs' : e.shared = false := by simpa using hs
    refine ⟨hs', ?_⟩
    simp only [hs', Bool.false_eq_true, if_false] at h
    cases hl : e.leafIndex with
    | none => simp [hl, throw, throwThe, MonadExceptOf.throw] at h
    | some i =>
      simp only [hl, pure, Except.pure, Except.ok.injEq] at h
      intro a ha hne
      have hs'eq := (congrArg Prod.snd h).symm
      dsimp only at hs'eq
      rw [hs'eq]
      unfold appendProof
      dsimp only
      cases hp : e.proof with
      | none =>
        split
        · rfl
        · show (if a = s.heap.next then _ else s.heap.cells a) = _
          rw [if_neg (by omega)]
      | some b =>
        have hb : a ≠ b := fun c => hne (by rw [hp, c])
        dsimp only
        split
        · show (if a = b then _ else s.heap.cells a) = _
          rw [if_neg hb]
        · split
          · show (if a = (s.write b _).heap.next then _ else (if a = b then _ else s.heap.cells a)) = _
            rw [if_neg (by show a ≠ s.heap.next; omega), if_neg hb]
          · show (if a = b then _ else (if a = b then _ else s.heap.cells a)) = _
            rw [if_neg hb, if_neg hb]


/-! ## copies share no memory with their originals -/

/-- **Element `Copy`**: the copy is unshared, keeps the leaf index and nil-ness, points to a
    buffer allocated by the call (hence different from every buffer that existed, the
    original's included) with the same contents, and nothing else changed. -/
theorem c09_copy_disjoint (e : StateElement) (s : St) :
    (e.copy s).1.shared = false ∧ (e.copy s).1.leafIndex = e.leafIndex ∧
    ((e.copy s).1.proof = none ↔ e.proof = none) ∧
    (∀ a', (e.copy s).1.proof = some a' →
        s.heap.next ≤ a' ∧ ∀ a, e.proof = some a → (e.copy s).2.read a' = s.read a) ∧
    (∀ a, a < s.heap.next → (e.copy s).2.heap.cells a = s.heap.cells a) ∧
    (e.copy s).2.written = s.written := by
  unfold StateElement.copy
  cases hp : e.proof with
  | none => simp
  | some a =>
    refine ⟨rfl, rfl, by simp, ?_, ?_, rfl⟩
    · intro a' ha'
      have : a' = s.heap.next := by simpa [St.alloc] using ha'.symm
      subst this
      refine ⟨Nat.le_refl _, fun b hb => ?_⟩
      have : b = a := by simpa using hb.symm
      subst this
      simp [St.read, St.alloc]
    · intro x hx
      show (if x = s.heap.next then _ else s.heap.cells x) = _
      rw [if_neg (by omega)]

/-- containers come before their contents: the backing array that holds a location's
    header is the address of an earlier location (or the transaction struct itself) -/
def ContOk : List Nat → Footprint → Prop
  | _, [] => True
  | seen, l :: rest =>
    (∀ c, l.container = some c → c ∈ seen) ∧
    ContOk (match l.addr with | some a => a :: seen | none => seen) rest

theorem rename_fresh {base : Nat} {ren : List (Nat × Nat)} {seen : List Nat}
    (hr : ∀ c ∈ seen, ∃ c', ren.lookup c = some c' ∧ base ≤ c')
    {cont : Option Nat} (hc : ∀ c, cont = some c → c ∈ seen) :
    ∀ c', rename ren cont = some c' → base ≤ c' := by
  intro c' h
  cases cont with
  | none => simp [rename] at h
  | some c =>
    obtain ⟨x, hx, hb⟩ := hr c (hc c rfl)
    simp only [rename, hx, Option.some.injEq] at h
    omega

theorem storeHeader_good {base : Nat} {s0 s : St} (hg : Good base s0 s) (hdr : Loc → List Nat → List Nat) (l : Loc)
    {c : Option Nat} (hc : ∀ x, c = some x → base ≤ x) : Good base s0 (storeHeader hdr l c s) := by
  unfold storeHeader
  split
  · rename_i x; exact hg.write (hc x rfl) _
  · exact hg

/-- `DeepCopy` when every location of the footprint is in the cloned set -/
theorem deepCopyWith_fresh {base : Nat} {s0 : St} (cloned : List String) (hdr : Loc → List Nat → List Nat)
    (f : Footprint) :
    ∀ (ren : List (Nat × Nat)) (seen : List Nat) (s : St),
      Good base s0 s → (∀ l ∈ f, cloned.contains l.path = true) → ContOk seen f →
      (∀ c ∈ seen, ∃ c', ren.lookup c = some c' ∧ base ≤ c') →
      Good base s0 (deepCopyWith cloned hdr f ren s).2 ∧
      (∀ l ∈ (deepCopyWith cloned hdr f ren s).1,
          (∀ a, l.addr = some a → base ≤ a) ∧ (∀ c, l.container = some c → base ≤ c)) ∧
      (deepCopyWith cloned hdr f ren s).1.map (·.path) = f.map (·.path) ∧
      (deepCopyWith cloned hdr f ren s).1.map (·.addr.isSome) = f.map (·.addr.isSome) := by
  induction f with
  | nil => intro ren seen s hg _ _ _; exact ⟨hg, fun l hl => by simp [deepCopyWith] at hl, rfl, rfl⟩
  | cons l rest ih =>
    intro ren seen s hg hcl hco hr
    have hl := hcl l List.mem_cons_self
    obtain ⟨hc1, hc2⟩ := hco
    have hfc := rename_fresh hr hc1
    cases ha : l.addr with
    | none =>
      rw [ha] at hc2
      obtain ⟨g, fr, p1, p2⟩ := ih ren seen s hg (fun x hx => hcl x (List.mem_cons_of_mem _ hx)) hc2 hr
      simp only [deepCopyWith, ha]
      refine ⟨g, fun x hx => ?_, by simp [p1], by simp [p2, ha]⟩
      rcases List.mem_cons.1 hx with rfl | hx
      · exact ⟨fun a h => by simp [ha] at h, hfc⟩
      · exact fr x hx
    | some a =>
      rw [ha] at hc2
      obtain ⟨g1, hb⟩ := hg.alloc (s.read a)
      have g2 := storeHeader_good g1 hdr l hfc
      have hr' : ∀ c ∈ a :: seen, ∃ c', ((a, (s.alloc (s.read a)).1) :: ren).lookup c = some c' ∧ base ≤ c' := by
        intro c hc
        by_cases e : c = a
        · subst e; exact ⟨_, by simp [List.lookup], hb⟩
        · rcases List.mem_cons.1 hc with h | h
          · exact absurd h e
          · obtain ⟨c', h1, h2⟩ := hr c h
            have hne : (c == a) = false := by simpa using e
            exact ⟨c', by simp only [List.lookup, hne]; exact h1, h2⟩
      obtain ⟨g, fr, p1, p2⟩ := ih _ _ _ g2 (fun x hx => hcl x (List.mem_cons_of_mem _ hx)) hc2 hr'
      simp only [deepCopyWith, ha, hl]
      refine ⟨g, fun x hx => ?_, by simp [p1], by simp [p2, ha]⟩
      rcases List.mem_cons.1 hx with rfl | hx
      · exact ⟨fun x hx => by simp at hx; omega, hfc⟩
      · exact fr x hx

/-- **`V2Transaction.DeepCopy`**: for a transaction all of whose slice/pointer locations are
    among those `DeepCopy` clones (which `tie_deepcopy_fields_complete` establishes for every
    location go/types can reach, apart from the immutable `time.Location`), the copy shares
    no address with the original — every address in it was allocated by the call —, has the
    same shape, and producing it wrote nothing into the original's memory. -/
theorem c09_copies_disjoint (hdr : Loc → List Nat → List Nat) (f : Footprint) (s : St)
    (hcomplete : ∀ l ∈ f, l.path ∈ deepCopyCloned) (hwf : ContOk [] f) :
    (∀ l ∈ (deepCopy hdr f s).1, (∀ a, l.addr = some a → s.heap.next ≤ a) ∧
                                   (∀ c, l.container = some c → s.heap.next ≤ c)) ∧
    (deepCopy hdr f s).1.map (·.path) = f.map (·.path) ∧
    (deepCopy hdr f s).1.map (·.addr.isSome) = f.map (·.addr.isSome) ∧
    (∀ a, a < s.heap.next → (deepCopy hdr f s).2.heap.cells a = s.heap.cells a) ∧
    (∀ a ∈ (deepCopy hdr f s).2.written, a ∈ s.written ∨ s.heap.next ≤ a) := by
  obtain ⟨g, fr, p1, p2⟩ := deepCopyWith_fresh (base := s.heap.next) (s0 := s) deepCopyCloned hdr f [] [] s
    (Good.refl (Nat.le_refl _)) (fun l hl => by simpa using hcomplete l hl) hwf (fun c hc => by cases hc)
  exact ⟨fr, p1, p2, g.2.1, g.2.2⟩

theorem stripProofs_good {base : Nat} {s0 : St} (hdr : Loc → List Nat → List Nat) (f : Footprint) :
    ∀ (s : St), Good base s0 s → (∀ l ∈ f, ∀ c, l.container = some c → base ≤ c) →
      Good base s0 (stripProofs hdr f s).2 := by
  induction f with
  | nil => intro s hg _; exact hg
  | cons l rest ih =>
    intro s hg hc
    simp only [stripProofs]
    split
    · exact ih _ (storeHeader_good hg hdr l (hc l List.mem_cons_self)) (fun x hx => hc x (List.mem_cons_of_mem _ hx))
    · exact ih _ hg (fun x hx => hc x (List.mem_cons_of_mem _ hx))

/-- **`V2TransactionsMultiproof.EncodeTo` copies before it strips**: encoding a multiproof
    leaves every backing array of the transactions being encoded unchanged; all its stores
    (`l.MerkleProof = nil`) go into the private deep copy. -/
theorem c09_multiproof_encode_readonly (hdr : Loc → List Nat → List Nat) (f : Footprint) (s : St)
    (hcomplete : ∀ l ∈ f, l.path ∈ deepCopyCloned) (hwf : ContOk [] f) :
    (∀ a, a < s.heap.next → (multiproofEncode hdr f s).2.heap.cells a = s.heap.cells a) ∧
    (∀ a ∈ (multiproofEncode hdr f s).2.written, a ∈ s.written ∨ s.heap.next ≤ a) := by
  obtain ⟨g, fr, -, -⟩ := deepCopyWith_fresh (base := s.heap.next) (s0 := s) deepCopyCloned hdr f [] [] s
    (Good.refl (Nat.le_refl _)) (fun l hl => by simpa using hcomplete l hl) hwf (fun c hc => by cases hc)
  have := stripProofs_good hdr (deepCopy hdr f s).1 (deepCopy hdr f s).2 g (fun l hl => (fr l hl).2)
  exact ⟨this.2.1, this.2.2⟩

/-! ## satisfiability and sharpness: concrete instances -/

/-- a heap with three caller-owned arrays -/
def exHeap : St :=
  { heap := { cells := fun a => if a = 0 then some [7, 8] else if a = 1 then some [9] else if a = 2 then some [1, 2, 3] else none,
              next := 3 },
    written := [] }

def exOracle : Oracle :=
  { rewrite := fun _ l => l.map (· + 100), suffix := fun _ => [42], newIndex := fun n => 1000 + n, realloc := fun a => a % 2 = 0 }

/-- a block that spends two elements whose proofs live at 0 and 1 (one passed as shared),
    creates an output, revises a contract whose proof lives at 2 and spends an ephemeral element -/
def exOps : List Op :=
  [.spend .sc 11 (.given { leafIndex := some 5, proof := some 0, shared := false }),
   .spend .sf 12 (.given { leafIndex := some 6, proof := some 1, shared := true }),
   .create .sc 13, .spend .sc 13 (.lookup none),
   .revise .v2fc 14 (.given { leafIndex := some 7, proof := some 2, shared := false })]

/-- the pipeline succeeds on it, writes (five times) only to addresses ≥ 3, and the three
    caller-owned arrays are intact — the hypotheses of `c09_apply_writes_only_fresh` /
    `c09_inputs_unchanged` / `c09_no_move_of_shared` are satisfiable and non-trivial -/
example : ∃ ds s', applyBlock exOracle exHeap exOps 99 = .ok (ds, s') ∧ ds.length = 5 ∧
    s'.written.length = 5 ∧ (∀ a ∈ s'.written, 3 ≤ a) ∧
    s'.heap.cells 0 = some [7, 8] ∧ s'.heap.cells 1 = some [9] ∧ s'.heap.cells 2 = some [1, 2, 3] := by
  refine ⟨_, _, rfl, ?_⟩
  decide

/-- a footprint: `Attestations` (array at 0) holding one `Value` (array at 1), and a proof at 2
    inside the `SiacoinInputs` array at 3 -/
def exFoot : Footprint :=
  [{ path := "Attestations", addr := some 0, container := none },
   { path := "Attestations/[]/Value", addr := some 1, container := some 0 },
   { path := "SiacoinInputs", addr := some 3, container := none },
   { path := "SiacoinInputs/[]/Parent/StateElement/MerkleProof", addr := some 2, container := some 3 }]

def exHeap4 : St := { exHeap with heap := { cells := fun a => if a < 4 then some [a] else none, next := 4 } }

example : (∀ l ∈ exFoot, l.path ∈ deepCopyCloned) ∧ ContOk [] exFoot := by
  refine ⟨by decide, ?_⟩
  simp [ContOk, exFoot]

/-- the current `DeepCopy` gives all-fresh addresses and writes only fresh memory … -/
example : ((deepCopy (fun _ l => l) exFoot exHeap4).1.map (·.addr)) = [some 4, some 5, some 6, some 7] ∧
    (deepCopy (fun _ l => l) exFoot exHeap4).2.written = [6, 4] := by decide

/-- … whereas a `DeepCopy` that forgot `Attestations/[]/Value` (the shape of the defect fixed
    in f111759 for renewals, policies and the foundation address) leaves address 1 shared
    between copy and original: the completeness hypothesis is what makes the theorem true -/
example : ((deepCopyWith (deepCopyCloned.erase "Attestations/[]/Value") (fun _ l => l) exFoot [] exHeap4).1.map (·.addr))
    = [some 4, some 1, some 5, some 6] := by decide

/-- and a `DeepCopy` that cloned the inner proof but forgot the enclosing `SiacoinInputs`
    array would store the new slice header INTO THE ORIGINAL's array 3 -/
example : (deepCopyWith (deepCopyCloned.erase "SiacoinInputs") (fun _ l => l) exFoot [] exHeap4).2.written = [3, 4] := by
  decide

/-- without the copy, `EncodeTo`'s `l.MerkleProof = nil` writes into the caller's array 3 -/
example : (multiproofEncodeNoCopy (fun _ l => l) exFoot exHeap4).2.written = [3] ∧
    (multiproofEncode (fun _ l => l) exFoot exHeap4).2.written = [6, 6, 4] := by decide

end C09
