import SiaModel.Gen.CodeConsensus
import SiaProofs.Props.C15
import SiaProofs.Lemmas.GoLoops
/-!
# C07 / C01 — the v1 file-contract rules as REGENERATED from `consensus/validation.go`

The bodies of the two loops of `validateFileContracts` (contract formation, contract revision) and the closure
`outputSum` are translated on every run, inner `for … range` loops included.  Theorems about the generated
definitions: an accepted v1 contract locks exactly its outputs plus the tax (valid and missed sides equal, as
integers, nothing wrapped) and its window lies ahead; an accepted v1 revision keeps both payout sums, raises the
revision number and comes before the parent's proof window opens.
-/
namespace C07
open Gen.Types Gen.Consensus C15 GoLoops

theorem add_ok {a b v : Currency} (ha : WF a) (hb : WF b) (h : a.Add b = .ok v) :
    WF v ∧ val v = val a + val b := by
  obtain ⟨p1, p2⟩ := c15_add_panics_iff a b ha hb
  by_cases hs : val a + val b < W2
  · obtain ⟨s, e, w, vv⟩ := p1 hs
    rw [e] at h; cases h; exact ⟨w, vv⟩
  · obtain ⟨e, he⟩ := p2 (by omega)
    rw [he] at h; cases h

/-- integer value of a list of outputs -/
def outSum (outs : List SiacoinOutput) : Nat := (outs.map (fun o => val o.Value)).sum

/-- a loop that adds `output.Value` to the accumulator with the panicking `Add` -/
theorem addLoop_ok {ρ : Type} (f : Int → SiacoinOutput → Currency → Except String (Option ρ × Currency))
    (hf : ∀ i x st, f i x st = (match Currency.Add st x.Value with
                                | .error e => .error e
                                | .ok v => .ok (none, v))) :
    ∀ (outs : List SiacoinOutput) (k : Int) (acc : Currency) (r : Option ρ) (s : Currency),
      WF acc → (∀ o ∈ outs, WF o.Value) → Go.forRangeFrom f outs k acc = .ok (r, s) →
      r = none ∧ WF s ∧ val s = val acc + outSum outs := by
  intro outs
  induction outs with
  | nil =>
    intro k acc r s ha _ h
    simp [Go.forRangeFrom] at h
    obtain ⟨h1, h2⟩ := h
    subst h1; subst h2
    exact ⟨rfl, ha, by simp [outSum]⟩
  | cons x xs ih =>
    intro k acc r s ha hw h
    unfold Go.forRangeFrom at h
    rw [hf] at h
    cases hadd : Currency.Add acc x.Value with
    | error e => simp [hadd] at h
    | ok v =>
      simp [hadd] at h
      obtain ⟨wv, vv⟩ := add_ok ha (hw x List.mem_cons_self) hadd
      obtain ⟨r1, r2, r3⟩ := ih (k + 1) v r s wv (fun o ho => hw o (List.mem_cons_of_mem _ ho)) h
      refine ⟨r1, r2, ?_⟩
      rw [r3, vv]; simp [outSum, List.map_cons, List.sum_cons]; omega

theorem WF_zero : WF ({} : Currency) := ⟨by decide, by decide⟩
theorem val_zero : val ({} : Currency) = 0 := by decide

/-- the closure `outputSum` (regenerated): when it returns, it returns the exact integer sum -/
theorem outputSum_ok (outs : List SiacoinOutput) (s : Currency) (hw : ∀ o ∈ outs, WF o.Value)
    (h : validateFileContracts_outputSum outs = .ok s) : WF s ∧ val s = outSum outs := by
  unfold validateFileContracts_outputSum Go.forRange at h
  simp only [bind, Except.bind] at h
  split at h
  · cases h
  · rename_i v hv
    obtain ⟨r, acc⟩ := v
    obtain ⟨r1, r2, r3⟩ := addLoop_ok _ (by intro i x st; cases st.Add x.Value <;> rfl) outs 0 {} r acc WF_zero hw hv
    subst r1
    simp [pure, Except.pure] at h
    subst h
    exact ⟨r2, by rw [r3, val_zero]; simp⟩

/-- every output value of a v1 contract is a genuine pair of 64-bit words -/
structure FCOutsWF (fc : FileContract) : Prop where
  valid : ∀ o ∈ fc.ValidProofOutputs, WF o.Value
  missed : ∀ o ∈ fc.MissedProofOutputs, WF o.Value

/--
**An accepted v1 contract locks exactly its outputs plus the tax** (about the formation rules of
`validateFileContracts` as regenerated from the source): the window lies ahead and is non-empty, the valid and the
missed outputs add up to the same integer (no wrap-around), and the payout is that sum plus the contract tax.
-/
theorem c07_v1_formation_gen (ext : Ext) (ms : MidState) (fc : FileContract) (i : Int) (hw : FCOutsWF fc)
    (htax : WF (ext.FileContractTax ms.base fc))
    (h : validateFileContracts_formationRules ext fc ms i = .ok none) :
    State.childHeight ms.base ≤ fc.WindowStart ∧ fc.WindowStart < fc.WindowEnd ∧
    outSum fc.ValidProofOutputs = outSum fc.MissedProofOutputs ∧
    val fc.Payout = outSum fc.ValidProofOutputs + val (ext.FileContractTax ms.base fc) ∧
    val fc.Payout < W2 := by
  unfold validateFileContracts_formationRules Go.forRange at h
  by_cases c1 : fc.WindowStart < State.childHeight ms.base
  · simp [c1, pure, Except.pure] at h
  by_cases c2 : fc.WindowEnd ≤ fc.WindowStart
  · simp [c1, c2, pure, Except.pure] at h
  simp only [c1, c2, decide_false, Bool.false_eq_true, if_false, bind, Except.bind] at h
  split at h
  · cases h
  · rename_i v1 hv1
    obtain ⟨r1, sv⟩ := v1
    obtain ⟨e1, w1, s1⟩ := addLoop_ok _ (by intro i x st; cases st.Add x.Value <;> rfl) fc.ValidProofOutputs 0 {} r1 sv WF_zero hw.valid hv1
    subst e1
    simp only [] at h
    split at h
    · cases h
    · rename_i v2 hv2
      obtain ⟨r2, sm⟩ := v2
      obtain ⟨e2, w2, s2⟩ := addLoop_ok _ (by intro i x st; cases st.Add x.Value <;> rfl) fc.MissedProofOutputs 0 {} r2 sm WF_zero hw.missed hv2
      subst e2
      simp only [] at h
      by_cases c3 : sv.Equals sm = true
      · simp only [c3, Bool.not_true, Bool.false_eq_true, if_false] at h
        cases ha : sv.Add (ext.FileContractTax ms.base fc) with
        | error e => simp [ha] at h
        | ok t =>
          simp only [ha] at h
          by_cases c4 : fc.Payout.Equals t = true
          · obtain ⟨wt, vt⟩ := add_ok w1 htax ha
            have e3 : sv = sm := by unfold Currency.Equals at c3; simpa using c3
            have e4 : fc.Payout = t := by unfold Currency.Equals at c4; simpa using c4
            rw [val_zero] at s1 s2
            refine ⟨by omega, by omega, ?_, ?_, ?_⟩
            · have : val sv = val sm := by rw [e3]
              omega
            · rw [e4, vt, s1]; omega
            · rw [e4]; unfold val; obtain ⟨a, b⟩ := wt; omega
          · simp [c4, pure, Except.pure] at h
      · simp [c3, pure, Except.pure] at h

/-- first half of the v1 revision rules (regenerated): timelock, window and in-block conflict -/
theorem c07_v1_revision_a_gen (ext : Ext) (ms : MidState) (fcr : FileContractRevision) (i : Int) :
    validateFileContracts_revisionRulesA ext fcr ms i = none ↔
      (fcr.UnlockConditions.Timelock ≤ State.childHeight ms.base ∧
       State.childHeight ms.base ≤ fcr.FileContract.WindowStart ∧
       fcr.FileContract.WindowStart < fcr.FileContract.WindowEnd ∧
       (ext.spent ms fcr.ParentID).2 = false) := by
  unfold validateFileContracts_revisionRulesA
  by_cases c1 : fcr.UnlockConditions.Timelock > State.childHeight ms.base
  · simp [c1]; omega
  by_cases c2 : fcr.FileContract.WindowStart < State.childHeight ms.base
  · simp [c1, c2]; omega
  by_cases c3 : fcr.FileContract.WindowEnd ≤ fcr.FileContract.WindowStart
  · simp [c1, c2, c3]; omega
  cases c4 : (ext.spent ms fcr.ParentID).2 <;> simp [c1, c2, c3, c4] <;> omega

/--
**An accepted v1 revision keeps both payout sums** (second half of the revision rules of `validateFileContracts` as
regenerated): the parent exists, its proof window has not opened, the revision number rises, the revealed unlock
conditions hash to the parent's unlock hash, and the valid and the missed outputs each add up — as integers — to
what the parent's did.
-/
theorem c07_v1_revision_b_gen (ext : Ext) (ms : MidState) (ts : V1TransactionSupplement) (fcr : FileContractRevision)
    (i : Int) (hr : FCOutsWF fcr.FileContract) (hp : FCOutsWF (ext.fileContractElement ms ts fcr.ParentID).1.FileContract)
    (h : validateFileContracts_revisionRulesB ext ms ts fcr i = .ok none) :
    (ext.fileContractElement ms ts fcr.ParentID).2 = true ∧
    State.childHeight ms.base ≤ (ext.fileContractElement ms ts fcr.ParentID).1.FileContract.WindowStart ∧
    (ext.fileContractElement ms ts fcr.ParentID).1.FileContract.RevisionNumber < fcr.FileContract.RevisionNumber ∧
    ext.UnlockHash fcr.UnlockConditions = (ext.fileContractElement ms ts fcr.ParentID).1.FileContract.UnlockHash ∧
    outSum fcr.FileContract.ValidProofOutputs = outSum (ext.fileContractElement ms ts fcr.ParentID).1.FileContract.ValidProofOutputs ∧
    outSum fcr.FileContract.MissedProofOutputs = outSum (ext.fileContractElement ms ts fcr.ParentID).1.FileContract.MissedProofOutputs := by
  unfold validateFileContracts_revisionRulesB at h
  generalize hpe : ext.fileContractElement ms ts fcr.ParentID = pe at h hp ⊢
  obtain ⟨parent, ok⟩ := pe
  simp only [] at h hp ⊢
  cases ok with
  | false => simp [pure, Except.pure] at h
  | true =>
    by_cases c1 : parent.FileContract.WindowStart < State.childHeight ms.base
    · simp [c1, pure, Except.pure] at h
    by_cases c2 : fcr.FileContract.RevisionNumber ≤ parent.FileContract.RevisionNumber
    · simp [c1, c2, pure, Except.pure] at h
    by_cases c3 : ext.UnlockHash fcr.UnlockConditions ≠ parent.FileContract.UnlockHash
    · simp [c1, c2, c3, pure, Except.pure] at h
    simp only [c1, c2, c3, decide_false, decide_true, Bool.not_true, Bool.not_false, Bool.false_eq_true, if_false,
      bind, Except.bind] at h
    cases e1 : validateFileContracts_outputSum fcr.FileContract.ValidProofOutputs with
    | error e => simp [e1] at h
    | ok t3 =>
    cases e2 : validateFileContracts_outputSum parent.FileContract.ValidProofOutputs with
    | error e => simp [e1, e2] at h
    | ok t4 =>
    simp only [e1, e2] at h
    by_cases c4 : t3 ≠ t4
    · simp [c4, pure, Except.pure] at h
    simp only [c4, decide_false, Bool.false_eq_true, if_false] at h
    cases e3 : validateFileContracts_outputSum fcr.FileContract.MissedProofOutputs with
    | error e => simp [e3] at h
    | ok t5 =>
    cases e4 : validateFileContracts_outputSum parent.FileContract.MissedProofOutputs with
    | error e => simp [e3, e4] at h
    | ok t6 =>
    simp only [e3, e4] at h
    by_cases c5 : t5 ≠ t6
    · simp [c5, pure, Except.pure] at h
    have q1 := (outputSum_ok _ _ hr.valid e1).2
    have q2 := (outputSum_ok _ _ hp.valid e2).2
    have q3 := (outputSum_ok _ _ hr.missed e3).2
    have q4 := (outputSum_ok _ _ hp.missed e4).2
    have e34 : t3 = t4 := Classical.not_not.mp c4
    have e56 : t5 = t6 := Classical.not_not.mp c5
    refine ⟨rfl, by omega, by omega, Classical.not_not.mp c3, ?_, ?_⟩
    · rw [← q1, ← q2, e34]
    · rw [← q3, ← q4, e56]

/-! ### non-vacuity: the regenerated v1 rules accept and reject concrete contracts -/

/-- tax 4 on every contract -/
def extTax4 : Ext := { Ext.trivial with FileContractTax := fun _ _ => { Lo := 4 } }

def sampleV1 : FileContract :=
  { WindowStart := 10, WindowEnd := 20, Payout := { Lo := 104 },
    ValidProofOutputs := [{ Value := { Lo := 60 } }, { Value := { Lo := 40 } }],
    MissedProofOutputs := [{ Value := { Lo := 60 } }, { Value := { Lo := 30 } }, { Value := { Lo := 10 } }] }

example : validateFileContracts_formationRules extTax4 sampleV1 {} 0 = .ok none := by rfl
example : validateFileContracts_formationRules extTax4 { sampleV1 with Payout := { Lo := 100 } } {} 0
    = .ok (some "file contract %v has payout with incorrect tax") := by rfl
example : validateFileContracts_formationRules extTax4 { sampleV1 with MissedProofOutputs := [] } {} 0
    = .ok (some "file contract %v has valid payout that does not equal missed payout") := by rfl
example : ∃ m, validateFileContracts_formationRules extTax4
    { sampleV1 with ValidProofOutputs := [{ Value := { Lo := 1, Hi := 18446744073709551615 } }, { Value := { Hi := 1 } }] } {} 0
    = .error m := ⟨_, rfl⟩
example : validateFileContracts_outputSum sampleV1.ValidProofOutputs = .ok { Lo := 100 } := by rfl

end C07
