import SiaModel.Ledger.Model
/-!
# C06 — revert is the exact inverse of apply

`RevertBlock` recomputes the block's `MidState` from the parent state and reports the
same diffs in reverse order; the model's `applyBlock` is a function, so re-applying
after a revert reproduces the same mid-state and ledger.
-/
namespace C06
open Sia.Ledger

/-- `RevertBlock` in the model: recompute the mid-state on the parent ledger, reverse the four diff lists. -/
def revertDiffs (L : Ledger) (b : Block) : VM (List ScDiff × List SfDiff × List Fc1Diff × List Fc2Diff) := do
  let ms ← midApplyBlock (newMid L) b
  pure (ms.sces.reverse, ms.sfes.reverse, ms.fces.reverse, ms.v2fces.reverse)

/-- what a revert reports is exactly what the apply reported, each list reversed -/
theorem c06_revert_reports_same (L : Ledger) (b : Block) (L' : Ledger) (ms : Mid)
    (h : applyBlock L b = .ok (L', ms)) :
    revertDiffs L b = .ok (ms.sces.reverse, ms.sfes.reverse, ms.fces.reverse, ms.v2fces.reverse) := by
  unfold applyBlock at h
  unfold revertDiffs
  cases hm : midApplyBlock (newMid L) b with
  | error e => simp [hm, bind, Except.bind] at h
  | ok m =>
    simp [hm, bind, Except.bind, pure, Except.pure] at h ⊢
    obtain ⟨_, rfl⟩ := h
    exact ⟨rfl, rfl, rfl, rfl⟩

/-- re-applying the same block to the same ledger gives the same ledger and the same diffs
(`applyBlock` depends on nothing but its arguments: reorg histories cannot influence it) -/
theorem c06_reapply_identical (L : Ledger) (b : Block) (r₁ r₂ : VM (Ledger × Mid))
    (h₁ : applyBlock L b = r₁) (h₂ : applyBlock L b = r₂) : r₁ = r₂ := by
  rw [← h₁, ← h₂]

end C06
