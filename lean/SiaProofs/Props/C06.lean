import SiaModel.Ledger.Model
import SiaProofs.Lemmas.LedgerC06Store
import SiaProofs.Lemmas.LedgerC06Genuine
import SiaProofs.Props.C08
/-!
# C06 — revert is the exact inverse of apply

`RevertBlock` recomputes the block's `MidState` from the parent state and reports the
same diffs in reverse order; the model's `applyBlock` is a function, so re-applying
after a revert reproduces the same mid-state and ledger.
-/
namespace C06
open Sia.Ledger

/-- `RevertBlock` in the model: recompute the mid-state on the parent ledger, reverse the four diff lists. -/
def revertDiffs (L : Ledger) (b : Block) : VM (List ScDiff × List SfDiff × List Fc1Diff × List Fc2Diff) := do
  let ms ← midApplyBlock (newMid L) b
  pure (ms.sces.reverse, ms.sfes.reverse, ms.fces.reverse, ms.v2fces.reverse)

/-- what a revert reports is exactly what the apply reported, each list reversed -/
theorem c06_revert_reports_same (L : Ledger) (b : Block) (L' : Ledger) (ms : Mid)
    (h : applyBlock L b = .ok (L', ms)) :
    revertDiffs L b = .ok (ms.sces.reverse, ms.sfes.reverse, ms.fces.reverse, ms.v2fces.reverse) := by
  unfold applyBlock at h
  unfold revertDiffs
  cases hm : midApplyBlock (newMid L) b with
  | error e => simp [hm, bind, Except.bind] at h
  | ok m =>
    simp [hm, bind, Except.bind, pure, Except.pure] at h ⊢
    obtain ⟨_, rfl⟩ := h
    exact ⟨rfl, rfl, rfl, rfl⟩

/-- re-applying the same block to the same ledger gives the same ledger and the same diffs
(`applyBlock` depends on nothing but its arguments: reorg histories cannot influence it) -/
theorem c06_reapply_identical (L : Ledger) (b : Block) (r₁ r₂ : VM (Ledger × Mid))
    (h₁ : applyBlock L b = r₁) (h₂ : applyBlock L b = r₂) : r₁ = r₂ := by
  rw [← h₁, ← h₂]

-- ================================================================= the client store

/-- `c06_store_tracks_ledger` (general form): for a mid-state with the index invariant over a ledger
with unique ids whose non-created diffs carry ledger elements, applying its diffs to the store of
the ledger gives the store of the committed ledger. -/
theorem store_tracks_ledger_of (ms : Mid) (bid : Id) (hJ : MidJ ms) (hL : LedgerIds ms.base)
    (hG : Genuine ms.base ms) : applyStore (Store.ofLedger ms.base) ms = Store.ofLedger (ms.commit bid) := by
  have hsc : (applyStore (Store.ofLedger ms.base) ms).sc = (Store.ofLedger (ms.commit bid)).sc := by
    show _ = Map.ofList (fun e : ScElem => e.id) (List.filter _ _ ++ List.map _ (List.filter _ _))
    apply tracks_generic (fun e : ScElem => e.id) (fun d : ScDiff => d.e.id) _ _ _ _ _ _ hJ.sc.nodup
    · intro e; simp
    · intro d _; rfl
    · intro d hd
      unfold ScDiff.applyAct
      cases hs : d.spent <;> cases hc : d.created <;> simp [Act.at]
      exact ofList_mem _ _ hL.sc _ (hG.sc d hd hc)
  have hsf : (applyStore (Store.ofLedger ms.base) ms).sf = (Store.ofLedger (ms.commit bid)).sf := by
    show _ = Map.ofList (fun e : SfElem => e.id) (List.filter _ _ ++ List.map _ (List.filter _ _))
    apply tracks_generic (fun e : SfElem => e.id) (fun d : SfDiff => d.e.id) _ _ _ _ _ _ hJ.sf.nodup
    · intro e; simp
    · intro d _; rfl
    · intro d hd
      unfold SfDiff.applyAct
      cases hs : d.spent <;> cases hc : d.created <;> simp [Act.at]
      exact ofList_mem _ _ hL.sf _ (hG.sf d hd hc)
  have hfc1 : (applyStore (Store.ofLedger ms.base) ms).fc1 = (Store.ofLedger (ms.commit bid)).fc1 := by
    show _ = Map.ofList (fun e : Fc1Elem => e.id) (List.filter _ _ ++ List.map _ (List.filter _ _))
    apply tracks_generic (fun e : Fc1Elem => e.id) (fun d : Fc1Diff => d.e.id) _ _ _ _ _ _ hJ.fc1.nodup
    · intro e; simp
    · intro d _; exact Fc1Diff.current_id d
    · intro d hd
      unfold Fc1Diff.applyAct Fc1Diff.current
      cases hs : d.resolved <;> cases hr : d.revision <;> cases hc : d.created <;> simp [Act.at]
      exact ofList_mem _ _ hL.fc1 _ (hG.fc1 d hd hc)
  have hfc2 : (applyStore (Store.ofLedger ms.base) ms).fc2 = (Store.ofLedger (ms.commit bid)).fc2 := by
    show _ = Map.ofList (fun e : Fc2Elem => e.id) (List.filter _ _ ++ List.map _ (List.filter _ _))
    apply tracks_generic (fun e : Fc2Elem => e.id) (fun d : Fc2Diff => d.e.id) _ _ _ _ _ _ hJ.fc2.nodup
    · intro e; simp
    · intro d _; cases d.revision <;> rfl
    · intro d hd
      unfold Fc2Diff.applyAct
      cases hs : d.resolution <;> cases hr : d.revision <;> cases hc : d.created <;> simp [Act.at]
      exact ofList_mem _ _ hL.fc2 _ (hG.fc2 d hd hc)
  unfold applyStore Store.ofLedger at *
  simp only [Store.mk.injEq]
  exact ⟨hsc, hsf, hfc1, hfc2⟩

/-- `c06_store_inverse` (general form): reverting with the reversed diff lists undoes applying them -/
theorem store_inverse_of (ms : Mid) (hJ : MidJ ms) (hL : LedgerIds ms.base)
    (hG : Genuine ms.base ms) (hF : FreshCreated ms.base ms) :
    revertStore (applyStore (Store.ofLedger ms.base) ms) ms.sces.reverse ms.sfes.reverse ms.fces.reverse ms.v2fces.reverse =
      Store.ofLedger ms.base := by
  unfold revertStore applyStore Store.ofLedger
  simp only [Store.mk.injEq]
  refine ⟨?_, ?_, ?_, ?_⟩
  · apply inverse_generic (fun d : ScDiff => d.e.id) _ _ _ _ hJ.sc.nodup
    intro d hd
    unfold ScDiff.applyAct ScDiff.revertAct
    cases hc : d.created
    · cases hs : d.spent <;> simp [Act.at]
      exact (ofList_mem _ _ hL.sc _ (hG.sc d hd hc)).symm
    · have : Map.ofList (fun e : ScElem => e.id) ms.base.sc d.e.id = none :=
        ofList_not_mem _ _ _ (hF.sc d hd hc)
      cases hs : d.spent <;> simp [Act.at, this]
  · apply inverse_generic (fun d : SfDiff => d.e.id) _ _ _ _ hJ.sf.nodup
    intro d hd
    unfold SfDiff.applyAct SfDiff.revertAct
    cases hc : d.created
    · cases hs : d.spent <;> simp [Act.at]
      exact (ofList_mem _ _ hL.sf _ (hG.sf d hd hc)).symm
    · have : Map.ofList (fun e : SfElem => e.id) ms.base.sf d.e.id = none :=
        ofList_not_mem _ _ _ (hF.sf d hd hc)
      cases hs : d.spent <;> simp [Act.at, this]
  · apply inverse_generic (fun d : Fc1Diff => d.e.id) _ _ _ _ hJ.fc1.nodup
    intro d hd
    unfold Fc1Diff.revertAct
    cases hc : d.created
    · simp [Act.at]
      exact (ofList_mem _ _ hL.fc1 _ (hG.fc1 d hd hc)).symm
    · simp [Act.at]
      exact (ofList_not_mem _ _ _ (hF.fc1 d hd hc)).symm
  · apply inverse_generic (fun d : Fc2Diff => d.e.id) _ _ _ _ hJ.fc2.nodup
    intro d hd
    unfold Fc2Diff.revertAct
    cases hc : d.created
    · simp [Act.at]
      exact (ofList_mem _ _ hL.fc2 _ (hG.fc2 d hd hc)).symm
    · simp [Act.at]
      exact (ofList_not_mem _ _ _ (hF.fc2 d hd hc)).symm

/-- For a validated block applied to a ledger with unique element ids: a client store in sync with
the ledger, updated with the diffs the apply update reports (spent ⇒ delete, created ⇒ insert;
contracts: resolved ⇒ delete, revised ⇒ store the revision, created ⇒ insert), is in sync with the
new ledger — whatever mix of creation, spending, revision, resolution and expiry the block contains. -/
theorem c06_store_tracks_ledger (L L' : Ledger) (b : Block) (pid : Id) (ms0 ms : Mid) (hL : LedgerIds L)
    (hv : validateBlock L b pid = .ok ms0) (ha : applyBlock L b = .ok (L', ms)) :
    applyStore (Store.ofLedger L) ms = Store.ofLedger L' := by
  unfold applyBlock at ha
  obtain ⟨m, hm, ha⟩ := bind_ok_iff.1 ha
  simp at ha
  obtain ⟨rfl, rfl⟩ := ha
  have hb := midApplyBlock_base hm
  have := store_tracks_ledger_of ms b.blockId (midApplyBlock_J hm) (by rw [hb]; exact hL)
    (by rw [hb]; exact genuine_of_validated hv hm)
  rw [hb] at this
  exact this

/-- … and feeding the same diff lists reversed (what `RevertBlock` reports, `c06_revert_reports_same`)
to the store's revert (created ⇒ delete, otherwise restore the diff's element) gives back exactly the
store before the block — provided the ids the block creates are not ids of live elements.  Covers
creation+spend in one block, created+revised, revised+resolved (kept true by the pre-block element
rule of `resolveFc1`, see `c06_resolve_keeps_preblock_element`) and expiring v1 contracts. -/
theorem c06_store_inverse (L L' : Ledger) (b : Block) (pid : Id) (ms0 ms : Mid) (hL : LedgerIds L)
    (hv : validateBlock L b pid = .ok ms0) (ha : applyBlock L b = .ok (L', ms)) (hF : FreshCreated L ms) :
    revertStore (applyStore (Store.ofLedger L) ms) ms.sces.reverse ms.sfes.reverse ms.fces.reverse ms.v2fces.reverse =
      Store.ofLedger L := by
  unfold applyBlock at ha
  obtain ⟨m, hm, ha⟩ := bind_ok_iff.1 ha
  simp at ha
  obtain ⟨rfl, rfl⟩ := ha
  have hb := midApplyBlock_base hm
  have := store_inverse_of ms (midApplyBlock_J hm) (by rw [hb]; exact hL)
    (by rw [hb]; exact genuine_of_validated hv hm) (by rw [hb]; exact hF)
  rw [hb] at this
  exact this

/-- Regression guard for the `resolveFileContractElement` fix: when a v1 contract (not yet in the
block's diffs) is revised and then resolved in the same block — the resolution being handed the
*revised* element, as the lookup returns it — the diff still records the element the revision was
applied to, together with the revision and the resolution. -/
theorem c06_resolve_keeps_preblock_element (s : Mid) (e0 e1 : Fc1Elem) (rev : Fc1) (v : Bool)
    (hfresh : s.lookup e0.id = none) (hid : e1.id = e0.id) :
    ((s.reviseFc1 e0 rev).resolveFc1 e1 v).fc1Diff? e0.id =
      some { e := e0, created := false, revision := some { rev with payout := e0.fc.payout }, resolved := true, valid := v } := by
  have h1 : s.reviseFc1 e0 rev =
      { s with fces := s.fces ++ [{ e := e0, revision := some { rev with payout := e0.fc.payout } }],
               elements := s.elements ++ [(e0.id, s.fces.length)] } := by
    unfold Mid.reviseFc1 Mid.putFc1
    rw [hfresh]; rfl
  have hl : (s.reviseFc1 e0 rev).lookup e0.id = some s.fces.length := by
    rw [h1]; exact lookup_append_none _ hfresh
  unfold Mid.resolveFc1 Mid.fc1Diff? Mid.putFc1
  rw [hid, hl]
  simp only [Mid.lookup] at hl ⊢
  rw [hl]
  rw [h1]
  simp [listSet, List.getD]

-- the hypotheses are satisfiable: an accepted block over a ledger with unique ids
def exBlock : Block :=
  { txns1 := [], v2 := some (15, true, [C08.tRev2, C08.tSpend2 C08.Ex.e0]), payouts := [(900, { value := 30010, addr := 5 })], foundationOutId := 901, expiring := [], headerOk := true, blockId := 1015, maxWeight := 1000 }

example : (validateBlock (C08.Ex.L 15) exBlock 1014).toOption.isSome = true := by decide
example : (applyBlock (C08.Ex.L 15) exBlock).toOption.isSome = true := by decide
example : LedgerIds (C08.Ex.L 15) := ⟨by decide, by decide, by decide, by decide⟩

end C06
