import SiaModel.Ledger.Model
import SiaProofs.Lemmas.LedgerC06Store
import SiaProofs.Lemmas.LedgerC06Genuine
import SiaProofs.Lemmas.LedgerC06Chain
import SiaModel.Driver.LedgerRevert
import SiaProofs.Props.C08
/-!
# C06 — revert is the exact inverse of apply

`RevertBlock` recomputes the block's `MidState` from the parent state and reports the
same diffs in reverse order; the model's `applyBlock` is a function, so re-applying
after a revert reproduces the same mid-state and ledger.
-/
namespace C06
open Sia.Ledger

/-- `RevertBlock` in the model: recompute the mid-state on the parent ledger, reverse the four diff lists. -/
def revertDiffs (L : Ledger) (b : Block) : VM (List ScDiff × List SfDiff × List Fc1Diff × List Fc2Diff) := do
  let ms ← midApplyBlock (newMid L) b
  pure (ms.sces.reverse, ms.sfes.reverse, ms.fces.reverse, ms.v2fces.reverse)

/-- what a revert reports is exactly what the apply reported, each list reversed -/
theorem c06_revert_reports_same (L : Ledger) (b : Block) (L' : Ledger) (ms : Mid)
    (h : applyBlock L b = .ok (L', ms)) :
    revertDiffs L b = .ok (ms.sces.reverse, ms.sfes.reverse, ms.fces.reverse, ms.v2fces.reverse) := by
  unfold applyBlock at h
  unfold revertDiffs
  cases hm : midApplyBlock (newMid L) b with
  | error e => simp [hm, bind, Except.bind] at h
  | ok m =>
    simp [hm, bind, Except.bind, pure, Except.pure] at h ⊢
    obtain ⟨_, rfl⟩ := h
    exact ⟨rfl, rfl, rfl, rfl⟩

/-- re-applying the same block to the same ledger gives the same ledger and the same diffs
(`applyBlock` depends on nothing but its arguments: reorg histories cannot influence it) -/
theorem c06_reapply_identical (L : Ledger) (b : Block) (r₁ r₂ : VM (Ledger × Mid))
    (h₁ : applyBlock L b = r₁) (h₂ : applyBlock L b = r₂) : r₁ = r₂ := by
  rw [← h₁, ← h₂]

-- ================================================================= the client store

/-- `c06_store_tracks_ledger` (general form): for a mid-state with the index invariant over a ledger
with unique ids whose non-created diffs carry ledger elements, applying its diffs to the store of
the ledger gives the store of the committed ledger. -/
theorem store_tracks_ledger_of (ms : Mid) (bid : Id) (hJ : MidJ ms) (hL : LedgerIds ms.base)
    (hG : Genuine ms.base ms) : applyStore (Store.ofLedger ms.base) ms = Store.ofLedger (ms.commit bid) := by
  have hsc : (applyStore (Store.ofLedger ms.base) ms).sc = (Store.ofLedger (ms.commit bid)).sc := by
    show _ = Map.ofList (fun e : ScElem => e.id) (List.filter _ _ ++ List.map _ (List.filter _ _))
    apply tracks_generic (fun e : ScElem => e.id) (fun d : ScDiff => d.e.id) _ _ _ _ _ _ hJ.sc.nodup
    · intro e; simp
    · intro d _; rfl
    · intro d hd
      unfold ScDiff.applyAct
      cases hs : d.spent <;> cases hc : d.created <;> simp [Act.at]
      exact ofList_mem _ _ hL.sc _ (hG.sc d hd hc)
  have hsf : (applyStore (Store.ofLedger ms.base) ms).sf = (Store.ofLedger (ms.commit bid)).sf := by
    show _ = Map.ofList (fun e : SfElem => e.id) (List.filter _ _ ++ List.map _ (List.filter _ _))
    apply tracks_generic (fun e : SfElem => e.id) (fun d : SfDiff => d.e.id) _ _ _ _ _ _ hJ.sf.nodup
    · intro e; simp
    · intro d _; rfl
    · intro d hd
      unfold SfDiff.applyAct
      cases hs : d.spent <;> cases hc : d.created <;> simp [Act.at]
      exact ofList_mem _ _ hL.sf _ (hG.sf d hd hc)
  have hfc1 : (applyStore (Store.ofLedger ms.base) ms).fc1 = (Store.ofLedger (ms.commit bid)).fc1 := by
    show _ = Map.ofList (fun e : Fc1Elem => e.id) (List.filter _ _ ++ List.map _ (List.filter _ _))
    apply tracks_generic (fun e : Fc1Elem => e.id) (fun d : Fc1Diff => d.e.id) _ _ _ _ _ _ hJ.fc1.nodup
    · intro e; simp
    · intro d _; exact Fc1Diff.current_id d
    · intro d hd
      unfold Fc1Diff.applyAct Fc1Diff.current
      cases hs : d.resolved <;> cases hr : d.revision <;> cases hc : d.created <;> simp [Act.at]
      exact ofList_mem _ _ hL.fc1 _ (hG.fc1 d hd hc)
  have hfc2 : (applyStore (Store.ofLedger ms.base) ms).fc2 = (Store.ofLedger (ms.commit bid)).fc2 := by
    show _ = Map.ofList (fun e : Fc2Elem => e.id) (List.filter _ _ ++ List.map _ (List.filter _ _))
    apply tracks_generic (fun e : Fc2Elem => e.id) (fun d : Fc2Diff => d.e.id) _ _ _ _ _ _ hJ.fc2.nodup
    · intro e; simp
    · intro d _; cases d.revision <;> rfl
    · intro d hd
      unfold Fc2Diff.applyAct
      cases hs : d.resolution <;> cases hr : d.revision <;> cases hc : d.created <;> simp [Act.at]
      exact ofList_mem _ _ hL.fc2 _ (hG.fc2 d hd hc)
  unfold applyStore Store.ofLedger at *
  simp only [Store.mk.injEq]
  exact ⟨hsc, hsf, hfc1, hfc2⟩

/-- `c06_store_inverse` (general form): reverting with the reversed diff lists undoes applying them -/
theorem store_inverse_of (ms : Mid) (hJ : MidJ ms) (hL : LedgerIds ms.base)
    (hG : Genuine ms.base ms) (hF : FreshCreated ms.base ms) :
    revertStore (applyStore (Store.ofLedger ms.base) ms) ms.sces.reverse ms.sfes.reverse ms.fces.reverse ms.v2fces.reverse =
      Store.ofLedger ms.base := by
  unfold revertStore applyStore Store.ofLedger
  simp only [Store.mk.injEq]
  refine ⟨?_, ?_, ?_, ?_⟩
  · apply inverse_generic (fun d : ScDiff => d.e.id) _ _ _ _ hJ.sc.nodup
    intro d hd
    unfold ScDiff.applyAct ScDiff.revertAct
    cases hc : d.created
    · cases hs : d.spent <;> simp [Act.at]
      exact (ofList_mem _ _ hL.sc _ (hG.sc d hd hc)).symm
    · have : Map.ofList (fun e : ScElem => e.id) ms.base.sc d.e.id = none :=
        ofList_not_mem _ _ _ (hF.sc d hd hc)
      cases hs : d.spent <;> simp [Act.at, this]
  · apply inverse_generic (fun d : SfDiff => d.e.id) _ _ _ _ hJ.sf.nodup
    intro d hd
    unfold SfDiff.applyAct SfDiff.revertAct
    cases hc : d.created
    · cases hs : d.spent <;> simp [Act.at]
      exact (ofList_mem _ _ hL.sf _ (hG.sf d hd hc)).symm
    · have : Map.ofList (fun e : SfElem => e.id) ms.base.sf d.e.id = none :=
        ofList_not_mem _ _ _ (hF.sf d hd hc)
      cases hs : d.spent <;> simp [Act.at, this]
  · apply inverse_generic (fun d : Fc1Diff => d.e.id) _ _ _ _ hJ.fc1.nodup
    intro d hd
    unfold Fc1Diff.revertAct
    cases hc : d.created
    · simp [Act.at]
      exact (ofList_mem _ _ hL.fc1 _ (hG.fc1 d hd hc)).symm
    · simp [Act.at]
      exact (ofList_not_mem _ _ _ (hF.fc1 d hd hc)).symm
  · apply inverse_generic (fun d : Fc2Diff => d.e.id) _ _ _ _ hJ.fc2.nodup
    intro d hd
    unfold Fc2Diff.revertAct
    cases hc : d.created
    · simp [Act.at]
      exact (ofList_mem _ _ hL.fc2 _ (hG.fc2 d hd hc)).symm
    · simp [Act.at]
      exact (ofList_not_mem _ _ _ (hF.fc2 d hd hc)).symm

/-- For a validated block applied to a ledger with unique element ids: a client store in sync with
the ledger, updated with the diffs the apply update reports (spent ⇒ delete, created ⇒ insert;
contracts: resolved ⇒ delete, revised ⇒ store the revision, created ⇒ insert), is in sync with the
new ledger — whatever mix of creation, spending, revision, resolution and expiry the block contains. -/
theorem c06_store_tracks_ledger (L L' : Ledger) (b : Block) (pid : Id) (ms0 ms : Mid) (hL : LedgerIds L)
    (hv : validateBlock L b pid = .ok ms0) (ha : applyBlock L b = .ok (L', ms)) :
    applyStore (Store.ofLedger L) ms = Store.ofLedger L' := by
  unfold applyBlock at ha
  obtain ⟨m, hm, ha⟩ := bind_ok_iff.1 ha
  simp at ha
  obtain ⟨rfl, rfl⟩ := ha
  have hb := midApplyBlock_base hm
  have := store_tracks_ledger_of ms b.blockId (midApplyBlock_J hm) (by rw [hb]; exact hL)
    (by rw [hb]; exact genuine_of_validated hv hm)
  rw [hb] at this
  exact this

/-- … and feeding the same diff lists reversed (what `RevertBlock` reports, `c06_revert_reports_same`)
to the store's revert (created ⇒ delete, otherwise restore the diff's element) gives back exactly the
store before the block — provided the ids the block creates are not ids of live elements.  Covers
creation+spend in one block, created+revised, revised+resolved (kept true by the pre-block element
rule of `resolveFc1`, see `c06_resolve_keeps_preblock_element`) and expiring v1 contracts. -/
theorem c06_store_inverse (L L' : Ledger) (b : Block) (pid : Id) (ms0 ms : Mid) (hL : LedgerIds L)
    (hv : validateBlock L b pid = .ok ms0) (ha : applyBlock L b = .ok (L', ms)) (hF : FreshCreated L ms) :
    revertStore (applyStore (Store.ofLedger L) ms) ms.sces.reverse ms.sfes.reverse ms.fces.reverse ms.v2fces.reverse =
      Store.ofLedger L := by
  unfold applyBlock at ha
  obtain ⟨m, hm, ha⟩ := bind_ok_iff.1 ha
  simp at ha
  obtain ⟨rfl, rfl⟩ := ha
  have hb := midApplyBlock_base hm
  have := store_inverse_of ms (midApplyBlock_J hm) (by rw [hb]; exact hL)
    (by rw [hb]; exact genuine_of_validated hv hm) (by rw [hb]; exact hF)
  rw [hb] at this
  exact this

/-- Regression guard for the `resolveFileContractElement` fix: when a v1 contract (not yet in the
block's diffs) is revised and then resolved in the same block — the resolution being handed the
*revised* element, as the lookup returns it — the diff still records the element the revision was
applied to, together with the revision and the resolution. -/
theorem c06_resolve_keeps_preblock_element (s : Mid) (e0 e1 : Fc1Elem) (rev : Fc1) (v : Bool)
    (hfresh : s.lookup e0.id = none) (hid : e1.id = e0.id) :
    ((s.reviseFc1 e0 rev).resolveFc1 e1 v).fc1Diff? e0.id =
      some { e := e0, created := false, revision := some { rev with payout := e0.fc.payout }, resolved := true, valid := v } := by
  have h1 : s.reviseFc1 e0 rev =
      { s with fces := s.fces ++ [{ e := e0, revision := some { rev with payout := e0.fc.payout } }],
               elements := s.elements ++ [(e0.id, s.fces.length)] } := by
    unfold Mid.reviseFc1 Mid.putFc1
    rw [hfresh]; rfl
  have hl : (s.reviseFc1 e0 rev).lookup e0.id = some s.fces.length := by
    rw [h1]; exact lookup_append_none _ hfresh
  unfold Mid.resolveFc1 Mid.fc1Diff? Mid.putFc1
  rw [hid, hl]
  simp only [Mid.lookup] at hl ⊢
  rw [hl]
  rw [h1]
  simp [listSet, List.getD]

-- the hypotheses are satisfiable: an accepted block over a ledger with unique ids
def exBlock : Block :=
  { txns1 := [], v2 := some (15, true, [C08.tRev2, C08.tSpend2 C08.Ex.e0]), payouts := [(900, { value := 30010, addr := 5 })], foundationOutId := 901, expiring := [], headerOk := true, blockId := 1015, maxWeight := 1000 }

example : (validateBlock (C08.Ex.L 15) exBlock 1014).toOption.isSome = true := by decide
example : (applyBlock (C08.Ex.L 15) exBlock).toOption.isSome = true := by decide
example : LedgerIds (C08.Ex.L 15) := ⟨by decide, by decide, by decide, by decide⟩

-- ================================================================= the driver op computes `revertDiffs`

/-- the `ledger-revert` correspondence op prints exactly the revert report the theorems are about -/
theorem tie_ledger_revert_op : revertDiffs = Sia.Driver.revertReport := rfl

-- ================================================================= chains and reorganisations

/-- A chain of accepted blocks: each block passes `validateBlock` on the ledger it extends, is
applied by `applyBlock` (giving the next ledger and the mid-state whose diffs the apply / revert
updates report), and creates only ids that are not live (`FreshCreated`). -/
inductive Chain : Ledger → List (Block × Id) → List Mid → Ledger → Prop where
  | nil (L : Ledger) : Chain L [] [] L
  | cons {L L' L'' : Ledger} {b : Block} {pid : Id} {ms ms0 : Mid} {bs : List (Block × Id)} {mss : List Mid} :
      validateBlock L b pid = .ok ms0 → applyBlock L b = .ok (L', ms) → FreshCreated L ms →
      Chain L' bs mss L'' → Chain L ((b, pid) :: bs) (ms :: mss) L''

/-- the store after the apply updates of a list of blocks, oldest first -/
def applyUpdates (S : Store) (mss : List Mid) : Store := mss.foldl applyStore S
/-- the store after the revert updates of a list of blocks, in the order given (newest first for a reorg) -/
def revertUpdates (S : Store) (mss : List Mid) : Store :=
  mss.foldl (fun S ms => revertStore S ms.sces.reverse ms.sfes.reverse ms.fces.reverse ms.v2fces.reverse) S

theorem applyUpdates_append (S : Store) (a b : List Mid) : applyUpdates S (a ++ b) = applyUpdates (applyUpdates S a) b := by
  simp [applyUpdates]

theorem chain_ledgerIds {L L' : Ledger} {bs : List (Block × Id)} {mss : List Mid} (hL : LedgerIds L)
    (h : Chain L bs mss L') : LedgerIds L' := by
  induction h with
  | nil => exact hL
  | cons _ ha _ _ ih => exact ih (applyBlock_ledgerIds hL ha)

/-- along a chain the store driven by the apply updates is the store of the tip ledger -/
theorem chain_tracks {L L' : Ledger} {bs : List (Block × Id)} {mss : List Mid} (hL : LedgerIds L)
    (h : Chain L bs mss L') : applyUpdates (Store.ofLedger L) mss = Store.ofLedger L' := by
  induction h with
  | nil => rfl
  | cons hv ha _ _ ih =>
    simp only [applyUpdates, List.foldl_cons]
    rw [c06_store_tracks_ledger _ _ _ _ _ _ hL hv ha]
    exact ih (applyBlock_ledgerIds hL ha)

/-- `c06_history_inverse`: for any chain of accepted blocks from a ledger with unique ids, applying
the client store's apply update for every block and then its revert update for every block in
reverse order returns exactly the initial store. -/
theorem c06_history_inverse {L L' : Ledger} {bs : List (Block × Id)} {mss : List Mid} (hL : LedgerIds L)
    (h : Chain L bs mss L') :
    revertUpdates (applyUpdates (Store.ofLedger L) mss) mss.reverse = Store.ofLedger L := by
  induction h with
  | nil => rfl
  | cons hv ha hF hrest ih =>
    rename_i L1 L2 L3 b pid ms ms0 bs' mss'
    have hL2 := applyBlock_ledgerIds hL ha
    have e1 : applyUpdates (Store.ofLedger L1) (ms :: mss') = applyUpdates (Store.ofLedger L2) mss' := by
      simp only [applyUpdates, List.foldl_cons]
      rw [c06_store_tracks_ledger _ _ _ _ _ _ hL hv ha]
    rw [e1, List.reverse_cons]
    unfold revertUpdates
    rw [List.foldl_append]
    have := ih hL2
    unfold revertUpdates at this
    rw [this]
    simp only [List.foldl_cons, List.foldl_nil]
    rw [← c06_store_tracks_ledger _ _ _ _ _ _ hL hv ha]
    exact c06_store_inverse _ _ _ _ _ _ hL hv ha hF

/-- `c06_reorg_equiv`: after following `pre ++ old`, reverting the `old` blocks and applying a
different valid continuation `new`, the store equals the store obtained by following `pre ++ new`
directly — and both are the store of the new tip: the store is a function of the chain, not of
the path taken. -/
theorem c06_reorg_equiv {L0 Lk Ln Lm : Ledger} {pre old new : List (Block × Id)} {mpre mold mnew : List Mid}
    (hL : LedgerIds L0) (hpre : Chain L0 pre mpre Lk) (hold : Chain Lk old mold Ln) (hnew : Chain Lk new mnew Lm) :
    applyUpdates (revertUpdates (applyUpdates (Store.ofLedger L0) (mpre ++ mold)) mold.reverse) mnew =
      applyUpdates (Store.ofLedger L0) (mpre ++ mnew) ∧
    applyUpdates (Store.ofLedger L0) (mpre ++ mnew) = Store.ofLedger Lm := by
  have hLk := chain_ledgerIds hL hpre
  have e1 := chain_tracks hL hpre
  rw [applyUpdates_append, applyUpdates_append, e1, c06_history_inverse hLk hold]
  exact ⟨rfl, chain_tracks hLk hnew⟩

/-- `c06_revert_then_apply_same_block`: reverting a block brings the store back to the store of the
ledger `L` it was applied to; re-applying the block there is the same computation `applyBlock L b`
(same ledger, same report — `c06_reapply_identical`), and the store is again that of the new ledger. -/
theorem c06_revert_then_apply_same_block (L L' : Ledger) (b : Block) (pid : Id) (ms0 ms : Mid) (hL : LedgerIds L)
    (hv : validateBlock L b pid = .ok ms0) (ha : applyBlock L b = .ok (L', ms)) (hF : FreshCreated L ms) :
    let reverted := revertStore (applyStore (Store.ofLedger L) ms) ms.sces.reverse ms.sfes.reverse ms.fces.reverse ms.v2fces.reverse
    reverted = Store.ofLedger L ∧
      (∀ r, applyBlock L b = .ok r → r = (L', ms)) ∧ applyStore reverted ms = Store.ofLedger L' := by
  have h1 := c06_store_inverse L L' b pid ms0 ms hL hv ha hF
  refine ⟨h1, fun r hr => ?_, ?_⟩
  · rw [ha] at hr; cases hr; rfl
  · rw [h1]
    exact c06_store_tracks_ledger L L' b pid ms0 ms hL hv ha

-- ------------------------------------------------------------------ non-vacuity: the two shapes that were real defects

/-- a v1 storage proof for contract 301 (window start = child height 15, so the parent block is the
window-start block) placed after a revision of the same contract in the same block -/
def tProofAfterRev : Txn1 := { C08.Ex.txn1 with proofs := [{ parent := 301, proofOk := true, outIds := [401] }] }
/-- a second v2 revision of contract 501 in the same block -/
def tRev2b : Txn2 := { C08.Ex.txn2 with revs := [{ parent := C08.Ex.c2, rev := { C08.Ex.c2.fc with revNum := 3 }, sigCurOk := true }] }

/-- one block that revises-then-resolves a v1 contract and revises a v2 contract twice -/
def reorgBlock : Block :=
  { txns1 := [C08.tRev1 15, tProofAfterRev], v2 := some (15, true, [C08.tRev2, tRev2b]), payouts := [(900, { value := 30000, addr := 5 })], foundationOutId := 901, expiring := [], headerOk := true, blockId := 1015, maxWeight := 1000 }

def reorgMs0 : Mid := match validateBlock (C08.Ex.L 15) reorgBlock 1014 with | .ok m => m | _ => default
def reorgRes : Ledger × Mid := match applyBlock (C08.Ex.L 15) reorgBlock with | .ok r => r | _ => default

theorem reorgBlock_valid : validateBlock (C08.Ex.L 15) reorgBlock 1014 = .ok reorgMs0 := by decide
theorem reorgBlock_applies : applyBlock (C08.Ex.L 15) reorgBlock = .ok (reorgRes.1, reorgRes.2) := by decide
theorem reorgBlock_fresh : FreshCreated (C08.Ex.L 15) reorgRes.2 := ⟨by decide, by decide, by decide, by decide⟩

-- the block really has the two shapes: a v1 diff that is revised and resolved but not created, keeping
-- the pre-block element; a v2 diff holding the second revision over the pre-block element
example : reorgRes.2.fces.any (fun d => d.revision.isSome && d.resolved && !d.created && d.e == C08.Ex.c1) = true := by decide
example : reorgRes.2.v2fces.any (fun d => d.revision == some { C08.Ex.c2.fc with revNum := 3 } && d.e == C08.Ex.c2) = true := by decide

/-- the hypotheses of `c06_history_inverse` / `c06_reorg_equiv` are satisfiable by that block -/
theorem reorgChain : Chain (C08.Ex.L 15) [(reorgBlock, 1014)] [reorgRes.2] reorgRes.1 :=
  Chain.cons reorgBlock_valid reorgBlock_applies reorgBlock_fresh (Chain.nil _)

example : revertUpdates (applyUpdates (Store.ofLedger (C08.Ex.L 15)) [reorgRes.2]) [reorgRes.2].reverse =
    Store.ofLedger (C08.Ex.L 15) :=
  c06_history_inverse ⟨by decide, by decide, by decide, by decide⟩ reorgChain

end C06
