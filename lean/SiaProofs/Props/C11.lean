import SiaProofs.Lemmas.CodecSch
/-!
# C11 — Binary encoding round-trips, is canonical, field-complete, wire-format exact

Generic theorems, by induction on the schema language `Sch` of
`SiaModel/Codec/Schema.lean`; they hold for **every** schema the extractor will ever
generate (the per-type ties are in `C11Tie.lean`), over any environment of
hand-modelled irregular codecs that satisfy the leaf laws `CodecOK` (`EnvOK E`).

`dec E slack` is the real decoder (`slack` = what the limited reader still allows
beyond the bytes actually present: 0 for `NewBufDecoder`), `decStrict` the same
decoder with the three canonicality checks the real one lacks.
-/
namespace C11
open Sia.Codec

/-- canonical values occupy at least `minLen` bytes -/
theorem minLen_le {E : Env} (hE : EnvOK E) (s : Sch) (v : Val) (hc : Canon E s v) :
    s.minLen E ≤ (enc E s v).length := by
  induction s generalizing v with
  | atom a => exact (atom_ok E.lim a).minLen_le v hc
  | nil => simp [Sch.minLen]
  | cons l s r ihs ihr =>
    cases v <;> simp [Canon, canon] at hc
    rename_i a b
    have h1 := ihs a hc.1
    have h2 := ihr b hc.2
    simp [Sch.minLen, enc]; omega
  | slice s _ =>
    cases v <;> simp [Canon, canon] at hc
    simp [Sch.minLen, enc, u64le_length]
  | opt s _ =>
    cases v <;> simp [Canon, canon] at hc
    · simp [Sch.minLen, enc]
    · simp [Sch.minLen, enc]
  | uslice s _ =>
    cases v <;> simp [Canon, canon] at hc
    simp [Sch.minLen, enc, u64le_length]
  | aslice s _ =>
    cases v <;> simp [Canon, canon] at hc
    simp [Sch.minLen, enc, u64le_length]
  | ext n => exact (hE n).minLen_le v hc

/-- **Round trip.** Decoding the encoding of a canonical value (followed by anything)
returns exactly that value and the untouched remainder. Holds for the real and the
strict decoder and every reader allowance. -/
theorem c11_roundtrip_gen {E : Env} (hE : EnvOK E) (st : Bool) (k : Nat) (s : Sch) (hwf : s.wf E = true)
    (v : Val) (rest : Bytes) (hc : Canon E s v) :
    decG E st k s (enc E s v ++ rest) = .ok (v, rest) := by
  induction s generalizing v rest with
  | atom a => exact (atom_ok E.lim a).roundtrip st k v rest hc
  | nil => cases v <;> simp [Canon, canon] at hc; simp [decG, enc]
  | cons l s r ihs ihr =>
    cases v <;> simp [Canon, canon] at hc
    rename_i a b
    simp only [Sch.wf, Bool.and_eq_true] at hwf
    simp only [decG, enc, List.append_assoc]
    rw [ihs hwf.1 a _ hc.1]
    simp only
    rw [ihr hwf.2 b _ hc.2]
  | slice s ih =>
    cases v <;> simp [Canon, canon] at hc
    rename_i vs
    simp only [Sch.wf, Bool.and_eq_true, decide_eq_true_eq] at hwf
    simp only [decG, enc, List.append_assoc]
    rw [readU64_append hc.1]
    simp only
    have hlen : vs.length ≤ (encList (enc E s) vs).length :=
      encList_length_ge (fun w hw => Nat.le_trans hwf.2 (minLen_le hE s w (hc.2 w hw)))
    rw [if_neg (by simp; omega)]
    rw [decRep_roundtrip (fun w hw r => ih hwf.1 w r (hc.2 w hw))]
    rfl
  | opt s ih =>
    simp only [Sch.wf] at hwf
    cases v <;> simp [Canon, canon] at hc
    · simp [decG, enc, takeN, leVal]
    · rename_i a
      simp only [decG, enc]
      rw [show (1 :: enc E s a) ++ rest = [1] ++ (enc E s a ++ rest) from rfl, takeN_append' _ _ (by simp)]
      have h1 : leVal ([1] : Bytes) = 1 := rfl
      simp [h1, ih hwf a rest hc]
  | uslice s ih =>
    cases v <;> simp [Canon, canon] at hc
    rename_i vs
    simp only [Sch.wf, Bool.and_eq_true, decide_eq_true_eq] at hwf
    simp only [decG, enc, List.append_assoc]
    rw [readU64_append hc.1.1]
    simp only
    rw [if_neg (by omega)]
    rw [decRep_roundtrip (fun w hw r => ih hwf.1 w r (hc.2 w hw))]
    rfl
  | aslice s ih =>
    cases v <;> simp [Canon, canon] at hc
    rename_i vs
    simp only [Sch.wf, Bool.and_eq_true, decide_eq_true_eq] at hwf
    simp only [decG, enc, List.append_assoc]
    rw [readU64_append hc.1]
    simp only
    rw [decRep_roundtrip (fun w hw r => ih hwf.1 w r (hc.2 w hw))]
    rfl
  | ext n => exact (hE n).roundtrip st k v rest hc

/-- **c11_roundtrip** (the real decoder): `Canon s v → dec s (enc s v ++ rest) = ok (v, rest)`. -/
theorem c11_roundtrip {E : Env} (hE : EnvOK E) (k : Nat) (s : Sch) (hwf : s.wf E = true)
    (v : Val) (rest : Bytes) (hc : Canon E s v) :
    dec E k s (enc E s v ++ rest) = .ok (v, rest) :=
  c11_roundtrip_gen hE false k s hwf v rest hc

/-- a concrete schema and value on which the hypotheses of the theorems of this file
are satisfiable (non-vacuity): a record with a fixed array, a slice of byte strings, a
v1 currency and an optional u64 -/
def exS : Sch := Sch.seq [("Algorithm", .fixed 2), ("Keys", .slice .bytes), ("Fee", .cur1), ("Next", .opt .u64)]
def exV : Val := .pair (.bytes [1, 2]) (.pair (.list [.bytes [9], .bytes []]) (.pair (.nat 258) (.pair (.some (.nat 5)) .unit)))
def exW : Val := .pair (.bytes [1, 2]) (.pair (.list [.bytes [9], .bytes []]) (.pair (.nat 259) (.pair (.some (.nat 5)) .unit)))

example : EnvOK Env.default ∧ exS.wf Env.default = true ∧ Canon Env.default exS exV :=
  ⟨Env.default_ok, by decide, by decide⟩
example : dec Env.default 0 exS (enc Env.default exS exV ++ [7]) = .ok (exV, [7]) :=
  c11_roundtrip Env.default_ok 0 exS (by decide) exV [7] (by decide)
example : enc Env.default exS exV =
    [1,2, 2,0,0,0,0,0,0,0, 1,0,0,0,0,0,0,0, 9, 0,0,0,0,0,0,0,0, 2,0,0,0,0,0,0,0, 1,2, 1, 5,0,0,0,0,0,0,0] := by decide

/-- **c11_injective**: distinct canonical values have distinct encodings — every
field of the schema influences the bytes. -/
theorem c11_injective {E : Env} (hE : EnvOK E) (s : Sch) (hwf : s.wf E = true)
    (v w : Val) (hv : Canon E s v) (hw : Canon E s w) (h : enc E s v = enc E s w) : v = w := by
  have h1 := c11_roundtrip hE 0 s hwf v [] hv
  have h2 := c11_roundtrip hE 0 s hwf w [] hw
  rw [h, h2] at h1
  injection h1 with h1; injection h1 with h1
  exact h1.symm

example : enc Env.default exS exV ≠ enc Env.default exS exW :=
  fun h => absurd (c11_injective Env.default_ok exS (by decide) exV exW (by decide) (by decide) h) (by
    intro h; injection h with _ h; injection h with _ h; injection h with h _; injection h with h; exact absurd h (by decide))

/-- encodings are prefix-free: no canonical encoding is a proper prefix of another -/
theorem c11_prefix_free {E : Env} (hE : EnvOK E) (s : Sch) (hwf : s.wf E = true)
    (v w : Val) (hv : Canon E s v) (hw : Canon E s w) (t : Bytes)
    (h : enc E s v ++ t = enc E s w) : v = w ∧ t = [] := by
  have h1 := c11_roundtrip hE 0 s hwf v t hv
  have h2 := c11_roundtrip hE 0 s hwf w [] hw
  rw [h] at h1
  rw [List.append_nil] at h2
  rw [h2] at h1
  injection h1 with h1; injection h1 with h1 h3
  exact ⟨h1.symm, h3.symm⟩

/-- **c11_truncation_fails**: every proper prefix `p` of an encoding (`p ++ q = enc s v`,
`q ≠ []`) fails to decode — an error, never a partial value. (Schemas with empty
encodings have no proper prefix and are covered vacuously.) -/
theorem c11_truncation_fails {E : Env} (hE : EnvOK E) (st : Bool) (k : Nat) (s : Sch) (hwf : s.wf E = true)
    (v : Val) (hc : Canon E s v) (p q : Bytes) (h : p ++ q = enc E s v) (hq : q ≠ []) :
    ∃ e, decG E st k s p = .error e := by
  induction s generalizing v p q with
  | atom a => exact (atom_ok E.lim a).trunc st k v p q hc h hq
  | nil => simp [enc] at h; exact absurd h.2 hq
  | cons l s r ihs ihr =>
    cases v <;> simp [Canon, canon] at hc
    rename_i a b
    simp only [Sch.wf, Bool.and_eq_true] at hwf
    simp only [enc] at h
    simp only [decG]
    rcases prefix_split h with ⟨q', h1, hq'⟩ | ⟨p', h1, h2⟩
    · obtain ⟨e, he⟩ := ihs hwf.1 a hc.1 p q' h1 hq'
      rw [he]; exact ⟨_, rfl⟩
    · subst h1
      rw [c11_roundtrip_gen hE st k s hwf.1 a p' hc.1]
      simp only
      obtain ⟨e, he⟩ := ihr hwf.2 b hc.2 p' q h2 hq
      rw [he]; exact ⟨_, rfl⟩
  | slice s ih =>
    cases v <;> simp [Canon, canon] at hc
    rename_i vs
    simp only [Sch.wf, Bool.and_eq_true, decide_eq_true_eq] at hwf
    simp only [enc] at h
    simp only [decG]
    rcases prefix_split h with ⟨q', h1, hq'⟩ | ⟨p', h1, h2⟩
    · have hl := prefix_len_lt h1 hq'
      rw [u64le_length] at hl
      rw [readU64_short hl]; exact ⟨_, rfl⟩
    · subst h1
      rw [readU64_append hc.1]
      simp only
      split
      · exact ⟨_, rfl⟩
      · obtain ⟨e, he⟩ := decRep_trunc (f := decG E st k s) (g := enc E s)
          (fun w hw r => c11_roundtrip_gen hE st k s hwf.1 w r (hc.2 w hw))
          (fun w hw p q hpq hq => ih hwf.1 w (hc.2 w hw) p q hpq hq) h2 hq
        rw [he]; exact ⟨_, rfl⟩
  | opt s ih =>
    simp only [Sch.wf] at hwf
    cases v <;> simp [Canon, canon] at hc
    · simp only [enc] at h
      have hl := prefix_len_lt h hq
      simp only [decG]
      rw [takeN_short (by simpa using hl)]; exact ⟨_, rfl⟩
    · rename_i a
      simp only [enc] at h
      simp only [decG]
      rcases prefix_split (x := [1]) (y := enc E s a) h with ⟨q', h1, hq'⟩ | ⟨p', h1, h2⟩
      · have hl := prefix_len_lt h1 hq'
        rw [takeN_short (by simpa using hl)]; exact ⟨_, rfl⟩
      · subst h1
        rw [takeN_append' _ _ (by simp)]
        have h1 : leVal ([1] : Bytes) = 1 := rfl
        obtain ⟨e, he⟩ := ih hwf a hc p' q h2 hq
        simp [h1, he]
  | uslice s ih =>
    cases v <;> simp [Canon, canon] at hc
    rename_i vs
    simp only [Sch.wf, Bool.and_eq_true, decide_eq_true_eq] at hwf
    simp only [enc] at h
    simp only [decG]
    rcases prefix_split h with ⟨q', h1, hq'⟩ | ⟨p', h1, h2⟩
    · have hl := prefix_len_lt h1 hq'
      rw [u64le_length] at hl
      rw [readU64_short hl]; exact ⟨_, rfl⟩
    · subst h1
      rw [readU64_append hc.1.1]
      simp only
      rw [if_neg (by omega)]
      obtain ⟨e, he⟩ := decRep_trunc (f := decG E st k s) (g := enc E s)
          (fun w hw r => c11_roundtrip_gen hE st k s hwf.1 w r (hc.2 w hw))
          (fun w hw p q hpq hq => ih hwf.1 w (hc.2 w hw) p q hpq hq) h2 hq
      rw [he]; exact ⟨_, rfl⟩
  | aslice s ih =>
    cases v <;> simp [Canon, canon] at hc
    rename_i vs
    simp only [Sch.wf, Bool.and_eq_true, decide_eq_true_eq] at hwf
    simp only [enc] at h
    simp only [decG]
    rcases prefix_split h with ⟨q', h1, hq'⟩ | ⟨p', h1, h2⟩
    · have hl := prefix_len_lt h1 hq'
      rw [u64le_length] at hl
      rw [readU64_short hl]; exact ⟨_, rfl⟩
    · subst h1
      rw [readU64_append hc.1]
      simp only
      obtain ⟨e, he⟩ := decRep_trunc (f := decG E st k s) (g := enc E s)
          (fun w hw r => c11_roundtrip_gen hE st k s hwf.1 w r (hc.2 w hw))
          (fun w hw p q hpq hq => ih hwf.1 w (hc.2 w hw) p q hpq hq) h2 hq
      rw [he]; exact ⟨_, rfl⟩
  | ext n => exact (hE n).trunc st k v p q hc h hq


example : ∃ e, dec Env.default 0 exS ((enc Env.default exS exV).take 30) = .error e :=
  c11_truncation_fails Env.default_ok false 0 exS (by decide) exV (by decide)
    ((enc Env.default exS exV).take 30) ((enc Env.default exS exV).drop 30) (List.take_append_drop _ _) (by decide)

/-- **c11_decode_canon**: whatever the decoder accepts is a canonical value of the
schema, and the decoder consumed a prefix of its input (at least `minLen` bytes). -/
theorem c11_decode_canon {E : Env} (hE : EnvOK E) (st : Bool) (k : Nat) (s : Sch)
    (bs : Bytes) (v : Val) (rest : Bytes) (h : decG E st k s bs = .ok (v, rest)) :
    Canon E s v ∧ ∃ cs, bs = cs ++ rest ∧ s.minLen E ≤ cs.length := by
  induction s generalizing v bs rest with
  | atom a => exact (atom_ok E.lim a).dec_sound st k bs v rest h
  | nil =>
    simp only [decG] at h
    injection h with h; injection h with e1 e2; subst e1; subst e2
    exact ⟨rfl, [], rfl, by simp [Sch.minLen]⟩
  | cons l s r ihs ihr =>
    simp only [decG] at h
    split at h
    · rename_i a bs1 h1
      split at h
      · rename_i b bs2 h2
        injection h with h; injection h with e1 e2; subst e1; subst e2
        obtain ⟨c1, cs1, hb1, hm1⟩ := ihs _ _ _ h1
        obtain ⟨c2, cs2, hb2, hm2⟩ := ihr _ _ _ h2
        refine ⟨by simp [Canon, canon]; exact ⟨c1, c2⟩, cs1 ++ cs2, by rw [hb1, hb2]; simp, ?_⟩
        simp [Sch.minLen]; omega
      · cases h
    · cases h
  | slice s ih =>
    simp only [decG] at h
    split at h
    · rename_i n r1 h1
      obtain ⟨hb, hn⟩ := readU64_ok h1
      split at h
      · cases h
      · simp only [okList] at h
        split at h
        · rename_i vs r2 h2
          injection h with h; injection h with e1 e2; subst e1; subst e2
          obtain ⟨hl, hall, cs, hcs⟩ := decRep_sound (P := fun v => Canon E s v)
            (fun bs v r hf => let ⟨c, cs, hb, _⟩ := ih bs v r hf; ⟨c, cs, hb⟩) h2
          refine ⟨?_, u64le n ++ cs, by rw [hb, hcs]; simp, by simp [Sch.minLen, u64le_length]⟩
          simp only [Canon, canon, Bool.and_eq_true, decide_eq_true_eq, List.all_eq_true]
          exact ⟨by omega, hall⟩
        · cases h
    · cases h
  | opt s ih =>
    simp only [decG] at h
    split at h
    · rename_i a r1 h1
      obtain ⟨hb, hl⟩ := takeN_ok h1
      split at h
      · injection h with h; injection h with e1 e2; subst e1; subst e2
        exact ⟨rfl, a, hb, by simp [Sch.minLen]; omega⟩
      · split at h
        · split at h
          · rename_i w r2 h2
            injection h with h; injection h with e1 e2; subst e1; subst e2
            obtain ⟨c, cs, hcs, _⟩ := ih _ _ _ h2
            exact ⟨c, a ++ cs, by rw [hb, hcs]; simp, by simp [Sch.minLen]; omega⟩
          · cases h
        · cases h
    · cases h
  | uslice s ih =>
    simp only [decG] at h
    split at h
    · rename_i n r1 h1
      obtain ⟨hb, hn⟩ := readU64_ok h1
      split at h
      · cases h
      · rename_i hlim
        simp only [okList] at h
        split at h
        · rename_i vs r2 h2
          injection h with h; injection h with e1 e2; subst e1; subst e2
          obtain ⟨hl, hall, cs, hcs⟩ := decRep_sound (P := fun v => Canon E s v)
            (fun bs v r hf => let ⟨c, cs, hb, _⟩ := ih bs v r hf; ⟨c, cs, hb⟩) h2
          refine ⟨?_, u64le n ++ cs, by rw [hb, hcs]; simp, by simp [Sch.minLen, u64le_length]⟩
          simp only [Canon, canon, Bool.and_eq_true, decide_eq_true_eq, List.all_eq_true]
          exact ⟨⟨by omega, by omega⟩, hall⟩
        · cases h
    · cases h
  | aslice s ih =>
    simp only [decG] at h
    split at h
    · rename_i n r1 h1
      obtain ⟨hb, hn⟩ := readU64_ok h1
      simp only [okList] at h
      split at h
      · rename_i vs r2 h2
        injection h with h; injection h with e1 e2; subst e1; subst e2
        obtain ⟨hl, hall, cs, hcs⟩ := decRep_sound (P := fun v => Canon E s v)
          (fun bs v r hf => let ⟨c, cs, hb, _⟩ := ih bs v r hf; ⟨c, cs, hb⟩) h2
        refine ⟨?_, u64le n ++ cs, by rw [hb, hcs]; simp, by simp [Sch.minLen, u64le_length]⟩
        simp only [Canon, canon, Bool.and_eq_true, decide_eq_true_eq, List.all_eq_true]
        exact ⟨by omega, hall⟩
      · cases h
    · cases h
  | ext n => exact (hE n).dec_sound st k bs v rest h

/-- what the strict decoder accepts re-encodes to exactly the bytes consumed -/
theorem strict_reencode {E : Env} (hE : EnvOK E) (k : Nat) (s : Sch)
    (bs : Bytes) (v : Val) (rest : Bytes) (h : decStrict E k s bs = .ok (v, rest)) :
    enc E s v ++ rest = bs := by
  induction s generalizing v bs rest with
  | atom a => exact (atom_ok E.lim a).strict_enc k bs v rest h
  | nil =>
    simp only [decStrict, decG] at h
    injection h with h; injection h with e1 e2; subst e1; subst e2
    rfl
  | cons l s r ihs ihr =>
    simp only [decStrict, decG] at h
    split at h
    · rename_i a bs1 h1
      split at h
      · rename_i b bs2 h2
        injection h with h; injection h with e1 e2; subst e1; subst e2
        simp only [enc, List.append_assoc]
        rw [ihr _ _ _ h2, ihs _ _ _ h1]
      · cases h
    · cases h
  | slice s ih =>
    simp only [decStrict, decG] at h
    split at h
    · rename_i n r1 h1
      obtain ⟨hb, hn⟩ := readU64_ok h1
      split at h
      · cases h
      · simp only [okList] at h
        split at h
        · rename_i vs r2 h2
          injection h with h; injection h with e1 e2; subst e1; subst e2
          have hl := (decRep_sound (P := fun _ => True) (fun bs v r hf =>
            let ⟨_, cs, hb, _⟩ := c11_decode_canon hE true k s bs v r hf; ⟨trivial, cs, hb⟩) h2).1
          simp only [enc, List.append_assoc]
          rw [decRep_enc (g := enc E s) (fun bs v r hf => ih bs v r hf) h2, hl, hb]
        · cases h
    · cases h
  | opt s ih =>
    simp only [decStrict, decG] at h
    split at h
    · rename_i a r1 h1
      obtain ⟨hb, hl⟩ := takeN_ok h1
      have ha : a = leBytes 1 (leVal a) := by rw [← hl, leBytes_leVal]
      split at h
      · rename_i h0
        injection h with h; injection h with e1 e2; subst e1; subst e2
        rw [hb, ha, h0]; simp [enc, leBytes]
      · split at h
        · rename_i h0
          split at h
          · rename_i w r2 h2
            injection h with h; injection h with e1 e2; subst e1; subst e2
            rw [hb, ha, h0, ← ih _ _ _ h2]; simp [enc, leBytes]
          · cases h
        · cases h
    · cases h
  | uslice s ih =>
    simp only [decStrict, decG] at h
    split at h
    · rename_i n r1 h1
      obtain ⟨hb, hn⟩ := readU64_ok h1
      split at h
      · cases h
      · simp only [okList] at h
        split at h
        · rename_i vs r2 h2
          injection h with h; injection h with e1 e2; subst e1; subst e2
          have hl := (decRep_sound (P := fun _ => True) (fun bs v r hf =>
            let ⟨_, cs, hb, _⟩ := c11_decode_canon hE true k s bs v r hf; ⟨trivial, cs, hb⟩) h2).1
          simp only [enc, List.append_assoc]
          rw [decRep_enc (g := enc E s) (fun bs v r hf => ih bs v r hf) h2, hl, hb]
        · cases h
    · cases h
  | aslice s ih =>
    simp only [decStrict, decG] at h
    split at h
    · rename_i n r1 h1
      obtain ⟨hb, hn⟩ := readU64_ok h1
      simp only [okList] at h
      split at h
      · rename_i vs r2 h2
        injection h with h; injection h with e1 e2; subst e1; subst e2
        have hl := (decRep_sound (P := fun _ => True) (fun bs v r hf =>
          let ⟨_, cs, hb, _⟩ := c11_decode_canon hE true k s bs v r hf; ⟨trivial, cs, hb⟩) h2).1
        simp only [enc, List.append_assoc]
        rw [decRep_enc (g := enc E s) (fun bs v r hf => ih bs v r hf) h2, hl, hb]
      · cases h
    · cases h
  | ext n => exact (hE n).strict_enc k bs v rest h

/-- the strict decoder is a restriction of the real one -/
theorem strict_sub_real {E : Env} (hE : EnvOK E) (k : Nat) (s : Sch)
    (bs : Bytes) (r : Val × Bytes) (h : decG E true k s bs = .ok r) : decG E false k s bs = .ok r := by
  induction s generalizing bs r with
  | atom a => exact (atom_ok E.lim a).strict_lax k bs r h
  | nil => exact h
  | cons l s r' ihs ihr =>
    simp only [decG] at h ⊢
    split at h
    · rename_i a bs1 h1
      rw [ihs _ _ h1]
      simp only
      split at h
      · rename_i b bs2 h2
        rw [ihr _ _ h2]; exact h
      · cases h
    · cases h
  | slice s ih =>
    simp only [decG] at h ⊢
    split at h
    · split at h
      · cases h
      · rename_i hg
        rw [if_neg hg]
        simp only [okList] at h ⊢
        split at h
        · rename_i vs r2 h2
          rw [decRep_mono (f' := decG E false k s) (fun bs r hf => ih bs r hf) h2]; exact h
        · cases h
    · cases h
  | opt s ih =>
    simp only [decG] at h ⊢
    split at h
    · split at h
      · rename_i h0; rw [if_pos h0]; exact h
      · rename_i h0
        rw [if_neg h0]
        split at h
        · rename_i h1
          rw [if_pos h1]
          split at h
          · rename_i w r2 h2
            rw [ih _ _ h2]; exact h
          · cases h
        · cases h
    · cases h
  | uslice s ih =>
    simp only [decG] at h ⊢
    split at h
    · split at h
      · cases h
      · rename_i hg
        rw [if_neg hg]
        simp only [okList] at h ⊢
        split at h
        · rename_i vs r2 h2
          rw [decRep_mono (f' := decG E false k s) (fun bs r hf => ih bs r hf) h2]; exact h
        · cases h
    · cases h
  | aslice s ih =>
    simp only [decG] at h ⊢
    split at h
    · simp only [okList] at h ⊢
      split at h
      · rename_i vs r2 h2
        rw [decRep_mono (f' := decG E false k s) (fun bs r hf => ih bs r hf) h2]; exact h
      · cases h
    · cases h
  | ext n => exact (hE n).strict_lax k bs r h

/-- **c11_reencode**: if the real decoder accepts `bs` as `(v, rest)`, then
re-encoding gives back the consumed bytes **iff** the strict decoder accepts `bs`
too. The strict decoder differs from the real one in exactly three atoms, so the
non-canonical inputs the real decoder accepts are characterised exactly: a V1
currency (or v1 siafund value) with a leading zero byte, a length-prefixed fixed
array (`pfixed n`: signatures in rhp v2/v3) whose prefix is not `n`, and a non-zero
discarded "ClaimStart" of a v1 siafund output. -/
theorem c11_reencode {E : Env} (hE : EnvOK E) (k : Nat) (s : Sch) (hwf : s.wf E = true)
    (bs : Bytes) (v : Val) (rest : Bytes) (h : dec E k s bs = .ok (v, rest)) :
    (enc E s v ++ rest = bs ↔ decStrict E k s bs = .ok (v, rest)) := by
  constructor
  · intro he
    have hc := (c11_decode_canon hE false k s bs v rest h).1
    rw [← he]
    exact c11_roundtrip_gen hE true k s hwf v rest hc
  · exact strict_reencode hE k s bs v rest

/-- the hypotheses are satisfiable, and both sides of the equivalence occur: a V1 currency
with a leading zero byte is accepted by the real decoder, re-encodes to different
bytes, and is rejected by the strict decoder; the canonical form is accepted by both -/
def ncCur : Bytes := [2,0,0,0,0,0,0,0, 0,1]
example : dec Env.default 0 .cur1 ncCur = .ok (.nat 1, []) := rfl
example : enc Env.default .cur1 (.nat 1) ++ [] ≠ ncCur := by decide
example : decStrict Env.default 0 .cur1 ncCur = .error .invalid := rfl
example : decStrict Env.default 0 .cur1 [1,0,0,0,0,0,0,0, 1] = .ok (.nat 1, []) := rfl
/-- a 64-byte signature sent with a 1-byte prefix (rhp v2/v3 `copy(sig[:], d.ReadBytes())`) -/
example : dec Env.default 0 (.pfixed 2) [1,0,0,0,0,0,0,0, 7] = .ok (.bytes [7, 0], []) := rfl
example : decStrict Env.default 0 (.pfixed 2) [1,0,0,0,0,0,0,0, 7] = .error .invalid := rfl

/-- canonical re-encoding is a fixpoint: `enc ∘ dec ∘ enc = enc` for *everything* the
real decoder accepts (also non-canonical input): decode, encode, decode again gives
the same value, and the second encoding is stable. -/
theorem c11_reencode_fixpoint {E : Env} (hE : EnvOK E) (k : Nat) (s : Sch) (hwf : s.wf E = true)
    (bs : Bytes) (v : Val) (rest : Bytes) (h : dec E k s bs = .ok (v, rest)) :
    dec E k s (enc E s v ++ rest) = .ok (v, rest) :=
  c11_roundtrip hE k s hwf v rest (c11_decode_canon hE false k s bs v rest h).1

/-- **c11_deterministic**: the encoding is a function of the value alone (and the
decoding a function of the bytes alone) — recorded because the property says so. -/
theorem c11_deterministic (E : Env) (s : Sch) (v w : Val) (k : Nat) (bs bs' : Bytes) :
    (v = w → enc E s v = enc E s w) ∧ (bs = bs' → dec E k s bs = dec E k s bs') :=
  ⟨fun h => by rw [h], fun h => by rw [h]⟩

end C11
