import SiaProofs.Props.C19
/-!
# C19 — per-type `fits` theorems (printed by extract/gen_c19fits.py from its LIMITS table)

`c19_fits_T`: every canonical message of type `T` that obeys the protocol's own limits
(`within limits_T`) encodes within the length limit the receiver applies to it — for a
request `o.maxLen()`, for a response `RPCError.maxLen() + o.maxLen()` including the error
flag byte — using the GENERATED `maxLen` facts. `tie_limits_T`: the limit table names the
schema's fields in order.
-/
namespace C19
open Sia.Codec Sia.Codec.Gen Sia.Framing

/-- limits of `rhp4.RPCSettingsRequest`: empty -/
def limits_Rhp4_RPCSettingsRequest : Limits := []
theorem tie_limits_Rhp4_RPCSettingsRequest : limits_Rhp4_RPCSettingsRequest.map (·.1) = encSchema_Rhp4_RPCSettingsRequest.labels := rfl
theorem c19_fits_Rhp4_RPCSettingsRequest (v : Val) (hc : Canon Irregular.env encSchema_Rhp4_RPCSettingsRequest v)
    (hw : within limits_Rhp4_RPCSettingsRequest encSchema_Rhp4_RPCSettingsRequest v = true) :
    (enc Irregular.env encSchema_Rhp4_RPCSettingsRequest v).length ≤ Framing.rhp4_maxLen_RPCSettingsRequest :=
  fits_request _ _ _ (by decide +kernel) v hc hw

/-- limits of `rhp4.RPCAccountBalanceRequest`: fixed size -/
def limits_Rhp4_RPCAccountBalanceRequest : Limits := [("Account", none)]
theorem tie_limits_Rhp4_RPCAccountBalanceRequest : limits_Rhp4_RPCAccountBalanceRequest.map (·.1) = encSchema_Rhp4_RPCAccountBalanceRequest.labels := rfl
theorem c19_fits_Rhp4_RPCAccountBalanceRequest (v : Val) (hc : Canon Irregular.env encSchema_Rhp4_RPCAccountBalanceRequest v)
    (hw : within limits_Rhp4_RPCAccountBalanceRequest encSchema_Rhp4_RPCAccountBalanceRequest v = true) :
    (enc Irregular.env encSchema_Rhp4_RPCAccountBalanceRequest v).length ≤ Framing.rhp4_maxLen_RPCAccountBalanceRequest :=
  fits_request _ _ _ (by decide +kernel) v hc hw

/-- limits of `rhp4.RPCAccountBalanceResponse`: fixed size -/
def limits_Rhp4_RPCAccountBalanceResponse : Limits := [("Balance", none)]
theorem tie_limits_Rhp4_RPCAccountBalanceResponse : limits_Rhp4_RPCAccountBalanceResponse.map (·.1) = encSchema_Rhp4_RPCAccountBalanceResponse.labels := rfl
theorem c19_fits_Rhp4_RPCAccountBalanceResponse (v : Val) (hc : Canon Irregular.env encSchema_Rhp4_RPCAccountBalanceResponse v)
    (hw : within limits_Rhp4_RPCAccountBalanceResponse encSchema_Rhp4_RPCAccountBalanceResponse v = true) :
    (rhp4WriteResponse Irregular.env encSchema_Rhp4_RPCAccountBalanceResponse (respObj v)).length ≤ rhp4RespLimit Framing.rhp4_maxLen_RPCAccountBalanceResponse :=
  fits_response _ _ _ (by decide +kernel) v hc hw

/-- limits of `rhp4.RPCLatestRevisionRequest`: fixed size -/
def limits_Rhp4_RPCLatestRevisionRequest : Limits := [("ContractID", none)]
theorem tie_limits_Rhp4_RPCLatestRevisionRequest : limits_Rhp4_RPCLatestRevisionRequest.map (·.1) = encSchema_Rhp4_RPCLatestRevisionRequest.labels := rfl
theorem c19_fits_Rhp4_RPCLatestRevisionRequest (v : Val) (hc : Canon Irregular.env encSchema_Rhp4_RPCLatestRevisionRequest v)
    (hw : within limits_Rhp4_RPCLatestRevisionRequest encSchema_Rhp4_RPCLatestRevisionRequest v = true) :
    (enc Irregular.env encSchema_Rhp4_RPCLatestRevisionRequest v).length ≤ Framing.rhp4_maxLen_RPCLatestRevisionRequest :=
  fits_request _ _ _ (by decide +kernel) v hc hw

/-- limits of `rhp4.RPCLatestRevisionResponse`: fixed size; two bytes larger than maxLen()=sizeofContract, absorbed by the RPCError allowance of ReadResponse -/
def limits_Rhp4_RPCLatestRevisionResponse : Limits := [("Contract", none), ("Revisable", none), ("Renewed", none)]
theorem tie_limits_Rhp4_RPCLatestRevisionResponse : limits_Rhp4_RPCLatestRevisionResponse.map (·.1) = encSchema_Rhp4_RPCLatestRevisionResponse.labels := rfl
theorem c19_fits_Rhp4_RPCLatestRevisionResponse (v : Val) (hc : Canon Irregular.env encSchema_Rhp4_RPCLatestRevisionResponse v)
    (hw : within limits_Rhp4_RPCLatestRevisionResponse encSchema_Rhp4_RPCLatestRevisionResponse v = true) :
    (rhp4WriteResponse Irregular.env encSchema_Rhp4_RPCLatestRevisionResponse (respObj v)).length ≤ rhp4RespLimit Framing.rhp4_maxLen_RPCLatestRevisionResponse :=
  fits_response _ _ _ (by decide +kernel) v hc hw

/-- limits of `rhp4.RPCReadSectorRequest`: fixed size, equal to maxLen() -/
def limits_Rhp4_RPCReadSectorRequest : Limits := [("Prices", none), ("Token", none), ("Root", none), ("Offset", none), ("Length", none)]
theorem tie_limits_Rhp4_RPCReadSectorRequest : limits_Rhp4_RPCReadSectorRequest.map (·.1) = encSchema_Rhp4_RPCReadSectorRequest.labels := rfl
theorem c19_fits_Rhp4_RPCReadSectorRequest (v : Val) (hc : Canon Irregular.env encSchema_Rhp4_RPCReadSectorRequest v)
    (hw : within limits_Rhp4_RPCReadSectorRequest encSchema_Rhp4_RPCReadSectorRequest v = true) :
    (enc Irregular.env encSchema_Rhp4_RPCReadSectorRequest v).length ≤ Framing.rhp4_maxLen_RPCReadSectorRequest :=
  fits_request _ _ _ (by decide +kernel) v hc hw

/-- limits of `rhp4.RPCReadSectorResponse`: a range proof inside one sector has at most 2*16 hashes; 300 is what maxLen() leaves room for -/
def limits_Rhp4_RPCReadSectorResponse : Limits := [("Proof", some 300), ("DataLength", none)]
theorem tie_limits_Rhp4_RPCReadSectorResponse : limits_Rhp4_RPCReadSectorResponse.map (·.1) = encSchema_Rhp4_RPCReadSectorResponse.labels := rfl
theorem c19_fits_Rhp4_RPCReadSectorResponse (v : Val) (hc : Canon Irregular.env encSchema_Rhp4_RPCReadSectorResponse v)
    (hw : within limits_Rhp4_RPCReadSectorResponse encSchema_Rhp4_RPCReadSectorResponse v = true) :
    (rhp4WriteResponse Irregular.env encSchema_Rhp4_RPCReadSectorResponse (respObj v)).length ≤ rhp4RespLimit Framing.rhp4_maxLen_RPCReadSectorResponse :=
  fits_response _ _ _ (by decide +kernel) v hc hw

/-- limits of `rhp4.RPCWriteSectorRequest`: fixed size, equal to maxLen() -/
def limits_Rhp4_RPCWriteSectorRequest : Limits := [("Prices", none), ("Token", none), ("DataLength", none)]
theorem tie_limits_Rhp4_RPCWriteSectorRequest : limits_Rhp4_RPCWriteSectorRequest.map (·.1) = encSchema_Rhp4_RPCWriteSectorRequest.labels := rfl
theorem c19_fits_Rhp4_RPCWriteSectorRequest (v : Val) (hc : Canon Irregular.env encSchema_Rhp4_RPCWriteSectorRequest v)
    (hw : within limits_Rhp4_RPCWriteSectorRequest encSchema_Rhp4_RPCWriteSectorRequest v = true) :
    (enc Irregular.env encSchema_Rhp4_RPCWriteSectorRequest v).length ≤ Framing.rhp4_maxLen_RPCWriteSectorRequest :=
  fits_request _ _ _ (by decide +kernel) v hc hw

/-- limits of `rhp4.RPCWriteSectorResponse`: fixed size -/
def limits_Rhp4_RPCWriteSectorResponse : Limits := [("Root", none)]
theorem tie_limits_Rhp4_RPCWriteSectorResponse : limits_Rhp4_RPCWriteSectorResponse.map (·.1) = encSchema_Rhp4_RPCWriteSectorResponse.labels := rfl
theorem c19_fits_Rhp4_RPCWriteSectorResponse (v : Val) (hc : Canon Irregular.env encSchema_Rhp4_RPCWriteSectorResponse v)
    (hw : within limits_Rhp4_RPCWriteSectorResponse encSchema_Rhp4_RPCWriteSectorResponse v = true) :
    (rhp4WriteResponse Irregular.env encSchema_Rhp4_RPCWriteSectorResponse (respObj v)).length ≤ rhp4RespLimit Framing.rhp4_maxLen_RPCWriteSectorResponse :=
  fits_response _ _ _ (by decide +kernel) v hc hw

/-- limits of `rhp4.RPCVerifySectorRequest`: fixed size, equal to maxLen() -/
def limits_Rhp4_RPCVerifySectorRequest : Limits := [("Prices", none), ("Token", none), ("Root", none), ("LeafIndex", none)]
theorem tie_limits_Rhp4_RPCVerifySectorRequest : limits_Rhp4_RPCVerifySectorRequest.map (·.1) = encSchema_Rhp4_RPCVerifySectorRequest.labels := rfl
theorem c19_fits_Rhp4_RPCVerifySectorRequest (v : Val) (hc : Canon Irregular.env encSchema_Rhp4_RPCVerifySectorRequest v)
    (hw : within limits_Rhp4_RPCVerifySectorRequest encSchema_Rhp4_RPCVerifySectorRequest v = true) :
    (enc Irregular.env encSchema_Rhp4_RPCVerifySectorRequest v).length ≤ Framing.rhp4_maxLen_RPCVerifySectorRequest :=
  fits_request _ _ _ (by decide +kernel) v hc hw

/-- limits of `rhp4.RPCVerifySectorResponse`: a sector leaf proof has 16 hashes -/
def limits_Rhp4_RPCVerifySectorResponse : Limits := [("Proof", some 300), ("Leaf", none)]
theorem tie_limits_Rhp4_RPCVerifySectorResponse : limits_Rhp4_RPCVerifySectorResponse.map (·.1) = encSchema_Rhp4_RPCVerifySectorResponse.labels := rfl
theorem c19_fits_Rhp4_RPCVerifySectorResponse (v : Val) (hc : Canon Irregular.env encSchema_Rhp4_RPCVerifySectorResponse v)
    (hw : within limits_Rhp4_RPCVerifySectorResponse encSchema_Rhp4_RPCVerifySectorResponse v = true) :
    (rhp4WriteResponse Irregular.env encSchema_Rhp4_RPCVerifySectorResponse (respObj v)).length ≤ rhp4RespLimit Framing.rhp4_maxLen_RPCVerifySectorResponse :=
  fits_response _ _ _ (by decide +kernel) v hc hw

/-- limits of `rhp4.RPCSectorRootsRequest`: fixed size, equal to maxLen() -/
def limits_Rhp4_RPCSectorRootsRequest : Limits := [("Prices", none), ("ContractID", none), ("RenterSignature", none), ("Offset", none), ("Length", none)]
theorem tie_limits_Rhp4_RPCSectorRootsRequest : limits_Rhp4_RPCSectorRootsRequest.map (·.1) = encSchema_Rhp4_RPCSectorRootsRequest.labels := rfl
theorem c19_fits_Rhp4_RPCSectorRootsRequest (v : Val) (hc : Canon Irregular.env encSchema_Rhp4_RPCSectorRootsRequest v)
    (hw : within limits_Rhp4_RPCSectorRootsRequest encSchema_Rhp4_RPCSectorRootsRequest v = true) :
    (enc Irregular.env encSchema_Rhp4_RPCSectorRootsRequest v).length ≤ Framing.rhp4_maxLen_RPCSectorRootsRequest :=
  fits_request _ _ _ (by decide +kernel) v hc hw

/-- limits of `rhp4.RPCSectorRootsResponse`: Validate: Length <= MaxSectorBatchSize; a range proof has at most 2*64 hashes -/
def limits_Rhp4_RPCSectorRootsResponse : Limits := [("Proof", some 128), ("Roots", some Gen.Framing.rhp4_MaxSectorBatchSize), ("HostSignature", none)]
theorem tie_limits_Rhp4_RPCSectorRootsResponse : limits_Rhp4_RPCSectorRootsResponse.map (·.1) = encSchema_Rhp4_RPCSectorRootsResponse.labels := rfl
theorem c19_fits_Rhp4_RPCSectorRootsResponse (v : Val) (hc : Canon Irregular.env encSchema_Rhp4_RPCSectorRootsResponse v)
    (hw : within limits_Rhp4_RPCSectorRootsResponse encSchema_Rhp4_RPCSectorRootsResponse v = true) :
    (rhp4WriteResponse Irregular.env encSchema_Rhp4_RPCSectorRootsResponse (respObj v)).length ≤ rhp4RespLimit Framing.rhp4_maxLen_RPCSectorRootsResponse :=
  fits_response _ _ _ (by decide +kernel) v hc hw

/-- limits of `rhp4.RPCFreeSectorsRequest`: Validate: len(Indices) <= MaxSectorBatchSize -/
def limits_Rhp4_RPCFreeSectorsRequest : Limits := [("ContractID", none), ("Prices", none), ("Indices", some Gen.Framing.rhp4_MaxSectorBatchSize), ("ChallengeSignature", none)]
theorem tie_limits_Rhp4_RPCFreeSectorsRequest : limits_Rhp4_RPCFreeSectorsRequest.map (·.1) = encSchema_Rhp4_RPCFreeSectorsRequest.labels := rfl
theorem c19_fits_Rhp4_RPCFreeSectorsRequest (v : Val) (hc : Canon Irregular.env encSchema_Rhp4_RPCFreeSectorsRequest v)
    (hw : within limits_Rhp4_RPCFreeSectorsRequest encSchema_Rhp4_RPCFreeSectorsRequest v = true) :
    (enc Irregular.env encSchema_Rhp4_RPCFreeSectorsRequest v).length ≤ Framing.rhp4_maxLen_RPCFreeSectorsRequest :=
  fits_request _ _ _ (by decide +kernel) v hc hw

/-- limits of `rhp4.RPCFreeSectorsSecondResponse`: signature -/
def limits_Rhp4_RPCFreeSectorsSecondResponse : Limits := [("RenterSignature", none)]
theorem tie_limits_Rhp4_RPCFreeSectorsSecondResponse : limits_Rhp4_RPCFreeSectorsSecondResponse.map (·.1) = encSchema_Rhp4_RPCFreeSectorsSecondResponse.labels := rfl
theorem c19_fits_Rhp4_RPCFreeSectorsSecondResponse (v : Val) (hc : Canon Irregular.env encSchema_Rhp4_RPCFreeSectorsSecondResponse v)
    (hw : within limits_Rhp4_RPCFreeSectorsSecondResponse encSchema_Rhp4_RPCFreeSectorsSecondResponse v = true) :
    (rhp4WriteResponse Irregular.env encSchema_Rhp4_RPCFreeSectorsSecondResponse (respObj v)).length ≤ rhp4RespLimit Framing.rhp4_maxLen_RPCFreeSectorsSecondResponse :=
  fits_response _ _ _ (by decide +kernel) v hc hw

/-- limits of `rhp4.RPCFreeSectorsThirdResponse`: signature -/
def limits_Rhp4_RPCFreeSectorsThirdResponse : Limits := [("HostSignature", none)]
theorem tie_limits_Rhp4_RPCFreeSectorsThirdResponse : limits_Rhp4_RPCFreeSectorsThirdResponse.map (·.1) = encSchema_Rhp4_RPCFreeSectorsThirdResponse.labels := rfl
theorem c19_fits_Rhp4_RPCFreeSectorsThirdResponse (v : Val) (hc : Canon Irregular.env encSchema_Rhp4_RPCFreeSectorsThirdResponse v)
    (hw : within limits_Rhp4_RPCFreeSectorsThirdResponse encSchema_Rhp4_RPCFreeSectorsThirdResponse v = true) :
    (rhp4WriteResponse Irregular.env encSchema_Rhp4_RPCFreeSectorsThirdResponse (respObj v)).length ≤ rhp4RespLimit Framing.rhp4_maxLen_RPCFreeSectorsThirdResponse :=
  fits_response _ _ _ (by decide +kernel) v hc hw

/-- limits of `rhp4.RPCAppendSectorsRequest`: Validate: len(Sectors) <= MaxSectorBatchSize -/
def limits_Rhp4_RPCAppendSectorsRequest : Limits := [("Prices", none), ("Sectors", some Gen.Framing.rhp4_MaxSectorBatchSize), ("ContractID", none), ("ChallengeSignature", none)]
theorem tie_limits_Rhp4_RPCAppendSectorsRequest : limits_Rhp4_RPCAppendSectorsRequest.map (·.1) = encSchema_Rhp4_RPCAppendSectorsRequest.labels := rfl
theorem c19_fits_Rhp4_RPCAppendSectorsRequest (v : Val) (hc : Canon Irregular.env encSchema_Rhp4_RPCAppendSectorsRequest v)
    (hw : within limits_Rhp4_RPCAppendSectorsRequest encSchema_Rhp4_RPCAppendSectorsRequest v = true) :
    (enc Irregular.env encSchema_Rhp4_RPCAppendSectorsRequest v).length ≤ Framing.rhp4_maxLen_RPCAppendSectorsRequest :=
  fits_request _ _ _ (by decide +kernel) v hc hw

/-- limits of `rhp4.RPCAppendSectorsResponse`: one flag per requested sector; subtree roots generously bounded by the batch size -/
def limits_Rhp4_RPCAppendSectorsResponse : Limits := [("Accepted", some Gen.Framing.rhp4_MaxSectorBatchSize), ("SubtreeRoots", some Gen.Framing.rhp4_MaxSectorBatchSize), ("NewMerkleRoot", none)]
theorem tie_limits_Rhp4_RPCAppendSectorsResponse : limits_Rhp4_RPCAppendSectorsResponse.map (·.1) = encSchema_Rhp4_RPCAppendSectorsResponse.labels := rfl
theorem c19_fits_Rhp4_RPCAppendSectorsResponse (v : Val) (hc : Canon Irregular.env encSchema_Rhp4_RPCAppendSectorsResponse v)
    (hw : within limits_Rhp4_RPCAppendSectorsResponse encSchema_Rhp4_RPCAppendSectorsResponse v = true) :
    (rhp4WriteResponse Irregular.env encSchema_Rhp4_RPCAppendSectorsResponse (respObj v)).length ≤ rhp4RespLimit Framing.rhp4_maxLen_RPCAppendSectorsResponse :=
  fits_response _ _ _ (by decide +kernel) v hc hw

/-- limits of `rhp4.RPCAppendSectorsSecondResponse`: signature -/
def limits_Rhp4_RPCAppendSectorsSecondResponse : Limits := [("RenterSignature", none)]
theorem tie_limits_Rhp4_RPCAppendSectorsSecondResponse : limits_Rhp4_RPCAppendSectorsSecondResponse.map (·.1) = encSchema_Rhp4_RPCAppendSectorsSecondResponse.labels := rfl
theorem c19_fits_Rhp4_RPCAppendSectorsSecondResponse (v : Val) (hc : Canon Irregular.env encSchema_Rhp4_RPCAppendSectorsSecondResponse v)
    (hw : within limits_Rhp4_RPCAppendSectorsSecondResponse encSchema_Rhp4_RPCAppendSectorsSecondResponse v = true) :
    (rhp4WriteResponse Irregular.env encSchema_Rhp4_RPCAppendSectorsSecondResponse (respObj v)).length ≤ rhp4RespLimit Framing.rhp4_maxLen_RPCAppendSectorsSecondResponse :=
  fits_response _ _ _ (by decide +kernel) v hc hw

/-- limits of `rhp4.RPCAppendSectorsThirdResponse`: signature -/
def limits_Rhp4_RPCAppendSectorsThirdResponse : Limits := [("HostSignature", none)]
theorem tie_limits_Rhp4_RPCAppendSectorsThirdResponse : limits_Rhp4_RPCAppendSectorsThirdResponse.map (·.1) = encSchema_Rhp4_RPCAppendSectorsThirdResponse.labels := rfl
theorem c19_fits_Rhp4_RPCAppendSectorsThirdResponse (v : Val) (hc : Canon Irregular.env encSchema_Rhp4_RPCAppendSectorsThirdResponse v)
    (hw : within limits_Rhp4_RPCAppendSectorsThirdResponse encSchema_Rhp4_RPCAppendSectorsThirdResponse v = true) :
    (rhp4WriteResponse Irregular.env encSchema_Rhp4_RPCAppendSectorsThirdResponse (respObj v)).length ≤ rhp4RespLimit Framing.rhp4_maxLen_RPCAppendSectorsThirdResponse :=
  fits_response _ _ _ (by decide +kernel) v hc hw

/-- limits of `rhp4.RPCFundAccountsRequest`: Validate: len(Deposits) <= MaxAccountBatchSize -/
def limits_Rhp4_RPCFundAccountsRequest : Limits := [("ContractID", none), ("Deposits", some Gen.Framing.rhp4_MaxAccountBatchSize), ("RenterSignature", none)]
theorem tie_limits_Rhp4_RPCFundAccountsRequest : limits_Rhp4_RPCFundAccountsRequest.map (·.1) = encSchema_Rhp4_RPCFundAccountsRequest.labels := rfl
theorem c19_fits_Rhp4_RPCFundAccountsRequest (v : Val) (hc : Canon Irregular.env encSchema_Rhp4_RPCFundAccountsRequest v)
    (hw : within limits_Rhp4_RPCFundAccountsRequest encSchema_Rhp4_RPCFundAccountsRequest v = true) :
    (enc Irregular.env encSchema_Rhp4_RPCFundAccountsRequest v).length ≤ Framing.rhp4_maxLen_RPCFundAccountsRequest :=
  fits_request _ _ _ (by decide +kernel) v hc hw

/-- limits of `rhp4.RPCFundAccountsResponse`: one balance per deposit -/
def limits_Rhp4_RPCFundAccountsResponse : Limits := [("Balances", some Gen.Framing.rhp4_MaxAccountBatchSize), ("HostSignature", none)]
theorem tie_limits_Rhp4_RPCFundAccountsResponse : limits_Rhp4_RPCFundAccountsResponse.map (·.1) = encSchema_Rhp4_RPCFundAccountsResponse.labels := rfl
theorem c19_fits_Rhp4_RPCFundAccountsResponse (v : Val) (hc : Canon Irregular.env encSchema_Rhp4_RPCFundAccountsResponse v)
    (hw : within limits_Rhp4_RPCFundAccountsResponse encSchema_Rhp4_RPCFundAccountsResponse v = true) :
    (rhp4WriteResponse Irregular.env encSchema_Rhp4_RPCFundAccountsResponse (respObj v)).length ≤ rhp4RespLimit Framing.rhp4_maxLen_RPCFundAccountsResponse :=
  fits_response _ _ _ (by decide +kernel) v hc hw

/-- limits of `rhp4.RPCReplenishAccountsRequest`: Validate: len(Accounts) <= MaxAccountBatchSize -/
def limits_Rhp4_RPCReplenishAccountsRequest : Limits := [("Accounts", some Gen.Framing.rhp4_MaxAccountBatchSize), ("Target", none), ("ContractID", none), ("ChallengeSignature", none)]
theorem tie_limits_Rhp4_RPCReplenishAccountsRequest : limits_Rhp4_RPCReplenishAccountsRequest.map (·.1) = encSchema_Rhp4_RPCReplenishAccountsRequest.labels := rfl
theorem c19_fits_Rhp4_RPCReplenishAccountsRequest (v : Val) (hc : Canon Irregular.env encSchema_Rhp4_RPCReplenishAccountsRequest v)
    (hw : within limits_Rhp4_RPCReplenishAccountsRequest encSchema_Rhp4_RPCReplenishAccountsRequest v = true) :
    (enc Irregular.env encSchema_Rhp4_RPCReplenishAccountsRequest v).length ≤ Framing.rhp4_maxLen_RPCReplenishAccountsRequest :=
  fits_request _ _ _ (by decide +kernel) v hc hw

/-- limits of `rhp4.RPCReplenishAccountsResponse`: one deposit per account -/
def limits_Rhp4_RPCReplenishAccountsResponse : Limits := [("Deposits", some Gen.Framing.rhp4_MaxAccountBatchSize)]
theorem tie_limits_Rhp4_RPCReplenishAccountsResponse : limits_Rhp4_RPCReplenishAccountsResponse.map (·.1) = encSchema_Rhp4_RPCReplenishAccountsResponse.labels := rfl
theorem c19_fits_Rhp4_RPCReplenishAccountsResponse (v : Val) (hc : Canon Irregular.env encSchema_Rhp4_RPCReplenishAccountsResponse v)
    (hw : within limits_Rhp4_RPCReplenishAccountsResponse encSchema_Rhp4_RPCReplenishAccountsResponse v = true) :
    (rhp4WriteResponse Irregular.env encSchema_Rhp4_RPCReplenishAccountsResponse (respObj v)).length ≤ rhp4RespLimit Framing.rhp4_maxLen_RPCReplenishAccountsResponse :=
  fits_response _ _ _ (by decide +kernel) v hc hw

/-- limits of `rhp4.RPCReplenishAccountsSecondResponse`: signature -/
def limits_Rhp4_RPCReplenishAccountsSecondResponse : Limits := [("RenterSignature", none)]
theorem tie_limits_Rhp4_RPCReplenishAccountsSecondResponse : limits_Rhp4_RPCReplenishAccountsSecondResponse.map (·.1) = encSchema_Rhp4_RPCReplenishAccountsSecondResponse.labels := rfl
theorem c19_fits_Rhp4_RPCReplenishAccountsSecondResponse (v : Val) (hc : Canon Irregular.env encSchema_Rhp4_RPCReplenishAccountsSecondResponse v)
    (hw : within limits_Rhp4_RPCReplenishAccountsSecondResponse encSchema_Rhp4_RPCReplenishAccountsSecondResponse v = true) :
    (rhp4WriteResponse Irregular.env encSchema_Rhp4_RPCReplenishAccountsSecondResponse (respObj v)).length ≤ rhp4RespLimit Framing.rhp4_maxLen_RPCReplenishAccountsSecondResponse :=
  fits_response _ _ _ (by decide +kernel) v hc hw

/-- limits of `rhp4.RPCReplenishAccountsThirdResponse`: signature -/
def limits_Rhp4_RPCReplenishAccountsThirdResponse : Limits := [("HostSignature", none)]
theorem tie_limits_Rhp4_RPCReplenishAccountsThirdResponse : limits_Rhp4_RPCReplenishAccountsThirdResponse.map (·.1) = encSchema_Rhp4_RPCReplenishAccountsThirdResponse.labels := rfl
theorem c19_fits_Rhp4_RPCReplenishAccountsThirdResponse (v : Val) (hc : Canon Irregular.env encSchema_Rhp4_RPCReplenishAccountsThirdResponse v)
    (hw : within limits_Rhp4_RPCReplenishAccountsThirdResponse encSchema_Rhp4_RPCReplenishAccountsThirdResponse v = true) :
    (rhp4WriteResponse Irregular.env encSchema_Rhp4_RPCReplenishAccountsThirdResponse (respObj v)).length ≤ rhp4RespLimit Framing.rhp4_maxLen_RPCReplenishAccountsThirdResponse :=
  fits_response _ _ _ (by decide +kernel) v hc hw

/-- limits of `rhp4.RPCAttachPoolsRequest`: Validate: len(Attachments) <= MaxAccountBatchSize -/
def limits_Rhp4_RPCAttachPoolsRequest : Limits := [("Attachments", some Gen.Framing.rhp4_MaxAccountBatchSize)]
theorem tie_limits_Rhp4_RPCAttachPoolsRequest : limits_Rhp4_RPCAttachPoolsRequest.map (·.1) = encSchema_Rhp4_RPCAttachPoolsRequest.labels := rfl
theorem c19_fits_Rhp4_RPCAttachPoolsRequest (v : Val) (hc : Canon Irregular.env encSchema_Rhp4_RPCAttachPoolsRequest v)
    (hw : within limits_Rhp4_RPCAttachPoolsRequest encSchema_Rhp4_RPCAttachPoolsRequest v = true) :
    (enc Irregular.env encSchema_Rhp4_RPCAttachPoolsRequest v).length ≤ Framing.rhp4_maxLen_RPCAttachPoolsRequest :=
  fits_request _ _ _ (by decide +kernel) v hc hw

/-- limits of `rhp4.RPCAttachPoolsResponse`: empty -/
def limits_Rhp4_RPCAttachPoolsResponse : Limits := []
theorem tie_limits_Rhp4_RPCAttachPoolsResponse : limits_Rhp4_RPCAttachPoolsResponse.map (·.1) = encSchema_Rhp4_RPCAttachPoolsResponse.labels := rfl
theorem c19_fits_Rhp4_RPCAttachPoolsResponse (v : Val) (hc : Canon Irregular.env encSchema_Rhp4_RPCAttachPoolsResponse v)
    (hw : within limits_Rhp4_RPCAttachPoolsResponse encSchema_Rhp4_RPCAttachPoolsResponse v = true) :
    (rhp4WriteResponse Irregular.env encSchema_Rhp4_RPCAttachPoolsResponse (respObj v)).length ≤ rhp4RespLimit Framing.rhp4_maxLen_RPCAttachPoolsResponse :=
  fits_response _ _ _ (by decide +kernel) v hc hw

/-- limits of `rhp4.RPCDetachPoolsRequest`: Validate: len(Detachments) <= MaxAccountBatchSize -/
def limits_Rhp4_RPCDetachPoolsRequest : Limits := [("Detachments", some Gen.Framing.rhp4_MaxAccountBatchSize)]
theorem tie_limits_Rhp4_RPCDetachPoolsRequest : limits_Rhp4_RPCDetachPoolsRequest.map (·.1) = encSchema_Rhp4_RPCDetachPoolsRequest.labels := rfl
theorem c19_fits_Rhp4_RPCDetachPoolsRequest (v : Val) (hc : Canon Irregular.env encSchema_Rhp4_RPCDetachPoolsRequest v)
    (hw : within limits_Rhp4_RPCDetachPoolsRequest encSchema_Rhp4_RPCDetachPoolsRequest v = true) :
    (enc Irregular.env encSchema_Rhp4_RPCDetachPoolsRequest v).length ≤ Framing.rhp4_maxLen_RPCDetachPoolsRequest :=
  fits_request _ _ _ (by decide +kernel) v hc hw

/-- limits of `rhp4.RPCDetachPoolsResponse`: empty -/
def limits_Rhp4_RPCDetachPoolsResponse : Limits := []
theorem tie_limits_Rhp4_RPCDetachPoolsResponse : limits_Rhp4_RPCDetachPoolsResponse.map (·.1) = encSchema_Rhp4_RPCDetachPoolsResponse.labels := rfl
theorem c19_fits_Rhp4_RPCDetachPoolsResponse (v : Val) (hc : Canon Irregular.env encSchema_Rhp4_RPCDetachPoolsResponse v)
    (hw : within limits_Rhp4_RPCDetachPoolsResponse encSchema_Rhp4_RPCDetachPoolsResponse v = true) :
    (rhp4WriteResponse Irregular.env encSchema_Rhp4_RPCDetachPoolsResponse (respObj v)).length ≤ rhp4RespLimit Framing.rhp4_maxLen_RPCDetachPoolsResponse :=
  fits_response _ _ _ (by decide +kernel) v hc hw

/-- limits of `gateway.RPCSendHeaders_Request`: fixed size -/
def limits_Gateway_RPCSendHeaders_Request : Limits := [("Index", none), ("Max", none)]
theorem tie_limits_Gateway_RPCSendHeaders_Request : limits_Gateway_RPCSendHeaders_Request.map (·.1) = encSchema_Gateway_RPCSendHeaders_Request.labels := rfl
theorem c19_gateway_fits_RPCSendHeaders_Request (v : Val) (hc : Canon Irregular.env encSchema_Gateway_RPCSendHeaders_Request v)
    (hw : within limits_Gateway_RPCSendHeaders_Request encSchema_Gateway_RPCSendHeaders_Request v = true) :
    (enc Irregular.env encSchema_Gateway_RPCSendHeaders_Request v).length ≤ Framing.gw_maxLen_RPCSendHeaders_Request 0 :=
  fits_request _ _ _ (by decide +kernel) v hc hw

/-- limits of `gateway.RPCRelayV2Header_Request`: fixed size -/
def limits_Gateway_RPCRelayV2Header_Request : Limits := [("Header", none)]
theorem tie_limits_Gateway_RPCRelayV2Header_Request : limits_Gateway_RPCRelayV2Header_Request.map (·.1) = encSchema_Gateway_RPCRelayV2Header_Request.labels := rfl
theorem c19_gateway_fits_RPCRelayV2Header_Request (v : Val) (hc : Canon Irregular.env encSchema_Gateway_RPCRelayV2Header_Request v)
    (hw : within limits_Gateway_RPCRelayV2Header_Request encSchema_Gateway_RPCRelayV2Header_Request v = true) :
    (enc Irregular.env encSchema_Gateway_RPCRelayV2Header_Request v).length ≤ Framing.gw_maxLen_RPCRelayV2Header_Request 0 :=
  fits_request _ _ _ (by decide +kernel) v hc hw

/-- limits of `gateway.RPCSendCheckpoint_Request`: fixed size -/
def limits_Gateway_RPCSendCheckpoint_Request : Limits := [("Index", none)]
theorem tie_limits_Gateway_RPCSendCheckpoint_Request : limits_Gateway_RPCSendCheckpoint_Request.map (·.1) = encSchema_Gateway_RPCSendCheckpoint_Request.labels := rfl
theorem c19_gateway_fits_RPCSendCheckpoint_Request (v : Val) (hc : Canon Irregular.env encSchema_Gateway_RPCSendCheckpoint_Request v)
    (hw : within limits_Gateway_RPCSendCheckpoint_Request encSchema_Gateway_RPCSendCheckpoint_Request v = true) :
    (enc Irregular.env encSchema_Gateway_RPCSendCheckpoint_Request v).length ≤ Framing.gw_maxLen_RPCSendCheckpoint_Request 0 :=
  fits_request _ _ _ (by decide +kernel) v hc hw

/-- limits of `gateway.RPCSendTransactions_Request`: at most 100 hashes (the figure in maxRequestLen) -/
def limits_Gateway_RPCSendTransactions_Request : Limits := [("Index", none), ("Hashes", some 100)]
theorem tie_limits_Gateway_RPCSendTransactions_Request : limits_Gateway_RPCSendTransactions_Request.map (·.1) = encSchema_Gateway_RPCSendTransactions_Request.labels := rfl
theorem c19_gateway_fits_RPCSendTransactions_Request (v : Val) (hc : Canon Irregular.env encSchema_Gateway_RPCSendTransactions_Request v)
    (hw : within limits_Gateway_RPCSendTransactions_Request encSchema_Gateway_RPCSendTransactions_Request v = true) :
    (enc Irregular.env encSchema_Gateway_RPCSendTransactions_Request v).length ≤ Framing.gw_maxLen_RPCSendTransactions_Request 0 :=
  fits_request _ _ _ (by decide +kernel) v hc hw

/-- limits of `gateway.RPCSendV2Blocks_Request`: at most 32 history ids (the figure in maxRequestLen) -/
def limits_Gateway_RPCSendV2Blocks_Request : Limits := [("History", some 32), ("Max", none)]
theorem tie_limits_Gateway_RPCSendV2Blocks_Request : limits_Gateway_RPCSendV2Blocks_Request.map (·.1) = encSchema_Gateway_RPCSendV2Blocks_Request.labels := rfl
theorem c19_gateway_fits_RPCSendV2Blocks_Request (v : Val) (hc : Canon Irregular.env encSchema_Gateway_RPCSendV2Blocks_Request v)
    (hw : within limits_Gateway_RPCSendV2Blocks_Request encSchema_Gateway_RPCSendV2Blocks_Request v = true) :
    (enc Irregular.env encSchema_Gateway_RPCSendV2Blocks_Request v).length ≤ Framing.gw_maxLen_RPCSendV2Blocks_Request 0 :=
  fits_request _ _ _ (by decide +kernel) v hc hw

/-- limits of `gateway.RPCDiscoverIP_Response`: an address of at most 120 bytes -/
def limits_Gateway_RPCDiscoverIP_Response : Limits := [("IP", some 120)]
theorem tie_limits_Gateway_RPCDiscoverIP_Response : limits_Gateway_RPCDiscoverIP_Response.map (·.1) = encSchema_Gateway_RPCDiscoverIP_Response.labels := rfl
theorem c19_gateway_fits_RPCDiscoverIP_Response (v : Val) (hc : Canon Irregular.env encSchema_Gateway_RPCDiscoverIP_Response v)
    (hw : within limits_Gateway_RPCDiscoverIP_Response encSchema_Gateway_RPCDiscoverIP_Response v = true) :
    (enc Irregular.env encSchema_Gateway_RPCDiscoverIP_Response v).length ≤ Framing.gw_maxLen_RPCDiscoverIP_Response 0 :=
  fits_request _ _ _ (by decide +kernel) v hc hw

end C19
