import SiaModel.Gen.CodeConsensus
import SiaProofs.Props.C15
import SiaProofs.Lemmas.GoLoops
/-!
# C01 — "miner fees reappear exactly in the miner payout", on REGENERATED code

`Gen.Consensus.validateMinerPayouts` is `consensus.validateMinerPayouts` translated statement by statement on every
run, its four `for … range` loops included (`Go.forRange`).  The theorem: whenever it accepts a block, the miner
payouts add up — as integers, no wrap-around anywhere — to the block reward plus every v1 miner fee plus every v2
miner fee; every payout and every v1 fee is non-zero; a v2 block has exactly one payout.
-/
namespace C01
open Gen.Types Gen.Consensus C15 GoLoops

/-- all v1 miner fees of a block, as an integer -/
def v1Fees (b : Block) : Nat := (b.Transactions.map (fun t => (t.MinerFees.map val).sum)).sum
/-- all v2 miner fees of a block, as an integer -/
def v2Fees (b : Block) : Nat :=
  match b.V2 with
  | some d => (d.Transactions.map (fun t => val t.MinerFee)).sum
  | none => 0
/-- the miner payouts of a block, as an integer -/
def payoutSum (b : Block) : Nat := (b.MinerPayouts.map (fun o => val o.Value)).sum

/-- every currency the payout rule reads is a genuine pair of 64-bit words -/
structure BlockCurWF (b : Block) : Prop where
  fees : ∀ t ∈ b.Transactions, ∀ f ∈ t.MinerFees, WF f
  v2fees : ∀ d, b.V2 = some d → ∀ t ∈ d.Transactions, WF t.MinerFee
  payouts : ∀ o ∈ b.MinerPayouts, WF o.Value

theorem isZero_false_val {c : Currency} (h : c.IsZero = false) (hc : WF c) : val c ≠ 0 := by
  unfold Currency.IsZero ZeroCurrency at h
  simp at h
  unfold val
  intro hv
  apply h
  have h1 : c.Hi = 0 := by omega
  have h2 : c.Lo = 0 := by omega
  cases c with
  | mk lo hi => simp at h1 h2; subst h1; subst h2; rfl

/-- one exact addition step -/
theorem add_step {a f : Currency} (ha : WF a) (hf : WF f) (h : (a.AddWithOverflow f).2 = false) :
    WF (a.AddWithOverflow f).1 ∧ val (a.AddWithOverflow f).1 = val a + val f := by
  obtain ⟨w, v, o⟩ := c15_add a f ha hf
  have : ¬ W2 ≤ val a + val f := fun hh => by rw [o.mpr hh] at h; cases h
  refine ⟨w, ?_⟩
  rw [v]; exact Nat.mod_eq_of_lt (by omega)

/-- relation of one iteration of the fee loops and of the payout loop -/
def FeeStep (fee : Currency) (st st' : Currency × Bool) : Prop :=
  fee.IsZero = false ∧ (st.1.AddWithOverflow fee).2 = false ∧ st' = ((st.1.AddWithOverflow fee).1, (st.1.AddWithOverflow fee).2)
def V2Step (t : V2Transaction) (st st' : Currency × Bool) : Prop :=
  (st.1.AddWithOverflow t.MinerFee).2 = false ∧ st' = ((st.1.AddWithOverflow t.MinerFee).1, (st.1.AddWithOverflow t.MinerFee).2)
def PayStep (o : SiacoinOutput) (st st' : Bool × Currency) : Prop :=
  o.Value.IsZero = false ∧ (st.2.AddWithOverflow o.Value).2 = false ∧ st' = ((st.2.AddWithOverflow o.Value).2, (st.2.AddWithOverflow o.Value).1)

theorem feeChain_sum (fees : List Currency) (st st' : Currency × Bool) (h : Chain FeeStep fees st st')
    (hw : ∀ f ∈ fees, WF f) (ha : WF st.1) :
    WF st'.1 ∧ val st'.1 = val st.1 + (fees.map val).sum :=
  Chain.sum (m := fun st => val st.1) (I := fun st => WF st.1) (ok := WF)
    (fun x st st' r okx hi => by
      obtain ⟨_, h2, h3⟩ := r
      subst h3
      exact add_step hi okx h2) fees st st' h hw ha

theorem txnChain_sum (txns : List Transaction) (st st' : Currency × Bool)
    (h : Chain (fun t st st' => Chain FeeStep t.MinerFees st st') txns st st')
    (hw : ∀ t ∈ txns, ∀ f ∈ t.MinerFees, WF f) (ha : WF st.1) :
    WF st'.1 ∧ val st'.1 = val st.1 + (txns.map (fun t => (t.MinerFees.map val).sum)).sum :=
  Chain.sum (m := fun st => val st.1) (I := fun st => WF st.1) (ok := fun t => ∀ f ∈ t.MinerFees, WF f)
    (fun t st st' r okt hi => feeChain_sum t.MinerFees st st' r okt hi) txns st st' h hw ha

theorem v2Chain_sum (txns : List V2Transaction) (st st' : Currency × Bool) (h : Chain V2Step txns st st')
    (hw : ∀ t ∈ txns, WF t.MinerFee) (ha : WF st.1) :
    WF st'.1 ∧ val st'.1 = val st.1 + (txns.map (fun t => val t.MinerFee)).sum :=
  Chain.sum (m := fun st => val st.1) (I := fun st => WF st.1) (ok := fun t => WF t.MinerFee)
    (fun x st st' r okx hi => by
      obtain ⟨h2, h3⟩ := r
      subst h3
      exact add_step hi okx h2) txns st st' h hw ha

theorem payChain_sum (outs : List SiacoinOutput) (st st' : Bool × Currency) (h : Chain PayStep outs st st')
    (hw : ∀ o ∈ outs, WF o.Value) (ha : WF st.2) :
    WF st'.2 ∧ val st'.2 = val st.2 + (outs.map (fun o => val o.Value)).sum :=
  Chain.sum (m := fun st => val st.2) (I := fun st => WF st.2) (ok := fun o => WF o.Value)
    (fun x st st' r okx hi => by
      obtain ⟨_, h2, h3⟩ := r
      subst h3
      exact add_step hi okx h2) outs st st' h hw ha

/-- the payout loop, as it appears (twice) in the regenerated function -/
theorem payLoop (outs : List SiacoinOutput) (o0 : Bool) (r : Option (Option String)) (st' : Bool × Currency)
    (h : Go.forRange outs (o0, ({} : Currency)) (fun (_ : Int) (mp : SiacoinOutput) (st_ : Bool × Currency) =>
        if mp.Value.IsZero = true then (pure (some (some "miner payout has zero value"), st_.fst, st_.snd) : Except String _)
        else if (st_.snd.AddWithOverflow mp.Value).snd = true then
          pure (some (some "miner payouts overflow"), (st_.snd.AddWithOverflow mp.Value).snd, (st_.snd.AddWithOverflow mp.Value).fst)
        else pure (none, (st_.snd.AddWithOverflow mp.Value).snd, (st_.snd.AddWithOverflow mp.Value).fst)) = .ok (r, st')) :
    (r = none → Chain PayStep outs (o0, {}) st') ∧ r ≠ some none := by
  constructor
  · intro hr; subst hr
    refine forRange_none (R := PayStep) ?_ outs _ _ h
    intro i x st st1 hx
    by_cases z : x.Value.IsZero = true
    · simp [z, pure, Except.pure] at hx
    · by_cases o : (st.snd.AddWithOverflow x.Value).snd = true
      · simp [z, o, pure, Except.pure] at hx
      · simp [z, o, pure, Except.pure] at hx
        have o' : (st.snd.AddWithOverflow x.Value).snd = false := by simpa using o
        refine ⟨by simpa using z, o', ?_⟩
        rw [← hx, o']
  · intro hr; subst hr
    have := forRange_some (P := fun r => r ≠ (none : Option String)) ?_ outs _ _ _ h
    · exact this rfl
    intro i x st r st1 hx
    by_cases z : x.Value.IsZero = true
    · simp [z, pure, Except.pure] at hx; rw [← hx.1]; simp
    · by_cases o : (st.snd.AddWithOverflow x.Value).snd = true
      · simp [z, o, pure, Except.pure] at hx; rw [← hx.1]; simp
      · simp [z, o, pure, Except.pure] at hx

/-- the v2 fee loop of the regenerated function -/
theorem v2Loop (txns : List V2Transaction) (st0 : Currency × Bool) (r : Option (Option String)) (st' : Currency × Bool)
    (h : Go.forRange txns st0 (fun (_ : Int) (txn : V2Transaction) (st_ : Currency × Bool) =>
        if (st_.fst.AddWithOverflow txn.MinerFee).snd = true then
          (pure (some (some "v2 transaction fees overflow"), (st_.fst.AddWithOverflow txn.MinerFee).fst, (st_.fst.AddWithOverflow txn.MinerFee).snd) : Except String _)
        else pure (none, (st_.fst.AddWithOverflow txn.MinerFee).fst, (st_.fst.AddWithOverflow txn.MinerFee).snd)) = .ok (r, st')) :
    (r = none → Chain V2Step txns st0 st') ∧ r ≠ some none := by
  constructor
  · intro hr; subst hr
    refine forRange_none (R := V2Step) ?_ txns _ _ h
    intro i x st st1 hx
    by_cases o : (st.fst.AddWithOverflow x.MinerFee).snd = true
    · simp [o, pure, Except.pure] at hx
    · have o' : (st.fst.AddWithOverflow x.MinerFee).snd = false := by simpa using o
      simp [o, pure, Except.pure] at hx
      refine ⟨o', ?_⟩
      rw [← hx, o']
  · intro hr; subst hr
    have := forRange_some (P := fun r => r ≠ (none : Option String)) ?_ txns _ _ _ h
    · exact this rfl
    intro i x st r st1 hx
    by_cases o : (st.fst.AddWithOverflow x.MinerFee).snd = true
    · simp [o, pure, Except.pure] at hx; rw [← hx.1]; simp
    · simp [o, pure, Except.pure] at hx

/-- the inner v1 fee loop -/
theorem feeLoop (fees : List Currency) (st0 : Currency × Bool) (r : Option (Option String)) (st' : Currency × Bool)
    (h : Go.forRange fees st0 (fun (_ : Int) (fee : Currency) (st_ : Currency × Bool) =>
        if fee.IsZero = true then (pure (some (some "transaction fee has zero value"), st_.fst, st_.snd) : Except String _)
        else if (st_.fst.AddWithOverflow fee).snd = true then
          pure (some (some "transaction fees overflow"), (st_.fst.AddWithOverflow fee).fst, (st_.fst.AddWithOverflow fee).snd)
        else pure (none, (st_.fst.AddWithOverflow fee).fst, (st_.fst.AddWithOverflow fee).snd)) = .ok (r, st')) :
    (r = none → Chain FeeStep fees st0 st') ∧ r ≠ some none := by
  constructor
  · intro hr; subst hr
    refine forRange_none (R := FeeStep) ?_ fees _ _ h
    intro i x st st1 hx
    by_cases z : x.IsZero = true
    · simp [z, pure, Except.pure] at hx
    · by_cases o : (st.fst.AddWithOverflow x).snd = true
      · simp [z, o, pure, Except.pure] at hx
      · have o' : (st.fst.AddWithOverflow x).snd = false := by simpa using o
        simp [z, o, pure, Except.pure] at hx
        refine ⟨by simpa using z, o', ?_⟩
        rw [← hx, o']
  · intro hr; subst hr
    have := forRange_some (P := fun r => r ≠ (none : Option String)) ?_ fees _ _ _ h
    · exact this rfl
    intro i x st r st1 hx
    by_cases z : x.IsZero = true
    · simp [z, pure, Except.pure] at hx; rw [← hx.1]; simp
    · by_cases o : (st.fst.AddWithOverflow x).snd = true
      · simp [z, o, pure, Except.pure] at hx; rw [← hx.1]; simp
      · simp [z, o, pure, Except.pure] at hx

theorem val_lt_of_WF {c : Currency} (h : WF c) : val c < W2 := by
  unfold val; obtain ⟨a, b⟩ := h; omega

theorem val_zero : val ({} : Currency) = 0 := by decide

theorem WF_zero : WF ({} : Currency) := ⟨by decide, by decide⟩

/-- what an accepted payout loop means -/
theorem pay_facts (b : Block) (hb : BlockCurWF b) (o0 : Bool) (st' : Bool × Currency)
    (c : Chain PayStep b.MinerPayouts (o0, {}) st') :
    WF st'.2 ∧ val st'.2 = payoutSum b ∧ ∀ o ∈ b.MinerPayouts, val o.Value ≠ 0 := by
  obtain ⟨w, v⟩ := payChain_sum b.MinerPayouts (o0, {}) st' c hb.payouts WF_zero
  refine ⟨w, ?_, ?_⟩
  · rw [v]; simp [val_zero, payoutSum]
  · intro o ho
    have z := Chain.all (Q := fun o : SiacoinOutput => o.Value.IsZero = false) (fun x st st' r => r.1) _ _ _ c o ho
    exact isZero_false_val z (hb.payouts o ho)

/--
**Miner fees reappear exactly in the miner payout** — about `consensus.validateMinerPayouts` as regenerated from
the source: if it accepts block `b` on state `s`, then (the scheduled reward being a genuine 128-bit value) the
payouts sum, as integers, to reward + all v1 fees + all v2 fees, nothing wrapped, no payout and no v1 fee is zero,
and a block carrying v2 data has exactly one payout.
-/
theorem c01_miner_payouts_gen (s : State) (b : Block) (hb : BlockCurWF b)
    (h : validateMinerPayouts s b = .ok none) :
    ∃ reward, State.BlockReward s = .ok reward ∧
      (WF reward →
        payoutSum b = val reward + v1Fees b + v2Fees b ∧ payoutSum b < W2 ∧
        (∀ o ∈ b.MinerPayouts, val o.Value ≠ 0) ∧
        (∀ t ∈ b.Transactions, ∀ f ∈ t.MinerFees, val f ≠ 0) ∧
        (b.V2 ≠ none → b.MinerPayouts.length = 1)) := by
  unfold validateMinerPayouts at h
  cases hr : State.BlockReward s with
  | error e => simp [hr, bind, Except.bind] at h
  | ok reward =>
    refine ⟨reward, rfl, fun hw => ?_⟩
    simp only [hr, bind, Except.bind] at h
    split at h
    · cases h
    · rename_i v1 heq1
      obtain ⟨r1, st1⟩ := v1
      cases r1 with
      | some q =>
        simp [pure, Except.pure] at h
        subst h
        have := forRange_some (P := fun r => r ≠ (none : Option String)) ?_ b.Transactions _ _ _ heq1
        · exact absurd rfl this
        intro i x st r st1 hx
        split at hx
        · cases hx
        · rename_i v hv
          obtain ⟨rv, stv⟩ := v
          cases rv with
          | some q =>
            simp [pure, Except.pure] at hx
            have := (feeLoop x.MinerFees (st.fst, st.snd) (some q) stv hv).2
            rw [← hx.1]
            intro hq; subst hq; exact this rfl
          | none => simp [pure, Except.pure] at hx
      | none =>
        have c1 : Chain (fun t st st' => Chain FeeStep t.MinerFees st st') b.Transactions (reward, false) st1 := by
          refine forRange_none (R := fun t st st' => Chain FeeStep t.MinerFees st st') ?_ b.Transactions _ _ heq1
          intro i x st st1 hx
          split at hx
          · cases hx
          · rename_i v hv
            obtain ⟨rv, stv⟩ := v
            cases rv with
            | some q => simp [pure, Except.pure] at hx
            | none =>
              simp [pure, Except.pure] at hx
              have := (feeLoop x.MinerFees (st.fst, st.snd) none stv hv).1 rfl
              rw [← hx]
              exact this
        obtain ⟨w1, s1⟩ := txnChain_sum b.Transactions (reward, false) st1 c1 hb.fees hw
        have feesNZ : ∀ t ∈ b.Transactions, ∀ f ∈ t.MinerFees, val f ≠ 0 := by
          intro t ht f hf
          have inner : ∃ st st', Chain FeeStep t.MinerFees st st' :=
            Chain.all (Q := fun t : Transaction => ∃ st st', Chain FeeStep t.MinerFees st st')
              (fun _ st st' r => ⟨st, st', r⟩) _ _ _ c1 t ht
          obtain ⟨sa, sb, cf⟩ := inner
          have z := Chain.all (Q := fun f : Currency => f.IsZero = false) (fun x st st' r => r.1) _ _ _ cf f hf
          exact isZero_false_val z (hb.fees t ht f hf)
        simp only [] at h
        cases hv2 : b.V2 with
        | none =>
          simp [hv2] at h
          split at h
          · cases h
          · rename_i v3 heq3
            obtain ⟨r3, st3⟩ := v3
            obtain ⟨T3, T3n⟩ := payLoop b.MinerPayouts st1.2 r3 st3 heq3
            cases r3 with
            | some q => simp [pure, Except.pure] at h; subst h; exact absurd rfl T3n
            | none =>
              obtain ⟨w3, s3, nz⟩ := pay_facts b hb st1.2 st3 (T3 rfl)
              by_cases hne : st3.2 ≠ st1.1
              · simp [hne, pure, Except.pure] at h
              · have heq : st3.2 = st1.1 := Classical.not_not.mp hne
                have : payoutSum b = val reward + v1Fees b := by
                  rw [← s3, heq, s1]; rfl
                refine ⟨by simp [v2Fees, hv2, this], ?_, nz, feesNZ, fun hh => absurd rfl hh⟩
                rw [← s3]; exact val_lt_of_WF w3
        | some d =>
          simp [hv2, Go.deref] at h
          split at h
          · cases h
          · rename_i v2 heq2
            obtain ⟨r2, st2⟩ := v2
            obtain ⟨T2, T2n⟩ := v2Loop d.Transactions (st1.1, st1.2) r2 st2 heq2
            cases r2 with
            | some q => simp [pure, Except.pure] at h; subst h; exact absurd rfl T2n
            | none =>
              obtain ⟨w2, s2⟩ := v2Chain_sum d.Transactions (st1.1, st1.2) st2 (T2 rfl) (hb.v2fees d hv2) w1
              simp only [] at h
              by_cases hlen : (b.MinerPayouts.length : Int) = 1
              case neg => simp [hlen, pure, Except.pure] at h
              · simp only [hlen, if_true] at h
                split at h
                · cases h
                · rename_i v3 heq3
                  obtain ⟨r3, st3⟩ := v3
                  obtain ⟨T3, T3n⟩ := payLoop b.MinerPayouts st2.2 r3 st3 heq3
                  cases r3 with
                  | some q => simp [pure, Except.pure] at h; subst h; exact absurd rfl T3n
                  | none =>
                    obtain ⟨w3, s3, nz⟩ := pay_facts b hb st2.2 st3 (T3 rfl)
                    by_cases hne : st3.2 ≠ st2.1
                    · simp [hne, pure, Except.pure] at h
                    · have heq : st3.2 = st2.1 := Classical.not_not.mp hne
                      have : payoutSum b = val reward + v1Fees b + v2Fees b := by
                        rw [← s3, heq, s2]
                        show val st1.1 + _ = _
                        rw [s1]; simp [v2Fees, hv2, v1Fees]
                      refine ⟨this, ?_, nz, feesNZ, fun _ => ?_⟩
                      · rw [← s3]; exact val_lt_of_WF w3
                      · omega

/-! ### non-vacuity: the regenerated rule accepts and rejects concrete blocks (reward 0 on the default network) -/

def sampleBlock : Block :=
  { MinerPayouts := [{ Value := { Lo := 7 } }],
    Transactions := [{ MinerFees := [{ Lo := 5 }] }, { MinerFees := [{ Lo := 1 }, { Lo := 1 }] }] }

example : validateMinerPayouts {} sampleBlock = .ok none := by rfl
example : validateMinerPayouts {} { sampleBlock with MinerPayouts := [{ Value := { Lo := 8 } }] }
    = .ok (some "miner payout sum (%v) does not match block reward + fees (%v)") := by rfl
example : validateMinerPayouts {} { sampleBlock with V2 := some { Transactions := [{ MinerFee := { Lo := 2 } }] },
                                                      MinerPayouts := [{ Value := { Lo := 9 } }] } = .ok none := by rfl
example : validateMinerPayouts {} { sampleBlock with V2 := some {}, MinerPayouts := [{ Value := { Lo := 3 } }, { Value := { Lo := 4 } }] }
    = .ok (some "block must have exactly one miner payout") := by rfl
example : BlockCurWF sampleBlock := by
  refine ⟨?_, ?_, ?_⟩
  · intro t ht f hf
    simp [sampleBlock] at ht
    rcases ht with rfl | rfl <;> simp at hf
    · subst hf; exact ⟨by decide, by decide⟩
    · rcases hf with rfl | rfl <;> exact ⟨by decide, by decide⟩
  · intro d hd; simp [sampleBlock] at hd
  · intro o ho; simp [sampleBlock] at ho; subst ho; exact ⟨by decide, by decide⟩

end C01
