import SiaProofs.Props.C11
import SiaModel.Codec.Irregular
import SiaModel.Gen.FactsSchema
/-!
# C10 (decode half) — decoding untrusted bytes is total

`decG` is a total Lean function (structural recursion: termination — "no loop" — is
checked by the kernel). Go panics are values: the only source of `DecErr.panic` in
the model is an allocation sized by an unchecked length prefix (`ubytes`, `uslice`:
`make([]T, d.ReadUint64())`), which panics in `makeslice` above the runtime limit
`E.lim`. `Sch.guarded` says a schema contains no such construct.
-/
namespace C10D
open Sia.Codec

/-- **c10_decode_total**: for every guarded schema and every byte string the decoder
returns a value or an ordinary error, never `panic`. -/
theorem c10_decode_total {E : Env} (hE : EnvOK E) (st : Bool) (k : Nat) (s : Sch)
    (hg : s.guarded E = true) (bs : Bytes) : decG E st k s bs ≠ .error .panic := by
  induction s generalizing bs with
  | atom a => exact (atom_ok E.lim a).no_panic hg st k bs
  | nil => simp [decG]
  | cons l s r ihs ihr =>
    simp only [Sch.guarded, Bool.and_eq_true] at hg
    simp only [decG]
    split
    · rename_i a bs1 h1
      split
      · simp
      · rename_i e h2; intro h; injection h with h; subst h; exact ihr hg.2 _ h2
    · rename_i e h1; intro h; injection h with h; subst h; exact ihs hg.1 _ h1
  | slice s ih =>
    simp only [Sch.guarded] at hg
    simp only [decG]
    split
    · split
      · simp
      · simp only [okList]
        split
        · simp
        · rename_i e h2; intro h; injection h with h; subst h
          obtain ⟨bs', hb⟩ := decRep_error h2
          exact ih hg _ hb
    · rename_i e h1; have := (readU64_error h1).1; subst this; simp
  | opt s ih =>
    simp only [Sch.guarded] at hg
    simp only [decG]
    split
    · split
      · simp
      · split
        · split
          · simp
          · rename_i e h2; intro h; injection h with h; subst h; exact ih hg _ h2
        · simp
    · rename_i e h1; have := (takeN_error h1).1; subst this; simp
  | uslice s _ => simp [Sch.guarded] at hg
  | aslice s ih =>
    simp only [Sch.guarded] at hg
    simp only [decG]
    split
    · simp only [okList]
      split
      · simp
      · rename_i e h2; intro h; injection h with h; subst h
        obtain ⟨bs', hb⟩ := decRep_error h2
        exact ih hg _ hb
    · rename_i e h1; have := (readU64_error h1).1; subst this; simp
  | ext n => exact (hE n).no_panic hg st k bs

/-- the guard is necessary: the unguarded `make([]byte, n)` of rhp/v2 `RPCReadResponse`
(`ubytes`) panics on a 8-byte input announcing more than the runtime limit. -/
theorem c10_unguarded_panics (E : Env) (k : Nat) (n : Nat) (hn : E.lim < n) (hn2 : n < W64) :
    dec E k .ubytes (u64le n) = .error .panic := by
  simp only [dec, decG, Atom.codec]
  have := readU64_append hn2 []
  rw [List.append_nil] at this
  rw [this]
  simp [hn]

example : Sch.guarded Env.default C11.exS = true := by decide
example : dec Env.default 0 C11.exS [1, 2, 255,255,255,255,255,255,255,255] = .error .invalid := rfl

/-- history: the decoder BEFORE fix 3d18561 (`make([]byte, dataLen)` from the wire) panics on a
16-byte input — `c10_decode_total` could not hold for it. -/
theorem c10_rhp2_readresponse_old_panics :
    Sch.guarded Env.default Irregular.rhp2ReadResponseOld = false ∧
    dec Env.default 0 Irregular.rhp2ReadResponseOld
      [0,0,0,0,0,0,0,0, 0,0,0,0,0,0,0,128] = .error .panic := ⟨by decide, rfl⟩

/-- history: the decoder BEFORE fix 1d18dfd (`make([]Instruction, n)` from the wire) panics on
a 40-byte input. -/
theorem c10_rhp3_executeprogram_old_panics :
    Sch.guarded Env.default Irregular.rhp3ExecuteProgramRequestOld = false ∧
    dec Env.default 0 Irregular.rhp3ExecuteProgramRequestOld
      (List.replicate 32 0 ++ [0,0,0,0,0,0,0,16]) = .error .panic := ⟨by decide, rfl⟩

/-- the guard the model's `bytes`/`slice` assume (`n > remaining allowance → error`) is the
one the shared helpers `ReadBytes`, `DecodeSlice`, `DecodeSliceFn` have in the code now
(`d.lr.N` is what the limited reader still allows = `bs.length + slack` in the model) -/
theorem tie_prefix_guards : Gen.prefixGuards = [
    ("Decoder.ReadBytes", "n > uint64(d.lr.N)"),
    ("DecodeSlice", "n > uint64(d.lr.N)"),
    ("DecodeSliceFn", "n > uint64(d.lr.N)")] := rfl

/-- every `make` with a run-time length inside a decoder body, reviewed: the outline's are
sums of lengths of slices already decoded under the guard; the policy's is a `uint8`
(≤ 255 per node, depth ≤ 32); the multiproof's are ≤ 63 per element and
`multiproofSize` of the decoded transactions. In particular the three rhp decoders fixed
in 3d18561 / 1d18dfd (`RPCReadResponse`, `RPCExecuteProgramRequest/Response`) no longer
allocate from a wire length: a regression re-appears in this list. -/
theorem tie_decoder_makes : Gen.decoderMakes = [
    ("Gateway_V2BlockOutline", "make([]uint8, len(txns)+len(v2txns)+len(hashes))"),
    ("Gateway_V2BlockOutline", "make([]OutlineTransaction, len(kinds))"),
    ("Types_SpendPolicy", "make([]SpendPolicy, d.ReadUint8())"),
    ("Types_V2TransactionsMultiproof", "make([]Hash256, bits.Len64(l.LeafIndex^numLeaves)-1)"),
    ("Types_V2TransactionsMultiproof", "make([]Hash256, multiproofSize(*txns))")] := rfl

/-! ### allocation -/

theorem allocRep_bounds {f : Bytes → DecRes} {g : Bytes → Nat} {d k : Nat}
    (hok : ∀ bs v r, f bs = .ok (v, r) → ∃ cs, bs = cs ++ r ∧ 1 ≤ cs.length ∧ g bs ≤ d * cs.length)
    (herr : ∀ bs, g bs ≤ d * (bs.length + k)) (n : Nat) (bs : Bytes) :
    allocRep f g n bs ≤ (d + 1) * (bs.length + k) ∧
    (∀ vs rest, decRep f n bs = .ok (vs, rest) →
      ∃ cs, bs = cs ++ rest ∧ allocRep f g n bs ≤ (d + 1) * cs.length) := by
  induction n generalizing bs with
  | zero =>
    refine ⟨by simp [allocRep], ?_⟩
    intro vs rest h
    simp only [decRep] at h
    injection h with h; injection h with e1 e2; subst e2
    exact ⟨[], rfl, by simp [allocRep]⟩
  | succ n ih =>
    simp only [allocRep, decRep]
    split
    · rename_i v bs1 h1
      obtain ⟨c1, hb1, hl1, hg1⟩ := hok _ _ _ h1
      obtain ⟨ihA, ihB⟩ := ih bs1
      constructor
      · -- any outcome
        have e1 : bs.length = c1.length + bs1.length := by rw [hb1]; simp
        rw [e1]
        have : (d + 1) * (c1.length + bs1.length + k) = d * c1.length + c1.length + (d + 1) * (bs1.length + k) := by
          rw [show c1.length + bs1.length + k = c1.length + (bs1.length + k) by omega, Nat.mul_add, Nat.add_mul, Nat.one_mul]
        omega
      · intro vs rest h
        split at h
        · rename_i vs' bs2 h2
          injection h with h; injection h with e1 e2; subst e2
          obtain ⟨c2, hb2, ha2⟩ := ihB _ _ h2
          refine ⟨c1 ++ c2, by rw [hb1, hb2]; simp, ?_⟩
          have : (d + 1) * (c1 ++ c2).length = d * c1.length + c1.length + (d + 1) * c2.length := by
            rw [List.length_append, Nat.mul_add, Nat.add_mul, Nat.one_mul]
          omega
        · cases h
    · constructor
      · have := herr bs
        have h2 : d * (bs.length + k) ≤ (d + 1) * (bs.length + k) := Nat.mul_le_mul_right _ (by omega)
        omega
      · intro vs rest h; cases h

/-- allocation of a guarded, well-formed schema: bounded by `depth × consumed` on
success, and by `depth × (input + slack)` whatever the outcome -/
theorem alloc_bounds {E : Env} (hE : EnvOK E) (k : Nat) (s : Sch)
    (hwf : s.wf E = true) (hg : s.guarded E = true) (bs : Bytes) :
    allocOf E k s bs ≤ s.depth E * (bs.length + k) ∧
    (∀ v rest, dec E k s bs = .ok (v, rest) →
      ∃ cs, bs = cs ++ rest ∧ s.minLen E ≤ cs.length ∧ allocOf E k s bs ≤ s.depth E * cs.length) := by
  induction s generalizing bs with
  | atom a =>
    have ok := atom_ok E.lim a
    refine ⟨ok.alloc_err hg k bs, ?_⟩
    intro v rest h
    obtain ⟨_, cs, hb, hm⟩ := ok.dec_sound false k bs v rest h
    have := ok.alloc_ok hg k bs v rest h
    refine ⟨cs, hb, hm, ?_⟩
    simp only [allocOf, Sch.depth]
    rw [hb, List.length_append, Nat.mul_add] at this
    rw [hb]; omega
  | nil =>
    refine ⟨by simp [allocOf], ?_⟩
    intro v rest h
    simp only [dec, decG] at h
    injection h with h; injection h with e1 e2; subst e2
    exact ⟨[], rfl, by simp [Sch.minLen], by simp [allocOf]⟩
  | cons l s r ihs ihr =>
    simp only [Sch.wf, Bool.and_eq_true] at hwf
    simp only [Sch.guarded, Bool.and_eq_true] at hg
    obtain ⟨sA, sB⟩ := ihs hwf.1 hg.1 bs
    have hd1 : s.depth E ≤ max (s.depth E) (r.depth E) := Nat.le_max_left _ _
    have hd2 : r.depth E ≤ max (s.depth E) (r.depth E) := Nat.le_max_right _ _
    simp only [allocOf, Sch.depth, dec, decG]
    split
    · rename_i a bs1 h1
      obtain ⟨c1, hb1, hm1, ha1⟩ := sB _ _ h1
      obtain ⟨rA, rB⟩ := ihr hwf.2 hg.2 bs1
      have e1 : bs.length = c1.length + bs1.length := by rw [hb1]; simp
      have m1 := Nat.mul_le_mul_right c1.length hd1
      constructor
      · have m2 := Nat.mul_le_mul_right (bs1.length + k) hd2
        rw [e1, show c1.length + bs1.length + k = c1.length + (bs1.length + k) by omega, Nat.mul_add]
        omega
      · intro v rest h
        split at h
        · rename_i b bs2 h2
          injection h with h; injection h with e1 e2; subst e2
          obtain ⟨c2, hb2, hm2, ha2⟩ := rB _ _ h2
          have m2 := Nat.mul_le_mul_right c2.length hd2
          refine ⟨c1 ++ c2, by rw [hb1, hb2]; simp, by simp [Sch.minLen]; omega, ?_⟩
          rw [List.length_append, Nat.mul_add]; omega
        · cases h
    · constructor
      · have m1 := Nat.mul_le_mul_right (bs.length + k) hd1
        omega
      · intro v rest h; cases h
  | slice s ih =>
    simp only [Sch.wf, Bool.and_eq_true, decide_eq_true_eq] at hwf
    simp only [Sch.guarded] at hg
    have hok : ∀ bs v r, decG E false k s bs = .ok (v, r) →
        ∃ cs, bs = cs ++ r ∧ 1 ≤ cs.length ∧ allocOf E k s bs ≤ s.depth E * cs.length := by
      intro bs v r h
      obtain ⟨cs, hb, hm, ha⟩ := (ih hwf.1 hg bs).2 v r h
      exact ⟨cs, hb, by omega, ha⟩
    have herr : ∀ bs, allocOf E k s bs ≤ s.depth E * (bs.length + k) := fun bs => (ih hwf.1 hg bs).1
    simp only [allocOf, Sch.depth, dec, decG]
    split
    · rename_i n r1 h1
      obtain ⟨hb, hn⟩ := readU64_ok h1
      have e1 : bs.length = 8 + r1.length := by rw [hb]; simp [u64le_length]
      split
      · refine ⟨by omega, ?_⟩
        intro v rest h; cases h
      · obtain ⟨rA, rB⟩ := allocRep_bounds (k := k) hok herr n r1
        constructor
        · have : (s.depth E + 1) * (r1.length + k) ≤ (s.depth E + 1) * (bs.length + k) :=
            Nat.mul_le_mul_left _ (by omega)
          omega
        · intro v rest h
          simp only [okList] at h
          split at h
          · rename_i vs r2 h2
            injection h with h; injection h with e1 e2; subst e2
            obtain ⟨cs, hcs, ha⟩ := rB _ _ h2
            refine ⟨u64le n ++ cs, by rw [hb, hcs]; simp, by simp [Sch.minLen, u64le_length], ?_⟩
            have : (s.depth E + 1) * cs.length ≤ (s.depth E + 1) * (u64le n ++ cs).length :=
              Nat.mul_le_mul_left _ (by simp)
            omega
          · cases h
    · refine ⟨by omega, ?_⟩
      intro v rest h; cases h
  | opt s ih =>
    simp only [Sch.wf] at hwf
    simp only [Sch.guarded] at hg
    simp only [allocOf, Sch.depth, dec, decG]
    split
    · rename_i a r1 h1
      obtain ⟨hb, hl⟩ := takeN_ok h1
      have e1 : bs.length = 1 + r1.length := by rw [hb]; simp [hl]
      obtain ⟨sA, sB⟩ := ih hwf hg r1
      constructor
      · split
        · have : s.depth E * (r1.length + k) ≤ s.depth E * (bs.length + k) := Nat.mul_le_mul_left _ (by omega)
          omega
        · omega
      · intro v rest h
        split at h
        · rename_i h0
          injection h with h; injection h with e1 e2; subst e2
          rw [if_neg (by omega)]
          exact ⟨a, hb, by simp [Sch.minLen]; omega, by omega⟩
        · split at h
          · rename_i h1'
            rw [if_pos h1']
            split at h
            · rename_i w r2 h2
              injection h with h; injection h with e1 e2; subst e2
              obtain ⟨cs, hcs, _, ha⟩ := sB _ _ h2
              refine ⟨a ++ cs, by rw [hb, hcs]; simp, by simp [Sch.minLen]; omega, ?_⟩
              have : s.depth E * cs.length ≤ s.depth E * (a ++ cs).length := Nat.mul_le_mul_left _ (by simp)
              omega
            · cases h
          · cases h
    · refine ⟨by omega, ?_⟩
      intro v rest h; cases h
  | uslice s _ => simp [Sch.guarded] at hg
  | aslice s ih =>
    simp only [Sch.wf, Bool.and_eq_true, decide_eq_true_eq] at hwf
    simp only [Sch.guarded] at hg
    have hok : ∀ bs v r, decG E false k s bs = .ok (v, r) →
        ∃ cs, bs = cs ++ r ∧ 1 ≤ cs.length ∧ allocOf E k s bs ≤ s.depth E * cs.length := by
      intro bs v r h
      obtain ⟨cs, hb, hm, ha⟩ := (ih hwf.1 hg bs).2 v r h
      exact ⟨cs, hb, by omega, ha⟩
    have herr : ∀ bs, allocOf E k s bs ≤ s.depth E * (bs.length + k) := fun bs => (ih hwf.1 hg bs).1
    simp only [allocOf, Sch.depth, dec, decG]
    split
    · rename_i n r1 h1
      obtain ⟨hb, hn⟩ := readU64_ok h1
      have e1 : bs.length = 8 + r1.length := by rw [hb]; simp [u64le_length]
      obtain ⟨rA, rB⟩ := allocRep_bounds (k := k) hok herr n r1
      constructor
      · have : (s.depth E + 1) * (r1.length + k) ≤ (s.depth E + 1) * (bs.length + k) :=
          Nat.mul_le_mul_left _ (by omega)
        omega
      · intro v rest h
        simp only [okList] at h
        split at h
        · rename_i vs r2 h2
          injection h with h; injection h with e1 e2; subst e2
          obtain ⟨cs, hcs, ha⟩ := rB _ _ h2
          refine ⟨u64le n ++ cs, by rw [hb, hcs]; simp, by simp [Sch.minLen, u64le_length], ?_⟩
          have : (s.depth E + 1) * cs.length ≤ (s.depth E + 1) * (u64le n ++ cs).length :=
            Nat.mul_le_mul_left _ (by simp)
          omega
        · cases h
    · refine ⟨by omega, ?_⟩
      intro v rest h; cases h
  | ext n =>
    have ok := hE n
    refine ⟨ok.alloc_err hg k bs, ?_⟩
    intro v rest h
    obtain ⟨_, cs, hb, hm⟩ := ok.dec_sound false k bs v rest h
    have := ok.alloc_ok hg k bs v rest h
    refine ⟨cs, hb, hm, ?_⟩
    simp only [allocOf, Sch.depth]
    rw [hb, List.length_append, Nat.mul_add] at this
    rw [hb]; omega

/-- **c10_decode_alloc_bounded**: whatever the input and the outcome, the slots the
decoder allocates are at most `c·|input| + c₀` with `c = depth s` (nesting depth of
slices / byte strings in the schema) and `c₀ = depth s · slack` (0 for buffer
decoders; `maxLen - |input|` for the stream decoders, C19). The length-prefix guard
and `Sch.wf` (slice elements occupy ≥ 1 byte) are what make this go through. -/
theorem c10_decode_alloc_bounded {E : Env} (hE : EnvOK E) (k : Nat) (s : Sch)
    (hwf : s.wf E = true) (hg : s.guarded E = true) (bs : Bytes) :
    allocOf E k s bs ≤ s.depth E * bs.length + s.depth E * k := by
  have := (alloc_bounds hE k s hwf hg bs).1
  rw [Nat.mul_add] at this; exact this

example : allocOf Env.default 0 C11.exS (enc Env.default C11.exS C11.exV) = 3 := by decide
example : Sch.depth Env.default C11.exS = 2 := by decide

/-- **rhp/v2 `RPCReadResponse`** (mirrored model of the fixed decoder): total, and the
allocation is at most twice the input (signature copy + data, each bounded by what
arrives) whatever length the peer announces. -/
theorem c10_rhp2_readresponse_total {E : Env} (hE : EnvOK E) (k : Nat) (bs : Bytes) :
    dec E k Irregular.rhp2ReadResponse bs ≠ .error .panic ∧
    allocOf E k Irregular.rhp2ReadResponse bs ≤ 1 * bs.length + 1 * k := by
  have hgs : Sch.guarded E Irregular.rhp2ReadResponse = true := by
    simp [Irregular.rhp2ReadResponse, Sch.seq, Sch.guarded, Atom.codec]
  have hwf : Sch.wf E Irregular.rhp2ReadResponse = true := by
    simp [Irregular.rhp2ReadResponse, Sch.seq, Sch.wf, Sch.minLen, Atom.codec]
  have hd : Sch.depth E Irregular.rhp2ReadResponse = 1 := by
    simp [Irregular.rhp2ReadResponse, Sch.seq, Sch.depth, Atom.codec]
  have h := c10_decode_alloc_bounded hE k Irregular.rhp2ReadResponse hwf hgs bs
  rw [hd] at h
  exact ⟨c10_decode_total hE false k _ hgs bs, h⟩

/-- the old witness (empty signature, `dataLen = 2^63`) is now an ordinary error -/
example : dec Env.default 0 Irregular.rhp2ReadResponse
    [0,0,0,0,0,0,0,0, 0,0,0,0,0,0,0,128] = .error .short := rfl

/-- **rhp/v3 `RPCExecuteProgramRequest`** (mirrored model of the fixed decoder): total and
linearly allocating, for any lawful model of the instruction codec. -/
theorem c10_rhp3_executeprogramrequest_total {E : Env} (hE : EnvOK E)
    (hg : (E.ext "Rhp3.Instruction").guarded = true) (hm : 1 ≤ (E.ext "Rhp3.Instruction").minLen)
    (k : Nat) (bs : Bytes) :
    dec E k Irregular.rhp3ExecuteProgramRequest bs ≠ .error .panic ∧
    allocOf E k Irregular.rhp3ExecuteProgramRequest bs ≤
      Irregular.rhp3ExecuteProgramRequest.depth E * bs.length + Irregular.rhp3ExecuteProgramRequest.depth E * k := by
  have hgs : Sch.guarded E Irregular.rhp3ExecuteProgramRequest = true := by
    simp [Irregular.rhp3ExecuteProgramRequest, Sch.seq, Sch.guarded, Atom.codec, hg]
  have hwf : Sch.wf E Irregular.rhp3ExecuteProgramRequest = true := by
    simp [Irregular.rhp3ExecuteProgramRequest, Sch.seq, Sch.wf, Sch.minLen, hm]
  exact ⟨c10_decode_total hE false k _ hgs bs, c10_decode_alloc_bounded hE k _ hwf hgs bs⟩

example : dec Env.default 0 Irregular.rhp3ExecuteProgramRequest
    (List.replicate 32 0 ++ [0,0,0,0,0,0,0,16]) = .error .unsupported := rfl

end C10D
