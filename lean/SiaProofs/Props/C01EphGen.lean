import SiaModel.Gen.CodeConsensus
/-!
# C01 / C10 — the check of a same-block ("ephemeral") parent record, on REGENERATED code

`validateEphemeralSiacoinElement` / `validateEphemeralSiafundElement` decide whether a v2 input may spend an output
created earlier in the same block (unassigned leaf index: no accumulator proof exists yet).  Both are translated as
whole functions (map lookup in the block's element table, index into the per-kind diff list).

`c01_ephemeral_siacoin_gen` / `c01_ephemeral_siafund_gen`: if the regenerated check accepts, the element table knows
the parent id, the diff it points to was CREATED in this block, and — from `HardforkV2.EphemeralOutputHeight` on — the
record the spender claims (id, output with value and address, maturity height resp. claim start) is exactly the one
recorded in that diff: a same-block spend cannot claim a value the output does not hold.  Below that height only the
first two facts follow: this is the documented legacy window that C01's statement excludes, visible here as the
hypothesis of the second conjunct.
-/
namespace C01
open Gen.Types Gen.Consensus

theorem c01_ephemeral_siacoin_gen (ms : MidState) (sci : V2SiacoinInput)
    (h : validateEphemeralSiacoinElement ms sci = .ok none) :
    ∃ j d, Go.mapGet ms.elements sci.Parent.ID (0 : Int) = (j, true) ∧ Go.sliceGet ms.sces j = .ok d ∧ d.Created = true ∧
      (ms.base.Network.HardforkV2.EphemeralOutputHeight ≤ State.childHeight ms.base →
        d.SiacoinElement.ID = sci.Parent.ID ∧ d.SiacoinElement.SiacoinOutput = sci.Parent.SiacoinOutput ∧
        d.SiacoinElement.MaturityHeight = sci.Parent.MaturityHeight) := by
  unfold validateEphemeralSiacoinElement at h
  cases hm : Go.mapGet ms.elements sci.Parent.ID (0 : Int) with
  | mk j ok =>
    simp only [hm] at h
    cases ok with
    | false => simp [bind, Except.bind, pure, Except.pure] at h
    | true =>
      by_cases hj : (ms.sces.length : Int) ≤ j
      · simp [hj, bind, Except.bind, pure, Except.pure] at h
      cases hs : Go.sliceGet ms.sces j with
      | error e => simp [hj, hs, bind, Except.bind, pure, Except.pure] at h
      | ok d =>
        cases hc : d.Created with
        | false => simp [hj, hs, hc, bind, Except.bind, pure, Except.pure] at h
        | true =>
          refine ⟨j, d, rfl, hs, hc, ?_⟩
          intro hh
          have nlt : ¬ State.childHeight ms.base < ms.base.Network.HardforkV2.EphemeralOutputHeight := by omega
          simp only [hj, hs, hc, nlt, bind, Except.bind, pure, Except.pure, Bool.not_true, Bool.false_eq_true, Bool.or_false,
            decide_false, if_false, Bool.not_false] at h
          by_cases e1 : sci.Parent.ID ≠ d.SiacoinElement.ID
          · simp [hj, e1] at h
          by_cases e2 : sci.Parent.SiacoinOutput ≠ d.SiacoinElement.SiacoinOutput
          · simp [hj, e1, e2] at h
          by_cases e3 : sci.Parent.MaturityHeight ≠ d.SiacoinElement.MaturityHeight
          · simp [hj, e1, e2, e3] at h
          exact ⟨(Classical.not_not.mp e1).symm, (Classical.not_not.mp e2).symm, (Classical.not_not.mp e3).symm⟩

/-- Same-block SIAFUND parents: from the fix height on NO such spend is accepted; in the legacy window an accepted one
names a diff created in this block and claims a claim start that does not exceed the pool (guard of fix 9d7f24e). -/
theorem c01_ephemeral_siafund_gen (ms : MidState) (sfi : V2SiafundInput)
    (h : validateEphemeralSiafundElement ms sfi = .ok none) :
    State.childHeight ms.base < ms.base.Network.HardforkV2.EphemeralOutputHeight ∧
    (∃ j d, Go.mapGet ms.elements sfi.Parent.ID (0 : Int) = (j, true) ∧ Go.sliceGet ms.sfes j = .ok d ∧ d.Created = true) ∧
    ¬ sfi.Parent.ClaimStart.Cmp ms.siafundTaxRevenue > 0 := by
  unfold validateEphemeralSiafundElement at h
  cases hm : Go.mapGet ms.elements sfi.Parent.ID (0 : Int) with
  | mk j ok =>
    simp only [hm] at h
    cases ok with
    | false => simp [bind, Except.bind, pure, Except.pure] at h
    | true =>
      by_cases hj : (ms.sfes.length : Int) ≤ j
      · simp [hj, bind, Except.bind, pure, Except.pure] at h
      cases hs : Go.sliceGet ms.sfes j with
      | error e => simp [hj, hs, bind, Except.bind, pure, Except.pure] at h
      | ok d =>
        cases hc : d.Created with
        | false => simp [hj, hs, hc, bind, Except.bind, pure, Except.pure] at h
        | true =>
          by_cases hh : State.childHeight ms.base ≥ ms.base.Network.HardforkV2.EphemeralOutputHeight
          · simp [hj, hs, hc, hh, bind, Except.bind, pure, Except.pure] at h
          by_cases hcs : sfi.Parent.ClaimStart.Cmp ms.siafundTaxRevenue > 0
          · simp [hj, hs, hc, hh, hcs, bind, Except.bind, pure, Except.pure] at h
          exact ⟨by omega, ⟨j, d, rfl, hs, hc⟩, hcs⟩

/-! ### non-vacuity -/

def msOneCreated : MidState :=
  { base := { Index := { Height := 9 }, Network := { HardforkV2 := { EphemeralOutputHeight := 5 } } },
    elements := [(⟨#[3]⟩, 0)],
    sces := [{ Created := true, SiacoinElement := { ID := ⟨#[3]⟩, SiacoinOutput := { Value := { Lo := 40 } }, MaturityHeight := 12 } }] }

example : validateEphemeralSiacoinElement msOneCreated
    { Parent := { ID := ⟨#[3]⟩, SiacoinOutput := { Value := { Lo := 40 } }, MaturityHeight := 12 } } = .ok none := by rfl
example : validateEphemeralSiacoinElement msOneCreated
    { Parent := { ID := ⟨#[3]⟩, SiacoinOutput := { Value := { Lo := 41 } }, MaturityHeight := 12 } }
    = .ok (some "claims incorrect value (%v) for ephemeral output %v") := by rfl
-- the legacy window: the same inflated claim is accepted below the fix height
example : validateEphemeralSiacoinElement
    { msOneCreated with base := { Index := { Height := 2 }, Network := { HardforkV2 := { EphemeralOutputHeight := 5 } } } }
    { Parent := { ID := ⟨#[3]⟩, SiacoinOutput := { Value := { Lo := 41 } }, MaturityHeight := 12 } } = .ok none := by rfl
example : validateEphemeralSiafundElement { msOneCreated with sfes := [{ Created := true }] } { Parent := { ID := ⟨#[3]⟩ } }
    = .ok (some "spends ephemeral output %v") := by rfl

end C01
