import SiaModel.Gen.FactsSp
import SiaProofs.Lemmas.StorageProofBits
/-!
# C07 (proof part) — ties: the shape of the storage-proof code is the one the model transcribes

`Gen.FactsSp` is regenerated on every run from consensus/merkle.go and from the closures of
`validateFileContracts` (consensus/validation.go): signatures and top-level statements, printed by
go/printer. Each tie below pins one of them to the exact text `SiaModel/Merkle/StorageProof.lean`
was written from and names the model definition that transcribes it; the `…_meaning` theorems
prove that the model's arithmetic reading of the quoted Go expressions is the literal one. Any
rewrite of these functions breaks a tie; their behaviour is tied by the C07P correspondence run
(`sp-root2`, `sp-proofroot`, and `sp-verify1` against `consensus.ValidateTransaction`).
-/
namespace C07
open Sia.SP

/-- consensus/merkle.go `proofRoot` ↦ `Sia.SP.proofRoot` (= `Sia.Rhp.leafToRoot`: bit clear ⇒ `SumPair(root, h)`) -/
theorem tie_proofRoot_shape :
    Gen.FactsSp.proofRootSig = "func(leafHash types.Hash256, leafIndex uint64, proof []types.Hash256) types.Hash256" ∧
    Gen.FactsSp.proofRootBody = [
      "root := leafHash",
      "for i, h := range proof { if leafIndex&(1<<i) == 0 { root = blake2b.SumPair(root, h) } else { root = blake2b.SumPair(h, root) } }",
      "return root"] := ⟨rfl, rfl⟩

/-- consensus/merkle.go `storageProofSubtreeHeight` ↦ `Sia.SP.storageProofSubtreeHeight` / `Sia.SP.lastLeafIndex` -/
theorem tie_storageProofSubtreeHeight_shape :
    Gen.FactsSp.storageProofSubtreeHeightSig = "func(leafIndex uint64, filesize uint64) int" ∧
    Gen.FactsSp.storageProofSubtreeHeightBody = [
      "const leafSize = uint64(len(types.V2StorageProof{}.Leaf))",
      "lastLeafIndex := filesize / leafSize",
      "if filesize%leafSize == 0 { lastLeafIndex-- }",
      "return bits.Len64(leafIndex ^ lastLeafIndex)"] := ⟨rfl, rfl⟩

/-- consensus/merkle.go `storageProofRoot` ↦ `Sia.SP.storageProofRoot` -/
theorem tie_storageProofRoot_shape :
    Gen.FactsSp.storageProofRootSig
      = "func(leafHash types.Hash256, leafIndex uint64, filesize uint64, proof []types.Hash256) types.Hash256" ∧
    Gen.FactsSp.storageProofRootBody = [
      "subtreeHeight := storageProofSubtreeHeight(leafIndex, filesize)",
      "if len(proof) < subtreeHeight { return types.Hash256{} }",
      "root := proofRoot(leafHash, leafIndex, proof[:subtreeHeight])",
      "for _, h := range proof[subtreeHeight:] { root = blake2b.SumPair(h, root) }",
      "return root"] := ⟨rfl, rfl⟩

/-- the `case *types.V2StorageProof` clause of `validateV2FileContracts` ↦ `Sia.SP.verifyV2` for its last
two checks (the "too few proof hashes" guard of fix a3a6e71 and the root comparison over
`StorageProofLeafHash(sp.Leaf[:])` = `leaf (padLeaf leaf64)`); the three checks before
(proof height reached, `ProofIndex` height = contract `ProofHeight`, history proof) and the derivation
of the leaf index are decision logic outside the Merkle model (C07's ledger part) -/
theorem tie_v2_proofCheck_shape :
    Gen.FactsSp.v2ProofCheck = [
      "sp := *r",
      "if ms.base.childHeight() < fc.ProofHeight => return error",
      "if sp.ProofIndex.ChainIndex.Height != fc.ProofHeight => return error",
      "if !ms.base.Elements.containsChainIndex(sp.ProofIndex.Share()) => return error",
      "leafIndex := ms.base.StorageProofLeafIndex(fc.Filesize, sp.ProofIndex.ChainIndex.ID, types.FileContractID(fcr.Parent.ID))",
      "if fc.Filesize > 0 && len(sp.Proof) < storageProofSubtreeHeight(leafIndex, fc.Filesize) => return error",
      "if storageProofRoot(ms.base.StorageProofLeafHash(sp.Leaf[:]), leafIndex, fc.Filesize, sp.Proof) != fc.FileMerkleRoot => return error"] := rfl

/-- consensus/state.go `State.StorageProofLeafIndex` ↦ `Sia.SP.storageProofLeafIndex` (`numLeaves`, the
early return for an empty file, `hashAll(windowID, fcid)` = BLAKE2b-256 of the two ids, the
word-by-word `bits.Div64` reduction `Sia.SP.leafIndexLoop`). `C07.c07_leaf_index_total` proves that
this shape never divides by zero; a rewrite of the rounding (e.g. `(filesize+leafSize-1)/leafSize`,
which wraps for `filesize ≥ 2^64-62`) breaks this tie. -/
theorem tie_leafIndex_shape :
    Gen.FactsSp.leafIndexSig = "func(filesize uint64, windowID types.BlockID, fcid types.FileContractID) uint64" ∧
    Gen.FactsSp.leafIndexBody = [
      "const leafSize = uint64(len(types.StorageProof{}.Leaf))",
      "numLeaves := filesize / leafSize",
      "if filesize%leafSize != 0 { numLeaves++ }",
      "if numLeaves == 0 { return 0 }",
      "seed := hashAll(windowID, fcid)",
      "var r uint64",
      "for i := 0; i < len(seed); i += 8 { _, r = bits.Div64(r, binary.BigEndian.Uint64(seed[i:]), numLeaves) }",
      "return r"] := ⟨rfl, rfl⟩

/-- consensus/state.go `State.StorageProofLeafHash` ↦ `leaf (padLeaf ·)` (zero-extend to 64 bytes, leaf hash) -/
theorem tie_leafHash_shape :
    Gen.FactsSp.leafHashBody = [
      "if len(leaf) == 64 { return blake2b.SumLeaf((*[64]byte)(leaf)) }",
      "var buf [64]byte",
      "copy(buf[:], leaf)",
      "return blake2b.SumLeaf(&buf)"] := rfl

/-- `numLeaves++` cannot wrap and the model's `numLeaves` is the literal reading of the first three
statements with `leafSize = 64` -/
theorem tie_numLeaves_meaning (filesize : Nat) (h : filesize < 18446744073709551616) :
    numLeaves filesize = (if filesize % 64 ≠ 0 then (filesize / 64 + 1) % 18446744073709551616 else filesize / 64) := by
  unfold numLeaves
  have hlt : filesize / 64 + 1 < 18446744073709551616 := by omega
  rw [Nat.mod_eq_of_lt hlt]

/-- v1 closure `lastLeafIndex` ↦ `Sia.SP.lastLeafIndex` (same value as the v2 computation) -/
theorem tie_v1_lastLeafIndex_shape :
    Gen.FactsSp.v1LastLeafIndexSig = "func(filesize uint64) uint64" ∧
    Gen.FactsSp.v1LastLeafIndexBody = [
      "if filesize%leafSize != 0 { return filesize / leafSize }",
      "return (filesize / leafSize) - 1"] ∧
    Gen.FactsSp.v1LeafSizeExpr = "uint64(len(types.StorageProof{}.Leaf))" ∧
    Gen.FactsSp.v1LeafSize = 64 := ⟨rfl, rfl, rfl, rfl⟩

/-- v1 closure `storageProofLeaf` ↦ `Sia.SP.storageProofLeaf` (`Era.preTax`, `Era.preStorageProof`,
`Era.current`, in this order; `leaf[:k]` ↦ `extract 0 k`, `nil` ↦ `none`) -/
theorem tie_v1_storageProofLeaf_shape :
    Gen.FactsSp.v1StorageProofLeafSig = "func(leafIndex, filesize uint64, leaf [64]byte) []byte" ∧
    Gen.FactsSp.v1StorageProofLeafCases = [
      "case ms.base.childHeight() < ms.base.Network.HardforkTax.Height => return leaf[:]",
      "case ms.base.childHeight() < ms.base.Network.HardforkStorageProof.Height => if leafIndex == lastLeafIndex(filesize) { return leaf[:filesize%leafSize] } ; return leaf[:]",
      "default => if filesize == 0 { return nil } else if leafIndex == lastLeafIndex(filesize) && filesize%leafSize != 0 { return leaf[:filesize%leafSize] } ; return leaf[:]"] :=
  ⟨rfl, rfl⟩

/-- v1 closure `storageProofRoot` ↦ `Sia.SP.storageProofRootV1` (`padLeaf`, leaf prefix 0) and
`Sia.SP.spLoop` (the fold: condition, left-sibling branch, right-sibling branch) -/
theorem tie_v1_storageProofRoot_shape :
    Gen.FactsSp.v1StorageProofRootSig
      = "func(leafIndex uint64, filesize uint64, leaf []byte, proof []types.Hash256) types.Hash256" ∧
    Gen.FactsSp.v1StorageProofRootBody = [
      "buf := make([]byte, 1+leafSize)",
      "buf[0] = 0",
      "copy(buf[1:], leaf)",
      "root := types.HashBytes(buf)",
      "subtreeHeight := bits.Len64(leafIndex ^ lastLeafIndex(filesize))",
      "for i, h := range proof { if leafIndex&(1<<i) != 0 || i >= subtreeHeight { root = blake2b.SumPair(h, root) } else { root = blake2b.SumPair(root, h) } }",
      "return root"] ∧
    Gen.FactsSp.v1LoopRange = "i, h := range proof" ∧
    Gen.FactsSp.v1LoopCond = "leafIndex&(1<<i) != 0 || i >= subtreeHeight" ∧
    Gen.FactsSp.v1LoopThen = ["root = blake2b.SumPair(h, root)"] ∧
    Gen.FactsSp.v1LoopElse = ["root = blake2b.SumPair(root, h)"] := ⟨rfl, rfl, rfl, rfl, rfl, rfl⟩

/-- the per-proof check ↦ `Sia.SP.verifyV1` (`nil` leaf ⇒ accepted without a proof; the
"too few proof hashes" guard; the root comparison) -/
theorem tie_v1_proofCheck_shape :
    Gen.FactsSp.v1ProofCheck = [
      "leafIndex := ms.base.StorageProofLeafIndex(fc.Filesize, windowID, sp.ParentID)",
      "leaf := storageProofLeaf(leafIndex, fc.Filesize, sp.Leaf)",
      "if leaf == nil => continue",
      "if fc.Filesize > 0 && len(sp.Proof) < bits.Len64(leafIndex^lastLeafIndex(fc.Filesize)) => return error",
      "if storageProofRoot(leafIndex, fc.Filesize, leaf, sp.Proof) != fc.FileMerkleRoot => return error"] := rfl

/-! ### the model's reading of the quoted expressions is the literal one -/

theorem and_pow_ne_zero (x i : Nat) : (x &&& 2 ^ i ≠ 0) ↔ x.testBit i = true := by
  constructor
  · intro h
    cases hb : x.testBit i with
    | true => rfl
    | false =>
      exfalso
      apply h
      apply Nat.eq_of_testBit_eq
      intro j
      rw [Nat.testBit_and, Nat.testBit_two_pow, Nat.zero_testBit]
      by_cases hj : i = j
      · subst hj; simp [hb]
      · simp [hj]
  · intro hb h
    have := congrArg (fun y => y.testBit i) h
    simp [Nat.testBit_and, Nat.testBit_two_pow, hb] at this

/-- `leafIndex&(1<<i) != 0 || i >= subtreeHeight`, read literally on naturals, is the condition of
`Sia.SP.spLoop` -/
theorem tie_v1_loop_cond_meaning (leafIndex i subtreeHeight : Nat) :
    (leafIndex &&& (1 <<< i) ≠ 0 ∨ i ≥ subtreeHeight) ↔ (leafIndex / 2 ^ i % 2 = 1 ∨ i ≥ subtreeHeight) := by
  rw [Nat.one_shiftLeft, and_pow_ne_zero, Nat.testBit_eq_decide_div_mod_eq]
  simp

/-- `(filesize / leafSize) - 1` in uint64 arithmetic (resp. `lastLeafIndex--`) and the other branch,
read literally with `leafSize = 64` (`tie_v1_lastLeafIndex_shape`), are `Sia.SP.lastLeafIndex`;
`x - 1` on uint64 is `(x + (2^64 - 1)) mod 2^64` -/
theorem tie_lastLeafIndex_meaning (filesize : Nat) :
    lastLeafIndex filesize =
      (if filesize % 64 ≠ 0 then filesize / 64
       else (filesize / 64 + 18446744073709551615) % 18446744073709551616) := by
  unfold lastLeafIndex
  by_cases h : filesize % 64 = 0
  · rw [if_pos h, if_neg (fun hn => hn h)]
  · rw [if_neg h, if_pos h]

/-- `bits.Len64(leafIndex ^ lastLeafIndex(filesize))` is `bitLen (leafIndex ^^^ lastLeafIndex filesize)`:
`bitLen x` is the number of bits of `x` -/
theorem tie_bitLen_meaning (x j : Nat) : bitLen x ≤ j ↔ x < 2 ^ j := bitLen_le_iff x j

end C07
