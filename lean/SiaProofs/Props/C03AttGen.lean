import SiaModel.Gen.CodeConsensus
import SiaProofs.Lemmas.GoLoops
/-!
# C03 — attestations and the Foundation address update, on REGENERATED code (whole functions)

* `c03_attestations_gen`: `validateAttestations` never panics and accepts exactly when every attestation has a
  non-empty key and a signature by ITS public key over ITS attestation sighash.
* `c03_foundation_update_gen`: `validateFoundationUpdate` never panics and accepts exactly when the transaction does
  not change the Foundation address, or spends an input sitting at the current management address.
-/
namespace C03
open Gen.Types Gen.Consensus GoLoops

theorem c03_attestations_gen (ext : Ext) (ms : MidState) (txn : V2Transaction) :
    ∃ r, validateAttestations ext ms txn = .ok r ∧
      (r = none ↔ ∀ a ∈ txn.Attestations, a.Key.length ≠ 0 ∧
        ext.VerifyHash a.PublicKey (ext.AttestationSigHash ms.base a) a.Signature = true) := by
  unfold validateAttestations Go.forRange
  obtain ⟨r, st', e, g⟩ := forRangeFrom_none_iff
    (f := fun (i : Int) (a : Attestation) (st_ : Unit) =>
      if (decide ((Int.ofNat a.Key.length) = (0 : Int))) = true then
        (pure (some (some "attestation %v has empty key" : Option String), ()) : Except String (Option (Option String) × Unit))
      else if (!(ext.VerifyHash a.PublicKey (ext.AttestationSigHash ms.base a) a.Signature)) = true then
        pure (some (some "attestation %v has invalid signature" : Option String), ())
      else pure (none, ()))
    (good := fun a => a.Key.length ≠ 0 ∧ ext.VerifyHash a.PublicKey (ext.AttestationSigHash ms.base a) a.Signature = true)
    (by
      intro i a st
      by_cases k : a.Key.length = 0
      · exact ⟨some (some "attestation %v has empty key"), (), by simp [k, pure, Except.pure], by simp [k]⟩
      · cases v : ext.VerifyHash a.PublicKey (ext.AttestationSigHash ms.base a) a.Signature
        · exact ⟨some (some "attestation %v has invalid signature"), (), by simp [k, v, pure, Except.pure], by simp [k, v]⟩
        · exact ⟨none, (), by simp [k, v, pure, Except.pure], by simp [k, v]⟩)
    txn.Attestations 0 ()
  simp only [bind, Except.bind]
  rw [e]
  cases r with
  | none => exact ⟨none, by simp [pure, Except.pure], by simpa using g⟩
  | some q =>
    have hq : q ≠ none := forRangeFrom_some (P := fun r : Option String => r ≠ none)
      (by
        intro i a st r st1 hx
        by_cases k : a.Key.length = 0
        · simp [k, pure, Except.pure] at hx; rw [← hx]; simp
        · cases v : ext.VerifyHash a.PublicKey (ext.AttestationSigHash ms.base a) a.Signature
          · simp [k, v, pure, Except.pure] at hx; rw [← hx]; simp
          · simp [k, v, pure, Except.pure] at hx) txn.Attestations 0 () q st' e
    refine ⟨q, by simp [pure, Except.pure], ?_⟩
    constructor
    · intro h; exact absurd h hq
    · intro h
      have := g.mpr h
      cases this

/-- the "is one of the inputs at the management address" loop of `validateFoundationUpdate` -/
theorem c03_foundation_update_gen (ms : MidState) (txn : V2Transaction) :
    ∃ r, validateFoundationUpdate ms txn = .ok r ∧
      (r = none ↔ (txn.NewFoundationAddress = none ∨
        ∃ i ∈ txn.SiacoinInputs, i.Parent.SiacoinOutput.Address = ms.base.FoundationManagementAddress)) := by
  unfold validateFoundationUpdate Go.forRange
  by_cases hn : txn.NewFoundationAddress = none
  · exact ⟨none, by simp [hn, pure, Except.pure], by simp [hn]⟩
  · simp only [hn, decide_false, Bool.false_eq_true, if_false, bind, Except.bind]
    obtain ⟨r, st', e, g⟩ := forRangeFrom_none_iff
      (f := fun (_ : Int) (in_ : V2SiacoinInput) (_ : Unit) =>
        if (decide (in_.Parent.SiacoinOutput.Address = ms.base.FoundationManagementAddress)) = true then
          (pure (some none, ()) : Except String (Option (Option String) × Unit))
        else pure (none, ()))
      (good := fun i => i.Parent.SiacoinOutput.Address ≠ ms.base.FoundationManagementAddress)
      (by
        intro i x st
        by_cases k : x.Parent.SiacoinOutput.Address = ms.base.FoundationManagementAddress
        · exact ⟨some none, (), by simp [k, pure, Except.pure], by simp [k]⟩
        · exact ⟨none, (), by simp [k, pure, Except.pure], by simp [k]⟩)
      txn.SiacoinInputs 0 ()
    rw [e]
    cases r with
    | none =>
      refine ⟨some "transaction changes Foundation address, but does not spend an input controlled by current address", by simp [pure, Except.pure], ?_⟩
      have all := g.mp rfl
      simp [hn]
      intro i hi
      exact all i hi
    | some q =>
      have hq : q = none := forRangeFrom_some (P := fun r : Option String => r = none)
        (by
          intro i x st r st1 hx
          by_cases k : x.Parent.SiacoinOutput.Address = ms.base.FoundationManagementAddress
          · simp [k, pure, Except.pure] at hx; exact hx.symm
          · simp [k, pure, Except.pure] at hx) txn.SiacoinInputs 0 () q st' e
      subst hq
      refine ⟨none, by simp [pure, Except.pure], ?_⟩
      simp [hn]
      have : ¬ ∀ i ∈ txn.SiacoinInputs, i.Parent.SiacoinOutput.Address ≠ ms.base.FoundationManagementAddress := by
        intro h; have := g.mpr h; cases this
      simpa [Classical.not_forall] using this

example : validateFoundationUpdate { base := { FoundationManagementAddress := ⟨#[7]⟩ } }
    { NewFoundationAddress := some (Go.zeros 32), SiacoinInputs := [{}, { Parent := { SiacoinOutput := { Address := ⟨#[7]⟩ } } }] } = .ok none := by rfl
example : validateFoundationUpdate { base := { FoundationManagementAddress := ⟨#[7]⟩ } }
    { NewFoundationAddress := some (Go.zeros 32), SiacoinInputs := [{}] }
    = .ok (some "transaction changes Foundation address, but does not spend an input controlled by current address") := by rfl
example : validateAttestations { Ext.trivial with VerifyHash := fun _ _ _ => true } {} { Attestations := [{ Key := "k" }] } = .ok none := by rfl
example : validateAttestations { Ext.trivial with VerifyHash := fun _ _ _ => true } {} { Attestations := [{ Key := "" }] }
    = .ok (some "attestation %v has empty key") := by rfl

end C03
