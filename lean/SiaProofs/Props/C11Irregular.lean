import SiaProofs.Lemmas.CodecEnv
import SiaProofs.Props.C11Tie
import SiaModel.Codec.Spec
import SiaModel.Codec.Irregular
/-!
# C11 for hand-modelled irregular codecs

The generic theorems of `C11.lean` / `C10Decode.lean` hold over any environment whose
leaf codecs satisfy `CodecOK`. Here the environment `Irregular.env` used by the driver
is shown to satisfy it, which instantiates every generic theorem for
`V2FileContractResolution` (tag byte + payload) and for every generated schema that
contains it.
-/
namespace C11
open Sia.Codec Sia.Codec.Gen

/-- the payload tags of the model are the ones in the code (both directions) -/
theorem tie_resolution_tags :
    resolutionTagsEnc = Irregular.resolutionTags ∧ resolutionTagsDec = Irregular.resolutionTags := by
  constructor <;> rfl

/-- the policy layer of the environment -/
theorem envP_ok : EnvOK Irregular.envP := Env.with_ok Env.default_ok _ (Policy.codec_ok Env.default_ok)
theorem envP_fine : ExtsFine Irregular.envP :=
  Env.with_fine Env.default_fine _ (by rw [Policy.codec_minLen]; exact Nat.le_refl 1) (Policy.codec_guarded Env.default_fine)

theorem resolutionPayload_ok : CodecOK (Irregular.resolutionPayload Irregular.envP) := by
  apply tagged_ok
  exact tagsOK_cons (ofSch_ok envP_ok _ (wf_of_default envP_fine _ (by decide +kernel))) <|
    tagsOK_cons (ofSch_ok envP_ok _ (wf_of_default envP_fine _ (by decide +kernel))) <|
    tagsOK_cons (ofSch_ok envP_ok _ (wf_of_default envP_fine _ (by decide +kernel))) tagsOK_nil

theorem env1_ok : EnvOK Irregular.env1 := Env.with_ok envP_ok _ resolutionPayload_ok
theorem env1_fine : ExtsFine Irregular.env1 :=
  Env.with_fine envP_fine _ (Nat.le_refl 1) (by
    simp only [Irregular.resolutionPayload, Codec.tagged, tagGuarded, Codec.ofSch, Bool.and_true, Bool.and_eq_true]
    exact ⟨guarded_of_default envP_fine _ (by decide +kernel), guarded_of_default envP_fine _ (by decide +kernel),
      guarded_of_default envP_fine _ (by decide +kernel)⟩)

theorem env2_ok : EnvOK Irregular.env2 :=
  Env.with_ok env1_ok _ (ofSch_ok env1_ok _ (wf_of_default env1_fine _ (by decide +kernel)))
theorem env2_fine : ExtsFine Irregular.env2 :=
  Env.with_fine env1_fine _
    (by simp only [Codec.ofSch]
        exact (minLen_pos_iff env1_fine _).mpr (by decide +kernel))
    (by simp only [Codec.ofSch]; exact guarded_of_default env1_fine _ (by decide +kernel))

/-- the v2 transaction layout in the code now: version, bit order, field names, emptiness
tests and field schemas equal the committed specification; encoder and decoder agree -/
theorem tie_wire_Types_V2Transaction :
    v2TxnVersionEnc = Spec.v2TransactionVersion ∧ v2TxnFieldsEnc = Spec.v2TransactionFields := by
  constructor <;> rfl

theorem tie_symmetric_Types_V2Transaction :
    v2TxnVersionEnc = v2TxnVersionDec ∧
    v2TxnFieldsEnc.map (fun t => (t.1, t.2.1, t.2.2.2)) = v2TxnFieldsDec.map (fun t => (t.1, t.2.1, t.2.2.2)) := by
  constructor <;> rfl

/-- the resolution tags of the code equal the committed specification -/
theorem tie_wire_Types_V2FileContractResolution :
    resolutionTagsEnc = Spec.v2FileContractResolutionTags ∧ encSchema_Types_V2FileContractElement = Spec.v2FileContractElement := by
  constructor <;> rfl

theorem v2txn_fields_wf :
    (v2TxnFieldsEnc.all fun t => t.2.2.2.wf Env.default && t.2.2.2.guarded Env.default) = true := by decide +kernel

theorem v2txn_fields_ok : FieldsOK (Irregular.v2TxnBitFields Irregular.env2 v2TxnFieldsEnc) := by
  intro f hf
  simp only [Irregular.v2TxnBitFields, List.mem_map] at hf
  obtain ⟨t, ht, rfl⟩ := hf
  have h := List.all_eq_true.mp v2txn_fields_wf t ht
  simp only [Bool.and_eq_true] at h
  exact ofSch_ok env2_ok _ (wf_of_default env2_fine _ h.1)

theorem fieldsGuarded_of_all {E : Env} (hE : ExtsFine E) (fs : List (Nat × String × ZeroKind × Sch))
    (h : (fs.all fun t => t.2.2.2.guarded Env.default) = true) :
    fieldsGuarded (Irregular.v2TxnBitFields E fs) = true := by
  induction fs with
  | nil => rfl
  | cons t ts ih =>
    simp only [List.all_cons, Bool.and_eq_true] at h
    simp only [Irregular.v2TxnBitFields, List.map_cons, fieldsGuarded, Codec.ofSch, Bool.and_eq_true]
    exact ⟨guarded_of_default hE _ h.1, ih h.2⟩

theorem v2txn_ok : CodecOK (Irregular.v2TxnCodec Irregular.env2) :=
  bitmap_ok (by decide) (by decide) v2txn_fields_ok

/-- **the driver's environment satisfies the leaf laws** (policy, resolution, v2 transaction) -/
theorem c11_env_ok : EnvOK Irregular.env := Env.with_ok env2_ok _ v2txn_ok

theorem env_fine : ExtsFine Irregular.env :=
  Env.with_fine env2_fine _ (by simp [Irregular.v2TxnCodec, Codec.bitmap])
    (by simp only [Irregular.v2TxnCodec, Codec.bitmap]
        exact fieldsGuarded_of_all env2_fine _ (by decide +kernel))

/-- every generated schema is well-formed and guarded in the driver's environment too -/
theorem tie_all_wf_guarded_env (n : String) (e d : Sch) (h : (n, e, d) ∈ allSchemas) :
    e.wf Irregular.env = true ∧ e.guarded Irregular.env = true := by
  obtain ⟨_, h1, h2⟩ := tie_generic_applies n e d h
  exact ⟨wf_of_default env_fine e h1, guarded_of_default env_fine e h2⟩

/-- the schema of a resolution (an `ext` leaf resolved by the environment) -/
def resolution : Sch := .ext "Types.V2FileContractResolution"

/-- **c11_resolution_roundtrip** -/
theorem c11_resolution_roundtrip (k : Nat) (v : Val) (rest : Bytes) (hc : Canon Irregular.env resolution v) :
    dec Irregular.env k resolution (enc Irregular.env resolution v ++ rest) = .ok (v, rest) :=
  c11_roundtrip c11_env_ok k resolution rfl v rest hc

/-- **c11_resolution_injective** -/
theorem c11_resolution_injective (v w : Val) (hv : Canon Irregular.env resolution v)
    (hw : Canon Irregular.env resolution w) (h : enc Irregular.env resolution v = enc Irregular.env resolution w) : v = w :=
  c11_injective c11_env_ok resolution rfl v w hv hw h

/-- **c11_resolution_truncation** -/
theorem c11_resolution_truncation (k : Nat) (v : Val) (hc : Canon Irregular.env resolution v)
    (p q : Bytes) (h : p ++ q = enc Irregular.env resolution v) (hq : q ≠ []) :
    ∃ e, dec Irregular.env k resolution p = .error e :=
  c11_truncation_fails c11_env_ok false k resolution rfl v hc p q h hq

/-- decoding a resolution never panics and allocates linearly -/
theorem c10_resolution_total (k : Nat) (bs : Bytes) :
    dec Irregular.env k resolution bs ≠ .error .panic ∧
    allocOf Irregular.env k resolution bs ≤ resolution.depth Irregular.env * bs.length + resolution.depth Irregular.env * k :=
  ⟨C10D.c10_decode_total c11_env_ok false k resolution (by decide +kernel) bs,
   C10D.c10_decode_alloc_bounded c11_env_ok k resolution rfl (by decide +kernel) bs⟩

/-- the schema of a v2 transaction (an `ext` leaf resolved by the environment) -/
def v2txn : Sch := .ext "Types.V2Transaction"

/-- **c11_v2txn_roundtrip**: version byte, bitmap and present fields decode back to the
same transaction (value = one entry per field, `none` when empty) -/
theorem c11_v2txn_roundtrip (k : Nat) (v : Val) (rest : Bytes) (hc : Canon Irregular.env v2txn v) :
    dec Irregular.env k v2txn (enc Irregular.env v2txn v ++ rest) = .ok (v, rest) :=
  c11_roundtrip c11_env_ok k v2txn rfl v rest hc

/-- **c11_v2txn_injective** -/
theorem c11_v2txn_injective (v w : Val) (hv : Canon Irregular.env v2txn v)
    (hw : Canon Irregular.env v2txn w) (h : enc Irregular.env v2txn v = enc Irregular.env v2txn w) : v = w :=
  c11_injective c11_env_ok v2txn rfl v w hv hw h

/-- **c11_v2txn_truncation** -/
theorem c11_v2txn_truncation (k : Nat) (v : Val) (hc : Canon Irregular.env v2txn v)
    (p q : Bytes) (h : p ++ q = enc Irregular.env v2txn v) (hq : q ≠ []) :
    ∃ e, dec Irregular.env k v2txn p = .error e :=
  c11_truncation_fails c11_env_ok false k v2txn rfl v hc p q h hq

/-- **c11_v2txn_reencode**: the non-canonical v2 transactions the real decoder accepts are
exactly: a set bit whose field is empty, bits beyond the last field, and non-canonical
atoms inside fields (the strict decoder rejects precisely these) -/
theorem c11_v2txn_reencode (k : Nat) (bs : Bytes) (v : Val) (rest : Bytes)
    (h : dec Irregular.env k v2txn bs = .ok (v, rest)) :
    (enc Irregular.env v2txn v ++ rest = bs ↔ decStrict Irregular.env k v2txn bs = .ok (v, rest)) :=
  c11_reencode c11_env_ok k v2txn rfl bs v rest h

/-- decoding a v2 transaction never panics and allocates linearly -/
theorem c10_v2txn_total (k : Nat) (bs : Bytes) :
    dec Irregular.env k v2txn bs ≠ .error .panic ∧
    allocOf Irregular.env k v2txn bs ≤ v2txn.depth Irregular.env * bs.length + v2txn.depth Irregular.env * k :=
  ⟨C10D.c10_decode_total c11_env_ok false k v2txn (by decide +kernel) bs,
   C10D.c10_decode_alloc_bounded c11_env_ok k v2txn rfl (by decide +kernel) bs⟩

/-- non-vacuity: a transaction with one attestation-free field set (arbitrary data) and a fee;
and the non-canonical form with the SiacoinInputs bit set on an empty slice -/
def exTxn : Val := .list [.none, .none, .none, .none, .none, .none, .none, .none,
  .some (.bytes [1, 2, 3]), .none, .some (.pair (.nat 5) (.pair (.nat 0) .unit))]
example : Canon Irregular.env v2txn exTxn := by decide +kernel
example : enc Irregular.env v2txn exTxn =
    [2, 0,5,0,0,0,0,0,0, 3,0,0,0,0,0,0,0, 1,2,3, 5,0,0,0,0,0,0,0, 0,0,0,0,0,0,0,0] := by decide +kernel
example : dec Irregular.env 0 v2txn [2, 1,0,0,0,0,0,0,0, 0,0,0,0,0,0,0,0] =
    .ok (.list [.none, .none, .none, .none, .none, .none, .none, .none, .none, .none, .none], []) := rfl
example : decStrict Irregular.env 0 v2txn [2, 1,0,0,0,0,0,0,0, 0,0,0,0,0,0,0,0] = .error .invalid := rfl

/-- non-vacuity: an expiration (tag 2, empty payload) of a contract element with an empty proof -/
def exResolution : Val :=
  let zero32 : Val := .bytes (List.replicate 32 0)
  let zero64 : Val := .bytes (List.replicate 64 0)
  let cur : Val := .pair (.nat 0) (.pair (.nat 0) .unit)
  let out : Val := .pair cur (.pair zero32 .unit)
  let se : Val := .pair (.nat 7) (.pair (.list []) .unit)
  let fc : Val := .pair (.nat 1) <| .pair (.nat 2) <| .pair zero32 <| .pair (.nat 3) <| .pair (.nat 4) <|
    .pair out <| .pair out <| .pair cur <| .pair cur <| .pair zero32 <| .pair zero32 <| .pair (.nat 5) <|
    .pair zero64 <| .pair zero64 .unit
  .pair (.pair se (.pair zero32 (.pair fc .unit))) (.pair (.pair (.nat 2) .unit) .unit)

example : Canon Irregular.env resolution exResolution := by decide +kernel
example : (enc Irregular.env resolution exResolution).length = 441 := by decide +kernel

end C11
