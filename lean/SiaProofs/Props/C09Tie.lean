import SiaModel.Gen.FactsAlias
import SiaModel.Ledger.Alias
/-!
# C09 ties: the aliasing facts extracted from `/repo`'s working tree on every run = what the
alias model (`SiaModel/Ledger/Alias.lean`) assumes.

* every element hand-off of the application pipeline goes through `.Share()` into the callee
  and `.Copy()` into the diff record; the accumulator and the update objects guard with
  `.Move()`; validation only ever passes `.Share()`d elements to the (read-only) membership
  checks; nowhere is an element handed off raw;
* the locations `V2Transaction.DeepCopy` clones are exactly the model's list, they cover every
  slice/pointer location go/types can reach inside a `V2Transaction` (apart from the immutable
  `*time.Location`), and a cloned location's enclosing array is cloned too;
* `V2TransactionsMultiproof.EncodeTo` deep-copies, strips the copy, and computes the
  multiproof from the original.
-/
namespace C09
open Gen.FactsAlias

/-! ## hand-offs -/

/-- no element is handed off raw or as the result of an arbitrary call: always `Share`,
    `Copy`, `Move` or a fresh composite literal -/
theorem tie_handoffs_no_raw : ∀ h ∈ handoffs, h.2.2.2.2 ∈ ["share", "copy", "move", "literal"] := by decide

/-- the application pipeline (`consensus/application.go`, `consensus/merkle.go`) exactly as the
    model has it: `spend*/revise*/resolve*` store `.Copy()`; their callers pass `.Share()`;
    `applyBlock`/`revertBlock`/`updateElementProof` and `RevertBlock` guard with `.Move()`;
    the JSON forms `.Share()` out and `.Move()` in. -/
theorem tie_handoffs_pipeline :
    handoffs.filter (fun h => h.1 = "application.go" ∨ h.1 = "merkle.go") =
  [("application.go", "MidState.spendSiacoinElement", "assign:sced.SiacoinElement", "sce", "copy"),
   ("application.go", "MidState.spendSiafundElement", "assign:sfed.SiafundElement", "sfe", "copy"),
   ("application.go", "MidState.reviseFileContractElement", "assign:fced.FileContractElement", "fce", "copy"),
   ("application.go", "MidState.resolveFileContractElement", "assign:fced.FileContractElement", "fce", "copy"),
   ("application.go", "MidState.reviseV2FileContractElement", "assign:fced.V2FileContractElement", "fce", "copy"),
   ("application.go", "MidState.resolveV2FileContractElement", "assign:fced.V2FileContractElement", "fce", "copy"),
   ("application.go", "MidState.createAttestationElement", "append", "types.AttestationElement", "literal"),
   ("application.go", "MidState.ApplyTransaction", "ms.spendSiacoinElement", "sce", "share"),
   ("application.go", "MidState.ApplyTransaction", "ms.spendSiafundElement", "sfe", "share"),
   ("application.go", "MidState.ApplyTransaction", "ms.reviseFileContractElement", "fce", "share"),
   ("application.go", "MidState.ApplyTransaction", "ms.resolveFileContractElement", "fce", "share"),
   ("application.go", "MidState.ApplyV2Transaction", "ms.spendSiacoinElement", "sci.Parent", "share"),
   ("application.go", "MidState.ApplyV2Transaction", "ms.spendSiafundElement", "sfi.Parent", "share"),
   ("application.go", "MidState.ApplyV2Transaction", "ms.reviseV2FileContractElement", "fcr.Parent", "share"),
   ("application.go", "MidState.ApplyV2Transaction", "ms.resolveV2FileContractElement", "fcr.Parent", "share"),
   ("application.go", "MidState.ApplyBlock", "ms.resolveFileContractElement", "fce", "share"),
   ("application.go", "RevertBlock", "assign:se", "elems[i].StateElement", "move"),
   ("application.go", "ApplyUpdate.MarshalJSON", "field:ChainIndexElement", "au.cie", "share"),
   ("application.go", "ApplyUpdate.UnmarshalJSON", "assign:au.cie", "js.ChainIndexElement", "move"),
   ("application.go", "RevertUpdate.MarshalJSON", "field:ChainIndexElement", "ru.cie", "share"),
   ("application.go", "RevertUpdate.UnmarshalJSON", "assign:ru.cie", "js.ChainIndexElement", "move"),
   ("merkle.go", "ElementAccumulator.applyBlock", "assign:_", "el", "move"),
   ("merkle.go", "ElementAccumulator.applyBlock", "assign:_", "el", "move"),
   ("merkle.go", "ElementAccumulator.revertBlock", "assign:_", "el", "move"),
   ("merkle.go", "ElementAccumulator.revertBlock", "assign:_", "el", "move"),
   ("merkle.go", "elementApplyUpdate.updateElementProof", "assign:_", "e", "move"),
   ("merkle.go", "elementRevertUpdate.updateElementProof", "assign:_", "e", "move")] := by decide

/-- validation never copies or moves an element: it hands `.Share()`d elements to the
    accumulator's membership checks and to the contract rules -/
theorem tie_handoffs_validation_share :
    ∀ h ∈ handoffs, h.1 = "validation.go" → h.2.2.2.2 = "share" := by decide

/-- the remaining hand-offs (`consensus/state.go`): revision elements are `.Share()`d views of
    the diff's element; a decoded diff is `.Move()`d (fresh from the decoder) -/
theorem tie_handoffs_state :
    handoffs.filter (fun h => h.1 = "state.go") =
  [("state.go", "FileContractElementDiff.RevisionElement", "field:StateElement", "diff.FileContractElement.StateElement", "share"),
   ("state.go", "V2FileContractElementDiff.UnmarshalJSON", "discard", "diff.V2FileContractElement", "move"),
   ("state.go", "V2FileContractElementDiff.V2RevisionElement", "field:StateElement", "diff.V2FileContractElement.StateElement", "share")] := by decide

/-! ## `Copy`, `DeepCopy` -/

/-- element `Copy` clones exactly the Merkle proof (model: `StateElement.copy`) -/
theorem tie_copy_methods :
    copy_StateElement = ["MerkleProof"] ∧
    [copy_SiacoinElement, copy_SiafundElement, copy_FileContractElement, copy_V2FileContractElement,
     copy_ChainIndexElement, copy_AttestationElement] = List.replicate 6 ["StateElement/MerkleProof"] := by decide

theorem tie_policy_cloned : policyCloned =
    ["Type/(PolicyTypeThreshold)/Of", "Type/(PolicyTypeUnlockConditions)/PublicKeys",
     "Type/(PolicyTypeUnlockConditions)/PublicKeys/[]/Key"] := by decide

/-- the model's `DeepCopy` clones exactly what the code's `DeepCopy` clones -/
theorem tie_deepcopy_model_fields : deepCopyCloned = Sia.Alias.deepCopyCloned := by decide

/-- **`Tie.C09.deepcopy_fields_complete`**: every slice/pointer/map location that go/types
    finds inside a `V2Transaction` is cloned by `DeepCopy` — except `PolicyTypeAfter`'s
    `*time.Location`, an immutable process-wide value. A newly added slice field that
    `DeepCopy` forgets makes this fail. -/
theorem tie_deepcopy_fields_complete :
    ∀ p ∈ reachable, p ∈ Sia.Alias.deepCopyCloned ∨ p ∈ Sia.Alias.immutableShared := by decide

/-- `DeepCopy` clones nothing that is not a location of the type (no stale model entries) -/
theorem tie_deepcopy_nothing_extra : ∀ p ∈ Sia.Alias.deepCopyCloned, p ∈ reachable := by decide

/-- a cloned location's enclosing slice/pointer is cloned as well, so the new header is stored
    into the copy's array, never into the original's (hypothesis shape of `deepCopyWith`) -/
theorem tie_deepcopy_parents_cloned :
    ∀ x ∈ reachableInfo, x.1 ∈ Sia.Alias.deepCopyCloned → x.2.2 = "" ∨ x.2.2 ∈ Sia.Alias.deepCopyCloned := by decide

/-! ## multiproof codec -/

/-- `EncodeTo`: `DeepCopy` each transaction, strip the proofs OF THE COPIES, compute the
    multiproof from the ORIGINALS (model: `multiproofEncode`) -/
theorem tie_multiproof_encode_shape : multiproofEncodeShape =
    ["deepcopy:txns[i]", "foreach:prooflessTxns", "strip:l.MerkleProof", "multiproof:txns"] := by decide

/-- the leaves it strips are the five element proofs of the model's `multiproofStripped` -/
theorem tie_multiproof_leaves : multiproofLeaves =
    ["txn.SiacoinInputs[i].Parent", "txn.SiafundInputs[i].Parent", "txn.FileContractRevisions[i].Parent",
     "txn.FileContractResolutions[i].Parent", "r.ProofIndex"] ∧
    Sia.Alias.multiproofStripped.length = 5 ∧
    ∀ p ∈ Sia.Alias.multiproofStripped, p ∈ Sia.Alias.deepCopyCloned := by decide

end C09
