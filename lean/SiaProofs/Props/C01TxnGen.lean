import SiaModel.Gen.CodeConsensus
import SiaProofs.Props.C17Renew
import SiaProofs.Lemmas.GoLoops
/-!
# C01 — the balance equation of a v2 transaction, on REGENERATED code

The second half of `consensus.validateV2Siacoins` — four loops, one of them over the resolutions with a type
assertion to `*V2FileContractRenewal` — is translated from the source on every run
(`Gen.Consensus.validateV2Siacoins_balance`; which resolutions are renewals is the external fact
`ext.Resolution_as_V2FileContractRenewal`).  The theorem: if it accepts a transaction, then, AS INTEGERS and with
no wrap-around anywhere,

    Σ inputs + Σ rollovers of renewals = Σ outputs + Σ (contract outputs + tax) + Σ (renewed contract outputs + tax) + fee

and no output is zero-valued.  This is the per-transaction conservation equation C01's chain-level theorem rests on.
-/
namespace C01
open Gen.Types Gen.Consensus C15 C17 GoLoops

/-- what a new v2 contract costs its funders: both outputs plus the tax -/
def contractCost (fc : V2FileContract) : Nat := val fc.RenterOutput.Value + val fc.HostOutput.Value + tax fc

def inSum (txn : V2Transaction) : Nat := (txn.SiacoinInputs.map (fun i => val i.Parent.SiacoinOutput.Value)).sum
def outSumV2 (txn : V2Transaction) : Nat := (txn.SiacoinOutputs.map (fun o => val o.Value)).sum
def fcSum (txn : V2Transaction) : Nat := (txn.FileContracts.map contractCost).sum
/-- rollovers of the renewals among the resolutions -/
def resIn (ext : Ext) (txn : V2Transaction) : Nat :=
  (txn.FileContractResolutions.map (fun r =>
    if (ext.Resolution_as_V2FileContractRenewal r).2 then
      val (ext.Resolution_as_V2FileContractRenewal r).1.RenterRollover + val (ext.Resolution_as_V2FileContractRenewal r).1.HostRollover
    else 0)).sum
/-- cost of the contracts created by the renewals among the resolutions -/
def resOut (ext : Ext) (txn : V2Transaction) : Nat :=
  (txn.FileContractResolutions.map (fun r =>
    if (ext.Resolution_as_V2FileContractRenewal r).2 then contractCost (ext.Resolution_as_V2FileContractRenewal r).1.NewContract else 0)).sum

structure FCWF2 (fc : V2FileContract) : Prop where
  renter : WF fc.RenterOutput.Value
  host : WF fc.HostOutput.Value

/-- every currency the balance check reads is a genuine pair of 64-bit words -/
structure TxnCurWF (ext : Ext) (txn : V2Transaction) : Prop where
  ins : ∀ i ∈ txn.SiacoinInputs, WF i.Parent.SiacoinOutput.Value
  outs : ∀ o ∈ txn.SiacoinOutputs, WF o.Value
  fcs : ∀ fc ∈ txn.FileContracts, FCWF2 fc
  res : ∀ r ∈ txn.FileContractResolutions, (ext.Resolution_as_V2FileContractRenewal r).2 = true →
          WF (ext.Resolution_as_V2FileContractRenewal r).1.RenterRollover ∧ WF (ext.Resolution_as_V2FileContractRenewal r).1.HostRollover ∧
          FCWF2 (ext.Resolution_as_V2FileContractRenewal r).1.NewContract
  fee : WF txn.MinerFee

theorem WF0 : WF ({} : Currency) := ⟨by decide, by decide⟩
theorem val0 : val ({} : Currency) = 0 := by decide

theorem addo_step {a f : Currency} (ha : WF a) (hf : WF f) (h : (a.AddWithOverflow f).2 = false) :
    WF (a.AddWithOverflow f).1 ∧ val (a.AddWithOverflow f).1 = val a + val f := by
  obtain ⟨w, v, o⟩ := c15_add a f ha hf
  have : ¬ W2 ≤ val a + val f := fun hh => by rw [o.mpr hh] at h; cases h
  refine ⟨w, ?_⟩
  rw [v]; exact Nat.mod_eq_of_lt (by omega)

/-- adding a contract's cost with the three panicking `Add`s and the generated tax function -/
theorem cost_step (s : State) {acc out : Currency} {fc : V2FileContract} (ha : WF acc) (hfc : FCWF2 fc)
    (h : (do
      let t_7 ← Currency.Add acc fc.RenterOutput.Value
      let t_8 ← Currency.Add t_7 fc.HostOutput.Value
      let t_9 ← State.V2FileContractTax s fc
      let t_10 ← Currency.Add t_8 t_9
      pure t_10 : Except String Currency) = .ok out) :
    WF out ∧ val out = val acc + contractCost fc := by
  obtain ⟨t7, e7, h⟩ := bind_ok h
  obtain ⟨t8, e8, h⟩ := bind_ok h
  obtain ⟨t9, e9, h⟩ := bind_ok h
  obtain ⟨w7, v7, _⟩ := add_inv ha hfc.renter e7
  obtain ⟨w8, v8, _⟩ := add_inv w7 hfc.host e8
  obtain ⟨w9, v9, _⟩ := tax_inv s hfc.renter hfc.host e9
  obtain ⟨w10, v10, _⟩ := add_inv w8 w9 h
  exact ⟨w10, by unfold contractCost; omega⟩

/-- per-iteration relations of the four loops -/
def InStep (sci : V2SiacoinInput) (st st' : Currency) : Prop :=
  (st.AddWithOverflow sci.Parent.SiacoinOutput.Value).2 = false ∧ st' = (st.AddWithOverflow sci.Parent.SiacoinOutput.Value).1
def OutStep (o : SiacoinOutput) (st st' : Currency) : Prop :=
  o.Value.IsZero = false ∧ st.Add o.Value = .ok st'
def FcStep (s : State) (fc : V2FileContract) (st st' : Currency) : Prop :=
  (do let t_7 ← Currency.Add st fc.RenterOutput.Value
      let t_8 ← Currency.Add t_7 fc.HostOutput.Value
      let t_9 ← State.V2FileContractTax s fc
      let t_10 ← Currency.Add t_8 t_9
      pure t_10 : Except String Currency) = .ok st'
def ResStep (ext : Ext) (s : State) (fcr : V2FileContractResolution) (st st' : Currency × Currency) : Prop :=
  if (ext.Resolution_as_V2FileContractRenewal fcr).2 = true then
    (st.1.AddWithOverflow (ext.Resolution_as_V2FileContractRenewal fcr).1.RenterRollover).2 = false ∧
    ((st.1.AddWithOverflow (ext.Resolution_as_V2FileContractRenewal fcr).1.RenterRollover).1.AddWithOverflow
        (ext.Resolution_as_V2FileContractRenewal fcr).1.HostRollover).2 = false ∧
    st'.1 = ((st.1.AddWithOverflow (ext.Resolution_as_V2FileContractRenewal fcr).1.RenterRollover).1.AddWithOverflow
        (ext.Resolution_as_V2FileContractRenewal fcr).1.HostRollover).1 ∧
    FcStep s (ext.Resolution_as_V2FileContractRenewal fcr).1.NewContract st.2 st'.2
  else st' = st

theorem isZero_false_val' {c : Currency} (h : c.IsZero = false) : val c ≠ 0 := by
  unfold Currency.IsZero ZeroCurrency at h
  simp at h
  unfold val
  intro hv
  apply h
  have h1 : c.Hi = 0 := by omega
  have h2 : c.Lo = 0 := by omega
  cases c with
  | mk lo hi => simp at h1 h2; subst h1; subst h2; rfl

theorem in_chain (xs : List V2SiacoinInput) (st st' : Currency) (c : Chain InStep xs st st')
    (hw : ∀ i ∈ xs, WF i.Parent.SiacoinOutput.Value) (ha : WF st) :
    WF st' ∧ val st' = val st + (xs.map (fun i => val i.Parent.SiacoinOutput.Value)).sum :=
  Chain.sum (m := val) (I := WF) (ok := fun i : V2SiacoinInput => WF i.Parent.SiacoinOutput.Value)
    (fun x st st' r okx hi => by obtain ⟨h1, h2⟩ := r; subst h2; exact addo_step hi okx h1) xs st st' c hw ha

theorem out_chain (xs : List SiacoinOutput) (st st' : Currency) (c : Chain OutStep xs st st')
    (hw : ∀ o ∈ xs, WF o.Value) (ha : WF st) :
    WF st' ∧ val st' = val st + (xs.map (fun o => val o.Value)).sum :=
  Chain.sum (m := val) (I := WF) (ok := fun o : SiacoinOutput => WF o.Value)
    (fun x st st' r okx hi => by obtain ⟨_, h2⟩ := r; obtain ⟨w, v, _⟩ := add_inv hi okx h2; exact ⟨w, v⟩) xs st st' c hw ha

theorem fc_chain (s : State) (xs : List V2FileContract) (st st' : Currency) (c : Chain (FcStep s) xs st st')
    (hw : ∀ fc ∈ xs, FCWF2 fc) (ha : WF st) :
    WF st' ∧ val st' = val st + (xs.map contractCost).sum :=
  Chain.sum (m := val) (I := WF) (ok := FCWF2)
    (fun x st st' r okx hi => cost_step s hi okx r) xs st st' c hw ha

/-- one resolution step keeps both sums genuine and adds the rollovers / the new contract's cost -/
theorem res_step (ext : Ext) (s : State) (r : V2FileContractResolution) (st st' : Currency × Currency)
    (h : ResStep ext s r st st')
    (ok : (ext.Resolution_as_V2FileContractRenewal r).2 = true →
          WF (ext.Resolution_as_V2FileContractRenewal r).1.RenterRollover ∧ WF (ext.Resolution_as_V2FileContractRenewal r).1.HostRollover ∧
          FCWF2 (ext.Resolution_as_V2FileContractRenewal r).1.NewContract)
    (hi : WF st.1 ∧ WF st.2) :
    (WF st'.1 ∧ WF st'.2) ∧
    val st'.1 = val st.1 + (if (ext.Resolution_as_V2FileContractRenewal r).2 then
        val (ext.Resolution_as_V2FileContractRenewal r).1.RenterRollover + val (ext.Resolution_as_V2FileContractRenewal r).1.HostRollover else 0) ∧
    val st'.2 = val st.2 + (if (ext.Resolution_as_V2FileContractRenewal r).2 then
        contractCost (ext.Resolution_as_V2FileContractRenewal r).1.NewContract else 0) := by
  unfold ResStep at h
  by_cases hr : (ext.Resolution_as_V2FileContractRenewal r).2 = true
  · simp only [hr, if_true] at h ⊢
    obtain ⟨wr, wh, wn⟩ := ok hr
    obtain ⟨h1, h2, h3, h4⟩ := h
    obtain ⟨a1, a2⟩ := addo_step hi.1 wr h1
    obtain ⟨b1, b2⟩ := addo_step a1 wh h2
    obtain ⟨c1, c2⟩ := cost_step s hi.2 wn h4
    rw [h3]
    exact ⟨⟨b1, c1⟩, by omega, c2⟩
  · have hr' : (ext.Resolution_as_V2FileContractRenewal r).2 = false := by simpa using hr
    simp only [hr', Bool.false_eq_true, if_false] at h ⊢
    subst h
    exact ⟨hi, by omega, by omega⟩

theorem res_chain (ext : Ext) (s : State) (xs : List V2FileContractResolution) (st st' : Currency × Currency)
    (c : Chain (ResStep ext s) xs st st')
    (hw : ∀ r ∈ xs, (ext.Resolution_as_V2FileContractRenewal r).2 = true →
          WF (ext.Resolution_as_V2FileContractRenewal r).1.RenterRollover ∧ WF (ext.Resolution_as_V2FileContractRenewal r).1.HostRollover ∧
          FCWF2 (ext.Resolution_as_V2FileContractRenewal r).1.NewContract)
    (hi : WF st.1 ∧ WF st.2) :
    (WF st'.1 ∧ WF st'.2) ∧
    val st'.1 = val st.1 + (xs.map (fun r => if (ext.Resolution_as_V2FileContractRenewal r).2 then
        val (ext.Resolution_as_V2FileContractRenewal r).1.RenterRollover + val (ext.Resolution_as_V2FileContractRenewal r).1.HostRollover else 0)).sum ∧
    val st'.2 = val st.2 + (xs.map (fun r => if (ext.Resolution_as_V2FileContractRenewal r).2 then
        contractCost (ext.Resolution_as_V2FileContractRenewal r).1.NewContract else 0)).sum := by
  have A := Chain.sum (R := ResStep ext s) (m := fun st : Currency × Currency => val st.1) (I := fun st => WF st.1 ∧ WF st.2)
    (wt := fun r => if (ext.Resolution_as_V2FileContractRenewal r).2 then
        val (ext.Resolution_as_V2FileContractRenewal r).1.RenterRollover + val (ext.Resolution_as_V2FileContractRenewal r).1.HostRollover else 0)
    (ok := fun r => (ext.Resolution_as_V2FileContractRenewal r).2 = true →
          WF (ext.Resolution_as_V2FileContractRenewal r).1.RenterRollover ∧ WF (ext.Resolution_as_V2FileContractRenewal r).1.HostRollover ∧
          FCWF2 (ext.Resolution_as_V2FileContractRenewal r).1.NewContract)
    (fun x st st' r okx hi => by obtain ⟨p, q, _⟩ := res_step ext s x st st' r okx hi; exact ⟨p, q⟩) xs st st' c hw hi
  have B := Chain.sum (R := ResStep ext s) (m := fun st : Currency × Currency => val st.2) (I := fun st => WF st.1 ∧ WF st.2)
    (wt := fun r => if (ext.Resolution_as_V2FileContractRenewal r).2 then
        contractCost (ext.Resolution_as_V2FileContractRenewal r).1.NewContract else 0)
    (ok := fun r => (ext.Resolution_as_V2FileContractRenewal r).2 = true →
          WF (ext.Resolution_as_V2FileContractRenewal r).1.RenterRollover ∧ WF (ext.Resolution_as_V2FileContractRenewal r).1.HostRollover ∧
          FCWF2 (ext.Resolution_as_V2FileContractRenewal r).1.NewContract)
    (fun x st st' r okx hi => by obtain ⟨p, _, q⟩ := res_step ext s x st st' r okx hi; exact ⟨p, q⟩) xs st st' c hw hi
  exact ⟨A.1, A.2, B.2⟩

/--
**The balance equation of an accepted v2 transaction**, about the second half of `consensus.validateV2Siacoins` as
regenerated from the source.
-/
theorem c01_v2_txn_balance_gen (ext : Ext) (ms : MidState) (txn : V2Transaction) (hw : TxnCurWF ext txn)
    (h : validateV2Siacoins_balance ext txn ms = .ok none) :
    inSum txn + resIn ext txn = outSumV2 txn + fcSum txn + resOut ext txn + val txn.MinerFee ∧
    inSum txn + resIn ext txn < W2 ∧
    (∀ o ∈ txn.SiacoinOutputs, val o.Value ≠ 0) := by
  unfold validateV2Siacoins_balance at h
  simp only [bind, Except.bind] at h
  -- loop 1: inputs
  split at h
  · cases h
  rename_i v1 hv1
  obtain ⟨r1, in1⟩ := v1
  cases r1 with
  | some q =>
    simp [pure, Except.pure] at h; subst h; exfalso
    have := forRange_some (P := fun r => r ≠ (none : Option String)) ?_ txn.SiacoinInputs _ none in1 hv1
    · exact this rfl
    intro i x st r st' hx
    split at hx <;> simp [pure, Except.pure] at hx
    rw [← hx.1]; simp
  | none =>
    have c1 : Chain InStep txn.SiacoinInputs {} in1 := by
      refine forRange_none (R := InStep) ?_ txn.SiacoinInputs _ _ hv1
      intro i x st st' hx
      by_cases o : (st.AddWithOverflow x.Parent.SiacoinOutput.Value).snd = true
      · simp [o, pure, Except.pure] at hx
      · have o' : (st.AddWithOverflow x.Parent.SiacoinOutput.Value).snd = false := by simpa using o
        simp [o, pure, Except.pure] at hx
        exact ⟨o', hx.symm⟩
    obtain ⟨wi1, vi1⟩ := in_chain _ _ _ c1 hw.ins WF0
    simp only [] at h
    -- loop 2: outputs
    split at h
    · cases h
    rename_i v2 hv2
    obtain ⟨r2, out2⟩ := v2
    cases r2 with
    | some q =>
      simp [pure, Except.pure] at h; subst h; exfalso
      have := forRange_some (P := fun r => r ≠ (none : Option String)) ?_ txn.SiacoinOutputs _ none out2 hv2
      · exact this rfl
      intro i x st r st' hx
      by_cases z : x.Value.IsZero = true
      · simp [z, pure, Except.pure] at hx; rw [← hx.1]; simp
      · simp only [z, Bool.false_eq_true, if_false] at hx
        split at hx <;> simp [pure, Except.pure] at hx
    | none =>
      have c2 : Chain OutStep txn.SiacoinOutputs {} out2 := by
        refine forRange_none (R := OutStep) ?_ txn.SiacoinOutputs _ _ hv2
        intro i x st st' hx
        by_cases z : x.Value.IsZero = true
        · simp [z, pure, Except.pure] at hx
        · simp only [z, Bool.false_eq_true, if_false] at hx
          split at hx
          · cases hx
          · rename_i t ht
            simp [pure, Except.pure] at hx
            exact ⟨by simpa using z, by rw [ht, hx]⟩
      obtain ⟨wo2, vo2⟩ := out_chain _ _ _ c2 hw.outs WF0
      have nz : ∀ o ∈ txn.SiacoinOutputs, val o.Value ≠ 0 := fun o ho =>
        isZero_false_val' (Chain.all (Q := fun o : SiacoinOutput => o.Value.IsZero = false) (fun _ _ _ r => r.1) _ _ _ c2 o ho)
      simp only [] at h
      -- loop 3: contracts
      split at h
      · cases h
      rename_i v3 hv3
      obtain ⟨r3, out3⟩ := v3
      cases r3 with
      | some q =>
        simp [pure, Except.pure] at h; subst h; exfalso
        have := forRange_some (P := fun r => r ≠ (none : Option String)) ?_ txn.FileContracts _ none out3 hv3
        · exact this rfl
        intro i x st r st' hx
        repeat (split at hx; · cases hx)
        simp [pure, Except.pure] at hx
      | none =>
        have c3 : Chain (FcStep ms.base) txn.FileContracts out2 out3 := by
          refine forRange_none (R := FcStep ms.base) ?_ txn.FileContracts _ _ hv3
          intro i x st st' hx
          unfold FcStep
          simp only [bind, Except.bind]
          cases e1 : st.Add x.RenterOutput.Value with
          | error e => simp [e1] at hx
          | ok a =>
            simp only [e1] at hx ⊢
            cases e2 : a.Add x.HostOutput.Value with
            | error e => simp [e2] at hx
            | ok b =>
              simp only [e2] at hx ⊢
              cases e3 : State.V2FileContractTax ms.base x with
              | error e => simp [e3] at hx
              | ok t =>
                simp only [e3] at hx ⊢
                cases e4 : b.Add t with
                | error e => simp [e4] at hx
                | ok d =>
                  simp [e4, pure, Except.pure] at hx ⊢
                  exact hx
        obtain ⟨wo3, vo3⟩ := fc_chain ms.base _ _ _ c3 hw.fcs wo2
        simp only [] at h
        -- loop 4: resolutions
        split at h
        · cases h
        rename_i v4 hv4
        obtain ⟨r4, st4⟩ := v4
        cases r4 with
        | some q =>
          simp [pure, Except.pure] at h; subst h; exfalso
          have := forRange_some (P := fun r => r ≠ (none : Option String)) ?_ txn.FileContractResolutions _ none st4 hv4
          · exact this rfl
          intro i x st r st' hx
          by_cases k : (ext.Resolution_as_V2FileContractRenewal x).2 = true
          · simp only [k, if_true] at hx
            by_cases o1 : (st.1.AddWithOverflow (ext.Resolution_as_V2FileContractRenewal x).1.RenterRollover).2 = true
            · simp [o1, pure, Except.pure] at hx; rw [← hx.1]; simp
            · simp only [o1, Bool.false_eq_true, if_false] at hx
              by_cases o2 : ((st.1.AddWithOverflow (ext.Resolution_as_V2FileContractRenewal x).1.RenterRollover).1.AddWithOverflow (ext.Resolution_as_V2FileContractRenewal x).1.HostRollover).2 = true
              · simp [o2, pure, Except.pure] at hx; rw [← hx.1]; simp
              · simp only [o2, Bool.false_eq_true, if_false] at hx
                repeat (split at hx; · cases hx)
                simp [pure, Except.pure] at hx
          · simp [k, pure, Except.pure] at hx
        | none =>
          have c4 : Chain (ResStep ext ms.base) txn.FileContractResolutions (in1, out3) st4 := by
            refine forRange_none (R := ResStep ext ms.base) ?_ txn.FileContractResolutions _ _ hv4
            intro i x st st' hx
            unfold ResStep
            by_cases k : (ext.Resolution_as_V2FileContractRenewal x).2 = true
            · simp only [k, if_true] at hx ⊢
              by_cases o1 : (st.1.AddWithOverflow (ext.Resolution_as_V2FileContractRenewal x).1.RenterRollover).2 = true
              · simp [o1, pure, Except.pure] at hx
              · have o1' : (st.1.AddWithOverflow (ext.Resolution_as_V2FileContractRenewal x).1.RenterRollover).2 = false := by simpa using o1
                simp only [o1, Bool.false_eq_true, if_false] at hx
                by_cases o2 : ((st.1.AddWithOverflow (ext.Resolution_as_V2FileContractRenewal x).1.RenterRollover).1.AddWithOverflow (ext.Resolution_as_V2FileContractRenewal x).1.HostRollover).2 = true
                · simp [o2, pure, Except.pure] at hx
                · have o2' : ((st.1.AddWithOverflow (ext.Resolution_as_V2FileContractRenewal x).1.RenterRollover).1.AddWithOverflow (ext.Resolution_as_V2FileContractRenewal x).1.HostRollover).2 = false := by simpa using o2
                  simp only [o2, Bool.false_eq_true, if_false] at hx
                  unfold FcStep
                  simp only [bind, Except.bind]
                  cases e1 : st.2.Add (ext.Resolution_as_V2FileContractRenewal x).1.NewContract.RenterOutput.Value with
                  | error e => simp [e1] at hx
                  | ok a =>
                    simp only [e1] at hx ⊢
                    cases e2 : a.Add (ext.Resolution_as_V2FileContractRenewal x).1.NewContract.HostOutput.Value with
                    | error e => simp [e2] at hx
                    | ok b =>
                      simp only [e2] at hx ⊢
                      cases e3 : State.V2FileContractTax ms.base (ext.Resolution_as_V2FileContractRenewal x).1.NewContract with
                      | error e => simp [e3] at hx
                      | ok t =>
                        simp only [e3] at hx ⊢
                        cases e4 : b.Add t with
                        | error e => simp [e4] at hx
                        | ok d =>
                          simp [e4, pure, Except.pure] at hx ⊢
                          rw [← hx]
                          exact ⟨o1', o2', rfl, rfl⟩
            · have k' : (ext.Resolution_as_V2FileContractRenewal x).2 = false := by simpa using k
              simp [k', pure, Except.pure] at hx ⊢
              exact hx.symm
          obtain ⟨⟨w41, w42⟩, v41, v42⟩ := res_chain ext ms.base _ _ _ c4 hw.res ⟨wi1, wo3⟩
          simp only [] at h
          cases e5 : st4.2.Add txn.MinerFee with
          | error e => simp [e5] at h
          | ok t22 =>
            simp only [e5] at h
            by_cases hne : st4.1 ≠ t22
            · simp [hne, pure, Except.pure] at h
            · have heq : st4.1 = t22 := Classical.not_not.mp hne
              obtain ⟨w5, v5, _⟩ := add_inv w42 hw.fee e5
              have hv : val st4.1 = val t22 := by rw [heq]
              rw [val0] at vi1 vo2
              simp only [] at v41 v42
              refine ⟨?_, ?_, nz⟩
              · unfold inSum resIn outSumV2 fcSum resOut; omega
              · unfold inSum resIn
                have : val st4.1 < W2 := by unfold val; obtain ⟨a, b⟩ := w41; omega
                omega

/-! ### non-vacuity: a balanced transaction with a renewal is accepted, an unbalanced one rejected -/

/-- every resolution is a renewal rolling over 3 + 2 into a new contract of 20 + 30 (tax 2) -/
def extRenew : Ext :=
  { Ext.trivial with Resolution_as_V2FileContractRenewal := fun _ =>
      ({ RenterRollover := { Lo := 3 }, HostRollover := { Lo := 2 },
         NewContract := { RenterOutput := { Value := { Lo := 20 } }, HostOutput := { Value := { Lo := 30 } } } }, true) }

def sampleTxn : V2Transaction :=
  { SiacoinInputs := [{ Parent := { SiacoinOutput := { Value := { Lo := 100 } } } }, { Parent := { SiacoinOutput := { Value := { Lo := 11 } } } }],
    SiacoinOutputs := [{ Value := { Lo := 4 } }],
    FileContracts := [{ RenterOutput := { Value := { Lo := 25 } }, HostOutput := { Value := { Lo := 25 } } }],  -- cost 52
    FileContractResolutions := [{}],                                                                           -- +5 in, 52 out
    MinerFee := { Lo := 8 } }

example : validateV2Siacoins_balance extRenew sampleTxn {} = .ok none := by rfl   -- 111 + 5 = 4 + 52 + 52 + 8
example : validateV2Siacoins_balance extRenew { sampleTxn with MinerFee := { Lo := 9 } } {}
    = .ok (some "siacoin inputs (%v) do not equal outputs (%v)") := by rfl
example : validateV2Siacoins_balance extRenew { sampleTxn with SiacoinOutputs := [{ Value := { Lo := 4 } }, {}] } {}
    = .ok (some "siacoin output %v has zero value") := by rfl

end C01
