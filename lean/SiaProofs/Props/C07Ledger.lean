import SiaProofs.Props.C02
import SiaProofs.Lemmas.LedgerC02Payout
/-!
# C07 (ledger part) — contracts pay out exactly once, what their latest revision says;
revisions keep the totals
-/
namespace C07
open Sia.Ledger C08 C02

-- ================================================================= revisions

/-- Every revision of an accepted v1 transaction refers to a contract `p` (the contract as it
currently stands, in-block revisions included) with the same id, keeps the sum of the valid outputs
and the sum of the missed outputs, and strictly raises the revision number. -/
theorem c07_revision_invariants_v1 (ms : Mid) (t : Txn1) (pid mw : Nat)
    (h : validateTransaction ms t pid mw = .ok ()) :
    ∀ r ∈ t.revs, ∃ p, ms.fc1Element t.supp r.parent = some p ∧ p.id = r.parent ∧
      outsTotal r.fc.valid = outsTotal p.fc.valid ∧ outsTotal r.fc.missed = outsTotal p.fc.missed ∧
      p.fc.revNum < r.fc.revNum := by
  intro r hr
  have hfc := ((validateTransaction_ok_iff ms t pid mw).1 h).2.2.2.2.2.2.1
  obtain ⟨p, hp, hrules⟩ := ((validateFileContracts_ok_iff ms t pid).1 hfc).2.1 r hr
  obtain ⟨a, ha1, ha2⟩ := hrules.validSum
  obtain ⟨c, hc1, hc2⟩ := hrules.missedSum
  refine ⟨p, hp, fc1Element_id hp, ?_, ?_, hrules.revNum⟩
  · rw [← ((sumOuts_ok_iff _ _).1 ha1).1, ← ((sumOuts_ok_iff _ _).1 ha2).1]
  · rw [← ((sumOuts_ok_iff _ _).1 hc1).1, ← ((sumOuts_ok_iff _ _).1 hc2).1]

/-- the revision recorded by `reviseFc1` always carries the payout of the contract it revises -/
theorem reviseFc1_payout (ms : Mid) (e : Fc1Elem) (rev : Fc1) :
    ms.reviseFc1 e rev = ms.reviseFc1 e { rev with payout := e.fc.payout } := rfl

/-- Every revision of an accepted v2 transaction, compared with the contract as it currently stands
(`curFc2`: latest in-block revision, else the ledger's version presented as parent): same
`renter + host`, strictly higher revision number, `missedHost` not raised, `totalCollateral` unchanged. -/
theorem c07_revision_invariants_v2 (ms : Mid) (t : Txn2) (mw : Nat) (h : validateV2Transaction ms t mw = .ok ()) :
    ∀ r ∈ t.revs, r.parent ∈ ms.base.fc2 ∧
      r.rev.renter.value + r.rev.host.value = (ms.curFc2 r.parent).renter.value + (ms.curFc2 r.parent).host.value ∧
      (ms.curFc2 r.parent).revNum < r.rev.revNum ∧ r.rev.missedHost ≤ (ms.curFc2 r.parent).missedHost ∧
      r.rev.totalCollateral = (ms.curFc2 r.parent).totalCollateral := by
  intro r hr
  have hfc := ((validateV2Transaction_ok_iff ms t mw).1 h).2.2.2.2.2.2.1
  have hrules := ((validateV2FileContracts_ok_iff ms t).1 hfc).2.1 r hr
  refine ⟨by simpa [Ledger.hasFc2] using hrules.present, hrules.revision.sum, hrules.revision.revNum,
    hrules.revision.missed, hrules.revision.collateral⟩

example : validateV2Transaction (Ex.M 15) tRev2 100 = .ok () := by decide

-- ================================================================= v2 payouts

/-- One iteration of the resolution loop of `applyV2Transaction` (`a2Res`, shown equal to the model's
loop body in `applyV2Transaction_eq`): the contract is marked resolved (for a renewal the new
contract is formed), which touches neither the siacoin diffs nor `base`, and then exactly two
siacoin outputs are created, `r.payouts`:
renewal ⇒ (finalRenter, finalHost); storage proof ⇒ (parent.renter, parent.host);
expiration ⇒ (parent.renter, (missedHost, host.addr)).  With fresh output ids these are the two
diffs appended to `sces`, both with maturity `maturityHeight`. -/
theorem c07_payout_v2 (s s' : Mid) (r : Resolution2) (h : a2Res s r = .ok s') :
    ∃ s2 : Mid, s2.sces = s.sces ∧ s2.base = s.base ∧
      s' = (s2.createImmatureSc r.renterOutId r.payouts.1).createImmatureSc r.hostOutId r.payouts.2 ∧
      (s2.lookup r.renterOutId = none → s2.lookup r.hostOutId = none → r.hostOutId ≠ r.renterOutId →
        s'.sces = s.sces ++ [createdDiff r.renterOutId r.payouts.1 (maturityHeight s.base),
                             createdDiff r.hostOutId r.payouts.2 (maturityHeight s.base)]) := by
  unfold a2Res at h
  obtain ⟨s1, h1, h⟩ := bind_ok_iff.1 h
  obtain ⟨s2, h2, h⟩ := bind_ok_iff.1 h
  simp at h
  have e1 := resolveFc2_sces_base h1
  have e2 := a2ResNew_sces_base h2
  refine ⟨s2, by rw [e2.1, e1.1], by rw [e2.2, e1.2], h, ?_⟩
  intro f1 f2 hne
  rw [h, createImmatureSc_two_fresh s2 _ _ _ _ f1 f2 hne, e2.1, e1.1, e2.2, e1.2]

/-- the payout table, spelled out -/
theorem c07_payout_v2_table (r : Resolution2) :
    (∀ rn, r.res = .renewal rn → r.payouts = (rn.finalRenter, rn.finalHost)) ∧
    (∀ ih iid a b, r.res = .proof ih iid a b → r.payouts = (r.parent.fc.renter, r.parent.fc.host)) ∧
    (r.res = .expiration →
      r.payouts = (r.parent.fc.renter, { value := r.parent.fc.missedHost, addr := r.parent.fc.host.addr })) := by
  refine ⟨?_, ?_, ?_⟩ <;> intros <;> unfold Resolution2.payouts <;> simp [*]

-- a storage proof at height 16 creates exactly the renter and host outputs, maturing at 16 + 5
example : (applyV2Transaction (Ex.M 16) (tRes2 (.proof 15 1015 true true))).map (·.sces) =
    .ok [createdDiff 601 { value := 60, addr := 1 } 21, createdDiff 602 { value := 40, addr := 2 } 21] := by decide
example : (applyV2Transaction (Ex.M 19) (tRes2 .expiration)).map (·.sces) =
    .ok [createdDiff 601 { value := 60, addr := 1 } 24, createdDiff 602 { value := 30, addr := 2 } 24] := by decide

-- ================================================================= v1 payouts

theorem foldlM_pure {α β} (g : β → α → β) (l : List α) (s : β) :
    l.foldlM (fun s x => (pure (g s x) : VM β)) s = pure (l.foldl g s) := by
  induction l generalizing s with
  | nil => rfl
  | cons a l ih => rw [List.foldlM_cons, pure_bind, ih]; rfl

/-- creating a list of outputs with fresh, pairwise distinct ids appends exactly their diffs -/
theorem createImmatureSc_list_fresh (l : List (ScOut × Id)) (s : Mid)
    (hfresh : ∀ x ∈ l, s.lookup x.2 = none) (hnd : (l.map (·.2)).Nodup) :
    (l.foldl (fun s x => s.createImmatureSc x.2 x.1) s).sces =
      s.sces ++ l.map (fun x => createdDiff x.2 x.1 (maturityHeight s.base)) := by
  induction l generalizing s with
  | nil => simp
  | cons a l ih =>
    simp only [List.foldl_cons, List.map_cons]
    have hnd' := List.nodup_cons.1 hnd
    rw [ih]
    · rw [createImmatureSc_fresh s a.2 a.1 (hfresh a List.mem_cons_self)]
      simp
    · intro x hx
      rw [createImmatureSc_fresh s a.2 a.1 (hfresh a List.mem_cons_self)]
      show List.lookup x.2 (s.elements ++ [(a.2, s.sces.length)]) = none
      refine lookup_append_ne ?_ (hfresh x (List.mem_cons_of_mem _ hx))
      intro heq
      exact hnd'.1 (List.mem_map.2 ⟨x, hx, heq⟩)
    · exact hnd'.2

/-- A v1 storage proof (`a1Proof`, the loop body of `applyTransaction`) resolves the contract the
lookup returns — the diff's *current* version when the contract was created or revised earlier in
the block — as valid and creates its valid outputs, delayed by the maturity period. -/
theorem c07_payout_v1 (t : Txn1) (s s' : Mid) (sp : Proof1) (h : a1Proof t s sp = .ok s') :
    ∃ e, s.fc1Element t.supp sp.parent = some e ∧ e.id = sp.parent ∧
      (∀ d, s.fc1Diff? sp.parent = some d → e = d.current) ∧
      s' = (e.fc.valid.zip sp.outIds).foldl (fun s x => s.createImmatureSc x.2 x.1) (s.resolveFc1 e true) ∧
      ((∀ x ∈ e.fc.valid.zip sp.outIds, (s.resolveFc1 e true).lookup x.2 = none) →
        ((e.fc.valid.zip sp.outIds).map (·.2)).Nodup →
        s'.sces = s.sces ++ (e.fc.valid.zip sp.outIds).map (fun x => createdDiff x.2 x.1 (maturityHeight s.base))) := by
  unfold a1Proof at h
  split at h
  · cases h
  rename_i e he
  have hfold : (e.fc.valid.zip sp.outIds).foldlM a1Payout (s.resolveFc1 e true) =
      pure ((e.fc.valid.zip sp.outIds).foldl (fun s x => s.createImmatureSc x.2 x.1) (s.resolveFc1 e true)) :=
    foldlM_pure _ _ _
  rw [hfold] at h
  simp at h
  refine ⟨e, he, fc1Element_id he, ?_, h, ?_⟩
  · intro d hd
    unfold Mid.fc1Element at he
    rw [hd] at he
    simpa using he.symm
  · intro hfresh hnd
    rw [h, createImmatureSc_list_fresh _ _ hfresh hnd]
    simp

/-- Expiry (`mbExpire`, the loop body of `midApplyBlock`): a contract already resolved in the block
is skipped; otherwise it is resolved as missed and its missed outputs are created. -/
theorem c07_payout_v1_expiry (s s' : Mid) (x : Fc1Elem × List Id) (h : mbExpire s x = .ok s') :
    (s.isSpent x.1.id = true → s' = s) ∧
    (s.isSpent x.1.id = false →
      s' = (x.1.fc.missed.zip x.2).foldl (fun s y => s.createImmatureSc y.2 y.1) (s.resolveFc1 x.1 false) ∧
      ((∀ y ∈ x.1.fc.missed.zip x.2, (s.resolveFc1 x.1 false).lookup y.2 = none) →
        ((x.1.fc.missed.zip x.2).map (·.2)).Nodup →
        s'.sces = s.sces ++ (x.1.fc.missed.zip x.2).map (fun y => createdDiff y.2 y.1 (maturityHeight s.base)))) := by
  unfold mbExpire at h
  constructor
  · intro hs; rw [if_pos hs] at h; simpa using h
  · intro hs
    rw [if_neg (by simp [hs])] at h
    have hfold : (x.1.fc.missed.zip x.2).foldlM a1Payout (s.resolveFc1 x.1 false) =
        pure ((x.1.fc.missed.zip x.2).foldl (fun s y => s.createImmatureSc y.2 y.1) (s.resolveFc1 x.1 false)) :=
      foldlM_pure _ _ _
    rw [hfold] at h
    simp at h
    refine ⟨h, ?_⟩
    intro hfresh hnd
    rw [h, createImmatureSc_list_fresh _ _ hfresh hnd]
    simp

-- ================================================================= a revised v2 contract cannot be proven or expired in the same block

/-- Well-formedness of the ledger used below: contract ids are unique, every chain index lies below
the child height, and every contract leaves time between proof and expiration height (which
`validateContract2` / `validateRevision2` enforce whenever a contract enters the ledger). -/
structure LedgerWF2 (L : Ledger) : Prop where
  ids : ∀ e ∈ L.fc2, ∀ e' ∈ L.fc2, e.id = e'.id → e = e'
  chain : ∀ x ∈ L.chain, x.1 < L.child
  exp : ∀ e ∈ L.fc2, e.fc.proofHeight < e.fc.expHeight

/-- If one transaction of a block revises a v2 contract and another transaction of the same block
(any mid-states `ms1`, `ms2` over the same ledger) resolves it, both accepted, then the resolution
is a renewal: a storage proof needs the block at the proof height to be an ancestor
(`proofHeight < childHeight`), an expiration needs `proofHeight < expirationHeight < childHeight`,
while the revision needs `childHeight ≤ proofHeight`. -/
theorem c07_no_v2_revise_and_pay_same_block (L : Ledger) (hwf : LedgerWF2 L) (ms1 ms2 : Mid)
    (hb1 : ms1.base = L) (hb2 : ms2.base = L) (t1 t2 : Txn2) (mw : Nat)
    (h1 : validateV2Transaction ms1 t1 mw = .ok ()) (h2 : validateV2Transaction ms2 t2 mw = .ok ())
    (r0 : Rev2) (hr0 : r0 ∈ t1.revs) (r : Resolution2) (hr : r ∈ t2.ress) (hid : r0.parent.id = r.parent.id) :
    ∃ rn, r.res = .renewal rn := by
  have hfc1 := ((validateV2Transaction_ok_iff ms1 t1 mw).1 h1).2.2.2.2.2.2.1
  have hfc2 := ((validateV2Transaction_ok_iff ms2 t2 mw).1 h2).2.2.2.2.2.2.1
  have hrev := ((validateV2FileContracts_ok_iff ms1 t1).1 hfc1).2.1 r0 hr0
  have hres := ((validateV2FileContracts_ok_iff ms2 t2).1 hfc2).2.2.2.1 r hr
  have m0 : r0.parent ∈ L.fc2 := by simpa [Ledger.hasFc2, hb1] using hrev.present
  have m1 : r.parent ∈ L.fc2 := by simpa [Ledger.hasFc2, hb2] using hres.present
  have heq : r0.parent = r.parent := hwf.ids _ m0 _ m1 hid
  have hph := hrev.parentProofHeight
  rw [hb1, heq] at hph
  have hk := hres.kind
  unfold Res2KindRules at hk
  cases hres' : r.res with
  | renewal rn => exact ⟨rn, rfl⟩
  | proof ih iid a b =>
    rw [hres'] at hk
    simp only [hb2] at hk
    have := hwf.chain _ hk.2.2.2.1
    simp only [hk.2.1] at this
    omega
  | expiration =>
    rw [hres'] at hk
    simp only [hb2] at hk
    have := hwf.exp _ m1
    omega

def tRenew2 : Txn2 :=
  { Ex.txn2 with ress := [{ parent := Ex.c2, renterOutId := 601, hostOutId := 602, res := .renewal { finalRenter := { value := 50, addr := 1 }, finalHost := { value := 40, addr := 2 }, renterRollover := 10, hostRollover := 0, newContract := { Ex.c2.fc with proofHeight := 30, expHeight := 40, renter := { value := 10, addr := 1 }, host := { value := 0, addr := 2 }, missedHost := 0, totalCollateral := 0 }, newId := 502, newSigOk := true, sigOk := true } }], scIns := [{ parent := Ex.e0, addrOk := true, authOk := true }], fee := 50 }

-- a renewal can follow a revision inside one block (the block revises in one transaction, renews in the next)
example : (do validateV2Transaction (Ex.M 15) tRev2 100
              let ms ← applyV2Transaction (Ex.M 15) tRev2
              validateV2Transaction ms tRenew2 100) = .ok () := by decide
-- … but a second revision or a resolution cannot follow a resolution
example : (do let ms ← applyV2Transaction (Ex.M 15) tRenew2
              validateV2Transaction ms tRev2 100) = .error (.reject "has already been resolved in transaction") := by decide

-- ================================================================= resolved at most once

/-- In an accepted block no contract is resolved twice by storage proofs / v2 resolutions, in
whatever transactions; a contract resolved in the block is not resolved again by the expiry loop;
and nothing revises or resolves a contract once it is recorded as resolved (`c02_spent_in_block_rejected`). -/
theorem c07_resolved_once (L : Ledger) (b : Block) (pid : Id) (ms : Mid) (h : validateBlock L b pid = .ok ms) :
    (Block.fcResolved b).Nodup ∧ (∀ id ∈ Block.fcResolved b, ms.isSpent id = true) ∧
    (∀ (s s' : Mid) (x : Fc1Elem × List Id), s.isSpent x.1.id = true → mbExpire s x = .ok s' → s' = s) := by
  obtain ⟨_, _, h3, h4⟩ := c02_block_no_repeats L b pid ms h
  refine ⟨h3, fun id hid => h4 id (List.mem_append_right _ hid), ?_⟩
  intro s s' x hs hx
  exact (c07_payout_v1_expiry s s' x hx).1 hs

end C07
