import SiaProofs.Props.C13Total
/-!
# C13 — how far `Margin` can be assumed, and what happens beyond it

`c13_apply_header_total` / `c13_chain_total` assume the work margin `Margin` at every step.
This file settles the status of that assumption for the v2 eras (`childHeight ≥ AllowHeight`,
the live and all future rules of a network):

* `c13_margin_preserved` / `c13_chain_total_bounded`: an invariant `MarginInv r` with a
  *budget* `r` of blocks IS preserved — each accepted header consumes one unit — and implies
  `Margin`. No per-step hypothesis. The budget of a state with difficulty `D` is the largest
  `r` with `(D + 250)·(251/250)^r ≤ 2^191`, about `173.6 · (191 − log₂ D)` blocks: ≈ 21 900
  blocks from `D = 2^65`.
* `c13_margin_boundary_witness`: beyond the budget the assumption is genuinely violable.
  Difficulty may rise 0.4 % per block for as long as timestamps lag the schedule (constant
  timestamps satisfy the median-time rule), and at `OakWork · 3·BlockInterval[ns] ≥ 2^256`
  (`D ≈ 2^208` for 10-minute blocks) `adjustDifficultyFinalCut`'s `OakWork.mul64(targetInterval)`
  overflows and `ApplyHeader` PANICS. The witness is a 3-header chain on a `NetworkWF` network
  whose initial difficulty is already 2^216 (the same state is reached from `D = 2^64` by
  24 917 constant-timestamp headers: replayed against the real code by the harness, sub-check
  C13B). Every header of the witness satisfies the header rules (tip, median time, nonce,
  ID ≤ target); what no miner can do is find IDs that small — 2^216 hashes per block.
-/
namespace C13
open Sia.Pow

/-! ## a preserved invariant with a block budget (v2 eras) -/

/-- `r` more blocks can be applied without leaving the work margin -/
def MarginInv (r : Nat) (s : PowState) : Prop :=
  s.height + r + 2 < 18446744073709551616 ∧
  (s.difficulty + 250) * 251 ^ r ≤ 3138550867693340381917894711603833208051177722232017256448 * 250 ^ r ∧
  s.oakWork ≤ 627710173538668076383578942320766641610235544446403451289800 ∧
  s.totalWork + r * 3138550867693340381917894711603833208051177722232017256448 <
    57896044618658097711785492504343953926634992332820282019728792003956564819968

theorem MarginInv.difficulty_le {r : Nat} {s : PowState} (h : MarginInv r s) :
    s.difficulty + 250 ≤ 3138550867693340381917894711603833208051177722232017256448 := by
  obtain ⟨-, h2, -, -⟩ := h
  have hp : 250 ^ r ≤ 251 ^ r := Nat.pow_le_pow_left (by omega) r
  have hpos : 0 < 251 ^ r := Nat.pow_pos (by omega)
  have h3 : (s.difficulty + 250) * 251 ^ r ≤ 3138550867693340381917894711603833208051177722232017256448 * 251 ^ r :=
    Nat.le_trans h2 (Nat.mul_le_mul_left _ hp)
  exact Nat.le_of_mul_le_mul_right h3 hpos

/-- the invariant implies the per-step margin (in the v2 eras) -/
theorem MarginInv.margin {n : Network} {r : Nat} {s : PowState} (h : MarginInv r s)
    (hv2 : n.v2AllowHeight ≤ s.childHeight) : Margin n s := by
  have hd := h.difficulty_le
  obtain ⟨h1, -, h3, h4⟩ := h
  refine ⟨by omega, fun c => by omega, fun _ => ⟨by omega, by omega, by omega⟩⟩

theorem step_ineq (a b : Nat) (h : b ≤ a + a / 250 + 1) : (b + 250) * 250 ≤ (a + 250) * 251 := by omega

/-- one accepted header in a v2 era consumes one unit of budget -/
theorem c13_margin_preserved {n : Network} {s s' : PowState} {h : Header} {tt : Int} {r : Nat}
    (hinv : PowInv n s) (hm : MarginInv (r + 1) s) (hv2 : n.v2AllowHeight ≤ s.childHeight)
    (hpar : h.parentID = s.id) (hok : applyHeader n s h tt = .ok s') :
    MarginInv r s' ∧ n.v2AllowHeight ≤ s'.childHeight := by
  have hdle := hm.difficulty_le
  have hinv0 := hinv
  obtain ⟨m1, m2, m3, m4⟩ := hm
  obtain ⟨hh, -, hdp, hct, -, -, -, -, -, -, hd1, hid, -, -⟩ := hinv
  -- what the step does to the three work fields and the height
  have key : s'.difficulty ≤ s.difficulty + s.difficulty / 250 + 1 ∧
      s'.totalWork ≤ s.totalWork + s.difficulty ∧
      s'.oakWork = s.oakWork - s.oakWork / 200 + s.difficulty ∧
      s'.height + 1 ≤ s.height + 2 ∧ s.childHeight ≤ s'.childHeight + 18446744073709551616 * 0 ∧
      (s.height = GEN → s'.height = 0) ∧ (s.height ≠ GEN → s'.height = s.height + 1) := by
    have how : ∀ ow ot, updateOakWork n s = .ok (ow, ot) → ow = s.oakWork - s.oakWork / 200 + s.difficulty := by
      intro ow ot e
      unfold updateOakWork at e
      rw [if_neg (by omega)] at e
      simp only [bind_eq_ok, wdiv64_eq_ok, wsub_eq_ok, wadd_eq_ok, invTarget_eq_ok, pure_eq_ok, Prod.mk.injEq] at e
      obtain ⟨q, ⟨-, rfl⟩, a, ⟨-, rfl⟩, w, ⟨-, rfl⟩, t, -, rfl, -⟩ := e
      rfl
    by_cases hp : h.parentID = 0
    · obtain ⟨ow, ot, h3, hT, hD, hO, -, hH, -, -, -⟩ := applyHeader_inv_genesis hp hok
      have hgen : s.height = GEN := hid.1 (by omega)
      have hch : s.childHeight = 0 := by unfold PowState.childHeight; omega
      refine ⟨by omega, by omega, by rw [hO]; exact how _ _ h3, by omega, by omega, fun _ => hH, fun c => absurd hgen c⟩
    · obtain ⟨tw, dp, d, ct, ow, ot, h1, h2, h3, hT, hD, hO, -, hH, -, -, -⟩ := applyHeader_inv hp hok
      have hne : s.height ≠ GEN := fun e => hp (by rw [hpar]; exact hid.2 e)
      have g := c13_margin_growth_v2 hinv0 hp hv2 hok
      obtain ⟨g1, g2, -⟩ := g
      have hch' : s'.childHeight = s.childHeight + 1 := by unfold PowState.childHeight; omega
      refine ⟨by omega, by omega, by rw [hO]; exact how _ _ h3, by omega, by omega, fun c => absurd c hne, fun _ => by omega⟩
  obtain ⟨k1, k2, k3, k4, k5, k6, k7⟩ := key
  have hch' : n.v2AllowHeight ≤ s'.childHeight := by
    by_cases hg : s.height = GEN
    · have : s.childHeight = 0 := by unfold PowState.childHeight; omega
      omega
    · have := k7 hg
      unfold PowState.childHeight at hv2 ⊢; omega
  refine ⟨⟨by omega, ?_, by omega, ?_⟩, hch'⟩
  · -- (D' + 250)·250 ≤ (D + 250)·251, then cancel one factor 250
    have hstep : (s'.difficulty + 250) * 250 ≤ (s.difficulty + 250) * 251 := step_ineq _ _ k1
    have hpos : 0 < 250 := by omega
    apply Nat.le_of_mul_le_mul_right (c := 250) _ hpos
    calc (s'.difficulty + 250) * 251 ^ r * 250
        = (s'.difficulty + 250) * 250 * 251 ^ r := by rw [Nat.mul_right_comm]
      _ ≤ (s.difficulty + 250) * 251 * 251 ^ r := Nat.mul_le_mul_right _ hstep
      _ = (s.difficulty + 250) * 251 ^ (r + 1) := by rw [Nat.mul_assoc, ← Nat.pow_succ']
      _ ≤ 3138550867693340381917894711603833208051177722232017256448 * 250 ^ (r + 1) := m2
      _ = 3138550867693340381917894711603833208051177722232017256448 * 250 ^ r * 250 := by
          rw [Nat.pow_succ, Nat.mul_assoc]
  · have : (r + 1) * 3138550867693340381917894711603833208051177722232017256448 =
        r * 3138550867693340381917894711603833208051177722232017256448 + 3138550867693340381917894711603833208051177722232017256448 := by
      rw [Nat.add_mul, Nat.one_mul]
    omega

/-- links only: every header extends the tip reached so far and has a non-zero ID.
    No margin, no condition on timestamps. -/
def ChainLinked (n : Network) (s : PowState) : List (Header × Int) → Prop
  | [] => True
  | (h, tt) :: rest => h.parentID = s.id ∧ h.id ≠ 0 ∧
      ∀ s', applyHeader n s h tt = .ok s' → ChainLinked n s' rest

/-- **Applying headers never fails within the budget** — no per-step margin hypothesis:
    from a v2-era state with budget `r`, every linked chain of at most `r` headers applies
    without panic, whatever its timestamps, and the invariants hold again with the rest of
    the budget. -/
theorem c13_chain_total_bounded {n : Network} (hwf : n.WF) (hs : List (Header × Int)) :
    ∀ (r : Nat) (s : PowState), PowInv n s → MarginInv (hs.length + r) s → n.v2AllowHeight ≤ s.childHeight →
      ChainLinked n s hs → ∃ s', applyChain n s hs = .ok s' ∧ PowInv n s' ∧ MarginInv r s' := by
  induction hs with
  | nil => intro r s hinv hm _ _; exact ⟨s, rfl, hinv, by simpa using hm⟩
  | cons x rest ih =>
    intro r s hinv hm hv2 hc
    obtain ⟨h, tt⟩ := x
    obtain ⟨hpar, hid, hrest⟩ := hc
    have hm' : MarginInv ((rest.length + r) + 1) s := by
      have : (((h, tt) :: rest).length + r) = (rest.length + r) + 1 := by simp; omega
      rw [this] at hm; exact hm
    obtain ⟨s1, hok, hinv1⟩ := c13_apply_header_total tt hwf hinv (hm'.margin hv2) hpar hid
    obtain ⟨hm1, hv1⟩ := c13_margin_preserved hinv hm' hv2 hpar hok
    obtain ⟨s', h', r1, r2⟩ := ih r s1 hinv1 hm1 hv1 (hrest s1 hok)
    refine ⟨s', ?_, r1, r2⟩
    show (applyHeader n s h tt >>= fun s' => applyChain n s' rest) = .ok s'
    rw [hok]; exact h'

set_option exponentiation.threshold 30000 in
set_option maxRecDepth 100000 in
/-- satisfiable and sizeable: the mainnet-like v2 state of `C13Total` (difficulty 1.8·10^19 ≈ 2^64)
    has a budget of at least 20 000 blocks -/
example : MarginInv 20000 exFC := by
  unfold MarginInv exFC exV2
  refine ⟨by decide, by decide, by decide, by decide⟩

/-! ## beyond the budget: the margin is violable by headers the rules accept -/

/-- a well-formed network with the final-cut rules from genesis and initial difficulty 2^216 -/
def wnet : Network :=
  { blockInterval := 600 * 1000000000, initialTarget := 2 ^ 40,
    oakHeight := 0, oakFixHeight := 0, oakGenesisTs := 0,
    asicHeight := 0, asicOakTime := 0, asicOakTarget := 2 ^ 40,
    asicNonceFactor := 1, v2AllowHeight := 0, v2FinalCutHeight := 0 }

/-- header `i` of the witness: extends header `i-1`, same timestamp as every predecessor,
    nonce 0, a (tiny) ID -/
def whdr (i : Nat) : Header := { parentID := i, timestamp := 0, nonce := 0, id := i + 1 }

def wrun : Nat → Except String PowState
  | 0 => genesisState wnet
  | k + 1 => wrun k >>= fun s => applyHeader wnet s (whdr k) 0

/-- header `k` satisfies the four acceptance conditions of `ValidateHeader` on the state before it
    (timestamp ≥ every earlier timestamp, hence ≥ their median) -/
def wvalid (k : Nat) : Bool :=
  match wrun k with
  | .ok s =>
    decide ((whdr k).parentID = s.id) && (s.prevTimestamps.take s.numTimestamps).all (fun t => decide (t ≤ (whdr k).timestamp)) &&
    decide ((whdr k).nonce % nonceFactor wnet s = 0) &&
    (match powTarget wnet s with | .ok t => decide ((whdr k).id ≤ t) | .error _ => false)
  | .error _ => false

set_option maxRecDepth 100000 in
/-- **Witness.** On the well-formed network `wnet`, the genesis header and header 1 apply,
    headers 1 and 2 satisfy every acceptance condition, and applying header 2 PANICS with
    `Work.mul64: overflow`. -/
theorem c13_margin_boundary_witness :
    wnet.WF ∧ (wrun 2).toBool = true ∧ wvalid 1 = true ∧ wvalid 2 = true ∧
    (match wrun 3 with | .error e => e == "Work.mul64: overflow" | .ok _ => false) = true := by
  refine ⟨by decide, by decide, by decide, by decide, by decide⟩

/-- and the state before the panic is outside `Margin` (as it must be, by `c13_apply_header_total`) -/
example : match wrun 2 with | .ok s => ¬ Margin wnet s | .error _ => False := by
  have h : ∃ s, wrun 2 = .ok s ∧ 1606938044258990275541962092341162602522202993782792835301376 ≤ s.difficulty := by
    exact ⟨_, rfl, by decide⟩
  obtain ⟨s, e, hd⟩ := h
  rw [e]
  intro m
  have := (m.2.2 (Nat.zero_le _)).2.1
  omega

end C13
