/-
# C18 (continued) — the multiproof's leaf hashes are the accumulator's leaf hashes

`types/multiproof.go` has its own copies of the leaf constructors (`siacoinLeaf`, …,
`elementLeaf.hash` with the spent flag always clear). This file ties the element hash used by
the value-tree model of the multiproof codec (`SiaModel/Merkle/TxTraverse.lean`) to the
constructors read off consensus/merkle.go (`Gen.FactsLeaf`, C04):

* `ehReal P t k el` hashes the content of the `k`-th parent with the schema and
  distinguisher of the constructor `forEachElementLeaf` applies at that position;
* `c18_leaf_hash_eq_c04`: the leaf hash the multiproof code computes for that parent is
  `Hasher.leaf (P (C04.elemPre c content)) index false` — the accumulator's leaf of the
  UNSPENT element (C04Fields), so the hypothesis "valid for one forest" of
  `c18_codec_roundtrip` is about the accumulator's own leaves;
* `tie_leaf_schema_is_element_tail`: what each constructor hashes is exactly the element's
  codec schema after its StateElement (labels aside) — the content of the value tree;
* `tie_multiproof_constructors`: the copies in package types hash the same argument lists
  with the same distinguishers as the ones in package consensus.
-/
import SiaModel.Gen.FactsIds
import SiaProofs.Props.C04Fields
import SiaProofs.Props.C18
namespace C18
open Sia.Codec Sia.ElemAcc Sia.Multiproof

/-- the constructor entry (name, distinguisher, schema) of `Gen.FactsLeaf.leafSchemas` -/
def ctorOf (name : String) : Option (String × String × Sch) :=
  Gen.FactsLeaf.leafSchemas.find? (fun c => c.1 == name)

/-- the element hash of the `k`-th parent of the transaction set `t` -/
def ehReal (P : Bytes → Hash32) (t : Val) (k : Nat) (el : Val) : Hash32 :=
  match (txnsKinds t)[k]? with
  | some name => (match ctorOf name with
    | some c => P (C04.elemPre c (contentOf el))
    | none => default)
  | none => default

theorem contentOf_setProof (el : Val) (p : List Hash32) : contentOf (setProof el p) = contentOf el := by
  rcases setProof_cases el with ⟨i, vs, u, rest, rfl⟩ | h
  · rfl
  · rw [h]

/-- the element hash does not read the proof (the side condition of `c18_codec_roundtrip`) -/
theorem ehReal_setProof (P : Bytes → Hash32) (t : Val) (k : Nat) (el : Val) (p : List Hash32) :
    ehReal P t k (setProof el p) = ehReal P t k el := by
  unfold ehReal; rw [contentOf_setProof]

section
variable [Hasher Hash32]

/-- **The multiproof's leaf hash is the accumulator's leaf of the unspent element.** -/
theorem c18_leaf_hash_eq_c04 (P : Bytes → Hash32) (t : Val) (k : Nat) (el : Val) (name : String)
    (c : String × String × Sch) (hk : (txnsKinds t)[k]? = some name) (hc : ctorOf name = some c) :
    ({ tag := k, elem := ehReal P t k el, index := idxOf el, proof := proofOf el } : MLeaf Hash32).hash =
      Hasher.leaf (P (C04.elemPre c (contentOf el))) (idxOf el) false := by
  simp only [MLeaf.hash, ehReal, hk, hc]

/-- `c18_codec_roundtrip` with the real element hashes plugged in -/
theorem c18_codec_roundtrip_real (P : Bytes → Hash32)
    (encP : Val → Bytes) (decP : Bytes → Except DecErr (Val × Bytes))
    (CanonP : Val → Prop) (hrt : ∀ t rest, CanonP t → decP (encP t ++ rest) = .ok (t, rest))
    (ls : List Hash32) (t : Val) (hgood : GoodTxns t)
    (hv : ∀ l ∈ (valOps (ehReal P t) encP decP).leaves t, Valid ls l) (hn : ls.length < 2 ^ 64)
    (hcanon : CanonP ((valOps (ehReal P t) encP decP).strip t)) (tail : Bytes) :
    decodeBytes (valOps (ehReal P t) encP decP) (encodeBytes (valOps (ehReal P t) encP decP) t ++ tail) = .ok (t, tail) :=
  c18_codec_roundtrip (ehReal P t) (ehReal_setProof P t) encP decP CanonP hrt ls t hgood hv hn hcanon tail

/-- … and with C11's codec over any lawful environment containing the modelled transaction
    codecs: the byte-level round trip with the accumulator's own leaf hashes, from
    canonicity of `t` and the premise that its parents are leaves of one forest -/
theorem c18_codec_roundtrip_real_env {E E2 E1 E0 : Env} (hE : EnvOK E) (henv : TxnEnv E E2 E1 E0) (k : Nat)
    (P : Bytes → Hash32) (ls : List Hash32) (t : Val) (hc : Canon E txnsSch t)
    (hv : ∀ l ∈ (valOps (ehReal P t) (enc E txnsSch) (dec E k txnsSch)).leaves t, Valid ls l)
    (hn : ls.length < 2 ^ 64) (tail : Bytes) :
    decodeBytes (valOps (ehReal P t) (enc E txnsSch) (dec E k txnsSch))
      (encodeBytes (valOps (ehReal P t) (enc E txnsSch) (dec E k txnsSch)) t ++ tail) = .ok (t, tail) :=
  c18_codec_roundtrip_env hE henv k (ehReal P t) (ehReal_setProof P t) ls t hc hv hn tail

end

/-! ### ties -/

/-- a schema without its field labels (labels carry no wire meaning) -/
def eraseLabels : Sch → Sch
  | .cons _ s r => .cons "" (eraseLabels s) (eraseLabels r)
  | .slice s => .slice (eraseLabels s)
  | .opt s => .opt (eraseLabels s)
  | .uslice s => .uslice (eraseLabels s)
  | .aslice s => .aslice (eraseLabels s)
  | s => s

/-- the schema of an element after its first field (the StateElement) -/
def elementTail : Sch → Sch
  | .cons _ _ r => r
  | s => s

open Sia.Codec.Gen in
/-- **what each constructor hashes is the element's content**: the hashed schema equals the
    element's codec schema minus the StateElement, labels aside. So `contentOf el` of a
    canonical element value is a canonical value of the constructor's schema, and the
    element hash covers every encoded field of the element except the StateElement.
    (`types.AttestationElement` has no codec of its own, hence no line here.) -/
theorem tie_leaf_schema_is_element_tail :
    eraseLabels Gen.FactsLeaf.leafSchema_siacoinLeaf = eraseLabels (elementTail encSchema_Types_SiacoinElement) ∧
    eraseLabels Gen.FactsLeaf.leafSchema_siafundLeaf = eraseLabels (elementTail encSchema_Types_SiafundElement) ∧
    eraseLabels Gen.FactsLeaf.leafSchema_v2FileContractLeaf = eraseLabels (elementTail encSchema_Types_V2FileContractElement) ∧
    eraseLabels Gen.FactsLeaf.leafSchema_chainIndexLeaf = eraseLabels (elementTail encSchema_Types_ChainIndexElement) ∧
    eraseLabels Gen.FactsLeaf.leafSchema_fileContractLeaf = eraseLabels (elementTail encSchema_Types_FileContractElement) := by
  refine ⟨by rfl, by rfl, by rfl, by rfl, by rfl⟩

/-- the leaf constructors copied into package types (used by the multiproof code) hash the
    same distinguishers and argument lists, written the same way, as those of package
    consensus (`Gen.FactsIds.hashAllCalls` lists every `hashAll` call of both packages) -/
theorem tie_multiproof_constructors :
    ∀ n ∈ ["chainIndexLeaf", "siacoinLeaf", "siafundLeaf", "v2FileContractLeaf"],
      ((Gen.FactsIds.hashAllCalls.find? (fun c => c.1 == "types." ++ n)).map fun c => (c.2.1, c.2.2.map (·.2))) =
      ((Gen.FactsIds.hashAllCalls.find? (fun c => c.1 == "consensus." ++ n)).map fun c => (c.2.1, c.2.2.map (·.2))) ∧
      (Gen.FactsIds.hashAllCalls.find? (fun c => c.1 == "types." ++ n)).isSome = true := by decide

end C18
