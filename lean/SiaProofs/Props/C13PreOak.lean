import SiaProofs.Props.C13Total
import Mathlib.Tactic.Linarith
/-!
# C13, clamp of the pre-Oak era (`c13_clamp_preoak`)

The `float64` comparison `float64(expected)/float64(elapsed) > 25.0/10.0` (resp.
`< 10.0/25.0`) is modelled by the exact rational comparison (`ratioGt25`, `ratioLt04`).
For the magnitudes that can occur (|elapsed| ≤ 9.3·10^9 s because `time.Duration`
saturates, 0 < expected ≤ 1.2·10^9) both operands are exactly representable, the
quotient is correctly rounded, and a ratio different from 5/2 (resp. 2/5) differs from it
by more than 2^-36 relative — far more than one ulp — so the two readings agree; the
correspondence run exercises exactly the boundary ratios.
-/
namespace C13
open Sia.Pow

theorem frac_lower (c e x : Nat) (hx : 0 < x) (h : 2 * x ≤ 5 * e) : c * 10 / 25 ≤ c * e / x := by
  rw [Nat.le_div_iff_mul_le hx]
  have h1 := Nat.div_mul_le_self (c * 10) 25
  nlinarith [Nat.mul_le_mul_right x h1, Nat.mul_le_mul_left c h]

theorem frac_upper (c e x : Nat) (hx : 0 < x) (h : 2 * e ≤ 5 * x) : c * e / x ≤ c * 25 / 10 := by
  rw [Nat.le_div_iff_mul_le (by omega)]
  have h1 := Nat.div_mul_le_self (c * e) x
  nlinarith [Nat.mul_le_mul_left c h, Nat.mul_le_mul_right 10 h1]

theorem ediv_cast_nat (a : Nat) (e x : Int) (he : 0 ≤ e) (hx : 0 ≤ x) :
    Int.ediv (Int.ofNat a * e) x = Int.ofNat (a * e.toNat / x.toNat) := by
  obtain ⟨e', rfl⟩ := Int.eq_ofNat_of_zero_le he
  obtain ⟨x', rfl⟩ := Int.eq_ofNat_of_zero_le hx
  simp only [Int.ofNat_eq_natCast, Int.toNat_natCast]
  show ((a : Int) * (e' : Int)) / (x' : Int) = _
  rw [← Int.natCast_mul, ← Int.natCast_ediv]

/-- Before the Oak fork the target changes only on multiples of 500 blocks, and then by a
    factor within [10/25, 25/10] (floored; `capT` is the code's 256-bit conversion). -/
theorem c13_clamp_preoak {n : Network} {s : PowState} {ts tt : Int} {r : Nat}
    (hwf : n.WF) (hch : s.childHeight ≤ n.oakHeight) (hch0 : s.childHeight ≠ 0)
    (h : adjustTarget n s ts tt = .ok r) :
    (s.childHeight % 500 ≠ 0 → r = s.childTarget) ∧
    (s.childHeight % 500 = 0 →
      capT (s.childTarget * 10 / 25) ≤ r ∧ r ≤ capT (s.childTarget * 25 / 10)) := by
  obtain ⟨h1, h2, hsec, -⟩ := hwf
  unfold adjustTarget at h
  rw [if_pos hch] at h
  unfold preOakAdjust at h
  dsimp only at h
  by_cases hm : s.childHeight % 500 ≠ 0
  · rw [if_pos hm] at h
    simp only [Except.ok.injEq] at h
    exact ⟨fun _ => h.symm, fun c => absurd c hm⟩
  · rw [if_neg hm] at h
    refine ⟨fun c => absurd c hm, fun _ => ?_⟩
    have hbi : SECOND ≤ n.blockInterval := by
      cases hsec with
      | inl h => exact h
      | inr h => omega
    have e0 : i64div n.blockInterval SECOND = n.blockInterval / SECOND := i64div_nonneg_eq (by omega)
    generalize i64div n.blockInterval SECOND = bi at e0 h
    have hd : (if 1000 > s.childHeight then s.childHeight else 1000) = 500 ∨
              (if 1000 > s.childHeight then s.childHeight else 1000) = 1000 := by
      split <;> omega
    generalize (if 1000 > s.childHeight then s.childHeight else 1000) = depth at hd h
    have hbi2 : 1 ≤ bi ∧ bi ≤ 1125899 := by omega
    have hexp : 1 ≤ i64mul bi (ofU64 depth) := by
      clear e0 hbi hsec h1 h2 hch hch0 hm h
      cases hd with
      | inl h =>
        subst h
        have : ofU64 500 = 500 := by decide
        rw [this, i64mul_small (by omega) (by omega)]; omega
      | inr h =>
        subst h
        have : ofU64 1000 = 1000 := by decide
        rw [this, i64mul_small (by omega) (by omega)]; omega
    generalize i64mul bi (ofU64 depth) = expected at hexp h
    generalize i64div (timeSub ts tt) SECOND = elapsed at h
    have c1 : mulTargetFrac s.childTarget 10 25 = .ok (capT (s.childTarget * 10 / 25)) :=
      mulTargetFrac_nat s.childTarget 10 25 (by omega)
    have c2 : mulTargetFrac s.childTarget 25 10 = .ok (capT (s.childTarget * 25 / 10)) :=
      mulTargetFrac_nat s.childTarget 25 10 (by omega)
    have hmono : capT (s.childTarget * 10 / 25) ≤ capT (s.childTarget * 25 / 10) := capT_mono (by omega)
    by_cases hg : ratioGt25 expected elapsed
    · rw [if_pos hg, c1] at h
      simp only [Except.ok.injEq] at h
      omega
    · rw [if_neg hg] at h
      by_cases hl : ratioLt04 expected elapsed
      · rw [if_pos hl, c2] at h
        simp only [Except.ok.injEq] at h
        omega
      · rw [if_neg hl] at h
        have hel : 0 < elapsed ∧ 2 * expected ≤ 5 * elapsed ∧ 2 * elapsed ≤ 5 * expected := by
          unfold ratioGt25 at hg
          unfold ratioLt04 at hl
          by_cases z : elapsed = 0
          · simp [z] at hg; omega
          · by_cases pz : elapsed > 0
            · simp [z, pz] at hg hl; omega
            · simp [z, pz] at hl; omega
        rw [mulTargetFrac_eq_ok] at h
        obtain ⟨-, rfl⟩ := h
        rw [ediv_cast_nat _ _ _ (by omega) (by omega)]
        have hx : 0 < expected.toNat := by omega
        have ha : 2 * expected.toNat ≤ 5 * elapsed.toNat := by omega
        have hb : 2 * elapsed.toNat ≤ 5 * expected.toNat := by omega
        have lo := frac_lower s.childTarget elapsed.toNat expected.toNat hx ha
        have hi := frac_upper s.childTarget elapsed.toNat expected.toNat hx hb
        have e : intToTarget (Int.ofNat (s.childTarget * elapsed.toNat / expected.toNat)) =
            capT (s.childTarget * elapsed.toNat / expected.toNat) := by
          unfold intToTarget capT
          simp only [Int.ofNat_eq_natCast, Int.natAbs_natCast]
        rw [e]
        exact ⟨capT_mono lo, capT_mono hi⟩

/-- satisfiable: a retarget height (childHeight = 1000) with the chain three times too slow:
    clamped to ×25/10 -/
example : exPre.childHeight % 500 = 0 ∧ exPre.childHeight ≤ mainnetLike.oakHeight := by decide
set_option maxRecDepth 100000 in
example : adjustTarget mainnetLike exPre 1753800600 1751800000 = .ok (exPre.childTarget * 25 / 10) := by rfl

end C13
