import SiaModel.Ledger.Model
import SiaProofs.Lemmas.LedgerC02Block
/-!
# C09 — determinism and absence of side effects (model level)

The ledger model is a pure function: verdict, resulting ledger and diffs depend on the
values `(L, b, pid)` only. What a Lean model cannot exhibit — goroutine schedules, the
hasher pool, data races — is covered by the concurrent runs of the harness under the
race detector (see `props.d/C09.json`).
-/
namespace C09
open Sia.Ledger

/-- validation is a function of the ledger, the block and the parent id -/
theorem c09_validate_function_of_inputs (L L' : Ledger) (b b' : Block) (pid pid' : Id)
    (hL : L = L') (hb : b = b') (hp : pid = pid') :
    validateBlock L b pid = validateBlock L' b' pid' := by
  subst hL; subst hb; subst hp; rfl

/-- application is a function of the ledger and the block -/
theorem c09_apply_function_of_inputs (L L' : Ledger) (b b' : Block) (hL : L = L') (hb : b = b') :
    applyBlock L b = applyBlock L' b' := by
  subst hL; subst hb; rfl

/-- validating leaves the ledger it was given untouched: the mid-state it returns is based on it -/
theorem c09_newMid_base (L : Ledger) : (newMid L).base = L := rfl

/-! ## validating the transactions one at a time = validating the block -/

/-- the block-level checks of `ValidateBlock` (everything that is not per transaction):
    `ValidateOrphan`, `validateSupplement`, the v2 commitment -/
def blockChecks (L : Ledger) (b : Block) : VM Unit := do
  validateOrphan L b
  validateSupplement L b
  if ¬ b.commitOk then reject "commitment hash mismatch" else pure ()

/-- what a caller does who validates a block's transactions one at a time:
    `ms := NewMidState(s)`, then for each transaction `ValidateTransaction(ms, txn)` followed
    by `ms.ApplyTransaction(txn)` (v1 transactions first, then the v2 ones) -/
def stepwise (L : Ledger) (b : Block) (pid : Id) : VM Mid := do
  let s ← b.txns1.foldlM (vb1Step pid b.maxWeight) (newMid L)
  b.txns2.foldlM (vb2Step b.maxWeight) s

/-- `ValidateBlock` is the block-level checks followed by exactly that transaction-by-transaction
    fold: same verdict (including which rejection or panic), same mid-state. -/
theorem c09_stepwise_eq_block (L : Ledger) (b : Block) (pid : Id) :
    validateBlock L b pid = (blockChecks L b >>= fun _ => stepwise L b pid) := by
  rw [validateBlock_eq]
  unfold blockChecks stepwise
  simp only [bind_assoc]
  refine bind_congr' rfl (fun _ => bind_congr' rfl (fun _ => ?_))
  split
  · simp [reject_bind]
  · simp

/-- In particular, on a block whose block-level checks pass, the two procedures are equal … -/
theorem c09_stepwise_eq_block_of_checks (L : Ledger) (b : Block) (pid : Id)
    (h : blockChecks L b = .ok ()) : validateBlock L b pid = stepwise L b pid := by
  rw [c09_stepwise_eq_block, h]; rfl

/-- … and a block is accepted iff its block-level checks pass and every transaction is
    accepted against the mid-state left by its predecessors. -/
theorem c09_block_ok_iff_stepwise (L : Ledger) (b : Block) (pid : Id) (ms : Mid) :
    validateBlock L b pid = .ok ms ↔ blockChecks L b = .ok () ∧ stepwise L b pid = .ok ms := by
  rw [c09_stepwise_eq_block]
  cases hc : blockChecks L b with
  | error e => simp [bind, Except.bind]
  | ok u => cases u; simp [bind, Except.bind]

/-- The verdict of one step depends only on the mid-state reached and the transaction: a
    caller who obtained the same mid-state in any other way (decoded copy, shared memory)
    gets the same verdict and the same next mid-state. -/
theorem c09_step_function_of_inputs (pid mw : Nat) (s s' : Mid) (t t' : Txn1) (hs : s = s') (ht : t = t') :
    vb1Step pid mw s t = vb1Step pid mw s' t' := by subst hs; subst ht; rfl

/-- `c09_validate_readonly` (recorded for completeness): the model validator has no write
    operation at all. It is a Lean function `Ledger → Block → Id → VM Mid`; the ledger and block it
    was given are values that exist unchanged after the call, and calling it twice — or from
    two places at once — yields the same result. -/
theorem c09_validate_readonly (L : Ledger) (b : Block) (pid : Id) :
    ∀ r₁ r₂, r₁ = validateBlock L b pid → r₂ = validateBlock L b pid → r₁ = r₂ := by
  intro r₁ r₂ h₁ h₂; rw [h₁, h₂]

/-- The state reached depends only on the parent state and the block: applying equal values
    gives equal ledgers and equal diffs (the byte-identical encoding is the harness's part). -/
theorem c09_apply_deterministic (L : Ledger) (b : Block) :
    ∀ r₁ r₂, r₁ = applyBlock L b → r₂ = applyBlock L b → r₁ = r₂ := by
  intro r₁ r₂ h₁ h₂; rw [h₁, h₂]

/-- satisfiable: the empty block on any ledger — the fold is the identity on `newMid L` -/
example (L : Ledger) (pid : Id) (b : Block) (h1 : b.txns1 = []) (h2 : b.v2 = none) :
    stepwise L b pid = .ok (newMid L) := by
  simp [stepwise, Block.txns2, h1, h2, pure, Except.pure]
  rfl

end C09
