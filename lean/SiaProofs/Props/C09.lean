import SiaModel.Ledger.Model
/-!
# C09 — determinism and absence of side effects (model level)

The ledger model is a pure function: verdict, resulting ledger and diffs depend on the
values `(L, b, pid)` only. What a Lean model cannot exhibit — goroutine schedules, the
hasher pool, data races — is covered by the concurrent runs of the harness under the
race detector (see `props.d/C09.json`).
-/
namespace C09
open Sia.Ledger

/-- validation is a function of the ledger, the block and the parent id -/
theorem c09_validate_function_of_inputs (L L' : Ledger) (b b' : Block) (pid pid' : Id)
    (hL : L = L') (hb : b = b') (hp : pid = pid') :
    validateBlock L b pid = validateBlock L' b' pid' := by
  subst hL; subst hb; subst hp; rfl

/-- application is a function of the ledger and the block -/
theorem c09_apply_function_of_inputs (L L' : Ledger) (b b' : Block) (hL : L = L') (hb : b = b') :
    applyBlock L b = applyBlock L' b' := by
  subst hL; subst hb; rfl

/-- validating leaves the ledger it was given untouched: the mid-state it returns is based on it -/
theorem c09_newMid_base (L : Ledger) : (newMid L).base = L := rfl

end C09
