import SiaProofs.Props.C15
/-!
# C15 (continued) — `Currency.quoRem`, `Div`, `Div64` are exact 128-bit Euclidean division

Stated about the generated `Gen.Types.Currency.quoRem` (from `types/currency.go`).
Main results: `c15_quoRem_zero`, `c15_quoRem_lo`, `c15_quoRem_partial`, `c15_quoRem`,
`c15_quoRem_div_mod`, `c15_div`, `c15_div_zero`, `c15_div64`, `c15_div64_zero`.

Proof outline for the `v.Hi ≠ 0` branch (`c15_quoRem_hi`): with `b = log2 v.Hi`, `n = 63 - b`,
`P = 2^(b+1)`, the normalized top limb is `D = ⌊val v / P⌋ ≥ 2^63` (`v1hi_eq`, `v1hi_facts`),
`u1 = ⌊val c / 2⌋` (`u1_eq`), so the trial quotient is `T = ⌊val c / (D·P)⌋` with
`D·P ≤ val v < D·P + P`.  `trial_upper` gives `val c < (T+1)·val v`, `trial_lower` gives
`(T-1)·val v ≤ val c`; hence after the decrement the tail (`qrTail_spec`) neither overflows in
`Mul64` nor underflows in `Sub`, and a single correction step leaves `r < v`.
-/
namespace C15
open Gen.Types

/-- the part of `quoRem` after the trial quotient `tq` has been fixed -/
def qrTail (c v : Currency) (tq : Nat) : Except String (Currency × Currency) := do
  let q := (Gen.Types.NewCurrency64 tq)
  let t_7 ← Gen.Types.Currency.Mul64 v tq
  let t_8 ← Gen.Types.Currency.Sub c t_7
  let r := t_8
  if (decide ((Gen.Types.Currency.Cmp r v) ≥ (0 : Int))) then do
    let q := { q with Lo := ((q.Lo + (1 : Nat)) % 18446744073709551616) }
    let q := if (decide (q.Lo = (0 : Nat))) then
        let q := { q with Hi := ((q.Hi + (1 : Nat)) % 18446744073709551616) }
        q
      else
        q
    let t_9 ← Gen.Types.Currency.Sub r v
    let r := t_9
    pure (q, r)
  else do
    pure (q, r)

/-- `if tq != 0 { tq-- }` on uint64 -/
def qrDec (tq : Nat) : Nat := if (decide (tq ≠ (0 : Nat))) then (tq + W - 1) % W else tq

def qrV1Hi (v : Currency) (n : Int) : Nat :=
  ((v.Hi <<< (Int.toNat n)) % W) ||| (v.Lo >>> (Int.toNat ((64 : Int) - n)))
def qrU1Lo (c : Currency) : Nat := (c.Lo >>> 1) ||| ((c.Hi <<< 63) % W)

theorem quoRem_hi (c v : Currency) (h : v.Hi ≠ 0) :
    c.quoRem v =
      (Go.bits_Div64 (c.Hi >>> 1) (qrU1Lo c) (qrV1Hi v (Go.bits_LeadingZeros64 v.Hi))) >>= fun t =>
        qrTail c v (qrDec (t.1 >>> (Int.toNat ((63 : Int) - Go.bits_LeadingZeros64 v.Hi)))) := by
  unfold Currency.quoRem
  simp only [h, decide_false, Bool.false_eq_true, if_false]
  rfl

theorem quoRem_lo (c v : Currency) (h : v.Hi = 0) :
    c.quoRem v = (c.quoRem64 v.Lo) >>= fun t => pure (t.1, NewCurrency64 t.2) := by
  unfold Currency.quoRem
  simp only [h, decide_true, if_true]


theorem cmp_ge (c v : Currency) (hc : WF c) (hv : WF v) :
    decide (c.Cmp v ≥ 0) = true ↔ val v ≤ val c := by
  obtain ⟨h1, h2, h3⟩ := c15_cmp c v hc hv
  rw [decide_eq_true_iff]
  constructor
  · intro h
    apply Nat.le_of_not_lt
    intro hlt
    have := h1.mpr hlt
    omega
  · intro h
    rcases Nat.eq_or_lt_of_le h with e | l
    · have := h2.mpr e.symm; omega
    · have := h3.mpr l; omega

/-- the `q++` with carry into `Hi` -/
def qrInc (tq : Nat) : Currency :=
  if decide ((tq + 1) % W = 0) = true then { Lo := (tq + 1) % W, Hi := (0 + 1) % W }
  else { Lo := (tq + 1) % W, Hi := 0 }

theorem qrInc_spec (tq : Nat) (ht : tq < W) : WF (qrInc tq) ∧ val (qrInc tq) = tq + 1 := by
  unfold qrInc
  by_cases h : (tq + 1) % W = 0
  · simp only [h, decide_true, if_true, WF, val]; omega
  · simp only [h, decide_false, Bool.false_eq_true, if_false, WF, val]; omega

theorem qrTail_spec (c v : Currency) (tq : Nat) (hc : WF c) (hv : WF v) (ht : tq < W) :
    (∀ q r, qrTail c v tq = .ok (q, r) → WF q ∧ WF r ∧ val q * val v + val r = val c) ∧
    (tq * val v ≤ val c → ∃ q r, qrTail c v tq = .ok (q, r) ∧
        (val c < (tq + 2) * val v → val r < val v)) := by
  have hcl := val_lt hc
  obtain ⟨m1, m2⟩ := c15_mul64_panics_iff v tq hv ht
  have hcomm : tq * val v = val v * tq := Nat.mul_comm _ _
  unfold qrTail
  by_cases hm : val v * tq < W2
  · obtain ⟨s, hs, wfs, vs⟩ := m1 hm
    rw [hs]
    simp only [bind, Except.bind]
    obtain ⟨s1, s2⟩ := c15_sub_panics_iff c s hc wfs
    by_cases hsub : val s ≤ val c
    · obtain ⟨d, hd, wfd, vd⟩ := s1 hsub
      rw [hd]
      simp only []
      have hge := cmp_ge d v wfd hv
      by_cases hcmp : val v ≤ val d
      · rw [if_pos (hge.mpr hcmp)]
        obtain ⟨e, he, wfe, ve⟩ := (c15_sub_panics_iff d v wfd hv).1 hcmp
        rw [he]
        obtain ⟨wfq, vq⟩ := qrInc_spec tq ht
        show (∀ q r, Except.ok (qrInc tq, e) = Except.ok (q, r) → _) ∧
          (_ → ∃ q r, Except.ok (qrInc tq, e) = Except.ok (q, r) ∧ _)
        have key : val (qrInc tq) * val v + val e = val c := by
          rw [vq, Nat.add_mul, hcomm]; omega
        constructor
        · intro q r h
          injection h with h; injection h with h1 h2
          subst h1; subst h2
          exact ⟨wfq, wfe, key⟩
        · intro _
          refine ⟨_, _, rfl, ?_⟩
          intro hlt
          rw [vq] at key
          have e2 : (tq + 2) * val v = (tq + 1) * val v + val v := by
            rw [Nat.add_mul, Nat.add_mul]; omega
          omega
      · have : ¬ (decide (d.Cmp v ≥ 0) = true) := fun h => hcmp (hge.mp h)
        rw [if_neg this]
        show (∀ q r, Except.ok (NewCurrency64 tq, d) = Except.ok (q, r) → _) ∧
          (_ → ∃ q r, Except.ok (NewCurrency64 tq, d) = Except.ok (q, r) ∧ _)
        have wfq : WF (NewCurrency64 tq) := ⟨ht, by show (0:Nat) < W; omega⟩
        have vq : val (NewCurrency64 tq) = tq := by show 0 * W + tq = tq; omega
        constructor
        · intro q r h
          injection h with h; injection h with h1 h2
          subst h1; subst h2
          refine ⟨wfq, wfd, ?_⟩
          rw [vq, hcomm]; omega
        · intro _
          exact ⟨_, _, rfl, fun _ => by omega⟩
    · obtain ⟨e, he⟩ := s2 (by omega)
      rw [he]
      constructor
      · intro q r h; exact absurd h (by simp)
      · intro h; omega
  · obtain ⟨e, he⟩ := m2 (by omega)
    rw [he]
    constructor
    · intro q r h; exact absurd h (by simp [bind, Except.bind])
    · intro h; omega

theorem qrDec_lt (tq : Nat) : qrDec tq < W := by
  unfold qrDec
  by_cases h : tq = 0
  · simp [h]
  · simp only [ne_eq, h, not_false_eq_true, decide_true, if_true]; omega

/-- 1. Division by zero panics. -/
theorem c15_quoRem_zero (c : Currency) (_hc : WF c) :
    ∃ e, c.quoRem ({ Lo := 0, Hi := 0 } : Currency) = .error e := by
  rw [quoRem_lo c _ rfl]
  obtain ⟨e, he⟩ := c15_quoRem64_zero c
  show ∃ e, (c.quoRem64 0 >>= _) = _
  rw [he]
  exact ⟨e, rfl⟩

/-- 2. The 64-bit-divisor branch is exact Euclidean division. -/
theorem c15_quoRem_lo (c v : Currency) (hc : WF c) (hv : WF v) (h : v.Hi = 0) (h0 : v.Lo ≠ 0) :
    ∃ q r, c.quoRem v = .ok (q, r) ∧ WF q ∧ WF r ∧ val q * val v + val r = val c ∧ val r < val v := by
  rw [quoRem_lo c v h]
  obtain ⟨q, r, e, wfq, hdec, hlt⟩ := c15_quoRem64 c v.Lo hc hv.1 h0
  rw [e]
  have vv : val v = v.Lo := by unfold val; rw [h, Nat.zero_mul, Nat.zero_add]
  have vr : val (NewCurrency64 r) = r := by show 0 * W + r = r; rw [Nat.zero_mul, Nat.zero_add]
  refine ⟨q, NewCurrency64 r, rfl, wfq, ?_, ?_, ?_⟩
  · have := hv.1
    exact ⟨by show r < W; omega, by show (0:Nat) < W; omega⟩
  · rw [vv, vr]; exact hdec
  · rw [vv, vr]; exact hlt

/-- 3. Whatever `quoRem` returns is an exact decomposition `c = q*v + r`. -/
theorem c15_quoRem_partial (c v q r : Currency) (hc : WF c) (hv : WF v)
    (h : c.quoRem v = .ok (q, r)) : WF q ∧ WF r ∧ val q * val v + val r = val c := by
  by_cases hhi : v.Hi = 0
  · by_cases hlo : v.Lo = 0
    · exfalso
      rw [quoRem_lo c v hhi, hlo] at h
      obtain ⟨e, he⟩ := c15_quoRem64_zero c
      rw [he] at h
      exact absurd h (by simp [bind, Except.bind])
    · obtain ⟨q', r', e, wfq, wfr, hdec, _⟩ := c15_quoRem_lo c v hc hv hhi hlo
      rw [e] at h
      injection h with h; injection h with h1 h2
      subst h1; subst h2
      exact ⟨wfq, wfr, hdec⟩
  · rw [quoRem_hi c v hhi] at h
    cases hd : Go.bits_Div64 (c.Hi >>> 1) (qrU1Lo c) (qrV1Hi v (Go.bits_LeadingZeros64 v.Hi)) with
    | error e =>
      rw [hd] at h
      exact absurd h (by simp [bind, Except.bind])
    | ok t =>
      rw [hd] at h
      exact (qrTail_spec c v _ hc hv (qrDec_lt _)).1 q r h
theorem lz_spec (hi : Nat) (h0 : hi ≠ 0) (hW : hi < W) :
    ∃ b, b < 64 ∧ 2 ^ b ≤ hi ∧ hi < 2 ^ (b + 1) ∧
      Int.toNat (Go.bits_LeadingZeros64 hi) = 63 - b ∧
      Int.toNat ((64 : Int) - Go.bits_LeadingZeros64 hi) = b + 1 ∧
      Int.toNat ((63 : Int) - Go.bits_LeadingZeros64 hi) = b := by
  refine ⟨Nat.log2 hi, ?_, Nat.log2_self_le h0, Nat.lt_log2_self, ?_⟩
  · exact (Nat.log2_lt h0).mpr hW
  · have hb : Nat.log2 hi < 64 := (Nat.log2_lt h0).mpr hW
    simp only [Go.bits_LeadingZeros64, Go.bits_Len64, h0, if_false, Int.ofNat_eq_natCast]
    generalize Nat.log2 hi = b at *
    clear hW h0
    omega

theorem v1hi_eq (hi lo b : Nat) (hlo : lo < W) (hb : b < 64) (h2 : hi < 2 ^ (b + 1)) :
    (hi <<< (63 - b)) % W ||| (lo >>> (b + 1)) = hi * 2 ^ (63 - b) + lo / 2 ^ (b + 1) := by
  have hMP : 2 ^ (b + 1) * 2 ^ (63 - b) = W := by
    rw [← Nat.pow_add]
    have : b + 1 + (63 - b) = 64 := by omega
    rw [this]
  have hMpos : 0 < 2 ^ (63 - b) := Nat.two_pow_pos _
  have hPpos : 0 < 2 ^ (b + 1) := Nat.two_pow_pos _
  have e1 : hi <<< (63 - b) < W := by
    rw [Nat.shiftLeft_eq, ← hMP]
    exact Nat.mul_lt_mul_of_pos_right h2 hMpos
  rw [Nat.mod_eq_of_lt e1, Nat.shiftRight_eq_div_pow]
  have e2 : lo / 2 ^ (b + 1) < 2 ^ (63 - b) := by
    rw [Nat.div_lt_iff_lt_mul hPpos, Nat.mul_comm, hMP]
    exact hlo
  rw [← Nat.shiftLeft_add_eq_or_of_lt e2, Nat.shiftLeft_eq]


/-- facts about the normalized divisor top limb `D = ⌊(hi·2^64+lo) / 2^(b+1)⌋` -/
theorem v1hi_facts (hi lo b : Nat) (hb : b < 64) (h1 : 2 ^ b ≤ hi) :
    let D := hi * 2 ^ (63 - b) + lo / 2 ^ (b + 1)
    let P := 2 ^ (b + 1)
    2 ^ 63 ≤ D ∧ D * P ≤ hi * W + lo ∧ hi * W + lo < D * P + P ∧ (P = 2 ∨ 4 ≤ P) := by
  intro D P
  have hMP : 2 ^ (63 - b) * P = W := by
    show 2 ^ (63 - b) * 2 ^ (b + 1) = W
    rw [← Nat.pow_add]
    have : 63 - b + (b + 1) = 64 := by omega
    rw [this]
  have hPpos : 0 < P := Nat.two_pow_pos _
  have hDP : D * P = hi * W + lo / P * P := by
    show (hi * 2 ^ (63 - b) + lo / P) * P = _
    rw [Nat.add_mul, Nat.mul_assoc, hMP]
  have hdm := Nat.div_add_mod lo P
  have hml := Nat.mod_lt lo hPpos
  have hcomm : P * (lo / P) = lo / P * P := Nat.mul_comm _ _
  refine ⟨?_, ?_, ?_, ?_⟩
  · have : 2 ^ b * 2 ^ (63 - b) = 2 ^ 63 := by
      rw [← Nat.pow_add]
      have : b + (63 - b) = 63 := by omega
      rw [this]
    have h3 : 2 ^ b * 2 ^ (63 - b) ≤ hi * 2 ^ (63 - b) := Nat.mul_le_mul_right _ h1
    rw [this] at h3
    exact Nat.le_trans h3 (Nat.le_add_right _ _)
  · rw [hDP]; omega
  · rw [hDP]; omega
  · show 2 ^ (b + 1) = 2 ∨ 4 ≤ 2 ^ (b + 1)
    rcases Nat.eq_zero_or_pos b with hb0 | hb0
    · left; rw [hb0]
    · right
      have : 2 ^ 2 ≤ 2 ^ (b + 1) := Nat.pow_le_pow_right (by omega) (by omega)
      exact this

theorem u1_eq (hi lo : Nat) (hlo : lo < W) :
    (hi >>> 1) * W + ((lo >>> 1) ||| ((hi <<< 63) % W)) = (hi * W + lo) / 2 := by
  have e : (hi <<< 63) % W = (hi % 2) <<< 63 := by
    rw [Nat.shiftLeft_eq, Nat.shiftLeft_eq]; omega
  have e2 : lo >>> 1 < 2 ^ 63 := by
    rw [Nat.shiftRight_eq_div_pow]; omega
  rw [e, Nat.or_comm, ← Nat.shiftLeft_add_eq_or_of_lt e2, Nat.shiftLeft_eq,
    Nat.shiftRight_eq_div_pow, Nat.shiftRight_eq_div_pow]
  omega

/-- upper side: the trial quotient is not too small -/
theorem trial_upper (C V V' : Nat) (h0 : 0 < V') (h1 : V' ≤ V) : C < (C / V' + 1) * V := by
  have := Nat.lt_mul_div_succ C h0
  rw [Nat.mul_comm] at this
  exact Nat.lt_of_lt_of_le this (Nat.mul_le_mul_left _ h1)

/-- lower side: the trial quotient is at most one too large -/
theorem trial_lower (C V D P k : Nat) (hC : C < W2) (hD : 2 ^ 63 ≤ D) (hP : P = 2 ∨ 4 ≤ P)
    (h2 : V < D * P + P) (hT : (k + 1) * (D * P) ≤ C) : k * V ≤ C := by
  have hE : V ≤ D * P + (P - 1) := by omega
  have hkE : k * (P - 1) ≤ D * P := by
    rcases hP with hP | hP
    · subst hP
      have a1 : (k + 1) * W ≤ (k + 1) * (D * 2) := Nat.mul_le_mul_left _ (by omega)
      show k * 1 ≤ D * 2
      omega
    · have a0 : 2 ^ 63 * 4 ≤ D * P := Nat.mul_le_mul hD hP
      have a1 : (k + 1) * (2 ^ 63 * 4) ≤ (k + 1) * (D * P) := Nat.mul_le_mul_left _ a0
      have a2 : k ≤ D := by omega
      exact Nat.mul_le_mul a2 (Nat.sub_le _ _)
  calc k * V ≤ k * (D * P + (P - 1)) := Nat.mul_le_mul_left _ hE
    _ = k * (D * P) + k * (P - 1) := Nat.mul_add _ _ _
    _ ≤ k * (D * P) + D * P := Nat.add_le_add_left hkE _
    _ = (k + 1) * (D * P) := (Nat.succ_mul _ _).symm
    _ ≤ C := hT

theorem ok_bind {α β : Type} (a : α) (f : α → Except String β) : (Except.ok a >>= f) = f a := rfl

theorem c15_quoRem_hi (c v : Currency) (hc : WF c) (hv : WF v) (hhi : v.Hi ≠ 0) :
    ∃ q r, c.quoRem v = .ok (q, r) ∧ WF q ∧ WF r ∧ val q * val v + val r = val c ∧ val r < val v := by
  obtain ⟨b, hb, hb1, hb2, hn, hn64, hn63⟩ := lz_spec v.Hi hhi hv.2
  rw [quoRem_hi c v hhi]
  have hD : qrV1Hi v (Go.bits_LeadingZeros64 v.Hi) = v.Hi * 2 ^ (63 - b) + v.Lo / 2 ^ (b + 1) := by
    unfold qrV1Hi; rw [hn, hn64]; exact v1hi_eq v.Hi v.Lo b hv.1 hb hb2
  obtain ⟨f1, f2, f3, f4⟩ := v1hi_facts v.Hi v.Lo b hb hb1
  rw [hD, hn63]
  clear hD hn hn64 hn63 hb2
  have hV : v.Hi * W + v.Lo = val v := rfl
  rw [hV] at f2 f3
  generalize v.Hi * 2 ^ (63 - b) + v.Lo / 2 ^ (b + 1) = D at *
  have hPb : 2 * 2 ^ b = 2 ^ (b + 1) := by rw [Nat.pow_succ, Nat.mul_comm]
  generalize 2 ^ (b + 1) = P at *
  have hD0 : D ≠ 0 := by omega
  have hu : c.Hi >>> 1 < D := by
    have := hc.2
    rw [Nat.shiftRight_eq_div_pow]; omega
  rw [div64_ok hD0 hu, ok_bind]
  simp only []
  have hU : (c.Hi >>> 1) * W + qrU1Lo c = val c / 2 := u1_eq c.Hi c.Lo hc.1
  rw [hU, Nat.shiftRight_eq_div_pow, Nat.div_div_eq_div_mul, Nat.div_div_eq_div_mul,
    Nat.mul_left_comm, hPb]
  have hcl := val_lt hc
  have hDPW : W ≤ D * P := by
    have : 2 ^ 63 * 2 ≤ D * P := Nat.mul_le_mul f1 (by omega)
    omega
  have hDPpos : 0 < D * P := by omega
  have hup := trial_upper (val c) (val v) (D * P) hDPpos f2
  have hTV : val c / (D * P) * (D * P) ≤ val c := Nat.div_mul_le_self _ _
  generalize val c / (D * P) = T at *
  have hTW : T < W := by
    have a1 : T * W ≤ T * (D * P) := Nat.mul_le_mul_left _ hDPW
    clear f1 f2 f3 f4 hup hu
    omega
  have hspec := qrTail_spec c v (qrDec T) hc hv (qrDec_lt T)
  have hdec : qrDec T * val v ≤ val c ∧ val c < (qrDec T + 2) * val v := by
    rcases Nat.eq_zero_or_pos T with hT0 | hTpos
    · subst hT0
      have : qrDec 0 = 0 := rfl
      rw [this]
      clear hspec
      omega
    · obtain ⟨k, rfl⟩ : ∃ k, T = k + 1 := ⟨T - 1, by omega⟩
      have : qrDec (k + 1) = k := by
        unfold qrDec
        simp only [ne_eq, Nat.add_one_ne_zero, not_false_eq_true, decide_true, if_true]
        omega
      rw [this]
      refine ⟨trial_lower (val c) (val v) D P k hcl f1 f4 f3 hTV, ?_⟩
      have : (k + 1 + 1) * val v ≤ (k + 2) * val v := Nat.le_refl _
      exact Nat.lt_of_lt_of_le hup this
  obtain ⟨q, r, hok, hlt⟩ := hspec.2 hdec.1
  obtain ⟨wfq, wfr, hval⟩ := hspec.1 q r hok
  exact ⟨q, r, hok, wfq, wfr, hval, hlt hdec.2⟩

/-- 4. `quoRem` is total for a non-zero divisor and is exact Euclidean division on 128-bit values. -/
theorem c15_quoRem (c v : Currency) (hc : WF c) (hv : WF v) (hv0 : val v ≠ 0) :
    ∃ q r, c.quoRem v = .ok (q, r) ∧ WF q ∧ WF r ∧ val q * val v + val r = val c ∧ val r < val v := by
  by_cases hhi : v.Hi = 0
  · have hlo : v.Lo ≠ 0 := by
      intro h
      apply hv0
      unfold val
      rw [hhi, h]
    exact c15_quoRem_lo c v hc hv hhi hlo
  · exact c15_quoRem_hi c v hc hv hhi

theorem div_mod_unique {C V q r : Nat} (h : q * V + r = C) (hr : r < V) : q = C / V ∧ r = C % V := by
  have hVpos : 0 < V := by omega
  have hq : C / V = q := by
    rw [← h, Nat.mul_comm, Nat.mul_add_div hVpos, Nat.div_eq_of_lt hr, Nat.add_zero]
  have hdm := Nat.div_add_mod C V
  rw [hq, Nat.mul_comm] at hdm
  exact ⟨hq.symm, by omega⟩

/-- the results are `⌊c/v⌋` and `c mod v` -/
theorem c15_quoRem_div_mod (c v : Currency) (hc : WF c) (hv : WF v) (hv0 : val v ≠ 0) :
    ∃ q r, c.quoRem v = .ok (q, r) ∧ WF q ∧ WF r ∧ val q = val c / val v ∧ val r = val c % val v := by
  obtain ⟨q, r, hok, wfq, wfr, hdec, hlt⟩ := c15_quoRem c v hc hv hv0
  obtain ⟨h1, h2⟩ := div_mod_unique hdec hlt
  exact ⟨q, r, hok, wfq, wfr, h1, h2⟩

/-- 5. `Div` is floor division. -/
theorem c15_div (c v : Currency) (hc : WF c) (hv : WF v) (hv0 : val v ≠ 0) :
    ∃ q, c.Div v = .ok q ∧ WF q ∧ val q = val c / val v := by
  obtain ⟨q, r, hok, wfq, _, h1, _⟩ := c15_quoRem_div_mod c v hc hv hv0
  refine ⟨q, ?_, wfq, h1⟩
  unfold Currency.Div
  rw [hok]
  rfl

theorem c15_div_zero (c : Currency) (hc : WF c) :
    ∃ e, c.Div ({ Lo := 0, Hi := 0 } : Currency) = .error e := by
  obtain ⟨e, he⟩ := c15_quoRem_zero c hc
  unfold Currency.Div
  rw [he]
  exact ⟨e, rfl⟩

theorem c15_div64 (c : Currency) (v : Nat) (hc : WF c) (hv : v < W) (hv0 : v ≠ 0) :
    ∃ q, c.Div64 v = .ok q ∧ WF q ∧ val q = val c / v := by
  obtain ⟨q, r, hok, wfq, hdec, hlt⟩ := c15_quoRem64 c v hc hv hv0
  obtain ⟨h1, _⟩ := div_mod_unique hdec hlt
  refine ⟨q, ?_, wfq, h1⟩
  unfold Currency.Div64
  rw [hok]
  rfl

theorem c15_div64_zero (c : Currency) : ∃ e, c.Div64 0 = .error e := by
  obtain ⟨e, he⟩ := c15_quoRem64_zero c
  unfold Currency.Div64
  rw [he]
  exact ⟨e, rfl⟩

end C15

#print axioms C15.c15_quoRem_zero
#print axioms C15.c15_quoRem_lo
#print axioms C15.c15_quoRem_partial
#print axioms C15.c15_quoRem_hi
#print axioms C15.c15_quoRem
#print axioms C15.c15_quoRem_div_mod
#print axioms C15.c15_div
#print axioms C15.c15_div_zero
#print axioms C15.c15_div64
#print axioms C15.c15_div64_zero
