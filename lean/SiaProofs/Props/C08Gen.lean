import SiaProofs.Props.C07Gen
import SiaProofs.Props.C07V1Gen
import SiaProofs.Props.C02InputGen
/-!
# C08 — height rules flip exactly at their boundaries, on REGENERATED code

Each statement isolates ONE height rule of `consensus/validation.go` as it is regenerated on every run: with every
other condition of the rule chain satisfied, the verdict is `accept` exactly from the stated height on (or up to it) —
one block earlier / later it is the opposite.  `ch` is the child height the regenerated code computes from the
validation context (`State.childHeight ms.base`).
-/
namespace C08
open Gen.Types Gen.Consensus C07 C02

/-- v2 expiration: accepted exactly when `ExpirationHeight < child height`. -/
theorem c08_v2_expiration_boundary_gen (ms : MidState) (fc : V2FileContract) (i : Int) :
    validateV2FileContracts_expirationRules ms fc i = none ↔ fc.ExpirationHeight + 1 ≤ State.childHeight ms.base := by
  rw [c07_expiration_gen]; unfold chOf; omega

/-- v2 siacoin maturity: an input that is otherwise fresh passes exactly when `MaturityHeight ≤ child height`. -/
theorem c08_v2_maturity_boundary_gen (ext : Ext) (ms : MidState) (sci : V2SiacoinInput) (i : Int)
    (spent : List (ByteArray × Int))
    (h1 : (ext.spent ms sci.Parent.ID).2 = false) (h2 : (Go.mapGet spent sci.Parent.ID (0 : Int)).2 = false) :
    validateV2Siacoins_inputFresh ext ms sci i spent = none ↔ sci.Parent.MaturityHeight ≤ State.childHeight ms.base := by
  rw [c02_v2_siacoin_input_fresh_gen]; simp [h1, h2]

/-- v2 storage proof window: a proof that is otherwise in order is accepted exactly from the proof height on. -/
theorem c08_v2_proof_window_boundary_gen (ext : Ext) (ms : MidState) (fc : V2FileContract) (sp : V2StorageProof)
    (fcr : V2FileContractResolution) (i : Int)
    (hidx : sp.ProofIndex.ChainIndex.Height = fc.ProofHeight)
    (hmem : ext.containsChainIndex ms.base.Elements (ChainIndexElement.Share sp.ProofIndex) = true)
    (hlen : fc.Filesize > 0 →
          ext.storageProofSubtreeHeight
            (ext.StorageProofLeafIndex ms.base fc.Filesize sp.ProofIndex.ChainIndex.ID fcr.Parent.ID) fc.Filesize
            ≤ (sp.Proof.length : Int))
    (hroot : ext.storageProofRoot (ext.StorageProofLeafHash ms.base sp.Leaf)
          (ext.StorageProofLeafIndex ms.base fc.Filesize sp.ProofIndex.ChainIndex.ID fcr.Parent.ID)
          fc.Filesize sp.Proof = fc.FileMerkleRoot) :
    validateV2FileContracts_storageProofRules ext sp ms fc i fcr = none ↔ fc.ProofHeight ≤ State.childHeight ms.base := by
  rw [c07_storage_proof_gen]
  unfold chOf
  constructor
  · intro h; exact h.1
  · intro h; exact ⟨h, hidx, hmem, hlen, hroot⟩

/-- v1 revision: the timelock of the revealed conditions, the new window start and the in-block conflict test; with
the others satisfied the timelock rule flips exactly at `Timelock = child height`. -/
theorem c08_v1_revision_timelock_boundary_gen (ext : Ext) (ms : MidState) (fcr : FileContractRevision) (i : Int)
    (hw1 : State.childHeight ms.base ≤ fcr.FileContract.WindowStart)
    (hw2 : fcr.FileContract.WindowStart < fcr.FileContract.WindowEnd)
    (hs : (ext.spent ms fcr.ParentID).2 = false) :
    validateFileContracts_revisionRulesA ext fcr ms i = none ↔ fcr.UnlockConditions.Timelock ≤ State.childHeight ms.base := by
  rw [c07_v1_revision_a_gen]
  constructor
  · intro h; exact h.1
  · intro h; exact ⟨h, hw1, hw2, hs⟩

/-- v2 contract formation: with the other rules satisfied, a contract is accepted exactly while its proof height has
not passed (`child height ≤ ProofHeight`). -/
theorem c08_v2_formation_proof_height_boundary_gen (ext : Ext) (ms : MidState) (fc : V2FileContract)
    (h1 : fc.Filesize ≤ fc.Capacity) (h3 : fc.ProofHeight < fc.ExpirationHeight)
    (h4 : (fc.RenterOutput.Value.IsZero && fc.HostOutput.Value.IsZero) = false)
    (h5 : ¬ fc.MissedHostValue.Cmp fc.HostOutput.Value > 0) (h6 : ¬ fc.TotalCollateral.Cmp fc.HostOutput.Value > 0)
    (hs : validateV2FileContracts_validateSignatures ext ms fc fc.RenterPublicKey fc.HostPublicKey = none) :
    validateV2FileContracts_validateContract ext ms fc = none ↔ State.childHeight ms.base ≤ fc.ProofHeight := by
  rw [tie_validateContract_gen]
  unfold Sia.Ledger.validateContract chOf
  have a1 : ¬ fc.Filesize > fc.Capacity := by omega
  have a3 : ¬ fc.ExpirationHeight ≤ fc.ProofHeight := by omega
  by_cases h2 : fc.ProofHeight < State.childHeight ms.base
  · simp [a1, h2]
  · simp [a1, h2, a3, h4, h5, h6, hs]; omega

end C08
