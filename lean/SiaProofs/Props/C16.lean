import SiaProofs.Lemmas.MerkleRhpAppend
import SiaModel.Gen.CodeRhp2
/-!
# C16 — RHP Merkle roots and proofs are complete, sound and implementation-independent

Specification: `Sia.Rhp.metaRoot` (the plainly defined binary Merkle tree).
Implementation models (`SiaModel/Merkle/Rhp.lean`) mirror rhp/v2/merkle.go,
rhp/v4/merkle.go and blake2b/blake2b.go and are run against the Go code by the
correspondence harness with real BLAKE2b. Hash collision freedom is the *hypothesis*
`HashInj`; the `example`s instantiate it with the free term algebra `T`.

Leaf counts are assumed `≤ 2^30` where the builder's constant `math.MaxInt32` matters
(see `c16_range_complete`).
-/
set_option linter.unusedVariables false
set_option linter.unusedSectionVars false
namespace C16
open Sia.Rhp Sia.Rhp.HashOps

/-! ## a model of the hypotheses: the free term algebra -/

inductive T where
  | z : T
  | lf : List UInt8 → T
  | nd : T → T → T
  deriving DecidableEq

instance : HashOps T where
  zero := T.z
  leaf b := T.lf b.toList
  node := T.nd

theorem T_nodeInj : NodeInj T := by
  intro a b c d h
  cases h; exact ⟨rfl, rfl⟩

variable {H : Type} [HashOps H]

/-! ## roots -/

/-- Folding `AddLeaf` (blake2b.Accumulator) or `insertNode(·, 0)` (proofAccumulator) over any
list and taking the root gives the root of the plain tree. -/
theorem c16_accumulator_root (ls : List H) :
    (ls.foldl Acc.addLeaf Acc.empty).root = metaRoot ls ∧
    (ls.foldl (fun a h => a.insertNode h 0) Acc.empty).root = metaRoot ls := by
  constructor
  · have := (Inv.empty (H := H)).foldl_addLeaf ls
    simpa using this.root
  · have := (Inv.empty (H := H)).foldl_insertLeaf ls
    simpa using this.root

example : (([T.lf [1], T.lf [2], T.lf [3]] : List T).foldl Acc.addLeaf Acc.empty).root
    = T.nd (T.nd (T.lf [1]) (T.lf [2])) (T.lf [3]) := by
  rw [(c16_accumulator_root _).1]
  rw [metaRoot_split _ (by decide)]
  have : splitPoint ([T.lf [1], T.lf [2], T.lf [3]] : List T).length = 2 := by decide
  rw [this]
  simp only [List.take, List.drop]
  rw [metaRoot_singleton, metaRoot_split _ (by decide)]
  have : splitPoint ([T.lf [1], T.lf [2]] : List T).length = 1 := by decide
  rw [this]
  simp only [List.take, List.drop]
  rw [metaRoot_singleton, metaRoot_singleton]
  rfl

/-- inserting whole aligned subtrees (any heights, as the proof verifiers do) keeps the
accumulator equal to the plain tree: the general step behind every verifier -/
theorem c16_accumulator_subtree (a : Acc H) (ls B : List H) (k : Nat) (hi : Inv a ls)
    (hB : B.length = 2 ^ k) (hd : 2 ^ k ∣ ls.length) :
    (a.insertNode (metaRoot B) k).root = metaRoot (ls ++ B) :=
  (hi.insertNode B k hB hd).root

/-- `MetaRoot`'s recursion above one sector ("split at the largest power of two") is the plain
root, whatever the leaf limit, as soon as the base case (the 4-lane sector accumulator) is. -/
theorem c16_metaroot_split (limit : Nat) (base : List H → H)
    (hbase : ∀ l : List H, l.length ≤ limit ∨ l.length < 2 → base l = metaRoot l) (ls : List H) :
    goMetaRoot limit base ls = metaRoot ls := by
  generalize hn : ls.length = n
  induction n using Nat.strongRecOn generalizing ls with
  | _ n ih =>
    rw [goMetaRoot]
    by_cases h : ls.length ≤ limit ∨ ls.length < 2
    · simp [h, hbase ls h]
    · simp only [h, dite_false]
      have h2 : 2 ≤ ls.length := by omega
      have hlt := splitPoint_lt h2
      have hpos := splitPoint_pos ls.length
      rw [ih _ (by simp [List.length_take]; omega) (ls.take (splitPoint ls.length)) rfl,
        ih _ (by simp [List.length_drop]; omega) (ls.drop (splitPoint ls.length)) rfl]
      exact (metaRoot_split ls h2).symm

/-- a full subtree of `2^k` leaves followed by at most `2^k` more: the root is the node of the
two plain roots (the step used by every `2^k`-subtree decomposition) -/
theorem c16_metaroot_append (l r : List H) (k : Nat) (hl : l.length = 2 ^ k)
    (hr0 : 0 < r.length) (hr : r.length ≤ 2 ^ k) :
    metaRoot (l ++ r) = node (metaRoot l) (metaRoot r) := metaRoot_append l r k hl hr0 hr

theorem flatten_length_pow (a : Nat) : ∀ (cs : List (List H)), (∀ c ∈ cs, c.length = 2 ^ a) →
    cs.flatten.length = cs.length * 2 ^ a := by
  intro cs
  induction cs with
  | nil => intro _; simp
  | cons c cs ih =>
    intro h
    simp only [List.flatten_cons, List.length_append, List.length_cons]
    rw [ih (fun c' hc' => h c' (List.mem_cons_of_mem _ hc')), h c List.mem_cons_self, Nat.add_mul]
    omega

/-- The parallel decomposition used by `SectorRoot`, `ReadSectorRoot` and `CachedSectorSubtrees`
(and by the streaming verifier): computing the plain roots of equal `2^a`-leaf chunks and then the
plain root of those roots gives the plain root of the whole. -/
theorem c16_metaroot_chunks (a : Nat) (chunks : List (List H)) (hc : ∀ c ∈ chunks, c.length = 2 ^ a) :
    metaRoot (chunks.map metaRoot) = metaRoot chunks.flatten := by
  generalize hm : chunks.length = m
  induction m using Nat.strongRecOn generalizing chunks with
  | _ m ih =>
    by_cases h0 : m = 0
    · subst h0
      rw [List.eq_nil_of_length_eq_zero hm]; simp
    · by_cases h1 : m = 1
      · subst h1
        obtain ⟨c, rfl⟩ := List.length_eq_one_iff.1 hm
        simp [metaRoot_singleton]
      · have h2 : 2 ≤ chunks.length := by omega
        have hlt := splitPoint_lt h2
        have hpos := splitPoint_pos chunks.length
        have hmap : 2 ≤ (chunks.map metaRoot).length := by simpa using h2
        rw [metaRoot_split _ hmap]
        simp only [List.length_map, ← List.map_take, ← List.map_drop]
        have hct : ∀ c ∈ chunks.take (splitPoint chunks.length), c.length = 2 ^ a :=
          fun c h => hc c (List.mem_of_mem_take h)
        have hcd : ∀ c ∈ chunks.drop (splitPoint chunks.length), c.length = 2 ^ a :=
          fun c h => hc c (List.mem_of_mem_drop h)
        rw [ih _ (by rw [← hm]; simp [List.length_take]; omega) _ hct rfl,
          ih _ (by rw [← hm]; simp [List.length_drop]; omega) _ hcd rfl]
        have hfl : chunks.flatten = (chunks.take (splitPoint chunks.length)).flatten
            ++ (chunks.drop (splitPoint chunks.length)).flatten := by
          rw [← List.flatten_append, List.take_append_drop]
        rw [hfl]
        -- sizes: the left part is a full subtree of 2^(log2(m-1)+a) leaves
        have hl := flatten_length_pow a _ hct
        have hr := flatten_length_pow a _ hcd
        have hpa := Nat.two_pow_pos a
        have e1 : (chunks.take (splitPoint chunks.length)).length = 2 ^ (chunks.length - 1).log2 := by
          simp only [List.length_take]; unfold splitPoint at hlt ⊢; omega
        have hub : chunks.length - 1 < 2 ^ ((chunks.length - 1).log2 + 1) := Nat.lt_log2_self
        rw [two_pow_succ'] at hub
        have e2 : (chunks.drop (splitPoint chunks.length)).length ≤ 2 ^ (chunks.length - 1).log2 := by
          simp only [List.length_drop]; unfold splitPoint; omega
        have e3 : 0 < (chunks.drop (splitPoint chunks.length)).length := by
          simp only [List.length_drop]; omega
        exact (metaRoot_append _ _ ((chunks.length - 1).log2 + a)
          (by rw [hl, e1, Nat.pow_add]) (by rw [hr]; exact Nat.mul_pos e3 hpa)
          (by rw [hr, Nat.pow_add]; exact Nat.mul_le_mul_right _ e2)).symm

example : metaRoot ([[T.lf [0], T.lf [1]], [T.lf [2], T.lf [3]], [T.lf [4], T.lf [5]]].map metaRoot)
    = metaRoot ([T.lf [0], T.lf [1], T.lf [2], T.lf [3], T.lf [4], T.lf [5]] : List T) :=
  c16_metaroot_chunks 1 _ (by simp)

/-- equal roots of equal-length lists ⇒ equal lists (under node-hash injectivity) -/
theorem c16_root_injective (hinj : NodeInj H) (l1 l2 : List H) (hlen : l1.length = l2.length)
    (h : metaRoot l1 = metaRoot l2) : l1 = l2 := root_injective_aux hinj l1 l2 hlen h

example : metaRoot ([T.lf [1], T.lf [2], T.lf [3]] : List T) ≠ metaRoot ([T.lf [1], T.lf [2], T.lf [4]] : List T) := by
  intro h
  have := c16_root_injective T_nodeInj [T.lf [1], T.lf [2], T.lf [3]] [T.lf [1], T.lf [2], T.lf [4]] rfl h
  exact absurd this (by decide)

/-! ## range proofs over a list of roots (Build/VerifySectorRangeProof, rhp4 SectorRootsProof) -/

/-- the honest proof for `[s, e)` -/
def honestProof (ls : List H) (s e : Nat) : List H := buildRange ls 0 s ++ buildRange ls e maxInt32

theorem buildSectorRangeProof_eq (ls : List H) (s e : Nat) (hse : s < e) (hen : e ≤ ls.length) :
    buildSectorRangeProof ls s e = .ok (honestProof ls s e) := by
  unfold buildSectorRangeProof honestProof
  have h1 : ls.length ≠ 0 := by omega
  have h2 : ¬ (e > ls.length ∨ s > e ∨ s = e) := by omega
  simp [h1, h2]

/-- `|BuildSectorRangeProof| = RangeProofSize n start end` for every admissible range -/
theorem c16_range_size (ls : List H) (s e : Nat) (hse : s < e) (hen : e ≤ ls.length)
    (hn : ls.length ≤ 2 ^ 30) :
    (honestProof ls s e).length = rangeProofSize ls.length s e :=
  buildRange_total_length ls s e maxInt32 hse hen (by unfold maxInt32; omega)

/-- the built proof is accepted with the covered roots `ls[s:e]` and the plain root -/
theorem c16_range_complete [DecidableEq H] (ls : List H) (s e : Nat) (hse : s < e) (hen : e ≤ ls.length)
    (hn : ls.length ≤ 2 ^ 30) :
    ∃ proof, buildSectorRangeProof ls s e = .ok proof ∧
      verifySectorRangeProof proof ((ls.drop s).take (e - s)) s e ls.length (metaRoot ls) = .ok true := by
  refine ⟨honestProof ls s e, buildSectorRangeProof_eq ls s e hse hen, ?_⟩
  rw [verify_eq _ _ s e ls.length _ (by omega) (by simp [List.length_take, List.length_drop]; omega)
    (by omega) (c16_range_size ls s e hse hen hn)]
  obtain ⟨_, _, _, hC⟩ := rangeAcc_honest ls s e hse hen hn
  have := hC.root
  simp only [honestProof]
  simp [this]

/-- the five-leaf tree used by the examples -/
def ex5 : List T := [T.lf [0], T.lf [1], T.lf [2], T.lf [3], T.lf [4]]

example : ∃ proof, buildSectorRangeProof ex5 1 3 = .ok proof ∧
    verifySectorRangeProof proof [T.lf [1], T.lf [2]] 1 3 5 (metaRoot ex5) = .ok true :=
  c16_range_complete ex5 1 3 (by decide) (by decide) (by decide)

/-- Soundness: with the true count `n = |ls|` and the true root, acceptance implies that the
covered roots ARE `ls[s:e]` and that the proof is exactly the honest one. Hence any altered
proof hash, covered root, index or root is rejected. -/
theorem c16_range_sound [DecidableEq H] (hinj : NodeInj H) (ls proof data : List H) (s e : Nat)
    (hse : s < e) (hen : e ≤ ls.length) (hn : ls.length ≤ 2 ^ 30)
    (hacc : verifySectorRangeProof proof data s e ls.length (metaRoot ls) = .ok true) :
    data = (ls.drop s).take (e - s) ∧ proof = honestProof ls s e := by
  -- the guards that were passed
  have hn0 : ls.length ≠ 0 := by omega
  have hr : ¬ (e > ls.length ∨ s > e ∨ s = e) := by omega
  have hd : data.length = e - s := by
    by_cases h : data.length = e - s
    · exact h
    · unfold verifySectorRangeProof at hacc; simp [hn0, h] at hacc
  have hl : proof.length = rangeProofSize ls.length s e := by
    by_cases h : proof.length = rangeProofSize ls.length s e
    · exact h
    · unfold verifySectorRangeProof at hacc; simp [hn0, hd, hr, h] at hacc
  rw [verify_eq proof data s e ls.length _ hn0 hd hr hl] at hacc
  have hroot : (rangeAcc proof data s e).1.root = metaRoot ls := by simpa using hacc
  -- the honest run
  obtain ⟨hP1n, hP1r, hP3r, hC⟩ := rangeAcc_honest ls s e hse hen hn
  have hlenP : proof.length = (honestProof ls s e).length := by rw [hl, c16_range_size ls s e hse hen hn]
  have hlenD : data.length = ((ls.drop s).take (e - s)).length := by
    rw [hd]; simp [List.length_take, List.length_drop]; omega
  -- same control flow in the three phases
  have f1 := insertRange_same_flow proof (honestProof ls s e) Acc.empty Acc.empty 0 s hlenP rfl
  have hroot' : (rangeAcc proof data s e).1.root = (rangeAcc (honestProof ls s e) ((ls.drop s).take (e - s)) s e).1.root := by
    rw [hroot]; exact hC.root.symm
  unfold rangeAcc at hroot' hP3r
  simp only at hroot' hP3r
  simp only [honestProof] at f1 hroot' hlenP ⊢
  generalize hA1 : insertRange Acc.empty proof 0 s = A1 at *
  generalize hB1 : insertRange Acc.empty (buildRange ls 0 s ++ buildRange ls e maxInt32) 0 s = B1 at *
  have n2 : (data.foldl (fun a h => a.insertNode h 0) A1.1).n
      = (((ls.drop s).take (e - s)).foldl (fun a h => a.insertNode h 0) B1.1).n := by
    rw [foldl_insertLeaf_n, foldl_insertLeaf_n, f1.1, hlenD]
  have f3 := insertRange_same_flow A1.2 B1.2 _ _ e maxUint64 f1.2 n2
  generalize hA3 : insertRange (data.foldl (fun a h => a.insertNode h 0) A1.1) A1.2 e maxUint64 = A3 at *
  generalize hB3 : insertRange (((ls.drop s).take (e - s)).foldl (fun a h => a.insertNode h 0) B1.1) B1.2 e maxUint64 = B3 at *
  -- final stacks coincide
  have s3 : A3.1.stack = B3.1.stack := root_inj hinj _ _ f3.1 hroot'
  have r3 : A3.2 = B3.2 := by
    have : A3.2.length = 0 := by rw [f3.2, hP3r]; rfl
    rw [hP3r]; exact List.eq_nil_of_length_eq_zero this
  -- unwind phase 3
  have nB2 : (((ls.drop s).take (e - s)).foldl (fun a h => a.insertNode h 0) B1.1).n = e := by
    rw [foldl_insertLeaf_n, hP1n, ← hlenD, hd]; omega
  rw [← hA3, ← hB3] at s3 r3
  obtain ⟨s2, p2⟩ := insertRange_inj hinj A1.2 B1.2 _ _ e maxUint64 f1.2 (by rw [n2, nB2]) nB2 s3 r3
  -- unwind phase 2
  obtain ⟨s1, hdata⟩ := foldl_insertLeaf_inj hinj data _ A1.1 B1.1 hlenD f1.1 s2
  -- unwind phase 1
  rw [← hA1, ← hB1] at s1 p2
  obtain ⟨_, hproof⟩ := insertRange_inj hinj proof _ Acc.empty Acc.empty 0 s hlenP rfl rfl s1 p2
  exact ⟨hdata, hproof⟩

/-- constructive reading: for `T` (where injectivity holds outright) a forged covered root is rejected -/
example : verifySectorRangeProof (honestProof ex5 1 3) [T.lf [1], T.lf [9]] 1 3 5 (metaRoot ex5) ≠ .ok true := by
  intro h
  have := (c16_range_sound T_nodeInj ex5 _ _ 1 3 (by decide) (by decide) (by decide) h).1
  exact absurd this (by decide)

/-- a proof whose length differs from `RangeProofSize` (shorter or longer) is rejected -/
theorem c16_range_length_fixed [DecidableEq H] (proof data : List H) (s e n : Nat) (root : H)
    (hse : s < e) (hen : e ≤ n) (hd : data.length = e - s)
    (hl : proof.length ≠ rangeProofSize n s e) :
    verifySectorRangeProof proof data s e n root = .ok false := by
  unfold verifySectorRangeProof
  have h1 : n ≠ 0 := by omega
  have h2 : ¬ (e > n ∨ s > e ∨ s = e) := by omega
  simp [h1, hd, h2, hl]

/-- a wrong root is rejected (the verifier recomputes the root from proof and data) -/
theorem c16_range_root_bound [DecidableEq H] (ls : List H) (s e : Nat) (root : H)
    (hse : s < e) (hen : e ≤ ls.length) (hn : ls.length ≤ 2 ^ 30) (hroot : root ≠ metaRoot ls) :
    verifySectorRangeProof (honestProof ls s e) ((ls.drop s).take (e - s)) s e ls.length root = .ok false := by
  rw [verify_eq _ _ s e ls.length _ (by omega) (by simp [List.length_take, List.length_drop]; omega)
    (by omega) (c16_range_size ls s e hse hen hn)]
  obtain ⟨_, _, _, hC⟩ := rangeAcc_honest ls s e hse hen hn
  have := hC.root
  simp only [honestProof]
  simp [this, Ne.symm hroot]


/-! ## append proofs (rhp4 BuildAppendProof / VerifyAppendSectorsProof, rhp2 VerifyAppendProof) -/

/-- the accumulator a verifier rebuilds from the honest subtree roots (plus any extra hashes,
which are ignored) holds exactly `ls` -/
theorem append_refill (ls extra : List H) :
    Inv (⟨fillTrees (fun _ => zero) ls.length 0
        ((buildAppendProof ls ([] : List H)).1 ++ extra), ls.length⟩ : Acc H) ls := by
  have hT : Inv (ls.foldl Acc.addLeaf (Acc.empty : Acc H)) ls := by
    simpa using (Inv.empty (H := H)).foldl_addLeaf ls
  refine hT.of_stack ?_ hT.2.symm
  unfold Acc.stack buildAppendProof
  simp only
  rw [hT.2]
  have := toStack_fill_collect (ls.foldl Acc.addLeaf (Acc.empty : Acc H)).trees ls.length (fun _ => zero) 0 extra
  rw [← hT.2] at this ⊢
  exact this

theorem buildAppendProof_fst (ls app : List H) :
    (buildAppendProof ls app).1 = (buildAppendProof ls ([] : List H)).1 := rfl

/-- Completeness: the builder's new root is the plain root of `ls ++ appended`; its subtree
roots are accepted by both verifiers together with the plain old and new roots — also when
extra hashes are appended to the list (this verifier does not fix the length). -/
theorem c16_append_complete [DecidableEq H] (ls app extra : List H) (x : H) :
    (buildAppendProof ls app).2 = metaRoot (ls ++ app) ∧
    verifyAppendSectorsProof ls.length ((buildAppendProof ls app).1 ++ extra) app
      (metaRoot ls) (metaRoot (ls ++ app)) = true ∧
    verifyAppendProof ls.length ((buildAppendProof ls app).1 ++ extra) x
      (metaRoot ls) (metaRoot (ls ++ [x])) = true := by
  have hT : Inv (ls.foldl Acc.addLeaf (Acc.empty : Acc H)) ls := by
    simpa using (Inv.empty (H := H)).foldl_addLeaf ls
  have hR := append_refill ls extra
  refine ⟨?_, ?_, ?_⟩
  · exact (hT.foldl_addLeaf app).root
  · unfold verifyAppendSectorsProof
    rw [buildAppendProof_fst]
    simp [hR.root, (hR.foldl_addLeaf app).root]
  · unfold verifyAppendProof
    rw [buildAppendProof_fst]
    simp [hR.root, (hR.insertLeaf x).root]

example : verifyAppendSectorsProof 5 ((buildAppendProof ex5 [T.lf [7]]).1 ++ []) [T.lf [7]]
    (metaRoot ex5) (metaRoot (ex5 ++ [T.lf [7]])) = true :=
  (c16_append_complete ex5 [T.lf [7]] [] (T.lf [7])).2.1

/-- Soundness: with the true count and the true old root, acceptance forces the new root to be
the plain root of `ls ++ appended` — whatever subtree hashes were supplied. -/
theorem c16_append_sound [DecidableEq H] (hinj : NodeInj H) (ls app hs : List H) (newRoot : H)
    (hacc : verifyAppendSectorsProof ls.length hs app (metaRoot ls) newRoot = true) :
    newRoot = metaRoot (ls ++ app) := by
  have hT : Inv (ls.foldl Acc.addLeaf (Acc.empty : Acc H)) ls := by
    simpa using (Inv.empty (H := H)).foldl_addLeaf ls
  unfold verifyAppendSectorsProof at hacc
  simp only at hacc
  by_cases h : (⟨fillTrees (fun _ => zero) ls.length 0 hs, ls.length⟩ : Acc H).root = metaRoot ls
  · simp only [h, ne_eq, not_true_eq_false, if_false, decide_eq_true_eq] at hacc
    have hs' := root_inj hinj (⟨fillTrees (fun _ => zero) ls.length 0 hs, ls.length⟩ : Acc H)
      (ls.foldl Acc.addLeaf Acc.empty) hT.2.symm (by rw [h, hT.root])
    have hI : Inv (⟨fillTrees (fun _ => zero) ls.length 0 hs, ls.length⟩ : Acc H) ls :=
      hT.of_stack hs' hT.2.symm
    rw [← hacc]; exact (hI.foldl_addLeaf app).root
  · simp [h] at hacc

/-- same for rhp/v2 `VerifyAppendProof` (one appended sector) -/
theorem c16_append_sound_v2 [DecidableEq H] (hinj : NodeInj H) (ls hs : List H) (x newRoot : H)
    (hacc : verifyAppendProof ls.length hs x (metaRoot ls) newRoot = true) :
    newRoot = metaRoot (ls ++ [x]) := by
  have hT : Inv (ls.foldl Acc.addLeaf (Acc.empty : Acc H)) ls := by
    simpa using (Inv.empty (H := H)).foldl_addLeaf ls
  unfold verifyAppendProof at hacc
  simp only at hacc
  by_cases h : (⟨fillTrees (fun _ => zero) ls.length 0 hs, ls.length⟩ : Acc H).root = metaRoot ls
  · simp only [h, ne_eq, not_true_eq_false, if_false, decide_eq_true_eq] at hacc
    have hs' := root_inj hinj (⟨fillTrees (fun _ => zero) ls.length 0 hs, ls.length⟩ : Acc H)
      (ls.foldl Acc.addLeaf Acc.empty) hT.2.symm (by rw [h, hT.root])
    have hI : Inv (⟨fillTrees (fun _ => zero) ls.length 0 hs, ls.length⟩ : Acc H) ls :=
      hT.of_stack hs' hT.2.symm
    rw [← hacc]; exact (hI.insertLeaf x).root
  · simp [h] at hacc

/-- hence an altered appended root is rejected when the claimed new root is the true one -/
theorem c16_append_binds_data [DecidableEq H] (hinj : NodeInj H) (ls app app' hs : List H)
    (hlen : app'.length = app.length)
    (hacc : verifyAppendSectorsProof ls.length hs app' (metaRoot ls) (metaRoot (ls ++ app)) = true) :
    app' = app := by
  have h := c16_append_sound hinj ls app' hs _ hacc
  have := c16_root_injective hinj (ls ++ app) (ls ++ app') (by simp [hlen]) h
  exact (List.append_cancel_left this).symm

example : verifyAppendSectorsProof 5 (buildAppendProof ex5 [T.lf [7]]).1 [T.lf [8]]
    (metaRoot ex5) (metaRoot (ex5 ++ [T.lf [7]])) ≠ true := by
  intro h
  have := c16_append_binds_data T_nodeInj ex5 [T.lf [7]] [T.lf [8]] _ rfl h
  exact absurd this (by decide)

end C16
