import SiaModel.Gen.CodeConsensus
import SiaProofs.Lemmas.GoLoops
/-!
# C02 — the inputs of one accepted v2 transaction name pairwise different parents, on REGENERATED code

The whole first loop of `consensus.validateV2Siacoins` (and of `validateV2Siafunds`) — the per-input tests AND the
bookkeeping in the transaction's own `spent` map (`spent[id] = i`, a map write: the newest binding is consed onto the
association list) — is translated from the source on every run.  The theorem: if the loop accepts, then

* no parent id occurs twice among the transaction's inputs (`List.Nodup`) — no double spend inside a transaction,
* and every input individually: not consumed earlier in the block, matured (siacoins), ephemeral-and-checked or an
  unspent member of the accumulator, and authorised by its spend policy for the transaction's input sighash.
-/
namespace C02
open Gen.Types Gen.Consensus GoLoops

theorem mapGet_false {m : List (ByteArray × Int)} {k : ByteArray} (h : (Go.mapGet m k (0 : Int)).2 = false) :
    k ∉ m.map Prod.fst := by
  unfold Go.mapGet at h
  cases hf : m.find? (fun p => decide (p.1 = k)) with
  | some p => simp [hf] at h
  | none =>
    intro hm
    obtain ⟨p, hp, e⟩ := List.mem_map.mp hm
    have := List.find?_eq_none.mp hf p hp
    simp [e] at this

/-- a loop that records a fresh key per element visits pairwise different keys -/
theorem fresh_keys_nodup {α : Type} (key : α → ByteArray) {R : α → List (ByteArray × Int) → List (ByteArray × Int) → Prop}
    (hR : ∀ x st st', R x st st' → key x ∉ st.map Prod.fst ∧ ∃ j, st' = (key x, j) :: st) :
    ∀ (xs : List α) (st st' : List (ByteArray × Int)), Chain R xs st st' →
      (xs.map key).Nodup ∧ ∀ x ∈ xs, key x ∉ st.map Prod.fst := by
  intro xs
  induction xs with
  | nil => intro st st' _; exact ⟨List.nodup_nil, fun _ h => by cases h⟩
  | cons x xs ih =>
    intro st st' c
    obtain ⟨st1, r, c'⟩ := c
    obtain ⟨fresh, j, e⟩ := hR x st st1 r
    obtain ⟨nd, others⟩ := ih st1 st' c'
    subst e
    refine ⟨?_, ?_⟩
    · rw [List.map_cons, List.nodup_cons]
      refine ⟨?_, nd⟩
      intro hm
      obtain ⟨y, hy, e⟩ := List.mem_map.mp hm
      have := others y hy
      simp [e] at this
    · intro y hy
      cases hy with
      | head => exact fresh
      | tail _ hm =>
        have := others y hm
        intro hk
        apply this
        simp [hk]

/-- what the loop establishes about each siacoin input -/
structure SiacoinInputOk (ext : Ext) (ms : MidState) (txn : V2Transaction) (sci : V2SiacoinInput) : Prop where
  notSpentInBlock : (ext.spent ms sci.Parent.ID).2 = false
  mature : sci.Parent.MaturityHeight ≤ State.childHeight ms.base
  member : if sci.Parent.StateElement.LeafIndex = 10101010101010101010
           then ext.validateEphemeralSiacoinElement ms sci = none
           else ext.containsUnspentSiacoinElement ms.base.Elements (SiacoinElement.Share sci.Parent) = true
  authorised : validateV2SpendPolicy ext ms (ext.InputSigHash ms.base txn) sci.SatisfiedPolicy sci.Parent.SiacoinOutput.Address sci.Parent.ID = none

def SciStep (ext : Ext) (ms : MidState) (txn : V2Transaction) (sci : V2SiacoinInput) (st st' : List (ByteArray × Int)) : Prop :=
  (Go.mapGet st sci.Parent.ID (0 : Int)).2 = false ∧ (∃ j, st' = (sci.Parent.ID, j) :: st) ∧ SiacoinInputOk ext ms txn sci

theorem c02_v2_siacoin_inputs_nodup_gen (ext : Ext) (ms : MidState) (txn : V2Transaction)
    (h : validateV2Siacoins_inputs ext ms txn = .ok none) :
    (txn.SiacoinInputs.map (fun i => i.Parent.ID)).Nodup ∧ ∀ sci ∈ txn.SiacoinInputs, SiacoinInputOk ext ms txn sci := by
  unfold validateV2Siacoins_inputs at h
  simp only [bind, Except.bind] at h
  split at h
  · cases h
  rename_i v hv
  obtain ⟨r, st'⟩ := v
  cases r with
  | some q =>
    simp [pure, Except.pure] at h; subst h; exfalso
    have := forRange_some (P := fun r : Option String => r ≠ none) ?_ txn.SiacoinInputs _ none st' hv
    · exact this rfl
    intro i x st r st1 hx
    repeat' (split at hx)
    all_goals (simp [pure, Except.pure] at hx)
    all_goals (try (rw [← hx.1]; simp))
  | none =>
    have c : Chain (SciStep ext ms txn) txn.SiacoinInputs [] st' := by
      refine forRange_none (R := SciStep ext ms txn) ?_ txn.SiacoinInputs _ _ hv
      intro i x st st1 hx
      unfold SciStep
      cases h1 : (ext.spent ms x.Parent.ID).2
      case true => simp [h1, pure, Except.pure] at hx
      cases h2 : (Go.mapGet st x.Parent.ID (0 : Int)).2
      case true => simp [h1, h2, pure, Except.pure] at hx
      by_cases h3 : x.Parent.MaturityHeight > State.childHeight ms.base
      · simp [h1, h2, h3, pure, Except.pure] at hx
      simp only [h1, h2, h3, Bool.false_eq_true, if_false, decide_false] at hx
      by_cases h4 : x.Parent.StateElement.LeafIndex = 10101010101010101010
      · simp only [h4, decide_true, if_true] at hx
        cases h5 : ext.validateEphemeralSiacoinElement ms x with
        | some e => simp [h5, pure, Except.pure] at hx
        | none =>
          simp only [h5] at hx
          cases h6 : validateV2SpendPolicy ext ms (ext.InputSigHash ms.base txn) x.SatisfiedPolicy x.Parent.SiacoinOutput.Address x.Parent.ID with
          | some e => simp [h6, pure, Except.pure] at hx
          | none =>
            simp [h6, pure, Except.pure] at hx
            exact ⟨rfl, ⟨i, hx.symm⟩, ⟨h1, by omega, by simp [h4, h5], h6⟩⟩
      · simp only [h4, decide_false, Bool.false_eq_true, if_false] at hx
        cases h5 : ext.containsUnspentSiacoinElement ms.base.Elements (SiacoinElement.Share x.Parent) with
        | false =>
          cases h5b : ext.containsSpentSiacoinElement ms.base.Elements (SiacoinElement.Share x.Parent) <;>
            simp [h5, h5b, pure, Except.pure] at hx
        | true =>
          simp only [h5, Bool.not_true, Bool.false_eq_true, if_false] at hx
          cases h6 : validateV2SpendPolicy ext ms (ext.InputSigHash ms.base txn) x.SatisfiedPolicy x.Parent.SiacoinOutput.Address x.Parent.ID with
          | some e => simp [h6, pure, Except.pure] at hx
          | none =>
            simp [h6, pure, Except.pure] at hx
            exact ⟨rfl, ⟨i, hx.symm⟩, ⟨h1, by omega, by simp [h4, h5], h6⟩⟩
    refine ⟨?_, ?_⟩
    · exact (fresh_keys_nodup (fun sci : V2SiacoinInput => sci.Parent.ID)
        (fun x st st' r => ⟨mapGet_false r.1, r.2.1⟩) txn.SiacoinInputs [] st' c).1
    · exact Chain.all (Q := SiacoinInputOk ext ms txn) (fun _ _ _ r => r.2.2) _ _ _ c

/-- what the loop establishes about each siafund input -/
structure SiafundInputOk (ext : Ext) (ms : MidState) (txn : V2Transaction) (sfi : V2SiafundInput) : Prop where
  notSpentInBlock : (ext.spent ms sfi.Parent.ID).2 = false
  member : if sfi.Parent.StateElement.LeafIndex = 10101010101010101010
           then ext.validateEphemeralSiafundElement ms sfi = none
           else ext.containsUnspentSiafundElement ms.base.Elements (SiafundElement.Share sfi.Parent) = true
  authorised : validateV2SpendPolicy ext ms (ext.InputSigHash ms.base txn) sfi.SatisfiedPolicy sfi.Parent.SiafundOutput.Address sfi.Parent.ID = none

def SfiStep (ext : Ext) (ms : MidState) (txn : V2Transaction) (sfi : V2SiafundInput) (st st' : List (ByteArray × Int)) : Prop :=
  (Go.mapGet st sfi.Parent.ID (0 : Int)).2 = false ∧ (∃ j, st' = (sfi.Parent.ID, j) :: st) ∧ SiafundInputOk ext ms txn sfi

theorem c02_v2_siafund_inputs_nodup_gen (ext : Ext) (ms : MidState) (txn : V2Transaction)
    (h : validateV2Siafunds_inputs ext ms txn = .ok none) :
    (txn.SiafundInputs.map (fun i => i.Parent.ID)).Nodup ∧ ∀ sfi ∈ txn.SiafundInputs, SiafundInputOk ext ms txn sfi := by
  unfold validateV2Siafunds_inputs at h
  simp only [bind, Except.bind] at h
  split at h
  · cases h
  rename_i v hv
  obtain ⟨r, st'⟩ := v
  cases r with
  | some q =>
    simp [pure, Except.pure] at h; subst h; exfalso
    have := forRange_some (P := fun r : Option String => r ≠ none) ?_ txn.SiafundInputs _ none st' hv
    · exact this rfl
    intro i x st r st1 hx
    repeat' (split at hx)
    all_goals (simp [pure, Except.pure] at hx)
    all_goals (try (rw [← hx.1]; simp))
  | none =>
    have c : Chain (SfiStep ext ms txn) txn.SiafundInputs [] st' := by
      refine forRange_none (R := SfiStep ext ms txn) ?_ txn.SiafundInputs _ _ hv
      intro i x st st1 hx
      unfold SfiStep
      cases h1 : (ext.spent ms x.Parent.ID).2
      case true => simp [h1, pure, Except.pure] at hx
      cases h2 : (Go.mapGet st x.Parent.ID (0 : Int)).2
      case true => simp [h1, h2, pure, Except.pure] at hx
      simp only [h1, h2, Bool.false_eq_true, if_false] at hx
      by_cases h4 : x.Parent.StateElement.LeafIndex = 10101010101010101010
      · simp only [h4, decide_true, if_true] at hx
        cases h5 : ext.validateEphemeralSiafundElement ms x with
        | some e => simp [h5, pure, Except.pure] at hx
        | none =>
          simp only [h5] at hx
          cases h6 : validateV2SpendPolicy ext ms (ext.InputSigHash ms.base txn) x.SatisfiedPolicy x.Parent.SiafundOutput.Address x.Parent.ID with
          | some e => simp [h6, pure, Except.pure] at hx
          | none =>
            simp [h6, pure, Except.pure] at hx
            exact ⟨rfl, ⟨i, hx.symm⟩, ⟨h1, by simp [h4, h5], h6⟩⟩
      · simp only [h4, decide_false, Bool.false_eq_true, if_false] at hx
        cases h5 : ext.containsUnspentSiafundElement ms.base.Elements (SiafundElement.Share x.Parent) with
        | false =>
          cases h5b : ext.containsSpentSiafundElement ms.base.Elements (SiafundElement.Share x.Parent) <;>
            simp [h5, h5b, pure, Except.pure] at hx
        | true =>
          simp only [h5, Bool.not_true, Bool.false_eq_true, if_false] at hx
          cases h6 : validateV2SpendPolicy ext ms (ext.InputSigHash ms.base txn) x.SatisfiedPolicy x.Parent.SiafundOutput.Address x.Parent.ID with
          | some e => simp [h6, pure, Except.pure] at hx
          | none =>
            simp [h6, pure, Except.pure] at hx
            exact ⟨rfl, ⟨i, hx.symm⟩, ⟨h1, by simp [h4, h5], h6⟩⟩
    refine ⟨?_, ?_⟩
    · exact (fresh_keys_nodup (fun sfi : V2SiafundInput => sfi.Parent.ID)
        (fun x st st' r => ⟨mapGet_false r.1, r.2.1⟩) txn.SiafundInputs [] st' c).1
    · exact Chain.all (Q := SiafundInputOk ext ms txn) (fun _ _ _ r => r.2.2) _ _ _ c

/-! ### non-vacuity -/

/-- every element is an unspent member, every policy is fine -/
def extOpen : Ext := { Ext.trivial with containsUnspentSiacoinElement := fun _ _ => true, containsUnspentSiafundElement := fun _ _ => true }

def twoInputs : V2Transaction :=
  { SiacoinInputs := [{ Parent := { ID := ⟨#[1]⟩ } }, { Parent := { ID := ⟨#[2]⟩ } }] }

example : validateV2Siacoins_inputs extOpen { base := { Index := { Height := 5 } } } twoInputs = .ok none := by rfl
example : validateV2Siacoins_inputs extOpen { base := { Index := { Height := 5 } } }
    { SiacoinInputs := [{ Parent := { ID := ⟨#[1]⟩ } }, { Parent := { ID := ⟨#[2]⟩ } }, { Parent := { ID := ⟨#[1]⟩ } }] }
    = .ok (some "siacoin input %v double-spends parent output (previously spent by input %v)") := by rfl
example : validateV2Siacoins_inputs Ext.trivial {} twoInputs
    = .ok (some "siacoin input %v spends output (%v) not present in the accumulator") := by rfl

end C02
