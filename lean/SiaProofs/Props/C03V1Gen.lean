import SiaModel.Gen.CodeConsensus
import SiaProofs.Props.C01SfGen
/-!
# C03 / C01 — `consensus.validateSiafunds` (v1), the WHOLE function, on REGENERATED code

`c03_v1_siafund_inputs_gen`: if the regenerated function accepts a v1 transaction, every siafund input is past its
timelock, not consumed earlier in the block, an existing parent, and AUTHORISED in exactly one of two ways: the
revealed unlock conditions hash to the parent's address, or — the developer-address override — the child height has
reached `HardforkDevAddr.Height`, the parent sits at `OldAddress` and the revealed conditions hash to `NewAddress`.
There is no third way.  The input and output siafund sums agree modulo 2^64 (`uint64` additions; exact under the
per-value bound, as in `C01SfGen`).
-/
namespace C03
open Gen.Types Gen.Consensus GoLoops

abbrev sfParent (ext : Ext) (ms : MidState) (ts : V1TransactionSupplement) (sfi : SiafundInput) : SiafundElement :=
  (ext.siafundElement ms ts sfi.ParentID).1

structure V1SiafundInputOk (ext : Ext) (ms : MidState) (ts : V1TransactionSupplement) (sfi : SiafundInput) : Prop where
  timelock : sfi.UnlockConditions.Timelock ≤ State.childHeight ms.base
  notSpentInBlock : (ext.spent ms sfi.ParentID).2 = false
  exists_ : (ext.siafundElement ms ts sfi.ParentID).2 = true
  authorised : ext.UnlockHash sfi.UnlockConditions = (sfParent ext ms ts sfi).SiafundOutput.Address ∨
    (State.childHeight ms.base ≥ ms.base.Network.HardforkDevAddr.Height ∧
     (sfParent ext ms ts sfi).SiafundOutput.Address = ms.base.Network.HardforkDevAddr.OldAddress ∧
     ext.UnlockHash sfi.UnlockConditions = ms.base.Network.HardforkDevAddr.NewAddress)

def SfStep (ext : Ext) (ms : MidState) (ts : V1TransactionSupplement) (sfi : SiafundInput) (st st' : Nat) : Prop :=
  V1SiafundInputOk ext ms ts sfi ∧ st' = (st + (sfParent ext ms ts sfi).SiafundOutput.Value) % 18446744073709551616

theorem c03_v1_siafund_inputs_gen (ext : Ext) (ms : MidState) (txn : Transaction) (ts : V1TransactionSupplement)
    (h : validateSiafunds ext ms txn ts = .ok none) :
    (∀ sfi ∈ txn.SiafundInputs, V1SiafundInputOk ext ms ts sfi) ∧
    (txn.SiafundInputs.map (fun i => (sfParent ext ms ts i).SiafundOutput.Value)).sum % 18446744073709551616
      = (txn.SiafundOutputs.map (fun o => o.Value)).sum % 18446744073709551616 := by
  unfold validateSiafunds Go.forRange at h
  simp only [bind, Except.bind] at h
  split at h
  · cases h
  rename_i v1 hv1
  obtain ⟨r1, s1⟩ := v1
  cases r1 with
  | some q =>
    simp [pure, Except.pure] at h; subst h; exfalso
    have := forRangeFrom_some (P := fun r : Option String => r ≠ none) ?_ txn.SiafundInputs 0 0 none s1 hv1
    · exact this rfl
    intro i x st r st' hx
    repeat' (split at hx)
    all_goals (simp [pure, Except.pure] at hx)
    all_goals (try (rw [← hx.1]; simp))
  | none =>
    obtain ⟨a1, ok1, _⟩ := C01.wrapLoop (fun i : SiafundInput => (sfParent ext ms ts i).SiafundOutput.Value)
      (V1SiafundInputOk ext ms ts) _
      (by
        intro i x st r st' hx hr
        subst hr
        unfold sfParent
        by_cases h1 : x.UnlockConditions.Timelock > State.childHeight ms.base
        · simp [h1, pure, Except.pure] at hx
        cases h2 : (ext.spent ms x.ParentID).2
        case true => simp [h1, h2, pure, Except.pure] at hx
        cases h3 : (ext.siafundElement ms ts x.ParentID).2
        case false => simp [h1, h2, h3, pure, Except.pure] at hx
        by_cases hA : ext.UnlockHash x.UnlockConditions = (ext.siafundElement ms ts x.ParentID).1.SiafundOutput.Address
        · simp [h1, h2, h3, hA, pure, Except.pure] at hx
          exact ⟨⟨by omega, h2, h3, Or.inl hA⟩, hx.symm⟩
        · by_cases hB : (State.childHeight ms.base ≥ ms.base.Network.HardforkDevAddr.Height ∧
              (ext.siafundElement ms ts x.ParentID).1.SiafundOutput.Address = ms.base.Network.HardforkDevAddr.OldAddress ∧
              ext.UnlockHash x.UnlockConditions = ms.base.Network.HardforkDevAddr.NewAddress)
          · obtain ⟨b1, b2, b3⟩ := hB
            simp [h1, h2, h3, hA, b1, b2, b3, pure, Except.pure] at hx
            exact ⟨⟨by omega, h2, h3, Or.inr ⟨b1, b2, b3⟩⟩, hx.symm⟩
          · exfalso
            simp only [h1, h2, h3, decide_false, Bool.false_eq_true, if_false, Bool.not_true, Bool.not_false] at hx
            have cond : (decide (ext.UnlockHash x.UnlockConditions ≠ (ext.siafundElement ms ts x.ParentID).1.SiafundOutput.Address) &&
                !(decide (State.childHeight ms.base ≥ ms.base.Network.HardforkDevAddr.Height) &&
                  decide ((ext.siafundElement ms ts x.ParentID).1.SiafundOutput.Address = ms.base.Network.HardforkDevAddr.OldAddress) &&
                  decide (ext.UnlockHash x.UnlockConditions = ms.base.Network.HardforkDevAddr.NewAddress))) = true := by
              simp only [Bool.and_eq_true, Bool.not_eq_true', decide_eq_true_eq, Bool.and_eq_false_imp, decide_eq_false_iff_not]
              refine ⟨hA, ?_⟩
              intro c12 c3
              exact hB ⟨c12.1, c12.2, c3⟩ |>.elim
            simp only [cond, if_true, pure, Except.pure] at hx
            cases hx)
      txn.SiafundInputs 0 0 s1 hv1
    simp only [] at h
    split at h
    · cases h
    rename_i v2 hv2
    obtain ⟨r2, s2⟩ := v2
    cases r2 with
    | some q =>
      exfalso
      have := forRangeFrom_some (P := fun _ : Option String => False) ?_ txn.SiafundOutputs 0 0 q s2 hv2
      · exact this
      intro i x st r st' hx
      simp [pure, Except.pure] at hx
    | none =>
      obtain ⟨a2, _, _⟩ := C01.wrapLoop (fun o : SiafundOutput => o.Value) (fun _ => True) _
        (by intro i x st r st' hx hr; simp [pure, Except.pure] at hx; exact ⟨trivial, hx.2.symm⟩) txn.SiafundOutputs 0 0 s2 hv2
      simp only [] at h
      by_cases hne : s1 ≠ s2
      · simp [hne, pure, Except.pure] at h
      · have heq : s1 = s2 := Classical.not_not.mp hne
        refine ⟨ok1, ?_⟩
        simp only [Nat.zero_add] at a1 a2
        rw [← a1, ← a2, heq]

end C03
