import SiaModel.Ids.Derive
import SiaModel.Ids.Spec
import SiaModel.Gen.FactsIds
import SiaModel.Gen.FactsSchema
import SiaProofs.Lemmas.IdsSem
import SiaProofs.Lemmas.IdsWF
import SiaProofs.Lemmas.PolicyMerkle
/-!
# C12 — IDs and sighashes bind exactly the effect-bearing content; block IDs bind all

Model: `SiaModel/Ids` (`semEncode` mirrors `V2TransactionSemantics.EncodeTo`; `strip` is the
specification of effect-bearing content written from the property text; every id / sighash is
`H (preimage)` for a hash `H` that is injective by HYPOTHESIS `HashInj H`, satisfiable by
`H = id`).  The encoder theory is C11's (`c11_injective`, `c11_prefix_free`).

Two findings are built into the statements (both confirmed on the Go code by the harness):
* the semantic encoding writes a resolution WITHOUT its type tag, so it is injective only among
  transactions with the same list of resolution kinds (`c12_v2_id_iff_partial`; the
  machine-checked counterexample is `c12_v2_id_collision_witness`);
* the claim address of a v2 siafund input is not written at all (`codeBindsClaimAddress =
  false`): ids and input sighashes bind `stripCode`, which forgets it
  (`c12_v2_claim_address_unbound`).
-/
namespace C12
open Sia.Codec Sia.Ids

/-! ## ties: the generated facts are what the model assumes -/

theorem tie_semantics_schema : Gen.FactsIds.semanticsSchema = codeSemantics codeBindsClaimAddress := by rfl

/-- every declared field of `V2Transaction` is written by the semantic encoder, in declaration order -/
theorem tie_semantics_covers :
    Gen.FactsIds.v2TransactionDeclaredFields = (codeSemantics codeBindsClaimAddress).map (·.1) := by rfl

/-- the generated flag "the siafund-input loop writes the claim address" is the model's flag -/
theorem tie_claim_address_flag : Gen.FactsIds.semanticsBindsClaimAddress = codeBindsClaimAddress := by rfl

theorem tie_semantics_nilsigs : Gen.FactsIds.semanticsNilSigs =
    "nilSigs := func(sigs ...*Signature) { for i := range sigs { *sigs[i] = Signature{} } }" := by rfl

/-- the `hashAll` calls in the code (functions, distinguishers, argument lists, how each argument is
written) are exactly the committed ones the model mirrors -/
theorem tie_hashall_derivations : Gen.FactsIds.hashAllCalls = Spec.hashAllCalls := by rfl

theorem tie_distinguishers : Gen.FactsIds.distinguishers = Spec.distinguishers := by rfl

theorem tie_write_distinguisher : Gen.FactsIds.writeDistinguisher = "h.E.Write([]byte(\"sia/\" + p + \"|\"))" := by rfl

theorem tie_hashall_switch :
    Gen.FactsIds.hashAllSwitch_types = [("string", "h.WriteDistinguisher(e)"), ("uint8", "h.E.WriteUint8(e)"),
      ("int", "h.E.WriteUint64(uint64(e))"), ("uint64", "h.E.WriteUint64(e)"), ("bool", "h.E.WriteBool(e)"), ("default", "panic")] ∧
    Gen.FactsIds.hashAllSwitch_consensus = [("string", "h.WriteDistinguisher(e)"), ("uint8", "h.E.WriteUint8(e)"),
      ("uint64", "h.E.WriteUint64(e)"), ("default", "panic")] := by constructor <;> rfl

theorem tie_specifiers : Gen.FactsIds.specifiers = Spec.specifiers := by rfl

theorem tie_replay_prefix :
    Gen.FactsIds.replayPrefixTable = Spec.replayPrefixTable ∧ Gen.FactsIds.v2ReplayPrefix = v2ReplayPrefix ∧
    Spec.replayPrefixTable.map (·.2) = replayPrefixes.map (·.2.map UInt8.toNat) := by
  refine ⟨by rfl, by rfl, by decide⟩

theorem tie_v1_sighash_bodies :
    Gen.FactsIds.wholeSigHashBody = Spec.wholeSigHashBody ∧ Gen.FactsIds.partialSigHashBody = Spec.partialSigHashBody := by
  constructor <;> rfl

theorem tie_v2_sighash_bodies :
    Gen.FactsIds.contractSigHashBody = Spec.contractSigHashBody ∧ Gen.FactsIds.renewalSigHashBody = Spec.renewalSigHashBody ∧
    Gen.FactsIds.attestationSigHashBody = Spec.attestationSigHashBody := by
  refine ⟨by rfl, by rfl, by rfl⟩

theorem tie_block_id_bodies :
    Gen.FactsIds.blockHeaderIDBody = Spec.blockHeaderIDBody ∧ Gen.FactsIds.blockHeaderBody = Spec.blockHeaderBody ∧
    Gen.FactsIds.blockMerkleRootBody = Spec.blockMerkleRootBody ∧ Gen.FactsIds.commitmentBody = Spec.commitmentBody ∧
    Gen.FactsIds.stateMerkleLeafHashBody = Spec.stateMerkleLeafHashBody ∧
    Gen.FactsIds.leafHashPrefix_types = 0 ∧ Gen.FactsIds.leafHashPrefix_consensus = 0 ∧
    Gen.FactsIds.commitmentDistinguisher = "commitment" := by
  refine ⟨by rfl, by rfl, by rfl, by rfl, by rfl, by rfl, by rfl, by rfl⟩

/-- the Merkle accumulator (`AddLeaf`, `Root`), the node hash (65 bytes `0x01 ‖ left ‖ right`), the leaf and
node prefixes, and the block weight limit are the ones the model assumes -/
theorem tie_accumulator :
    Gen.FactsIds.accumulatorAddLeafBody = Spec.accumulatorAddLeafBody ∧ Gen.FactsIds.accumulatorRootBody = Spec.accumulatorRootBody ∧
    Gen.FactsIds.accumulatorHasTreeBody = Spec.accumulatorHasTreeBody ∧ Gen.FactsIds.sumPairBody = Spec.sumPairBody ∧
    Gen.FactsIds.hashBlockGenericBody = Spec.hashBlockGenericBody ∧
    Gen.FactsIds.leafHashPrefix_blake2b = 0 ∧ Gen.FactsIds.nodeHashPrefix_blake2b = 1 := by
  refine ⟨by rfl, by rfl, by rfl, by rfl, by rfl, by rfl, by rfl⟩

theorem tie_block_weight :
    Gen.FactsIds.maxBlockWeight = 2000000 ∧ Gen.FactsIds.maxBlockWeightBody = Spec.maxBlockWeightBody ∧
    Gen.FactsIds.transactionWeightBody = Spec.transactionWeightBody := by
  refine ⟨by rfl, by rfl, by rfl⟩

theorem tie_v1_txn_bodies :
    Gen.FactsIds.txnSansSigsBody = Spec.txnSansSigsBody ∧ Gen.FactsIds.transactionEncodeBody = Spec.transactionEncodeBody := by
  constructor <;> rfl

/-- the v1 body schema of the model is the schema the extractor reads off `txnSansSigs.EncodeTo`,
and a full transaction is that body followed by the signatures -/
theorem tie_v1_body_schema :
    Sia.Codec.Gen.encSchema_Types_txnSansSigs = v1BodySch ∧
    Sia.Codec.Gen.encSchema_Types_Transaction = v1BodySch.append (Sch.seq [("Signatures", v1SigsSch)]) := by
  constructor <;> rfl

/-- the layouts used inside the semantic encoding and the v2 sighashes are the generated ones -/
theorem tie_v2_layouts :
    Sia.Codec.Gen.encSchema_Types_V2FileContract = Spec.v2FileContract ∧
    Sia.Codec.Gen.encSchema_Types_V2FileContractRenewal = Spec.v2FileContractRenewal ∧
    Sia.Codec.Gen.encSchema_Types_V2StorageProof = Spec.v2StorageProof ∧
    Sia.Codec.Gen.encSchema_Types_V2FileContractExpiration = Spec.v2FileContractExpiration ∧
    Sia.Codec.Gen.encSchema_Types_Attestation = Spec.attestation ∧
    Sia.Codec.Gen.encSchema_Types_V2SiacoinOutput = Spec.v2SiacoinOutput ∧
    Sia.Codec.Gen.encSchema_Types_V2SiafundOutput = Spec.v2SiafundOutput := by
  refine ⟨by rfl, by rfl, by rfl, by rfl, by rfl, by rfl, by rfl⟩

/-! ## distinguishers -/

/-- no distinguisher (as written: `"sia/" ‖ d ‖ "|"`) is a prefix of another -/
theorem c12_distinguishers_prefix_free :
    ∀ a ∈ Spec.distinguishers, ∀ b ∈ Spec.distinguishers, a ≠ b → ¬ (dist a <+: dist b) := by decide

/-- two preimages that start with different distinguishers of the table differ, whatever follows -/
theorem c12_distinguished_preimages_differ {a b : String} (ha : a ∈ Spec.distinguishers) (hb : b ∈ Spec.distinguishers)
    (hne : a ≠ b) (x y : List UInt8) : dist a ++ x ≠ dist b ++ y :=
  append_ne_of_not_prefix (c12_distinguishers_prefix_free a ha b hb hne)
    (c12_distinguishers_prefix_free b hb a ha (Ne.symm hne))

example : dist "id/siacoinoutput" ++ [1, 2] ≠ dist "id/siafundoutput" ++ [1, 2] :=
  c12_distinguished_preimages_differ (a := "id/siacoinoutput") (b := "id/siafundoutput") (by decide) (by decide) (by decide) _ _

/-! ## the v2 transaction id

Full statement (NOT true of the code at the pinned commit):

    c12_v2_id_iff : HashInj H → (txid H t = txid H t' ↔ strip t = strip t')

Proved: the same equivalence for well-formed `t`, `t'` with the two exclusions made explicit
hypotheses — the same list of resolution kinds, the same claim addresses — each exclusion with a
machine-checked witness that it cannot be dropped. -/

/-- `⇐`, unconditionally: the id only reads the effect-bearing content -/
theorem c12_v2_id_of_strip (H : List UInt8 → List UInt8) (t t' : V2Txn) (h : strip t = strip t') :
    txid H t = txid H t' ∧ H (inputSigPre t) = H (inputSigPre t') := by
  have hs : stripCode codeBindsClaimAddress t = stripCode codeBindsClaimAddress t' := by
    cases hb : codeBindsClaimAddress
    · exact ((strip_eq_iff t t').1 h).1
    · exact h
  have := semEncodeG_of_stripCode _ hs
  simp only [txid, txidPre, txidPreG, inputSigPre, inputSigPreG, this, and_self]

/-- the equivalence for both values of the claim-address flag -/
theorem v2_pre_iff (b : Bool) (t t' : V2Txn) (hw : WFG b t) (hw' : WFG b t') (hk : t.kinds = t'.kinds)
    (hc : t.siafundInputs.map (·.claimAddress) = t'.siafundInputs.map (·.claimAddress)) :
    semEncodeG b t = semEncodeG b t' ↔ strip t = strip t' := by
  constructor
  · intro h
    have hs := semEncodeG_inj b hw hw' hk h
    cases b
    · exact (strip_eq_iff t t').2 ⟨hs, hc⟩
    · exact hs
  · intro h
    apply semEncodeG_of_stripCode
    cases b
    · exact ((strip_eq_iff t t').1 h).1
    · exact h

/-- **c12_v2_id_iff_partial**: under `HashInj`, for well-formed transactions with the same
resolution kinds and the same siafund claim addresses, the transaction ids are equal iff the
effect-bearing contents are equal. -/
theorem c12_v2_id_iff_partial (H : List UInt8 → List UInt8) (hH : HashInj H) (t t' : V2Txn)
    (hw : WFG codeBindsClaimAddress t) (hw' : WFG codeBindsClaimAddress t') (hk : t.kinds = t'.kinds)
    (hc : t.siafundInputs.map (·.claimAddress) = t'.siafundInputs.map (·.claimAddress)) :
    txid H t = txid H t' ↔ strip t = strip t' := by
  rw [← v2_pre_iff codeBindsClaimAddress t t' hw hw' hk hc]
  constructor
  · intro h
    exact List.append_cancel_left (hH _ _ h)
  · intro h
    simp only [txid, txidPre, txidPreG, h]

/-- the well-formedness hypothesis made explicit: it follows from the typing conditions the Go types
guarantee (`V2Txn.Typed`: 32-byte ids / addresses / keys / roots, 64-byte leaves and signatures, `uint64`
fields below 2^64, currencies below 2^128, lengths below 2^64) -/
theorem c12_wf_of_typed (t : V2Txn) (h : t.Typed) : WFG codeBindsClaimAddress t := wfg_of_typed _ h

/-- `c12_v2_id_iff_partial` with the typing conditions as hypotheses -/
theorem c12_v2_id_iff_typed_partial (H : List UInt8 → List UInt8) (hH : HashInj H) (t t' : V2Txn) (ht : t.Typed) (ht' : t'.Typed)
    (hk : t.kinds = t'.kinds) (hc : t.siafundInputs.map (·.claimAddress) = t'.siafundInputs.map (·.claimAddress)) :
    txid H t = txid H t' ↔ strip t = strip t' :=
  c12_v2_id_iff_partial H hH t t' (wfg_of_typed _ ht) (wfg_of_typed _ ht') hk hc

/-- what the id binds when the claim addresses are left free: `stripCode` -/
theorem c12_v2_id_binds_code (H : List UInt8 → List UInt8) (hH : HashInj H) (t t' : V2Txn)
    (hw : WFG codeBindsClaimAddress t) (hw' : WFG codeBindsClaimAddress t') (hk : t.kinds = t'.kinds) :
    txid H t = txid H t' ↔ stripCode codeBindsClaimAddress t = stripCode codeBindsClaimAddress t' := by
  constructor
  · intro h
    exact semEncodeG_inj _ hw hw' hk (List.append_cancel_left (hH _ _ h))
  · intro h
    simp only [txid, txidPre, txidPreG, semEncodeG_of_stripCode _ h]

/-! ### the witnesses -/

def z32 : List UInt8 := zeros 32
def z64 : List UInt8 := zeros 64
def fc0 : V2FileContract :=
  { capacity := 0, filesize := 0, fileMerkleRoot := z32, proofHeight := 0, expirationHeight := 0,
    renterOutput := ⟨0, z32⟩, hostOutput := ⟨0, z32⟩, missedHostValue := 0, totalCollateral := 0,
    renterPublicKey := z32, hostPublicKey := z32, revisionNumber := 0, renterSignature := z64, hostSignature := z64 }
def el0 : V2FileContractElement := { se := ⟨0, []⟩, id := z32, contract := fc0 }
/-- B: the renewal of a contract whose final renter output is worth 648 · 2^64 H -/
def rnB : V2Renewal :=
  { finalRenterOutput := ⟨648 * W64, z32⟩, finalHostOutput := ⟨0, z32⟩,
    renterRollover := 0, hostRollover := 0, newContract := fc0, renterSignature := z64, hostSignature := z64 }
def txB : V2Txn := { (default : V2Txn) with resolutions := [⟨el0, .renewal rnB⟩] }
/-- A: the expiration of the same contract, carrying 648 bytes of B's encoding as arbitrary data -/
def txA : V2Txn :=
  { (default : V2Txn) with resolutions := [⟨el0, .expiration⟩],
                            arbitraryData := ((semEncodeG false txB).drop 104).take 648 }

/-- **c12_v2_id_collision_witness**: the semantic encoding writes a resolution without its type
tag: an expiration followed by (no attestations, 648 bytes of arbitrary data) is byte for byte a
renewal whose first currency is 648 · 2^64.  Two well-formed transactions with different
effect-bearing content, the same transaction id and the same input sighash for EVERY hash. -/
theorem c12_v2_id_collision_witness :
    (∀ b, WFG b txA ∧ WFG b txB ∧ semEncodeG b txA = semEncodeG b txB) ∧ strip txA ≠ strip txB ∧ txA.kinds ≠ txB.kinds ∧
    ∀ H : List UInt8 → List UInt8, txid H txA = txid H txB ∧ H (inputSigPre txA) = H (inputSigPre txB) := by
  have h : ∀ b, WFG b txA ∧ WFG b txB ∧ semEncodeG b txA = semEncodeG b txB := by
    intro b; cases b <;> decide +kernel
  refine ⟨h, by decide +kernel, by decide, fun H => ?_⟩
  have := (h codeBindsClaimAddress).2.2
  simp only [txid, txidPre, txidPreG, inputSigPre, inputSigPreG, this, and_self]

def sfIn0 (claim : List UInt8) : V2SiafundInput :=
  { parent := { se := ⟨0, []⟩, id := z32, output := ⟨1, z32⟩, claimStart := 0 }, claimAddress := claim, satisfied := default }
def txC (claim : List UInt8) : V2Txn := { (default : V2Txn) with siafundInputs := [sfIn0 claim], siafundOutputs := [⟨1, z32⟩] }

/-- **c12_v2_claim_address_unbound**: as long as the siafund-input loop of the semantic encoder does
not write the claim address (`bindsClaim = false`, the code at the pinned commit), two transactions
that pay the siafund claim to different addresses have the same id and the same input sighash. -/
theorem c12_v2_claim_address_unbound :
    WFG false (txC z32) ∧ WFG false (txC (List.replicate 32 1)) ∧ (txC z32).kinds = (txC (List.replicate 32 1)).kinds ∧
    strip (txC z32) ≠ strip (txC (List.replicate 32 1)) ∧
    semEncodeG false (txC z32) = semEncodeG false (txC (List.replicate 32 1)) ∧
    (codeBindsClaimAddress = false → ∀ H : List UInt8 → List UInt8,
      txid H (txC z32) = txid H (txC (List.replicate 32 1)) ∧ H (inputSigPre (txC z32)) = H (inputSigPre (txC (List.replicate 32 1)))) := by
  refine ⟨by decide +kernel, by decide +kernel, by decide, by decide +kernel, by decide +kernel, ?_⟩
  intro hb H
  have : semEncodeG false (txC z32) = semEncodeG false (txC (List.replicate 32 1)) := by decide +kernel
  simp only [txid, txidPre, txidPreG, inputSigPre, inputSigPreG, hb, this, and_self]

/-- with the claim address written (`bindsClaim = true`) that pair is told apart -/
example : semEncodeG true (txC z32) ≠ semEncodeG true (txC (List.replicate 32 1)) := by decide +kernel

/-- the hypotheses of `c12_v2_id_iff_partial` are satisfiable by a non-trivial pair: two renewals that
differ in a renewal signature only have equal ids -/
example : WFG codeBindsClaimAddress txB ∧ HashInj id := ⟨by decide +kernel, fun _ _ h => h⟩

/-! ### corollaries: what the id ignores -/

/-- v2 input witnesses (the satisfied policies) -/
theorem c12_v2_id_ignores_witnesses (H : List UInt8 → List UInt8) (t : V2Txn)
    (w : V2SiacoinInput → SatisfiedPolicy) (w' : V2SiafundInput → SatisfiedPolicy) :
    txid H { t with siacoinInputs := t.siacoinInputs.map (fun i => { i with satisfied := w i }),
                    siafundInputs := t.siafundInputs.map (fun i => { i with satisfied := w' i }) } = txid H t :=
  (c12_v2_id_of_strip H _ _ (by simp [strip, List.map_map, Function.comp_def])).1

/-- contract signatures (formations, revisions) -/
theorem c12_v2_id_ignores_contract_sigs (H : List UInt8 → List UInt8) (t : V2Txn) (rs hs : V2FileContract → List UInt8) :
    txid H { t with fileContracts := t.fileContracts.map (fun fc => { fc with renterSignature := rs fc, hostSignature := hs fc }),
                    revisions := t.revisions.map (fun r => { r with revision := { r.revision with renterSignature := rs r.revision, hostSignature := hs r.revision } }) } = txid H t :=
  (c12_v2_id_of_strip H _ _ (by simp [strip, List.map_map, Function.comp_def, V2FileContract.nilSigs])).1

/-- replace the four signatures of a renewal -/
def resign (rs hs : V2Renewal → List UInt8) (nrs nhs : V2FileContract → List UInt8) : V2ResolutionBody → V2ResolutionBody
  | .renewal r =>
    .renewal { r with renterSignature := rs r, hostSignature := hs r,
                      newContract := { r.newContract with renterSignature := nrs r.newContract, hostSignature := nhs r.newContract } }
  | .storageProof p => .storageProof p
  | .expiration => .expiration

/-- renewal signatures (the renewal's own and its new contract's) -/
theorem c12_v2_id_ignores_renewal_sigs (H : List UInt8 → List UInt8) (t : V2Txn)
    (rs hs : V2Renewal → List UInt8) (nrs nhs : V2FileContract → List UInt8) :
    txid H { t with resolutions := t.resolutions.map (fun r => { r with body := resign rs hs nrs nhs r.body }) } = txid H t := by
  refine (c12_v2_id_of_strip H _ _ ?_).1
  have : ∀ b, stripBody (resign rs hs nrs nhs b) = stripBody b := by
    intro b; cases b <;> simp [resign, stripBody, V2Renewal.nilSigs, V2FileContract.nilSigs]
  simp [strip, List.map_map, Function.comp_def, this]

/-- parent element contents other than their ids (siacoin / siafund parents, revised and resolved contracts) -/
theorem c12_v2_id_ignores_parent_contents (H : List UInt8 → List UInt8) (t : V2Txn)
    (p1 : SiacoinElement → SiacoinElement) (p2 : SiafundElement → SiafundElement) (p3 : V2FileContractElement → V2FileContractElement)
    (h1 : ∀ e, (p1 e).id = e.id) (h2 : ∀ e, (p2 e).id = e.id) (h3 : ∀ e, (p3 e).id = e.id) :
    txid H { t with siacoinInputs := t.siacoinInputs.map (fun i => { i with parent := p1 i.parent }),
                    siafundInputs := t.siafundInputs.map (fun i => { i with parent := p2 i.parent }),
                    revisions := t.revisions.map (fun r => { r with parent := p3 r.parent }),
                    resolutions := t.resolutions.map (fun r => { r with parent := p3 r.parent }) } = txid H t :=
  (c12_v2_id_of_strip H _ _ (by simp [strip, List.map_map, Function.comp_def, idOnlySc, idOnlySf, idOnlyFc, h1, h2, h3])).1

def reproof (f : V2StorageProof → List (List UInt8)) : V2ResolutionBody → V2ResolutionBody
  | .storageProof p => .storageProof { p with proofIndex := { p.proofIndex with se := { p.proofIndex.se with merkleProof := f p } } }
  | .renewal r => .renewal r
  | .expiration => .expiration

/-- Merkle proofs of state elements (the chain-index element of a storage proof; the parents'
proofs are covered by `c12_v2_id_ignores_parent_contents`) -/
theorem c12_v2_id_ignores_proofs (H : List UInt8 → List UInt8) (t : V2Txn) (f : V2StorageProof → List (List UInt8)) :
    txid H { t with resolutions := t.resolutions.map (fun r => { r with body := reproof f r.body }) } = txid H t := by
  refine (c12_v2_id_of_strip H _ _ ?_).1
  have : ∀ b, stripBody (reproof f b) = stripBody b := by
    intro b; cases b <;> simp [reproof, stripBody, V2StorageProof.dropIndexProof]
  simp [strip, List.map_map, Function.comp_def, this]

/-! ### corollaries: what the id sees -/

/-- any observation of the effect-bearing content that differs makes the ids differ -/
theorem c12_v2_id_sees_field {α} (f : V2Txn → α) (H : List UInt8 → List UInt8) (hH : HashInj H) (t t' : V2Txn)
    (hw : WFG codeBindsClaimAddress t) (hw' : WFG codeBindsClaimAddress t') (hk : t.kinds = t'.kinds)
    (hf : f (stripCode codeBindsClaimAddress t) ≠ f (stripCode codeBindsClaimAddress t')) : txid H t ≠ txid H t' := by
  intro h
  exact hf (by rw [(c12_v2_id_binds_code H hH t t' hw hw' hk).1 h])

/-- instances: siacoin outputs, siafund outputs, miner fee, arbitrary data, attestations (signature
included), the new Foundation address, the ids of all parents, contracts / revisions / renewals
without their signatures, the storage proof without the chain-index proof -/
theorem c12_v2_id_sees_fields (H : List UInt8 → List UInt8) (hH : HashInj H) (t t' : V2Txn)
    (hw : WFG codeBindsClaimAddress t) (hw' : WFG codeBindsClaimAddress t') (hk : t.kinds = t'.kinds)
    (h : t.siacoinOutputs ≠ t'.siacoinOutputs ∨ t.siafundOutputs ≠ t'.siafundOutputs ∨ t.minerFee ≠ t'.minerFee ∨
      t.arbitraryData ≠ t'.arbitraryData ∨ t.attestations ≠ t'.attestations ∨ t.newFoundationAddress ≠ t'.newFoundationAddress ∨
      t.siacoinInputs.map (·.parent.id) ≠ t'.siacoinInputs.map (·.parent.id) ∨
      t.siafundInputs.map (·.parent.id) ≠ t'.siafundInputs.map (·.parent.id) ∨
      t.fileContracts.map (·.nilSigs) ≠ t'.fileContracts.map (·.nilSigs) ∨
      t.revisions.map (fun r => (r.parent.id, r.revision.nilSigs)) ≠ t'.revisions.map (fun r => (r.parent.id, r.revision.nilSigs)) ∨
      t.resolutions.map (fun r => (r.parent.id, stripBody r.body)) ≠ t'.resolutions.map (fun r => (r.parent.id, stripBody r.body))) :
    txid H t ≠ txid H t' := by
  have key : ∀ {α} (f : V2Txn → α) (a b : α), f (stripCode codeBindsClaimAddress t) = a → f (stripCode codeBindsClaimAddress t') = b →
      a ≠ b → txid H t ≠ txid H t' :=
    fun f a b ha hb hab => c12_v2_id_sees_field f H hH t t' hw hw' hk (by rw [ha, hb]; exact hab)
  have hsc : ∀ b (x : V2Txn), (stripCode b x).siacoinOutputs = x.siacoinOutputs ∧ (stripCode b x).siafundOutputs = x.siafundOutputs ∧
      (stripCode b x).minerFee = x.minerFee ∧ (stripCode b x).arbitraryData = x.arbitraryData ∧ (stripCode b x).attestations = x.attestations ∧
      (stripCode b x).newFoundationAddress = x.newFoundationAddress ∧
      (stripCode b x).siacoinInputs.map (·.parent.id) = x.siacoinInputs.map (·.parent.id) ∧
      (stripCode b x).siafundInputs.map (·.parent.id) = x.siafundInputs.map (·.parent.id) ∧
      (stripCode b x).fileContracts = x.fileContracts.map (·.nilSigs) ∧
      (stripCode b x).revisions.map (fun r => (r.parent.id, r.revision)) = x.revisions.map (fun r => (r.parent.id, r.revision.nilSigs)) ∧
      (stripCode b x).resolutions.map (fun r => (r.parent.id, r.body)) = x.resolutions.map (fun r => (r.parent.id, stripBody r.body)) := by
    intro b x
    cases b <;> simp [stripCode, strip, List.map_map, Function.comp_def]
  obtain ⟨a1, a2, a3, a4, a5, a6, a7, a8, a9, a10, a11⟩ := hsc codeBindsClaimAddress t
  obtain ⟨b1, b2, b3, b4, b5, b6, b7, b8, b9, b10, b11⟩ := hsc codeBindsClaimAddress t'
  rcases h with h | h | h | h | h | h | h | h | h | h | h
  · exact key (·.siacoinOutputs) _ _ a1 b1 h
  · exact key (·.siafundOutputs) _ _ a2 b2 h
  · exact key (·.minerFee) _ _ a3 b3 h
  · exact key (·.arbitraryData) _ _ a4 b4 h
  · exact key (·.attestations) _ _ a5 b5 h
  · exact key (·.newFoundationAddress) _ _ a6 b6 h
  · exact key (fun x => x.siacoinInputs.map (·.parent.id)) _ _ a7 b7 h
  · exact key (fun x => x.siafundInputs.map (·.parent.id)) _ _ a8 b8 h
  · exact key (·.fileContracts) _ _ a9 b9 h
  · exact key (fun x => x.revisions.map (fun r => (r.parent.id, r.revision))) _ _ a10 b10 h
  · exact key (fun x => x.resolutions.map (fun r => (r.parent.id, r.body))) _ _ a11 b11 h

/-! ## derived ids: distinct (kind, parent, index) ⇒ distinct preimages ⇒ distinct ids -/

/-- one derivation of the form `hashAll("<distinguisher>", <32-byte id>[, <index>])` -/
structure Derivation where
  kind : V2Kind
  parent : List UInt8
  index : Nat
deriving DecidableEq

/-- parent ids have 32 bytes, indices fit 64 bits, kinds without an index carry 0 -/
def Derivation.WF (d : Derivation) : Prop :=
  d.parent.length = 32 ∧ d.index < W64 ∧ (d.kind.indexed = false → d.index = 0)

instance (d : Derivation) : Decidable d.WF := by unfold Derivation.WF; infer_instance

def Derivation.pre (d : Derivation) : List UInt8 := derivedPre d.kind d.parent d.index

theorem kind_dists_prefix_free (k k' : V2Kind) (h : k ≠ k') : ¬ dist k.distinguisher <+: dist k'.distinguisher := by
  cases k <;> cases k' <;> first | exact absurd rfl h | decide

theorem u64le_inj {i j : Nat} (hi : i < W64) (hj : j < W64) (h : u64le i = u64le j) : i = j := by
  have := congrArg leVal h
  rwa [leVal_u64le hi, leVal_u64le hj] at this

/-- the preimage determines kind, parent id and index -/
theorem c12_derived_preimages_distinct (d d' : Derivation) (hd : d.WF) (hd' : d'.WF) (h : d.pre = d'.pre) : d = d' := by
  obtain ⟨k, p, i⟩ := d
  obtain ⟨k', p', i'⟩ := d'
  simp only [Derivation.pre, derivedPre, List.append_assoc] at h
  simp only [Derivation.WF] at hd hd'
  by_cases hk : k = k'
  · subst hk
    have h2 := List.append_cancel_left h
    obtain ⟨hp, hi⟩ := List.append_inj h2 (by rw [hd.1, hd'.1])
    subst hp
    cases hx : k.indexed
    · rw [hd.2.2 hx, hd'.2.2 hx]
    · rw [hx] at hi
      simp only [if_true] at hi
      rw [u64le_inj hd.2.1 hd'.2.1 hi]
  · exact absurd h (append_ne_of_not_prefix (kind_dists_prefix_free k k' hk) (kind_dists_prefix_free k' k (Ne.symm hk)))

/-- **c12_derived_ids_distinct**: two derivations of distinct (kind, parent id, index) — v2 siacoin /
siafund output, contract, attestation, contract renter/host output, claim output, renewal id — never
coincide (under `HashInj`).  In particular the i-th and j-th output of one transaction, an output and a
contract of the same index, the renter and the host payout of a contract, and ids derived from
different transactions are all different. -/
theorem c12_derived_ids_distinct (H : List UInt8 → List UInt8) (hH : HashInj H) (d d' : Derivation)
    (hd : d.WF) (hd' : d'.WF) (hne : d ≠ d') : H d.pre ≠ H d'.pre :=
  fun h => hne (c12_derived_preimages_distinct d d' hd hd' (hH _ _ h))

example : (⟨.contractOutput, z32, 0⟩ : Derivation).WF ∧ (⟨.contractOutput, z32, 1⟩ : Derivation).WF ∧
    (⟨.contractOutput, z32, 0⟩ : Derivation) ≠ ⟨.contractOutput, z32, 1⟩ := by decide

/-- the distinguisher of every derived id, of the transaction id and of the four sighashes is in the
generated table, hence (`c12_distinguished_preimages_differ`) an id of one kind is never a sighash, a
transaction id never a derived id, … -/
theorem c12_id_and_sighash_domains_disjoint :
    (∀ k : V2Kind, k.distinguisher ∈ Spec.distinguishers) ∧
    (∀ d ∈ ["id/transaction", "sig/input", "sig/filecontract", "sig/filecontractrenewal", "sig/attestation", "commitment"],
      d ∈ Spec.distinguishers) ∧
    (∀ k : V2Kind, k.distinguisher ≠ "id/transaction" ∧ k.distinguisher ≠ "sig/input") := by
  refine ⟨fun k => by cases k <;> decide, by decide, fun k => by cases k <;> decide⟩

/-- a transaction id is never a derived id, and never an input sighash -/
theorem c12_txid_not_derived (H : List UInt8 → List UInt8) (hH : HashInj H) (t t' : V2Txn) (d : Derivation) :
    txid H t ≠ H d.pre ∧ txid H t ≠ H (inputSigPre t') := by
  constructor
  · intro h
    have := hH _ _ h
    simp only [txidPre, txidPreG, Derivation.pre, derivedPre, List.append_assoc] at this
    exact c12_distinguished_preimages_differ (a := "id/transaction") (b := d.kind.distinguisher) (by decide)
      (c12_id_and_sighash_domains_disjoint.1 d.kind) (Ne.symm (c12_id_and_sighash_domains_disjoint.2.2 d.kind).1) _ _ this
  · intro h
    have := hH _ _ h
    simp only [txidPre, txidPreG, inputSigPre, inputSigPreG, List.append_assoc] at this
    exact c12_distinguished_preimages_differ (a := "id/transaction") (b := "sig/input") (by decide) (by decide) (by decide) _ _ this

/-! ## v1 transaction ids and the specifier-based derivations -/

theorem v1BodySch_wf : v1BodySch.wf Env.default = true := by decide +kernel

/-- **c12_v1_id_iff**: the v1 transaction id is the hash of everything but the signatures -/
theorem c12_v1_id_iff (H : List UInt8 → List UInt8) (hH : HashInj H) (t t' : V1Txn) (hw : t.WF) (hw' : t'.WF) :
    v1Txid H t = v1Txid H t' ↔ t.strip = t'.strip := by
  constructor
  · intro h
    have hb : t.body = t'.body := C11.c11_injective Env.default_ok v1BodySch v1BodySch_wf _ _ hw hw' (hH _ _ h)
    cases t; cases t'
    simp only [V1Txn.strip, V1Txn.mk.injEq, and_true]
    exact hb
  · intro h
    have hb : t.body = t'.body := by
      cases t; cases t'
      simp only [V1Txn.strip, V1Txn.mk.injEq, and_true] at h
      exact h
    simp only [v1Txid, v1TxidPre, v1BodyEnc, hb]

/-- the id ignores the signatures -/
theorem c12_v1_id_ignores_signatures (H : List UInt8 → List UInt8) (t : V1Txn) (sigs : Val) :
    v1Txid H { t with signatures := sigs } = v1Txid H t := rfl

theorem specifier_length (s : String) : (specifier s).length = 16 := by
  simp only [specifier, copyInto, List.length_append, List.length_take, zeros, List.length_replicate]
  omega

theorem v1_spec_inj (k k' : V1Kind) (h : specifier k.spec = specifier k'.spec) : k = k' := by
  cases k <;> cases k' <;> first | rfl | (exact absurd h (by decide))

/-- **specifier-based v1 derivations** (`SiacoinOutputID`, `SiafundOutputID`, `FileContractID`): the
preimage determines the kind, the transaction's effect-bearing content and the index -/
theorem c12_v1_derived_preimages_distinct (k k' : V1Kind) (t t' : V1Txn) (i i' : Nat) (hw : t.WF) (hw' : t'.WF)
    (hi : i < W64) (hi' : i' < W64) (h : v1DerivedPre k t i = v1DerivedPre k' t' i') :
    k = k' ∧ t.body = t'.body ∧ i = i' := by
  simp only [v1DerivedPre, List.append_assoc] at h
  obtain ⟨hs, h2⟩ := List.append_inj h (by rw [specifier_length, specifier_length])
  obtain ⟨hb, hi2⟩ := List.append_inj' h2 (by rw [u64le_length, u64le_length])
  exact ⟨v1_spec_inj k k' hs, C11.c11_injective Env.default_ok v1BodySch v1BodySch_wf _ _ hw hw' hb, u64le_inj hi hi' hi2⟩

theorem c12_v1_derived_ids_distinct (H : List UInt8 → List UInt8) (hH : HashInj H) (k k' : V1Kind) (t t' : V1Txn) (i i' : Nat)
    (hw : t.WF) (hw' : t'.WF) (hi : i < W64) (hi' : i' < W64) (hne : k ≠ k' ∨ t.body ≠ t'.body ∨ i ≠ i') :
    v1Derived H k t i ≠ v1Derived H k' t' i' := by
  intro h
  obtain ⟨a, b, c⟩ := c12_v1_derived_preimages_distinct k k' t t' i i' hw hw' hi hi' (hH _ _ h)
  rcases hne with hne | hne | hne
  · exact hne a
  · exact hne b
  · exact hne c

/-- v1 transaction ids carry NO distinguisher: a derived id is `H (specifier ‖ body ‖ i)`, a transaction id
`H (body'')`.  The two preimages can only coincide if the encoded `body''` starts with the 16 specifier
bytes, i.e. if its first field — the number of siacoin inputs, 8 little-endian bytes — reads as the first 8
specifier bytes ("siacoin ", "siafund ", "file con": ≥ 2^61 inputs; in particular the 8th byte of each
specifier is not zero).  Lemma: with fewer than 2^56 siacoin inputs the preimages differ. -/
theorem v1_derived_vs_txid_of_bound (k : V1Kind) (t : V1Txn) (i : Nat) (ins : List Val) (rest : Val)
    (hn : ins.length < 2 ^ 56) :
    v1DerivedPre k t i ≠ enc Env.default v1BodySch (.pair (.list ins) rest) := by
  intro h
  have h7 := congrArg (fun l => l[7]?) h
  have hs : (v1DerivedPre k t i)[7]? = (specifier k.spec)[7]? := by
    simp only [v1DerivedPre, List.append_assoc]
    rw [List.getElem?_append_left (by rw [specifier_length]; decide)]
  have he : (enc Env.default v1BodySch (.pair (.list ins) rest))[7]? = some 0 := by
    simp only [v1BodySch, Sch.seq, enc, List.append_assoc]
    rw [List.getElem?_append_left (by rw [u64le_length]; decide)]
    simp only [u64le, leBytes]
    simp only [List.getElem?_cons_succ, List.getElem?_cons_zero, Option.some.injEq]
    have : ins.length / 256 / 256 / 256 / 256 / 256 / 256 / 256 % 256 = 0 := by omega
    rw [this]; rfl
  have h7' : (v1DerivedPre k t i)[7]? = (enc Env.default v1BodySch (.pair (.list ins) rest))[7]? := h7
  rw [hs, he] at h7'
  cases k <;> exact absurd h7' (by decide)

/-- a canonical v1 body is its list of siacoin inputs followed by the other fields, and its encoding is at
least as long as that list (every encoded input occupies at least one byte — in fact 56) -/
theorem v1_body_inputs_le_length (body : Val) (hc : Canon Env.default v1BodySch body) :
    ∃ ins rest, body = .pair (.list ins) rest ∧ ins.length ≤ (enc Env.default v1BodySch body).length := by
  cases body with
  | pair a rest =>
    cases a with
    | list ins =>
      refine ⟨ins, rest, rfl, ?_⟩
      simp only [Canon, v1BodySch, Sch.seq, canon, Bool.and_eq_true, decide_eq_true_eq, List.all_eq_true] at hc
      have hge : ins.length ≤ (encList (enc Env.default Spec.siacoinInput) ins).length :=
        encList_length_ge (fun w hw => Nat.le_trans (by decide +kernel : 1 ≤ Spec.siacoinInput.minLen Env.default)
          (C11.minLen_le Env.default_ok Spec.siacoinInput w (hc.1.2 w hw)))
      simp only [v1BodySch, Sch.seq, enc, List.length_append]
      omega
    | _ => simp [Canon, v1BodySch, Sch.seq, canon] at hc
  | _ => simp [Canon, v1BodySch, Sch.seq, canon] at hc

/-- **c12_v1_derived_vs_txid**: a specifier-based derived id preimage differs from the id preimage of every
well-formed v1 transaction whose encoding fits the block weight limit (`MaxBlockWeight` = 2,000,000 bytes,
the weight of a v1 transaction being its encoded length; tied constants): such a transaction has fewer than
2^56 siacoin inputs. Under `HashInj` a v1 derived id is therefore never the id of a transaction that can be
in a block. -/
theorem c12_v1_derived_vs_txid (k : V1Kind) (t t'' : V1Txn) (i : Nat) (hw : t''.WF)
    (hlen : (v1BodyEnc t'').length ≤ Gen.FactsIds.maxBlockWeight) : v1DerivedPre k t i ≠ v1TxidPre t'' := by
  obtain ⟨ins, rest, hb, hle⟩ := v1_body_inputs_le_length t''.body hw
  have hn : ins.length < 2 ^ 56 := by
    have h2 : (enc Env.default v1BodySch t''.body).length ≤ 2000000 := hlen
    omega
  have := v1_derived_vs_txid_of_bound k t i ins rest hn
  simpa only [v1TxidPre, v1BodyEnc, hb] using this

theorem c12_v1_derived_id_vs_txid (H : List UInt8 → List UInt8) (hH : HashInj H) (k : V1Kind) (t t'' : V1Txn) (i : Nat)
    (hw : t''.WF) (hlen : (v1BodyEnc t'').length ≤ Gen.FactsIds.maxBlockWeight) : v1Derived H k t i ≠ v1Txid H t'' :=
  fun h => c12_v1_derived_vs_txid k t t'' i hw hlen (hH _ _ h)

/-! ## sighashes bind their purpose and their era -/

/-- a v2 sighash preimage: purpose distinguisher, replay prefix byte, covered content -/
def sigPre (purpose : String) (prefixByte : UInt8) (content : List UInt8) : List UInt8 := dist purpose ++ [prefixByte] ++ content

def sigPurposes : List String := ["sig/input", "sig/filecontract", "sig/filecontractrenewal", "sig/attestation"]

/-- the model's four sighash preimages are `sigPre` with the v2 replay prefix -/
theorem sigPre_eqs (t : V2Txn) (fc : V2FileContract) (r : V2Renewal) (a : Attestation) :
    inputSigPre t = sigPre "sig/input" 2 (semEncode t) ∧
    contractSigPre fc = sigPre "sig/filecontract" 2 (enc Env.default Spec.v2FileContract (fcVal fc.nilSigs)) ∧
    renewalSigPre r = sigPre "sig/filecontractrenewal" 2 (enc Env.default Spec.v2FileContractRenewal (renewalVal r.nilSigs)) ∧
    attestationSigPre a = sigPre "sig/attestation" 2 (enc Env.default Spec.attestation (attVal a.nilSig)) := ⟨rfl, rfl, rfl, rfl⟩

/-- **c12_sighash_binds_era_and_purpose** (v2): equal sighash preimages have the same purpose, the same
replay prefix and the same covered content — so (under `HashInj`) a signature made for one purpose or
era is over a different hash than any signature for another purpose or era. -/
theorem c12_sighash_binds_era_and_purpose (p p' : String) (hp : p ∈ sigPurposes) (hp' : p' ∈ sigPurposes)
    (e e' : UInt8) (x x' : List UInt8) (h : sigPre p e x = sigPre p' e' x') : p = p' ∧ e = e' ∧ x = x' := by
  have hsub : ∀ q ∈ sigPurposes, q ∈ Spec.distinguishers := by decide
  by_cases hpp : p = p'
  · subst hpp
    simp only [sigPre, List.append_assoc] at h
    have := List.append_cancel_left h
    simp only [List.singleton_append, List.cons.injEq] at this
    exact ⟨rfl, this.1, this.2⟩
  · simp only [sigPre, List.append_assoc] at h
    exact absurd h (c12_distinguished_preimages_differ (hsub p hp) (hsub p' hp') hpp _ _)

/-- hash level: different purpose or era ⇒ different sighash -/
theorem c12_sighash_purposes_distinct (H : List UInt8 → List UInt8) (hH : HashInj H) (p p' : String)
    (hp : p ∈ sigPurposes) (hp' : p' ∈ sigPurposes) (e e' : UInt8) (x x' : List UInt8) (hne : p ≠ p' ∨ e ≠ e') :
    H (sigPre p e x) ≠ H (sigPre p' e' x') := by
  intro h
  obtain ⟨a, b, _⟩ := c12_sighash_binds_era_and_purpose p p' hp hp' e e' x x' (hH _ _ h)
  rcases hne with hne | hne
  · exact hne a
  · exact hne b

/-- the v1 replay prefixes of the four eras are pairwise different byte strings -/
theorem c12_v1_era_prefixes_distinct : (replayPrefixes.map (·.2)).Nodup := by decide

/-- `State.replayPrefix` as a function of the parent height: the era table of the generated fact -/
theorem c12_v1_replay_prefix_eras (v2Allow foundation asic h : Nat) :
    replayPrefix v2Allow foundation asic h =
      if h ≥ v2Allow then [2] else if h ≥ foundation then [1] else if h ≥ asic then [0] else [] := rfl

/-- a whole-transaction sighash preimage of a transaction with at least one siacoin input starts with
the input count and then the replay prefix of the era -/
theorem wholeSigPre_head (p : List UInt8) (t : V1Txn) (v : Val) (vs : List Val) (rest : Val)
    (hb : t.body = .pair (.list (v :: vs)) rest) (pid : List UInt8) (pki tl : Nat) (cs : List Nat) (x : List UInt8)
    (h : wholeSigPre p t pid pki tl cs = some x) : ∃ y, x = u64le (vs.length + 1) ++ (p ++ y) := by
  unfold wholeSigPre at h
  simp only [] at h
  split at h
  · cases h
  · rename_i sel _
    injection h with h
    subst h
    have hr : List.range 9 = [0, 1, 2, 3, 4, 5, 6, 7, 8] := by decide
    rw [hr, hb]
    simp only [List.map_cons, List.flatten_cons, bodyFields, listOf, List.getD_cons_zero, encList, encElem, prefixed,
      beq_self_eq_true, Bool.true_or, if_true, List.length_cons, List.append_assoc]
    exact ⟨_, rfl⟩

/-- **v1 sighashes bind their era**: whole-transaction sighash preimages made with the one-byte replay
prefixes of two different eras (ASIC `[0]`, Foundation `[1]`, v2 `[2]`) differ for every transaction with
a siacoin input — a signature cannot be replayed across those hardforks.  (The pre-ASIC era has the
empty prefix: there the preimages differ in length, not proved here.) -/
theorem c12_v1_sighash_binds_era (a b : UInt8) (hab : a ≠ b) (t t' : V1Txn) (v v' : Val) (vs vs' : List Val) (rest rest' : Val)
    (hb : t.body = .pair (.list (v :: vs)) rest) (hb' : t'.body = .pair (.list (v' :: vs')) rest')
    (pid pid' : List UInt8) (pki pki' tl tl' : Nat) (cs cs' : List Nat) (x x' : List UInt8)
    (h : wholeSigPre [a] t pid pki tl cs = some x) (h' : wholeSigPre [b] t' pid' pki' tl' cs' = some x') : x ≠ x' := by
  obtain ⟨y, rfl⟩ := wholeSigPre_head [a] t v vs rest hb pid pki tl cs x h
  obtain ⟨y', rfl⟩ := wholeSigPre_head [b] t' v' vs' rest' hb' pid' pki' tl' cs' x' h'
  intro he
  obtain ⟨_, h2⟩ := List.append_inj he (by rw [u64le_length, u64le_length])
  simp only [List.singleton_append, List.cons.injEq] at h2
  exact hab h2.1

/-! ## block ids

`Block.ID = HashBytes(ParentID ‖ Nonce ‖ Timestamp ‖ Commitment)`; the commitment is the root of a
`blake2b.Accumulator` (= `Sia.Policy.merkleRootG`, tied by `tie_accumulator` and compared byte for byte with
Go by the `merkle-v1` / `commitment` ops) whose leaves are BLAKE2b(0x00 ‖ data) and whose nodes are
BLAKE2b(0x01 ‖ left ‖ right):
* v1 (`blockMerkleRoot`): one leaf per miner payout, then one per transaction;
* v2 (`State.Commitment`): the leaf `"sia/commitment|" ‖ 2 ‖ H(parent state) ‖ miner address`, then one leaf per
  v1 and per v2 transaction (FULL encodings: signatures, witnesses and proofs included).

The hash algebra (`lf`, `nd`) is abstract with the HYPOTHESIS `Sia.Policy.HashInj lf nd`: leaf and node
hashes are injective and a leaf hash is never a node hash — the symbolic form of "BLAKE2b is collision
free on the tagged preimages" (`tagged_hashInj` derives it from injectivity of one hash function on the
preimages `0x00 ‖ data` / `0x01 ‖ l ‖ r`, the node preimages having the fixed length 65).  Satisfiable by the
free term algebra (`Sia.Policy.MTree.hashInj_free`).  Because leaves and nodes are disjoint the root
determines the NUMBER of leaves too: no length hypothesis. -/

/-- the header: equal ids ⇒ equal parent id, nonce, timestamp and commitment -/
theorem c12_block_id_binds_header (H : List UInt8 → List UInt8) (hH : HashInj H) (p p' c c' : List UInt8) (n n' ts ts' : Nat)
    (hp : p.length = 32) (hp' : p'.length = 32) (hn : n < W64) (hn' : n' < W64) (hts : ts < W64) (hts' : ts' < W64)
    (h : H (blockIdPre p n ts c) = H (blockIdPre p' n' ts' c')) : p = p' ∧ n = n' ∧ ts = ts' ∧ c = c' := by
  have h0 := hH _ _ h
  simp only [blockIdPre, List.append_assoc] at h0
  obtain ⟨e1, h1⟩ := List.append_inj h0 (by rw [hp, hp'])
  obtain ⟨e2, h2⟩ := List.append_inj h1 (by rw [u64le_length, u64le_length])
  obtain ⟨e3, e4⟩ := List.append_inj h2 (by rw [u64le_length, u64le_length])
  exact ⟨e1, u64le_inj hn hn' e2, u64le_inj hts hts' e3, e4⟩

theorem toBA_inj {a b : List UInt8} (h : toBA a = toBA b) : a = b := by
  have := congrArg (fun x => x.data.toList) h
  simpa [toBA] using this

/-- the tagged hash algebra over ONE hash function with 32-byte digests: injectivity of that function (on the
leaf preimages `0x00 ‖ data` and the 65-byte node preimages `0x01 ‖ l ‖ r`) gives `HashInj` -/
theorem tagged_hashInj (H : ByteArray → { d : ByteArray // d.size = 32 }) (hH : ∀ a b, H a = H b → a = b) :
    Sia.Policy.HashInj (fun d => H (Sia.Policy.byte 0 ++ d)) (fun l r => H (Sia.Policy.byte 1 ++ l.val ++ r.val)) := by
  refine ⟨?_, ?_, ?_⟩
  · intro a b h
    exact (Sia.Policy.ba_append_inj (hH _ _ h) rfl).2
  · intro a b c d h
    have h1 := hH _ _ h
    rw [ByteArray.append_assoc, ByteArray.append_assoc] at h1
    have h2 := (Sia.Policy.ba_append_inj h1 rfl).2
    obtain ⟨e1, e2⟩ := Sia.Policy.ba_append_inj h2 (by rw [a.2, c.2])
    exact ⟨Subtype.ext e1, Subtype.ext e2⟩
  · intro a b c h
    have h1 := hH _ _ h
    rw [ByteArray.append_assoc] at h1
    have h2 := (Sia.Policy.ba_append_inj h1 rfl).1
    have := congrArg (fun x => x.data.toList) h2
    simp [Sia.Policy.byte] at this

section commitment
variable {D : Type} (lf : ByteArray → D) (nd : D → D → D) (zero : D)

theorem root_leaves_inj (hI : Sia.Policy.HashInj lf nd) (l l' : List (List UInt8)) (hl : l ≠ []) (hl' : l' ≠ [])
    (h : Sia.Policy.merkleRootG nd zero (l.map (fun d => lf (toBA d))) = Sia.Policy.merkleRootG nd zero (l'.map (fun d => lf (toBA d)))) :
    l = l' := by
  have e : ∀ x : List (List UInt8), x.map (fun d => lf (toBA d)) = (x.map toBA).map lf := by intro x; simp
  rw [e, e] at h
  have := Sia.Policy.merkleRootG_inj hI zero (l.map toBA) (l'.map toBA) (by simpa using hl) (by simpa using hl') h
  exact map_inj_of_inj (fun a b => toBA_inj) this

/-- **c12_block_commitment_binds** (v2): equal commitments ⇒ equal parent-state hash, equal miner address and the
same sequence of transaction encodings (v1 transactions followed by v2 transactions: same number, same order,
each with its signatures, witnesses and Merkle proofs); if the blocks have the same number of v1
transactions, the v1 list and the v2 list are equal separately.  (Both kinds of transaction are hashed into
the tree the same way, `0x00 ‖ encoding`; a v1 transaction could only pass for a v2 one if their encodings
were the same byte string, which needs a v1 transaction with ≥ 258 siacoin inputs whose bytes parse as a v2
transaction — not excluded here.)  The encodings determine the transactions by C11 (`c11_injective`,
`c11_v2txn_injective`). -/
theorem c12_block_commitment_binds (hI : Sia.Policy.HashInj lf nd) (sh sh' ma ma' : List UInt8) (v1 v1' v2 v2' : List (List UInt8))
    (hsh : sh.length = 32) (hsh' : sh'.length = 32)
    (h : commitmentG lf nd zero sh ma v1 v2 = commitmentG lf nd zero sh' ma' v1' v2') :
    sh = sh' ∧ ma = ma' ∧ v1 ++ v2 = v1' ++ v2' ∧ (v1.length = v1'.length → v1 = v1' ∧ v2 = v2') := by
  have hl := root_leaves_inj lf nd zero hI _ _ (List.cons_ne_nil _ _) (List.cons_ne_nil _ _) h
  simp only [List.cons.injEq] at hl
  obtain ⟨h0, hr⟩ := hl
  simp only [commitmentLeafData, List.append_assoc] at h0
  have h2 := List.append_cancel_left (List.append_cancel_left h0)
  obtain ⟨e1, e2⟩ := List.append_inj h2 (by rw [hsh, hsh'])
  exact ⟨e1, e2, hr, fun hlen => List.append_inj hr hlen⟩

/-- two lists split at the point where a property of the elements flips -/
theorem append_split_of_pred {α} (P : α → Prop) : ∀ (a a' b b' : List α), (∀ x ∈ a, P x) → (∀ x ∈ a', P x) →
    (∀ x ∈ b, ¬ P x) → (∀ x ∈ b', ¬ P x) → a ++ b = a' ++ b' → a = a' ∧ b = b'
  | [], [], _, _, _, _, _, _, h => ⟨rfl, h⟩
  | [], y :: a', b, b', _, ha', hb, _, h => by
    simp only [List.nil_append, List.cons_append] at h
    exact absurd (ha' y List.mem_cons_self) (hb y (by rw [h]; exact List.mem_cons_self))
  | x :: a, [], b, b', ha, _, _, hb', h => by
    simp only [List.nil_append, List.cons_append] at h
    exact absurd (ha x List.mem_cons_self) (hb' x (by rw [← h]; exact List.mem_cons_self))
  | x :: a, y :: a', b, b', ha, ha', hb, hb', h => by
    simp only [List.cons_append, List.cons.injEq] at h
    obtain ⟨e1, e2⟩ := append_split_of_pred P a a' b b' (fun z hz => ha z (List.mem_cons_of_mem _ hz))
      (fun z hz => ha' z (List.mem_cons_of_mem _ hz)) hb hb' h.2
    exact ⟨by rw [h.1, e1], e2⟩

/-- **c12_block_merkle_root_binds** (v1 header root): equal roots ⇒ the same miner payouts and the same
transactions (same number, same order, full encodings).  Payout leaves and transaction leaves cannot be
confused: an encoded payout has at most 56 bytes, an encoded transaction at least 80
(`payout_enc_length_le`, `txn_enc_length_ge`). -/
theorem c12_block_merkle_root_binds (hI : Sia.Policy.HashInj lf nd) (pay pay' txns txns' : List (List UInt8))
    (hne : pay ++ txns ≠ []) (hne' : pay' ++ txns' ≠ [])
    (hp : ∀ x ∈ pay, x.length ≤ 56) (hp' : ∀ x ∈ pay', x.length ≤ 56)
    (ht : ∀ x ∈ txns, 80 ≤ x.length) (ht' : ∀ x ∈ txns', 80 ≤ x.length)
    (h : blockMerkleRootG lf nd zero pay txns = blockMerkleRootG lf nd zero pay' txns') : pay = pay' ∧ txns = txns' := by
  have hl := root_leaves_inj lf nd zero hI _ _ hne hne' h
  exact append_split_of_pred (fun x : List UInt8 => x.length ≤ 56) pay pay' txns txns' hp hp'
    (fun x hx => by have := ht x hx; omega) (fun x hx => by have := ht' x hx; omega) hl

end commitment

/-- an encoded miner payout (`V1SiacoinOutput`: length-prefixed trimmed big-endian value, address) has at most 56 bytes -/
theorem payout_enc_length_le (v : Val) (hc : Canon Env.default Spec.v1SiacoinOutput v) :
    (enc Env.default Spec.v1SiacoinOutput v).length ≤ 56 := by
  cases v with
  | pair a r =>
    cases a with
    | nat n =>
      cases r with
      | pair b u =>
        cases b with
        | bytes ad =>
          simp only [Canon, Spec.v1SiacoinOutput, Spec.hash32, Sch.seq, canon, Atom.codec, isBytes, isNat, Bool.and_eq_true,
            decide_eq_true_eq, beq_iff_eq] at hc
          have ht := trimZeros_length_le (be16 n)
          rw [be16_length] at ht
          simp only [Spec.v1SiacoinOutput, Spec.hash32, Sch.seq, enc, Atom.codec, encCur1, List.length_append, u64le_length, hc.2.1]
          cases u <;> simp [enc] <;> omega
        | _ => simp [Canon, Spec.v1SiacoinOutput, Spec.hash32, Sch.seq, canon, Atom.codec, isBytes] at hc
      | _ => simp [Canon, Spec.v1SiacoinOutput, Sch.seq, canon] at hc
    | _ => simp [Canon, Spec.v1SiacoinOutput, Sch.seq, canon, Atom.codec, isNat] at hc
  | _ => simp [Canon, Spec.v1SiacoinOutput, Sch.seq, canon] at hc

/-- an encoded v1 transaction has at least 80 bytes (ten length prefixes) -/
theorem txn_enc_length_ge (v : Val) (hc : Canon Env.default Spec.transaction v) :
    80 ≤ (enc Env.default Spec.transaction v).length :=
  Nat.le_trans (by decide +kernel : 80 ≤ Spec.transaction.minLen Env.default) (C11.minLen_le Env.default_ok Spec.transaction v hc)

/-- the hypotheses are satisfiable (free term algebra) and the statement is not vacuous: two commitments
over different transaction lists are different terms -/
example : Sia.Policy.HashInj Sia.Policy.MTree.leaf Sia.Policy.MTree.node := Sia.Policy.MTree.hashInj_free
example : commitmentG Sia.Policy.MTree.leaf Sia.Policy.MTree.node (Sia.Policy.MTree.leaf ByteArray.empty) z32 z32 [[1]] [[2]] ≠
    commitmentG Sia.Policy.MTree.leaf Sia.Policy.MTree.node (Sia.Policy.MTree.leaf ByteArray.empty) z32 z32 [[2]] [[1]] := by
  intro h
  have := (c12_block_commitment_binds _ _ _ Sia.Policy.MTree.hashInj_free z32 z32 z32 z32 [[1]] [[2]] [[2]] [[1]] (by decide) (by decide) h).2.2.2 rfl
  exact absurd this.1 (by decide)

end C12
