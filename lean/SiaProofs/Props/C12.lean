import SiaModel.Ids.Derive
import SiaModel.Ids.Spec
import SiaModel.Gen.FactsIds
import SiaModel.Gen.FactsSchema
import SiaProofs.Lemmas.IdsSem
/-!
# C12 — IDs and sighashes bind exactly the effect-bearing content; block IDs bind all

Model: `SiaModel/Ids` (`semEncode` mirrors `V2TransactionSemantics.EncodeTo`; `strip` is the
specification of effect-bearing content written from the property text; every id / sighash is
`H (preimage)` for a hash `H` that is injective by HYPOTHESIS `HashInj H`, satisfiable by
`H = id`).  The encoder theory is C11's (`c11_injective`, `c11_prefix_free`).

Two findings are built into the statements (both confirmed on the Go code by the harness):
* the semantic encoding writes a resolution WITHOUT its type tag, so it is injective only among
  transactions with the same list of resolution kinds (`c12_v2_id_iff_partial`; the
  machine-checked counterexample is `c12_v2_id_collision_witness`);
* the claim address of a v2 siafund input is not written at all (`codeBindsClaimAddress =
  false`): ids and input sighashes bind `stripCode`, which forgets it
  (`c12_v2_claim_address_unbound`).
-/
namespace C12
open Sia.Codec Sia.Ids

/-! ## ties: the generated facts are what the model assumes -/

theorem tie_semantics_schema : Gen.FactsIds.semanticsSchema = codeSemantics codeBindsClaimAddress := by rfl

/-- every declared field of `V2Transaction` is written by the semantic encoder, in declaration order -/
theorem tie_semantics_covers :
    Gen.FactsIds.v2TransactionDeclaredFields = (codeSemantics codeBindsClaimAddress).map (·.1) := by rfl

/-- the generated flag "the siafund-input loop writes the claim address" is the model's flag -/
theorem tie_claim_address_flag : Gen.FactsIds.semanticsBindsClaimAddress = codeBindsClaimAddress := by rfl

theorem tie_semantics_nilsigs : Gen.FactsIds.semanticsNilSigs =
    "nilSigs := func(sigs ...*Signature) { for i := range sigs { *sigs[i] = Signature{} } }" := by rfl

/-- the `hashAll` calls in the code (functions, distinguishers, argument lists, how each argument is
written) are exactly the committed ones the model mirrors -/
theorem tie_hashall_derivations : Gen.FactsIds.hashAllCalls = Spec.hashAllCalls := by rfl

theorem tie_distinguishers : Gen.FactsIds.distinguishers = Spec.distinguishers := by rfl

theorem tie_write_distinguisher : Gen.FactsIds.writeDistinguisher = "h.E.Write([]byte(\"sia/\" + p + \"|\"))" := by rfl

theorem tie_hashall_switch :
    Gen.FactsIds.hashAllSwitch_types = [("string", "h.WriteDistinguisher(e)"), ("uint8", "h.E.WriteUint8(e)"),
      ("int", "h.E.WriteUint64(uint64(e))"), ("uint64", "h.E.WriteUint64(e)"), ("bool", "h.E.WriteBool(e)"), ("default", "panic")] ∧
    Gen.FactsIds.hashAllSwitch_consensus = [("string", "h.WriteDistinguisher(e)"), ("uint8", "h.E.WriteUint8(e)"),
      ("uint64", "h.E.WriteUint64(e)"), ("default", "panic")] := by constructor <;> rfl

theorem tie_specifiers : Gen.FactsIds.specifiers = Spec.specifiers := by rfl

theorem tie_replay_prefix :
    Gen.FactsIds.replayPrefixTable = Spec.replayPrefixTable ∧ Gen.FactsIds.v2ReplayPrefix = v2ReplayPrefix ∧
    Spec.replayPrefixTable.map (·.2) = replayPrefixes.map (·.2.map UInt8.toNat) := by
  refine ⟨by rfl, by rfl, by decide⟩

theorem tie_v1_sighash_bodies :
    Gen.FactsIds.wholeSigHashBody = Spec.wholeSigHashBody ∧ Gen.FactsIds.partialSigHashBody = Spec.partialSigHashBody := by
  constructor <;> rfl

theorem tie_v2_sighash_bodies :
    Gen.FactsIds.contractSigHashBody = Spec.contractSigHashBody ∧ Gen.FactsIds.renewalSigHashBody = Spec.renewalSigHashBody ∧
    Gen.FactsIds.attestationSigHashBody = Spec.attestationSigHashBody := by
  refine ⟨by rfl, by rfl, by rfl⟩

theorem tie_block_id_bodies :
    Gen.FactsIds.blockHeaderIDBody = Spec.blockHeaderIDBody ∧ Gen.FactsIds.blockHeaderBody = Spec.blockHeaderBody ∧
    Gen.FactsIds.blockMerkleRootBody = Spec.blockMerkleRootBody ∧ Gen.FactsIds.commitmentBody = Spec.commitmentBody ∧
    Gen.FactsIds.stateMerkleLeafHashBody = Spec.stateMerkleLeafHashBody ∧
    Gen.FactsIds.leafHashPrefix_types = 0 ∧ Gen.FactsIds.leafHashPrefix_consensus = 0 ∧
    Gen.FactsIds.commitmentDistinguisher = "commitment" := by
  refine ⟨by rfl, by rfl, by rfl, by rfl, by rfl, by rfl, by rfl, by rfl⟩

theorem tie_v1_txn_bodies :
    Gen.FactsIds.txnSansSigsBody = Spec.txnSansSigsBody ∧ Gen.FactsIds.transactionEncodeBody = Spec.transactionEncodeBody := by
  constructor <;> rfl

/-- the v1 body schema of the model is the schema the extractor reads off `txnSansSigs.EncodeTo`,
and a full transaction is that body followed by the signatures -/
theorem tie_v1_body_schema :
    Sia.Codec.Gen.encSchema_Types_txnSansSigs = v1BodySch ∧
    Sia.Codec.Gen.encSchema_Types_Transaction = v1BodySch.append (Sch.seq [("Signatures", v1SigsSch)]) := by
  constructor <;> rfl

/-- the layouts used inside the semantic encoding and the v2 sighashes are the generated ones -/
theorem tie_v2_layouts :
    Sia.Codec.Gen.encSchema_Types_V2FileContract = Spec.v2FileContract ∧
    Sia.Codec.Gen.encSchema_Types_V2FileContractRenewal = Spec.v2FileContractRenewal ∧
    Sia.Codec.Gen.encSchema_Types_V2StorageProof = Spec.v2StorageProof ∧
    Sia.Codec.Gen.encSchema_Types_V2FileContractExpiration = Spec.v2FileContractExpiration ∧
    Sia.Codec.Gen.encSchema_Types_Attestation = Spec.attestation ∧
    Sia.Codec.Gen.encSchema_Types_V2SiacoinOutput = Spec.v2SiacoinOutput ∧
    Sia.Codec.Gen.encSchema_Types_V2SiafundOutput = Spec.v2SiafundOutput := by
  refine ⟨by rfl, by rfl, by rfl, by rfl, by rfl, by rfl, by rfl⟩

/-! ## distinguishers -/

/-- no distinguisher (as written: `"sia/" ‖ d ‖ "|"`) is a prefix of another -/
theorem c12_distinguishers_prefix_free :
    ∀ a ∈ Spec.distinguishers, ∀ b ∈ Spec.distinguishers, a ≠ b → ¬ (dist a <+: dist b) := by decide

/-- two preimages that start with different distinguishers of the table differ, whatever follows -/
theorem c12_distinguished_preimages_differ {a b : String} (ha : a ∈ Spec.distinguishers) (hb : b ∈ Spec.distinguishers)
    (hne : a ≠ b) (x y : List UInt8) : dist a ++ x ≠ dist b ++ y :=
  append_ne_of_not_prefix (c12_distinguishers_prefix_free a ha b hb hne)
    (c12_distinguishers_prefix_free b hb a ha (Ne.symm hne))

example : dist "id/siacoinoutput" ++ [1, 2] ≠ dist "id/siafundoutput" ++ [1, 2] :=
  c12_distinguished_preimages_differ (a := "id/siacoinoutput") (b := "id/siafundoutput") (by decide) (by decide) (by decide) _ _

end C12
