import SiaModel.Gen.FactsPow
import SiaModel.Pow.Header
/-!
# C13 ties: facts extracted from `/repo`'s working tree on every run = what the hand
model (`SiaModel/Pow/*.lean`) and the theorems of `C13*.lean` were written from.

Each `tie_*` is closed by `rfl`/`decide`; when a constant, a helper call or the set of
fields touched by `ApplyHeader`/`ApplyBlock` changes in the Go source, the generated
definition changes and the tie no longer checks.
-/
namespace C13
open Gen.FactsPow

/-! ## clamp and decay constants (used by the model at the quoted places) -/

/-- `adjustDifficultyV2` in the model: `wdiv64 s.difficulty 250`; theorem `c13_clamp_v2` -/
theorem tie_v2_clamp_div : v2ClampDiv = 250 := rfl
/-- `adjustDifficultyFinalCut` in the model: `wdiv64 s.difficulty 250`; `c13_clamp_finalcut` -/
theorem tie_finalcut_clamp_div : finalCutClampDiv = 250 := rfl
/-- `updateOakWork` in the model: `wdiv64 s.oakWork 200` -/
theorem tie_oakwork_decay_div : oakWorkDecayDiv = 200 := rfl
/-- `sufficientlyHeavierThan` in the model: `wdiv64 t.difficulty 5` -/
theorem tie_heavier_div : heavierDiv = 5 := rfl
/-- `updateOakTarget` in the model: `mulTargetFrac s.oakTarget 1000 995` -/
theorem tie_oaktarget_decay : (oakTargetDecayNum, oakTargetDecayDen) = (1000, 995) := rfl
/-- `oakClamp` in the model: `mulTargetFrac s.childTarget 1004 1000` and `… 1000 1004`; `c13_clamp_oak` -/
theorem tie_oak_clamp : (oakClampUpNum, oakClampUpDen, oakClampDownNum, oakClampDownDen) = (1004, 1000, 1000, 1004) := rfl
/-- `preOakAdjust` in the model: the unclamped branch multiplies by `elapsed/expected` -/
theorem tie_preoak_mul : preOakMul = ["s.ChildTarget", "elapsed", "expected"] := rfl
/-- `ratioGt25` / `ratioLt04` in the model (exact-rational reading of the float comparison) -/
theorem tie_preoak_clamp_conds : preOakClampConds = ["r > 25.0 / 10.0", "r < 10.0 / 25.0"] := rfl
/-- `preOakAdjust`: clamped branches use `mulTargetFrac _ 10 25` resp. `_ 25 10` (elapsed, expected) -/
theorem tie_preoak_clamp_assigns : preOakClampAssigns = ["expected,elapsed=25,10", "expected,elapsed=10,25"] := rfl
/-- `numTimestamps` / `medianTimestamp` in the model: 11 -/
theorem tie_median_window : medianWindow = 11 := rfl
/-- `intToTarget` in the model: `|i| ≥ 2^255` ⇔ `BitLen ≥ 256` -/
theorem tie_intToTarget_cond : intToTargetConds = ["i.BitLen() >= 256"] := rfl

/-! ## literal fingerprints of every function the model mirrors -/

theorem tie_lits_updateOakTime : lits_updateOakTime = ["1", "1", "995", "1000"] := rfl
theorem tie_lits_updateOakTarget : lits_updateOakTarget = ["1", "1000", "995"] := rfl
theorem tie_lits_updateOakWork : lits_updateOakWork = ["200"] := rfl
theorem tie_lits_updateTotalWork : lits_updateTotalWork = [] := rfl
theorem tie_lits_adjustTarget : lits_adjustTarget =
    ["1000", "2", "0", "25.0", "10.0", "25", "10", "10.0", "25.0", "10", "25", "0", "0", "10", "10000",
     "10000", "3", "3", "0", "1", "0", "1", "0", "1", "1004", "1000", "1000", "1004", "0", "0"] := rfl
theorem tie_lits_adjustDifficultyV2 : lits_adjustDifficultyV2 =
    ["10", "10000", "10000", "0", "3", "3", "250", "0", "0"] := rfl
theorem tie_lits_adjustDifficultyFinalCut : lits_adjustDifficultyFinalCut =
    ["1000", "3", "3", "2", "1", "250"] := rfl
theorem tie_lits_adjustDifficulty : lits_adjustDifficulty = [] := rfl
theorem tie_lits_applyHeader : lits_applyHeader = ["0", "0", "0", "1", "0", "1"] := rfl
theorem tie_lits_intToTarget : lits_intToTarget = ["256"] := rfl
theorem tie_lits_heavier : lits_sufficientlyHeavierThan = ["5", "0"] := rfl
theorem tie_lits_median : lits_medianTimestamp = ["2", "0", "2", "2", "1", "2", "2"] := rfl
theorem tie_lits_nonceFactor : lits_nonceFactor = ["1"] := rfl
theorem tie_lits_validateHeader : lits_validateHeader = ["0", "0"] := rfl
theorem tie_lits_work : (lits_workAdd, lits_workSub, lits_workMul64, lits_workDiv64) =
    (["24", "0", "8", "0", "0"], ["24", "0", "8", "0", "0"], ["24", "0", "8", "0", "0", "0"], ["0", "0", "8"]) := rfl

/-! ## helper calls (shape of the Work/target arithmetic) -/

theorem tie_calls_updateTotalWork : calls_updateTotalWork =
    ["addTarget(s.Depth, s.ChildTarget)", "invTarget(depth)", "s.TotalWork.add(s.Difficulty)", "invTarget(totalWork.n)"] := rfl
theorem tie_calls_updateOakTarget : calls_updateOakTarget =
    ["addTarget(mulTargetFrac(s.OakTarget, 1000, 995), s.ChildTarget)", "mulTargetFrac(s.OakTarget, 1000, 995)"] := rfl
theorem tie_calls_updateOakWork : calls_updateOakWork =
    ["invTarget(target)", "s.OakWork.sub(s.OakWork.div64(200)).add(s.Difficulty)",
     "s.OakWork.sub(s.OakWork.div64(200))", "s.OakWork.div64(200)", "invTarget(work.n)"] := rfl
theorem tie_calls_adjustTarget : calls_adjustTarget =
    ["blockTimestamp.Sub(targetTimestamp)", "mulTargetFrac(s.ChildTarget, elapsed, expected)",
     "intToTarget(new(big.Int).Div(maxTarget, estimatedHashrate))",
     "mulTargetFrac(s.ChildTarget, 1004, 1000)", "mulTargetFrac(s.ChildTarget, 1000, 1004)"] := rfl
theorem tie_calls_adjustDifficultyV2 : calls_adjustDifficultyV2 =
    ["blockTimestamp.Sub(s.Network.HardforkOak.GenesisTimestamp)",
     "s.OakWork.div64(uint64(s.OakTime / time.Second))",
     "estimatedHashrate.mul64(uint64(targetBlockTime / time.Second))",
     "s.Difficulty.div64(250)", "s.Difficulty.sub(maxAdjust)", "s.Difficulty.add(maxAdjust)"] := rfl
theorem tie_calls_adjustDifficultyFinalCut : calls_adjustDifficultyFinalCut =
    ["blockTimestamp.Sub(s.Network.HardforkOak.GenesisTimestamp)",
     "min(targetInterval, s.BlockInterval() * 3)", "max(targetInterval, s.BlockInterval() / 3)",
     "s.OakWork.mul64(uint64(targetInterval)).add(oneWork.mul64(uint64(s.OakTime / 2))).div64(uint64(max(s.OakTime, 1)))",
     "s.OakWork.mul64(uint64(targetInterval)).add(oneWork.mul64(uint64(s.OakTime / 2)))",
     "s.OakWork.mul64(uint64(targetInterval))", "oneWork.mul64(uint64(s.OakTime / 2))", "max(s.OakTime, 1)",
     "s.Difficulty.div64(250).max(oneWork)", "s.Difficulty.div64(250)",
     "newDifficulty.min(s.Difficulty.add(maxAdjust))", "s.Difficulty.add(maxAdjust)",
     "newDifficulty.max(s.Difficulty.sub(maxAdjust))", "s.Difficulty.sub(maxAdjust)",
     "newDifficulty.max(oneWork)"] := rfl
theorem tie_calls_adjustDifficulty : calls_adjustDifficulty =
    ["invTarget(target)", "invTarget(difficulty.n)", "invTarget(difficulty.n)"] := rfl
theorem tie_calls_heavier : calls_sufficientlyHeavierThan =
    ["t.TotalWork.add(t.Difficulty.div64(5))", "t.Difficulty.div64(5)"] := rfl
theorem tie_calls_powTarget : calls_powTarget = ["invTarget(s.Difficulty.n)"] := rfl

/-! ## header ≡ block: which `State` fields each side touches -/

/-- The fields `ApplyHeader` (and everything it calls) reads or writes are exactly the
    fields of the model's `PowState` (`Index` = `height`+`id`; `Network` = the `Network`
    argument). -/
theorem tie_header_state_fields : headerStateFields =
    ["ChildTarget", "Depth", "Difficulty", "Index", "Network", "OakTarget", "OakTime", "OakWork",
     "PrevTimestamps", "TotalWork"] := rfl

/-- `ApplyHeader` reaches exactly the functions the model mirrors. -/
theorem tie_header_funcs : headerFuncs =
    ["ApplyHeader", "State.BlockInterval", "State.childHeight", "addTarget", "adjustDifficulty",
     "adjustDifficultyFinalCut", "adjustDifficultyV2", "adjustTarget", "intToTarget", "invTarget",
     "mulTargetFrac", "updateOakTarget", "updateOakTime", "updateOakWork", "updateTotalWork"] := rfl

/-- What `ApplyBlock` assigns itself before handing the state to
    `ApplyHeader(s, b.Header(), targetTimestamp)` (that call shape is checked by the extractor). -/
theorem tie_block_only_fields : blockOnlyStateFields =
    ["Attestations", "Elements", "FoundationManagementAddress", "FoundationSubsidyAddress", "SiafundTaxRevenue"] := rfl

/-- `Tie.C13.header_reads_only_pow`: nothing `ApplyBlock` assigns outside `ApplyHeader` is
    read by `ApplyHeader`. Hence the PoW fields after `ApplyBlock` are those of
    `ApplyHeader` on the block's header. -/
theorem tie_header_reads_only_pow : ∀ f ∈ blockOnlyStateFields, f ∉ headerStateFields := by decide

/-- `c13_header_eq_block`: in the model the PoW projection of applying a full block IS
    `applyHeader` on the block's header. The content of this statement is not this `rfl` but
    (a) the extractor's check that `ApplyBlock` calls `ApplyHeader(s, b.Header(), targetTimestamp)`
    exactly once, (b) `tie_header_reads_only_pow`, and (c) the harness comparison
    `ApplyBlock` vs `ApplyHeader` on mined blocks (violation key `c13-header-vs-block`). -/
theorem c13_header_eq_block (n : Sia.Pow.Network) (s : Sia.Pow.PowState) (hdr : Sia.Pow.Header) (tt : Int) :
    Sia.Pow.applyBlockPow n s hdr tt = Sia.Pow.applyHeader n s hdr tt := rfl

end C13
