import SiaModel.Gen.CodeConsensus
import SiaProofs.Lemmas.GoLoops
/-!
# C04 — every parent record of a v1 block supplement is a member of the accumulator, on REGENERATED code

`consensus.validateSupplement` — the function that stands between the untrusted `V1BlockSupplement` and every v1
validation rule that reads a parent from it — is translated from the source on every run, its six loops included.
The accumulator membership tests are external parameters (`ext.contains…`; their soundness is C04's accumulator
theorems).  The theorem: if the regenerated function accepts, then EVERY siacoin input record, siafund input record,
revised contract, proven contract and expiring contract of the supplement passed its membership test against the
state's accumulator, the supplement lists exactly one entry per v1 transaction, and after the v2 require height it
is empty.
-/
namespace C04
open Gen.Types Gen.Consensus GoLoops

/-- a check-only loop that ended without an early return passed its check on every element -/
theorem allOf {α ρ : Type} {f : Int → α → Unit → Except String (Option ρ × Unit)} {p : α → Prop}
    (hf : ∀ i x st st', f i x st = .ok (none, st') → p x) {xs : List α} {u : Unit}
    (h : Go.forRange xs () f = .ok (none, u)) : ∀ x ∈ xs, p x :=
  Chain.all (R := fun x _ _ => p x) (Q := p) (fun _ _ _ r => r) xs () u (forRange_none (R := fun x _ _ => p x) hf xs () u h)

/-- what the supplement check establishes about one transaction's supplement -/
structure TxnSuppOk (ext : Ext) (s : State) (t : V1TransactionSupplement) : Prop where
  sci : ∀ e ∈ t.SiacoinInputs, ext.containsUnspentSiacoinElement s.Elements (SiacoinElement.Share e) = true
  sfi : ∀ e ∈ t.SiafundInputs, ext.containsUnspentSiafundElement s.Elements (SiafundElement.Share e) = true
  rev : ∀ e ∈ t.RevisedFileContracts, ext.containsUnresolvedFileContractElement s.Elements (FileContractElement.Share e) = true
  sp : ∀ e ∈ t.StorageProofs, ext.containsUnresolvedFileContractElement s.Elements (FileContractElement.Share e.FileContract) = true

/--
**An accepted block supplement contains only members** (about `consensus.validateSupplement` as regenerated from the
source, loops included): every parent record of every kind passed its accumulator membership test, there is exactly
one supplement entry per v1 transaction, and from the v2 require height on the supplement is empty.
-/
theorem c04_supplement_gen (ext : Ext) (s : State) (b : Block) (bs : V1BlockSupplement)
    (h : validateSupplement ext s b bs = .ok none) :
    (State.childHeight s ≥ s.Network.HardforkV2.RequireHeight → bs.Transactions = [] ∧ bs.ExpiringFileContracts = []) ∧
    bs.Transactions.length = b.Transactions.length ∧
    (∀ t ∈ bs.Transactions, TxnSuppOk ext s t) ∧
    (∀ e ∈ bs.ExpiringFileContracts, ext.containsUnresolvedFileContractElement s.Elements (FileContractElement.Share e) = true) := by
  unfold validateSupplement at h
  split at h
  · simp [pure, Except.pure] at h
  rename_i c1
  split at h
  · simp [pure, Except.pure] at h
  rename_i c2
  simp only [bind, Except.bind] at h
  split at h
  · cases h
  rename_i v1 hv1
  obtain ⟨r1, u1⟩ := v1
  cases r1 with
  | some q =>
    -- an early return carries an error message, never `none`
    simp [pure, Except.pure] at h
    subst h
    exfalso
    have := forRange_some (P := fun r => r ≠ (none : Option String)) ?_ bs.Transactions () none u1 hv1
    · exact this rfl
    intro i t st r st' hx
    split at hx
    · cases hx
    rename_i w1 hw1
    obtain ⟨a1, _⟩ := w1
    cases a1 with
    | some q1 =>
      simp [pure, Except.pure] at hx
      have := forRange_some (P := fun r => r ≠ (none : Option String)) ?_ t.SiacoinInputs () q1 _ hw1
      · rw [← hx]; exact this
      intro i e st r st' he
      split at he <;> simp [pure, Except.pure] at he
      rw [← he]; simp
    | none =>
      simp only [] at hx
      split at hx
      · cases hx
      rename_i w2 hw2
      obtain ⟨a2, _⟩ := w2
      cases a2 with
      | some q2 =>
        simp [pure, Except.pure] at hx
        have := forRange_some (P := fun r => r ≠ (none : Option String)) ?_ t.SiafundInputs () q2 _ hw2
        · rw [← hx]; exact this
        intro i e st r st' he
        split at he <;> simp [pure, Except.pure] at he
        rw [← he]; simp
      | none =>
        simp only [] at hx
        split at hx
        · cases hx
        rename_i w3 hw3
        obtain ⟨a3, _⟩ := w3
        cases a3 with
        | some q3 =>
          simp [pure, Except.pure] at hx
          have := forRange_some (P := fun r => r ≠ (none : Option String)) ?_ t.RevisedFileContracts () q3 _ hw3
          · rw [← hx]; exact this
          intro i e st r st' he
          split at he <;> simp [pure, Except.pure] at he
          rw [← he]; simp
        | none =>
          simp only [] at hx
          split at hx
          · cases hx
          rename_i w4 hw4
          obtain ⟨a4, _⟩ := w4
          cases a4 with
          | some q4 =>
            simp [pure, Except.pure] at hx
            have := forRange_some (P := fun r => r ≠ (none : Option String)) ?_ t.StorageProofs () q4 _ hw4
            · rw [← hx]; exact this
            intro i e st r st' he
            split at he <;> simp [pure, Except.pure] at he
            rw [← he]; simp
          | none => simp [pure, Except.pure] at hx
  | none =>
    have txns : ∀ t ∈ bs.Transactions, TxnSuppOk ext s t := by
      refine allOf ?_ hv1
      intro i t st st' hx
      split at hx
      · cases hx
      rename_i w1 hw1
      obtain ⟨a1, _⟩ := w1
      cases a1 with
      | some q1 => simp [pure, Except.pure] at hx
      | none =>
        have p1 := allOf (p := fun e : SiacoinElement => ext.containsUnspentSiacoinElement s.Elements (SiacoinElement.Share e) = true)
          (by intro i e st st' he; split at he <;> simp_all [pure, Except.pure]) hw1
        simp only [] at hx
        split at hx
        · cases hx
        rename_i w2 hw2
        obtain ⟨a2, _⟩ := w2
        cases a2 with
        | some q2 => simp [pure, Except.pure] at hx
        | none =>
          have p2 := allOf (p := fun e : SiafundElement => ext.containsUnspentSiafundElement s.Elements (SiafundElement.Share e) = true)
            (by intro i e st st' he; split at he <;> simp_all [pure, Except.pure]) hw2
          simp only [] at hx
          split at hx
          · cases hx
          rename_i w3 hw3
          obtain ⟨a3, _⟩ := w3
          cases a3 with
          | some q3 => simp [pure, Except.pure] at hx
          | none =>
            have p3 := allOf (p := fun e : FileContractElement => ext.containsUnresolvedFileContractElement s.Elements (FileContractElement.Share e) = true)
              (by intro i e st st' he; split at he <;> simp_all [pure, Except.pure]) hw3
            simp only [] at hx
            split at hx
            · cases hx
            rename_i w4 hw4
            obtain ⟨a4, _⟩ := w4
            cases a4 with
            | some q4 => simp [pure, Except.pure] at hx
            | none =>
              have p4 := allOf (p := fun e : V1StorageProofSupplement => ext.containsUnresolvedFileContractElement s.Elements (FileContractElement.Share e.FileContract) = true)
                (by intro i e st st' he; split at he <;> simp_all [pure, Except.pure]) hw4
              exact ⟨p1, p2, p3, p4⟩
    simp only [] at h
    split at h
    · cases h
    rename_i v6 hv6
    obtain ⟨r6, u6⟩ := v6
    cases r6 with
    | some q =>
      simp [pure, Except.pure] at h
      subst h
      exfalso
      have := forRange_some (P := fun r => r ≠ (none : Option String)) ?_ bs.ExpiringFileContracts () none u6 hv6
      · exact this rfl
      intro i e st r st' he
      split at he <;> simp [pure, Except.pure] at he
      rw [← he]; simp
    | none =>
      have exp := allOf (p := fun e : FileContractElement => ext.containsUnresolvedFileContractElement s.Elements (FileContractElement.Share e) = true)
        (by intro i e st st' he; split at he <;> simp_all [pure, Except.pure]) hv6
      refine ⟨?_, ?_, txns, exp⟩
      · intro hh
        simp [hh] at c1
        exact c1
      · simp at c2; omega

/-! ### non-vacuity -/

def extMember : Ext :=
  { Ext.trivial with containsUnspentSiacoinElement := fun _ e => decide (e.ID = Go.zeros 32) }

def suppOne : V1BlockSupplement := { Transactions := [{ SiacoinInputs := [{}] }] }
def suppForged : V1BlockSupplement := { Transactions := [{ SiacoinInputs := [{}, { ID := ⟨#[1]⟩ }] }] }

example : validateSupplement extMember { Network := { HardforkV2 := { RequireHeight := 100 } } } { Transactions := [{}] } suppOne = .ok none := by rfl
example : validateSupplement extMember { Network := { HardforkV2 := { RequireHeight := 100 } } } { Transactions := [{}] } suppForged
    = .ok (some "siacoin element %v is not present in the accumulator") := by rfl
example : validateSupplement extMember {} { Transactions := [{}] } suppOne
    = .ok (some "v1 block supplements are not allowed after v2 hardfork is complete") := by rfl
example : validateSupplement extMember { Network := { HardforkV2 := { RequireHeight := 100 } } } {} suppOne
    = .ok (some "incorrect number of transactions") := by rfl

end C04
