import SiaProofs.Lemmas.StorageProofSound
/-!
# C07 (proof part) — consensus storage proofs are complete and sound w.r.t. the plain Merkle tree

Code: /repo/consensus/merkle.go `proofRoot`, `storageProofRoot` (v2 contracts) and the closures
`lastLeafIndex` / `storageProofLeaf` / `storageProofRoot` in `validateFileContracts`
(/repo/consensus/validation.go, v1 contracts with their three leaf eras), modelled in
`SiaModel/Merkle/StorageProof.lean`. Specification: `Sia.Rhp.metaRoot` over the leaf hashes of the
64-byte segments of the file (last one zero padded) — the same tree as C16 — and `spPath`, the
honest leaf-to-root proof. `HashInj` (incl. leaf/node domain separation) is a hypothesis.

For every file size `n ≥ 1` leaves (any `n`, partial last leaf, non-powers of two) and `i < n`.
-/
set_option linter.unusedVariables false
set_option linter.unusedSectionVars false
namespace C07
open Sia Sia.Rhp Sia.Rhp.HashOps Sia.SP

variable {H : Type} [HashOps H]

/-- term-algebra model of the hypotheses (same as C16.T) -/
inductive T where
  | z : T
  | lf : List UInt8 → T
  | nd : T → T → T
  deriving DecidableEq

instance : HashOps T where
  zero := T.z
  leaf b := T.lf b.data.toList
  node := T.nd

theorem T_hashInj : HashInj T where
  node_inj := by intro a b c d h; cases h; exact ⟨rfl, rfl⟩
  leaf_inj := by
    intro x y h
    have : x.data.toList = y.data.toList := by injection h
    exact ByteArray.ext (Array.toList_inj.1 this)
  leaf_ne_node := by intro x a b h; cases h

theorem lastLeafIndex_eq (fs : Nat) (h0 : 0 < fs) (hlt : fs < 18446744073709551616) :
    1 ≤ numLeaves fs ∧ lastLeafIndex fs = numLeaves fs - 1 := by
  unfold numLeaves lastLeafIndex
  by_cases h : fs % 64 = 0
  · simp only [h, ne_eq, not_true_eq_false, if_false, if_true]
    omega
  · simp only [h, ne_eq, not_false_eq_true, if_true, if_false]
    omega

/-! ## hash level -/

/-- Completeness (v2 `storageProofRoot` and the v1 loop): the honest path of leaf `i` folds to the
plain root, for every number of leaves `n ≥ 1` and every `i < n`, and is long enough to pass the
"too few proof hashes" guard. -/
theorem c07_proof_complete (ls : List H) (i fs : Nat) (hi : i < ls.length)
    (hlast : lastLeafIndex fs = ls.length - 1) :
    storageProofRoot (ls.getD i zero) i fs (spPath ls i) = metaRoot ls ∧
    spLoop i (SP.bitLen (i ^^^ lastLeafIndex fs)) 0 (ls.getD i zero) (spPath ls i) = metaRoot ls ∧
    SP.bitLen (i ^^^ lastLeafIndex fs) ≤ (spPath ls i).length := by
  have h := chainD_spPath ls.length ls i (dirOf i (SP.bitLen (i ^^^ (ls.length - 1)))) rfl hi (fun _ _ => rfl)
  rw [hlast]
  refine ⟨?_, ?_, h.2⟩
  · rw [storageProofRoot_eq_chainD _ _ _ _ (by rw [hlast]; exact h.2), hlast]; exact h.1
  · rw [spLoop_eq_chainD]; exact h.1

example : storageProofRoot (T.lf [2]) 2 (4 * 64 + 5) (spPath [T.lf [0], T.lf [1], T.lf [2], T.lf [3], T.lf [4]] 2)
    = metaRoot ([T.lf [0], T.lf [1], T.lf [2], T.lf [3], T.lf [4]] : List T) :=
  (c07_proof_complete [T.lf [0], T.lf [1], T.lf [2], T.lf [3], T.lf [4]] 2 (4 * 64 + 5) (by decide) (by decide)).1

/-- Soundness of the v1 loop under the guard `len(proof) ≥ subtreeHeight`: if it folds a leaf hash
`leaf d` to the plain root of the file's leaves `cs`, then `d` is leaf `i`. So a proof of another
leaf, other data, another size (another `cs`) or another root is rejected. -/
theorem c07_proof_sound_loop (hinj : HashInj H) (cs : List ByteArray) (i fs : Nat) (d : ByteArray) (proof : List H)
    (hi : i < cs.length) (hlast : lastLeafIndex fs = cs.length - 1)
    (hguard : SP.bitLen (i ^^^ lastLeafIndex fs) ≤ proof.length)
    (hacc : spLoop i (SP.bitLen (i ^^^ lastLeafIndex fs)) 0 (leaf d) proof = metaRoot (cs.map (leaf : ByteArray → H))) :
    cs[i]? = some d := by
  rw [spLoop_eq_chainD, hlast] at hacc
  rw [hlast] at hguard
  exact chainD_sound hinj cs.length cs i _ d proof rfl hi (fun _ _ => rfl) hguard hacc

/-- Soundness of v2 `storageProofRoot` (it returns the zero hash for a too-short proof, so the
contract root must not be the zero hash — true for every non-empty file under `HashInj`-style
assumptions; stated as `hroot`). -/
theorem c07_proof_sound (hinj : HashInj H) (cs : List ByteArray) (i fs : Nat) (d : ByteArray) (proof : List H)
    (hi : i < cs.length) (hlast : lastLeafIndex fs = cs.length - 1)
    (hroot : metaRoot (cs.map (leaf : ByteArray → H)) ≠ zero)
    (hacc : storageProofRoot (leaf d) i fs proof = metaRoot (cs.map (leaf : ByteArray → H))) :
    cs[i]? = some d := by
  by_cases hg : SP.bitLen (i ^^^ lastLeafIndex fs) ≤ proof.length
  · rw [storageProofRoot_eq_chainD _ _ _ _ hg, ← spLoop_eq_chainD] at hacc
    exact c07_proof_sound_loop hinj cs i fs d proof hi hlast hg hacc
  · unfold storageProofRoot at hacc
    have : proof.length < storageProofSubtreeHeight i fs := by unfold storageProofSubtreeHeight; omega
    simp only [this, if_true] at hacc
    exact absurd hacc.symm hroot

example (d : ByteArray) (proof : List T)
    (hacc : storageProofRoot (leaf d) 1 (3 * 64)  proof
      = metaRoot ([ByteArray.mk #[0], ByteArray.mk #[1], ByteArray.mk #[2]].map (leaf : ByteArray → T))) :
    d = ByteArray.mk #[1] := by
  have := c07_proof_sound T_hashInj [ByteArray.mk #[0], ByteArray.mk #[1], ByteArray.mk #[2]] 1 (3 * 64) d proof
    (by decide) (by decide) (by
      rw [metaRoot_split _ (by decide)]; intro h; cases h) hacc
  simpa using this.symm


/-! ## the two verdicts of consensus, with the leaf eras of v1 -/

/-- v2 verdict (`validateV2FileContracts`, with the "too few proof hashes" guard of fix a3a6e71),
completeness: for a file whose leaf hashes are `cs.map leaf`, the honest 64-byte leaf and the
honest path are accepted against the plain root -/
theorem c07_v2_complete [DecidableEq H] (cs : List ByteArray) (i fs : Nat) (leaf64 : ByteArray)
    (hi : i < cs.length) (hlast : lastLeafIndex fs = cs.length - 1) (hleaf : cs[i]? = some (padLeaf leaf64)) :
    verifyV2 i fs leaf64 (spPath (cs.map (leaf : ByteArray → H)) i) (metaRoot (cs.map (leaf : ByteArray → H))) = true := by
  unfold verifyV2
  have h := c07_proof_complete (cs.map (leaf : ByteArray → H)) i fs (by simpa using hi) (by simpa using hlast)
  have hg : (cs.map (leaf : ByteArray → H)).getD i zero = leaf (padLeaf leaf64) := by
    simp [List.getD_eq_getElem?_getD, List.getElem?_map, hleaf]
  rw [hg] at h
  have hn : ¬ (fs > 0 ∧ (spPath (cs.map (leaf : ByteArray → H)) i).length < storageProofSubtreeHeight i fs) := by
    have := h.2.2; unfold storageProofSubtreeHeight; omega
  simp [hn, h.1]

/-- v2 verdict, soundness for a non-empty file — WITHOUT any assumption on the committed root
(the guard makes `storageProofRoot`'s "too short ⇒ zero hash" sentinel unreachable): acceptance
means the submitted leaf is leaf `i` of the data whose plain root the contract commits to. In
particular a contract with `FileMerkleRoot = zero hash` and `Filesize > 0` accepts nothing whose
data tree does not hash to the zero hash. -/
theorem c07_proof_sound_v2 [DecidableEq H] (hinj : HashInj H) (cs : List ByteArray) (i fs : Nat) (leaf64 : ByteArray)
    (proof : List H) (hi : i < cs.length) (hfs : 0 < fs) (hlast : lastLeafIndex fs = cs.length - 1)
    (hacc : verifyV2 i fs leaf64 proof (metaRoot (cs.map (leaf : ByteArray → H))) = true) :
    cs[i]? = some (padLeaf leaf64) := by
  unfold verifyV2 at hacc
  by_cases hg : fs > 0 ∧ proof.length < storageProofSubtreeHeight i fs
  · simp [hg] at hacc
  · simp only [hg, if_false, decide_eq_true_eq] at hacc
    have hlen : SP.bitLen (i ^^^ lastLeafIndex fs) ≤ proof.length := by
      unfold storageProofSubtreeHeight at hg; omega
    rw [storageProofRoot_eq_chainD _ _ _ _ hlen, ← spLoop_eq_chainD] at hacc
    exact c07_proof_sound_loop hinj cs i fs _ proof hi hlast hlen hacc

/-- the empty file, exactly: `Filesize = 0` (challenged index 0, `lastLeafIndex` wraps to `2^64-1`, so
the subtree height is 64): a proof with fewer than 64 hashes is accepted iff the committed root is
the zero hash — whatever the leaf; a proof with 64 or more hashes is accepted iff folding it
(64 right siblings, then left siblings) gives the committed root, which is a node hash. -/
theorem c07_v2_empty_file [DecidableEq H] (leaf64 : ByteArray) (proof : List H) (root : H) :
    storageProofSubtreeHeight 0 0 = 64 ∧
    (verifyV2 0 0 leaf64 proof root = true ↔
      (proof.length < 64 ∧ root = zero) ∨
      (64 ≤ proof.length ∧ (proof.drop 64).foldl (fun r h => node h r)
          (proofRoot (leaf (padLeaf leaf64)) 0 (proof.take 64)) = root)) := by
  have h64 : storageProofSubtreeHeight 0 0 = 64 := by decide +kernel
  refine ⟨h64, ?_⟩
  unfold verifyV2 storageProofRoot
  simp only [h64, Nat.lt_irrefl, false_and, if_false, decide_eq_true_eq]
  by_cases hl : proof.length < 64
  · simp only [hl, if_true]
    constructor
    · intro h; exact Or.inl ⟨trivial, h.symm⟩
    · rintro (⟨_, h⟩ | ⟨h, _⟩)
      · exact h.symm
      · exact absurd hl (by omega)
  · simp only [hl, if_false]
    constructor
    · intro h; exact Or.inr ⟨by omega, h⟩
    · rintro (⟨h, _⟩ | ⟨_, h⟩)
      · exact h.elim
      · exact h

/-- The gap closed by fix a3a6e71, as a theorem: WITHOUT the guard, a contract of 4096 bytes whose
committed root is the zero hash accepts an all-zero leaf with an empty proof (the sentinel of
`storageProofRoot` equals the committed root); with the guard it is rejected. -/
theorem c07_v2_zero_root_counterexample :
    verifyV2NoGuard 5 4096 (Bytes.zeros 64) ([] : List T) (zero : T) = true ∧
    verifyV2 5 4096 (Bytes.zeros 64) ([] : List T) (zero : T) = false := by
  constructor <;> decide +kernel

/-- v1 verdict, completeness in every era: whatever bytes `lf` the era rule selects from the
submitted leaf, if zero-extending them gives back leaf `i` of the file the proof is accepted. -/
theorem c07_v1_complete [DecidableEq H] (era : Era) (cs : List ByteArray) (i fs : Nat) (leaf64 lf : ByteArray)
    (hi : i < cs.length) (hlast : lastLeafIndex fs = cs.length - 1)
    (hera : storageProofLeaf era i fs leaf64 = some lf) (hleaf : cs[i]? = some (padLeaf lf)) :
    verifyV1 era i fs leaf64 (spPath (cs.map (leaf : ByteArray → H)) i) (metaRoot (cs.map (leaf : ByteArray → H))) = true := by
  unfold verifyV1
  rw [hera]
  have h := c07_proof_complete (cs.map (leaf : ByteArray → H)) i fs (by simpa using hi) (by simpa using hlast)
  have hg : (cs.map (leaf : ByteArray → H)).getD i zero = leaf (padLeaf lf) := by
    simp [List.getD_eq_getElem?_getD, List.getElem?_map, hleaf]
  rw [hg] at h
  have hn : ¬ (fs > 0 ∧ (spPath (cs.map (leaf : ByteArray → H)) i).length < SP.bitLen (i ^^^ lastLeafIndex fs)) := by
    have := h.2.2; omega
  simp only [hn, if_false]
  unfold storageProofRootV1
  simp [h.2.1]

/-- v1 verdict, soundness for a non-empty file: acceptance means the era rule selected bytes whose
zero extension is leaf `i` of the file -/
theorem c07_v1_sound [DecidableEq H] (hinj : HashInj H) (era : Era) (cs : List ByteArray) (i fs : Nat)
    (leaf64 : ByteArray) (proof : List H) (hi : i < cs.length) (hfs : 0 < fs)
    (hlast : lastLeafIndex fs = cs.length - 1)
    (hacc : verifyV1 era i fs leaf64 proof (metaRoot (cs.map (leaf : ByteArray → H))) = true) :
    ∃ lf, storageProofLeaf era i fs leaf64 = some lf ∧ cs[i]? = some (padLeaf lf) := by
  unfold verifyV1 at hacc
  cases hera : storageProofLeaf era i fs leaf64 with
  | none =>
    -- only the current era returns nil, and only for an empty file
    exfalso
    cases era with
    | preTax => simp [storageProofLeaf] at hera
    | preStorageProof =>
      simp only [storageProofLeaf] at hera
      by_cases h1 : i = lastLeafIndex fs <;> simp [h1] at hera
    | current =>
      have h0 : fs ≠ 0 := by omega
      simp only [storageProofLeaf, h0, if_false] at hera
      by_cases h1 : i = lastLeafIndex fs ∧ fs % 64 ≠ 0 <;> simp [h1] at hera
  | some lf =>
    rw [hera] at hacc
    simp only at hacc
    by_cases hg : fs > 0 ∧ proof.length < SP.bitLen (i ^^^ lastLeafIndex fs)
    · simp [hg] at hacc
    · simp only [hg, if_false, decide_eq_true_eq] at hacc
      refine ⟨lf, rfl, ?_⟩
      unfold storageProofRootV1 at hacc
      exact c07_proof_sound_loop hinj cs i fs _ proof hi hlast (by omega) hacc

/-! ### which bytes the eras select from an honest (zero padded) leaf -/

theorem zeros_size (n : Nat) : (Bytes.zeros n).size = n := by
  simp [Bytes.zeros, ByteArray.size]

theorem padLeaf_size (x : ByteArray) (h : x.size ≤ 64) : (padLeaf x).size = 64 := by
  unfold padLeaf; rw [ByteArray.size_append, zeros_size]; omega

theorem padLeaf_full (b : ByteArray) (h : b.size = 64) : padLeaf b = b := by
  unfold padLeaf
  apply ByteArray.ext
  simp [h, Bytes.zeros]

theorem padLeaf_truncate (x : ByteArray) (h : x.size ≤ 64) : padLeaf ((padLeaf x).extract 0 x.size) = padLeaf x := by
  have : (padLeaf x).extract 0 x.size = x := by
    unfold padLeaf
    apply ByteArray.ext
    simp [ByteArray.data_extract, ByteArray.data_append]
  rw [this]

/-- the honest prover submits `padLeaf x` where `x` are the (possibly fewer than 64) bytes of
segment `i`; in each era the selected bytes zero-extend back to it — EXCEPT in the
pre-`HardforkStorageProof` era for the last leaf of a file whose size is a multiple of 64, where the
historical rule hashes an all-zero leaf (`leaf[:0]`). -/
theorem c07_era_leaf (era : Era) (i fs : Nat) (x : ByteArray) (hx : x.size ≤ 64)
    (hsz : x.size = if i = lastLeafIndex fs ∧ fs % 64 ≠ 0 then fs % 64 else 64)
    (hfs : 0 < fs)
    (hexc : era = Era.preStorageProof → ¬ (i = lastLeafIndex fs ∧ fs % 64 = 0)) :
    ∃ lf, storageProofLeaf era i fs (padLeaf x) = some lf ∧ padLeaf lf = padLeaf x := by
  cases era with
  | preTax =>
    refine ⟨padLeaf x, rfl, ?_⟩
    exact padLeaf_full _ (padLeaf_size x hx)
  | preStorageProof =>
    have hexc' := hexc rfl
    by_cases hl : i = lastLeafIndex fs
    · have hm : fs % 64 ≠ 0 := fun h => hexc' ⟨hl, h⟩
      have hs : x.size = fs % 64 := by simp [hl, hm] at hsz; exact hsz
      refine ⟨(padLeaf x).extract 0 (fs % 64), by simp [storageProofLeaf, hl], ?_⟩
      rw [← hs]; exact padLeaf_truncate x hx
    · refine ⟨padLeaf x, by simp [storageProofLeaf, hl], ?_⟩
      exact padLeaf_full _ (padLeaf_size x hx)
  | current =>
    have h0 : fs ≠ 0 := by omega
    by_cases hl : i = lastLeafIndex fs ∧ fs % 64 ≠ 0
    · have hs : x.size = fs % 64 := by simp [hl] at hsz; exact hsz
      refine ⟨(padLeaf x).extract 0 (fs % 64), by simp [storageProofLeaf, h0, hl], ?_⟩
      rw [← hs]; exact padLeaf_truncate x hx
    · refine ⟨padLeaf x, by simp [storageProofLeaf, h0, hl], ?_⟩
      exact padLeaf_full _ (padLeaf_size x hx)


/-! ## the challenged leaf: `State.StorageProofLeafIndex` -/

/-- the 32-byte seed read as a 256-bit big-endian number -/
def seedNat (seed : ByteArray) : Nat :=
  ((readBe64 seed 0 * 18446744073709551616 + readBe64 seed 8) * 18446744073709551616 + readBe64 seed 16)
    * 18446744073709551616 + readBe64 seed 24

theorem readBe64_lt (b : ByteArray) (off : Nat) : readBe64 b off < 18446744073709551616 := by
  unfold readBe64
  exact UInt64.toNat_lt _

theorem div64_step (r w n : Nat) (hr : r < n) :
    Go.bits_Div64 r w n = .ok ((r * 18446744073709551616 + w) / n, (r * 18446744073709551616 + w) % n) := by
  unfold Go.bits_Div64
  have h1 : n ≠ 0 := by omega
  have h2 : ¬ (n ≤ r) := by omega
  simp [h1, h2]

theorem mod_step (a w n : Nat) : ((a % n) * 18446744073709551616 + w) % n = (a * 18446744073709551616 + w) % n := by
  rw [Nat.add_mod, Nat.mul_mod, Nat.mod_mod, ← Nat.mul_mod, ← Nat.add_mod]

/-- the reduction loop never panics (the divisor is positive and the running remainder stays below
it) and computes the seed modulo the number of leaves -/
theorem leafIndexLoop_eq (seed : ByteArray) (n : Nat) (hn : 0 < n) :
    leafIndexLoop seed n 4 0 = .ok (seedNat seed % n) := by
  have hlt : ∀ x, x % n < n := fun x => Nat.mod_lt x hn
  unfold seedNat
  simp only [leafIndexLoop, Nat.sub_self, Nat.mul_zero]
  rw [div64_step 0 _ n hn]
  simp only [bind, Except.bind, Nat.zero_mul, Nat.zero_add]
  rw [div64_step _ _ n (hlt _)]
  simp only [bind, Except.bind]
  rw [div64_step _ _ n (hlt _)]
  simp only [bind, Except.bind]
  rw [div64_step _ _ n (hlt _)]
  simp only [bind, Except.bind]
  simp only [mod_step]

/-- `StorageProofLeafIndex` is total: for EVERY file size (0, 2^64-1, … — no bound is needed) and every
seed it returns without panic; for an empty file it returns 0 -/
theorem c07_leaf_index_total (filesize : Nat) (seed : ByteArray) :
    ∃ r, storageProofLeafIndexOfSeed filesize seed = .ok r ∧ (filesize = 0 → r = 0) := by
  unfold storageProofLeafIndexOfSeed
  by_cases h : numLeaves filesize = 0
  · exact ⟨0, by simp [h], fun _ => rfl⟩
  · refine ⟨seedNat seed % numLeaves filesize, ?_, ?_⟩
    · simp only [h, if_false]; exact leafIndexLoop_eq seed _ (by omega)
    · intro h0; subst h0; exact absurd (by decide : numLeaves 0 = 0) h

/-- what it computes: the 256-bit big-endian value of `hashAll(windowID, fcid)` modulo the number of
leaves `⌈filesize/64⌉` (0 for an empty file) — the meaning of "the leaf chosen by the chain-derived
challenge" -/
theorem c07_leaf_index_uniform_spec (filesize : Nat) (seed : ByteArray) :
    storageProofLeafIndexOfSeed filesize seed
      = .ok (if numLeaves filesize = 0 then 0 else seedNat seed % numLeaves filesize) := by
  unfold storageProofLeafIndexOfSeed
  by_cases h : numLeaves filesize = 0
  · simp [h]
  · simp only [h, if_false]; exact leafIndexLoop_eq seed _ (by omega)

theorem numLeaves_pos {filesize : Nat} (h : 0 < filesize) : 0 < numLeaves filesize := by
  unfold numLeaves
  by_cases h64 : filesize % 64 ≠ 0
  · simp [h64]
  · simp only [h64, if_false]; omega

/-- the challenged leaf exists: for a non-empty file the index is below the number of leaves -/
theorem c07_leaf_index_in_range (filesize : Nat) (seed : ByteArray) (r : Nat) (hfs : 0 < filesize)
    (h : storageProofLeafIndexOfSeed filesize seed = .ok r) : r < numLeaves filesize := by
  rw [c07_leaf_index_uniform_spec] at h
  have hp := numLeaves_pos hfs
  have hne : numLeaves filesize ≠ 0 := by omega
  simp only [hne, if_false, Except.ok.injEq] at h
  rw [← h]; exact Nat.mod_lt _ hp

example : storageProofLeafIndexOfSeed 18446744073709551615 (Bytes.zeros 32) = .ok 0 := by
  rw [c07_leaf_index_uniform_spec]; congr 1

/-- v2, end to end: for a non-empty file whose committed data has `numLeaves filesize` leaves, if the
verdict accepts a proof for the index the chain challenge derives, the proven leaf IS the leaf of the
committed data at that index -/
theorem c07_challenge_sound_v2 [DecidableEq H] (hinj : HashInj H) (hash : ByteArray → ByteArray)
    (cs : List ByteArray) (fs : Nat) (windowID fcid leaf64 : ByteArray) (proof : List H) (idx : Nat)
    (hfs : 0 < fs) (hlt : fs < 18446744073709551616) (hcs : cs.length = numLeaves fs)
    (hidx : storageProofLeafIndex hash fs windowID fcid = .ok idx)
    (hacc : verifyV2 idx fs leaf64 proof (metaRoot (cs.map (leaf : ByteArray → H))) = true) :
    idx < cs.length ∧ cs[idx]? = some (padLeaf leaf64) := by
  have hr := c07_leaf_index_in_range fs _ idx hfs hidx
  have hl := (lastLeafIndex_eq fs hfs hlt).2
  rw [← hcs] at hr hl
  exact ⟨hr, c07_proof_sound_v2 hinj cs idx fs leaf64 proof hr hfs hl hacc⟩

/-- v1, end to end (any era): acceptance for the chain-derived index means the bytes the era rule
selects from the submitted leaf zero-extend to the leaf of the committed data at that index -/
theorem c07_challenge_sound_v1 [DecidableEq H] (hinj : HashInj H) (hash : ByteArray → ByteArray) (era : Era)
    (cs : List ByteArray) (fs : Nat) (windowID fcid leaf64 : ByteArray) (proof : List H) (idx : Nat)
    (hfs : 0 < fs) (hlt : fs < 18446744073709551616) (hcs : cs.length = numLeaves fs)
    (hidx : storageProofLeafIndex hash fs windowID fcid = .ok idx)
    (hacc : verifyV1 era idx fs leaf64 proof (metaRoot (cs.map (leaf : ByteArray → H))) = true) :
    idx < cs.length ∧ ∃ lf, storageProofLeaf era idx fs leaf64 = some lf ∧ cs[idx]? = some (padLeaf lf) := by
  have hr := c07_leaf_index_in_range fs _ idx hfs hidx
  have hl := (lastLeafIndex_eq fs hfs hlt).2
  rw [← hcs] at hr hl
  exact ⟨hr, c07_v1_sound hinj era cs idx fs leaf64 proof hr hfs hl hacc⟩

end C07
