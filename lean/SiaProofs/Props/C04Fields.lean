/-
# C04 (continued) — the leaf hash commits to every field of the element

For each element kind the accumulator leaf is
`H(0x00 ‖ elemHash ‖ le64 LeafIndex ‖ spent)` with
`elemHash = H("sia/leaf/<kind>|" ‖ encode(ID) ‖ encode(fields…))`
(consensus/merkle.go: the `*Leaf` constructors and `elementLeaf.hash`).

* The constructors are READ OFF THE CODE on every run (`extract/facts_leaf.go` →
  `SiaModel/Gen/FactsLeaf.lean`): distinguisher, `hashAll` argument list, the schema of
  the hashed content (built from the generated codec schemas of the argument types), the
  declared fields of the element struct and the ones the constructor reads.
  `tie_leaf_fields_complete`: every declared field is read — `ID` and the content fields
  by `hashAll`, `StateElement` handed on to `elementLeaf.hash`, which hashes `LeafIndex`
  (its `MerkleProof` and the aliasing flag `shared` are deliberately not part of the leaf).
* `c04_leaf_commits_all_fields`: under collision freedom of the hash (hypotheses, not
  axioms) equal leaf hashes imply equal kind, equal ID and content (as values of the
  generated schema: every field), equal leaf index and equal spent flag. Hence an element
  altered in ANY field, moved, or with the spent bit flipped is a different leaf, and
  `c04_contains_sound` / `c04_rejects_altered` reject it unless that other leaf is itself
  in the forest.

Encoder injectivity is C11's generic `c11_injective` applied to the generated schemas.
-/
import SiaModel.Gen.FactsLeaf
import SiaModel.Ids.Derive
import SiaProofs.Props.C11
import SiaProofs.Props.C04
namespace C04
open Sia.Codec Sia.ElemAcc

/-! ### ties -/

/-- the six constructors, their distinguishers and `hashAll` argument lists -/
theorem tie_leaf_constructors : Gen.FactsLeaf.leafConstructors = [
    ("chainIndexLeaf", "leaf/chainindex", [("e.ID", "enc:types.BlockID"), ("e.ChainIndex", "enc:types.ChainIndex")]),
    ("siacoinLeaf", "leaf/siacoin", [("e.ID", "enc:types.SiacoinOutputID"),
      ("types.V2SiacoinOutput(e.SiacoinOutput)", "enc:types.V2SiacoinOutput"), ("e.MaturityHeight", "u64")]),
    ("siafundLeaf", "leaf/siafund", [("e.ID", "enc:types.SiafundOutputID"),
      ("types.V2SiafundOutput(e.SiafundOutput)", "enc:types.V2SiafundOutput"), ("types.V2Currency(e.ClaimStart)", "enc:types.V2Currency")]),
    ("fileContractLeaf", "leaf/filecontract", [("e.ID", "enc:types.FileContractID"), ("fc", "enc:types.FileContract")]),
    ("v2FileContractLeaf", "leaf/v2filecontract", [("e.ID", "enc:types.FileContractID"), ("fc", "enc:types.V2FileContract")]),
    ("attestationLeaf", "leaf/attestation", [("e.ID", "enc:types.AttestationID"), ("e.Attestation", "enc:types.Attestation")])] := by rfl

/-- **every declared field of every element struct is covered by its constructor**:
    read by a `hashAll` argument (directly, through a conversion, or through the local
    `fc := e.<Contract>`), or — `StateElement` — handed on to `elementLeaf.hash` -/
theorem tie_leaf_fields_complete :
    Gen.FactsLeaf.elementDeclaredFields.map (fun x => (x.1, x.2.2)) = Gen.FactsLeaf.leafCoveredFields := by rfl

/-- element types and their declared fields (a new field breaks this tie until the
    constructor hashes it) -/
theorem tie_element_fields : Gen.FactsLeaf.elementDeclaredFields = [
    ("chainIndexLeaf", "types.ChainIndexElement", ["ID", "StateElement", "ChainIndex"]),
    ("siacoinLeaf", "types.SiacoinElement", ["ID", "StateElement", "SiacoinOutput", "MaturityHeight"]),
    ("siafundLeaf", "types.SiafundElement", ["ID", "StateElement", "SiafundOutput", "ClaimStart"]),
    ("fileContractLeaf", "types.FileContractElement", ["ID", "StateElement", "FileContract"]),
    ("v2FileContractLeaf", "types.V2FileContractElement", ["ID", "StateElement", "V2FileContract"]),
    ("attestationLeaf", "types.AttestationElement", ["ID", "StateElement", "Attestation"])] := by rfl

/-- every constructor returns `elementLeaf{&e.StateElement, elemHash, <spent>}` -/
theorem tie_leaf_returns : Gen.FactsLeaf.leafReturns.map (·.2) =
    [["&e.StateElement", "elemHash", "false"], ["&e.StateElement", "elemHash", "spent"],
     ["&e.StateElement", "elemHash", "spent"], ["&e.StateElement", "elemHash", "spent"],
     ["&e.StateElement", "elemHash", "spent"], ["&e.StateElement", "elemHash", "false"]] := by rfl

/-- the contract constructors hash the revision in place of the element's contract when one is given -/
theorem tie_contract_leaf_bodies :
    Gen.FactsLeaf.leafBodies.lookup "fileContractLeaf" = some ["fc := e.FileContract", "if rev != nil { fc = *rev }",
      "elemHash := hashAll(\"leaf/filecontract\", e.ID, fc)", "return elementLeaf{&e.StateElement, elemHash, spent}"] ∧
    Gen.FactsLeaf.leafBodies.lookup "v2FileContractLeaf" = some ["fc := e.V2FileContract", "if rev != nil { fc = *rev }",
      "elemHash := hashAll(\"leaf/v2filecontract\", e.ID, fc)", "return elementLeaf{&e.StateElement, elemHash, spent}"] := by
  constructor <;> rfl

/-- `elementLeaf.hash`: prefix byte, element hash, little-endian leaf index, spent byte -/
theorem tie_element_leaf_hash :
    Gen.FactsLeaf.elementLeafHashBody = ["buf := make([]byte, 1+32+8+1)", "buf[0] = leafHashPrefix",
      "copy(buf[1:], l.elementHash[:])", "binary.LittleEndian.PutUint64(buf[33:], l.LeafIndex)",
      "if l.spent { buf[41] = 1 }", "return types.HashBytes(buf)"] ∧
    Gen.FactsLeaf.leafHashPrefix = 0 ∧
    Gen.FactsLeaf.elementLeafFields = [("StateElement", "*types.StateElement"), ("elementHash", "types.Hash256"), ("spent", "bool")] ∧
    Gen.FactsLeaf.stateElementFields = [("LeafIndex", "uint64"), ("MerkleProof", "[]types.Hash256"), ("shared", "bool")] := by
  refine ⟨by rfl, by rfl, by rfl, by rfl⟩

/-- the hashed content of every constructor is a well-formed schema (so C11 applies) -/
theorem tie_leaf_schemas_wf : ∀ c ∈ Gen.FactsLeaf.leafSchemas, c.2.2.wf Env.default = true := by decide +kernel

/-! ### the distinguishers separate the kinds -/

open Sia.Ids in
theorem leaf_dists_prefix_free : ∀ a ∈ Gen.FactsLeaf.leafSchemas, ∀ b ∈ Gen.FactsLeaf.leafSchemas,
    a.2.1 ≠ b.2.1 → ¬ (dist a.2.1 <+: dist b.2.1) := by decide

theorem leaf_dists_determine : ∀ a ∈ Gen.FactsLeaf.leafSchemas, ∀ b ∈ Gen.FactsLeaf.leafSchemas,
    a.2.1 = b.2.1 → a = b := by decide

theorem append_ne_of_not_prefix' {a b x y : Bytes} (h1 : ¬ a <+: b) (h2 : ¬ b <+: a) : a ++ x ≠ b ++ y := by
  intro h
  have ha : a <+: (b ++ y) := ⟨x, h⟩
  have hb : b <+: (b ++ y) := List.prefix_append b y
  rcases List.prefix_or_prefix_of_prefix ha hb with h | h
  · exact h1 h
  · exact h2 h

/-! ### the theorem -/

/-- the preimage of the element hash: distinguisher, then ID and content in the constructor's schema -/
def elemPre (c : String × String × Sch) (v : Val) : Bytes := Sia.Ids.dist c.2.1 ++ enc Env.default c.2.2 v

section
variable {H : Type} [Hasher H]

/-- **The leaf hash commits to the kind, the ID, every content field, the leaf index and
    the spent flag.** `P` is the element hash function (`hashAll`'s BLAKE2b) into the hash
    type of the accumulator; `c`, `c'` range over the constructors read off the code and
    `v`, `v'` over the canonical values of their schemas (ID and all fields). -/
theorem c04_leaf_commits_all_fields (P : Bytes → H) (hP : ∀ a b, P a = P b → a = b) (hi : HashInj H)
    (c c' : String × String × Sch) (hc : c ∈ Gen.FactsLeaf.leafSchemas) (hc' : c' ∈ Gen.FactsLeaf.leafSchemas)
    (v v' : Val) (hv : Canon Env.default c.2.2 v) (hv' : Canon Env.default c'.2.2 v')
    (i i' : Nat) (s s' : Bool)
    (h : (Hasher.leaf (P (elemPre c v)) i s : H) = Hasher.leaf (P (elemPre c' v')) i' s') :
    c = c' ∧ v = v' ∧ i = i' ∧ s = s' := by
  obtain ⟨he, hidx, hs⟩ := hi.leaf_inj _ _ _ _ _ _ h
  have hpre := hP _ _ he
  unfold elemPre at hpre
  have hd : c.2.1 = c'.2.1 := by
    rcases Classical.em (c.2.1 = c'.2.1) with e | ne
    · exact e
    · exact absurd hpre (append_ne_of_not_prefix' (leaf_dists_prefix_free c hc c' hc' ne)
        (leaf_dists_prefix_free c' hc' c hc (Ne.symm ne)))
  have hcc := leaf_dists_determine c hc c' hc' hd
  subst hcc
  have henc := List.append_cancel_left hpre
  exact ⟨rfl, C11.c11_injective Env.default_ok c.2.2 (tie_leaf_schemas_wf c hc) v v' hv hv' henc, hidx, hs⟩

/-- Consequence in the form the property states it: an element that differs from the
    genuine one in kind, ID, any content field, leaf index or spent flag has a different
    leaf hash — so by `c04_rejects_altered` it is rejected, with any proof, unless that
    different leaf is itself a leaf of the forest. -/
theorem c04_altered_element_different_leaf (P : Bytes → H) (hP : ∀ a b, P a = P b → a = b) (hi : HashInj H)
    (c c' : String × String × Sch) (hc : c ∈ Gen.FactsLeaf.leafSchemas) (hc' : c' ∈ Gen.FactsLeaf.leafSchemas)
    (v v' : Val) (hv : Canon Env.default c.2.2 v) (hv' : Canon Env.default c'.2.2 v')
    (i i' : Nat) (s s' : Bool) (hne : c ≠ c' ∨ v ≠ v' ∨ i ≠ i' ∨ s ≠ s') :
    (Hasher.leaf (P (elemPre c v)) i s : H) ≠ Hasher.leaf (P (elemPre c' v')) i' s' := by
  intro h
  obtain ⟨a, b, c3, d⟩ := c04_leaf_commits_all_fields P hP hi c c' hc hc' v v' hv hv' i i' s s' h
  rcases hne with h1 | h1 | h1 | h1
  · exact h1 a
  · exact h1 b
  · exact h1 c3
  · exact h1 d

end

/-- the byte layout of `elementLeaf.hash` is injective on (32-byte element hash, uint64
    index, spent flag): with a collision-free byte hash, `Hasher.leaf` is injective as
    `HashInj.leaf_inj` assumes -/
theorem c04_leaf_layout_injective (e e' : Bytes) (i i' : Nat) (s s' : Bool)
    (he : e.length = 32) (he' : e'.length = 32) (hi : i < W64) (hi' : i' < W64)
    (h : (0 : UInt8) :: e ++ u64le i ++ [if s then 1 else 0] = (0 : UInt8) :: e' ++ u64le i' ++ [if s' then 1 else 0]) :
    e = e' ∧ i = i' ∧ s = s' := by
  have h1 : e ++ (u64le i ++ [if s then (1 : UInt8) else 0]) = e' ++ (u64le i' ++ [if s' then (1 : UInt8) else 0]) := by
    simpa [List.append_assoc] using h
  obtain ⟨h2, h3⟩ := List.append_inj h1 (by rw [he, he'])
  have hl : (u64le i).length = (u64le i').length := by simp [u64le, leBytes]
  obtain ⟨h4, h5⟩ := List.append_inj h3 hl
  refine ⟨h2, ?_, ?_⟩
  · have r1 := leVal_leBytes 8 i
    have r2 := leVal_leBytes 8 i'
    unfold u64le at h4
    rw [h4] at r1
    rw [r1] at r2
    have e1 : i % 256 ^ 8 = i := Nat.mod_eq_of_lt (by unfold W64 at hi; omega)
    have e2 : i' % 256 ^ 8 = i' := Nat.mod_eq_of_lt (by unfold W64 at hi'; omega)
    omega
  · cases s <;> cases s' <;> simp at h5 <;> rfl

/-! ### the hypotheses are satisfiable -/

/-- a canonical siacoin element content: ID, (value, address), maturity height -/
def exSiacoin (value height : Nat) : Val :=
  .pair (.bytes (List.replicate 32 7)) (.pair (.pair (.pair (.nat value) (.pair (.nat 0) .unit)) (.pair (.bytes (List.replicate 32 9)) .unit)) (.pair (.nat height) .unit))

example : Canon Env.default Gen.FactsLeaf.leafSchema_siacoinLeaf (exSiacoin 5 144) := by decide
example : ("siacoinLeaf", "leaf/siacoin", Gen.FactsLeaf.leafSchema_siacoinLeaf) ∈ Gen.FactsLeaf.leafSchemas := by decide

/-- two canonical contents differing in one field are different values, so (theorem above)
    their leaves differ under any collision-free hash -/
example : exSiacoin 5 144 ≠ exSiacoin 6 144 := by intro h; simp [exSiacoin] at h
example : Canon Env.default Gen.FactsLeaf.leafSchema_siacoinLeaf (exSiacoin 6 144) := by decide

end C04
