import SiaModel.Ledger.Model
/-!
# C07 — contracts pay out once, totals fixed (ledger part; more in C07Ledger / C07Proof when present)
-/
namespace C07
open Sia.Ledger

/-- An accepted v2 contract (formation or renewal) never promises the host more on a miss than
on success, never locks more collateral than the host output, and can still be proven. -/
theorem c07_v2_contract_wellformed (ms : Mid) (fc : Fc2) (sig : Bool)
    (h : validateContract2 ms fc sig = .ok ()) :
    fc.filesize ≤ fc.capacity ∧ ms.base.child ≤ fc.proofHeight ∧ fc.proofHeight < fc.expHeight ∧
    fc.missedHost ≤ fc.host.value ∧ fc.totalCollateral ≤ fc.host.value ∧ sig = true := by
  unfold validateContract2 at h
  repeat' (first | (split at h <;> try (simp [reject] at h; done)) | skip)
  all_goals (first | (refine ⟨?_, ?_, ?_, ?_, ?_, ?_⟩ <;> first | omega | assumption | simp_all) | simp_all)

end C07
