/-
# C05 (continued) — the node stream of `ForEachTreeNode`

`ApplyUpdate.ForEachTreeNode` (consensus/application.go) hands clients that keep a store of
accumulator nodes the nodes changed by a block. Model: `SiaModel/Merkle/TreeNodes.lean`
(a transliteration: for every element of the update, in diff order, its leaf and — hashing
up along the element's proof — its ancestors, stopping at the first coordinate already
reported), tied to the Go code node for node in call order by the driver op `acc-nodes`.

**Touched leaves.** The elements of the update are ALL its diff entries: every existing
leaf the block rewrites (spent, revised, resolved) and every leaf it adds — created
elements INCLUDING those created and spent within the block, attestations and the chain
index element (`forEachAppliedElement`). `els` below is that list with the proofs the
elements carry after the block.

**Hypothesis (visible in every theorem): `ElemValid ls l`** — each element is a leaf of the
forest `ls` after the block and carries its naive path. `C05.c05_applyBlock_forest`
establishes it for the elements `applyBlock` returns PROVIDED the added leaves were handed
in with EMPTY proofs (`hnp`) and the rewritten ones with their current paths (`UpdOK`).
Core does not enforce the first for an ephemeral parent (created earlier in the same block,
`LeafIndex = UnassignedLeafIndex`): validation never reads its `MerkleProof`,
`spendSiacoinElement` copies the caller's element into the diff and `addLeaves` appends the
real siblings after whatever was there. With junk there the hypothesis fails, and the
theorems below say nothing: the C05E harness reproduces it on ValidateBlock-valid blocks
(roots, leaf count and other elements' proofs unaffected; the created-and-spent element's
own proof and the node stream wrong) and records it as an observation outside the
property's statement.

  c05_foreachtreenode_sound      every reported (row, column, hash) is the naive forest's node,
                                 and lies on the path of a touched leaf
  c05_foreachtreenode_complete   every node on the path (leaf … root of its tree) of every
                                 touched leaf is reported — a client storing the reported
                                 nodes can rebuild the proof of every leaf whose path changed
  c05_foreachtreenode_applyBlock the hypothesis holds for what `applyBlock` returns
  c05_foreachtreenode_block      hence sound + complete for a well-formed block
-/
import SiaProofs.Lemmas.TreeNodes
import SiaProofs.Props.C05
namespace C05
open Sia.ElemAcc

section
variable {H : Type} [Hasher H] [Inhabited H]

/-- **Soundness of the node stream.** Under `ElemValid`, every node `ForEachTreeNode` reports
    has the hash of the naive forest's node at its coordinate (`nodeAt ls row col` = root of the
    subtree of height `row` over leaves `col·2^row …`), and the coordinate is on the path of
    one of the touched leaves (so it is a node of the forest, at most as high as its tree). -/
theorem c05_foreachtreenode_sound (ls : List H) (els : List (Leaf H)) (hv : ∀ l ∈ els, ElemValid ls l) :
    ∀ x ∈ forEachTreeNode els,
      x.2.2 = nodeAt ls x.1 x.2.1 ∧
      ∃ l ∈ els, x.1 ≤ treeHeight ls.length l.index ∧ x.2.1 = l.index / 2 ^ x.1 := by
  intro x hx
  obtain ⟨⟨l, hl, h1, h2⟩, h3⟩ := nodesFrom_sound ls els [] hv x hx
  exact ⟨h3, l, hl, h1, h2⟩

/-- **Completeness of the node stream.** Under `ElemValid`, for every touched leaf — rewritten
    or added, created-and-spent ones included — every node on its path, from the leaf itself
    (row 0) to the root of its tree (row = height of the tree), is reported. Together with
    soundness: the reported nodes contain, with the right hashes, every node whose hash the
    block changed; all other nodes of the forest are unchanged, so a node store updated with
    the stream equals the new forest and yields the proof of every leaf. -/
theorem c05_foreachtreenode_complete (ls : List H) (els : List (Leaf H)) (hv : ∀ l ∈ els, ElemValid ls l) :
    ∀ l ∈ els, ∀ r, r ≤ treeHeight ls.length l.index →
      (r, l.index / 2 ^ r, nodeAt ls r (l.index / 2 ^ r)) ∈ forEachTreeNode els := by
  intro l hl r hr
  have := nodesFrom_complete ls els [] hv (fun x hx => by simp at hx) l hl r hr
  simp only [List.not_mem_nil, or_false, coords, List.mem_map] at this
  obtain ⟨x, hx, hc⟩ := this
  have hs := (c05_foreachtreenode_sound ls els hv x hx).1
  have e1 : x.1 = r := congrArg Prod.fst hc
  have e2 : x.2.1 = l.index / 2 ^ r := congrArg Prod.snd hc
  have : x = (r, l.index / 2 ^ r, nodeAt ls r (l.index / 2 ^ r)) := by
    rcases x with ⟨a, b, c⟩
    simp only at e1 e2 hs
    subst e1 e2 hs; rfl
  rw [← this]; exact hx

/-- the sibling a client needs at level `r` of the proof of a touched leaf is either itself
    on the path of a touched leaf (then reported) or untouched by the block; in both cases the
    path of the leaf is determined by the reported nodes and the old store. Here: the
    reported nodes reproduce the root of every touched tree. -/
theorem c05_foreachtreenode_roots (ls : List H) (els : List (Leaf H)) (hv : ∀ l ∈ els, ElemValid ls l) :
    ∀ l ∈ els, ∃ x ∈ forEachTreeNode els, x.1 = treeHeight ls.length l.index ∧
      x.2.2 = subRoot ls (treeHeight ls.length l.index) (treeStart ls.length (treeHeight ls.length l.index)) := by
  intro l hl
  have v := hv l hl
  obtain ⟨hbit, hlo, hhi⟩ := treeHeight_spec v.lt
  refine ⟨_, c05_foreachtreenode_complete ls els hv l hl _ (Nat.le_refl _), rfl, ?_⟩
  simp only [nodeAt]
  rw [anc_eq (dvd_of_dvd_succ (treeStart_dvd _ _)) hlo hhi]

/-- **The hypothesis holds for what `applyBlock` returns** (rewritten leaves as stored in the
    update, added leaves as returned), when the block is well formed: rewritten leaves are
    distinct existing positions with their current paths, added leaves come with EMPTY
    proofs. -/
theorem c05_foreachtreenode_applyBlock (acc : Acc H) (ls : List H) (hacc : acc.toForest = forestOf ls)
    (updated : List (Leaf H)) (ok : UpdOK ls updated)
    (added : List (Leaf H)) (hnp : ∀ l ∈ added, l.proof = [])
    (hsz : ls.length + added.length ≤ unassignedLeafIndex) :
    let ls2 := writeLeaves ls updated ++ hashesFrom ls.length added
    ∃ (acc' : Acc H) (u : ApplyUpdate H) (added' : List (Leaf H)), acc.applyBlock updated added = .ok (acc', u, added') ∧
      (∀ h, ∀ l ∈ u.updated h, ElemValid ls2 l) ∧
      (∀ l ∈ added', ElemValid ls2 l) := by
  intro ls2
  obtain ⟨acc', u, added', h1, _, _, _, h5, h6, h7, _⟩ := applyBlock_spec acc ls hacc updated ok added hnp hsz
  have hlen2 : ls2.length = ls.length + added.length := by
    show (writeLeaves ls updated ++ hashesFrom ls.length added).length = _
    rw [List.length_append, writeLeaves_length, hashesFrom_length]
  refine ⟨acc', u, added', h1, ?_, ?_⟩
  · intro h l hl
    obtain ⟨l0, hl0, _, rfl⟩ := (h7 h l).1 hl
    have hlt := ok.lt l0 hl0
    refine ⟨by show l0.index < ls2.length; omega, rfl, ?_⟩
    show ls2.getD l0.index default = l0.hash
    have : ls2.getD l0.index default = (writeLeaves ls updated).getD l0.index default := by
      show (writeLeaves ls updated ++ hashesFrom ls.length added).getD l0.index default = _
      simp [List.getD, List.getElem?_append_left (show l0.index < (writeLeaves ls updated).length by rw [writeLeaves_length]; exact hlt)]
    rw [this]
    exact writeLeaves_get_mem updated ls ok.nodup l0 hl0 hlt
  · intro l hl
    obtain ⟨j, hj', hl⟩ := List.mem_iff_getElem.1 hl
    have hl : added'[j]? = some l := by rw [List.getElem?_eq_getElem hj', hl]
    obtain ⟨a1, a2, l0, b1, b2, b3⟩ := h6 j l hl
    have hj : j < added.length := by rw [← h5]; exact hj'
    refine ⟨by rw [a1, hlen2]; omega, by rw [a2, a1], ?_⟩
    have : ls2[ls.length + j]? = some (Hasher.leaf l0.elem (ls.length + j) l0.spent) := by
      show (writeLeaves ls updated ++ hashesFrom ls.length added)[ls.length + j]? = _
      rw [List.getElem?_append_right (by rw [writeLeaves_length]; omega), writeLeaves_length,
        Nat.add_sub_cancel_left, hashesFrom_get, b1]; rfl
    rw [a1]; simp only [List.getD, this, Option.getD_some, Leaf.hash, a1, b2, b3]

/-- **The stream of a well-formed block**: for the elements `applyBlock` returns, in any order
    (`els` is any list of rewritten leaves as stored in the update and of added leaves as
    returned), the stream is sound and complete for the forest after the block. -/
theorem c05_foreachtreenode_block (acc : Acc H) (ls : List H) (hacc : acc.toForest = forestOf ls)
    (updated : List (Leaf H)) (ok : UpdOK ls updated)
    (added : List (Leaf H)) (hnp : ∀ l ∈ added, l.proof = [])
    (hsz : ls.length + added.length ≤ unassignedLeafIndex) :
    let ls2 := writeLeaves ls updated ++ hashesFrom ls.length added
    ∃ (acc' : Acc H) (u : ApplyUpdate H) (added' : List (Leaf H)), acc.applyBlock updated added = .ok (acc', u, added') ∧
      acc'.toForest = forestOf ls2 ∧
      ∀ els : List (Leaf H), (∀ l ∈ els, (∃ h, l ∈ u.updated h) ∨ l ∈ added') →
        (∀ x ∈ forEachTreeNode els, x.2.2 = nodeAt ls2 x.1 x.2.1) ∧
        (∀ l ∈ els, ∀ r, r ≤ treeHeight ls2.length l.index →
          (r, l.index / 2 ^ r, nodeAt ls2 r (l.index / 2 ^ r)) ∈ forEachTreeNode els) := by
  intro ls2
  obtain ⟨acc', u, added', h1, h2, h3⟩ := c05_foreachtreenode_applyBlock acc ls hacc updated ok added hnp hsz
  obtain ⟨acc2, u2, added2, g1, g2, _⟩ := applyBlock_spec acc ls hacc updated ok added hnp hsz
  rw [h1] at g1
  injection g1 with g1
  obtain ⟨rfl, rfl, rfl⟩ : acc' = acc2 ∧ u = u2 ∧ added' = added2 := by
    simp only [Prod.mk.injEq] at g1; exact g1
  refine ⟨acc', u, added', h1, g2, ?_⟩
  intro els hels
  have hv : ∀ l ∈ els, ElemValid ls2 l := by
    intro l hl
    rcases hels l hl with ⟨h, hh⟩ | hh
    · exact h2 h l hh
    · exact h3 l hh
  exact ⟨fun x hx => (c05_foreachtreenode_sound ls2 els hv x hx).1, c05_foreachtreenode_complete ls2 els hv⟩

end

/-! ### non-vacuity: the three-leaf forest of C05, one leaf rewritten -/

/-- leaf 1 (spent by the block) with its path in the rewritten forest -/
def exNodesLs : List T := writeLeaves ls3 [{ elem := .atom 11, spent := true, index := 1, proof := path ls3 1 }]
def exNodesEl : Leaf T := { elem := .atom 11, spent := true, index := 1, proof := path exNodesLs 1 }

example : ElemValid exNodesLs exNodesEl := ⟨by decide, rfl, by decide⟩
/-- the stream for that single touched leaf: the leaf, its parent, and nothing else (the tree
    of leaves 0,1 has height 1) -/
example : (forEachTreeNode [exNodesEl]).map (fun x => (x.1, x.2.1)) = [(0, 1), (1, 0)] := by decide

end C05
