import Mathlib.Data.Finset.Card
import Mathlib.Data.Finset.Range
import SiaProofs.Props.C17Revise
/-!
# C17 — why `fc.Filesize -= SectorSize * deletions` cannot wrap

`RPCFreeSectorsRequest.Validate` (rhp/v4/validation.go) accepts an index list only if
every index is below `fc.Filesize / SectorSize` and no index repeats.  By counting, the
number of deletions is then at most the sector count, which is the hypothesis `hn` of
`c17_revise_free`.
-/
namespace C17

theorem nodup_length_le (l : List Nat) (m : Nat) (hnd : l.Nodup) (hlt : ∀ i ∈ l, i < m) : l.length ≤ m := by
  have h1 : l.toFinset.card = l.length := List.toFinset_card_of_nodup hnd
  have h2 : l.toFinset ⊆ Finset.range m := by
    intro x hx
    rw [List.mem_toFinset] at hx
    exact Finset.mem_range.mpr (hlt x hx)
  have h3 := Finset.card_le_card h2
  rw [Finset.card_range] at h3
  omega

/-- **No wrap-around in `ReviseForFreeSectors`** for requests that pass `Validate`:
distinct indices, each below the contract's sector count. -/
theorem c17_free_no_wrap (filesize : Nat) (indices : List Nat)
    (hnd : indices.Nodup) (hlt : ∀ i ∈ indices, i < filesize / 4194304) :
    4194304 * indices.length ≤ filesize := by
  have := nodup_length_le indices _ hnd hlt
  have := Nat.div_mul_le_self filesize 4194304
  omega

example : 4194304 * [2, 0, 1].length ≤ 3 * 4194304 + 17 :=
  c17_free_no_wrap _ _ (by decide) (by decide)

end C17
