import SiaProofs.Props.C13
import SiaProofs.Lemmas.PowTotal
/-!
# C13, totality: applying a header that extends the tip never panics

`Margin` is the explicit "the work actually performed is far below 2^256" side condition
of one step. It is NOT preserved by the step (difficulty may grow 0.4% per block forever in
principle), so it is assumed for every state of a chain; it holds with a margin of more
than 2^50 for every proof-of-work chain that can physically exist (difficulty < 2^200,
cumulative work < 2^255, targets ≥ 2^32, fewer than 2^64-2 blocks).
-/
namespace C13
open Sia.Pow

def Margin (n : Network) (s : PowState) : Prop :=
  s.height ≠ 18446744073709551614 ∧
  (s.childHeight < n.v2AllowHeight →
     4294967296 ≤ s.depth ∧ 4294967296 ≤ s.childTarget ∧ 4294967296 ≤ s.oakTarget) ∧
  (n.v2AllowHeight ≤ s.childHeight →
     s.totalWork < W255 ∧
     s.difficulty < 1606938044258990275541962092341162602522202993782792835301376 ∧
     s.oakWork < 1606938044258990275541962092341162602522202993782792835301376)

theorem updateOakTime_range {n : Network} (s : PowState) (a b : Int)
    (h0 : -9223372036854775808 ≤ n.asicOakTime) (h1 : n.asicOakTime < 9223372036854775808) :
    -9223372036854775808 ≤ updateOakTime n s a b ∧ updateOakTime n s a b < 9223372036854775808 := by
  unfold updateOakTime
  split
  · exact ⟨h0, h1⟩
  · dsimp only
    generalize i64mul (i64div (i64mul (i64div _ SECOND) 995) 1000) SECOND = x
    unfold i64add wrap64
    omega

theorem updateOakWork_lt {n : Network} {s : PowState} {ow ot : Nat}
    (_hot : s.oakTarget < W256) (hct : s.childTarget < W256) (hasic : n.asicOakTarget < W256)
    (h : updateOakWork n s = .ok (ow, ot)) : ow < W256 ∧ ot < W256 := by
  unfold updateOakWork at h
  split at h
  · simp only [bind_eq_ok, invTarget_eq_ok, pure_eq_ok, Prod.mk.injEq] at h
    obtain ⟨t, h1, w, ⟨h2, rfl⟩, rfl, rfl⟩ := h
    have ht : t < W256 := by
      unfold updateOakTarget at h1
      split at h1
      · simp only [Except.ok.injEq] at h1; omega
      · simp only [bind_eq_ok] at h1
        obtain ⟨x, hx, h1⟩ := h1
        have := addTarget_inv (mulTargetFrac_lt hx) hct h1
        omega
    exact ⟨by have := Nat.div_le_self MAXT t; omega, ht⟩
  · simp only [bind_eq_ok, invTarget_eq_ok, wadd_eq_ok, pure_eq_ok, Prod.mk.injEq] at h
    obtain ⟨_, _, _, _, w, ⟨hw, rfl⟩, t, ⟨_, rfl⟩, rfl, rfl⟩ := h
    exact ⟨hw, Nat.lt_of_le_of_lt (Nat.div_le_self _ _) (by omega)⟩

/-- **No panic.** On a well-formed network, from a state satisfying the invariant and the
    work margin, applying any header that extends the tip (whatever its timestamp — in
    particular every timestamp sequence the median-time rule permits: constant,
    decreasing within the rule, far future) succeeds. -/
theorem c13_apply_header_no_panic {n : Network} {s : PowState} {h : Header} (tt : Int)
    (hwf : n.WF) (hinv : PowInv n s) (hm : Margin n s) (hpar : h.parentID = s.id) :
    ∃ s', applyHeader n s h tt = .ok s' := by
  obtain ⟨hh, hlen, hdp, hct, hot, htw, hd, how, ht0, ht1, hd1, hid, hctnz, hpre⟩ := hinv
  obtain ⟨w1, w2, w3, w4, w5, w6, w7, w8, w9, w10, hAF, hF⟩ := hwf
  obtain ⟨m0, m1, m2⟩ := hm
  have hoak : ∃ r, updateOakWork n s = .ok r :=
    updateOakWork_total hot hct hd1 (by omega)
      (fun c => by have := m1 c; omega) (fun c => by have := m2 c; omega)
  unfold applyHeader
  rw [if_neg (by intro c; exact c.2 hpar.symm)]
  by_cases hp : h.parentID = 0
  · rw [if_pos hp]
    obtain ⟨⟨ow, ot⟩, e⟩ := hoak
    rw [e]
    simp only [pure, Except.pure, bind, Except.bind]
    split <;> exact ⟨_, rfl⟩
  · rw [if_neg hp]
    have hne : s.height ≠ GEN := fun e => hp (by rw [hpar]; exact hid.2 e)
    have hch0 : s.childHeight ≠ 0 := by unfold PowState.childHeight; omega
    obtain ⟨⟨tw, dp⟩, e1⟩ := updateTotalWork_total (n := n) hdp hct hd1
      (fun c => by have := m1 c; omega) (fun c => by have := m2 c; omega)
    obtain ⟨⟨d, ct⟩, e2⟩ := adjustDifficulty_total (n := n) (s := s) h.timestamp tt w1 w2 w3 hch0 ht0 ht1 hd1
      (fun c => by have := m1 c; omega) (fun c => by have := m2 c; omega)
    obtain ⟨⟨ow, ot⟩, e3⟩ := hoak
    rw [e1, e2, e3]
    simp only [pure, Except.pure, bind, Except.bind]
    split <;> exact ⟨_, rfl⟩


theorem length_shift (t : Int) (l : List Int) (h : l.length = 11) : (t :: l.take 10).length = 11 := by
  simp [List.length_take, h]

theorem powinv_preserved_genesis {n : Network} {s s' : PowState} {h : Header} {tt : Int}
    (hwf : n.WF) (hinv : PowInv n s) (hpar : h.parentID = s.id) (hidnz : h.id ≠ 0)
    (hlen : s.height ≠ 18446744073709551614) (hp : h.parentID = 0)
    (hok : applyHeader n s h tt = .ok s') : PowInv n s' := by
  obtain ⟨hD1, hDlt, -⟩ := c13_never_zero hwf hinv hpar hlen hok
  obtain ⟨hh, hlen11, hdp, hct, hot, htw, hd, how, -, -, -, hid, hctnz, hpre⟩ := hinv
  obtain ⟨-, -, -, -, -, -, wA, -, wT0, wT1, hAF, hF⟩ := hwf
  obtain ⟨ow, ot, h3, hT, hD, hO, hOT, hH, hI, hP, hz⟩ := applyHeader_inv_genesis hp hok
  have hgen : s.height = GEN := hid.1 (by omega)
  have hch : s.childHeight = 0 := by unfold PowState.childHeight; omega
  obtain ⟨owlt, otlt⟩ := updateOakWork_lt hot hct wA h3
  obtain ⟨c1, -⟩ := updateOakWork_inv h3
  have hch' : s'.childHeight = 1 := by unfold PowState.childHeight; omega
  have hOTr := updateOakTime_range (n := n) s h.timestamp h.timestamp wT0 wT1
  clear hok h3 wT0 wT1 wA
  refine ⟨by omega, by rw [hP]; exact length_shift _ _ hlen11, ?_, ?_, ?_, by omega, hDlt, by omega,
    by omega, by omega, hD1, by omega, ?_, ?_⟩
  · split at hz <;> omega
  · split at hz <;> omega
  · split at hz <;> omega
  · intro _
    split at hz
    · omega
    · rw [hz.2.1]; exact hctnz (Or.inl hgen)
  · intro hlt
    have h0 : s.childHeight < n.v2AllowHeight := by omega
    obtain ⟨p1, p2, p3, p4⟩ := hpre h0
    have hnf : ¬ (0 ≥ n.v2FinalCutHeight) := by omega
    rw [if_neg hnf] at hz
    obtain ⟨z1, z2, z3⟩ := hz
    have := (c1 h0).1
    refine ⟨by omega, by omega, by rw [hD, z2]; exact p3, by rw [hT, z1]; exact p4⟩

theorem powinv_preserved_step {n : Network} {s s' : PowState} {h : Header} {tt : Int}
    (hwf : n.WF) (hinv : PowInv n s) (hpar : h.parentID = s.id) (hidnz : h.id ≠ 0)
    (hlen : s.height ≠ 18446744073709551614) (hp : h.parentID ≠ 0)
    (hok : applyHeader n s h tt = .ok s') : PowInv n s' := by
  obtain ⟨hD1, hDlt, -⟩ := c13_never_zero hwf hinv hpar hlen hok
  have hinvT := (c13_target_difficulty_inverse hwf hinv hpar hp hlen hok).1
  obtain ⟨hh, hlen11, hdp, hct, hot, htw, hd, how, -, -, -, hid, -, -⟩ := hinv
  obtain ⟨-, -, -, -, -, -, wA, -, wT0, wT1, hAF, hF⟩ := hwf
  obtain ⟨tw, dp, d, ct, ow, ot, h1, h2, h3, hT, hD, hO, hOT, hH, hI, hP, hz⟩ := applyHeader_inv hp hok
  have hne : s.height ≠ GEN := fun e => hp (by rw [hpar]; exact hid.2 e)
  have hch : s.childHeight = s.height + 1 := by unfold PowState.childHeight; omega
  have hch' : s'.childHeight = s.height + 2 := by unfold PowState.childHeight; omega
  obtain ⟨owlt, otlt⟩ := updateOakWork_lt hot hct wA h3
  obtain ⟨b1, b2⟩ := updateTotalWork_inv hdp hct h1
  obtain ⟨a1, a2, a3⟩ := adjustDifficulty_inv h2
  have hOTr := updateOakTime_range (n := n) s h.timestamp (s.prevTimestamps.headD ZEROTIME) wT0 wT1
  have hdp' : dp < W256 ∧ tw < W256 := by
    by_cases e1 : s.childHeight < n.v2AllowHeight
    · obtain ⟨-, -, c, rfl⟩ := b1 e1
      exact ⟨c, Nat.lt_of_le_of_lt (Nat.div_le_self _ _) (by omega)⟩
    · obtain ⟨-, c, -, rfl⟩ := b2 (by omega)
      exact ⟨Nat.lt_of_le_of_lt (Nat.div_le_self _ _) (by omega), c⟩
  have hct' : ct < W256 ∧ (s.childHeight < n.v2FinalCutHeight → ct ≠ 0) := by
    by_cases e1 : s.childHeight < n.v2AllowHeight
    · obtain ⟨c1, c2, -⟩ := a1 e1
      exact ⟨adjustTarget_lt hct c1, fun _ => c2⟩
    · by_cases e2 : s.childHeight < n.v2FinalCutHeight
      · obtain ⟨-, c2, rfl⟩ := a2 (by omega) e2
        exact ⟨Nat.lt_of_le_of_lt (Nat.div_le_self _ _) (by omega),
          fun _ => div_pos_of_lt c2 (by omega)⟩
      · obtain ⟨-, c2, rfl⟩ := a3 (by omega) (by omega)
        exact ⟨Nat.lt_of_le_of_lt (Nat.div_le_self _ _) (by omega), fun c => absurd c e2⟩
  clear hok h1 h2 h3 a1 a2 a3 b1 b2 wT0 wT1 wA hdp hct hot how htw hd
  refine ⟨by omega, by rw [hP]; exact length_shift _ _ hlen11, ?_, ?_, ?_, by omega, hDlt, by omega,
    by omega, by omega, hD1, by omega, ?_, ?_⟩
  · split at hz <;> omega
  · split at hz <;> omega
  · split at hz <;> omega
  · intro hc
    have hnf : ¬ ((s.height + 1) % 18446744073709551616 ≥ n.v2FinalCutHeight) := by omega
    rw [if_neg hnf] at hz
    rw [hz.2.1]
    exact hct'.2 (by omega)
  · intro hlt
    have h0 : s.childHeight < n.v2AllowHeight := by omega
    obtain ⟨q1, q2, q3, q4, q5, -, -⟩ := hinvT h0
    exact ⟨q3, q5, q2, q4⟩

/-- The invariant is preserved by every successful `applyHeader` (header IDs are non-zero:
    hash assumption; the chain is shorter than 2^64-2 blocks). -/
theorem c13_powinv_preserved {n : Network} {s s' : PowState} {h : Header} {tt : Int}
    (hwf : n.WF) (hinv : PowInv n s) (hpar : h.parentID = s.id) (hidnz : h.id ≠ 0)
    (hlen : s.height ≠ 18446744073709551614)
    (hok : applyHeader n s h tt = .ok s') : PowInv n s' := by
  by_cases hp : h.parentID = 0
  · exact powinv_preserved_genesis hwf hinv hpar hidnz hlen hp hok
  · exact powinv_preserved_step hwf hinv hpar hidnz hlen hp hok

/-- **Totality** (the plan's `c13_apply_header_total`): no panic, and the invariant holds
    again, so by induction along any chain whose states stay inside the work margin. -/
theorem c13_apply_header_total {n : Network} {s : PowState} {h : Header} (tt : Int)
    (hwf : n.WF) (hinv : PowInv n s) (hm : Margin n s) (hpar : h.parentID = s.id) (hidnz : h.id ≠ 0) :
    ∃ s', applyHeader n s h tt = .ok s' ∧ PowInv n s' := by
  obtain ⟨s', hok⟩ := c13_apply_header_no_panic tt hwf hinv hm hpar
  exact ⟨s', hok, c13_powinv_preserved hwf hinv hpar hidnz hm.1 hok⟩

/-- The genesis state of a well-formed network satisfies the invariant. -/
theorem c13_genesis_inv {n : Network} (hwf : n.WF) :
    ∃ g, genesisState n = .ok g ∧ PowInv n g := by
  obtain ⟨-, -, -, i0, i1, -, -, -, -, -, -, -⟩ := hwf
  unfold genesisState
  have e1 : intToTarget (Int.ofNat MAXT) = MAXT := by decide
  rw [e1, invTarget_ok_of_ne (by omega), ok_bind, invTarget_ok_of_ne (by omega), ok_bind]
  refine ⟨_, rfl, ?_⟩
  unfold PowInv PowState.childHeight
  dsimp only
  have d1 : 1 ≤ MAXT / n.initialTarget := (Nat.le_div_iff_mul_le (by omega)).2 (by omega)
  have d2 : MAXT / n.initialTarget ≤ MAXT := Nat.div_le_self _ _
  refine ⟨by omega, by simp, by omega, i1, by omega, by decide, by omega, by decide, by omega, by omega,
    d1, by simp, fun _ => by omega, fun _ => ⟨by omega, by omega, rfl, by decide⟩⟩


/-! ## How fast the margin can be consumed (v2 eras) -/

/-- Under v2 rules one header raises the difficulty by at most `max(D/250, 1)`, adds exactly
    the old difficulty to the cumulative work, and raises the decayed work sum by at most the
    old difficulty. So from difficulty `D₀` it takes more than `250·ln(2^200/D₀)` blocks to
    leave the `Margin` — every one of them mined at that difficulty. -/
theorem c13_margin_growth_v2 {n : Network} {s s' : PowState} {h : Header} {tt : Int}
    (hinv : PowInv n s) (hp : h.parentID ≠ 0) (hv2 : n.v2AllowHeight ≤ s.childHeight)
    (hok : applyHeader n s h tt = .ok s') :
    s'.difficulty ≤ s.difficulty + max (s.difficulty / 250) 1 ∧
    s'.totalWork = s.totalWork + s.difficulty ∧
    s'.oakWork ≤ s.oakWork + s.difficulty := by
  obtain ⟨-, -, hdp, hct, -, -, -, -, -, -, -, -, -, -⟩ := hinv
  obtain ⟨tw, dp, d, ct, ow, ot, h1, h2, h3, hT, hD, hO, -, -, -, -, -⟩ := applyHeader_inv hp hok
  obtain ⟨-, b2⟩ := updateTotalWork_inv hdp hct h1
  obtain ⟨-, a2, a3⟩ := adjustDifficulty_inv h2
  refine ⟨?_, by rw [hT]; exact (b2 hv2).1, ?_⟩
  · rw [hD]
    by_cases e2 : s.childHeight < n.v2FinalCutHeight
    · have := (c13_clamp_v2 n s h.timestamp d (a2 hv2 e2).1).2
      omega
    · have := (c13_clamp_finalcut n s h.timestamp d (a3 hv2 (by omega)).1).2.1
      omega
  · rw [hO]
    unfold updateOakWork at h3
    rw [if_neg (by omega)] at h3
    simp only [bind_eq_ok, wdiv64_eq_ok, wsub_eq_ok, wadd_eq_ok, invTarget_eq_ok, pure_eq_ok, Prod.mk.injEq] at h3
    obtain ⟨q, ⟨-, rfl⟩, a, ⟨-, rfl⟩, w, ⟨-, rfl⟩, t, -, rfl, -⟩ := h3
    omega

/-! ## Whole chains, by induction -/

/-- apply a list of (header, ancestor timestamp) pairs in order -/
def applyChain (n : Network) (s : PowState) : List (Header × Int) → Except String PowState
  | [] => .ok s
  | (h, tt) :: rest => applyHeader n s h tt >>= fun s' => applyChain n s' rest

/-- every header extends the tip reached so far (the first condition of `ValidateHeader`),
    has a non-zero ID, and every state reached stays inside the work margin; the timestamps
    are completely unconstrained -/
def ChainOk (n : Network) (s : PowState) : List (Header × Int) → Prop
  | [] => True
  | (h, tt) :: rest => h.parentID = s.id ∧ h.id ≠ 0 ∧ Margin n s ∧
      ∀ s', applyHeader n s h tt = .ok s' → ChainOk n s' rest

/-- **Applying headers never fails**, for chains of any length and any timestamps. -/
theorem c13_chain_total {n : Network} (hwf : n.WF) (hs : List (Header × Int)) :
    ∀ s, PowInv n s → ChainOk n s hs → ∃ s', applyChain n s hs = .ok s' ∧ PowInv n s' := by
  induction hs with
  | nil => intro s hinv _; exact ⟨s, rfl, hinv⟩
  | cons x rest ih =>
    intro s hinv hc
    obtain ⟨h, tt⟩ := x
    obtain ⟨hpar, hid, hm, hrest⟩ := hc
    obtain ⟨s1, hok, hinv1⟩ := c13_apply_header_total tt hwf hinv hm hpar hid
    obtain ⟨s', h', hinv'⟩ := ih s1 hinv1 (hrest s1 hok)
    refine ⟨s', ?_, hinv'⟩
    show (applyHeader n s h tt >>= fun s' => applyChain n s' rest) = .ok s'
    rw [hok]; exact h'

/-! ## Satisfiability: every hypothesis above holds on concrete, non-trivial instances -/

example : testnet.WF := by decide
example : mainnetLike.WF := by decide
/-- a network outside `NetworkWF` (candidate F5 of the design: sub-second interval with a
    pre-Oak retarget in reach) is rejected by the predicate -/
example : ¬ ({ testnet with oakHeight := 600 } : Network).WF := by decide

/-- a mainnet-like state in the v2 era -/
def exV2 : PowState :=
  { height := 530000, id := 12345, prevTimestamps := List.replicate 11 1751800000,
    depth := MAXT / 4000000000000000000000000, childTarget := MAXT / 18000000000000000000,
    oakTime := 119000 * 1000000000, oakTarget := MAXT / 3600000000000000000000,
    totalWork := 4000000000000000000000000, difficulty := 18000000000000000000,
    oakWork := 3600000000000000000000 }
/-- … after the final cut (deprecated fields zeroed) -/
def exFC : PowState := { exV2 with height := 560000, depth := 0, childTarget := 0, oakTarget := 0 }
/-- … in the Oak era, and before Oak on a retarget height (childHeight = 1000) -/
def exOak : PowState := { exV2 with height := 200000, totalWork := MAXT / exV2.depth, difficulty := MAXT / exV2.childTarget }
def exPre : PowState := { exOak with height := 999 }
def exHdr : Header := { parentID := 12345, timestamp := 1751800700, nonce := 1009, id := 999 }

example : PowInv mainnetLike exV2 ∧ Margin mainnetLike exV2 := ⟨by unfold PowInv; decide, by unfold Margin; decide⟩
example : PowInv mainnetLike exFC ∧ Margin mainnetLike exFC := ⟨by unfold PowInv; decide, by unfold Margin; decide⟩
example : PowInv mainnetLike exOak ∧ Margin mainnetLike exOak := ⟨by unfold PowInv; decide, by unfold Margin; decide⟩
example : PowInv mainnetLike exPre ∧ Margin mainnetLike exPre := ⟨by unfold PowInv; decide, by unfold Margin; decide⟩

/-- `c13_apply_header_total` applies in each era -/
example : ∃ s', applyHeader mainnetLike exV2 exHdr 0 = .ok s' ∧ PowInv mainnetLike s' :=
  c13_apply_header_total 0 (by decide) (by unfold PowInv; decide) (by unfold Margin; decide) rfl (by decide)
example : ∃ s', applyHeader mainnetLike exFC exHdr 0 = .ok s' ∧ PowInv mainnetLike s' :=
  c13_apply_header_total 0 (by decide) (by unfold PowInv; decide) (by unfold Margin; decide) rfl (by decide)
example : ∃ s', applyHeader mainnetLike exOak exHdr 0 = .ok s' ∧ PowInv mainnetLike s' :=
  c13_apply_header_total 0 (by decide) (by unfold PowInv; decide) (by unfold Margin; decide) rfl (by decide)
example : ∃ s', applyHeader mainnetLike exPre exHdr 1751000000 = .ok s' ∧ PowInv mainnetLike s' :=
  c13_apply_header_total _ (by decide) (by unfold PowInv; decide) (by unfold Margin; decide) rfl (by decide)

/-- the clamps are hit (`c13_clamp_v2`, `c13_clamp_finalcut`, `c13_clamp_oak`): on schedule → +0.4%,
    far behind schedule → −0.4% -/
example : adjustDifficultyV2 mainnetLike exV2 1751800000 = .ok (18000000000000000000 + 18000000000000000000 / 250) := by rfl
example : adjustDifficultyFinalCut mainnetLike exFC 1769800600 = .ok (18000000000000000000 - 18000000000000000000 / 250) := by rfl
set_option maxRecDepth 100000 in
example : adjustTarget mainnetLike exOak 1751800600 0 = .ok (exOak.childTarget * 1004 / 1000) := by rfl

/-- `c13_median` / `c13_validate_header_iff`: a median exists on every non-genesis state -/
example : ∃ m, medianTimestamp exV2 = .ok m := by
  obtain ⟨l, -, -, -, h⟩ := c13_median (s := exV2) (by decide) (by decide)
  exact ⟨_, h⟩

end C13
