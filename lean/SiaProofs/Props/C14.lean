import SiaModel.Policy.Verify
import SiaModel.Policy.Meaning
import SiaModel.Policy.Address
import SiaModel.Policy.Codec
import SiaModel.Policy.Txn
import SiaModel.Gen.FactsPolicy
import SiaProofs.Lemmas.PolicyLimits
import SiaProofs.Lemmas.PolicyWitness
import SiaProofs.Lemmas.PolicyAddress
import SiaProofs.Lemmas.PolicyMerkle
/-!
# C14 — Spend policy verification matches the policy's meaning and address commitment

* `Sia.Policy.verify` (SiaModel/Policy/Verify.lean) mirrors `SpendPolicy.Verify`
  (types/policy.go) statement by statement; it is tied to the Go code by the
  correspondence harness and the `tie_*` facts below.
* `Sia.Policy.Sat` (SiaModel/Policy/Meaning.lean) is the meaning of a policy, written from
  the property text.
* Signature validity (`E.verifySig`), SHA-256 (`E.sha`) and the address hash (`H`) are
  arbitrary functions: no theorem here needs a cryptographic hypothesis.
-/
namespace C14
open Sia Sia.Policy

/-! ## The verifier computes the meaning -/

/-- **Main theorem.** `Verify` accepts exactly when the policy's meaning holds with nothing
    left over and the policy is within the complexity limits (at most `maxPolicies`
    sub-policies, at most `maxChildren` children per threshold).
    `SaneTimes`: every timestamp is within ±2^62 s, where Go's `time.Time` does not wrap. -/
theorem c14_verify_iff_meaning (E : Env) (p : Policy) (sigs pres : List ByteArray)
    (hT : SaneTimes E p.leaves) :
    verify E p sigs pres = .ok () ↔
      (Sat E p sigs pres [] [] ∧ p.subCount ≤ maxPolicies ∧ p.breadthLe maxChildren = true) := by
  unfold verify
  constructor
  · intro h
    cases hv : verifyP E p ⟨sigs, pres, 0⟩ with
    | error e => rw [hv] at h; simp at h
    | ok st =>
      rw [hv] at h
      obtain ⟨l1, l2, l3⟩ := verifyP_limits E p _ st (Nat.zero_le _) hv
      simp only [Nat.zero_add] at l1
      have hs : st.sigs = [] := by
        by_cases h' : st.sigs = []
        · exact h'
        · simp [h'] at h
      have hp : st.pres = [] := by
        by_cases h' : st.pres = []
        · exact h'
        · simp [hs, h'] at h
      have := (verifyP_iff E p _ st hT l3 (by simp; omega)).1 hv
      simp only [hs, hp] at this
      exact ⟨this.1, by omega, l3⟩
  · rintro ⟨hS, hn, hb⟩
    have := (verifyP_iff E p ⟨sigs, pres, 0⟩ ⟨[], [], 0 + p.subCount⟩ hT hb (by simp; omega)).2 ⟨hS, rfl⟩
    rw [this]; simp

/-- the hypotheses of the main theorem are satisfiable by a non-trivial instance:
    a 1-of-2 threshold (one branch revealed, the other opaque) accepted with one signature -/
example :
    let E : Env := { height := 10, median := 100, sigHash := ⟨#[7]⟩,
                     verifySig := fun k _ s => k == s, sha := id }
    let p := Policy.thresh 1 [.pk ⟨#[1]⟩, .opaque ⟨#[9]⟩]
    SaneTimes E p.leaves ∧ verify E p [⟨#[1]⟩] [] = .ok () := by
  refine ⟨⟨by unfold InRange; decide, ?_⟩, by rfl⟩
  intro t ht; simp [Policy.leaves, leavesList] at ht

/-! ## Locks -/

/-- height lock: `above h` holds exactly from height `h` on (inclusive);
    time lock: `after t` holds exactly when the median timestamp is strictly later than `t`. -/
theorem c14_locks (E : Env) :
    (∀ h, verify E (.above h) [] [] = .ok () ↔ h ≤ E.height) ∧
    (∀ t, InRange E.median → InRange t → (verify E (.after t) [] [] = .ok () ↔ t < E.median)) := by
  constructor
  · intro h
    simp only [verify, verifyP, ge_iff_le]
    by_cases hh : h ≤ E.height <;> simp [hh]
  · intro t hm ht
    have := timeAfter_iff hm ht
    simp only [verify, verifyP]
    by_cases hh : timeAfter E.median t = true
    · simp [hh, this.1 hh]
    · have h2 : ¬ t < E.median := fun h => hh (this.2 h)
      simp [hh, h2]

example : verify { height := 5, median := 0, sigHash := .empty, verifySig := fun _ _ _ => false, sha := id }
    (.above 5) [] [] = .ok () := by rfl
example : verify { height := 4, median := 0, sigHash := .empty, verifySig := fun _ _ _ => false, sha := id }
    (.above 5) [] [] = .error .height := by rfl
example : verify { height := 0, median := 6, sigHash := .empty, verifySig := fun _ _ _ => false, sha := id }
    (.after 5) [] [] = .ok () := by rfl
example : verify { height := 0, median := 5, sigHash := .empty, verifySig := fun _ _ _ => false, sha := id }
    (.after 5) [] [] = .error .time := by rfl

/-! ## Thresholds -/

/-- A threshold is accepted only if EXACTLY `n` children are revealed (not opaque) and none
    is an unlock-conditions policy. In particular an `n+1`-th revealed child is rejected,
    whatever the witnesses. No hypothesis on limits or times. -/
theorem c14_threshold_exact (E : Env) (n : Nat) (subs : List Policy) (sigs pres : List ByteArray)
    (h : verify E (.thresh n subs) sigs pres = .ok ()) :
    revealed subs = n ∧ ∀ c, Policy.uc c ∉ subs := by
  unfold verify at h
  cases hv : verifyP E (.thresh n subs) ⟨sigs, pres, 0⟩ with
  | error e => rw [hv] at h; simp at h
  | ok st =>
    simp only [verifyP] at hv
    split at hv
    · simp at hv
    · exact ⟨by simpa using verifySubs_revealed E n subs 0 _ st hv,
        fun c hc => verifySubs_uc_child E n subs 0 _ st c hc hv⟩

/-- legacy unlock conditions cannot be sub-policies -/
theorem c14_uc_not_subpolicy (E : Env) (n : Nat) (subs : List Policy) (c : UnlockConditions)
    (sigs pres : List ByteArray) (hc : Policy.uc c ∈ subs) :
    verify E (.thresh n subs) sigs pres ≠ .ok () :=
  fun h => (c14_threshold_exact E n subs sigs pres h).2 c hc

example : revealed [Policy.above 1, .opaque .empty, .hash .empty] = 2 := by decide

/-- 2-of-3 with one branch opaque: accepted; the same witnesses with the third branch revealed
    too (an `n+1`-th revealed child): "threshold exceeded"; with only one revealed: "not reached";
    an unlock-conditions child: rejected as such -/
example :
    let E : Env := { height := 10, median := 100, sigHash := ⟨#[7]⟩, verifySig := fun k _ s => k == s, sha := id }
    verify E (.thresh 2 [.pk ⟨#[1]⟩, .opaque ⟨#[9]⟩, .above 3]) [⟨#[1]⟩] [] = .ok () ∧
    verify E (.thresh 2 [.pk ⟨#[1]⟩, .above 2, .above 3]) [⟨#[1]⟩] [] = .error .exceeded ∧
    verify E (.thresh 2 [.pk ⟨#[1]⟩, .opaque ⟨#[9]⟩, .opaque ⟨#[8]⟩]) [⟨#[1]⟩] [] = .error .notReached ∧
    verify E (.thresh 0 [.uc ⟨0, [], 0⟩]) [] [] = .error .ucSub ∧
    verify E (.uc ⟨0, [], 0⟩) [] [] = .ok () := by
  refine ⟨by rfl, by rfl, by rfl, by rfl, by rfl⟩

/-! ## Complexity limits; totality -/

/-- More than `maxPolicies` (1024) sub-policies in total, or a threshold with more than
    `maxChildren` (255) children anywhere in the tree, is rejected — whatever the
    witnesses. `verify` is a total function (Lean's termination checker accepted its
    structural recursion), so "rejects rather than hangs". -/
theorem c14_limits_reject (E : Env) (p : Policy) (sigs pres : List ByteArray)
    (h : maxPolicies < p.subCount ∨ p.breadthLe maxChildren = false) :
    verify E p sigs pres ≠ .ok () := by
  intro hv
  unfold verify at hv
  cases hp : verifyP E p ⟨sigs, pres, 0⟩ with
  | error e => rw [hp] at hv; simp at hv
  | ok st =>
    obtain ⟨l1, l2, l3⟩ := verifyP_limits E p _ st (Nat.zero_le _) hp
    simp only [Nat.zero_add] at l1
    rcases h with h | h
    · omega
    · rw [l3] at h; cases h

example : (Policy.thresh 0 (List.replicate 256 (.opaque .empty))).breadthLe maxChildren = false := by
  simp only [Policy.breadthLe, List.length_replicate, maxChildren]; rfl

/-! ## Witnesses: nothing left over, nothing unchecked -/

/-- what `verify = ok` means operationally: the inner run succeeded and BOTH witness cursors
    are exhausted -/
theorem verify_ok_iff (E : Env) (p : Policy) (sigs pres : List ByteArray) :
    verify E p sigs pres = .ok () ↔ ∃ t, verifyP E p ⟨sigs, pres, 0⟩ = .ok ⟨[], [], t⟩ := by
  unfold verify
  cases hv : verifyP E p ⟨sigs, pres, 0⟩ with
  | error e => simp
  | ok st =>
    obtain ⟨s, pr, t⟩ := st
    cases s <;> cases pr <;> simp

/-- **No witness may be left unused.** If a policy is accepted with some witnesses, then
    supplying any surplus signature or preimage (appended to either list) is rejected. And by
    definition acceptance requires both witness lists to be consumed entirely.
    No hypothesis on limits or times. -/
theorem c14_no_leftover_witness (E : Env) (p : Policy) (sigs pres xs ys : List ByteArray)
    (h : verify E p sigs pres = .ok ()) (hx : xs ≠ [] ∨ ys ≠ []) :
    verify E p (sigs ++ xs) (pres ++ ys) ≠ .ok () := by
  obtain ⟨t, ht⟩ := (verify_ok_iff ..).1 h
  have := verifyP_frame E p sigs pres [] [] xs ys 0 t ht
  intro h2
  obtain ⟨t2, ht2⟩ := (verify_ok_iff ..).1 h2
  rw [this] at ht2
  simp at ht2
  rcases hx with hx | hx
  · exact hx ht2.1
  · exact hx ht2.2.1

example :
    let E : Env := { height := 10, median := 100, sigHash := ⟨#[7]⟩, verifySig := fun k _ s => k == s, sha := id }
    verify E (.thresh 1 [.pk ⟨#[1]⟩, .opaque ⟨#[9]⟩]) [⟨#[1]⟩] [] = .ok () ∧
    verify E (.thresh 1 [.pk ⟨#[1]⟩, .opaque ⟨#[9]⟩]) [⟨#[1]⟩, ⟨#[1]⟩] [] = .error .superSig ∧
    verify E (.thresh 1 [.pk ⟨#[1]⟩, .opaque ⟨#[9]⟩]) [⟨#[1]⟩] [⟨#[5]⟩] = .error .superPre := by
  refine ⟨by rfl, by rfl, by rfl⟩

/-- **Corrupting a witness causes rejection.** In an accepted (non-legacy) policy every supplied
    signature verifies under the key of some public-key leaf of the policy and every supplied
    preimage hashes to some hash leaf. Hence a signature that is invalid under every key of the
    policy — or a preimage whose hash is no leaf — anywhere in the witness lists is rejected. -/
theorem c14_corrupt_witness_rejected (E : Env) (p : Policy) (sigs pres : List ByteArray)
    (hu : p.isUC = false) (h : verify E p sigs pres = .ok ()) :
    (∀ x ∈ sigs, ∃ k, Policy.pk k ∈ p.leaves ∧ E.verifySig k E.sigHash x = true) ∧
    (∀ x ∈ pres, ∃ hh, Policy.hash hh ∈ p.leaves ∧ E.sha x = hh) := by
  obtain ⟨t, ht⟩ := (verify_ok_iff ..).1 h
  obtain ⟨us, ups, h1, h2, h3, h4⟩ := verifyP_consumed E p _ _ hu ht
  simp only [List.append_nil] at h1 h2
  subst h1; subst h2
  exact ⟨h3, h4⟩

/-- the same, in the form "replace the i-th signature by one that no key of the policy accepts" -/
theorem c14_corrupt_signature_rejected (E : Env) (p : Policy) (sigs pres : List ByteArray) (i : Nat)
    (bad : ByteArray) (hu : p.isUC = false) (hi : i < sigs.length)
    (hbad : ∀ k, Policy.pk k ∈ p.leaves → E.verifySig k E.sigHash bad = false) :
    verify E p (sigs.set i bad) pres ≠ .ok () := by
  intro h
  obtain ⟨k, hk, hv⟩ := (c14_corrupt_witness_rejected E p _ pres hu h).1 bad
    (List.mem_iff_getElem.2 ⟨i, by simpa using hi, by simp⟩)
  rw [hbad k hk] at hv; cases hv

/-- … and "replace the i-th preimage by one whose SHA-256 is not a hash leaf of the policy" -/
theorem c14_corrupt_preimage_rejected (E : Env) (p : Policy) (sigs pres : List ByteArray) (i : Nat)
    (bad : ByteArray) (hu : p.isUC = false) (hi : i < pres.length)
    (hbad : Policy.hash (E.sha bad) ∉ p.leaves) :
    verify E p sigs (pres.set i bad) ≠ .ok () := by
  intro h
  obtain ⟨hh, hk, hv⟩ := (c14_corrupt_witness_rejected E p sigs _ hu h).2 bad
    (List.mem_iff_getElem.2 ⟨i, by simpa using hi, by simp⟩)
  subst hv; exact hbad hk

example :
    let E : Env := { height := 10, median := 100, sigHash := ⟨#[7]⟩, verifySig := fun k _ s => k == s, sha := id }
    verify E (.thresh 2 [.pk ⟨#[1]⟩, .hash ⟨#[4]⟩]) [⟨#[1]⟩] [⟨#[4]⟩] = .ok () ∧
    verify E (.thresh 2 [.pk ⟨#[1]⟩, .hash ⟨#[4]⟩]) [⟨#[2]⟩] [⟨#[4]⟩] = .error .sig ∧
    verify E (.thresh 2 [.pk ⟨#[1]⟩, .hash ⟨#[4]⟩]) [⟨#[1]⟩] [⟨#[5]⟩] = .error .preimage := by
  refine ⟨by rfl, by rfl, by rfl⟩

/-! ## Legacy unlock conditions -/

/-- **Legacy unlock conditions need the required count of distinct listed keys.** If a `uc`
    policy is accepted then: the height has reached the timelock, no preimage was supplied,
    exactly `signaturesRequired` signatures were supplied, and there are strictly increasing
    positions `idx` in the key list (so: distinct listed keys, in list order), one per
    signature, such that the key at `idx[j]` is not an entropy key and — when it is of the
    recognised type ed25519 — the j-th signature verifies under it. (Keys of an unrecognised
    algorithm accept any signature: the code says so and the statement does not ask more.)
    The converse direction is part of `c14_verify_iff_meaning`. -/
theorem c14_uc_counts_distinct_listed_keys (E : Env) (c : UnlockConditions) (sigs pres : List ByteArray)
    (h : verify E (.uc c) sigs pres = .ok ()) :
    c.timelock ≤ E.height ∧ pres = [] ∧ sigs.length = c.signaturesRequired ∧
    ∃ idx : List Nat, idx.length = sigs.length ∧ idx.Pairwise (· < ·) ∧
      ∀ (j i : Nat) (s : ByteArray), idx[j]? = some i → sigs[j]? = some s →
        ∃ k, c.publicKeys[i]? = some k ∧ k.algorithm ≠ specEntropy ∧
          (k.algorithm = specEd25519 → E.verifySig (pad32 k.key) E.sigHash s = true) := by
  obtain ⟨t, ht⟩ := (verify_ok_iff ..).1 h
  simp only [verifyP] at ht
  split at ht
  · rename_i hh
    cases hl : ucLoop E c.publicKeys c.signaturesRequired sigs with
    | error e => rw [hl] at ht; simp at ht
    | ok r =>
      obtain ⟨req, sg⟩ := r
      rw [hl] at ht
      simp only at ht
      split at ht <;> simp at ht
      rename_i hr; subst hr
      obtain ⟨rfl, rfl, -⟩ := ht
      obtain ⟨used, hu, hlen, hm⟩ := (ucLoop_ok_iff ..).1 hl
      simp only [List.append_nil] at hu; subst hu
      exact ⟨hh, rfl, hlen, hm.indices⟩
  · simp at ht

/-- 2-of-3 multisig, signatures by the 1st and 3rd key: accepted; in the wrong order, or twice
    the same key: rejected -/
example :
    let E : Env := { height := 10, median := 100, sigHash := ⟨#[7]⟩,
                     verifySig := fun k _ s => s.size == 1 && k.extract 0 1 == s, sha := id }
    let key (b : UInt8) : UnlockKey := ⟨specEd25519, ⟨#[b]⟩⟩
    let c : UnlockConditions := ⟨10, [key 1, key 2, key 3], 2⟩
    verify E (.uc c) [⟨#[1]⟩, ⟨#[3]⟩] [] = .ok () ∧
    verify E (.uc c) [⟨#[3]⟩, ⟨#[1]⟩] [] = .error .ucNotReached ∧
    verify E (.uc c) [⟨#[1]⟩, ⟨#[1]⟩] [] = .error .ucNotReached ∧
    verify E (.uc c) [⟨#[1]⟩] [] = .error .ucNotReached := by
  refine ⟨by rfl, by rfl, by rfl, by rfl⟩

/-! ## Address commitment -/

/-- **Opaquification never changes the address.** Replacing any set of sub-policies, at any
    depth, by their opaque form (`PolicyOpaque`) leaves `Address()` unchanged — for every hash
    function `H` (no collision-freeness needed), in particular for BLAKE2b-256. -/
theorem c14_address_opaque_invariant (H : ByteArray → ByteArray) (p q : Policy) (h : Opq H p q) :
    addressWith H q = addressWith H p := h.address_eq.1

theorem c14_address_opaque_invariant_blake2b (p q : Policy) (h : Opq blake2b256 p q) :
    address q = address p := h.address_eq.1

/-- a non-trivial instance: hide the second child and, inside the first, its first child -/
example (H : ByteArray → ByteArray) (a b c : Policy) :
    Opq H (.thresh 1 [.thresh 2 [a, b], c])
          (.thresh 1 [.thresh 2 [policyOpaque H a, b], policyOpaque H c]) :=
  .inside (.same (.inside (.hide (.keep a) (.same (.keep b) .nil))) (.hide (.keep c) .nil))

/-- **An opaque branch is unusable.** (1) An opaque policy is never accepted, and has no
    meaning (`Sat` is `False`). (2) In a threshold that was accepted, replacing any revealed
    child by its opaque form makes the threshold rejected for EVERY choice of witnesses. -/
theorem c14_opaque_unusable (E : Env) (H : ByteArray → ByteArray) :
    (∀ p sigs pres, verify E (policyOpaque H p) sigs pres = .error .opaque) ∧
    (∀ a s pr s' pr', ¬ Sat E (.opaque a) s pr s' pr') ∧
    (∀ n l1 c l2 sigs pres sigs' pres', c.isOpaque = false →
      verify E (.thresh n (l1 ++ c :: l2)) sigs pres = .ok () →
      verify E (.thresh n (l1 ++ policyOpaque H c :: l2)) sigs' pres' ≠ .ok ()) := by
  refine ⟨?_, ?_, ?_⟩
  · intro p sigs pres
    cases p <;> simp [policyOpaque, verify, verifyP]
  · intro a s pr s' pr' h; simp [Sat] at h
  · intro n l1 c l2 sigs pres sigs' pres' hc h1 h2
    have r1 := (c14_threshold_exact E n _ sigs pres h1).1
    have r2 := (c14_threshold_exact E n _ sigs' pres' h2).1
    simp only [revealed, List.filter_append, List.filter_cons, List.length_append,
      policyOpaque_isOpaque, hc, Bool.not_true, Bool.not_false, Bool.false_eq_true, if_false, if_true,
      List.length_cons] at r1 r2
    omega

/-- **The hand-unrolled fast paths equal the general definition.**
    `StandardAddress(pk) = PolicyPublicKey(pk).Address()`; and, for a 32-byte key,
    `StandardUnlockHash(pk)` — with its two precomputed leaf hashes `tl`, `sr` being the leaf
    hashes of `uint64(0)` and `uint64(1)` — equals the address of the standard unlock
    conditions policy. For every `H`. -/
theorem c14_standard_address (H : ByteArray → ByteArray) (pk : ByteArray) :
    standardAddress H pk = addressWith H (.pk pk) ∧
    (pk.size = 32 →
      standardUnlockHash H (leafHash H (le64 0)) (leafHash H (le64 1)) pk
        = addressWith H (.uc ⟨0, [⟨specEd25519, pk⟩], 1⟩)) := by
  constructor
  · simp [standardAddress, addressWith, encode, encPolicy, policyVersion, opPublicKey, ByteArray.append_assoc]
  · intro hs
    simp [standardUnlockHash, addressWith, ucRoot, ucRootG, merkleRootG, accAddG, accRootG, leafHash, nodeHash,
      encUnlockKey, hs, ByteArray.append_assoc]

/-- instance with the real BLAKE2b-256 and a concrete 32-byte key -/
example :
    standardUnlockHash blake2b256 (leafHash blake2b256 (le64 0)) (leafHash blake2b256 (le64 1)) (Bytes.zeros 32)
      = address (.uc ⟨0, [⟨specEd25519, Bytes.zeros 32⟩], 1⟩) :=
  (c14_standard_address blake2b256 (Bytes.zeros 32)).2 (by decide)

/-- the two precomputed constants in `StandardUnlockHash` (read from hash.go by the extractor)
    ARE the BLAKE2b-256 leaf hashes of `uint64(0)` and `uint64(1)` — evaluated in the kernel
    with the real BLAKE2b of `SiaModel/Prim`. -/
theorem tie_standard_unlock_leaf_constants :
    hexEncode (leafHash blake2b256 (le64 0)) = Gen.FactsPolicy.timelockHashHex ∧
    hexEncode (leafHash blake2b256 (le64 1)) = Gen.FactsPolicy.sigsrequiredHashHex := by
  constructor <;> decide +kernel

/-! ## The standard fast path of `UnlockConditions.UnlockHash`; injectivity on unlock conditions -/

/-- the model's fast-path condition, spelled out -/
theorem c14_fastpath_condition (c : UnlockConditions) :
    fastPathCond c = true ↔
      (c.timelock = 0 ∧ (∃ k, c.publicKeys = [k] ∧ k.algorithm = specEd25519 ∧ k.key.size = 32)
        ∧ c.signaturesRequired = 1) := by
  unfold fastPathCond
  match h : c.publicKeys with
  | [] => simp
  | [k] => simp [Bool.and_eq_true]; constructor <;> (intro h; simp_all)
  | _ :: _ :: _ => simp

/-- **The fast path is the same Merkle tree in closed form.** `UnlockConditions.UnlockHash`
    (with the two precomputed constants being the leaf hashes of 0 and 1 —
    `tie_standard_unlock_leaf_constants`) always equals `unlockConditionsRoot`, i.e. the address
    of the `uc` policy: the fast path never changes the value. -/
theorem c14_unlock_hash_fastpath (H : ByteArray → ByteArray) (c : UnlockConditions) :
    unlockHash H (leafHash H (le64 0)) (leafHash H (le64 1)) c = addressWith H (.uc c) := by
  unfold unlockHash
  by_cases hf : fastPathCond c = true
  · obtain ⟨h0, ⟨k, hk, ha, hs⟩, h1⟩ := (c14_fastpath_condition c).1 hf
    obtain ⟨tl, ks, req⟩ := c
    obtain ⟨alg, key⟩ := k
    simp only at h0 hk ha hs h1
    subst h0; subst hk; subst ha; subst h1
    simp only [hf, if_true]
    exact (c14_standard_address H key).2 hs
  · simp [hf, addressWith]

/-- The special cases of the address code, read from the Go source: the standard fast path
    exists in `UnlockConditions.UnlockHash` ONLY (not in `unlockConditionsRoot`, not in
    `SpendPolicy.Address`), it is guarded by exactly these five conjuncts, both callers fall
    through to `unlockConditionsRoot` — and the model's `unlockHash` takes its fast path under
    exactly that condition (`fastPathCond`), its `address` never. -/
theorem tie_standard_fastpath_condition :
    Gen.FactsPolicy.unlockHashFastPath =
      ["uc.Timelock == 0", "len(uc.PublicKeys) == 1", "uc.PublicKeys[0].Algorithm == SpecifierEd25519",
       "len(uc.PublicKeys[0].Key) == len(PublicKey{})", "uc.SignaturesRequired == 1"] ∧
    Gen.FactsPolicy.ucRootFastPath = [] ∧ Gen.FactsPolicy.addressFastPath = [] ∧
    Gen.FactsPolicy.addressUcReturn = "unlockConditionsRoot(UnlockConditions(uc))" ∧
    Gen.FactsPolicy.unlockHashFallthrough = "unlockConditionsRoot(uc)" ∧
    (∀ H tl sr c, fastPathCond c = false → unlockHash H tl sr c = ucRoot H c) ∧
    (∀ H tl sr c k, fastPathCond c = true → c.publicKeys = [k] →
      unlockHash H tl sr c = standardUnlockHash H tl sr k.key) ∧
    (∀ H c, addressWith H (.uc c) = ucRoot H c) := by
  refine ⟨by decide, by decide, by decide, by decide, by decide, ?_, ?_, ?_⟩
  · intro H tl sr c h; simp [unlockHash, h]
  · intro H tl sr c k h hk; simp [unlockHash, h, hk]
  · intro H c; simp [addressWith]

/-- **The address of a legacy unlock-conditions policy determines the unlock conditions**
    (under `HashInj`: the two Merkle hash constructors are injective and disjoint — "up to a
    BLAKE2b collision"): timelock, every key with its ALGORITHM SPECIFIER and length, and the
    required count are all bound. Over an abstract hash algebra. `WF`: uint64 fields, 16-byte
    specifiers. -/
theorem c14_address_injective_on_uc {D : Type} (leaf : ByteArray → D) (node : D → D → D) (zero : D)
    (h : HashInj leaf node) (c c' : UnlockConditions) (hc : c.WF) (hc' : c'.WF)
    (e : ucRootG leaf node zero c = ucRootG leaf node zero c') : c = c' :=
  ucRootG_inj h zero c c' hc hc' e

/-- … for the byte-level model, for `SpendPolicy.Address` and — across the fast path — for
    `UnlockConditions.UnlockHash`: two different unlock conditions never share an address or an
    unlock hash, standard-shaped or not. -/
theorem c14_address_injective_on_uc_bytes (H : ByteArray → ByteArray)
    (h : HashInj (leafHash H) (nodeHash H)) (c c' : UnlockConditions) (hc : c.WF) (hc' : c'.WF) :
    (addressWith H (.uc c) = addressWith H (.uc c') → c = c') ∧
    (unlockHash H (leafHash H (le64 0)) (leafHash H (le64 1)) c
      = unlockHash H (leafHash H (le64 0)) (leafHash H (le64 1)) c' → c = c') := by
  constructor
  · intro e; simp only [addressWith, ucRoot] at e; exact ucRootG_inj h _ c c' hc hc' e
  · intro e
    rw [c14_unlock_hash_fastpath, c14_unlock_hash_fastpath] at e
    simp only [addressWith, ucRoot] at e; exact ucRootG_inj h _ c c' hc hc' e

/-- `HashInj` is satisfiable (the free term algebra), so the theorem is not vacuous; and in that
    model the standard conditions of a key and the same key under another algorithm specifier
    have different roots -/
example : HashInj MTree.leaf MTree.node := MTree.hashInj_free
example (K : ByteArray) (hK : K.size < 18446744073709551616) :
    ucRootG MTree.leaf MTree.node (.leaf .empty) ⟨0, [⟨specEd25519, K⟩], 1⟩
      ≠ ucRootG MTree.leaf MTree.node (.leaf .empty) ⟨0, [⟨specEntropy, K⟩], 1⟩ := by
  intro e
  have wf : ∀ a : ByteArray, a.size = 16 → UnlockConditions.WF ⟨0, [⟨a, K⟩], 1⟩ := by
    intro a ha
    refine ⟨by simp, by simp, ?_⟩
    intro k hk; simp at hk; subst hk; exact ⟨ha, hK⟩
  have := c14_address_injective_on_uc _ _ _ MTree.hashInj_free _ _ (wf _ (by decide)) (wf _ (by decide)) e
  simp at this
  exact spec_ed_ne_entropy this

/-! ## Lifted to transactions: every input is verified -/

theorem validateInputsFrom_ok_iff (H : ByteArray → ByteArray) (E : Env) (idx : Nat) (ins : List TxInput) :
    validateInputsFrom H E idx ins = .ok () ↔
      ∀ i ∈ ins, addressWith H i.policy = i.parentAddress ∧ verify E i.policy i.sigs i.pres = .ok () := by
  induction ins generalizing idx with
  | nil => simp [validateInputsFrom]
  | cons i rest ih =>
    simp only [validateInputsFrom, validateSpendPolicy, List.mem_cons, forall_eq_or_imp]
    by_cases ha : addressWith H i.policy = i.parentAddress
    · cases hv : verify E i.policy i.sigs i.pres with
      | error e => simp [ha]
      | ok u => cases u; simp [ha, ih]
    · simp [ha]

/-- **A transaction is accepted (as far as spend policies go) exactly when EVERY input's policy
    is the one its parent's address commits to and is satisfied by that input's own witnesses**
    — no input can ride on another's verification, whether they share an address, a key, or the
    very same `SatisfiedPolicy`. With `c14_verify_iff_meaning`: … exactly when every input's
    policy holds (`Sat`, nothing left over) within the complexity limits. -/
theorem c14_transaction_inputs_all_verified (H : ByteArray → ByteArray) (E : Env) (ins : List TxInput) :
    (validateInputs H E ins = .ok () ↔
      ∀ i ∈ ins, addressWith H i.policy = i.parentAddress ∧ verify E i.policy i.sigs i.pres = .ok ()) ∧
    ((∀ i ∈ ins, SaneTimes E i.policy.leaves) →
      (validateInputs H E ins = .ok () ↔
        ∀ i ∈ ins, addressWith H i.policy = i.parentAddress ∧ Sat E i.policy i.sigs i.pres [] [] ∧
          i.policy.subCount ≤ maxPolicies ∧ i.policy.breadthLe maxChildren = true)) := by
  refine ⟨validateInputsFrom_ok_iff H E 0 ins, fun hT => ?_⟩
  rw [validateInputs, validateInputsFrom_ok_iff]
  constructor
  · intro h i hi
    exact ⟨(h i hi).1, (c14_verify_iff_meaning E i.policy i.sigs i.pres (hT i hi)).1 (h i hi).2⟩
  · intro h i hi
    exact ⟨(h i hi).1, (c14_verify_iff_meaning E i.policy i.sigs i.pres (hT i hi)).2 (h i hi).2⟩

/-- two inputs at the same address with the same policy: a good one first does not excuse a bad
    one (and vice versa) -/
example :
    let E : Env := { height := 10, median := 100, sigHash := ⟨#[7]⟩, verifySig := fun k _ s => k == s, sha := id }
    let p := Policy.pk ⟨#[1]⟩
    let a := addressWith id p
    (validateInputs id E [⟨p, [⟨#[1]⟩], [], a⟩, ⟨p, [⟨#[1]⟩], [], a⟩]).isOk = true ∧
    (validateInputs id E [⟨p, [⟨#[1]⟩], [], a⟩, ⟨p, [⟨#[2]⟩], [], a⟩]).isOk = false ∧
    (validateInputs id E [⟨p, [⟨#[2]⟩], [], a⟩, ⟨p, [⟨#[1]⟩], [], a⟩]).isOk = false ∧
    (validateInputs id E [⟨p, [⟨#[1]⟩], [], a⟩, ⟨p, [], [], a⟩]).isOk = false := by
  refine ⟨by decide +kernel, by decide +kernel, by decide +kernel, by decide +kernel⟩

/-- The shape of the code that the transaction-level model mirrors, read from
    consensus/validation.go: `validateV2SpendPolicy` is called unconditionally, as a direct
    statement of the `range` loop over every siacoin / siafund input (no `continue`/`break`), once
    per function; its body is exactly: address comparison → error, `Policy.Verify(parent height,
    median timestamp, sigHash, signatures, preimages)` → error, `return nil` — no other branch
    (memo, cache, skip) and no extra parameter. -/
theorem tie_consensus_policy_loop :
    Gen.FactsPolicy.spendPolicyParams =
      ["ms *MidState", "sigHash types.Hash256", "sp types.SatisfiedPolicy", "parentAddress types.Address",
       "parentID types.Hash256"] ∧
    Gen.FactsPolicy.spendPolicyShape = "if-chain;return nil" ∧
    Gen.FactsPolicy.spendPolicyChain =
      ["sp.Policy.Address() != parentAddress => error",
       "err := sp.Policy.Verify(ms.base.Index.Height, ms.base.medianTimestamp(), sigHash, sp.Signatures, sp.Preimages); err != nil => error"] ∧
    Gen.FactsPolicy.siacoinPolicyLoop =
      ["for i, sci := range txn.SiacoinInputs",
       "unconditional: err := validateV2SpendPolicy(ms, sigHash, sci.SatisfiedPolicy, sci.Parent.SiacoinOutput.Address, types.Hash256(sci.Parent.ID)); err != nil",
       "continue/break in loop: 0", "calls in function: 1"] ∧
    Gen.FactsPolicy.siafundPolicyLoop =
      ["for i, sfi := range txn.SiafundInputs",
       "unconditional: err := validateV2SpendPolicy(ms, sigHash, sfi.SatisfiedPolicy, sfi.Parent.SiafundOutput.Address, types.Hash256(sfi.Parent.ID)); err != nil",
       "continue/break in loop: 0", "calls in function: 1"] := by
  refine ⟨by decide, by decide, by rfl, by rfl, by rfl⟩

/-! ## Decoder nesting limit -/

/-- `readPolicy(depth)` fails beyond `maxPolicyDepth`, before reading anything -/
theorem c14_decode_depth_limit (b : ByteArray) (depth off : Nat) (h : maxPolicyDepth < depth) :
    decodeP b depth off = none := by
  rw [decodeP]; simp [h]

/-! ## Ties: constants read from the Go source = constants the model uses -/

theorem tie_maxPolicies : Gen.FactsPolicy.maxPolicies = maxPolicies := by decide
theorem tie_maxChildren : Gen.FactsPolicy.maxChildren = maxChildren := by decide
theorem tie_maxPolicyDepth : Gen.FactsPolicy.maxPolicyDepth = maxPolicyDepth := by decide

/-- the complexity test and the two lock comparisons, as source text -/
theorem tie_verify_conditions :
    Gen.FactsPolicy.complexityCond = "totalPolicies > maxPolicies || len(p.Of) > 255" ∧
    Gen.FactsPolicy.aboveCond = "height >= uint64(p)" ∧
    Gen.FactsPolicy.afterCond = "medianTimestamp.After(time.Time(p))" := by decide

/-- opcode tables of `encodePolicy` and `DecodeFrom` agree with each other and with the model -/
theorem tie_opcodes :
    Gen.FactsPolicy.encOpcodes = Gen.FactsPolicy.decOpcodes ∧
    Gen.FactsPolicy.encOpcodes =
      [("opInvalid", 0), ("opAbove", opAbove), ("opAfter", opAfter), ("opPublicKey", opPublicKey),
       ("opHash", opHash), ("opThreshold", opThreshold), ("opOpaque", opOpaque),
       ("opUnlockConditions", opUnlockConditions)] ∧
    Gen.FactsPolicy.encFirstOp =
      [("PolicyTypeAbove", "opAbove"), ("PolicyTypeAfter", "opAfter"), ("PolicyTypePublicKey", "opPublicKey"),
       ("PolicyTypeHash", "opHash"), ("PolicyTypeThreshold", "opThreshold"), ("PolicyTypeOpaque", "opOpaque"),
       ("PolicyTypeUnlockConditions", "opUnlockConditions")] := by decide

theorem tie_versions :
    Gen.FactsPolicy.encVersion = policyVersion ∧ Gen.FactsPolicy.decVersion = policyVersion ∧
    Gen.FactsPolicy.standardAddressVersion = policyVersion ∧
    Gen.FactsPolicy.standardAddressOp = opPublicKey := by decide

theorem tie_address_prefix :
    ("sia/" ++ Gen.FactsPolicy.addressDistinguisher ++ "|").toUTF8 = addressPrefix ∧
    Gen.FactsPolicy.distinguisherShape = "\"sia/\" + p + \"|\"" ∧
    Gen.FactsPolicy.standardAddressPrefix.toUTF8 = addressPrefix := by decide

theorem tie_specifiers :
    specifier Gen.FactsPolicy.specifierEd25519 = specEd25519 ∧
    specifier Gen.FactsPolicy.specifierEntropy = specEntropy := by decide

end C14
