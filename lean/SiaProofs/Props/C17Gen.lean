import SiaProofs.Props.C17
import SiaProofs.Props.C17Renew
import SiaProofs.Props.C07Gen
/-!
# C17 — constructor output is consensus-valid, BOTH ends regenerated

`C17.lean` / `C17Renew.lean` prove that the output of the rhp/v4 constructors (regenerated from
`rhp/v4/rhp.go`) is accepted by the hand-written consensus rules.  `C07Gen.lean` proves those
hand-written rules equivalent to the rule chains regenerated from `consensus/validation.go`.
Composed: the regenerated constructor's output is accepted by the regenerated validator, as soon
as the signatures verify (`ext` is arbitrary: the statements hold for every signature scheme,
every sighash function and every accumulator).
-/
namespace C17
open Gen.Types Gen.Rhp4 Gen.Consensus C15 C07

/-- A successful payment, signed by the contract's current keys, passes the rule chain of
`validateRevision` as it stands in `consensus/validation.go` now. -/
theorem c17_pay_revision_valid_gen (ext : Ext) (ms : MidState) (fc fc' : V2FileContract) (u : Usage)
    (hfc : FCWF fc) (hu : UsageWF u) (live : Live (chOf ms) fc)
    (h : PayWithContract fc u = .ok (fc', none))
    (sigs : validateV2FileContracts_validateSignatures ext ms fc' fc.RenterPublicKey fc.HostPublicKey = none) :
    validateV2FileContracts_validateRevisionRules ext fc fc' ms = .ok none :=
  (tie_validateRevision_gen ext ms fc fc').1.mpr
    ⟨(c17_pay_revision_valid (chOf ms) (ephOf ms) fc fc' u hfc hu live h).1, sigs⟩

/-- A freshly formed contract, signed by its own keys, passes `validateContract` as it stands in
`consensus/validation.go` now. -/
theorem c17_new_contract_valid_gen (ext : Ext) (ms : MidState) (p : HostPrices) (cp : RPCFormContractParams)
    (hk ha : ByteArray) (fc : V2FileContract) (u : Usage)
    (hp : WF p.ContractPrice) (hal : WF cp.Allowance) (hco : WF cp.Collateral)
    (hph : cp.ProofHeight + 144 < W) (hch : chOf ms ≤ cp.ProofHeight) (hnz : val cp.Allowance ≠ 0)
    (h : NewContract p cp hk ha = .ok (fc, u))
    (sigs : validateV2FileContracts_validateSignatures ext ms fc fc.RenterPublicKey fc.HostPublicKey = none) :
    validateV2FileContracts_validateContract ext ms fc = none :=
  (tie_validateContract_gen ext ms fc).mpr
    ⟨(c17_new_contract_valid (chOf ms) p cp hk ha fc u hp hal hco hph hch hnz h).1, sigs⟩

/-- A renewal built by `RenewContract`, with the new contract signed by its own keys and the
renewal signed by the keys of the renewed contract, passes the renewal case of
`validateV2FileContracts` as it stands in `consensus/validation.go` now. -/
theorem c17_renew_valid_gen (ext : Ext) (ms : MidState) (i : Int) (fc : V2FileContract) (p : HostPrices)
    (addr : ByteArray) (rp : RPCRenewContractParams) (rn : V2FileContractRenewal) (u : Usage)
    (hfc : FCWF fc) (hp : PricesWF p) (ha : WF rp.Allowance) (hc : WF rp.Collateral)
    (hph : rp.ProofHeight + 144 < W) (hnz : val rp.Allowance ≠ 0) (hch : chOf ms ≤ rp.ProofHeight)
    (fits_old : val fc.RenterOutput.Value + val fc.HostOutput.Value < W2)
    (h : RenewContract fc p addr rp = .ok (rn, u))
    (fits_new : val rn.NewContract.RenterOutput.Value + val rn.NewContract.HostOutput.Value + tax rn.NewContract < W2)
    (sigsNew : validateV2FileContracts_validateSignatures ext ms rn.NewContract rn.NewContract.RenterPublicKey rn.NewContract.HostPublicKey = none)
    (sigR : ext.VerifyHash fc.RenterPublicKey (ext.RenewalSigHash ms.base rn) rn.RenterSignature = true)
    (sigH : ext.VerifyHash fc.HostPublicKey (ext.RenewalSigHash ms.base rn) rn.HostSignature = true) :
    validateV2FileContracts_renewalRules ext rn fc i ms = .ok none :=
  (tie_renewal_gen ext ms fc rn i).1.mpr
    ⟨c17_renew_valid (chOf ms) fc p addr rp rn u hfc hp ha hc hph hnz hch fits_old h fits_new, sigsNew, sigR, sigH⟩

end C17
