import SiaModel.Ledger.Model
/-! # C08 — boundaries (theorems under development by the ledger proof work; see DESIGN.md §6 C08) -/
namespace C08
open Sia.Ledger

/-- v2 transactions are rejected below the allow height -/
theorem c08_v2_allowed_from (ms : Mid) (t : Txn2) (w : Nat) (h : ms.base.child < ms.base.P.v2Allow) :
    validateV2Transaction ms t w = reject "v2 transactions are not allowed until v2 hardfork begins" := by
  simp [validateV2Transaction, h, reject, bind, Except.bind]

/-- v1 transactions are rejected from the require height on -/
theorem c08_v1_forbidden_from (ms : Mid) (t : Txn1) (pid w : Nat) (h : ms.base.child ≥ ms.base.P.v2Require) :
    validateTransaction ms t pid w = reject "v1 transactions are not allowed after v2 hardfork is complete" := by
  simp [validateTransaction, h, reject, bind, Except.bind]

end C08
